(* Executable glue for the C12 correspondence: one case = (function id, modes, string arguments, the
   implementation's observed result), all as integers / code-point lists. check_case evaluates the model
   of Tokens.v on the arguments and compares. *)
From AB Require Import Prelude Tokens.

Record tcase := mkc {
  c_k : Z;                    (* which function *)
  c_sm : Z;                   (* 0 = _splitlines on str.splitlines (as found), 1 = split on LF only *)
  c_dm : Z;                   (* 0 = strftime, 1 = zero padded year *)
  c_rm : Z;                   (* raw_text setter: 0 = writes the text before parsing it, 1 = parses first *)
  c_args : list (list Z);
  c_exp : list (list Z) }.

Definition smode (z : Z) : split_mode := if z =? 0 then SplitPy else SplitNl.
Definition dmode (z : Z) : date_mode := if z =? 0 then DateStrftime else DatePadded.

Definition exn_code (e : exn) : Z :=
  match e with
  | ValueError => 1 | IndexError => 2 | KeyError => 3 | AssertionError => 4 | TypeError => 5
  | NotImplementedErr => 6 | OutOfFuel => 7 | ModelStuck => 8
  end.
Definition enc_res {A} (enc : A -> list (list Z)) (r : res A) : list (list Z) :=
  match r with Ok a => [0] :: enc a | Err e => [[1; exn_code e]] end.
Definition enc_lex (o : option Z) : list (list Z) := match o with Some n => [[n]] | None => [[-1]] end.
Definition arg (l : list (list Z)) (i : nat) : list Z := nth i l [].
Definition enc_str (s : str) : list (list Z) := [s].
Definition enc_date (v : date) : list (list Z) := let '(y, m, d) := v in [[y; m; d]].
Definition dec_date (l : list Z) : date := (nth 0 l 0, nth 1 l 0, nth 2 l 0).
Definition enc_num (v : decimal) : list (list Z) := let '(s, ds, e) := v in [s :: e :: ds].
Definition dec_num (l : list Z) : decimal := (nth 0 l 0, tl (tl l), nth 1 l 0).
Definition enc_bool (b : bool) : list (list Z) := [[if b then 1 else 0]].
Definition dec_bool (l : list Z) : bool := negb (nth 0 l 0 =? 0).

(* assignment histories: args = [cls; init_kind] :: init payload :: init indent :: (op kind :: payload)*
   result = one entry per step (creation included): [code]; raw; value (; indent) *)
Fixpoint pair_ops (l : list (list Z)) : list (Z * list Z) :=
  match l with k :: p :: r => (nth 0 k 0, p) :: pair_ops r | _ => [] end.

Section Hist.
  Context {V : Type}.
  Variable parse : str -> res V.
  Variable format : V -> str.
  Variable dec : list Z -> V.
  Variable enc : V -> list (list Z).
  Variable pf : bool.
  Definition enc_tok (t : tok V) (r : res unit) : list (list Z) :=
    [match r with Ok _ => 0 | Err e => exn_code e end] :: t_raw t :: enc (t_val t).
  Fixpoint hist_steps (t : tok V) (ops : list (Z * list Z)) : list (list Z) :=
    match ops with
    | [] => []
    | (k, p) :: r =>
      let o := if k =? 0 then SetRaw p else SetValue (dec p) in
      let '(t', rr) := sv_step parse format pf t o in
      enc_tok t' rr ++ hist_steps t' r
    end.
  Definition hist (init_kind : Z) (p : list Z) (ops : list (Z * list Z)) : list (list Z) :=
    if init_kind =? 0 then
      match sv_from_raw_text parse p with
      | Ok t => enc_tok t (Ok tt) ++ hist_steps t ops
      | Err e => [[exn_code e]]
      end
    else let t := sv_from_value format (dec p) in enc_tok t (Ok tt) ++ hist_steps t ops.
End Hist.

Definition enc_btok (t : btok) (r : res unit) : list (list Z) :=
  [[match r with Ok _ => 0 | Err e => exn_code e end]; b_raw t; b_value t; b_indent t].
Fixpoint bhist_steps (m : split_mode) (pf : bool) (t : btok) (ops : list (Z * list Z)) : list (list Z) :=
  match ops with
  | [] => []
  | (k, p) :: r =>
    let o := if k =? 0 then BSetRaw p else if k =? 1 then BSetValue p else BSetIndent p in
    let '(t', rr) := b_step m pf t o in
    enc_btok t' rr ++ bhist_steps m pf t' r
  end.
Definition bhist (m : split_mode) (pf : bool) (init_kind : Z) (p ind : list Z) (ops : list (Z * list Z)) : list (list Z) :=
  if init_kind =? 0 then
    match b_from_raw_text m p with
    | Ok t => enc_btok t (Ok tt) ++ bhist_steps m pf t ops
    | Err e => [[exn_code e]]
    end
  else let t := b_from_value m ind p in enc_btok t (Ok tt) ++ bhist_steps m pf t ops.

Definition run_hist (sm dm rm : Z) (args : list (list Z)) : list (list Z) :=
  let cls := nth 0 (arg args 0) 0 in
  let ik := nth 1 (arg args 0) 0 in
  let p := arg args 1 in
  let ind := arg args 2 in
  let ops := pair_ops (skipn 3 args) in
  let pf := negb (rm =? 0) in
  if cls =? 1 then hist string_parse string_format (fun x => x) enc_str pf ik p ops
  else if cls =? 2 then hist inline_parse inline_format (fun x => x) enc_str pf ik p ops
  else if cls =? 3 then hist tag_parse tag_format (fun x => x) enc_str pf ik p ops
  else if cls =? 4 then hist link_parse link_format (fun x => x) enc_str pf ik p ops
  else if cls =? 5 then hist metakey_parse metakey_format (fun x => x) enc_str pf ik p ops
  else if cls =? 6 then hist simple_parse simple_format (fun x => x) enc_str pf ik p ops
  else if cls =? 7 then bhist (smode sm) pf ik p ind ops
  else if cls =? 8 then hist date_parse (date_format (dmode dm)) dec_date enc_date pf ik p ops
  else if cls =? 9 then hist number_parse number_format dec_num enc_num pf ik p ops
  else if cls =? 11 then hist txflag_parse txflag_format (fun x => x) enc_str pf ik p ops
  else if cls =? 10 then hist bool_parse bool_format dec_bool enc_bool pf ik p ops
  else [[-99]].

Definition model_out (c : tcase) : list (list Z) :=
  let k := c_k c in
  let a := c_args c in
  let a0 := arg a 0 in
  if k =? 1 then [escape false a0]
  else if k =? 2 then [escape true a0]
  else if k =? 3 then [unescape a0]
  else if k =? 4 then enc_res enc_str (string_parse a0)
  else if k =? 5 then [string_format a0]
  else if k =? 6 then enc_lex (lex_string a0)
  else if k =? 7 then block_splitlines (smode (c_sm c)) a0
  else if k =? 8 then enc_res (fun p => [fst p; snd p]) (block_parse (smode (c_sm c)) a0)
  else if k =? 9 then [block_format (smode (c_sm c)) a0 (arg a 1)]
  else if k =? 10 then enc_lex (lex_block a0)
  else if k =? 11 then enc_res enc_str (inline_parse a0)
  else if k =? 12 then [inline_format a0]
  else if k =? 13 then enc_lex (lex_inline a0)
  else if k =? 14 then enc_res enc_date (date_parse a0)
  else if k =? 15 then [date_format (dmode (c_dm c)) (dec_date a0)]
  else if k =? 16 then enc_lex (lex_date a0)
  else if k =? 17 then enc_res enc_num (number_parse a0)
  else if k =? 18 then [number_format (dec_num a0)]
  else if k =? 19 then enc_lex (lex_number a0)
  else if k =? 20 then enc_res enc_str (tag_parse a0)
  else if k =? 21 then [tag_format a0]
  else if k =? 22 then enc_lex (lex_tag a0)
  else if k =? 23 then enc_res enc_str (link_parse a0)
  else if k =? 24 then [link_format a0]
  else if k =? 25 then enc_lex (lex_link a0)
  else if k =? 26 then enc_res enc_str (metakey_parse a0)
  else if k =? 27 then [metakey_format a0]
  else if k =? 28 then enc_lex (lex_metakey a0)
  else if k =? 29 then enc_res enc_bool (bool_parse a0)
  else if k =? 30 then [bool_format (dec_bool a0)]
  else if k =? 31 then enc_lex (lex_bool a0)
  else if k =? 32 then enc_lex (lex_null a0)
  else if k =? 33 then enc_res enc_str (simple_parse a0)
  else if k =? 34 then [simple_format a0]
  else if k =? 35 then [number_format_str (dec_num a0)]
  else if k =? 36 then enc_res enc_str (txflag_parse a0)
  else if k =? 37 then [txflag_format a0]
  else if k =? 38 then enc_lex (lex_txflag a0)
  else if k =? 39 then enc_lex (lex_pflag a0)
  else if k =? 41 then enc_lex (lex_account a0)
  else if k =? 42 then enc_lex (lex_currency a0)
  else if k =? 40 then run_hist (c_sm c) (c_dm c) (c_rm c) a
  else [[-99]].

Definition check_case (c : tcase) : bool := list_eqb (list_eqb Z.eqb) (model_out c) (c_exp c).
