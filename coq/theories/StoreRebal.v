(* _update_block and its three branches (rebuild in place, merge with a neighbour - both outcomes -,
   split): from a state where only block b may be stale to a state satisfying the invariant, with the
   same sequence of tokens. *)
From AB Require Export StoreBlocks.
From Coq Require Import ZifyBool.

Definition frame_ok (s s' : store) : Prop :=
  (forall t, tsz (s_toks s') t = tsz (s_toks s) t /\ txt s' t = txt s t) /\
  (forall t, ~ In t (abs s) -> tget (s_toks s') t = tget (s_toks s) t) /\ s_len s' = s_len s /\ s_id s' = s_id s.

Lemma blocks_split_at s i b : nth_error (s_blocks s) i = Some b ->
  s_blocks s = firstn i (s_blocks s) ++ [b] ++ skipn (S i) (s_blocks s).
Proof. intro H. exact (proj1 (nth_error_split_at _ _ _ H)). Qed.

Lemma seg_facts X s pre OLD post : InvG X s -> s_blocks s = pre ++ OLD ++ post ->
  NoDup (pre ++ OLD ++ post) /\
  (forall b, In b (pre ++ post) -> ~ In b OLD) /\
  abs s = flat_map (toks s) pre ++ flat_map (toks s) OLD ++ flat_map (toks s) post /\
  NoDup (flat_map (toks s) pre ++ flat_map (toks s) OLD ++ flat_map (toks s) post) /\
  (forall b, In b (pre ++ post) -> In b (s_blocks s)) /\ (forall b, In b OLD -> In b (s_blocks s)).
Proof.
  intros I E. pose proof (g_nd _ _ I) as ND. rewrite E in ND.
  assert (abs s = flat_map (toks s) pre ++ flat_map (toks s) OLD ++ flat_map (toks s) post) as Ea
    by (unfold abs; rewrite E, !flat_map_app; reflexivity).
  split; [assumption|]. split; [|split; [assumption|split; [rewrite <- Ea; apply (g_ndt _ _ I)|]]].
  - intros b Hb Ho. apply NoDup_app_iff in ND as (_ & N2 & D). apply NoDup_app_iff in N2 as (_ & _ & D2).
    apply in_app_or in Hb as [Hb|Hb]; [apply (D b Hb); apply in_or_app; auto|exact (D2 b Ho Hb)].
  - rewrite E. split; intros b Hb; [apply in_app_or in Hb as [?|?]|]; apply in_or_app; auto; right; apply in_or_app; auto.
Qed.

Lemma nodup_mid_replace {A} (pre OLD NEW post : list A) : NoDup (pre ++ OLD ++ post) -> NoDup NEW ->
  (forall x, In x NEW -> ~ In x pre /\ ~ In x post) -> NoDup (pre ++ NEW ++ post).
Proof.
  intros ND NN D. apply NoDup_app_iff in ND as (N1 & N2 & D1). apply NoDup_app_iff in N2 as (_ & N3 & _).
  apply NoDup_app_iff. split; [assumption|]. split.
  - apply NoDup_app_iff. split; [assumption|]. split; [assumption|]. intros x Hx. exact (proj2 (D x Hx)).
  - intros x Hx Hn. apply in_app_or in Hn as [Hn|Hn]; [exact (proj1 (D x Hn) Hx)|].
    apply (D1 x Hx). apply in_or_app; right; assumption.
Qed.

(* ---------- branch 3: rebuild in place ---------- *)
Lemma ub_rebuild s b : InvG (eq b) s -> In b (s_blocks s) -> (toks s b = [] -> s_blocks s = [b]) ->
  Inv0 (rebuild s b) /\ abs (rebuild s b) = abs s /\ frame_ok s (rebuild s b).
Proof.
  intros I Hb Hne. apply In_nth_error in Hb as [i Hi]. pose proof (blocks_split_at s i b Hi) as E.
  set (pre := firstn i (s_blocks s)) in *. set (post := skipn (S i) (s_blocks s)) in *.
  destruct (seg_facts _ s pre [b] post I E) as (ND & Dis & Ea & NDa & Hpp & Hold).
  assert (In b (s_blocks s)) as Hb by (apply Hold, in_eq).
  pose proof (inv_block_nodup _ s b I Hb) as NDb.
  destruct (seg_replace (eq b) (fun _ => False) s (rebuild s b) pre [b] [b] post (flat_map (toks s) [b]) I E) as [I' Ea'].
  - discriminate.
  - intros b0 H0 <-. apply (Dis b H0), in_eq.
  - rewrite rebuild_blocks. exact E.
  - discriminate.
  - exact ND.
  - rewrite rebuild_next, <- E. apply (g_lt _ _ I).
  - intros k b0 Hk. rewrite rebuild_bidx. apply (g_idx _ _ I). rewrite E. exact Hk.
  - intros b0 H0. assert (b0 <> b) as N by (intros ->; apply (Dis b H0), in_eq).
    unfold bsz, blnl. rewrite rebuild_toks, rebuild_heap_other by assumption. auto.
  - cbn [flat_map]. rewrite rebuild_toks. reflexivity.
  - exact NDa.
  - intro t. split; [apply rebuild_tsz|apply rebuild_txt].
  - intros t Hn _. apply rebuild_hnd_other. cbn [flat_map] in Hn. rewrite app_nil_r in Hn. exact Hn.
  - intros t Hn Ho. contradiction.
  - intros b0 [<-|[]] _. split; [apply rebuild_blk_ok; assumption|].
    rewrite rebuild_toks, <- E. exact Hne.
  - split; [exact I'|]. split; [rewrite Ea', Ea; reflexivity|].
    split; [intro t; split; [apply rebuild_tsz|apply rebuild_txt]|]. split; [|split; [apply rebuild_len|apply rebuild_sid]].
    intros t Ht. apply rebuild_tget_other. intro Hin. apply Ht. apply in_abs. exists b. auto.
Qed.

(* ---------- set_blk projections ---------- *)
Lemma set_blk_get s b r b' : bget (s_heap (set_blk s b r)) b' = if Pos.eqb b' b then r else bget (s_heap s) b'.
Proof.
  unfold set_blk. cbn. destruct (Pos.eqb_spec b' b) as [->|N]; [apply bget_add_same|apply bget_add_other; assumption].
Qed.
Lemma set_blk_toks s b r b' : toks (set_blk s b r) b' = if Pos.eqb b' b then b_toks r else toks s b'.
Proof. unfold toks. rewrite set_blk_get. destruct (Pos.eqb b' b); reflexivity. Qed.
Lemma set_blk_bidx s b r b' : bidx (set_blk s b r) b' = if Pos.eqb b' b then b_index r else bidx s b'.
Proof. unfold bidx. rewrite set_blk_get. destruct (Pos.eqb b' b); reflexivity. Qed.

Lemma two_split {A} (l : list A) : forall i a b, nth_error l i = Some a -> nth_error l (S i) = Some b ->
  l = firstn i l ++ [a; b] ++ skipn (S (S i)) l.
Proof.
  induction l as [|x r IH]; intros i a b Ha Hb; [destruct i; discriminate|].
  destruct i as [|i].
  - cbn in Ha, Hb. injection Ha as ->. destruct r as [|y r]; [discriminate|]. cbn in Hb. injection Hb as ->. reflexivity.
  - cbn [nth_error] in Ha, Hb. cbn [firstn skipn app]. f_equal. apply IH; assumption.
Qed.

Lemma firstn_S_nth {A} (l : list A) : forall i a, nth_error l i = Some a -> firstn (S i) l = firstn i l ++ [a].
Proof.
  induction l as [|x r IH]; intros i a H; [destruct i; discriminate|]. destruct i as [|i].
  - cbn in H. injection H as ->. reflexivity.
  - cbn [nth_error] in H. change (firstn (S (S i)) (x :: r)) with (x :: firstn (S i) r). rewrite (IH i a H). reflexivity.
Qed.

Lemma nodup_app_mid {A} (a b c : list A) : NoDup (a ++ b ++ c) -> NoDup b.
Proof. intro H. apply NoDup_app_iff in H as (_ & H & _). apply NoDup_app_iff in H. tauto. Qed.

(* ---------- branch 2: merge with a neighbour ---------- *)
Lemma merge_spec LF (X : positive -> Prop) s a b i s' r : 1 <= LF -> InvG X s ->
  nth_error (s_blocks s) i = Some a -> nth_error (s_blocks s) (S i) = Some b ->
  (forall x, X x -> x = a \/ x = b) -> toks s a ++ toks s b <> [] ->
  merge_blocks LF s a b = (s', r) ->
  r = Ok tt /\ Inv0 s' /\ abs s' = abs s /\ frame_ok s s'.
Proof.
  intros HLF I Ha Hb HXab Hne H.
  pose proof (two_split _ _ _ _ Ha Hb) as E.
  set (pre := firstn i (s_blocks s)) in *. set (post := skipn (S (S i)) (s_blocks s)) in *.
  destruct (seg_facts _ s pre [a; b] post I E) as (ND & Dis & Ea & NDa & Hpp & Hold).
  assert (a <> b) as Nab.
  { apply nodup_app_mid in ND. inversion ND as [|? ? Hx _]; subst. intros ->. apply Hx, in_eq. }
  assert (forall b0, In b0 (pre ++ post) -> b0 <> a /\ b0 <> b) as Hout.
  { intros b0 H0. split; intros ->; apply (Dis _ H0); [apply in_eq|apply in_cons, in_eq]. }
  assert (length pre = i) as Lpre by (apply (nth_error_split_at _ _ _ Ha)).
  assert (forall b0, In b0 (pre ++ post) -> ~ X b0) as HX.
  { intros b0 H0 Hx. destruct (Hout b0 H0). destruct (HXab b0 Hx); contradiction. }
  unfold merge_blocks in H. fold (toks s a) (toks s b) in H.
  set (atoks := toks s a ++ toks s b) in *.
  assert (flat_map (toks s) [a; b] = atoks) as Eold by (cbn [flat_map]; rewrite app_nil_r; reflexivity).
  assert (NoDup atoks) as NDat by (rewrite <- Eold; exact (nodup_app_mid _ _ _ NDa)).
  set (s1 := set_blk s a _) in H.
  assert (forall b0, toks s1 b0 = if Pos.eqb b0 a then atoks else toks s b0) as T1 by (intro; apply set_blk_toks).
  assert (forall b0, bidx s1 b0 = bidx s b0) as X1.
  { intro b0. unfold s1. rewrite set_blk_bidx. destruct (Pos.eqb_spec b0 a) as [->|]; reflexivity. }
  assert (forall b0, b0 <> a -> bget (s_heap s1) b0 = bget (s_heap s) b0) as G1.
  { intros b0 N. unfold s1. rewrite set_blk_get. destruct (Pos.eqb_spec b0 a); [contradiction|reflexivity]. }
  assert (toks s1 a = atoks) as T1a by (rewrite T1, Pos.eqb_refl; reflexivity).
  destruct (Z.ltb_spec (zlen atoks) (DOUBLE LF)) as [Lt|Ge].
  - (* everything fits into a *)
    set (s2 := rebuild s1 a) in H.
    change (b_index (bget (s_heap s2) b)) with (bidx s2 b) in H.
    assert (bidx s2 b = Z.of_nat (S i)) as Eb2 by (unfold s2; rewrite rebuild_bidx, X1; apply (g_idx _ _ I); assumption).
    rewrite Eb2 in H. unfold s2 in H at 1. rewrite rebuild_blocks in H. change (s_blocks s1) with (s_blocks s) in H.
    rewrite list_pop_nat in H by (eapply nth_error_in_len; eassumption).
    assert (firstn (S i) (s_blocks s) ++ skipn (S (S i)) (s_blocks s) = pre ++ [a] ++ post) as Ebs.
    { fold post. rewrite (firstn_S_nth _ _ _ Ha), <- app_assoc. reflexivity. }
    rewrite Ebs in H.
    set (s3 := with_blocks s2 (pre ++ [a] ++ post)) in *.
    assert (s' = update_block_indexes s3 (Z.of_nat (S i)) /\ r = Ok tt) as [-> ->]
      by (injection H as E1 E2; split; symmetry; [exact E1|exact E2]).
    clear H. split; [reflexivity|].
    assert (NoDup (pre ++ [a] ++ post)) as ND'.
    { apply (nodup_mid_replace pre [a; b] [a] post ND); [repeat constructor; intros []|].
      intros x [<-|[]]. split; intro Hc; apply (Dis a); try apply in_eq; apply in_or_app; auto. }
    destruct (seg_replace X (fun _ => False) s (update_block_indexes s3 (Z.of_nat (S i))) pre [a; b] [a] post atoks I E) as [I' Ea'].
    + discriminate.
    + exact HX.
    + rewrite ubi_blocks. reflexivity.
    + discriminate.
    + exact ND'.
    + rewrite ubi_next. change (s_next s3) with (s_next (rebuild s1 a)). rewrite rebuild_next. change (s_next s1) with (s_next s). intros b0 H0. apply (g_lt _ _ I). rewrite E.
      apply in_app_or in H0 as [?|H0]; apply in_or_app; auto. right.
      apply in_app_or in H0 as [[<-|[]]|?]; apply in_or_app; [left; apply in_eq|auto].
    + apply (ubi_idx s3 (S i) ND'). intros k b0 Hk Hn. change (s_blocks s3) with (pre ++ [a] ++ post) in Hn.
      change (bidx s3 b0) with (bidx s2 b0). unfold s2. rewrite rebuild_bidx, X1. apply (g_idx _ _ I).
      rewrite E. rewrite <- Hn. change (pre ++ [a; b] ++ post) with (pre ++ [a] ++ (b :: post)).
      rewrite !app_assoc. rewrite !(nth_error_app1 (pre ++ [a])) by (rewrite app_length; cbn; lia). reflexivity.
    + intros b0 H0. destruct (Hout b0 H0) as [Na Nb].
      unfold bsz, blnl. rewrite ubi_toks. change (toks s3 b0) with (toks s2 b0). unfold s2. rewrite rebuild_toks, T1.
      destruct (Pos.eqb_spec b0 a); [contradiction|]. split; [reflexivity|].
      fold (bsz (update_block_indexes s3 (Z.of_nat (S i))) b0) (blnl (update_block_indexes s3 (Z.of_nat (S i))) b0).
      rewrite ubi_bsz, ubi_blnl. unfold bsz, blnl. change (s_heap s3) with (s_heap (rebuild s1 a)).
      rewrite rebuild_heap_other, G1 by assumption. auto.
    + cbn [flat_map]. rewrite ubi_toks. change (toks s3 a) with (toks s2 a). unfold s2. rewrite rebuild_toks, T1a. apply app_nil_r.
    + rewrite <- Eold. exact NDa.
    + intro t. rewrite ubi_toksmap. change (s_toks s3) with (s_toks (rebuild s1 a)). unfold txt at 1. rewrite ubi_toksmap.
      change (t_text (tget (s_toks s3) t)) with (txt (rebuild s1 a) t). rewrite rebuild_tsz, rebuild_txt. auto.
    + intros t Hn _. rewrite ubi_hnd. change (hnd s3 t) with (hnd (rebuild s1 a) t).
      rewrite rebuild_hnd_other by (rewrite T1a; assumption). reflexivity.
    + intros t Hn Ho. rewrite Eold in Ho. contradiction.
    + intros b0 [<-|[]] _. split.
      * apply (blk_ok_frame (rebuild s1 a) _ a (rebuild_blk_ok s1 a ltac:(rewrite T1a; exact NDat))).
        -- rewrite ubi_toks. reflexivity.
        -- rewrite ubi_bsz. reflexivity.
        -- rewrite ubi_blnl. reflexivity.
        -- intros t _. rewrite ubi_hnd, ubi_toksmap. auto.
      * rewrite ubi_toks. change (toks s3 a) with (toks s2 a). unfold s2. rewrite rebuild_toks, T1a. intro; contradiction.
    + split; [exact I'|]. split; [rewrite Ea', Ea, Eold; reflexivity|]. split; [|split].
      * intro t. rewrite ubi_toksmap. unfold txt at 1. rewrite ubi_toksmap.
        change (s_toks s3) with (s_toks (rebuild s1 a)).
        change (t_text (tget (s_toks (rebuild s1 a)) t)) with (txt (rebuild s1 a) t). rewrite rebuild_tsz, rebuild_txt. auto.
      * intros t Ht. rewrite ubi_toksmap. change (s_toks s3) with (s_toks (rebuild s1 a)).
        rewrite rebuild_tget_other; [reflexivity|]. rewrite T1a. intro Hin. apply Ht. rewrite Ea, Eold.
        apply in_or_app; right; apply in_or_app; auto.
      * rewrite ubi_len, ubi_sid. change (s_len s3) with (s_len (rebuild s1 a)). change (s_id s3) with (s_id (rebuild s1 a)).
        rewrite rebuild_len, rebuild_sid. auto.
  - (* rebalance a and b *)
    set (len := Z.shiftr (zlen atoks) 1) in *.
    assert (len = zlen atoks / 2) as Elen by (unfold len; rewrite Z.shiftr_div_pow2 by lia; reflexivity).
    unfold DOUBLE in Ge.
    assert (1 <= len < zlen atoks) as Hlen.
    { rewrite Elen. split; [apply Z.div_le_lower_bound; lia|apply Z.div_lt; lia]. }
    set (s2 := set_blk s1 b _) in H. set (s3 := set_blk s2 a _) in H.
    assert (s' = rebuild (rebuild s3 a) b /\ r = Ok tt) as [-> ->]
      by (injection H as E1 E2; split; symmetry; [exact E1|exact E2]).
    clear H. split; [reflexivity|].
    assert (forall b0, toks s3 b0 = if Pos.eqb b0 a then zfirstn len atoks else if Pos.eqb b0 b then zskipn len atoks else toks s b0) as T3.
    { intro b0. unfold s3. rewrite set_blk_toks. destruct (Pos.eqb_spec b0 a) as [->|Na]; [reflexivity|].
      unfold s2. rewrite set_blk_toks. destruct (Pos.eqb_spec b0 b) as [->|Nb]; [reflexivity|].
      rewrite T1. destruct (Pos.eqb_spec b0 a); [contradiction|reflexivity]. }
    assert (forall b0, bidx s3 b0 = bidx s b0) as X3.
    { intro b0. unfold s3. rewrite set_blk_bidx. destruct (Pos.eqb_spec b0 a) as [->|Na].
      - cbn [b_index]. fold (bidx s2 a). unfold s2. rewrite set_blk_bidx. destruct (Pos.eqb_spec a b); [contradiction|]. apply X1.
      - unfold s2. rewrite set_blk_bidx. destruct (Pos.eqb_spec b0 b) as [->|Nb]; [cbn [b_index]; apply X1|apply X1]. }
    assert (forall b0, b0 <> a -> b0 <> b -> bget (s_heap s3) b0 = bget (s_heap s) b0) as G3.
    { intros b0 Na Nb. unfold s3. rewrite set_blk_get. destruct (Pos.eqb_spec b0 a); [contradiction|].
      unfold s2. rewrite set_blk_get. destruct (Pos.eqb_spec b0 b); [contradiction|]. apply G1; assumption. }
    assert (toks s3 a = zfirstn len atoks) as T3a by (rewrite T3, Pos.eqb_refl; reflexivity).
    assert (toks s3 b = zskipn len atoks) as T3b.
    { rewrite T3, Pos.eqb_refl. destruct (Pos.eqb_spec b a); [congruence|reflexivity]. }
    set (s4 := rebuild s3 a).
    pose proof NDat as NDsplit. rewrite <- (firstn_skipn (Z.to_nat len) atoks) in NDsplit.
    apply NoDup_app_iff in NDsplit as (NDf & NDs & Dfs).
    destruct (seg_replace X (fun _ => False) s (rebuild s4 b) pre [a; b] [a; b] post atoks I E) as [I' Ea'].
    + discriminate.
    + exact HX.
    + rewrite rebuild_blocks. unfold s4. rewrite rebuild_blocks. exact E.
    + discriminate.
    + exact ND.
    + rewrite rebuild_next. unfold s4. rewrite rebuild_next. change (s_next s3) with (s_next s). rewrite <- E. apply (g_lt _ _ I).
    + intros k b0 Hk. rewrite rebuild_bidx. unfold s4. rewrite rebuild_bidx, X3. apply (g_idx _ _ I). rewrite E. exact Hk.
    + intros b0 H0. destruct (Hout b0 H0) as [Na Nb]. unfold bsz, blnl.
      rewrite rebuild_toks, rebuild_heap_other by assumption. unfold s4.
      rewrite rebuild_toks, rebuild_heap_other, G3, T3 by assumption.
      destruct (Pos.eqb_spec b0 a); [contradiction|]. destruct (Pos.eqb_spec b0 b); [contradiction|]. auto.
    + cbn [flat_map]. rewrite !rebuild_toks. unfold s4. rewrite !rebuild_toks, T3a, T3b, app_nil_r. apply firstn_skipn.
    + rewrite <- Eold. exact NDa.
    + intro t. rewrite rebuild_tsz, rebuild_txt. unfold s4. rewrite rebuild_tsz, rebuild_txt. auto.
    + intros t Hn _. rewrite rebuild_hnd_other.
      * unfold s4. rewrite rebuild_hnd_other; [reflexivity|]. rewrite T3a. intro Hin. apply Hn. eapply in_firstn; eassumption.
      * unfold s4. rewrite rebuild_toks, T3b. intro Hin. apply Hn. eapply in_skipn; eassumption.
    + intros t Hn Ho. rewrite Eold in Ho. contradiction.
    + intros b0 [<-|[<-|[]]] _.
      * split.
        -- apply (blk_ok_frame s4 _ a (rebuild_blk_ok s3 a ltac:(rewrite T3a; exact NDf))).
           ++ apply rebuild_toks.
           ++ unfold bsz. rewrite rebuild_heap_other by assumption. reflexivity.
           ++ unfold blnl. rewrite rebuild_heap_other by assumption. reflexivity.
           ++ intros t Ht. unfold s4 in Ht. rewrite rebuild_toks, T3a in Ht. split; [|apply rebuild_tsz].
              apply rebuild_hnd_other. unfold s4. rewrite rebuild_toks, T3b. apply Dfs. exact Ht.
        -- rewrite rebuild_toks. unfold s4. rewrite rebuild_toks, T3a. intro Ee. exfalso.
           apply (f_equal (@length _)) in Ee. unfold zfirstn in Ee. rewrite firstn_length in Ee. unfold zlen in Hlen. cbn in Ee. lia.
      * split.
        -- apply rebuild_blk_ok. unfold s4. rewrite rebuild_toks, T3b. exact NDs.
        -- rewrite rebuild_toks. unfold s4. rewrite rebuild_toks, T3b. intro Ee. exfalso.
           apply (f_equal (@length _)) in Ee. unfold zskipn in Ee. rewrite skipn_length in Ee. unfold zlen in Hlen. cbn in Ee. lia.
    + split; [exact I'|]. split; [rewrite Ea', Ea, Eold; reflexivity|]. split; [|split].
      * intro t. rewrite rebuild_tsz, rebuild_txt. unfold s4. rewrite rebuild_tsz, rebuild_txt. auto.
      * intros t Ht. assert (~ In t atoks) as Hn.
        { intro Hin. apply Ht. rewrite Ea, Eold. apply in_or_app; right; apply in_or_app; auto. }
        rewrite rebuild_tget_other.
        -- unfold s4. rewrite rebuild_tget_other; [reflexivity|]. rewrite T3a. intro Hin. apply Hn. eapply in_firstn; eassumption.
        -- unfold s4. rewrite rebuild_toks, T3b. intro Hin. apply Hn. eapply in_skipn; eassumption.
      * rewrite rebuild_len, rebuild_sid. unfold s4. rewrite rebuild_len, rebuild_sid. auto.
Qed.

(* ---------- branch 1: split ---------- *)
Lemma split_spec LF s b s' r : 1 <= LF -> InvG (eq b) s -> In b (s_blocks s) -> toks s b <> [] ->
  split_block LF s b = (s', r) ->
  r = Ok tt /\ Inv0 s' /\ abs s' = abs s /\ frame_ok s s'.
Proof.
  intros HLF I Hb Hne H. apply In_nth_error in Hb as [i Hi]. pose proof (blocks_split_at s i b Hi) as E.
  set (pre := firstn i (s_blocks s)) in *. set (post := skipn (S i) (s_blocks s)) in *.
  destruct (seg_facts _ s pre [b] post I E) as (ND & Dis & Ea & NDa & Hpp & Hold).
  assert (In b (s_blocks s)) as Hb by (apply Hold, in_eq).
  pose proof (inv_block_nodup _ s b I Hb) as NDb.
  assert (length pre = i) as Lpre by (apply (nth_error_split_at _ _ _ Hi)).
  unfold split_block in H. fold (toks s b) (bidx s b) in H.
  destruct (build_blocks LF (length (toks s b)) s (bidx s b) (toks s b)) as [s1 r1] eqn:EB.
  destruct (build_blocks_spec LF HLF _ _ _ _ _ _ (le_n _) NDb EB) as (nbs & -> & HBB).
  destruct HBB as (B1 & B2 & B3 & B4 & B5 & B6 & B7 & B8 & B9 & B10 & B11 & B12 & B13).
  assert (forall b0, In b0 (s_blocks s) -> bget (s_heap s1) b0 = bget (s_heap s) b0) as Hfr.
  { intros b0 H0. apply B6. apply (g_lt _ _ I); assumption. }
  change (b_index (bget (s_heap s1) b)) with (bidx s1 b) in H.
  assert (bidx s1 b = Z.of_nat i) as Eidx by (unfold bidx; rewrite Hfr by assumption; apply (g_idx _ _ I); assumption).
  rewrite Eidx, B1 in H. replace (Z.of_nat i + 1) with (Z.of_nat (S i)) in H by lia.
  rewrite list_setslice_nat in H by (apply nth_error_in_len in Hi; lia). fold pre post in H.
  specialize (B10 Hne).
  destruct (rev nbs) as [|lastb rl] eqn:Er; [exfalso; apply B10; rewrite <- (rev_involutive nbs), Er; reflexivity|].
  apply rev_cons_inv in Er.
  set (s2 := with_blocks s1 (pre ++ nbs ++ post)) in *.
  change (b_index (bget (s_heap s2) lastb)) with (bidx s1 lastb) in H.
  assert (nth_error nbs (length (rev rl)) = Some lastb) as Hl by (rewrite Er; apply nth_error_app_mid).
  rewrite (B8 _ _ Hl), (g_idx _ _ I i b Hi) in H.
  assert (length nbs = S (length (rev rl))) as Ln by (rewrite Er, app_length; cbn; lia).
  replace (Z.of_nat i + Z.of_nat (length (rev rl)) + 1) with (Z.of_nat (i + length nbs)) in H by lia.
  assert (s' = update_block_indexes s2 (Z.of_nat (i + length nbs)) /\ r = Ok tt) as [-> ->]
    by (injection H as E1 E2; split; symmetry; [exact E1|exact E2]).
  clear H. split; [reflexivity|].
  assert (forall x, In x nbs -> ~ In x pre /\ ~ In x post) as Hfresh.
  { intros x Hx. apply B4 in Hx. split; intro Hc;
      assert (In x (s_blocks s)) as Hin by (apply Hpp; apply in_or_app; auto); apply (g_lt _ _ I) in Hin; lia. }
  assert (NoDup (pre ++ nbs ++ post)) as ND' by (apply (nodup_mid_replace pre [b] nbs post ND B5 Hfresh)).
  assert (forall t, ~ In t (toks s b) -> hnd s1 t = hnd s t) as Hh1 by (intros t Ht; apply hnd_ext_tget; [exact B13|apply B12; assumption]).
  destruct (seg_replace (eq b) (fun _ => False) s (update_block_indexes s2 (Z.of_nat (i + length nbs)))
              pre [b] nbs post (flat_map (toks s) [b]) I E) as [I' Ea'].
  - discriminate.
  - intros b0 H0 <-. apply (Dis b H0), in_eq.
  - rewrite ubi_blocks. reflexivity.
  - exact B10.
  - exact ND'.
  - rewrite ubi_next. change (s_next s2) with (s_next s1). intros b0 H0.
    apply in_app_or in H0 as [H0|H0]; [|apply in_app_or in H0 as [H0|H0]].
    + assert (In b0 (s_blocks s)) as Hin by (apply Hpp; apply in_or_app; auto). apply (g_lt _ _ I) in Hin. lia.
    + apply B4 in H0. lia.
    + assert (In b0 (s_blocks s)) as Hin by (apply Hpp; apply in_or_app; auto). apply (g_lt _ _ I) in Hin. lia.
  - apply (ubi_idx s2 (i + length nbs) ND'). intros k b0 Hk Hn. change (s_blocks s2) with (pre ++ nbs ++ post) in Hn.
    change (bidx s2 b0) with (bidx s1 b0).
    destruct (Nat.lt_ge_cases k i) as [L|L].
    + rewrite nth_error_app1 in Hn by lia. unfold bidx.
      rewrite Hfr by (apply Hpp; apply in_or_app; left; eapply nth_error_In; eassumption).
      apply (g_idx _ _ I). rewrite E, nth_error_app1 by lia. exact Hn.
    + rewrite nth_error_app2, nth_error_app1 in Hn by lia. rewrite (B8 _ _ Hn), (g_idx _ _ I i b Hi). lia.
  - intros b0 H0. unfold bsz, blnl. rewrite ubi_toks. unfold toks.
    fold (bsz (update_block_indexes s2 (Z.of_nat (i + length nbs))) b0) (blnl (update_block_indexes s2 (Z.of_nat (i + length nbs))) b0).
    rewrite ubi_bsz, ubi_blnl. unfold bsz, blnl. change (s_heap s2) with (s_heap s1). rewrite Hfr by (apply Hpp; assumption). auto.
  - cbn [flat_map]. rewrite app_nil_r, <- B7. apply flat_map_ext. intro b0. rewrite ubi_toks. reflexivity.
  - exact NDa.
  - intro t. rewrite ubi_toksmap. unfold txt at 1. rewrite ubi_toksmap. apply B11.
  - intros t Hn _. rewrite ubi_hnd. apply Hh1. cbn [flat_map] in Hn. rewrite app_nil_r in Hn. exact Hn.
  - intros t Hn Ho. contradiction.
  - intros b0 H0 _. destruct (B9 b0 H0) as [Hne0 Hok0]. split.
    + apply (blk_ok_frame s1 _ b0 Hok0).
      * rewrite ubi_toks. reflexivity.
      * rewrite ubi_bsz. reflexivity.
      * rewrite ubi_blnl. reflexivity.
      * intros t _. rewrite ubi_hnd, ubi_toksmap. auto.
    + rewrite ubi_toks. intro Ee. contradiction.
  - split; [exact I'|]. split; [rewrite Ea', Ea; reflexivity|]. split; [|split].
    + intro t. rewrite ubi_toksmap. unfold txt at 1. rewrite ubi_toksmap. apply B11.
    + intros t Ht. rewrite ubi_toksmap. change (s_toks s2) with (s_toks s1). apply B12. intro Hin. apply Ht. apply in_abs. exists b. auto.
    + rewrite ubi_len, ubi_sid. split; [exact B2|exact B13].
Qed.

(* ---------- _update_block ---------- *)
Lemma update_block_spec LF s b s' r : 1 <= LF -> InvG (eq b) s -> In b (s_blocks s) ->
  update_block LF s b = (s', r) ->
  r = Ok tt /\ Inv0 s' /\ abs s' = abs s /\ frame_ok s s'.
Proof.
  intros HLF I Hb H. pose proof Hb as Hb'. apply In_nth_error in Hb' as [i Hi].
  pose proof (g_idx _ _ I i b Hi) as Ei. pose proof (nth_error_in_len _ _ _ Hi) as Li.
  unfold update_block in H. fold (toks s b) (bidx s b) in H. rewrite Ei in H.
  assert (0 <= HALF LF) as Hh by (unfold HALF; apply Z.div_pos; lia).
  destruct (Z.geb_spec (zlen (toks s b)) (DOUBLE LF)) as [G|G].
  - apply (split_spec LF s b s' r HLF I Hb); [|exact H].
    intro Ee. rewrite Ee in G. unfold DOUBLE in G. cbn in G. lia.
  - destruct (Z.leb_spec (zlen (toks s b)) (HALF LF)) as [Lh|Lh];
      [destruct (Z.gtb_spec (zlen (s_blocks s)) 1) as [G1|G1]|]; cbn [andb] in H.
    + (* merge *)
      unfold zlen in G1.
      assert (forall j p, j <> i -> nth_error (s_blocks s) j = Some p -> toks s p <> []) as Hother.
      { intros j p Nj Hp Ee. assert (p <> b) as Np.
        { intros ->. pose proof (g_nd _ _ I) as ND. rewrite NoDup_nth_error in ND.
          apply Nj. apply ND; [eapply nth_error_in_len; eassumption|congruence]. }
        destruct (g_ok _ _ I p) as [_ Hn]; [eapply nth_error_In; eassumption|congruence|].
        rewrite (Hn Ee) in G1. cbn in G1. lia. }
      destruct i as [|i].
      * cbn [Z.of_nat Z.eqb negb] in H. unfold blocks_at in H. change (0 + 1) with (Z.of_nat 1) in H.
        rewrite py_nth_nat in H by lia.
        destruct (nth_error (s_blocks s) 1) as [n|] eqn:Hn; [|apply nth_error_None in Hn; lia].
        apply (merge_spec LF (eq b) s b n 0 s' r HLF I Hi Hn); [intros x <-; auto| |exact H].
        intro Ee. apply app_eq_nil in Ee as [_ Ee]. exact (Hother 1%nat n ltac:(lia) Hn Ee).
      * destruct (Z.eqb_spec (Z.of_nat (S i)) 0); [lia|]. cbn [negb] in H. unfold blocks_at in H.
        replace (Z.of_nat (S i) - 1) with (Z.of_nat i) in H by lia. rewrite py_nth_nat in H by lia.
        destruct (nth_error (s_blocks s) i) as [p|] eqn:Hp; [|apply nth_error_None in Hp; lia].
        apply (merge_spec LF (eq b) s p b i s' r HLF I Hp Hi); [intros x <-; auto| |exact H].
        intro Ee. apply app_eq_nil in Ee as [Ee _]. exact (Hother i p ltac:(lia) Hp Ee).
    + (* rebuild, single block *)
      destruct (ub_rebuild s b I Hb) as (I' & Ea & Hf).
      { intros _. unfold zlen in G1. assert (length (s_blocks s) <= 1)%nat as G2 by lia.
        pose proof (blocks_split_at s i b Hi) as E. rewrite E in G2 |- *. rewrite !app_length in G2. cbn [length] in G2.
        destruct (firstn i (s_blocks s)), (skipn (S i) (s_blocks s)); cbn [length] in G2; try lia. reflexivity. }
      rewrite rebuild_blocks in H. change (b_index (bget (s_heap (rebuild s b)) b)) with (bidx (rebuild s b) b) in H.
      rewrite rebuild_bidx, Ei in H.
      destruct (Z.ltb_spec (Z.of_nat i + 1) (zlen (s_blocks s))) as [L1|L1]; unfold zlen in *; [lia|].
      injection H as <- <-. auto.
    + (* rebuild *)
      destruct (ub_rebuild s b I Hb) as (I' & Ea & Hf).
      { intros Ee. rewrite Ee in Lh. cbn in Lh. lia. }
      rewrite rebuild_blocks in H. change (b_index (bget (s_heap (rebuild s b)) b)) with (bidx (rebuild s b) b) in H.
      rewrite rebuild_bidx, Ei in H.
      destruct (Z.ltb_spec (Z.of_nat i + 1) (zlen (s_blocks s))) as [L1|L1]; unfold zlen in *.
      * unfold blocks_at in H. rewrite rebuild_blocks in H. replace (Z.of_nat i + 1) with (Z.of_nat (S i)) in H by lia.
        rewrite py_nth_nat in H by lia.
        destruct (nth_error (s_blocks s) (S i)) as [n|] eqn:Hn; [|apply nth_error_None in Hn; lia].
        change (b_index (bget (s_heap (rebuild s b)) n)) with (bidx (rebuild s b) n) in H.
        rewrite rebuild_bidx, (g_idx _ _ I _ _ Hn), Z.eqb_refl in H. cbn [negb] in H. injection H as <- <-. auto.
      * injection H as <- <-. auto.
Qed.
