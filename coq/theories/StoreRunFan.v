(* A compact encoding of MANY linear correspondence cases that share a prefix, for the exhaustive small-scope
   part of the store correspondence (harness/store_exhaustive.py): a fan is a path of (operation, observed dump)
   steps followed by a set of alternative next steps ("leaves"). Checking a fan is, BY DEFINITION, checking with
   StoreRun.check_case the path alone and every linear case  path ++ [leaf]  - nothing new is evaluated, the
   prefix is only written once in the generated file (reading the literals is what costs time, not vm_compute). *)
From AB Require Import Store StoreRun.

Record fcase := mkfcase {
  f_lf : Z;
  f_texts : list str;
  f_path : list (sop * dump);
  f_fan : list (sop * dump)
}.

Definition fan_cases (c : fcase) : list scase :=
  mkscase (f_lf c) (f_texts c) (f_path c)
  :: map (fun leaf => mkscase (f_lf c) (f_texts c) (f_path c ++ [leaf])) (f_fan c).

Definition check_fan (c : fcase) : bool := forallb check_case (fan_cases c).

(* for diagnosis: which leaves of a fan fail (0 = the path itself, k+1 = leaf number k) *)
Definition bad_leaves (c : fcase) : list nat := bad_cases check_case (fan_cases c).
