(* C14 / C05: the PLACEMENT half of `_CommentClaimer.claim` (interleaving_comments.py): where the claimed entries
   and the placeholders end up.  After a successful claim the field's own placeholder stands in front of every entry
   of the returned list (the comments found in front of the field included: `_shift_ignored(comments_before[0],
   first_token, backwards=True)` moves the placeholders - the field's own too - in front of the FARTHEST comment), the
   entries lie in store order behind it, and the foreign placeholders that stood between the last item and the
   comments found behind the field are moved behind the FARTHEST of them (`_shift_ignored(first, comments_after[-1])`).
     claim_placement         (1) items_behind_b d' ph (claim_items ...) - exactly the hypothesis of the next call, with
                             NoDup and ph_ok_b preserved; (2) tight_b: no placeholder between the placeholder and the
                             last comment claimed in front, none between the last item and the last comment claimed behind
     nearest_front_refuted / first_behind_refuted   the two regressions (comments_before[-1], comments_after[0]): same
                             return value and flags, (1) resp. (2) fails
     field_history_inv       every sequence of claim / unclaim interleaving calls on one field keeps the invariant
   Hypotheses: token ids unique, `ph` names a Placeholder of the store (ph_ok_b), the items lie in order strictly
   behind it (items_behind_b; implies Comments.items_ordered_b). *)
From AB Require Import Prelude Comments CommentsRange CommentsProofs CommentsOwn CommentsRestore CommentsComplete.
From Coq Require Import Permutation.
Definition citem (c : Z) : item := mkitem true c c c.

Fixpoint inner_items (d : doc) (start : list tok) (items : list item) (s : cset) : list item :=
  match items with
  | [] => []
  | it :: rest =>
    let '(found, s1) := scan_until (it_first it) start s in
    let s2 := if it_comment it then cs_discard s1 (it_ref it) else s1 in
    map citem found ++ it :: inner_items d (after d (it_last it)) rest s2
  end.

Definition claim_parts (d : doc) (ph : Z) (items : list item) (mf ml : Z) (flt : cset)
  : list Z * list item * list Z :=
  let '(cb_rev, s1) := find_outer ph (rev (before d ph)) mf flt in
  let '(_, s2) := find_inner d (from_incl d ph) items s1 in
  let '(ca, _) := find_outer (rep_last ph items) (after d (rep_last ph items)) ml s2 in
  (rev cb_rev, inner_items d (from_incl d ph) items s1, ca).

Definition claim_items (d : doc) (ph : Z) (items : list item) (mf ml : Z) (flt : cset) : list item :=
  let '(cb, ii, ca) := claim_parts d ph items mf ml flt in map citem cb ++ ii ++ map citem ca.

Definition items_behind_b (d : doc) (ph : Z) (items : list item) : bool :=
  match leftover (after d ph) items with Some _ => true | None => false end.
Definition ph_ok_b (d : doc) (ph : Z) : bool := existsb (fun t => (t_id t =? ph) && is_ph t) d.

Definition between (d : doc) (a b : Z) : list tok :=
  match split_at a d with
  | Some (_, _ :: r) => match split_at b r with Some (m, x :: _) => m ++ [x] | _ => [] end
  | _ => []
  end.
Definition tight_b (d : doc) (ph rl : Z) (cb ca : list Z) : bool :=
  (match rev cb with l :: _ => forallb vis (between d ph l) | [] => true end)
  && (match rev ca with l :: _ => forallb vis (between d rl l) | [] => true end).

(* ---- list facts --------------------------------------------------------------------------------------------- *)
Lemma split_at_notin : forall i w a b, split_at i w = Some (a, b) -> ~ In i (ids a).
Proof.
  induction w as [|t w IH]; simpl; intros a b H; [discriminate|].
  destruct (t_id t =? i) eqn:E.
  - inversion H; subst. intros [].
  - destruct (split_at i w) as [[a1 b1]|] eqn:S; [|discriminate]. inversion H; subst.
    simpl. intros [X|X]; [apply Z.eqb_neq in E; contradiction | eapply IH; eauto].
Qed.

Lemma leftover_app : forall a b w, leftover w (a ++ b) = match leftover w a with Some r => leftover r b | None => None end.
Proof.
  induction a as [|it a IH]; simpl; intros b w; [reflexivity|].
  destruct (split_at (it_first it) w) as [[g ff]|]; [|reflexivity].
  destruct (split_at (it_last it) ff) as [[x [|y r]]|]; try reflexivity. apply IH.
Qed.

Lemma leftover_skip_prefix : forall P w it rest, ~ In (it_first it) (ids P) ->
  leftover (P ++ w) (it :: rest) = leftover w (it :: rest).
Proof.
  induction P as [|t P IH]; simpl; intros w it rest N; [reflexivity|].
  destruct (t_id t =? it_first it) eqn:E; [apply Z.eqb_eq in E; exfalso; apply N; left; exact E|].
  assert (N' : ~ In (it_first it) (ids P)) by (intro X; apply N; right; exact X).
  specialize (IH w it rest N'). simpl in IH.
  destruct (split_at (it_first it) (P ++ w)) as [[a b]|]; destruct (split_at (it_first it) w) as [[a' b']|]; auto.
Qed.

(* items that are in order in w stay so whatever follows their last token *)
Lemma leftover_rebase : forall its w rem, leftover w its = Some rem -> its <> [] ->
  exists B, w = B ++ rem /\ forall Z, leftover (B ++ Z) its = Some Z.
Proof.
  induction its as [|it rest IH]; intros w rem L NE; [contradiction|]. simpl in L.
  destruct (split_at (it_first it) w) as [[g ff]|] eqn:S1; [|discriminate].
  destruct (split_at (it_last it) ff) as [[x ya]|] eqn:S2; [|discriminate].
  destruct ya as [|y a]; [discriminate|].
  pose proof (split_at_notin _ _ _ _ S1) as N1. pose proof (split_at_notin _ _ _ _ S2) as N2.
  pose proof (split_at_spec _ _ _ _ S1) as [Hw [h [r [Eh Ih]]]].
  pose proof (split_at_spec _ _ _ _ S2) as [Hff [y0 [r0 [E0 I0]]]]. inversion E0; subst y0 r0.
  assert (STEP : forall T, leftover (g ++ x ++ y :: T) (it :: rest) = leftover T rest).
  { intros T. simpl.
    assert (HD : exists r', x ++ y :: T = h :: r' /\ t_id h = it_first it).
    { rewrite Hff in Eh. destruct x as [|x0 x']; simpl in *; inversion Eh; subst; eexists; split; eauto. }
    destruct HD as [r' [E' I']]. rewrite E'. rewrite <- I'. rewrite split_at_unique by (rewrite I'; exact N1).
    rewrite <- E'. rewrite <- I0. rewrite split_at_unique by (rewrite I0; exact N2). reflexivity. }
  destruct rest as [|it2 r2].
  - simpl in L. inversion L; subst a. exists (g ++ x ++ [y]). split.
    + rewrite Hw, Hff, <- ?app_assoc. reflexivity.
    + intros Z. replace ((g ++ x ++ [y]) ++ Z) with (g ++ x ++ y :: Z) by (rewrite <- ?app_assoc; reflexivity).
      rewrite (STEP Z). reflexivity.
  - destruct (IH a rem L) as [B' [Ha HB]]; [discriminate|].
    exists (g ++ x ++ y :: B'). split.
    + rewrite Hw, Hff, Ha, <- ?app_assoc. simpl. rewrite <- ?app_assoc. reflexivity.
    + intros Z. replace ((g ++ x ++ y :: B') ++ Z) with (g ++ x ++ y :: B' ++ Z)
        by (rewrite <- ?app_assoc; simpl; rewrite <- ?app_assoc; reflexivity).
      rewrite (STEP (B' ++ Z)). apply HB.
Qed.

(* ---- ordered sub-sequences of comment ids ---------------------------------------------------------------------- *)
Inductive csub : list Z -> list tok -> Prop :=
| cs_nil : forall g, csub [] g
| cs_take : forall c l t g, t_id t = c -> is_comment t = true -> csub l g -> csub (c :: l) (t :: g)
| cs_skip : forall l t g, csub l g -> csub l (t :: g).

Lemma csub_in : forall l g, csub l g -> forall c, In c l -> In c (ids g).
Proof.
  induction 1; intros c0 I; [contradiction| |right; auto].
  destruct I as [I|I]; [left; congruence | right; auto].
Qed.

Lemma csub_app : forall l1 g1, csub l1 g1 -> forall l2 g2, csub l2 g2 -> csub (l1 ++ l2) (g1 ++ g2).
Proof.
  induction 1; intros l2 g2 H2; simpl.
  - induction g as [|t g IH]; simpl; [exact H2 | apply cs_skip; exact IH].
  - apply cs_take; auto.
  - apply cs_skip; auto.
Qed.

Lemma csub_rev : forall l g, csub l g -> csub (rev l) (rev g).
Proof.
  induction 1; simpl.
  - apply cs_nil.
  - apply csub_app; [exact IHcsub|]. apply cs_take; auto. apply cs_nil.
  - rewrite <- (app_nil_r (rev l)). apply csub_app; [exact IHcsub | apply cs_nil].
Qed.

Lemma csub_filter_vis : forall l g, csub l g -> csub l (filter vis g).
Proof.
  induction 1; simpl.
  - apply cs_nil.
  - assert (V : vis t = true) by (unfold vis; rewrite (is_comment_not_ph _ H0); reflexivity).
    rewrite V. apply cs_take; auto.
  - destruct (vis t); [apply cs_skip|]; auto.
Qed.

Lemma csub_app_r : forall l g x, csub l g -> csub l (g ++ x).
Proof. intros. rewrite <- (app_nil_r l). apply csub_app; [assumption | apply cs_nil]. Qed.

(* consuming the comments of an ordered sub-sequence *)
Lemma leftover_csub : forall g l, csub l g -> NoDup (ids g) ->
  exists g0 g', g = g0 ++ g' /\ forall x more, leftover (g ++ x) (map citem l ++ more) = leftover (g' ++ x) more.
Proof.
  intros g l H. induction H; intros ND.
  - exists [], g. split; [reflexivity | intros; reflexivity].
  - apply nodup_ids_cons in ND. destruct ND as [N1 N2]. destruct (IHcsub N2) as [g0 [g' [E F]]].
    exists (t :: g0), g'. split; [simpl; f_equal; exact E|]. intros x more. simpl.
    rewrite H, Z.eqb_refl. simpl. rewrite H, Z.eqb_refl. apply F.
  - destruct l as [|c l'].
    + exists [], (t :: g). split; [reflexivity | intros; reflexivity].
    + apply nodup_ids_cons in ND. destruct ND as [N1 N2]. destruct (IHcsub N2) as [g0 [g' [E F]]].
      exists (t :: g0), g'. split; [simpl; f_equal; exact E|]. intros x more.
      assert (NE : ~ In (it_first (citem c)) (ids [t])).
      { simpl. intros [X|[]]. apply N1. rewrite X. eapply csub_in; [exact H | left; reflexivity]. }
      change ((t :: g) ++ x) with ([t] ++ (g ++ x)). change (map citem (c :: l') ++ more) with (citem c :: map citem l' ++ more).
      rewrite (leftover_skip_prefix [t] (g ++ x) (citem c) (map citem l' ++ more) NE). apply (F x more).
Qed.

Lemma scan_until_csub : forall e w s l s' g ff,
  scan_until e w s = (l, s') -> split_at e w = Some (g, ff) -> csub l g.
Proof.
  induction w as [|t w IH]; simpl; intros s l s' g ff H S; [discriminate|].
  destruct (t_id t =? e).
  - inversion H; inversion S; subst. apply cs_nil.
  - destruct (split_at e w) as [[g0 ff0]|] eqn:S0; [|discriminate]. inversion S; subst.
    destruct (is_comment t && cs_mem s (t_id t) && negb (t_claimed t)) eqn:C.
    + destruct (scan_until e w (cs_discard s (t_id t))) as [l0 s0] eqn:E. inversion H; subst.
      apply andb_prop in C. destruct C as [C _]. apply andb_prop in C. destruct C as [C _].
      apply cs_take; auto. eapply IH; eauto.
    + apply cs_skip. eapply IH; eauto.
Qed.

Lemma find_outer_csub : forall w prev limit s l s', find_outer prev w limit s = (l, s') -> csub l w.
Proof.
  induction w as [|t w IH]; simpl; intros prev limit s l s' H.
  - inversion H; apply cs_nil.
  - destruct (prev =? limit); [inversion H; apply cs_nil|].
    destruct (is_nl t || is_ws t || text_empty t); [apply cs_skip; eapply IH; eauto|].
    destruct (is_comment t) eqn:C; [|inversion H; apply cs_nil].
    destruct (t_claimed t); [inversion H; apply cs_nil|].
    destruct (cs_mem s (t_id t)); [|apply cs_skip; eapply IH; eauto].
    destruct (find_outer (t_id t) w limit (cs_discard s (t_id t))) as [l0 s0] eqn:E. inversion H; subst.
    apply cs_take; auto. eapply IH; eauto.
Qed.

Lemma csub_from : forall p1 c l x p2, csub (c :: l) (p1 ++ x :: p2) -> t_id x = c ->
  NoDup (ids (p1 ++ x :: p2)) -> csub (c :: l) (x :: p2) /\ is_comment x = true.
Proof.
  induction p1 as [|t p1 IH]; simpl; intros c l x p2 H E ND.
  - split; [exact H|]. apply nodup_ids_cons in ND. destruct ND as [N1 _].
    inversion H as [ | c0 l0 t0 g0 Hid Hc Hs | l0 t0 g0 Hs ]; subst; [exact Hc|].
    exfalso. apply N1. eapply csub_in; [exact Hs | left; reflexivity].
  - apply nodup_ids_cons in ND. destruct ND as [N1 N2].
    inversion H as [ | c0 l0 t0 g0 Hid Hc Hs | l0 t0 g0 Hs ]; subst.
    + exfalso. apply N1. rewrite Hid. unfold ids. rewrite map_app. apply in_or_app; right; left; reflexivity.
    + eapply IH; eauto.
Qed.

Lemma csub_cut : forall q1 l c t q2, csub (l ++ [c]) (q1 ++ t :: q2) -> t_id t = c ->
  NoDup (ids (q1 ++ t :: q2)) -> csub (l ++ [c]) (q1 ++ [t]) /\ is_comment t = true.
Proof.
  induction q1 as [|u q1 IH]; simpl; intros l c t q2 H E ND.
  - apply nodup_ids_cons in ND. destruct ND as [N1 _].
    destruct l as [|c' l']; simpl in *.
    + inversion H as [ | c0 l0 t0 g0 Hid Hc Hs | l0 t0 g0 Hs ]; subst; [split; [apply cs_take; auto; apply cs_nil | exact Hc]|].
      exfalso. apply N1. eapply csub_in; [exact Hs | left; reflexivity].
    + exfalso. apply N1. rewrite E.
      inversion H as [ | c0 l0 t0 g0 Hid Hc Hs | l0 t0 g0 Hs ]; subst.
      * eapply csub_in; [exact Hs | apply in_or_app; right; left; reflexivity].
      * eapply csub_in; [exact Hs | right; apply in_or_app; right; left; reflexivity].
  - apply nodup_ids_cons in ND. destruct ND as [N1 N2].
    destruct l as [|c' l']; simpl in *.
    + inversion H as [ | c0 l0 t0 g0 Hid Hc Hs | l0 t0 g0 Hs ]; subst.
      * exfalso. apply N1. rewrite Hid. unfold ids. rewrite map_app. apply in_or_app; right; left; reflexivity.
      * destruct (IH [] (t_id t) t q2 Hs eq_refl N2) as [A B]. split; [apply cs_skip; exact A | exact B].
    + inversion H as [ | c0 l0 t0 g0 Hid Hc Hs | l0 t0 g0 Hs ]; subst.
      * destruct (IH l' (t_id t) t q2 Hs eq_refl N2) as [A B]. split; [apply cs_take; auto | exact B].
      * destruct (IH (c' :: l') (t_id t) t q2 Hs eq_refl N2) as [A B]. split; [apply cs_skip; exact A | exact B].
Qed.

Lemma split_at_head : forall h r i, t_id h = i -> split_at i (h :: r) = Some ([], h :: r).
Proof. intros h r i E. simpl. rewrite E, Z.eqb_refl. reflexivity. Qed.

Lemma split_at_in : forall i w a b, split_at i w = Some (a, b) -> In i (ids w).
Proof.
  intros i w a b S. apply split_at_spec in S. destruct S as [E [x [r [Eb Ix]]]]. rewrite E, Eb. unfold ids. rewrite map_app.
  apply in_or_app; right; left; exact Ix.
Qed.

Lemma inner_items_oitems : forall items d w s, map oitem_of (inner_items d w items s) = fst (find_inner d w items s).
Proof.
  induction items as [|it rest IH]; simpl; intros d w s; [reflexivity|].
  destruct (scan_until (it_first it) w s) as [found s1].
  specialize (IH d (after d (it_last it)) (if it_comment it then cs_discard s1 (it_ref it) else s1)).
  destruct (find_inner d (after d (it_last it)) rest (if it_comment it then cs_discard s1 (it_ref it) else s1)) as [l0 s3].
  simpl in *. rewrite map_app, map_map. simpl. rewrite IH. reflexivity.
Qed.

Lemma inner_items_ordered : forall items d p w s rem,
  NoDup (ids d) -> d = p ++ w -> leftover w items = Some rem ->
  leftover w (inner_items d w items s) = Some rem.
Proof.
  induction items as [|it rest IH]; simpl; intros d p w s rem ND Hd L; [exact L|].
  destruct (split_at (it_first it) w) as [[g ff]|] eqn:S1; [|discriminate].
  destruct (split_at (it_last it) ff) as [[x ya]|] eqn:S2; [|discriminate].
  destruct ya as [|y a]; [discriminate|].
  destruct (scan_until (it_first it) w s) as [found s1] eqn:SC.
  pose proof (split_at_spec _ _ _ _ S1) as [Hw [h [r [Eh Ih]]]].
  pose proof (split_at_spec _ _ _ _ S2) as [Hff _].
  pose proof (split_at_notin _ _ _ _ S1) as N1.
  assert (A : after d (it_last it) = a).
  { rewrite Hd, Hw, app_assoc. eapply after_suffix; [rewrite <- app_assoc, <- Hw, <- Hd; exact ND | exact S2]. }
  rewrite A.
  assert (NDg : NoDup (ids g)).
  { rewrite Hd, Hw in ND. apply nodup_tail in ND. unfold ids in ND. rewrite map_app in ND. apply nodup_app_l in ND. exact ND. }
  destruct (leftover_csub g found (scan_until_csub _ _ _ _ _ _ _ SC S1) NDg) as [g0 [g' [Eg F]]].
  rewrite Hw. rewrite F.
  assert (N1' : ~ In (it_first it) (ids g')).
  { intro X. apply N1. rewrite Eg. unfold ids. rewrite map_app. apply in_or_app; right; exact X. }
  rewrite leftover_skip_prefix by exact N1'.
  simpl. rewrite Eh. rewrite (split_at_head h r _ Ih). rewrite <- Eh. rewrite S2.
  apply (IH d (p ++ g ++ x ++ [y]) a _ rem ND); [|exact L].
  rewrite Hd, Hw, Hff, <- ?app_assoc. simpl. reflexivity.
Qed.

Lemma filter_ph_nil_vis : forall l, filter is_ph l = [] -> filter vis l = l.
Proof.
  induction l as [|t l IH]; simpl; intros H; [reflexivity|]. unfold vis at 1.
  destruct (is_ph t); [discriminate|]. simpl. f_equal. apply IH. exact H.
Qed.

Lemma shift_ignored_explicit : forall a x m1 m2 y b bw,
  NoDup (ids (a ++ (x :: m1) ++ b)) -> x :: m1 = m2 ++ [y] ->
  shift_ignored (a ++ (x :: m1) ++ b) (t_id x) (t_id y) bw =
  Some (a ++ (if bw then filter is_ph (x :: m1) ++ filter vis (x :: m1)
              else filter vis (x :: m1) ++ filter is_ph (x :: m1)) ++ b).
Proof.
  intros a x m1 m2 y b bw ND E.
  assert (S1 : split_at (t_id x) (a ++ (x :: m1) ++ b) = Some (a, (x :: m1) ++ b)).
  { simpl. apply split_at_unique. eapply nodup_mid. simpl in ND. exact ND. }
  assert (S2 : split_at (t_id y) ((x :: m1) ++ b) = Some (m2, y :: b)).
  { rewrite E, <- app_assoc. simpl. apply split_at_unique. apply nodup_tail in ND.
    rewrite E, <- app_assoc in ND. simpl in ND. eapply nodup_mid; exact ND. }
  assert (IR : iter_range (a ++ (x :: m1) ++ b) (t_id x) (t_id y) = Some (x :: m1)).
  { unfold iter_range. rewrite S1. cbv beta iota. rewrite S2. rewrite E. reflexivity. }
  unfold shift_ignored. rewrite IR.
  destruct (filter is_ph (x :: m1)) as [|p0 pr] eqn:F.
  - rewrite (filter_ph_nil_vis _ F). destruct bw; simpl app; rewrite ?app_nil_r; reflexivity.
  - rewrite <- F. apply splice_range with (m2 := m2); auto.
Qed.

(* ---- flags do not matter for positions ------------------------------------------------------------------------ *)
Definition idk (f : tok -> tok) : Prop := forall t, t_id (f t) = t_id t /\ t_kind (f t) = t_kind t.

Lemma split_at_map : forall f i d, idk f ->
  split_at i (map f d) = match split_at i d with Some (a, b) => Some (map f a, map f b) | None => None end.
Proof.
  intros f i d K. induction d as [|t d IH]; simpl; [reflexivity|].
  rewrite (proj1 (K t)). destruct (t_id t =? i); [reflexivity|]. rewrite IH.
  destruct (split_at i d) as [[a b]|]; reflexivity.
Qed.

Lemma leftover_map : forall f its w, idk f -> leftover (map f w) its = option_map (map f) (leftover w its).
Proof.
  intros f its. induction its as [|it rest IH]; simpl; intros w K; [reflexivity|].
  rewrite split_at_map by exact K. destruct (split_at (it_first it) w) as [[g ff]|]; [|reflexivity].
  rewrite split_at_map by exact K. destruct (split_at (it_last it) ff) as [[x [|y a]]|]; try reflexivity.
  simpl. apply IH. exact K.
Qed.

Lemma after_map : forall f d i, idk f -> after (map f d) i = map f (after d i).
Proof.
  intros f d i K. unfold after. rewrite split_at_map by exact K.
  destruct (split_at i d) as [[a [|x b]]|]; reflexivity.
Qed.

Lemma behind_map : forall f d ph its, idk f -> items_behind_b (map f d) ph its = items_behind_b d ph its.
Proof.
  intros f d ph its K. unfold items_behind_b. rewrite after_map by exact K. rewrite leftover_map by exact K.
  destruct (leftover (after d ph) its); reflexivity.
Qed.

Lemma between_map : forall f d a b, idk f -> between (map f d) a b = map f (between d a b).
Proof.
  intros f d a b K. unfold between. rewrite split_at_map by exact K.
  destruct (split_at a d) as [[p [|x r]]|]; try reflexivity. simpl.
  rewrite split_at_map by exact K. destruct (split_at b r) as [[m [|y q]]|]; try reflexivity.
  simpl. rewrite map_app. reflexivity.
Qed.

Lemma forallb_vis_map : forall f l, idk f -> forallb vis (map f l) = forallb vis l.
Proof.
  intros f l K. induction l as [|t l IH]; simpl; [reflexivity|]. rewrite IH. f_equal.
  unfold vis, is_ph. rewrite (proj2 (K t)). reflexivity.
Qed.

Lemma tight_map : forall f d ph rl cb ca, idk f -> tight_b (map f d) ph rl cb ca = tight_b d ph rl cb ca.
Proof.
  intros f d ph rl cb ca K. unfold tight_b.
  destruct (rev cb) as [|l1 r1]; destruct (rev ca) as [|l2 r2];
    rewrite ?between_map by exact K; rewrite ?forallb_vis_map by exact K; reflexivity.
Qed.

Lemma mark_idk : forall cs v, idk (fun t => if memz (t_id t) cs then set_flag v t else t).
Proof. intros cs v t. destruct (memz (t_id t) cs); split; reflexivity. Qed.

Lemma ph_ok_split : forall d ph, NoDup (ids d) -> ph_ok_b d ph = true ->
  exists pre pht w1, split_at ph d = Some (pre, pht :: w1) /\ is_ph pht = true.
Proof.
  intros d ph ND H. unfold ph_ok_b in H. apply existsb_exists in H. destruct H as [t [I X]].
  apply andb_prop in X. destruct X as [E P]. apply Z.eqb_eq in E. apply in_split in I. destruct I as [a [b Hd]].
  exists a, t, b. split; [|exact P]. rewrite <- E. rewrite Hd. apply split_at_unique. eapply nodup_mid. rewrite <- Hd. exact ND.
Qed.

Lemma forallb_vis_filter : forall l, forallb vis (filter vis l) = true.
Proof. induction l as [|t l IH]; simpl; auto. destruct (vis t) eqn:V; simpl; [rewrite V|]; auto. Qed.

Lemma last_split : forall (l : list Z) c r, rev l = c :: r -> l = rev r ++ [c].
Proof. intros l c r H. rewrite <- (rev_involutive l), H. reflexivity. Qed.

(* ---- the store after a successful claim, explicitly --------------------------------------------------------------
   d = pre ++ ph :: Y ++ rem  (Y ends with the last token of the last item, rem is what follows it)
   d2 = P ++ ph :: V ++ Y ++ R' :  V = the visible tokens from the farthest comment in front to the placeholder,
   R' = rem with the visible tokens up to the farthest comment behind moved in front of the placeholders among them *)
Lemma claim_shape : forall d ph items mf ml flt ret its d',
  NoDup (ids d) -> ph_ok_b d ph = true -> items_behind_b d ph items = true ->
  claimer_claim d ph items mf ml flt = (Ok (ret, its), d') ->
  exists cb ii ca P pht V Y R' rem d2,
    claim_parts d ph items mf ml flt = (cb, ii, ca) /\ map oitem_of (map citem cb ++ ii ++ map citem ca) = its /\
    d' = mark (comments_of its) true d2 /\ NoDup (ids d2) /\
    d2 = P ++ pht :: V ++ Y ++ R' /\ t_id pht = ph /\
    csub cb V /\ forallb vis V = true /\
    leftover (after d ph) ii = Some rem /\ after d ph = Y ++ rem /\ (items = [] -> ii = [] /\ Y = []) /\
    (items <> [] -> ii <> [] /\ exists y Y0, Y = Y0 ++ [y] /\ t_id y = rep_last ph items) /\
    (forall t, In t (Y ++ rem) -> In t d) /\
    (ca = [] /\ R' = rem \/
     exists q1 t q2 cl0, ca = cl0 ++ [t_id t] /\ rem = q1 ++ t :: q2 /\
       R' = (filter vis q1 ++ [t]) ++ filter is_ph (q1 ++ [t]) ++ q2 /\ csub ca (filter vis q1 ++ [t]) /\ vis t = true).
Proof.
  intros d ph items mf ml flt ret its d' ND PH BEH H.
  destruct (ph_ok_split d ph ND PH) as [pre [pht [w1 [SP ISPH]]]].
  pose proof (split_at_spec _ _ _ _ SP) as [Hd [x0 [r0 [E0 I0]]]]. inversion E0; subst x0 r0. clear E0.
  assert (AFT : after d ph = w1) by (unfold after; rewrite SP; reflexivity).
  unfold items_behind_b in BEH. rewrite AFT in BEH.
  destruct (leftover w1 items) as [rem|] eqn:L; [|discriminate]. clear BEH.
  assert (NDw1 : NoDup (ids w1)).
  { rewrite Hd in ND. apply nodup_tail in ND. apply nodup_ids_cons in ND. apply ND. }
  assert (PHN : ~ In ph (ids w1)).
  { rewrite Hd in ND. apply nodup_tail in ND. apply nodup_ids_cons in ND. rewrite I0 in ND. apply ND. }
  (* the items also lie in order behind the placeholder in the inclusive reading *)
  assert (L' : leftover (pht :: w1) items = Some rem \/ items = []).
  { destruct items as [|it rest]; [right; reflexivity|left].
    change (pht :: w1) with ([pht] ++ w1). rewrite leftover_skip_prefix; [exact L|].
    simpl. intros [X|[]]. simpl in L. destruct (split_at (it_first it) w1) as [[g ff]|] eqn:S; [|discriminate].
    apply split_at_in in S. apply PHN. rewrite <- I0, X. exact S. }
  (* position of the last token of the last item *)
  assert (POS : exists Y a0 y0, split_at (rep_last ph items) d = Some (a0, y0 :: rem) /\ w1 = Y ++ rem /\
                (items = [] -> Y = []) /\ (items <> [] -> exists y Y0, Y = Y0 ++ [y] /\ t_id y = rep_last ph items)).
  { destruct items as [|it0 rest0] eqn:EI.
    - simpl in L. inversion L; subst rem. exists [], pre, pht. split; [unfold rep_last; simpl; exact SP|].
      split; [reflexivity|]. split; [reflexivity | intros X; contradiction].
    - rewrite <- EI in *. assert (NE : items <> []) by (rewrite EI; discriminate).
      destruct (leftover_last items ph w1 rem L NE) as [a' [y [Ha Ey]]].
      exists (a' ++ [y]), (pre ++ pht :: a'), y. split; [|split; [rewrite Ha, <- app_assoc; reflexivity|]].
      + assert (Hd' : d = (pre ++ pht :: a') ++ y :: rem) by (rewrite Hd, Ha, <- app_assoc; reflexivity).
        rewrite <- Ey. rewrite Hd' at 1. apply split_at_unique. eapply nodup_mid. rewrite <- Hd'. exact ND.
      + split; [intros X; contradiction | intros _; exists y, a'; split; [reflexivity | exact Ey]]. }
  destruct POS as [Y [a0 [y0 [SL [HY [YNIL YLAST]]]]]].
  unfold claimer_claim, walk, from_incl in H. rewrite SP, SL in H. cbv beta iota zeta in H.
  unfold claim_parts, before, from_incl, after. rewrite SP, SL. cbv beta iota zeta.
  destruct (find_outer ph (rev pre) mf flt) as [cb_rev s1] eqn:F1.
  destruct (find_inner d (pht :: w1) items s1) as [inner s2] eqn:FI.
  destruct (find_outer (rep_last ph items) rem ml s2) as [ca s3] eqn:F2.
  destruct (cs_nonempty s3); [discriminate|].
  (* inner entries *)
  assert (IIo : map oitem_of (inner_items d (pht :: w1) items s1) = inner).
  { rewrite inner_items_oitems, FI. reflexivity. }
  assert (NC : is_comment pht = false).
  { unfold is_comment; unfold is_ph in ISPH; destruct (t_kind pht); try discriminate; reflexivity. }
  assert (IIE : inner_items d (pht :: w1) items s1 = inner_items d w1 items s1).
  { destruct items as [|it rest]; [reflexivity|]. simpl.
    assert (EP : (t_id pht =? it_first it) = false).
    { apply Z.eqb_neq. intro X. simpl in L. destruct (split_at (it_first it) w1) as [[g ff]|] eqn:S; [|discriminate].
      apply split_at_in in S. apply PHN. rewrite <- I0, X. exact S. }
    rewrite EP, NC. reflexivity. }
  assert (IIL : leftover w1 (inner_items d w1 items s1) = Some rem).
  { apply (inner_items_ordered items d (pre ++ [pht]) w1 s1 rem ND); [rewrite Hd, <- app_assoc; reflexivity | exact L]. }
  (* the backwards shift *)
  assert (CBS : csub (rev cb_rev) pre).
  { rewrite <- (rev_involutive pre). apply csub_rev. eapply find_outer_csub; eauto. }
  assert (SH1 : exists d1 P V, (match rev cb_rev with c0 :: _ => shift_ignored d c0 ph true | [] => Some d end) = Some d1
                 /\ d1 = P ++ pht :: V ++ w1 /\ csub (rev cb_rev) V /\ forallb vis V = true /\ Permutation d1 d).
  { destruct (rev cb_rev) as [|c0 cb'] eqn:CB.
    - exists d, pre, []. split; [reflexivity|]. split; [exact Hd|]. split; [apply cs_nil|]. split; [reflexivity | apply Permutation_refl].
    - assert (IN : In c0 (ids pre)) by (eapply csub_in; [exact CBS | left; reflexivity]).
      unfold ids in IN. apply in_map_iff in IN. destruct IN as [t [Et It]].
      apply in_split in It. destruct It as [p1 [p2 Hp]].
      assert (NDpre : NoDup (ids pre)).
      { rewrite Hd in ND. unfold ids in ND. rewrite map_app in ND. apply nodup_app_l in ND. exact ND. }
      assert (CB2' : csub (c0 :: cb') (t :: p2) /\ is_comment t = true).
      { rewrite Hp in CBS, NDpre. eapply csub_from; eauto. }
      destruct CB2' as [CB2 Ct].
      assert (E : d = p1 ++ (t :: p2 ++ [pht]) ++ w1).
      { rewrite Hd, Hp. rewrite <- ?app_assoc. simpl. rewrite <- ?app_assoc. reflexivity. }
      pose proof (shift_ignored_explicit p1 t (p2 ++ [pht]) (t :: p2) pht w1 true) as SH.
      rewrite <- E in SH. specialize (SH ND eq_refl). rewrite Et, I0 in SH.
      assert (FP : filter is_ph (t :: p2 ++ [pht]) = filter is_ph p2 ++ [pht]).
      { simpl. rewrite (is_comment_not_ph _ Ct). rewrite filter_app. simpl. rewrite ISPH. reflexivity. }
      assert (FV : filter vis (t :: p2 ++ [pht]) = t :: filter vis p2).
      { simpl. unfold vis at 1. rewrite (is_comment_not_ph _ Ct). simpl. rewrite filter_app. simpl.
        unfold vis at 2. rewrite ISPH. simpl. rewrite app_nil_r. reflexivity. }
      rewrite FP, FV in SH.
      assert (XV : filter vis (t :: p2) = t :: filter vis p2).
      { simpl. unfold vis at 1. rewrite (is_comment_not_ph _ Ct). reflexivity. }
      eexists. exists (p1 ++ filter is_ph p2), (t :: filter vis p2).
      split; [exact SH|]. split; [rewrite <- ?app_assoc; simpl; rewrite <- ?app_assoc; reflexivity|].
      split; [rewrite <- XV; apply csub_filter_vis; exact CB2|].
      split; [rewrite <- XV; apply forallb_vis_filter | eapply shift_ignored_perm; exact SH]. }
  destruct SH1 as [d1 [P [V [E1 [Ed1 [CBV [VV P1]]]]]]]. rewrite E1 in H.
  assert (ND1 : NoDup (ids d1)).
  { unfold ids. eapply Permutation_NoDup; [apply Permutation_sym, Permutation_map; exact P1 | exact ND]. }
  (* the forwards shift *)
  assert (CAS : csub ca rem) by (eapply find_outer_csub; eauto).
  assert (SH2 : exists d2 R', (match rev ca, rem with
                            | cl :: _, f :: _ => shift_ignored d1 (t_id f) cl false
                            | _ :: _, [] => None
                            | [], _ => Some d1 end) = Some d2 /\ d2 = P ++ pht :: V ++ Y ++ R' /\ Permutation d2 d1 /\
                 (ca = [] /\ R' = rem \/
                  exists q1 t q2 cl0, ca = cl0 ++ [t_id t] /\ rem = q1 ++ t :: q2 /\
                    R' = (filter vis q1 ++ [t]) ++ filter is_ph (q1 ++ [t]) ++ q2 /\ csub ca (filter vis q1 ++ [t]) /\ vis t = true)).
  { destruct (rev ca) as [|cl ca'] eqn:CA.
    - exists d1, rem. split; [reflexivity|]. split; [rewrite Ed1, HY; reflexivity|]. split; [apply Permutation_refl|].
      left. split; [|reflexivity]. rewrite <- (rev_involutive ca), CA. reflexivity.
    - pose proof (last_split _ _ _ CA) as ECA.
      assert (IN : In cl (ids rem)) by (eapply csub_in; [exact CAS | rewrite ECA; apply in_or_app; right; left; reflexivity]).
      unfold ids in IN. apply in_map_iff in IN. destruct IN as [t [Et It]].
      apply in_split in It. destruct It as [q1 [q2 Hq]].
      assert (NDrem : NoDup (ids rem)).
      { rewrite HY in NDw1. apply nodup_tail in NDw1. exact NDw1. }
      assert (CUT' : csub ca (q1 ++ [t]) /\ is_comment t = true).
      { rewrite ECA. rewrite ECA, Hq in CAS. rewrite Hq in NDrem. eapply csub_cut; eauto. }
      destruct CUT' as [CUT Ct].
      assert (VT : vis t = true) by (unfold vis; rewrite (is_comment_not_ph _ Ct); reflexivity).
      assert (FVR : filter vis (q1 ++ [t]) = filter vis q1 ++ [t]) by (rewrite filter_app; simpl; rewrite VT; reflexivity).
      assert (SEG : exists f m1, f :: m1 = q1 ++ [t]).
      { destruct q1 as [|q q1']; [exists t, [] | exists q, (q1' ++ [t])]; reflexivity. }
      destruct SEG as [f [m1 Em]].
      assert (Erem : rem = (f :: m1) ++ q2) by (rewrite Em, Hq, <- app_assoc; reflexivity).
      assert (E : d1 = (P ++ pht :: V ++ Y) ++ (f :: m1) ++ q2).
      { rewrite Ed1, HY, Erem. rewrite <- ?app_assoc. simpl. rewrite <- ?app_assoc. reflexivity. }
      pose proof (shift_ignored_explicit (P ++ pht :: V ++ Y) f m1 q1 t q2 false) as SH.
      rewrite <- E in SH. specialize (SH ND1 Em). rewrite Et in SH.
      assert (MATCH : (match cl :: ca', rem with
                       | c :: _, f' :: _ => shift_ignored d1 (t_id f') c false
                       | _ :: _, [] => None
                       | [], _ => Some d1 end) = shift_ignored d1 (t_id f) cl false).
      { rewrite Erem. reflexivity. }
      rewrite MATCH.
      eexists. exists ((filter vis q1 ++ [t]) ++ filter is_ph (q1 ++ [t]) ++ q2).
      split; [exact SH|]. split; [rewrite Em, FVR; rewrite <- ?app_assoc; simpl; rewrite <- ?app_assoc; reflexivity|].
      split; [eapply shift_ignored_perm; exact SH|].
      right. exists q1, t, q2, (rev ca'). split; [rewrite Et; exact ECA|]. split; [exact Hq|]. split; [reflexivity|].
      split; [rewrite <- FVR; apply csub_filter_vis; exact CUT | exact VT]. }
  destruct SH2 as [d2 [R' [E2 [Ed2 [P2 CASE]]]]]. rewrite E2 in H.
  inversion H; subst ret its d'. clear H.
  exists (rev cb_rev), (inner_items d (pht :: w1) items s1), ca, P, pht, V, Y, R', rem, d2.
  split; [reflexivity|].
  split; [rewrite !map_app, !map_map, IIo; reflexivity|].
  split; [apply claim_all_mark|].
  split; [unfold ids; eapply Permutation_NoDup; [apply Permutation_sym, Permutation_map; exact P2 | exact ND1]|].
  split; [exact Ed2|]. split; [exact I0|]. split; [exact CBV|]. split; [exact VV|].
  split; [rewrite IIE; exact IIL|]. split; [exact HY|].
  split; [intros X; split; [subst items; reflexivity | apply YNIL; exact X]|].
  split.
  { intros NE. split; [|apply YLAST; exact NE].
    rewrite IIE. destruct items as [|it rest]; [contradiction|]. cbn [inner_items].
    destruct (scan_until (it_first it) w1 s1) as [fd sx]. intro X. destruct fd; discriminate. }
  split; [intros t It; rewrite Hd; apply in_or_app; right; right; rewrite HY; exact It|].
  exact CASE.
Qed.

Lemma ids_app' : forall a b, ids (a ++ b) = ids a ++ ids b.
Proof. intros; unfold ids; apply map_app. Qed.

Lemma nodup_disj : forall a b x, NoDup (ids (a ++ b)) -> In x (ids a) -> In x (ids b) -> False.
Proof. intros a b x ND. rewrite ids_app' in ND. eapply nodup_app_disjoint; eauto. Qed.

Lemma nodup_ids_app_l : forall a b, NoDup (ids (a ++ b)) -> NoDup (ids a).
Proof. intros a b ND. rewrite ids_app' in ND. eapply nodup_app_l; eauto. Qed.

Lemma ph_ok_mark : forall f d ph, idk f -> ph_ok_b (map f d) ph = ph_ok_b d ph.
Proof.
  intros f d ph K. unfold ph_ok_b. induction d as [|t d IH]; simpl; [reflexivity|]. rewrite IH.
  rewrite (proj1 (K t)). unfold is_ph. rewrite (proj2 (K t)). reflexivity.
Qed.

(* (1) the entries lie, in the order of the returned list, behind the field's placeholder; (2) no placeholder between
   the placeholder and the last comment claimed in front, nor between the last item and the last comment claimed behind *)
Theorem claim_placement : forall d ph items mf ml flt ret its d',
  NoDup (ids d) -> ph_ok_b d ph = true -> items_behind_b d ph items = true ->
  claimer_claim d ph items mf ml flt = (Ok (ret, its), d') ->
  map oitem_of (claim_items d ph items mf ml flt) = its /\
  NoDup (ids d') /\ ph_ok_b d' ph = true /\
  items_behind_b d' ph (claim_items d ph items mf ml flt) = true /\
  (let '(cb, _, ca) := claim_parts d ph items mf ml flt in tight_b d' ph (rep_last ph items) cb ca = true).
Proof.
  intros d ph items mf ml flt ret its d' ND PH BEH H.
  destruct (claim_shape d ph items mf ml flt ret its d' ND PH BEH H)
    as [cb [ii [ca [P [pht [V [Y [R' [rem [d2 [CP [OI [Ed' [ND2 [Ed2 [I0 [CBV [VV [IIL [AFT [INIL [ICONS [SUB CASE]]]]]]]]]]]]]]]]]]]]]]].
  unfold claim_items. rewrite CP.
  assert (K : idk (fun t => if memz (t_id t) (comments_of its) then set_flag true t else t)) by apply mark_idk.
  assert (EM : d' = map (fun t => if memz (t_id t) (comments_of its) then set_flag true t else t) d2) by (rewrite Ed'; reflexivity).
  split; [exact OI|]. split; [rewrite Ed', mark_ids; exact ND2|].
  assert (PHN : ~ In ph (ids P)) by (rewrite <- I0; eapply nodup_mid; rewrite <- Ed2; exact ND2).
  assert (SP2 : split_at ph d2 = Some (P, pht :: V ++ Y ++ R')).
  { rewrite Ed2, <- I0. apply split_at_unique. rewrite I0. exact PHN. }
  assert (ISPH : is_ph pht = true).
  { destruct (ph_ok_split d ph ND PH) as [pre [pht0 [w1 [SP ISP]]]].
    (* the placeholder token of d2 is the one of d: same id, kinds are kept by the permutation of tkeys *)
    destruct (claimer_claim_same_vis _ _ _ _ _ _ _ _ H) as [PK _].
    assert (X : In (tkey pht) (map tkey d')).
    { rewrite EM, map_map. apply in_map_iff. exists pht. split.
      - unfold tkey. destruct (memz (t_id pht) (comments_of its)); reflexivity.
      - rewrite Ed2. apply in_or_app; right; left; reflexivity. }
    apply (Permutation_in _ PK) in X. apply in_map_iff in X. destruct X as [t0 [KT IT]].
    unfold tkey in KT. injection KT as K1 K2 K3.
    apply split_at_spec in SP. destruct SP as [Hd [x0 [r0 [E0 Ix]]]]. inversion E0; subst x0 r0.
    assert (t0 = pht0).
    { apply (nodup_id_inj d); auto; [rewrite Hd; apply in_or_app; right; left; reflexivity | congruence]. }
    subst t0. unfold is_ph in *. rewrite <- K2. exact ISP. }
  split.
  { rewrite EM, ph_ok_mark by exact K. unfold ph_ok_b. apply existsb_exists. exists pht. split.
    - rewrite Ed2. apply in_or_app; right; left; reflexivity.
    - rewrite I0, Z.eqb_refl, ISPH. reflexivity. }
  assert (ND3 : NoDup (ids (V ++ Y ++ R'))).
  { rewrite Ed2 in ND2. apply nodup_tail in ND2. apply nodup_ids_cons in ND2. apply ND2. }
  assert (NDV : NoDup (ids V)) by (eapply nodup_ids_app_l; exact ND3).
  assert (NDYR : NoDup (ids (Y ++ R'))) by (eapply nodup_tail; exact ND3).
  assert (NDR : NoDup (ids R')) by (eapply nodup_tail; exact NDYR).
  assert (AF2 : after d2 ph = V ++ Y ++ R') by (unfold after; rewrite SP2; reflexivity).
  (* the comments claimed behind *)
  assert (LCA : exists r, leftover R' (map citem ca) = Some r).
  { destruct CASE as [[E1 E2]|[q1 [t [q2 [cl0 [E1 [E2 [E3 [CS VT]]]]]]]]].
    - subst ca. simpl. eauto.
    - assert (NDG : NoDup (ids (filter vis q1 ++ [t]))) by (rewrite E3 in NDR; eapply nodup_ids_app_l; exact NDR).
      destruct (leftover_csub _ _ CS NDG) as [g0 [g' [Eg F]]].
      rewrite E3. rewrite <- (app_nil_r (map citem ca)). rewrite F. simpl. eauto. }
  assert (CAIN : forall c, In c ca -> In c (ids R')).
  { intros c I. destruct CASE as [[E1 E2]|[q1 [t [q2 [cl0 [E1 [E2 [E3 [CS VT]]]]]]]]]; [subst ca; contradiction|].
    rewrite E3, ids_app'. apply in_or_app; left. eapply csub_in; eauto. }
  split.
  { rewrite EM, behind_map by exact K. unfold items_behind_b. rewrite AF2.
    destruct (leftover_csub V cb CBV NDV) as [V0 [V' [EV F]]]. rewrite F.
    assert (V'IN : forall x, In x (ids V') -> In x (ids V)).
    { intros x I. rewrite EV, ids_app'. apply in_or_app; right; exact I. }
    destruct LCA as [r LCA].
    destruct items as [|it0 rest0] eqn:EI.
    - destruct (INIL eq_refl) as [E1 E2]. subst ii Y. simpl.
      destruct ca as [|c ca'].
      + simpl. reflexivity.
      + simpl map. rewrite leftover_skip_prefix; [simpl map in LCA; rewrite LCA; reflexivity|].
        intro X. apply (nodup_disj V R' c ND3); [apply V'IN; exact X | apply CAIN; left; reflexivity].
    - assert (NE : it0 :: rest0 <> []) by discriminate.
      destruct (ICONS NE) as [IINE _].
      rewrite AFT in IIL. destruct (leftover_rebase ii (Y ++ rem) rem IIL IINE) as [B [EB HB]].
      apply app_inv_tail in EB. subst B.
      destruct ii as [|h ii']; [contradiction|].
      assert (HY : In (it_first h) (ids Y)).
      { specialize (HB []). rewrite app_nil_r in HB. simpl in HB.
        destruct (split_at (it_first h) Y) as [[g ff]|] eqn:S; [|discriminate]. eapply split_at_in; eauto. }
      change ((h :: ii') ++ map citem ca) with (h :: (ii' ++ map citem ca)).
      rewrite leftover_skip_prefix.
      + change (h :: ii' ++ map citem ca) with ((h :: ii') ++ map citem ca). rewrite leftover_app, (HB R'), LCA. reflexivity.
      + intro X. apply (nodup_disj V (Y ++ R') (it_first h) ND3); [apply V'IN; exact X|].
        rewrite ids_app'. apply in_or_app; left; exact HY. }
  (* tightness *)
  rewrite EM, tight_map by exact K. unfold tight_b. apply andb_true_intro. split.
  - destruct (rev cb) as [|l rcb] eqn:RC; [reflexivity|].
    assert (IL : In l (ids V)).
    { eapply csub_in; [exact CBV|]. apply in_rev. rewrite RC. left; reflexivity. }
    unfold ids in IL. apply in_map_iff in IL. destruct IL as [tl [Etl Itl]]. apply in_split in Itl. destruct Itl as [v1 [v2 EV]].
    unfold between. rewrite SP2.
    assert (S : split_at l (V ++ Y ++ R') = Some (v1, tl :: v2 ++ Y ++ R')).
    { rewrite EV, <- app_assoc. simpl. rewrite <- Etl. apply split_at_unique. rewrite EV in NDV. eapply nodup_mid; exact NDV. }
    rewrite S. rewrite EV in VV. rewrite forallb_app in *. simpl in *.
    apply andb_prop in VV. destruct VV as [A B]. apply andb_prop in B. destruct B as [B _]. rewrite A, B. reflexivity.
  - destruct (rev ca) as [|l rca] eqn:RC; [reflexivity|].
    destruct CASE as [[E1 E2]|[q1 [t [q2 [cl0 [E1 [E2 [E3 [CS VT]]]]]]]]]; [subst ca; discriminate|].
    assert (El : l = t_id t).
    { rewrite E1, rev_app_distr in RC. simpl in RC. inversion RC; reflexivity. }
    subst l.
    assert (RL : exists X, forallb vis X = true /\ NoDup (ids (X ++ R')) /\
                 match split_at (rep_last ph items) d2 with Some (_, _ :: r) => r = X ++ R' | _ => False end).
    { destruct items as [|it0 rest0] eqn:EI.
      - destruct (INIL eq_refl) as [_ EY]. subst Y. exists V. split; [exact VV|]. split; [exact ND3|].
        unfold rep_last. simpl. rewrite SP2. reflexivity.
      - assert (NE : it0 :: rest0 <> []) by discriminate.
        destruct (ICONS NE) as [_ [y [Y0 [EY Ey]]]]. exists []. split; [reflexivity|]. split; [exact NDR|].
        assert (E : d2 = (P ++ pht :: V ++ Y0) ++ y :: R').
        { rewrite Ed2, EY. rewrite <- ?app_assoc. simpl. rewrite <- ?app_assoc. reflexivity. }
        assert (S0 : split_at (t_id y) d2 = Some (P ++ pht :: V ++ Y0, y :: R')).
        { rewrite E. apply split_at_unique. eapply nodup_mid. rewrite <- E. exact ND2. }
        rewrite <- Ey, S0. reflexivity. }
    destruct RL as [X [XV [NDX RL]]]. unfold between.
    destruct (split_at (rep_last ph items) d2) as [[a0 [|y0 r]]|]; try contradiction. subst r.
    assert (S : split_at (t_id t) (X ++ R') = Some (X ++ filter vis q1, t :: filter is_ph (q1 ++ [t]) ++ q2)).
    { assert (E : X ++ R' = (X ++ filter vis q1) ++ t :: filter is_ph (q1 ++ [t]) ++ q2).
      { rewrite E3. rewrite <- ?app_assoc. reflexivity. }
      rewrite E. apply split_at_unique. eapply nodup_mid. rewrite <- E. exact NDX. }
    rewrite S. rewrite !forallb_app. rewrite XV, forallb_vis_filter. simpl. rewrite VT. reflexivity.
Qed.

(* ---- (3) the two regressions: ownership is the same, the placement is not ------------------------------------- *)
(* shift from comments_before[-1] (the NEAREST comment in front) instead of comments_before[0] *)
Definition claimer_claim_nearest_front (d : doc) (ph : Z) (items : list item) (mfirst mlast : Z) (flt : cset)
  : res (list Z * list oitem) * doc :=
  match walk d ph true, walk d (rep_last ph items) false with
  | Some wb, Some wa =>
    let '(cb_rev, s1) := find_outer ph wb mfirst flt in
    let cb := rev cb_rev in
    let '(inner, s2) := find_inner d (from_incl d ph) items s1 in
    let '(ca, s3) := find_outer (rep_last ph items) wa mlast s2 in
    if cs_nonempty s3 then (Err ValueError, d) else
    match (match cb_rev with c0 :: _ => shift_ignored d c0 ph true | [] => Some d end) with
    | None => (Err ModelStuck, d)
    | Some d1 =>
      match (match rev ca, wa with
             | cl :: _, f :: _ => shift_ignored d1 (t_id f) cl false
             | _ :: _, [] => None
             | [], _ => Some d1 end) with
      | None => (Err AssertionError, d1)
      | Some d2 =>
        let its := map (fun c => (true, c)) cb ++ inner ++ map (fun c => (true, c)) ca in
        (Ok (comments_of its, its), claim_all (comments_of its) d2)
      end
    end
  | _, _ => (Err ModelStuck, d)
  end.

(* shift only past comments_after[0] (the FIRST comment behind) instead of comments_after[-1] *)
Definition claimer_claim_first_behind (d : doc) (ph : Z) (items : list item) (mfirst mlast : Z) (flt : cset)
  : res (list Z * list oitem) * doc :=
  match walk d ph true, walk d (rep_last ph items) false with
  | Some wb, Some wa =>
    let '(cb_rev, s1) := find_outer ph wb mfirst flt in
    let cb := rev cb_rev in
    let '(inner, s2) := find_inner d (from_incl d ph) items s1 in
    let '(ca, s3) := find_outer (rep_last ph items) wa mlast s2 in
    if cs_nonempty s3 then (Err ValueError, d) else
    match (match cb with c0 :: _ => shift_ignored d c0 ph true | [] => Some d end) with
    | None => (Err ModelStuck, d)
    | Some d1 =>
      match (match ca, wa with
             | cl :: _, f :: _ => shift_ignored d1 (t_id f) cl false
             | _ :: _, [] => None
             | [], _ => Some d1 end) with
      | None => (Err AssertionError, d1)
      | Some d2 =>
        let its := map (fun c => (true, c)) cb ++ inner ++ map (fun c => (true, c)) ca in
        (Ok (comments_of its, its), claim_all (comments_of its) d2)
      end
    end
  | _, _ => (Err ModelStuck, d)
  end.

(* x / ; a / ; b / <placeholder> / item : two comments in front of the field *)
Definition pa_doc : doc :=
  [mktok 1 KOther [120] false; mktok 2 KBlockComment [59; 97] false; mktok 3 KNewline [10] false;
   mktok 4 KBlockComment [59; 98] false; mktok 5 KNewline [10] false; mktok 6 KPlaceholder [] false;
   mktok 7 KNewline [10] false; mktok 8 KOther [121] false].
(* <placeholder> item / ; a <foreign placeholder> / ; b / y : two comments behind the field, a placeholder between *)
Definition pb_doc : doc :=
  [mktok 1 KPlaceholder [] false; mktok 2 KOther [120] false; mktok 3 KNewline [10] false;
   mktok 4 KBlockComment [59; 97] false; mktok 5 KPlaceholder [] false; mktok 6 KNewline [10] false;
   mktok 7 KBlockComment [59; 98] false; mktok 8 KNewline [10] false; mktok 9 KOther [121] false].

Theorem nearest_front_refuted :
  let items := [mkitem false 0 8 8] in
  NoDup (ids pa_doc) /\ ph_ok_b pa_doc 6 = true /\ items_behind_b pa_doc 6 items = true /\
  fst (claimer_claim_nearest_front pa_doc 6 items 1 8 None) = fst (claimer_claim pa_doc 6 items 1 8 None) /\
  fst (claimer_claim pa_doc 6 items 1 8 None) = Ok ([2; 4], [(true, 2); (true, 4); (false, 0)]) /\
  map t_id (filter t_claimed (snd (claimer_claim_nearest_front pa_doc 6 items 1 8 None))) = [2; 4] /\
  items_behind_b (snd (claimer_claim pa_doc 6 items 1 8 None)) 6 (claim_items pa_doc 6 items 1 8 None) = true /\
  items_behind_b (snd (claimer_claim_nearest_front pa_doc 6 items 1 8 None)) 6 (claim_items pa_doc 6 items 1 8 None) = false /\
  ids (snd (claimer_claim_nearest_front pa_doc 6 items 1 8 None)) = [1; 2; 3; 6; 4; 5; 7; 8].
Proof. split; [apply nodup_zb_ok; vm_compute; reflexivity|]. repeat split; vm_compute; reflexivity. Qed.

Theorem first_behind_refuted :
  let items := [mkitem false 0 2 2] in
  NoDup (ids pb_doc) /\ ph_ok_b pb_doc 1 = true /\ items_behind_b pb_doc 1 items = true /\
  fst (claimer_claim_first_behind pb_doc 1 items 1 9 None) = fst (claimer_claim pb_doc 1 items 1 9 None) /\
  fst (claimer_claim pb_doc 1 items 1 9 None) = Ok ([4; 7], [(false, 0); (true, 4); (true, 7)]) /\
  map t_id (filter t_claimed (snd (claimer_claim_first_behind pb_doc 1 items 1 9 None))) = [4; 7] /\
  tight_b (snd (claimer_claim pb_doc 1 items 1 9 None)) 1 2 [] [4; 7] = true /\
  tight_b (snd (claimer_claim_first_behind pb_doc 1 items 1 9 None)) 1 2 [] [4; 7] = false /\
  ids (snd (claimer_claim pb_doc 1 items 1 9 None)) = [1; 2; 3; 4; 6; 7; 5; 8; 9] /\
  ids (snd (claimer_claim_first_behind pb_doc 1 items 1 9 None)) = [1; 2; 3; 4; 5; 6; 7; 8; 9].
Proof. split; [apply nodup_zb_ok; vm_compute; reflexivity|]. repeat split; vm_compute; reflexivity. Qed.

(* ---- (4) histories of claim / unclaim calls on one field ---------------------------------------------------------- *)
Fixpoint kept_items (items : list item) (s : cset) (all : bool) : list item :=
  match items with
  | [] => []
  | it :: rest =>
    if negb (it_comment it) then it :: kept_items rest s all
    else if negb all && negb (cs_mem s (it_ref it)) then it :: kept_items rest s all
    else kept_items rest (if all then s else cs_discard s (it_ref it)) all
  end.

Lemma kept_items_oitems : forall items s all,
  map oitem_of (kept_items items s all) = fst (fst (unclaim_scan items s all)).
Proof.
  induction items as [|it rest IH]; simpl; intros s all; [reflexivity|].
  destruct (negb (it_comment it)).
  - specialize (IH s all). destruct (unclaim_scan rest s all) as [[k u] s']. simpl in *. rewrite IH. reflexivity.
  - destruct (negb all && negb (cs_mem s (it_ref it))).
    + specialize (IH s all). destruct (unclaim_scan rest s all) as [[k u] s']. simpl in *. rewrite IH. reflexivity.
    + specialize (IH (if all then s else cs_discard s (it_ref it)) all).
      destruct (unclaim_scan rest (if all then s else cs_discard s (it_ref it)) all) as [[k u] s']. simpl in *. exact IH.
Qed.

Lemma leftover_lift : forall p a its r, NoDup (ids (p ++ a)) -> leftover a its = Some r ->
  exists r', leftover (p ++ a) its = Some r'.
Proof.
  intros p a its r ND L. destruct its as [|it rest]; [simpl; eauto|].
  rewrite leftover_skip_prefix; [eauto|].
  intro X. simpl in L. destruct (split_at (it_first it) a) as [[g ff]|] eqn:S; [|discriminate].
  apply split_at_in in S. eapply nodup_disj; eauto.
Qed.

Lemma kept_items_ordered : forall items w s all r, NoDup (ids w) -> leftover w items = Some r ->
  exists r', leftover w (kept_items items s all) = Some r'.
Proof.
  induction items as [|it rest IH]; intros w s all r ND L; [simpl; eauto|].
  simpl in L.
  destruct (split_at (it_first it) w) as [[g ff]|] eqn:S1; [|discriminate].
  destruct (split_at (it_last it) ff) as [[x ya]|] eqn:S2; [|discriminate].
  destruct ya as [|y a]; [discriminate|].
  pose proof (split_at_spec _ _ _ _ S1) as [Hw _]. pose proof (split_at_spec _ _ _ _ S2) as [Hff _].
  assert (Ew : w = (g ++ x ++ [y]) ++ a) by (rewrite Hw, Hff, <- ?app_assoc; reflexivity).
  assert (NDa : NoDup (ids a)) by (rewrite Ew in ND; eapply nodup_tail; exact ND).
  assert (KEEP : forall s0, exists r', leftover w (it :: kept_items rest s0 all) = Some r').
  { intros s0. simpl. rewrite S1, S2. eapply IH; eauto. }
  assert (DROP : forall s0, exists r', leftover w (kept_items rest s0 all) = Some r').
  { intros s0. destruct (IH a s0 all r NDa L) as [r' X]. rewrite Ew. eapply leftover_lift; [rewrite <- Ew; exact ND | exact X]. }
  simpl. destruct (negb (it_comment it)); [apply KEEP|].
  destruct (negb all && negb (cs_mem s (it_ref it))); [apply KEEP | apply DROP].
Qed.

Inductive fop := FClaim (mfirst mlast : Z) (flt : cset) | FUnclaim (flt : cset).

(* state: the store and the field's entries with their first / last tokens *)
Definition fstep (ph : Z) (st : doc * list item) (o : fop) : doc * list item :=
  match o with
  | FClaim mf ml flt =>
    match claimer_claim (fst st) ph (snd st) mf ml flt with
    | (Ok _, d') => (d', claim_items (fst st) ph (snd st) mf ml flt)
    | (Err _, d') => (d', snd st)
    end
  | FUnclaim flt =>
    match unclaim_inter (fst st) (snd st) flt with
    | (Ok _, d') => (d', kept_items (snd st) flt (match flt with None => true | Some _ => false end))
    | (Err _, d') => (d', snd st)
    end
  end.

Definition FInv (ph : Z) (st : doc * list item) : Prop :=
  NoDup (ids (fst st)) /\ ph_ok_b (fst st) ph = true /\ items_behind_b (fst st) ph (snd st) = true.

Lemma ph_ok_has_tok : forall d ph, ph_ok_b d ph = true -> has_tok_b d ph = true.
Proof.
  intros d ph H. unfold ph_ok_b in H. unfold has_tok_b. apply existsb_exists in H. destruct H as [t [I X]].
  apply andb_prop in X. apply existsb_exists. exists t. split; [exact I | apply X].
Qed.

Lemma behind_ordered : forall d ph items, NoDup (ids d) -> ph_ok_b d ph = true ->
  items_behind_b d ph items = true -> items_ordered_b d ph items = true.
Proof.
  intros d ph items ND PH BEH. destruct (ph_ok_split d ph ND PH) as [pre [pht [w1 [SP _]]]].
  pose proof (split_at_spec _ _ _ _ SP) as [Hd _].
  unfold items_behind_b, after in BEH. rewrite SP in BEH. unfold items_ordered_b, from_incl. rewrite SP.
  destruct (leftover w1 items) as [r|] eqn:L; [|discriminate].
  assert (ND' : NoDup (ids ([pht] ++ w1))) by (rewrite Hd in ND; eapply nodup_tail; exact ND).
  destruct (leftover_lift [pht] w1 items r ND' L) as [r' X]. simpl in X. rewrite X. reflexivity.
Qed.

Theorem fstep_inv : forall ph st o, FInv ph st -> FInv ph (fstep ph st o).
Proof.
  intros ph [d items] o [ND [PH BEH]]. simpl in ND, PH, BEH. destruct o as [mf ml flt|flt]; simpl.
  - destruct (claimer_claim d ph items mf ml flt) as [[[ret its]|e] d'] eqn:H.
    + destruct (claim_placement d ph items mf ml flt ret its d' ND PH BEH H) as [_ [A [B [C _]]]].
      split; [exact A|]. split; [exact B | exact C].
    + assert (d' = d).
      { destruct (claimer_claim_total d ph items mf ml flt ND (ph_ok_has_tok _ _ PH) (behind_ordered _ _ _ ND PH BEH))
          as [wb [wa [cb_rev [s1 [inner [s2 [ca [s3 [_ [_ [_ [_ [_ R]]]]]]]]]]]]].
        cbv zeta in R. destruct (cs_nonempty s3).
        - rewrite R in H. inversion H; reflexivity.
        - destruct R as [d2 [_ R]]. rewrite R in H. discriminate. }
      subst d'. split; [exact ND|]. split; [exact PH | exact BEH].
  - unfold unclaim_inter.
    destruct (unclaim_scan items flt match flt with None => true | Some _ => false end) as [[kept un] s'] eqn:SC.
    destruct (negb match flt with None => true | Some _ => false end && cs_nonempty s'); simpl.
    + unfold FInv. cbn [fst snd]. split; [exact ND|]. split; [exact PH | exact BEH].
    + rewrite unclaim_all_mark.
      assert (K : idk (fun t => if memz (t_id t) un then set_flag false t else t)) by apply mark_idk.
      assert (EM : mark un false d = map (fun t => if memz (t_id t) un then set_flag false t else t) d) by reflexivity.
      unfold FInv. cbn [fst snd].
      split; [rewrite mark_ids; exact ND|]. split; [rewrite EM, ph_ok_mark by exact K; exact PH|].
      rewrite EM, behind_map by exact K. unfold items_behind_b in *.
      destruct (leftover (after d ph) items) as [r|] eqn:L; [|discriminate].
      assert (NDa : NoDup (ids (after d ph))).
      { unfold after. destruct (split_at ph d) as [[a [|x b]]|] eqn:S; try constructor.
        apply split_at_spec in S. destruct S as [E _]. rewrite E in ND. apply nodup_tail in ND.
        apply nodup_ids_cons in ND. apply ND. }
      destruct (kept_items_ordered items (after d ph) flt (match flt with None => true | Some _ => false end) r NDa L) as [r' X].
      rewrite X. reflexivity.
Qed.

Theorem field_history_inv : forall ph ops st, FInv ph st -> FInv ph (fold_left (fstep ph) ops st).
Proof. intros ph ops. induction ops as [|o ops IH]; simpl; intros st H; [exact H|]. apply IH, fstep_inv, H. Qed.

