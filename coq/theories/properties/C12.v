From AB Require Import Prelude Tokens TokensProofs.
Theorem C12_placeholder : True. Proof. exact I. Qed.
