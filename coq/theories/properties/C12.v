(* C12 - token value, raw text and lexer agree for every value in the domain.

   Statements only. Models: AB.Tokens (codecs _format_value/_parse_value of every value-carrying token
   class, the token objects' assignment semantics, recognisers lex_K of the terminals of beancount.lark).
   "one lexeme" is  lex_K text = Some (zlen text): the terminal's pattern matches at position 0 and the
   match is the whole text.  The BlockComment and Date theorems are about the repaired code (modes SplitNl,
   DatePadded); C12_block_found_refuted / C12_date_found_refuted state what the code as found does. *)
From AB Require Import Prelude Tokens TokensProofs.

(* --- EscapedString: the domain is every code-point list ----------------------------------------- *)
Theorem C12_string_roundtrip : forall v : str,
  string_parse (string_format v) = Ok v /\ lex_string (string_format v) = Some (zlen (string_format v)).
Proof. intros v. split; [apply string_roundtrip | apply len_matched_full, string_lexr]. Qed.
Theorem C12_string_escape_unescape : forall (aggressive : bool) (v : str), unescape (escape aggressive v) = v.
Proof. exact unescape_escape. Qed.

(* --- InlineComment: strings without CR/LF that do not start with a blank ------------------------- *)
Theorem C12_inline_roundtrip : forall v : str, dom_inline v = true ->
  inline_parse (inline_format v) = Ok v /\ lex_inline (inline_format v) = Some (zlen (inline_format v)).
Proof. intros v H. split; [apply inline_roundtrip, H | apply len_matched_full, inline_lexr, H]. Qed.
Example C12_inline_nonvacuous : dom_inline [97; 32; 59; 34; 12; 8232] = true. Proof. reflexivity. Qed.

(* --- BlockComment ------------------------------------------------------------------------------- *)
(* the codec alone: every value (any code points, any line structure), any indent without ';' and LF *)
Theorem C12_block_codec_all_strings : forall i v : str, indent_codec_ok i = true ->
  block_parse SplitNl (block_format SplitNl i v) = Ok (i, v).
Proof. exact block_roundtrip. Qed.
Example C12_block_codec_nonvacuous : indent_codec_ok [32; 9; 120] = true. Proof. reflexivity. Qed.
(* values with a lexeme: lines of [^\r\n]* joined by \r*\n; indent of blanks *)
Theorem C12_block_roundtrip : forall i v : str, dom_block_indent i = true -> dom_block_value v = true ->
  block_parse SplitNl (block_format SplitNl i v) = Ok (i, v) /\
  lex_block (block_format SplitNl i v) = Some (zlen (block_format SplitNl i v)).
Proof.
  intros i v Hi Hv. split; [apply block_roundtrip, ws_indent_codec_ok, Hi | apply len_matched_full, block_lexr; assumption].
Qed.
Example C12_block_nonvacuous :
  dom_block_indent [32; 9] = true /\ dom_block_value [97; 12; 133; 8232; 13; 13; 10; 10; 32; 98; 13; 10] = true.
Proof. split; reflexivity. Qed.
(* every BLOCK_COMMENT lexeme is accepted and kept verbatim, and its value describes it *)
Theorem C12_block_verbatim : forall s : str, lex_block s = Some (zlen s) ->
  exists t, b_from_raw_text SplitNl s = Ok t /\ b_raw t = s /\
            block_parse SplitNl (b_raw t) = Ok (b_indent t, b_value t).
Proof.
  intros s H. apply len_matched_full in H. destruct (block_lexeme_accepted s H) as [i [v E]].
  exists (mk_btok s i v). unfold b_from_raw_text. rewrite E. repeat split. exact E.
Qed.
Example C12_block_verbatim_nonvacuous : lex_block [32; 59; 97; 12; 98; 13; 10; 9; 59] = Some 9.
Proof. reflexivity. Qed.
(* after any sequence of value / raw_text / indent assignments (values: any string; raw texts: any text
   _parse_value accepts, in particular every lexeme; indents: without ';' and LF) the raw text parses to
   (indent, value) *)
Theorem C12_block_history : forall (parse_first : bool) (t : btok) (ops : list b_op),
  b_coherent t -> Forall b_op_ok ops ->
  let t' := b_run SplitNl parse_first t ops in
  block_parse SplitNl (b_raw t') = Ok (b_indent t', b_value t') /\ indent_codec_ok (b_indent t') = true.
Proof. intros pf t ops Ht Hops. destruct (b_history pf t ops Ht Hops) as [H1 H2]. split; assumption. Qed.
Theorem C12_block_history_starts : forall i v s t,
  (indent_codec_ok i = true -> b_coherent (b_from_value SplitNl i v)) /\
  (b_from_raw_text SplitNl s = Ok t -> b_coherent t).
Proof. intros. split; [apply b_from_value_coherent | intros H; apply (b_from_raw_text_ok _ _ H)]. Qed.
Example C12_block_history_nonvacuous :
  b_coherent (b_from_value SplitNl [32] [97; 10; 98]) /\
  Forall b_op_ok [BSetRaw [59; 120; 12; 121]; BSetIndent [9]; BSetValue [13; 99]].
Proof.
  split; [apply b_from_value_coherent; reflexivity|].
  repeat constructor. exists [], [120; 12; 121]. reflexivity.
Qed.
(* the code as found (str.splitlines): a lexeme is refused, and a value of the domain is written as a
   text that is not a lexeme *)
Theorem C12_block_found_refuted :
  (exists s, lex_block s = Some (zlen s) /\ block_parse SplitPy s = Err ValueError) /\
  (exists v, dom_block_value v = true /\
             lex_block (block_format SplitPy [] v) <> Some (zlen (block_format SplitPy [] v))).
Proof.
  split.
  - exists [SEMI; SPACE; 97; 12; 98]. split; vm_compute; reflexivity.
  - exists [97; CR; CR; NL; 98]. split; [vm_compute; reflexivity | vm_compute; discriminate].
Qed.

(* --- Date: every datetime.date (1 <= year <= 9999) ---------------------------------------------- *)
Theorem C12_date_roundtrip : forall v : date, valid_date v = true ->
  date_parse (date_format DatePadded v) = Ok v /\
  lex_date (date_format DatePadded v) = Some (zlen (date_format DatePadded v)).
Proof. intros v H. split; [apply date_roundtrip, H | apply len_matched_full, date_lexr, H]. Qed.
Example C12_date_nonvacuous : valid_date (999, 2, 28) = true /\ valid_date (2000, 2, 29) = true.
Proof. split; reflexivity. Qed.
Theorem C12_date_found_refuted : exists v, valid_date v = true /\ lex_date (date_format DateStrftime v) = None.
Proof. exists (999, 1, 2). split; vm_compute; reflexivity. Qed.

(* --- Number: every finite non-negative Decimal (sign 0, canonical coefficient, ANY exponent) ------------
   _format_value = format(v, 'f') (repo commit 0aeea5a).  "Same value" is Decimal equality, which is numeric:
   dec_eqb (s1,d1,e1) (s2,d2,e2) compares coef d1 * 10^e1 with coef d2 * 10^e2 (after scaling by the smaller
   exponent); Decimal('1E+3') == Decimal('1000') although the triples differ.  from_value keeps the assigned
   object as .value; re-lexing the text gives w with dec_eqb v w, and w = v as a triple whenever the exponent
   is <= 0 (trailing zeros kept, 0.000 stays 0.000).  The text is always one NUMBER lexeme. *)
Theorem C12_number_roundtrip : forall v : decimal, dom_number v = true ->
  (exists w, number_parse (number_format v) = Ok w /\ dec_eqb v w = true /\ (dom_number_exact v = true -> w = v)) /\
  lex_number (number_format v) = Some (zlen (number_format v)).
Proof. intros v H. split; [apply number_roundtrip, H | apply len_matched_full, number_lexr, H]. Qed.
Example C12_number_nonvacuous :
  dom_number (0, [1; 2; 3; 0; 0], 2) = true /\ dom_number (0, [1], -30) = true /\ dom_number (0, [0], 5) = true /\
  dom_number_exact (0, [1; 2; 5; 0], -2) = true /\ dom_number_exact (0, [0], -3) = true /\
  dec_eqb (0, [1], 3) (0, [1; 0; 0; 0], 0) = true /\ dec_eqb (0, [1], 3) (0, [1; 0; 0], 0) = false.
Proof. repeat split; reflexivity. Qed.
(* the formatting as found (str(v)): a value of the domain is written in scientific notation *)
Theorem C12_number_found_refuted :
  exists v, dom_number v = true /\ lex_number (number_format_str v) <> Some (zlen (number_format_str v)).
Proof. exists (0, [1], 3). split; [reflexivity | vm_compute; discriminate]. Qed.

(* --- Tag, Link, MetaKey, Bool, Null, Account/Currency -------------------------------------------- *)
Theorem C12_tag_link_roundtrip : forall v : str, dom_tag v = true ->
  tag_parse (tag_format v) = Ok v /\ lex_tag (tag_format v) = Some (zlen (tag_format v)) /\
  link_parse (link_format v) = Ok v /\ lex_link (link_format v) = Some (zlen (link_format v)).
Proof.
  intros v H. repeat split; [apply len_matched_full, tag_lexr, H | apply len_matched_full, link_lexr, H].
Qed.
Theorem C12_metakey_roundtrip : forall v : str, dom_metakey v = true ->
  metakey_parse (metakey_format v) = Ok v /\ lex_metakey (metakey_format v) = Some (zlen (metakey_format v)).
Proof. intros v H. split; [apply metakey_roundtrip | apply len_matched_full, metakey_lexr, H]. Qed.
Example C12_tag_metakey_nonvacuous : dom_tag [97; 45; 47; 46] = true /\ dom_metakey [97; 66; 45] = true.
Proof. split; reflexivity. Qed.
Theorem C12_bool_null_roundtrip :
  (forall b : bool, bool_parse (bool_format b) = Ok b /\ lex_bool (bool_format b) = Some (zlen (bool_format b))) /\
  lex_null NULL_ = Some (zlen NULL_) /\ (forall v : str, simple_parse (simple_format v) = Ok v).
Proof. split; [intros b; destruct b; split; reflexivity | split; reflexivity]. Qed.

(* --- TransactionFlag, PostingFlag ------------------------------------------------------------------------
   domain: the one-character flags * ! & # ? % P S T C U R M.  'txn' is a SPELLING of the value '*'
   (TransactionFlag._parse_value('txn') = '*'), not a value: from_value('txn') is outside the domain. *)
Theorem C12_flag_roundtrip : forall v : str, dom_flag v = true ->
  txflag_parse (txflag_format v) = Ok v /\ lex_txflag (txflag_format v) = Some (zlen (txflag_format v)) /\
  simple_parse (simple_format v) = Ok v /\ lex_pflag (simple_format v) = Some (zlen (simple_format v)).
Proof.
  intros v H. repeat split; [apply txflag_roundtrip, H | apply len_matched_full, txflag_lexr, H
                            | apply len_matched_full, pflag_lexr, H].
Qed.
Example C12_flag_nonvacuous :
  dom_flag [42] = true /\ dom_flag [77] = true /\ dom_flag TXN_ = false /\
  txflag_parse TXN_ = Ok [42] /\ lex_txflag TXN_ = Some 3.
Proof. repeat split. Qed.

(* --- Account, Currency (identity codecs; the recognisers are the content) -------------------------------
   an account is a type component and >= 1 name components joined by ':' *)
Theorem C12_account_roundtrip : forall (t : str) (names : list str),
  acct_type_ok t = true -> names <> [] -> forallb acct_name_ok names = true ->
  let v := account_of t names in
  simple_parse (simple_format v) = Ok v /\ lex_account (simple_format v) = Some (zlen (simple_format v)).
Proof. intros t names Ht Hn Hok. split; [reflexivity | apply len_matched_full, account_lexr; assumption]. Qed.
Example C12_account_nonvacuous :
  acct_type_ok [65; 115] = true /\ forallb acct_name_ok [[70; 45; 111]; [57]; [20013]] = true /\
  lex_account [65; 58; 66; 58] = Some 3.
Proof. repeat split. Qed.
Theorem C12_currency_roundtrip : forall v : str, dom_currency v = true ->
  simple_parse (simple_format v) = Ok v /\ lex_currency (simple_format v) = Some (zlen (simple_format v)).
Proof. intros v H. split; [reflexivity | apply len_matched_full, currency_lexr, H]. Qed.
Example C12_currency_nonvacuous :
  dom_currency [85; 83; 68] = true /\ dom_currency [65; 39; 46; 95; 45; 57] = true /\ dom_currency [47; 54; 65] = true /\
  dom_currency [47; 54] = false /\ lex_currency [85; 83; 68; 46] = Some 3.
Proof. repeat split. Qed.

(* --- Indent: EXCLUDED from the one-lexeme statement --------------------------------------------------------
   Indent is a SimpleSingleValue token (identity codec, C12_bool_null_roundtrip's last conjunct covers it),
   but its terminal INDENT = line start, [ \t]+, LOOKAHEAD for a character that is not blank/CR/LF.  A text
   consisting of blanks only is therefore never an INDENT lexeme: Indent.from_value('    ').raw_text does not
   re-lex by Parser.parse_token; it is one INDENT token only in context (followed by the posting / meta item).
   No recogniser is modelled; the harness monitors Indent values inside a parsed transaction. *)

(* --- every lexeme is accepted (the texts the recognisers match completely) -------------------------------
   String, InlineComment, Tag, Link, MetaKey, Account, Currency, PostingFlag: _parse_value is total
   (string_parse, inline_parse, tag_parse, link_parse, metakey_parse, simple_parse never return Err);
   BlockComment: C12_block_verbatim.  The classes whose _parse_value can raise: *)
Theorem C12_lexemes_accepted : forall s : str,
  (lex_number s = Some (zlen s) -> exists v, number_parse s = Ok v) /\
  (lex_date s = Some (zlen s) ->
     exists a b c c1 c2, s = a ++ c1 :: b ++ c2 :: c /\
       date_parse s = let v := (int_of_digits a, int_of_digits b, int_of_digits c) in
                      if valid_date v then Ok v else Err ValueError) /\
  (lex_bool s = Some (zlen s) -> exists b, bool_parse s = Ok b /\ bool_format b = s) /\
  (lex_null s = Some (zlen s) -> s = NULL_) /\
  (lex_txflag s = Some (zlen s) -> exists v, txflag_parse s = Ok v /\ dom_flag v = true) /\
  (exists v1 v2 v3 v4 v5 v6, string_parse s = Ok v1 /\ inline_parse s = Ok v2 /\ tag_parse s = Ok v3 /\
     link_parse s = Ok v4 /\ metakey_parse s = Ok v5 /\ simple_parse s = Ok v6).
Proof.
  intros s. repeat split; try (intros H; apply len_matched_full in H).
  - apply number_lexeme_accepted, H.
  - apply date_lexeme_accepted, H.
  - apply bool_lexeme_accepted, H.
  - apply null_lexeme, H.
  - apply txflag_lexeme_accepted, H.
  - repeat eexists.
Qed.
Example C12_lexemes_accepted_nonvacuous :
  lex_number [49; 44; 50; 51; 52; 46; 53] = Some 7 /\ lex_date [50; 48; 48; 48; 47; 49; 45; 50] = Some 8 /\
  lex_bool TRUE_ = Some 4 /\ lex_txflag [80] = Some 1.
Proof. repeat split. Qed.

(* --- token objects of every single-value class (the lexer side of "accepts every lexeme" is
   C12_lexemes_accepted / C12_block_verbatim above) --------------------------------------------------- *)
(* from_raw_text keeps the text verbatim and accepts exactly the texts _parse_value accepts (for Date: the
   lexemes whose meaning is a calendar date); from_value stores the value *)
Theorem C12_verbatim : forall (V : Type) (parse : str -> res V) (s : str),
  (forall v, parse s = Ok v -> sv_from_raw_text parse s = Ok (mk_tok s v)) /\
  (forall t, sv_from_raw_text parse s = Ok t -> t_raw t = s /\ parse (t_raw t) = Ok (t_val t)).
Proof. intros V parse s. split; [apply sv_from_raw_text_accepts | apply sv_from_raw_text_ok]. Qed.

(* after any sequence of value / raw_text assignments (values of the domain, raw texts that are accepted)
   the raw text parses to the value; instantiated for every class.  For Number this exact form is stated for
   exponents <= 0; with a positive exponent the raw text parses to a numerically equal Decimal
   (C12_number_roundtrip), which the monitor checks with Decimal equality. *)
(* history_ok parse format dom  (TokensProofs.v)  :=
     (forall v, dom v = true -> coherent parse (sv_from_value format v)) /\
     forall parse_first t ops, coherent parse t -> Forall (op_ok parse dom) ops ->
                               coherent parse (sv_run parse format parse_first t ops)
   with  coherent parse t := parse (t_raw t) = Ok (t_val t)
         op_ok (SetValue v) := dom v = true ;  op_ok (SetRaw s) := exists v, parse s = Ok v *)
Theorem C12_history_exact :
  history_ok string_parse string_format dom_string /\
  history_ok inline_parse inline_format dom_inline /\
  history_ok date_parse (date_format DatePadded) dom_date /\
  history_ok number_parse number_format dom_number_exact (* exponent <= 0; any exponent: C12_number_history_numeric *) /\
  history_ok tag_parse tag_format dom_tag /\ history_ok link_parse link_format dom_tag /\
  history_ok metakey_parse metakey_format dom_metakey /\
  history_ok bool_parse bool_format (fun _ => true) /\
  history_ok txflag_parse txflag_format dom_flag /\
  history_ok simple_parse simple_format (fun _ => true).
Proof.
  repeat split; try (apply history_ok_of); intros;
    first [apply string_roundtrip | apply inline_roundtrip | apply date_roundtrip | apply number_roundtrip_exact
          | apply txflag_roundtrip | apply tag_roundtrip | apply link_roundtrip | apply metakey_roundtrip | apply bool_roundtrip
          | apply simple_roundtrip]; assumption.
Qed.
(* Number with ANY exponent (dom_number): after any assignment sequence the raw text parses to a Decimal that
   is numerically equal (dec_eqb) to the token's value *)
Theorem C12_number_history_numeric : forall (parse_first : bool) (t : tok decimal) (ops : list (sv_op decimal)),
  num_coherent t -> Forall (op_ok number_parse dom_number) ops ->
  exists w, number_parse (t_raw (sv_run number_parse number_format parse_first t ops)) = Ok w /\
            dec_eqb (t_val (sv_run number_parse number_format parse_first t ops)) w = true.
Proof. intros pf t ops Ht Hops. exact (number_history_numeric pf t ops Ht Hops). Qed.
Example C12_number_history_numeric_nonvacuous :
  num_coherent (sv_from_value number_format (0, [1; 2], 3)) /\
  Forall (op_ok number_parse dom_number) [SetValue (0, [5], 40); SetRaw [49; 44; 48; 48; 48]].
Proof.
  split; [apply number_from_value_numeric; reflexivity|].
  repeat constructor. eexists. vm_compute. reflexivity.
Qed.
Example C12_history_nonvacuous :
  coherent date_parse (sv_from_value (date_format DatePadded) (999, 1, 2)) /\
  Forall (op_ok date_parse dom_date) [SetRaw [50; 48; 48; 48; 47; 49; 47; 50]; SetValue (1, 12, 31)].
Proof.
  split; [apply sv_from_value_coherent with (dom := dom_date); [apply date_roundtrip | reflexivity]|].
  repeat constructor. exists (2000, 1, 2). reflexivity.
Qed.
