From AB Require Import Desc Generated GeneratedWf.
From AB Require Import Tree TreeDefs TreeProofs TreeProofs4 TreeRun TreeFacts.
From Coq Require Import ZArith List Bool.
Import ListNotations.

Theorem C20_generated_classes_wf : forall c, In c classes -> wf_desc c = true.
Proof. exact generated_wf_each. Qed.

(* wf_tree is the part of wf_desc the tree functions depend on (also holds for the hand-written
   NumberAddExpr / NumberMulExpr descriptors of TreeRun.all_classes) *)
Theorem C20_wf_desc_implies_wf_tree : forall c, wf_desc c = true -> wf_tree c = true.
Proof. exact wf_desc_wf_tree. Qed.
Theorem C20_classes_ok_generated : classes_ok classes.
Proof. exact classes_ok_generated. Qed.
Theorem C20_classes_ok_all : classes_ok all_classes.
Proof. exact classes_ok_all. Qed.

(* 1. == is symmetric, for any class list (no hypothesis on classes: if the class names differ both
   directions are false), for nodes that have one child per field name *)
Theorem C20_sym : forall cs a b,
  keys_ok a = true -> keys_ok b = true -> node_eq cs a b = node_eq cs b a.
Proof. exact node_eq_sym. Qed.
Example C20_sym_hyps : keys_ok ex_open = true /\ keys_ok ex_open_other = true /\ keys_ok ex_open_num = true.
Proof. exact ex_keys_ok. Qed.
(* in particular on conforming nodes (conforms => keys_ok) *)
Theorem C20_sym_conforms : forall cs a b,
  conforms cs a = true -> conforms cs b = true -> node_eq cs a b = node_eq cs b a.
Proof. exact node_eq_sym_conforms. Qed.
(* the hypothesis cannot be dropped in the model (a duplicated field name on one side) *)
Theorem C20_sym_needs_keys_ok : exists cs a b, node_eq cs a b <> node_eq cs b a.
Proof. exact keys_ok_needed. Qed.

(* 2. equal => same type, same token (rule, text) list, same printed text *)
Theorem C20_eq_type : forall cs a b, node_eq cs a b = true -> node_type a = node_type b.
Proof. exact node_eq_type. Qed.
Theorem C20_eq_toks : forall cs a b,
  node_eq cs a b = true -> toks_eqb (node_toks a) (node_toks b) = true.
Proof. exact node_eq_toks. Qed.
Theorem C20_eq_text : forall cs a b,
  node_eq cs a b = true -> text_of (node_toks a) = text_of (node_toks b).
Proof. exact node_eq_text. Qed.
(* tokens: == is exactly equality of the hashed key (RULE, raw_text) *)
Theorem C20_token_eq_hash : forall cs x y,
  node_eq cs (Leaf x) (Leaf y) = true <-> tk_hash_key x = tk_hash_key y.
Proof. exact leaf_eq_iff. Qed.

(* 3. no forgotten field: for a class following the scheme, == implies same class, equal token
   lists, both nodes have EVERY declared field and the children are pairwise equal (slot_eq is the
   sub-call of node_eq), and every data field is equal *)
Theorem C20_eq_complete : forall cs c ca sa ta ka da cb sb tb kb db,
  find_class cs ca = Some c -> wf_tree c = true ->
  node_eq cs (Tree ca sa ta ka da) (Tree cb sb tb kb db) = true ->
  ca = cb /\ toks_eqb ta tb = true
  /\ (forall f, In f (c_fields c) -> field_rel (node_eq cs) ka kb (f_name f))
  /\ (forall d, In d (c_data c) -> datum da d = datum db d).
Proof. exact node_eq_complete. Qed.
Theorem C20_eq_complete_generated : forall c ca sa ta ka da cb sb tb kb db,
  find_class classes ca = Some c ->
  node_eq classes (Tree ca sa ta ka da) (Tree cb sb tb kb db) = true ->
  ca = cb /\ toks_eqb ta tb = true
  /\ (forall f, In f (c_fields c) -> field_rel (node_eq classes) ka kb (f_name f))
  /\ (forall d, In d (c_data c) -> datum da d = datum db d).
Proof.
  exact (fun c ca sa ta ka da cb sb tb kb db H =>
           node_eq_complete classes c ca sa ta ka da cb sb tb kb db H
             (classes_ok_generated c (proj1 (find_class_In _ _ _ H)))).
Qed.
(* conversely nothing else is compared *)
Theorem C20_eq_sound : forall cs c ca sa ta ka da sb tb kb db,
  find_class cs ca = Some c -> wf_tree c = true -> NoDup (map fst ka) ->
  toks_eqb ta tb = true ->
  (forall f, In f (c_fields c) -> field_rel (node_eq cs) ka kb (f_name f)) ->
  (forall d, In d (c_data c) -> datum da d = datum db d) ->
  node_eq cs (Tree ca sa ta ka da) (Tree ca sb tb kb db) = true.
Proof. exact node_eq_sound. Qed.
Theorem C20_eq_exact : forall cs c ca sa ta ka da cb sb tb kb db,
  find_class cs ca = Some c -> wf_tree c = true -> NoDup (map fst ka) ->
  (node_eq cs (Tree ca sa ta ka da) (Tree cb sb tb kb db) = true
   <-> ca = cb /\ toks_eqb ta tb = true
       /\ (forall f, In f (c_fields c) -> field_rel (node_eq cs) ka kb (f_name f))
       /\ (forall d, In d (c_data c) -> datum da d = datum db d)).
Proof. exact node_eq_exact. Qed.
Example C20_eq_exact_hyps :
  find_class classes "Open" = Some c_Open /\ wf_tree c_Open = true
  /\ node_eq classes ex_open ex_open = true /\ node_eq classes ex_open ex_open_other = false
  /\ node_eq classes ex_open_other ex_open = false.
Proof. vm_compute. auto. Qed.

(* 4. reflexive on conforming nodes *)
Theorem C20_refl : forall cs, classes_ok cs ->
  forall a, conforms cs a = true -> node_eq cs a a = true.
Proof. exact node_eq_refl. Qed.
Example C20_refl_hyps : conforms classes ex_open = true /\ conforms classes ex_open_other = true
                        /\ conforms all_classes ex_open_num = true.
Proof. exact ex_conforms. Qed.
