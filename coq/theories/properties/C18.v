(* C18 - children created from values are indented by the documented rule.
   Statements only; proofs are in IndentProofs.v. *)
From AB Require Import Prelude Indent IndentProofs.

(* a meta item created by `parent.meta[key] = value` (key not present) is appended with the indent its
   sibling meta items share, and with parent_indent ++ indent_by when there is none (parent_indent = ""
   for entries, the posting's indent for postings); nothing else of the parent changes *)
Theorem C18_meta_indent : forall p k, has_key k (p_items p) = false ->
  let p' := setitem p k in
  exists new, p_items p' = p_items p ++ [IMeta new k]
    /\ (forall i, metas (p_items p) <> [] ->
                  (forall m, In m (metas (p_items p)) -> item_indent m = i) -> new = i)
    /\ (metas (p_items p) = [] -> new = parent_indent p ++ p_indent_by p)
    /\ p_indent p' = p_indent p /\ p_indent_by p' = p_indent_by p.
Proof. exact meta_rule. Qed.

(* assigning to a key that exists creates nothing *)
Theorem C18_meta_existing : forall p k, has_key k (p_items p) = true -> setitem p k = p.
Proof. exact setitem_existing. Qed.

(* a raw node that is appended or inserted is in the list as it is (its indent verbatim) *)
Theorem C18_raw_kept : forall p it, p_items (append_raw p it) = p_items p ++ [it].
Proof. exact raw_kept. Qed.

(* frame: for every route the old items (their indents, their order), the parent's indent and indent_by
   are unchanged; exactly the listed items are new *)
Theorem C18_frame_setitem : forall p k,
  extends p (setitem p k) (if has_key k (p_items p) then [] else [IMeta (get_indent p) k]).
Proof. exact setitem_frame. Qed.
Theorem C18_frame_append : forall p it, extends p (append_raw p it) [it].
Proof. exact append_raw_frame. Qed.
Theorem C18_frame_insert : forall p index it, extends p (insert_raw p index it) [it].
Proof. exact insert_raw_frame. Qed.

(* Reading taken for comments (reviewer's note): the property's rule "siblings' shared indent, else the
   parent's own indentation followed by indent_by" is the rule for META ITEMS, which sit one level below
   their parent. A leading/trailing comment of a posting or meta item sits on the SAME level as its owner
   (it is printed directly above / below the owner's line), so for "an indented leading/trailing comment
   created from a plain value" model and monitor take: the comment's indent is its OWNER's current indent
   (optional_indented_string_property passes raw_indent.value to BlockComment.from_value), on every line of
   the comment; indent_by plays no part. Entries' comments are unindented (optional_string_property). *)
(* a leading/trailing comment created from a string takes its owner's indent, on every line; replacing
   the text of an existing comment keeps that comment's indent *)
Theorem C18_comment_indent : forall cur owner_indent ls c,
  set_comment cur owner_indent (Some ls) = Some c ->
  c_lines c = ls
  /\ (cur = None -> c_indent c = owner_indent /\ Forall (starts_with (owner_indent ++ [SEMI])) (format_value c))
  /\ (forall c0, cur = Some c0 -> c_indent c = c_indent c0).
Proof. exact comment_rule. Qed.

(* histories on one entry / posting (mapping assignment, raw append / insert, del / pop / clear,
   indent_by = ..., posting.indent = ...): by induction over the operation list, every step satisfies the
   statement relative to the state current at that step *)
Theorem C18_history : forall ops p, trace_ok p ops.
Proof. exact history_ok. Qed.

(* ... so after any history the default rule uses the current parent indent and the current indent_by *)
Theorem C18_default_is_current : forall ops p k, let q := hrun p ops in
  metas (p_items q) = [] ->
  p_items (hrun p (ops ++ [HSetItem k])) = p_items q ++ [IMeta (parent_indent q ++ p_indent_by q) k].
Proof. exact default_is_current. Qed.

Theorem C18_assigned_is_current : forall ops p s,
  p_indent_by (hrun p (ops ++ [HSetIndentBy s])) = s
  /\ (p_indent (hrun p ops) <> None -> p_indent (hrun p (ops ++ [HSetIndent s])) = Some s).
Proof. exact assigned_is_current. Qed.

(* deep copies (the node, its transaction, the whole file) inside a history: C18_history covers the
   HDeepCopy step; the rule under the copy reads the original's indent and configured indent_by *)
Theorem C18_copy_keeps_rule : forall ops p k, let q := hrun p ops in
  metas (p_items q) = [] ->
  p_items (hrun p (ops ++ [HDeepCopy; HSetItem k])) = p_items q ++ [IMeta (parent_indent q ++ p_indent_by q) k]
  /\ p_indent_by (hrun p (ops ++ [HDeepCopy])) = p_indent_by q
  /\ p_indent (hrun p (ops ++ [HDeepCopy])) = p_indent q.
Proof. exact copy_keeps_rule. Qed.

(* non-vacuity *)
Example C18_meta_shared_ex :
  let p := mkparent (Some [32; 32]) [9] [IComment [32]; IMeta [32; 9] 1; IMeta [32; 9] 2] in
  has_key 3 (p_items p) = false /\ metas (p_items p) <> []
  /\ p_items (setitem p 3) = p_items p ++ [IMeta [32; 9] 3].
Proof. repeat split; discriminate. Qed.
Example C18_meta_default_ex :
  let p := mkparent (Some [32; 32]) [9] [IComment [32]] in
  metas (p_items p) = [] /\ p_items (setitem p 3) = [IComment [32]; IMeta [32; 32; 9] 3].
Proof. repeat split. Qed.
Example C18_comment_ex :
  set_comment None [9] (Some [[97; 10]; []]) = Some (mkcomment [9] [[97; 10]; []])
  /\ raw_text_of (mkcomment [9] [[97; 10]; []]) = [9; 59; 32; 97; 10; 9; 59].
Proof. repeat split. Qed.
Example C18_history_ex :
  let p := mkparent (Some [32]) [32; 32] [] in
  p_items (hrun p [HSetItem 1; HClear; HSetIndentBy [9]; HSetIndent [9; 9]; HSetItem 2]) = [IMeta [9; 9; 9] 2].
Proof. reflexivity. Qed.
Example C18_copy_ex :
  p_items (hrun (mkparent None [32; 32; 32; 32] []) [HSetIndentBy [9]; HDeepCopy; HSetItem 1]) = [IMeta [9] 1].
Proof. reflexivity. Qed.
