(* C01 - Parse then print reproduces the input character for character.

   Vocabulary (PostLex.v, Builder.v): a lexeme is (terminal code, text); [txt] concatenates texts;
   [process] is parser.PostLex.process, [process_inline] PostLexInline.process (INLINE targets);
   [build env T] is ModelBuilder(tokens).build(tree) over the lark tree T, [built st] the list it hands
   to the token store, [leaves st] the stream positions of the tree leaves it materialised (newest
   first), [root_span is_file store b] the (first_token, last_token) store indexes of the returned
   model, [print_span store a z] what printer.print_model writes for a model spanning a..z.

   Oracles (lark): H-tile [txt s = text] and H-order [leaves_ok ... = true] are hypotheses here and
   are evaluated by ParseRun.check_code on every input of every run, together with
   [filter has_text store = filter has_text built] (comment claiming only moves zero-width tokens). *)
From AB Require Import Prelude PostLex Builder ParseProofs.

(* PostLex.process adds and drops no character whenever it does not fail its assert ... *)
Theorem C01_postlex_preserves_text :
  forall s out, process s = (out, None) -> txt out = txt s.
Proof. exact postlex_preserves_text. Qed.

(* ... and it fails exactly when a composite lexeme is not matched by the split regex. *)
Theorem C01_postlex_accepts_iff :
  forall s, snd (process s) = None <-> forallb nic_ok s = true.
Proof. exact postlex_accepts_iff. Qed.

(* ModelBuilder: if the tree leaves are strictly increasing stream positions, the lexemes that carry
   text are in the built list exactly once and in stream order, and nothing else in it carries text
   (placeholders, marks); hence the built list prints the stream's text. Any tree, any stream. *)
Theorem C01_builder_tiles :
  forall env T st b,
    build env T = (st, Ok b) ->
    leaves_ok (zlen (toks env)) (leaves st) = true ->
    filter has_text (built st) = filter has_text (toks env) /\ txt (built st) = txt (toks env).
Proof. intros env T st b H1 H2. split; [eapply builder_tiles_FT | eapply builder_tiles]; eauto. Qed.

(* Every parse target, both modes: the concatenation of all tokens in the store is the input. *)
Theorem C01_store_concat_is_input :
  forall text postlex s s' ign tm T st b store,
    txt s = text ->
    postlex_of postlex s = (s', None) ->
    build (mkenv s' ign tm) T = (st, Ok b) ->
    leaves_ok (zlen s') (leaves st) = true ->
    filter has_text store = filter has_text (built st) ->
    txt store = text.
Proof. exact store_concat_is_input. Qed.

(* Target File (models/file.py first_token/last_token), both modes: print (parse text) = text. *)
Theorem C01_file_prints_input :
  forall text postlex s s' ign tm T st b store,
    txt s = text ->
    postlex_of postlex s = (s', None) ->
    build (mkenv s' ign tm) T = (st, Ok b) ->
    leaves_ok (zlen s') (leaves st) = true ->
    filter has_text store = filter has_text (built st) ->
    forall a z, root_span true store b = Some (a, z) -> print_span store a z = text.
Proof. exact file_prints_input. Qed.

(* Every sub-model (first <= last, both in the store) prints exactly the slice of the input between
   the offset of its first token and the end of its last token. *)
Theorem C01_submodel_slice :
  forall text postlex s s' ign tm T st b store,
    txt s = text ->
    postlex_of postlex s = (s', None) ->
    build (mkenv s' ign tm) T = (st, Ok b) ->
    leaves_ok (zlen s') (leaves st) = true ->
    filter has_text store = filter has_text (built st) ->
    forall a z, 0 <= a -> a <= z -> z < zlen store ->
      print_span store a z = py_slice text (off store a) (off store (z + 1)).
Proof. exact submodel_slice. Qed.

(* first_token <= last_token, both in the store, for the returned model and every model nested in it
   (spans as Repeated / the generated classes compute them: first resp. last present part). *)
Theorem C01_spans_ordered :
  forall env T st b,
    build env T = (st, Ok b) ->
    forall c a z, subnode c b -> bfirst c = Some a -> blast c = Some z ->
      0 <= a /\ a <= z /\ z < zlen (built st).
Proof. exact spans_ordered. Qed.

(* Full statement for the other targets (REFUTED on this tree, finding D12):
     forall ... (same hypotheses), root_span false store b = Some (a, z) -> print_span store a z = text.
   Witness: parse(' 1 + 2 ', NumberExpr): the store holds all 7 lexemes, the model spans 1..5. *)
Theorem C01_target_span_refuted :
  exists text s s' ign tm T st b a z,
    txt s = text /\ postlex_of false s = (s', None) /\
    build (mkenv s' ign tm) T = (st, Ok b) /\ leaves_ok (zlen s') (leaves st) = true /\
    root_span false (built st) b = Some (a, z) /\
    print_span (built st) a z <> text.
Proof. exact target_span_refuted. Qed.

(* What does hold for every target: the extra hypothesis is exactly the negation of the finding's
   signature (first = get_first and last = get_last: nothing accepted lies outside the model). *)
Theorem C01_target_span_partial :
  forall text postlex s s' ign tm T st b store,
    txt s = text ->
    postlex_of postlex s = (s', None) ->
    build (mkenv s' ign tm) T = (st, Ok b) ->
    leaves_ok (zlen s') (leaves st) = true ->
    filter has_text store = filter has_text (built st) ->
    forall a z, a = 0 -> z = zlen store - 1 -> print_span store a z = text.
Proof. exact target_span_partial. Qed.

(* Non-vacuity: the hypotheses are satisfiable (a whole file through PostLex with an indented comment,
   blank-line marks and a placeholder), and the theorems then give the expected conclusions. *)
Example C01_hypotheses_satisfiable :
  txt ex_in = ex_text /\ process ex_in = (ex_out, None) /\
  exists st b, build (mkenv ex_out d12_ign ex_tm) ex_tree = (st, Ok b) /\ built st = ex_built /\
               leaves_ok (zlen ex_out) (leaves st) = true /\ root_span true ex_built b = Some (0, 5).
Proof. exact ex_pipeline. Qed.

Example C01_file_instance : print_span ex_built 0 5 = ex_text.
Proof.
  destruct ex_pipeline as (H1 & H2 & st & b & H3 & H4 & H5 & H6).
  eapply (C01_file_prints_input ex_text true ex_in ex_out d12_ign ex_tm ex_tree st b ex_built); eauto.
  rewrite H4. reflexivity.
Qed.

Example C01_postlex_instance : txt ex_out = txt ex_in /\ forallb nic_ok ex_in = true.
Proof.
  split; [apply C01_postlex_preserves_text; vm_compute; reflexivity | vm_compute; reflexivity].
Qed.

Example C01_spans_instance :
  exists st b, build (mkenv ex_out d12_ign ex_tm) ex_tree = (st, Ok b) /\
               exists c, subnode c b /\ c <> b /\ bfirst c = Some 1 /\ blast c = Some 2.
Proof.
  eexists. eexists. split; [vm_compute; reflexivity|].
  exists (BModel [BNone; BTok 1; BTok 2; BNone]). split; [|split; [discriminate | split; reflexivity]].
  eapply sub_model; [left; reflexivity|]. eapply sub_rep; [left; reflexivity | apply sub_refl].
Qed.

Example C01_submodel_instance : print_span ex_built 1 2 = [42; 32; 120].   (* the ignored line "* x" *)
Proof. vm_compute. reflexivity. Qed.
