From AB Require Import Desc Generated GeneratedWf.
From AB Require Import Tree TreeDefs TreeProofs TreeProofs2 TreeProofs3 TreeProofs4 TreeWF TreeWFProofs TreeRun TreeFacts.
From Coq Require Import ZArith List Bool.
Import ListNotations.

Theorem C11_generated_classes_wf : forall c, In c classes -> wf_desc c = true.
Proof. exact generated_wf_each. Qed.
Theorem C11_classes_ok_generated : classes_ok classes.
Proof. exact classes_ok_generated. Qed.
Theorem C11_classes_ok_all : classes_ok all_classes.
Proof. exact classes_ok_all. Qed.

(* clone(store, transformer) of a conforming node over classes following the scheme, with a token
   map that keeps rule and text (MappingTokenTransformer over deep-copied tokens): *)
(* equal to the original *)
Theorem C11_clone_equal : forall cs new f,
  (forall t, k_rule (f t) = k_rule t /\ k_text (f t) = k_text t) -> classes_ok cs ->
  forall a, conforms cs a = true -> node_eq cs (clone cs new f a) a = true.
Proof. exact clone_equal. Qed.
(* prints exactly the text the original spans *)
Theorem C11_clone_text : forall cs new f a,
  (forall t, k_rule (f t) = k_rule t /\ k_text (f t) = k_text t) -> conforms cs a = true ->
  text_of (node_toks (clone cs new f a)) = text_of (node_toks a).
Proof. exact clone_text. Qed.
(* its leaves are exactly the images of the original's leaves, in order (no field's tokens lost) *)
Theorem C11_clone_leaves : forall cs new, classes_ok cs -> forall f a, conforms cs a = true ->
  leaves (clone cs new f a) = map f (leaves a).
Proof. exact clone_leaves. Qed.
(* complete in its own store: every leaf of the copy is the image of a leaf of the original *)
Theorem C11_clone_complete : forall cs new f a, classes_ok cs -> conforms cs a = true ->
  forall x, In x (leaves (clone cs new f a)) <-> exists t, In t (leaves a) /\ x = f t.
Proof. exact clone_complete. Qed.
(* shares no token with the original when the map sends leaves to fresh identities *)
Theorem C11_clone_disjoint : forall cs new f a, classes_ok cs -> conforms cs a = true ->
  (forall t t', In t (leaves a) -> In t' (leaves a) -> k_id (f t) <> k_id t') ->
  forall x y, In x (leaves (clone cs new f a)) -> In y (leaves a) -> k_id x <> k_id y.
Proof. exact clone_disjoint. Qed.
(* every tree node of the copy (incl. Repeated) lives in the new store *)
Theorem C11_clone_sids : forall cs new f a, conforms cs a = true ->
  forall s, In s (sids (clone cs new f a)) -> s = new.
Proof. exact clone_sids. Qed.
(* the copy is itself a conforming tree (every declared field present, of the declared kind), so
   all of the above and C05's first/last-token theorem apply to it again *)
Theorem C11_clone_conforms : forall cs new f, classes_ok cs ->
  forall a, conforms cs a = true -> conforms cs (clone cs new f a) = true.
Proof. exact clone_conforms. Qed.
(* its first/last token are the images of leaves of the original *)
Theorem C11_clone_border : forall cs new f, classes_ok cs -> classes_anchored cs ->
  forall n fuel sd, (depth (clone cs new f n) < fuel)%nat -> conforms cs n = true ->
  exists t, border cs fuel sd (clone cs new f n) = Some (f t) /\ In t (leaves n).
Proof. exact clone_border_total. Qed.
(* the copy of a well-formed tree is a well-formed tree (TreeWF.WF, the C05 statement) in the new store *)
Theorem C11_clone_wf : forall cs new f, classes_ok cs ->
  (forall t, k_rule (f t) = k_rule t /\ k_text (f t) = k_text t) ->
  forall a, conforms cs a = true ->
  (forall t t', In t (node_toks a) -> In t' (node_toks a) -> k_id (f t) = k_id (f t') -> k_id t = k_id t') ->
  WF cs a -> WF cs (clone cs new f a).
Proof. exact clone_WF. Qed.

Example C11_clone_hyps :
  (forall t, k_rule (ex_fresh t) = k_rule t /\ k_text (ex_fresh t) = k_text t)
  /\ conforms classes ex_open = true /\ conforms all_classes ex_open_num = true
  /\ forallb (fun t => forallb (fun t' => negb (k_id (ex_fresh t) =? k_id t')%Z) (leaves ex_open_num))
             (leaves ex_open_num) = true
  /\ length (leaves ex_open_num) = 16%nat
  /\ node_eq all_classes (clone all_classes 9 ex_fresh ex_open_num) ex_open_num = true.
Proof. split; [exact ex_fresh_keeps | vm_compute; auto]. Qed.
Example C11_clone_wf_hyps :
  wf_b all_classes ex_open_num = true
  /\ wf_b all_classes (clone all_classes 9 ex_fresh ex_open_num) = true.
Proof. vm_compute. auto. Qed.

(* ---- copy.deepcopy of a node-list wrapper (RepeatedNodeWrapper.__deepcopy__): WholeField.v -------------------------
   The copy is a new base-class wrapper with NO update handlers around a new free-standing Repeated with the same items;
   the original is untouched.  In every reachable heap two different wrappers never share a Repeated, and a list
   operation through one of them (or through any view registered on it) leaves the other wrapper - its handler caches -
   and its list as they were: edits of the copy never notify views of the original and vice versa, at any later time. *)
From AB Require Import Prelude PySeq Views WholeField WholeFieldProofs.

Theorem C11_wrapper_copy_independent :
  (forall h w h' w', Inv h -> copy_wrapper VRepaired h w = (h', Ok (RW w')) ->
     Inv h'
     /\ exists W R W' R',
          WholeField.lookup w (h_wrps h) = Some W /\ WholeField.lookup (w_rep W) (h_reps h) = Some R
          /\ WholeField.lookup w (h_wrps h') = Some W /\ WholeField.lookup (w_rep W) (h_reps h') = Some R
          /\ WholeField.lookup w' (h_wrps h') = Some W' /\ WholeField.lookup (w_rep W') (h_reps h') = Some R'
          /\ w' <> w /\ w_rep W' <> w_rep W
          /\ w_views W' = [] /\ w_inter W' = false /\ r_items R' = r_items R /\ r_spans R' = true /\ r_live R' = true)
  /\ (forall h w1 w2 W1 W2 o,
        Inv h -> WholeField.lookup w1 (h_wrps h) = Some W1 -> WholeField.lookup w2 (h_wrps h) = Some W2 -> w1 <> w2 ->
        w_rep W1 <> w_rep W2
        /\ WholeField.lookup w2 (h_wrps (fst (edit h w1 o))) = Some W2
        /\ WholeField.lookup (w_rep W2) (h_reps (fst (edit h w1 o))) = WholeField.lookup (w_rep W2) (h_reps h))
  /\ (forall its ops, Inv (wrun VRepaired (init_heap its) ops)).
Proof.
  split; [exact wrapper_copy_independent|]. split; [exact wrappers_independent|].
  intros its ops. apply wrun_inv, init_inv.
Qed.

(* seeded regression C11-m10 (the copy of an EMPTY list wraps the original Repeated): an append through the "copy"
   lands in the original's list and the original's views are not told *)
Theorem C11_wrapper_copy_share_empty_refuted :
  exists its ops, ~ Agree (wrun VShareEmptyCopy (init_heap its) ops)
    /\ exists W W', WholeField.lookup 1 (h_wrps (wrun VShareEmptyCopy (init_heap its) ops)) = Some W
         /\ WholeField.lookup 2 (h_wrps (wrun VShareEmptyCopy (init_heap its) ops)) = Some W' /\ w_rep W' = w_rep W.
Proof. exact share_empty_copy_refuted. Qed.

(* non-vacuity: the copy (wrapper 5 around Repeated 4) of transaction 1's list, edited on both sides *)
Example C11_wrapper_copy_instance :
  let h := wrun VRepaired (init_heap ex_its) (ex_read ++ [WCopy 3; WEdit 5 (RAppend (mkelem 1 0 9)); WEdit 3 (RPop 0)]) in
  option_map r_items (WholeField.lookup 4 (h_reps h)) = Some [mkelem 2 0 3; mkelem 1 0 4; mkelem 1 0 9]
  /\ option_map r_items (WholeField.lookup 1 (h_reps h)) = Some [mkelem 1 0 4].
Proof. vm_compute. split; reflexivity. Qed.
