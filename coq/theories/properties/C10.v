(* C10 - all views of a repeated field stay consistent with each other.
   Model: Views.v (fx = true: the code with fixes/c10-*.patch and the insert() normalisation applied;
   fx = false: the code as found).  Proofs: ViewsProofs.v, PySeqProofs.v. *)
From AB Require Import Prelude PySeq PySeqProofs Views ViewsProofs.

(* The heart: bisect + shift in handle_splice keeps a sorted index cache exact, for every list, every
   replaced range l <= r inside it and every replacement. *)
Theorem C10_handle_splice_exact : forall tags its values l r,
  0 <= l <= r -> r <= zlen its ->
  handle_splice_idx tags (positions_from 0 tags its) l r values
  = positions_from 0 tags (splice its l r values).
Proof. exact handle_splice_exact. Qed.

(* ViewInv is preserved by every mutation through the raw list or through any view or mapping layer,
   whatever the arguments (negative, out of range, slices, extended slices, step 0, exceptions) ... *)
Theorem C10_step_preserves_view_inv : forall s o, AllInv s -> AllInv (fst (step true s o)).
Proof. exact step_inv. Qed.

(* ... hence after every interleaving, with views registered at any moment of the history. *)
Theorem C10_view_inv_history : forall its ops, AllInv (run true (mkst its []) ops).
Proof. intros. apply view_inv_history. constructor. Qed.

(* Each view equals the raw list filtered / converted at that moment, whichever views the preceding
   edits went through: len(view), list(view), view[i], view[a:b:k] are Python's on the filtered list,
   with the same exception class. *)
Theorem C10_view_is_filtered_raw : forall its ops v,
  let s := run true (mkst its []) ops in
  In v (views s) ->
  let F := filtered (v_tags v) (items s) in
  v_len s v = (s, Ok [mkelem 0 0 (zlen F)])
  /\ v_iter s v = (s, Ok (map (from_raw (v_kind v)) F))
  /\ forall index,
       v_getitem s v index =
       (s, match index with
           | IInt i => match list_get_int F i with
                       | Ok x => Ok [from_raw (v_kind v) x] | Err e => Err e end
           | ISlice sl => match list_get_slice F sl with
                          | Ok xs => Ok (map (from_raw (v_kind v)) xs) | Err e => Err e end
           end).
Proof.
  intros its ops v s Hin F.
  assert (HV : ViewInv (items s) v).
  { pose proof (C10_view_inv_history its ops) as H. unfold AllInv in H. fold s in H.
    rewrite Forall_forall in H. now apply H. }
  repeat split.
  - now apply v_len_spec.
  - now apply v_iter_spec.
  - intros index. now apply (v_getitem_spec s v HV true).
Qed.

(* Mutations through a view have Python list semantics on the filtered list (x of the view's type):
   view[i] = x (node views), insert, pop, append, extend, clear. *)
Theorem C10_list_semantics_partial : forall s v x,
  ViewInv (items s) v -> matches (v_tags v) x = true ->
  let F := filtered (v_tags v) (items s) in
  let Fof := fun s' : st => filtered (v_tags v) (items s') in
  (forall i, v_kind v = KNode ->
     match list_set_int F i x with
     | Ok F' => exists s', v_setitem true s v (IInt i) [x] = (s', OkNone) /\ Fof s' = F'
     | Err e => v_setitem true s v (IInt i) [x] = (s, Err e)
     end)
  /\ (forall i, exists s', v_insert true s v i x = (s', OkNone) /\ Fof s' = list_insert F i x)
  /\ (forall i,
        match list_pop F i with
        | Ok (y, F') => exists s', v_pop s v i = (s', Ok [from_raw (v_kind v) y]) /\ Fof s' = F'
        | Err e => v_pop s v i = (s, Err e)
        end)
  /\ (exists s', v_append s x = (s', OkNone) /\ Fof s' = F ++ [x])
  /\ (forall xs, forallb (matches (v_tags v)) xs = true ->
        exists s', v_extend s xs = (s', OkNone) /\ Fof s' = F ++ xs)
  /\ (exists s', v_clear s v = (s', OkNone) /\ Fof s' = []).
Proof.
  intros s v x HV HX F Fof. repeat split.
  - intros i. exact (v_setitem_int_spec s v x HV HX i).
  - intros i. exact (v_insert_spec s v x HV HX i).
  - intros i. exact (v_pop_spec s v x HV HX i).
  - exact (v_append_spec s v x HX).
  - intros xs. exact (v_extend_spec s v xs).
  - exact (v_clear_spec s v HV).
Qed.
(* Missing from the full C10_list_semantics (not proved as list equations; covered by the preserved
   invariant, the correspondence and the list/dict reference monitor of harness/c10.py):
   del view[index] and view[slice] = xs as equations on the filtered list, view[i] = x for string/custom
   views (in-place update), remove/discard, and the first-match mapping layer. *)

(* bisect_left is the partition point of any list split as (< x) ++ (>= x), e.g. every sorted list *)
Theorem C10_bisect_left_partition : forall a b x,
  Forall (fun y => y < x) a -> Forall (fun y => x <= y) b -> bisect_left (a ++ b) x = zlen a.
Proof. exact bisect_left_partition. Qed.

(* ---- the code as found (fx = false) does not have the property ------------------------------- *)
Definition e (t : Z) (n : Z) := mkelem t 0 n.
Definition three := [e 1 1; e 1 2; e 1 3].

Ltac refute :=
  let H := fresh "H" in let H1 := fresh "H1" in
  intro H; unfold AllInv in H; vm_compute in H; inversion H as [|? ? H1 ?]; discriminate H1.

(* raw[-1] = x after a view was read: the view's cache gets a negative entry *)
Theorem C10_asfound_setitem_negative_refuted :
  exists its ops, ~ AllInv (run false (mkst its []) ops).
Proof. exists three, [ORegister [1] KNode; RSet (IInt (-1)) [e 1 9]]. refute. Qed.

(* raw.insert(-1, x) *)
Theorem C10_asfound_insert_negative_refuted :
  exists its ops, ~ AllInv (run false (mkst its []) ops).
Proof. exists three, [ORegister [1] KNode; RInsert (-1) (e 1 9)]. refute. Qed.

(* del raw[2:1] (a no-op on a Python list) shifts every later cache entry *)
Theorem C10_asfound_reversed_empty_slice_refuted :
  exists its ops, ~ AllInv (run false (mkst its []) ops).
Proof.
  exists three, [ORegister [1] KNode; RDel (ISlice (mkslc (Some 2) (Some 1) None))]. refute.
Qed.

(* view[-5::-1] = [] (a no-op on a Python list) raises ValueError *)
Theorem C10_asfound_view_setslice_refuted :
  exists its sl v, let s := fst (register (mkst its []) [1] KNode) in
    nth_error (views s) 0 = Some v
    /\ snd (v_setitem false s v (ISlice sl) []) = Err ValueError
    /\ list_set_slice (filtered [1] its) sl [] = Ok (filtered [1] its).
Proof.
  exists three, (mkslc (Some (-5)) None (Some (-1))). eexists. cbn zeta.
  split; [reflexivity|]. split; vm_compute; reflexivity.
Qed.

(* the same histories on the repaired code are fine (instances of C10_view_inv_history) *)
Example C10_repaired_instances :
  AllInv (run true (mkst three []) [ORegister [1] KNode; RSet (IInt (-1)) [e 1 9];
                                    RInsert (-1) (e 0 8); RDel (ISlice (mkslc (Some 2) (Some 1) None))]).
Proof. apply C10_view_inv_history. Qed.

(* non-vacuity: the hypotheses of the theorems above are satisfiable with a non-trivial state *)
Example C10_hypotheses_satisfiable :
  exists s v x, views s <> [] /\ AllInv s /\ ViewInv (items s) v /\ In v (views s)
                /\ matches (v_tags v) x = true /\ v_kind v = KNode
                /\ filtered (v_tags v) (items s) = [e 1 1; e 1 3] /\ v_idx v = [0; 2].
Proof.
  exists (run true (mkst [e 1 1; e 0 2; e 1 3] []) [ORegister [1] KNode]).
  exists (mkview [1] KNode [0; 2]), (e 1 7).
  split; [vm_compute; discriminate|].
  split; [apply view_inv_history; constructor|].
  split; [reflexivity|]. split; [vm_compute; now left|].
  repeat split.
Qed.
Example C10_handle_splice_hyp : 0 <= 1 <= 2 /\ 2 <= zlen three.
Proof. vm_compute. repeat split; discriminate. Qed.
Example C10_bisect_hyp : Forall (fun y => y < 3) [0; 2] /\ Forall (fun y => 3 <= y) [3; 5]
                         /\ bisect_left ([0; 2] ++ [3; 5]) 3 = 2.
Proof. repeat split; repeat constructor; vm_compute; congruence. Qed.
