(* C10 - all views of a repeated field stay consistent with each other.
   Model: Views.v (fx = true: the code with fixes/c10-*.patch and the insert() normalisation applied;
   fx = false: the code as found).  Proofs: ViewsProofs.v, PySeqProofs.v. *)
From AB Require Import Prelude PySeq PySeqProofs Views ViewsProofs ViewsRun ViewsSemProofs.

(* The heart: bisect + shift in handle_splice keeps a sorted index cache exact, for every list, every
   replaced range l <= r inside it and every replacement. *)
Theorem C10_handle_splice_exact : forall tags its values l r,
  0 <= l <= r -> r <= zlen its ->
  handle_splice_idx tags (positions_from 0 tags its) l r values
  = positions_from 0 tags (splice its l r values).
Proof. exact handle_splice_exact. Qed.

(* ViewInv is preserved by every mutation through the raw list or through any view or mapping layer,
   whatever the arguments (negative, out of range, slices, extended slices, step 0, exceptions) ... *)
Theorem C10_step_preserves_view_inv : forall s o, AllInv s -> AllInv (fst (step true s o)).
Proof. exact step_inv. Qed.

(* ... hence after every interleaving, with views registered at any moment of the history. *)
Theorem C10_view_inv_history : forall its ops, AllInv (run true (mkst its []) ops).
Proof. intros. apply view_inv_history. constructor. Qed.

(* Each view equals the raw list filtered / converted at that moment, whichever views the preceding
   edits went through: len(view), list(view), view[i], view[a:b:k] are Python's on the filtered list,
   with the same exception class. *)
Theorem C10_view_is_filtered_raw : forall its ops v,
  let s := run true (mkst its []) ops in
  In v (views s) ->
  let F := filtered (v_tags v) (items s) in
  v_len s v = (s, Ok [mkelem 0 0 (zlen F)])
  /\ v_iter s v = (s, Ok (map (from_raw (v_kind v)) F))
  /\ forall index,
       v_getitem s v index =
       (s, match index with
           | IInt i => match list_get_int F i with
                       | Ok x => Ok [from_raw (v_kind v) x] | Err e => Err e end
           | ISlice sl => match list_get_slice F sl with
                          | Ok xs => Ok (map (from_raw (v_kind v)) xs) | Err e => Err e end
           end).
Proof.
  intros its ops v s Hin F.
  assert (HV : ViewInv (items s) v).
  { pose proof (C10_view_inv_history its ops) as H. unfold AllInv in H. fold s in H.
    rewrite Forall_forall in H. now apply H. }
  repeat split.
  - now apply v_len_spec.
  - now apply v_iter_spec.
  - intros index. now apply (v_getitem_spec s v HV true).
Qed.

(* Every registered view of every reachable state has an exact cache. *)
Theorem C10_view_inv_in_history : forall its ops v,
  In v (views (run true (mkst its []) ops)) -> ViewInv (items (run true (mkst its []) ops)) v.
Proof.
  intros its ops v Hin. pose proof (C10_view_inv_history its ops) as H.
  unfold AllInv in H. rewrite Forall_forall in H. now apply H.
Qed.

(* Each view obeys Python list semantics for every index and slice: a mutation through a view (cache
   exact, values of the view's type) makes of the converted view exactly what the same Python list
   operation (PySeq) makes of the converted filtered list, with the same exception class and nothing
   changed when it raises.  fr = from_raw_type (identity for node views, .value for string/custom views).
   view[slice] = xs has the one documented restriction (list_setitem_eqlen: a slice takes a sequence of
   its own length, else ValueError). *)
Theorem C10_list_semantics : forall s v,
  ViewInv (items s) v ->
  let F := filtered (v_tags v) (items s) in
  let Fof := fun s' : st => filtered (v_tags v) (items s') in
  let fr := from_raw (v_kind v) in
  (* view[i] = x, view[a:b:k] = xs *)
  (forall index xs, forallb (matches (v_tags v)) xs = true ->
     (match index with IInt _ => length xs = 1%nat | ISlice _ => True end) ->
     match list_setitem_eqlen (map fr F) index (map fr xs) with
     | Ok C' => exists s', v_setitem true s v index xs = (s', OkNone) /\ map fr (Fof s') = C'
     | Err e => v_setitem true s v index xs = (s, Err e)
     end)
  (* del view[i], del view[a:b:k] *)
  /\ (forall index,
        match (match index with IInt i => list_del_int F i | ISlice sl => list_del_slice F sl end) with
        | Ok F' => exists s', v_delitem s v index = (s', OkNone) /\ Fof s' = F'
        | Err e => v_delitem s v index = (s, Err e)
        end)
  (* insert, append, extend *)
  /\ (forall i x, matches (v_tags v) x = true ->
        exists s', v_insert true s v i x = (s', OkNone) /\ Fof s' = list_insert F i x)
  /\ (forall x, matches (v_tags v) x = true ->
        exists s', v_append s x = (s', OkNone) /\ Fof s' = F ++ [x])
  /\ (forall xs, forallb (matches (v_tags v)) xs = true ->
        exists s', v_extend s xs = (s', OkNone) /\ Fof s' = F ++ xs)
  (* pop, remove, discard, clear *)
  /\ (forall i,
        match list_pop F i with
        | Ok (y, F') => exists s', v_pop s v i = (s', Ok [fr y]) /\ Fof s' = F'
        | Err e => v_pop s v i = (s, Err e)
        end)
  /\ (forall value,
        match list_remove elem_eqb (map fr F) value with
        | Ok C' => exists s', v_remove s v value = (s', OkNone) /\ map fr (Fof s') = C'
        | Err e => v_remove s v value = (s, Err e)
        end)
  /\ (forall value,
        exists s', v_discard s v value = (s', OkNone)
                   /\ map fr (Fof s') = filter (fun c => negb (elem_eqb c value)) (map fr F))
  /\ (exists s', v_clear s v = (s', OkNone) /\ Fof s' = []).
Proof.
  intros s v HV F Fof fr. repeat split.
  - intros index xs Hxs Hone. exact (v_setitem_spec s v HV index xs Hxs Hone).
  - intros index. exact (v_delitem_spec s v HV index).
  - intros i x HX. exact (v_insert_spec s v x HV HX i).
  - intros x HX. exact (v_append_spec s v x HX).
  - intros xs. exact (v_extend_spec s v xs).
  - intros i. destruct (list_pop F i) as [[y F']|e] eqn:E.
    + assert (Hy : matches (v_tags v) y = true).
      { unfold list_pop in E. destruct (list_get_int F i) as [y'|] eqn:Eg; [|discriminate].
        destruct (norm_index (zlen F) i); [|discriminate]. inversion E; subst.
        unfold list_get_int in Eg. destruct (norm_index (zlen F) i) as [j|]; [|discriminate].
        destruct (nth_error F (Z.to_nat j)) eqn:En; [|discriminate]. inversion Eg; subst.
        apply nth_error_In in En. apply filter_In in En. apply En. }
      pose proof (v_pop_spec s v y HV Hy i) as H. cbv zeta in H. fold F in H. now rewrite E in H.
    + destruct F as [|y0 F0] eqn:EF.
      * (* empty view: pop raises IndexError without needing an element of the view's type *)
        unfold v_pop. unfold ViewInv in HV. rewrite HV, positions_length. fold (filtered (v_tags v) (items s)).
        change (filtered (v_tags v) (items s)) with F. rewrite EF. cbn [zlen length Z.of_nat Z.opp].
        unfold list_pop, list_get_int, norm_index in E. cbn [zlen length Z.of_nat] in E.
        destruct ((0 <=? i) && (i <? 0)) eqn:E1; [lia|].
        replace (negb ((0 <=? i) && (i <? 0))) with true by lia.
        destruct ((i <? 0) && (0 <=? i + 0)) eqn:E2; [lia|]. now inversion E.
      * assert (Hy : matches (v_tags v) y0 = true).
        { assert (Hin : In y0 F) by (rewrite EF; now left). apply filter_In in Hin. apply Hin. }
        pose proof (v_pop_spec s v y0 HV Hy i) as H. cbv zeta in H. fold F in H.
        rewrite EF in H. now rewrite E in H.
  - intros value. exact (v_remove_spec s v value HV).
  - intros value. exact (v_discard_spec s v value HV).
  - exact (v_clear_spec s v HV).
Qed.

(* The mapping view of meta (RepeatedRawMetaItemWrapper: raw = true, RepeatedMetaItemWrapper: raw = false)
   refines an ordered association list with first-match semantics, after every history interleaved with
   list-style and raw-list mutations: F = the MetaItems in order, keyed by e_key. KeyError exactly when
   the key is absent. *)
Theorem C10_mapping_refines_assoc_list : forall its ops v,
  let s := run true (mkst its []) ops in
  In v (views s) -> v_kind v = KNode ->
  let F := filtered (v_tags v) (items s) in
  let Fof := fun s' : st => filtered (v_tags v) (items s') in
  (forall raw key,
     m_getitem raw s v key =
     (s, match assoc_find key F with
         | Some x => Ok [if raw then x else value_of x] | None => Err KeyError end))
  /\ (forall key, m_contains s v key =
        (s, Ok [mkelem 0 0 (match assoc_find key F with Some _ => 1 | None => 0 end)]))
  /\ (forall key,
        match assoc_find key F with
        | None => m_delitem s v key = (s, Err KeyError)
        | Some _ => exists s', m_delitem s v key = (s', OkNone) /\ Fof s' = assoc_del key F
        end)
  /\ (forall raw key dflt,
        match assoc_find key F with
        | None => m_pop raw s v key dflt = (s, if dflt then Ok [default_marker] else Err KeyError)
        | Some x => exists s', m_pop raw s v key dflt = (s', Ok [if raw then x else value_of x])
                               /\ Fof s' = assoc_del key F
        end)
  /\ (forall key x, matches (v_tags v) x = true ->
        exists s', m_setitem true true s v key x = (s', OkNone)
                   /\ Fof s' = match assoc_find key F with
                               | Some _ => assoc_replace key x F | None => F ++ [x] end)
  /\ (forall key x, matches (v_tags v) x = true ->
        exists s', m_setitem true false s v key x = (s', OkNone)
                   /\ Fof s' = match assoc_find key F with
                               | Some _ => assoc_set_value key (e_val x) F | None => F ++ [x] end)
  /\ m_keys s v = (s, Ok (map (fun x => mkelem 0 (e_key x) 0) F))
  /\ (forall raw, m_values raw s v = (s, Ok (map (fun x => if raw then x else value_of x) F)))
  /\ (forall raw, m_items raw s v
                  = (s, Ok (map (fun x => if raw then x else mkelem 0 (e_key x) (e_val x)) F))).
Proof.
  intros its ops v s Hin HK F Fof.
  pose proof (C10_view_inv_in_history its ops v Hin) as HV. fold s in HV.
  split; [intros; now apply m_getitem_spec|].
  split; [intros; now apply m_contains_spec|].
  split; [intros key; exact (m_delitem_spec s v HV key)|].
  split; [intros raw key dflt; exact (m_pop_spec s v HV HK raw key dflt)|].
  split; [intros key x HX; exact (m_setitem_raw_spec s v HV HK key x HX)|].
  split; [intros key x HX; exact (m_setitem_value_spec s v HV key x HX)|].
  exact (m_views_spec s v HV).
Qed.

(* Cross-view consistency, the way the property reads: after any history - whichever views the edits
   went through - every registered view shows the raw list filtered/converted at that moment; so any two
   views of the same raw list agree through it, and two views of the same type have the same cache. *)
Theorem C10_cross_view_consistency : forall its ops v w,
  let s := run true (mkst its []) ops in
  In v (views s) -> In w (views s) ->
  v_iter s v = (s, Ok (map (from_raw (v_kind v)) (filtered (v_tags v) (items s))))
  /\ v_iter s w = (s, Ok (map (from_raw (v_kind w)) (filtered (v_tags w) (items s))))
  /\ (v_tags v = v_tags w -> v_idx v = v_idx w /\ (v_kind v = v_kind w -> v_iter s v = v_iter s w)).
Proof.
  intros its ops v w s Hv Hw.
  pose proof (C10_view_inv_in_history its ops v Hv) as HVv. fold s in HVv.
  pose proof (C10_view_inv_in_history its ops w Hw) as HVw. fold s in HVw.
  split; [now apply v_iter_spec|]. split; [now apply v_iter_spec|].
  intros Ht. split; [unfold ViewInv in *; congruence|].
  intros Hk. rewrite (v_iter_spec s v HVv), (v_iter_spec s w HVw). congruence.
Qed.

(* popitem() (meta mappings): the first item; KeyError when empty *)
Theorem C10_mapping_popitem : forall its ops v raw,
  let s := run true (mkst its []) ops in
  In v (views s) -> v_kind v = KNode ->
  match filtered (v_tags v) (items s) with
  | [] => m_popitem raw s v = (s, Err KeyError)
  | x :: F' => exists s', m_popitem raw s v = (s', Ok [mkelem 0 (e_key x) 0; if raw then x else value_of x])
                          /\ filtered (v_tags v) (items s') = F'
  end.
Proof.
  intros its ops v raw s Hin HK. apply m_popitem_spec; [|exact HK].
  exact (C10_view_inv_in_history its ops v Hin).
Qed.

(* The raw list is a view too: every mutator of RepeatedNodeWrapper is the Python list operation (PySeq) on
   `items`, same exception class, nothing changed when it raises; drop_many validates and normalises first. *)
Theorem C10_raw_list_semantics : forall s,
  let its := items s in
  (forall i x, match list_set_int its i x with
               | Ok l => exists s', raw_setitem true s (IInt i) [x] = (s', OkNone) /\ items s' = l
               | Err e => raw_setitem true s (IInt i) [x] = (s, Err e) end)
  /\ (forall sl xs, match list_set_slice its sl xs with
                    | Ok l => exists s', raw_setitem true s (ISlice sl) xs = (s', OkNone) /\ items s' = l
                    | Err e => raw_setitem true s (ISlice sl) xs = (s, Err e) end)
  /\ (forall index,
        match (match index with IInt i => list_del_int its i | ISlice sl => list_del_slice its sl end) with
        | Ok l => exists s', raw_delitem true s index = (s', OkNone) /\ items s' = l
        | Err e => raw_delitem true s index = (s, Err e) end)
  /\ (forall i x, exists s', raw_insert true s i x = (s', OkNone) /\ items s' = list_insert its i x)
  /\ (forall xs, exists s', raw_extend s xs = (s', OkNone) /\ items s' = its ++ xs)
  /\ (forall x, exists s', raw_append s x = (s', OkNone) /\ items s' = its ++ [x])
  /\ (exists s', raw_clear s = (s', OkNone) /\ items s' = [])
  /\ (forall i, match list_pop its i with
                | Ok (y, l) => exists s', raw_pop s i = (s', Ok [y]) /\ items s' = l
                | Err e => raw_pop s i = (s, Err e) end)
  /\ (forall ps, match norm_all (zlen its) ps with
                 | Ok qs => exists s', raw_drop_many s ps = (s', OkNone) /\ items s' = remove_positions qs its
                 | Err e => raw_drop_many s ps = (s, Err IndexError) end).
Proof. exact raw_list_semantics. Qed.

(* raw.reverse() as repaired (pop all, extend): the raw list reversed, every view still exact
   (C10_view_inv_history covers RReverse / VReverse) *)
Theorem C10_raw_reverse : forall s, exists s', raw_reverse s = (s', OkNone) /\ items s' = rev (items s).
Proof. exact raw_reverse_spec. Qed.

(* The dict views keys() / values() / items() of meta and raw_meta, after every history: iteration lists every
   item in order (later duplicates of a key included): keys = map e_key of the filtered raw list, etc.;
   len, reversed() and membership (= membership in that iteration) accordingly. *)
Theorem C10_dict_views : forall its ops v which raw q,
  let s := run true (mkst its []) ops in
  In v (views s) ->
  let L := map (dv_conv which raw) (filtered (v_tags v) (items s)) in
  m_dict which raw q s v =
  (s, Ok (match q with
          | DIter => L
          | DLen => [mkelem 0 0 (zlen L)]
          | DReversed => rev L
          | DIn x => [mkelem 0 0 (if existsb (fun y => elem_eqb y x) L then 1 else 0)]
          end)).
Proof.
  intros its ops v which raw q s Hin. apply m_dict_spec.
  exact (C10_view_inv_in_history its ops v Hin).
Qed.

(* model.view += values and model.raw_xs += values: list += on the (filtered) list; the self-assignment that
   follows changes nothing (no view is dropped or rebuilt) *)
Theorem C10_iadd_semantics : forall s v xs,
  forallb (matches (v_tags v)) xs = true ->
  (exists s', v_iadd s xs = (s', OkNone)
              /\ filtered (v_tags v) (items s') = filtered (v_tags v) (items s) ++ xs)
  /\ (exists s', raw_iadd s xs = (s', OkNone) /\ items s' = items s ++ xs
                 /\ views s' = map (handle_splice (zlen (items s)) (zlen (items s)) xs) (views s)).
Proof. exact iadd_spec. Qed.

(* What harness/c10.py evaluates (inside Coq) on every state the implementation dumped: when the checker
   says true, the dumped state satisfies the hypothesis of the theorems above. *)
Theorem C10_dumped_state_hypothesis_sound : forall s, all_inv_b s = true -> AllInv s.
Proof. exact all_inv_b_sound. Qed.

(* bisect_left is the partition point of any list split as (< x) ++ (>= x), e.g. every sorted list *)
Theorem C10_bisect_left_partition : forall a b x,
  Forall (fun y => y < x) a -> Forall (fun y => x <= y) b -> bisect_left (a ++ b) x = zlen a.
Proof. exact bisect_left_partition. Qed.

(* ---- the code as found (fx = false) does not have the property ------------------------------- *)
Definition e (t : Z) (n : Z) := mkelem t 0 n.
Definition three := [e 1 1; e 1 2; e 1 3].

Ltac refute :=
  let H := fresh "H" in let H1 := fresh "H1" in
  intro H; unfold AllInv in H; vm_compute in H; inversion H as [|? ? H1 ?]; discriminate H1.

(* raw[-1] = x after a view was read: the view's cache gets a negative entry *)
Theorem C10_asfound_setitem_negative_refuted :
  exists its ops, ~ AllInv (run false (mkst its []) ops).
Proof. exists three, [ORegister [1] KNode; RSet (IInt (-1)) [e 1 9]]. refute. Qed.

(* raw.insert(-1, x) *)
Theorem C10_asfound_insert_negative_refuted :
  exists its ops, ~ AllInv (run false (mkst its []) ops).
Proof. exists three, [ORegister [1] KNode; RInsert (-1) (e 1 9)]. refute. Qed.

(* del raw[2:1] (a no-op on a Python list) shifts every later cache entry *)
Theorem C10_asfound_reversed_empty_slice_refuted :
  exists its ops, ~ AllInv (run false (mkst its []) ops).
Proof.
  exists three, [ORegister [1] KNode; RDel (ISlice (mkslc (Some 2) (Some 1) None))]. refute.
Qed.

(* view[-5::-1] = [] (a no-op on a Python list) raises ValueError *)
Theorem C10_asfound_view_setslice_refuted :
  exists its sl v, let s := fst (register (mkst its []) [1] KNode) in
    nth_error (views s) 0 = Some v
    /\ snd (v_setitem false s v (ISlice sl) []) = Err ValueError
    /\ list_set_slice (filtered [1] its) sl [] = Ok (filtered [1] its).
Proof.
  exists three, (mkslc (Some (-5)) None (Some (-1))). eexists. cbn zeta.
  split; [reflexivity|]. split; vm_compute; reflexivity.
Qed.

(* the same histories on the repaired code are fine (instances of C10_view_inv_history) *)
Example C10_repaired_instances :
  AllInv (run true (mkst three []) [ORegister [1] KNode; RSet (IInt (-1)) [e 1 9];
                                    RInsert (-1) (e 0 8); RDel (ISlice (mkslc (Some 2) (Some 1) None))]).
Proof. apply C10_view_inv_history. Qed.

(* non-vacuity: the hypotheses of the theorems above are satisfiable with a non-trivial state *)
Example C10_hypotheses_satisfiable :
  exists s v x, views s <> [] /\ AllInv s /\ ViewInv (items s) v /\ In v (views s)
                /\ matches (v_tags v) x = true /\ v_kind v = KNode
                /\ filtered (v_tags v) (items s) = [e 1 1; e 1 3] /\ v_idx v = [0; 2].
Proof.
  exists (run true (mkst [e 1 1; e 0 2; e 1 3] []) [ORegister [1] KNode]).
  exists (mkview [1] KNode [0; 2]), (e 1 7).
  split; [vm_compute; discriminate|].
  split; [apply view_inv_history; constructor|].
  split; [reflexivity|]. split; [vm_compute; now left|].
  repeat split.
Qed.
Example C10_handle_splice_hyp : 0 <= 1 <= 2 /\ 2 <= zlen three.
Proof. vm_compute. repeat split; discriminate. Qed.
Example C10_bisect_hyp : Forall (fun y => y < 3) [0; 2] /\ Forall (fun y => 3 <= y) [3; 5]
                         /\ bisect_left ([0; 2] ++ [3; 5]) 3 = 2.
Proof. repeat split; repeat constructor; vm_compute; congruence. Qed.

(* non-vacuity of the mapping theorem: a reachable node view with a duplicated key (first match wins) *)
Example C10_mapping_nonvacuous :
  let s := run true (mkst [mkelem 1 5 10; mkelem 0 0 1; mkelem 1 6 11; mkelem 1 5 12] []) [ORegister [1] KNode] in
  exists v, In v (views s) /\ v_kind v = KNode
    /\ assoc_find 5 (filtered (v_tags v) (items s)) = Some (mkelem 1 5 10)
    /\ assoc_find 7 (filtered (v_tags v) (items s)) = None
    /\ assoc_del 5 (filtered (v_tags v) (items s)) = [mkelem 1 6 11; mkelem 1 5 12]
    /\ fst (m_delitem s v 5) = fst (step true s (RDel (IInt 0))).
Proof.
  cbv zeta. eexists. split; [vm_compute; left; reflexivity|]. repeat split.
Qed.
(* non-vacuity of view[slice] = xs: an extended slice of a string view, equal length *)
Example C10_setslice_nonvacuous :
  let s := run true (mkst [mkelem 1 0 10; mkelem 2 0 20; mkelem 1 0 11; mkelem 1 0 12] []) [ORegister [1] KString] in
  exists v, nth_error (views s) 0 = Some v /\ ViewInv (items s) v
    /\ list_setitem_eqlen (map (from_raw (v_kind v)) (filtered (v_tags v) (items s)))
         (ISlice (mkslc None None (Some (-2)))) [mkelem 0 0 7; mkelem 0 0 8]
       = Ok [mkelem 0 0 8; mkelem 0 0 11; mkelem 0 0 7].
Proof. cbv zeta. eexists. repeat split. Qed.

(* model.raw_xs = deepcopy(other.raw_xs) after a view was read: as found, the cached view still
   describes the replaced list (repaired: C10_view_inv_history covers RAssign) *)
Theorem C10_asfound_wrapper_reassignment_refuted :
  exists its ops, ~ AllInv (run false (mkst its []) ops).
Proof. exists three, [ORegister [1] KNode; RAssign [e 2 7; e 1 8]]. refute. Qed.
Example C10_repaired_reassignment :
  AllInv (run true (mkst three []) [ORegister [1] KNode; RAssign [e 2 7; e 1 8]; ORegister [1] KNode])
  /\ map v_idx (views (run true (mkst three []) [ORegister [1] KNode; RAssign [e 2 7; e 1 8]; ORegister [1] KNode])) = [[1]].
Proof. split; [apply C10_view_inv_history|reflexivity]. Qed.

(* ---- whole-field assignment and the caches around it: WholeField.v (heap of instances, wrappers with their handler
   lists, Repeateds; list operations are Views.step on the edited wrapper) ------------------------------------------ *)
From AB Require Import WholeField WholeFieldProofs.

(* After every history on a parsed document - reading raw lists and views, whole-field assignments (accepted or
   refused), `+=`, list edits through EVERY wrapper and view object ever obtained (old and new handles, originals and
   copies), deep copies of wrappers - every view cached in a model is built on the wrapper the model caches, that wrapper
   wraps the Repeated the model's field holds, and every `_raw_indexes` registered on it is exact (ViewInv) for that
   list.  An accepted assignment makes the assigned wrapper the cached one and leaves no cached view built on the
   replaced wrapper (drop_views_of); a view obtained afterwards is built on the wrapper cached at that moment. *)
Theorem C10_whole_field_views_follow :
  (forall its ops, Agree (wrun VRepaired (init_heap its) ops))
  /\ (forall h i w h' r, Inv h -> assign VRepaired h i w = (h', Ok r) ->
        exists ins', lookup i (h_insts h') = Some ins' /\ i_wrapper ins' = Some w
          /\ (forall W, lookup w (h_wrps h) = Some W -> i_field ins' = w_rep W)
          /\ (forall nv, In nv (i_views ins') -> fst (snd nv) = w)
          /\ forall ops, Agree (wrun VRepaired h' ops))
  /\ (forall h i name tags kd h' vh, Inv h -> get_view h i name tags kd = (h', Ok vh) ->
        exists ins', lookup i (h_insts h') = Some ins' /\ lookup name (i_views ins') = Some vh
          /\ i_wrapper ins' = Some (fst vh)).
Proof. exact whole_field_views_follow. Qed.

(* the invariant behind it holds for every parsed document and is kept by every operation *)
Theorem C10_whole_field_invariant :
  (forall its, Inv (init_heap its)) /\ (forall h o, Inv h -> Inv (fst (wstep VRepaired h o))).
Proof. split; [exact init_inv|exact wstep_inv]. Qed.

(* seeded regression C10-m3 (drop_views_of stops after the first cached view): the sibling view stays cached, built on
   the replaced wrapper;  the code as found (no drop_views_of at all) likewise *)
Theorem C10_whole_field_drop_first_refuted : exists its ops, ~ Agree (wrun VDropFirst (init_heap its) ops).
Proof. exact drop_first_refuted. Qed.
Theorem C10_asfound_whole_field_keep_views_refuted : exists its ops, ~ Agree (wrun VKeepViews (init_heap its) ops).
Proof. exact keep_views_refuted. Qed.

(* `model.view += xs` is view.extend(xs): the assignment of the cached view to itself is a no-op;
   `model.raw_xs += xs` likewise (replace_node(node, node) returns, no view is dropped, the heap is untouched) *)
Theorem C10_iadd_is_extend :
  (forall h i name tags kd xs,
     iadd_view VRepaired h i name tags kd xs =
     match get_view h i name tags kd with
     | (h1, Err e) => (h1, Err e)
     | (h1, Ok vh) => match edit h1 (fst vh) (VExtend (snd vh) xs) with
                      | (h2, Err e) => (h2, Err e)
                      | (h2, Ok _) => (h2, Ok RNone)
                      end
     end)
  /\ (forall h i xs, Inv h ->
        iadd_raw VRepaired h i xs =
        match get_wrapper h i with
        | (h1, Err e) => (h1, Err e)
        | (h1, Ok w) => match edit h1 w (RExtend xs) with
                        | (h2, Err e) => (h2, Err e)
                        | (h2, Ok _) => (h2, Ok RNone)
                        end
        end).
Proof. exact iadd_is_extend. Qed.
Theorem C10_asfound_iadd_raises_refuted :
  exists h i name tags kd xs h2, iadd_view VIaddRaises h i name tags kd xs = (h2, Err NotImplementedErr) /\ h2 <> h.
Proof. exact iadd_raises_refuted. Qed.

(* non-vacuity: tags and links read, the field replaced by a deep copy of another transaction's: nothing stale is
   cached, the views read again are built on the new wrapper 5 and show its list *)
Example C10_whole_field_instance :
  let h := wrun VRepaired (init_heap ex_its) (ex_read ++ [WCopy 3; WAssign 0 5; WGetView 0 1 [1] KString; WGetView 0 2 [2] KString]) in
  Agree h /\ Inv h
  /\ lookup 0 (h_insts h) = Some (mkinst 4 false (Some 5) [(1, (5, 0%nat)); (2, (5, 1%nat))])
  /\ option_map (fun W => map v_idx (w_views W)) (lookup 5 (h_wrps h)) = Some [[1]; [0]].
Proof.
  cbv zeta. split; [apply inv_agree, wrun_inv, init_inv|]. split; [apply wrun_inv, init_inv|]. vm_compute. split; reflexivity.
Qed.
Example C10_iadd_instance :
  fst (iadd_view VRepaired (init_heap ex_its) 0 1 [1] KString [mkelem 1 0 7])
  = fst (wstep VRepaired (fst (wstep VRepaired (init_heap ex_its) (WGetView 0 1 [1] KString))) (WEdit 2 (VExtend 0 [mkelem 1 0 7])))
  /\ snd (iadd_view VRepaired (init_heap ex_its) 0 1 [1] KString [mkelem 1 0 7]) = Ok RNone.
Proof. vm_compute. split; reflexivity. Qed.
