(* C03 - adding, removing or replacing a child leaves everything else untouched.

   Full statement wanted (DESIGN 7): for every mutator op of Repeated.v / Fields.v, every document d with
   Layout (items are disjoint ordered spans after the placeholder, separated by separator tokens
   only, ids duplicate-free), every index / slice / donor list:
     op d = (d', Ok) -> exists pre post, d = pre ++ window ++ post /\ d' = pre ++ window' ++ post /\
     window' keeps every sibling's tokens in order /\ the differing tokens are the child's or
     separator tokens adjacent to it /\ Layout d'            (hence sequences, by induction).

   Proved here (the `_partial` theorems): the frame equation for every *branch* of every primitive the
   mutators are composed of, over arbitrary documents, with the affected span exposed
   (d = P ++ S ++ Q, which is what Layout yields for the indexed item(s)):  the result is exactly
   P ++ new ++ Q, where new = [] / the donor's tokens / fresh separator copies next to them.
   Everything outside (P, Q: every sibling, every other token, same objects, same order) is
   literally the same list.  Missing for the full statement: (1) deriving the exposed form from
   `Layout` + Python index arithmetic for all indices, (2) the batch loop of _insert_tokens for more
   than one value and the composition del+insert of slice assignment / drop_many, (3) preservation of
   Layout.  Those three are covered on every run by the correspondence (model = code on every
   generated call) and by the C03 monitors on the implementation. *)
From AB Require Import Prelude PySeq Repeated Fields RepeatedProofs.

(* _del_tokens, else-branch: exactly the span get_next(prev_last) .. items[stop-1].last disappears *)
Theorem C03_del_tokens_else_partial : forall ph (items : list item) P p S Q start stop (it_l : item),
  NoDup (ids (P ++ p :: S ++ Q)) -> S <> [] -> start < stop ->
  (start =? 0) && (stop <? zlen items) = false ->
  prev_last ph items start = Ok (tid p) ->
  list_get_int items (stop - 1) = Ok it_l -> snd it_l = tid (last S dft) ->
  del_tokens ph (P ++ p :: S ++ Q) items start stop = (P ++ p :: Q, Ok tt).
Proof. exact del_tokens_else. Qed.

(* _del_tokens, if-branch (start = 0, items remain): items[0].first .. get_prev(items[stop].first) *)
Theorem C03_del_tokens_first_partial : forall ph (items : list item) P S n Q stop (it_s it_n : item),
  NoDup (ids (P ++ S ++ n :: Q)) -> S <> [] -> 0 < stop -> stop < zlen items ->
  list_get_int items 0 = Ok it_s -> fst it_s = tid (hd dft S) ->
  list_get_int items stop = Ok it_n -> fst it_n = tid n ->
  del_tokens ph (P ++ S ++ n :: Q) items 0 stop = (P ++ n :: Q, Ok tt).
Proof. exact del_tokens_first. Qed.

(* _insert_tokens, index > 0: separators ++ child right after the preceding item *)
Theorem C03_insert_after_partial : forall ph seps sepsb (items : list item) P p Q index v length sbl fr,
  NoDup (ids (P ++ p :: Q)) -> index <> 0 ->
  prev_last ph items index = Ok (tid p) -> detachable v = true ->
  guard (mk_seps fr seps ++ d_store v) (P ++ p :: Q) = true ->
  insert_tokens ph seps sepsb (P ++ p :: Q) items index [v] length sbl fr =
    (P ++ p :: (mk_seps fr seps ++ d_store v) ++ Q,
     [mkdonor (d_node v) [] (d_first v) (d_last v)], fr + nseps seps, Ok tt).
Proof. exact insert_tokens_after. Qed.

(* _insert_tokens, index = 0 of a non-empty list: child ++ separators right before the first item *)
Theorem C03_insert_front_partial : forall ph seps sepsb (items : list item) P s n Q v length fr (it0 : item),
  NoDup (ids (P ++ s :: n :: Q)) -> length <> 0 ->
  list_get_int items 0 = Ok it0 -> fst it0 = tid n -> detachable v = true ->
  guard (d_store v ++ mk_seps fr seps) (P ++ s :: n :: Q) = true ->
  insert_tokens ph seps sepsb (P ++ s :: n :: Q) items 0 [v] length None fr =
    (P ++ s :: (d_store v ++ mk_seps fr seps) ++ n :: Q,
     [mkdonor (d_node v) [] (d_first v) (d_last v)], fr + nseps seps, Ok tt).
Proof. exact insert_tokens_front. Qed.

(* _insert_tokens into an empty list: separators_before ++ child right after the placeholder *)
Theorem C03_insert_empty_partial : forall seps sepsb (items : list item) P pht Q v sbl fr,
  NoDup (ids (P ++ pht :: Q)) -> detachable v = true ->
  guard (mk_seps fr sepsb ++ d_store v) (P ++ pht :: Q) = true ->
  insert_tokens (tid pht) seps sepsb (P ++ pht :: Q) items 0 [v] 0 sbl fr =
    (P ++ pht :: (mk_seps fr sepsb ++ d_store v) ++ Q,
     [mkdonor (d_node v) [] (d_first v) (d_last v)], fr + nsepsb sepsb, Ok tt).
Proof. exact insert_tokens_empty. Qed.

(* replace (required / optional / xs[i] = v): exactly the old child's span becomes the new child *)
Theorem C03_replace_partial : forall P S Q (cur : item) v,
  NoDup (ids (P ++ S ++ Q)) -> S <> [] -> fst cur = tid (hd dft S) -> snd cur = tid (last S dft) ->
  detachable v = true -> guard (d_store v) (P ++ S ++ Q) = true ->
  replace_node (P ++ S ++ Q) cur false v =
    (P ++ d_store v ++ Q, [mkdonor (d_node v) [] (d_first v) (d_last v)], Ok tt).
Proof. exact replace_node_frame. Qed.

(* optional fields: create next to the pivot, remove the child with the separators on its pivot side *)
Theorem C03_create_left_partial : forall seps P p Q v fr,
  NoDup (ids (P ++ p :: Q)) -> detachable v = true ->
  guard (mk_seps fr seps ++ d_store v) (P ++ p :: Q) = true ->
  create_node SLeft seps (P ++ p :: Q) (tid p) v fr =
    (P ++ p :: (mk_seps fr seps ++ d_store v) ++ Q, [mkdonor (d_node v) [] (d_first v) (d_last v)], Ok tt).
Proof. exact create_left_frame. Qed.

Theorem C03_create_right_partial : forall seps P p Q v fr,
  NoDup (ids (P ++ p :: Q)) -> detachable v = true ->
  guard (d_store v ++ mk_seps fr seps) (P ++ p :: Q) = true ->
  create_node SRight seps (P ++ p :: Q) (tid p) v fr =
    (P ++ (d_store v ++ mk_seps fr seps) ++ p :: Q, [mkdonor (d_node v) [] (d_first v) (d_last v)], Ok tt).
Proof. exact create_right_frame. Qed.

Theorem C03_remove_left_partial : forall P p S Q (cur : item),
  NoDup (ids (P ++ p :: S ++ Q)) -> S <> [] -> snd cur = tid (last S dft) ->
  remove_node SLeft (P ++ p :: S ++ Q) (tid p) cur = (P ++ p :: Q, Ok tt).
Proof. exact remove_left_frame. Qed.

Theorem C03_remove_right_partial : forall P S p Q (cur : item),
  NoDup (ids (P ++ S ++ p :: Q)) -> S <> [] -> fst cur = tid (hd dft S) ->
  remove_node SRight (P ++ S ++ p :: Q) (tid p) cur = (P ++ p :: Q, Ok tt).
Proof. exact remove_right_frame. Qed.

(* ---- non-vacuity: `open Assets:Foo  AAA, BBB` as tokens 1..8, placeholder 3, items AAA(5) BBB(8) -- *)
Definition ex_doc : doc :=
  [mktok 1 KOther [111]; mktok 2 KOther [65]; mktok 3 KPlaceholder []; mktok 4 KWhitespace [32];
   mktok 5 KOther [65;65;65]; mktok 6 KComma [44]; mktok 7 KWhitespace [32]; mktok 8 KOther [66;66;66];
   mktok 9 KPlaceholder []; mktok 10 KNewline [10]].
Definition ex_items : list item := [(5, 5); (8, 8)].
Definition ex_seps : list (kind * str) := [(KComma, [44]); (KWhitespace, [32])].
Definition ex_sepsb : list (kind * str) := [(KWhitespace, [32])].
Definition ex_v : donor := mkdonor 50 [mktok 50 KOther [88]] 50 50.

(* pop(1): else-branch with P = tokens 1..4, p = AAA, S = [`,`; ` `; BBB] *)
Example C03_del_else_nonvacuous :
  del_tokens 3 ex_doc ex_items 1 2 = (firstn 5 ex_doc ++ skipn 8 ex_doc, Ok tt)
  /\ NoDup (ids ex_doc) /\ prev_last 3 ex_items 1 = Ok 5.
Proof. split; [vm_compute; reflexivity|]. split; [|reflexivity]. repeat constructor; simpl; intuition lia. Qed.

(* pop(0): if-branch keeps the separators before the first item *)
Example C03_del_first_nonvacuous :
  del_tokens 3 ex_doc ex_items 0 1 = (firstn 4 ex_doc ++ skipn 7 ex_doc, Ok tt).
Proof. vm_compute. reflexivity. Qed.

(* insert(0, X) gives `  X, AAA, BBB`;  insert(1, X) gives `  AAA, X, BBB` *)
Example C03_insert_front_nonvacuous :
  map ttext (fst (fst (fst (insert_tokens 3 ex_seps ex_sepsb ex_doc ex_items 0 [ex_v] 2 None 100)))) =
  [[111]; [65]; []; [32]; [88]; [44]; [32]; [65;65;65]; [44]; [32]; [66;66;66]; []; [10]].
Proof. vm_compute. reflexivity. Qed.

Example C03_insert_after_nonvacuous :
  map ttext (fst (fst (fst (insert_tokens 3 ex_seps ex_sepsb ex_doc ex_items 1 [ex_v] 2 None 100)))) =
  [[111]; [65]; []; [32]; [65;65;65]; [44]; [32]; [88]; [44]; [32]; [66;66;66]; []; [10]].
Proof. vm_compute. reflexivity. Qed.

(* D3 as repaired: xs[0:1] = [X, Y] on [AAA, BBB] gives `X, Y, BBB` *)
Example C03_slice_assign_two_at_front :
  let y := mkdonor 51 [mktok 51 KOther [89]] 51 51 in
  match setitem_slice 3 ex_seps ex_sepsb (mkst ex_doc ex_items) (mkslc (Some 0) (Some 1) None) [ex_v; y] 100 with
  | (s', _, r) => (map ttext (s_doc s'), s_items s', r)
  end = ([[111]; [65]; []; [32]; [88]; [44]; [32]; [89]; [44]; [32]; [66;66;66]; []; [10]],
         [(50, 50); (51, 51); (8, 8)], Ok tt).
Proof. vm_compute. reflexivity. Qed.
