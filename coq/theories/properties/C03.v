(* C03 - adding, removing or replacing a child leaves everything else untouched.

   Layout ph doc items (RepeatedLayout.v): doc = pre ++ placeholder :: gap_0 ++ body_0 ++ gap_1 ++ body_1 ... ++ post,
   ids duplicate-free, gaps of separator-kind tokens only, bodies non-empty, items = (first id, last id) of each body.
   layout_b is its checker (evaluated by the harness on every implementation state it dumps).

   Proved in full, directly under Layout (WF = Layout with the decomposition named), for all documents, all
   indices / slices / donor lists (Python index arithmetic included), for EVERY mutator of RepeatedNodeWrapper:
     _del_tokens (both branches), _insert_tokens (all three separator modes, any number of values),
     insert, append, extend, xs[i] = v, xs[a:b] = vs (step 1, incl. b < a), xs[a:b:k] = vs (the replace-one-at-a-time
     loop), del xs[i], del xs[a:b], del xs[a:b:k], drop_many (sorted descending runs), pop, clear:
     result = lay pre pht cs' post with   Edit cs cs' removed news   (one edit; a chain `Edits` of them for extended
     slices / drop_many): cells before the window literally unchanged; of the cells after, only the GAP of the first one
     (the separators directly adjacent to the window) may differ, all later cells are literally the same (tail_eq); new
     cells are the donors' tokens; WF preserved; separation (C06) preserved;
   C03_step / C03_history / C03_history_step: the invariant holds after every accepted or refused call of any history
     over the full op language and every accepted call is framed;
   C03_frame_tokens_edit (exact window of one edit) / C03_frame_tokens (any accepted call): tokens that appear or
     disappear are separator-kind or the children's own, everything outside is the identical list.
   Value-level routes map onto these theorems as follows (the view's own index bookkeeping is C10's Views.v):
     del view[i] / del view[a:b:k] / view.clear() / view.discard(v)  =  drop_many(raw positions of the addressed view
       elements)  - C03_drop_many for ANY position list: exactly those raw items go, in descending runs; an element of
       another kind lying between two addressed elements is in no run, hence untouched (what a "one raw slice" shortcut
       would break);   view.pop(i) / view.remove(v) = raw pop(position) - C03_pop;   view[i] = x / view[a:b] = xs =
       in-place update or raw xs[position] = node, one position at a time - C03_setitem_int;   view.insert / append /
       extend = raw insert / append / extend - C03_insert / C03_append / C03_extend;   owner.view += xs = extend, then
       the assignment of the cached view to itself, a no-op.
     Which raw positions a view call addresses is checked on every run by the monitor C03:view-addressed-element
     (reference recomputed from the raw list, by identity).
   The single-child slots (Fields.v) keep their exposed-span statements (`_partial`): the pivot / first / last chains
   that expose the span are generated code (C05 / C15). *)
From AB Require Import Prelude PySeq RepeatedLib Repeated Fields RepeatedProofs RepeatedLayout RepeatedInsert RepeatedCells
  RepeatedSep RepeatedOps RepeatedSlices RepeatedDrop RepeatedExt RepeatedHistory.

(* the boolean checker decides the invariant (soundness) *)
Theorem C03_layout_checker_sound :
   forall (ph : Z) (d : doc) (items : list item), layout_b ph d items = true -> Layout ph d items.
Proof. exact layout_b_sound. Qed.

(* _del_tokens, both branches: cells A ++ M ++ B become del_res A M B post *)
Theorem C03_del_tokens :
   forall (ph : Z) (pre : list tok) (pht : tok) (A M B : list cell) (post : list tok),
       WF ph pre pht (A ++ M ++ B) post ->
       M <> [] ->
       del_tokens ph (lay pre pht (A ++ M ++ B) post) (map item_of (A ++ M ++ B)) (zlen A) (zlen A + zlen M) =
       (lay pre pht (del_res A M B post) post, Ok tt).
Proof. exact del_layout. Qed.

(* _insert_tokens, all three modes, any number of values: cells A ++ B become ins_res A B *)
Theorem C03_insert_tokens :
   forall (ph : Z) (seps sepsb : list (kind * str)),
       seps_ok seps ->
       seps_ok sepsb ->
       forall (pre : list tok) (pht : tok) (A B : list cell) (post : list tok) (items : list item)
         (X : list cell) (vs : list donor) (sbl : option Z) (fr : Z),
       WF ph pre pht (A ++ B) post ->
       items = map item_of (A ++ X) ->
       (A = [] ->
        forall (b0 : cell) (B' : list cell),
        B = b0 :: B' -> sbl = Some (tid (last (pre ++ pht :: c_gap b0) dft)) \/ sbl = None /\ X = B) ->
       donors_ok fr (lay pre pht (A ++ B) post) vs ->
       insert_tokens ph seps sepsb (lay pre pht (A ++ B) post) items (zlen A) vs (zlen (A ++ B)) sbl fr =
       (lay pre pht (ins_res seps sepsb A B fr vs) post, map emptied vs, ins_fr seps sepsb A B fr vs, Ok tt) /\
       WF ph pre pht (ins_res seps sepsb A B fr vs) post /\
       map item_of (ins_res seps sepsb A B fr vs) = map item_of A ++ map node_item vs ++ map item_of B.
Proof. exact ins_layout. Qed.

(* insert(i, v), any i (clamped like list.insert) *)
Theorem C03_insert :
   forall (ph : Z) (seps sepsb : list (kind * str)),
       seps_ok seps ->
       seps_ok sepsb ->
       forall (pre : list tok) (pht : tok) (cs : list cell) (post : list tok) (i : Z) (v : donor) (fr : Z),
       WF ph pre pht cs post ->
       donors_ok fr (lay pre pht cs post) [v] ->
       exists cs' : list cell,
         insert ph seps sepsb {| s_doc := lay pre pht cs post; s_items := map item_of cs |} i v fr =
         ({| s_doc := lay pre pht cs' post; s_items := map item_of cs' |}, [emptied v], Ok tt) /\
         WF ph pre pht cs' post /\
         Edit cs cs' [] [d_store v] /\
         map item_of cs' = list_insert (map item_of cs) i (node_item v) /\
         (Sep seps sepsb cs -> Sep seps sepsb cs').
Proof. exact insert_layout. Qed.

(* append(v) *)
Theorem C03_append :
   forall (ph : Z) (seps sepsb : list (kind * str)),
       seps_ok seps ->
       seps_ok sepsb ->
       forall (pre : list tok) (pht : tok) (cs : list cell) (post : list tok) (v : donor) (fr : Z),
       WF ph pre pht cs post ->
       donors_ok fr (lay pre pht cs post) [v] ->
       exists cs' : list cell,
         append ph seps sepsb {| s_doc := lay pre pht cs post; s_items := map item_of cs |} v fr =
         ({| s_doc := lay pre pht cs' post; s_items := map item_of cs' |}, [emptied v], Ok tt) /\
         WF ph pre pht cs' post /\
         Edit cs cs' [] [d_store v] /\
         map item_of cs' = map item_of cs ++ [node_item v] /\ (Sep seps sepsb cs -> Sep seps sepsb cs').
Proof. exact append_layout. Qed.

(* extend(vs) *)
Theorem C03_extend :
   forall (ph : Z) (seps sepsb : list (kind * str)),
       seps_ok seps ->
       seps_ok sepsb ->
       forall (pre : list tok) (pht : tok) (cs : list cell) (post : list tok) (vs : list donor) (fr : Z),
       WF ph pre pht cs post ->
       donors_ok fr (lay pre pht cs post) vs ->
       NoDup (map d_node vs) ->
       exists cs' : list cell,
         extend ph seps sepsb {| s_doc := lay pre pht cs post; s_items := map item_of cs |} vs fr =
         ({| s_doc := lay pre pht cs' post; s_items := map item_of cs' |}, map emptied vs, Ok tt) /\
         WF ph pre pht cs' post /\
         Edit cs cs' [] (map d_store vs) /\
         map item_of cs' = map item_of cs ++ map node_item vs /\ (Sep seps sepsb cs -> Sep seps sepsb cs').
Proof. exact extend_layout. Qed.

(* xs[i] = v: exactly the body of item i is replaced *)
Theorem C03_setitem_int :
   forall (ph : Z) (pre : list tok) (pht : tok) (cs : list cell) (post : list tok) 
         (i : Z) (v : donor) (fr : Z) (s' : st) (dl : list donor),
       WF ph pre pht cs post ->
       donors_ok fr (lay pre pht cs post) [v] ->
       setitem_int {| s_doc := lay pre pht cs post; s_items := map item_of cs |} i false v = (s', dl, Ok tt) ->
       exists (A : list cell) (c : cell) (B : list cell),
         cs = A ++ c :: B /\
         (zlen A = i \/ zlen A = i + zlen cs) /\
         dl = [emptied v] /\
         (let cs' := A ++ {| c_gap := c_gap c; c_body := d_store v |} :: B in
          s' = {| s_doc := lay pre pht cs' post; s_items := map item_of cs' |} /\
          WF ph pre pht cs' post /\ Edit cs cs' [c] [d_store v]).
Proof. exact setitem_int_layout. Qed.

(* xs[i] = xs[i] (the node that is already there): nothing changes at all; a missing index is refused *)
Theorem C03_setitem_same :
   forall (s : st) (i : Z) (v : donor),
       setitem_int s i true v =
       (s, [v], match list_get_int (s_items s) i with
                | Ok _ => Ok tt
                | Err e => Err e
                end).
Proof. exact setitem_int_same. Qed.

(* xs[a:b] = vs (step 1): _del_tokens then _insert_tokens on the old item list *)
Theorem C03_setitem_slice :
   forall (ph : Z) (seps sepsb : list (kind * str)),
       seps_ok seps ->
       seps_ok sepsb ->
       forall (pre : list tok) (pht : tok) (cs : list cell) (post : list tok) (sl : slc) 
         (vs : list donor) (fr : Z),
       WF ph pre pht cs post ->
       donors_ok fr (lay pre pht cs post) vs ->
       NoDup (map d_node vs) ->
       sl_step sl = None \/ sl_step sl = Some 1 ->
       exists A M B cs' : list cell,
         cs = A ++ M ++ B /\
         setitem_slice ph seps sepsb {| s_doc := lay pre pht cs post; s_items := map item_of cs |} sl vs fr =
         ({| s_doc := lay pre pht cs' post; s_items := map item_of cs' |}, map emptied vs, Ok tt) /\
         WF ph pre pht cs' post /\
         Edit cs cs' M (map d_store vs) /\
         map item_of cs' = map item_of A ++ map node_item vs ++ map item_of B /\
         (Sep seps sepsb cs -> Sep seps sepsb cs').
Proof. exact setslice_layout. Qed.

(* xs[a:b:k] = vs (k <> 1, equal lengths): the loop replacing one item at a time; a chain of edits *)
Theorem C03_setitem_ext_slice :
   forall (ph : Z) (seps sepsb : list (kind * str)),
       seps_ok seps ->
       seps_ok sepsb ->
       forall (pre : list tok) (pht : tok) (cs : list cell) (post : list tok) (sl : slc) 
         (vs : list donor) (fr a b k : Z),
       WF ph pre pht cs post ->
       donors_ok fr (lay pre pht cs post) vs ->
       NoDup (map d_node vs) ->
       slice_indices (zlen cs) sl = Ok (a, b, k) ->
       k <> 1 ->
       range_len {| r_start := a; r_stop := b; r_step := k |} = zlen vs ->
       exists (cs' M : list cell) (dl : list donor),
         setitem_slice ph seps sepsb {| s_doc := lay pre pht cs post; s_items := map item_of cs |} sl vs fr =
         ({| s_doc := lay pre pht cs' post; s_items := map item_of cs' |}, dl, Ok tt) /\
         WF ph pre pht cs' post /\
         Edits cs cs' M (map d_store vs) /\ (Sep seps sepsb cs -> Sep seps sepsb cs').
Proof. exact setslice_ext_layout. Qed.

(* del xs[i] / del xs[a:b] (step 1) *)
Theorem C03_delitem :
   forall (ph : Z) (seps sepsb : list (kind * str)),
       seps_ok seps ->
       seps_ok sepsb ->
       forall (pre : list tok) (pht : tok) (cs : list cell) (post : list tok) (index : pyidx) 
         (fr : Z) (r : rng),
       WF ph pre pht cs post ->
       (forall x : Z, In x (ids (lay pre pht cs post)) -> x < fr) ->
       range_from_index index (zlen cs) = Ok r ->
       r_step r = 1 ->
       exists A M B cs' : list cell,
         cs = A ++ M ++ B /\
         delitem ph seps sepsb {| s_doc := lay pre pht cs post; s_items := map item_of cs |} index fr =
         ({| s_doc := lay pre pht cs' post; s_items := map item_of cs' |}, [], Ok tt) /\
         WF ph pre pht cs' post /\
         Edit cs cs' M [] /\
         map item_of cs' = map item_of A ++ map item_of B /\ (Sep seps sepsb cs -> Sep seps sepsb cs').
Proof. exact delitem_layout. Qed.

(* del xs[a:b:k] (k <> 1) = drop_many of the addressed positions *)
Theorem C03_delitem_ext :
   forall (ph : Z) (seps sepsb : list (kind * str)) (pre : list tok) (pht : tok) 
         (cs : list cell) (post : list tok) (index : pyidx) (fr : Z) (r : rng),
       WF ph pre pht cs post ->
       range_from_index index (zlen cs) = Ok r ->
       r_step r <> 1 ->
       match index with
       | IInt _ => False
       | ISlice sl => slice_indices (zlen cs) sl = Ok (r_start r, r_stop r, r_step r)
       end ->
       exists cs' M : list cell,
         delitem ph seps sepsb {| s_doc := lay pre pht cs post; s_items := map item_of cs |} index fr =
         ({| s_doc := lay pre pht cs' post; s_items := map item_of cs' |}, [], Ok tt) /\
         WF ph pre pht cs' post /\ Edits cs cs' M [] /\ (Sep seps sepsb cs -> Sep seps sepsb cs').
Proof. exact delitem_ext_layout. Qed.

(* drop_many(indexes) for ANY index list: an index out of range is refused before anything is touched; otherwise negative indexes are normalised, duplicates collapsed, and the positions dropped in descending runs *)
Theorem C03_drop_many :
   forall (ph : Z) (seps sepsb : list (kind * str)) (pre : list tok) (pht : tok) 
         (cs : list cell) (post : list tok) (idxs : list Z),
       WF ph pre pht cs post ->
       (exists e : exn,
          drop_many ph {| s_doc := lay pre pht cs post; s_items := map item_of cs |} idxs =
          ({| s_doc := lay pre pht cs post; s_items := map item_of cs |}, [], Err e)) \/
       (exists cs' M : list cell,
          drop_many ph {| s_doc := lay pre pht cs post; s_items := map item_of cs |} idxs =
          ({| s_doc := lay pre pht cs' post; s_items := map item_of cs' |}, [], Ok tt) /\
          WF ph pre pht cs' post /\ Edits cs cs' M [] /\ (Sep seps sepsb cs -> Sep seps sepsb cs')).
Proof. exact drop_many_layout. Qed.

(* drop_many after its validation (distinct positions in range): runs, items = remove_positions *)
Theorem C03_drop_many_core :
   forall (ph : Z) (seps sepsb : list (kind * str)) (pre : list tok) (pht : tok) 
         (cs : list cell) (post : list tok) (idxs : list Z),
       WF ph pre pht cs post ->
       NoDup idxs ->
       (forall y : Z, In y idxs -> 0 <= y < zlen cs) ->
       exists cs' M : list cell,
         drop_many_core ph {| s_doc := lay pre pht cs post; s_items := map item_of cs |} idxs =
         ({| s_doc := lay pre pht cs' post; s_items := map item_of cs' |}, [], Ok tt) /\
         WF ph pre pht cs' post /\
         Edits cs cs' M [] /\
         (Sep seps sepsb cs -> Sep seps sepsb cs') /\
         map item_of cs' = remove_positions (sort_desc idxs) (map item_of cs).
Proof. exact drop_many_core_layout. Qed.

(* pop(i): returns exactly the tokens of item i *)
Theorem C03_pop :
   forall (ph : Z) (pre : list tok) (pht : tok) (cs : list cell) (post : list tok) 
         (i : Z) (s' : st) (dl : list donor) (r : list tok),
       WF ph pre pht cs post ->
       pop ph {| s_doc := lay pre pht cs post; s_items := map item_of cs |} i = (s', dl, Ok r) ->
       exists (A : list cell) (c : cell) (B : list cell),
         cs = A ++ c :: B /\
         r = c_body c /\
         dl = [] /\
         (zlen A = i \/ zlen A = i + zlen cs) /\
         s' = {| s_doc := lay pre pht (del_res A [c] B post) post; s_items := map item_of (del_res A [c] B post) |} /\
         WF ph pre pht (del_res A [c] B post) post /\ Edit cs (del_res A [c] B post) [c] [].
Proof. exact pop_layout. Qed.

(* clear() *)
Theorem C03_clear :
   forall (ph : Z) (pre : list tok) (pht : tok) (cs : list cell) (post : list tok),
       WF ph pre pht cs post ->
       clear ph {| s_doc := lay pre pht cs post; s_items := map item_of cs |} =
       ({| s_doc := lay pre pht [] post; s_items := [] |}, [], Ok tt) /\
       WF ph pre pht [] post /\ Edit cs [] cs [].
Proof. exact clear_layout. Qed.

(* one accepted call of the full op language: invariant kept, framed *)
Theorem C03_step :
   forall (ph : Z) (seps sepsb : list (kind * str)),
       seps_ok seps ->
       seps_ok sepsb ->
       forall (s : st) (o : rop) (s' : st),
       LayS ph s ->
       op_ok s o -> run_op ph seps sepsb s o = (s', Ok tt) -> LayS ph s' /\ FrameS ph seps sepsb s s'.
Proof. exact step_ok. Qed.

(* after any history of accepted and refused calls the invariant holds *)
Theorem C03_history :
   forall (ph : Z) (seps sepsb : list (kind * str)),
       seps_ok seps ->
       seps_ok sepsb ->
       forall (s : st) (ops : list rop) (s' : st), Hist ph seps sepsb s ops s' -> LayS ph s -> LayS ph s'.
Proof. exact history_layout. Qed.

(* at every point of any history: the next accepted call is framed, the next refused call changes nothing *)
Theorem C03_history_step :
   forall (ph : Z) (seps sepsb : list (kind * str)),
       seps_ok seps ->
       seps_ok sepsb ->
       forall (s0 : st) (ops : list rop) (s : st) (o : rop) (s' : st),
       LayS ph s0 ->
       Hist ph seps sepsb s0 ops s ->
       (op_ok s o -> run_op ph seps sepsb s o = (s', Ok tt) -> LayS ph s' /\ FrameS ph seps sepsb s s') /\
       (forall e : exn, op_err_ok s o -> run_op ph seps sepsb s o = (s', Err e) -> s' = s).
Proof. exact history_step. Qed.

(* token-level reading of one edit: the exact window *)
Theorem C03_frame_tokens_edit :
   forall (pre : list tok) (pht : tok) (cs cs' : list cell) (post : list tok) 
         (M : list cell) (news : list (list tok)),
       Forall cell_ok cs ->
       Forall cell_ok cs' ->
       Edit cs cs' M news ->
       exists X W W' Y : list tok,
         lay pre pht cs post = X ++ W ++ Y /\
         lay pre pht cs' post = X ++ W' ++ Y /\
         (forall t : tok, In t W' -> is_sep (tkind t) = true \/ (exists b : list tok, In b news /\ In t b)) /\
         (forall t : tok, In t W -> is_sep (tkind t) = true \/ (exists c : cell, In c M /\ In t (c_body c))).
Proof. exact frame_tokens_edit. Qed.

(* token-level reading of any accepted call (chain of edits) *)
Theorem C03_frame_tokens :
   forall (ph : Z) (seps sepsb : list (kind * str)) (s s' : st),
       FrameS ph seps sepsb s s' ->
       exists (X W W' Y : list tok) (news : list (list tok)) (removed : list cell),
         s_doc s = X ++ W ++ Y /\
         s_doc s' = X ++ W' ++ Y /\
         (forall t : tok,
          In t W' -> In t W \/ is_sep (tkind t) = true \/ (exists b : list tok, In b news /\ In t b)) /\
         (forall t : tok,
          In t W -> In t W' \/ is_sep (tkind t) = true \/ (exists c : cell, In c removed /\ In t (c_body c))).
Proof. exact frame_tokens. Qed.

(* replace (required / optional / xs[i] = v): exactly the old child's span becomes the new child *)
Theorem C03_replace_partial : forall P S Q (cur : item) v,
  NoDup (ids (P ++ S ++ Q)) -> S <> [] -> fst cur = tid (hd dft S) -> snd cur = tid (last S dft) ->
  detachable v = true -> guard (d_store v) (P ++ S ++ Q) = true ->
  replace_node (P ++ S ++ Q) cur false v =
    (P ++ d_store v ++ Q, [mkdonor (d_node v) [] (d_first v) (d_last v)], Ok tt).
Proof. exact replace_node_frame. Qed.

(* optional fields: create next to the pivot, remove the child with the separators on its pivot side *)
Theorem C03_create_left_partial : forall seps P p Q v fr,
  NoDup (ids (P ++ p :: Q)) -> detachable v = true ->
  guard (mk_seps fr seps ++ d_store v) (P ++ p :: Q) = true ->
  create_node SLeft seps (P ++ p :: Q) (tid p) v fr =
    (P ++ p :: (mk_seps fr seps ++ d_store v) ++ Q, [mkdonor (d_node v) [] (d_first v) (d_last v)], Ok tt).
Proof. exact create_left_frame. Qed.

Theorem C03_create_right_partial : forall seps P p Q v fr,
  NoDup (ids (P ++ p :: Q)) -> detachable v = true ->
  guard (d_store v ++ mk_seps fr seps) (P ++ p :: Q) = true ->
  create_node SRight seps (P ++ p :: Q) (tid p) v fr =
    (P ++ (d_store v ++ mk_seps fr seps) ++ p :: Q, [mkdonor (d_node v) [] (d_first v) (d_last v)], Ok tt).
Proof. exact create_right_frame. Qed.

(* removal (as repaired by fixes/optional-remove-keeps-separator-when-glued.patch): the child X leaves; the tokens G
   between the pivot and the child leave with it unless the child touches what lies on its other side (the nearest
   token with text there shows a character that is neither blank nor a bracket): then G stays, so that the root's
   token list loses exactly one infix, G ++ X / X ++ G, or just X *)
Theorem C03_remove_left_partial : forall P p G X Q (cur : item),
  NoDup (ids (P ++ p :: G ++ X ++ Q)) -> X <> [] -> fst cur = tid (hd dft X) -> snd cur = tid (last X dft) ->
  remove_node SLeft (P ++ p :: G ++ X ++ Q) (tid p) cur =
    (P ++ p :: (if touches true Q then G else []) ++ Q, Ok tt).
Proof. exact remove_left_frame. Qed.

Theorem C03_remove_right_partial : forall P X G p Q (cur : item),
  NoDup (ids (P ++ X ++ G ++ p :: Q)) -> X <> [] -> fst cur = tid (hd dft X) -> snd cur = tid (last X dft) ->
  remove_node SRight (P ++ X ++ G ++ p :: Q) (tid p) cur =
    (P ++ (if touches false (rev P) then G else []) ++ p :: Q, Ok tt).
Proof. exact remove_right_frame. Qed.

(* the two cases apart: next to a blank, a bracket or the end of the store everything between pivot and child goes *)
Theorem C03_remove_left_drops_partial : forall P p G X Q (cur : item),
  NoDup (ids (P ++ p :: G ++ X ++ Q)) -> X <> [] -> fst cur = tid (hd dft X) -> snd cur = tid (last X dft) ->
  touches true Q = false ->
  remove_node SLeft (P ++ p :: G ++ X ++ Q) (tid p) cur = (P ++ p :: Q, Ok tt).
Proof. exact remove_left_drops_separators. Qed.

Theorem C03_remove_right_drops_partial : forall P X G p Q (cur : item),
  NoDup (ids (P ++ X ++ G ++ p :: Q)) -> X <> [] -> fst cur = tid (hd dft X) -> snd cur = tid (last X dft) ->
  touches false (rev P) = false ->
  remove_node SRight (P ++ X ++ G ++ p :: Q) (tid p) cur = (P ++ p :: Q, Ok tt).
Proof. exact remove_right_drops_separators. Qed.

(* `    Assets:Cash 10CAD`, number = None: only `10` leaves;  `    Assets:Cash 10 CAD`: ` 10` leaves *)
Definition ex_posting (glued : bool) : doc :=
  [mktok 1 KWhitespace [32;32;32;32]; mktok 2 KOther [65;115;115;101;116;115;58;67;97;115;104]; mktok 3 KWhitespace [32];
   mktok 4 KOther [49;48]] ++ (if glued then [] else [mktok 5 KWhitespace [32]]) ++
  [mktok 6 KOther [67;65;68]; mktok 7 KPlaceholder []; mktok 8 KNewline [10]].
Example C03_remove_left_nonvacuous :
  map tid (fst (remove_node SLeft (ex_posting true) 2 (4, 4))) = [1; 2; 3; 6; 7; 8] /\
  map tid (fst (remove_node SLeft (ex_posting false) 2 (4, 4))) = [1; 2; 5; 6; 7; 8] /\
  NoDup (ids (ex_posting true)).
Proof. split; [vm_compute; reflexivity|]. split; [vm_compute; reflexivity|]. repeat constructor; simpl; intuition lia. Qed.

(* `{12.34 # 56.78 USD}`, number_per = None: a bracket needs no separator, `12.34 ` leaves;  `, 12.34 # ...` glued to
   a letter: only `12.34` leaves *)
Example C03_remove_right_nonvacuous :
  let d (c : Z) := [mktok 1 KOther [c]; mktok 2 KPlaceholder []; mktok 3 KOther [49;50]; mktok 4 KWhitespace [32];
                    mktok 5 KOther [35]; mktok 6 KWhitespace [32]; mktok 7 KOther [53]] in
  map tid (fst (remove_node SRight (d 123) 5 (3, 3))) = [1; 2; 5; 6; 7] /\
  map tid (fst (remove_node SRight (d 65) 5 (3, 3))) = [1; 2; 4; 5; 6; 7].
Proof. split; vm_compute; reflexivity. Qed.

(* ---- non-vacuity: `open Assets:Foo  AAA, BBB` as tokens 1..8, placeholder 3, items AAA(5) BBB(8) -- *)
Definition ex_doc : doc :=
  [mktok 1 KOther [111]; mktok 2 KOther [65]; mktok 3 KPlaceholder []; mktok 4 KWhitespace [32];
   mktok 5 KOther [65;65;65]; mktok 6 KComma [44]; mktok 7 KWhitespace [32]; mktok 8 KOther [66;66;66];
   mktok 9 KPlaceholder []; mktok 10 KNewline [10]].
Definition ex_items : list item := [(5, 5); (8, 8)].
Definition ex_seps : list (kind * str) := [(KComma, [44]); (KWhitespace, [32])].
Definition ex_sepsb : list (kind * str) := [(KWhitespace, [32])].
Definition ex_v : donor := mkdonor 50 [mktok 50 KOther [88]] 50 50.

(* pop(1): else-branch with P = tokens 1..4, p = AAA, S = [`,`; ` `; BBB] *)
Example C03_del_else_nonvacuous :
  del_tokens 3 ex_doc ex_items 1 2 = (firstn 5 ex_doc ++ skipn 8 ex_doc, Ok tt)
  /\ NoDup (ids ex_doc) /\ prev_last 3 ex_items 1 = Ok 5.
Proof. split; [vm_compute; reflexivity|]. split; [|reflexivity]. repeat constructor; simpl; intuition lia. Qed.

(* pop(0): if-branch keeps the separators before the first item *)
Example C03_del_first_nonvacuous :
  del_tokens 3 ex_doc ex_items 0 1 = (firstn 4 ex_doc ++ skipn 7 ex_doc, Ok tt).
Proof. vm_compute. reflexivity. Qed.

(* insert(0, X) gives `  X, AAA, BBB`;  insert(1, X) gives `  AAA, X, BBB` *)
Example C03_insert_front_nonvacuous :
  map ttext (fst (fst (fst (insert_tokens 3 ex_seps ex_sepsb ex_doc ex_items 0 [ex_v] 2 None 100)))) =
  [[111]; [65]; []; [32]; [88]; [44]; [32]; [65;65;65]; [44]; [32]; [66;66;66]; []; [10]].
Proof. vm_compute. reflexivity. Qed.

Example C03_insert_after_nonvacuous :
  map ttext (fst (fst (fst (insert_tokens 3 ex_seps ex_sepsb ex_doc ex_items 1 [ex_v] 2 None 100)))) =
  [[111]; [65]; []; [32]; [65;65;65]; [44]; [32]; [88]; [44]; [32]; [66;66;66]; []; [10]].
Proof. vm_compute. reflexivity. Qed.

(* D3 as repaired: xs[0:1] = [X, Y] on [AAA, BBB] gives `X, Y, BBB` *)
Example C03_slice_assign_two_at_front :
  let y := mkdonor 51 [mktok 51 KOther [89]] 51 51 in
  match setitem_slice 3 ex_seps ex_sepsb (mkst ex_doc ex_items) (mkslc (Some 0) (Some 1) None) [ex_v; y] 100 with
  | (s', _, r) => (map ttext (s_doc s'), s_items s', r)
  end = ([[111]; [65]; []; [32]; [88]; [44]; [32]; [89]; [44]; [32]; [66;66;66]; []; [10]],
         [(50, 50); (51, 51); (8, 8)], Ok tt).
Proof. vm_compute. reflexivity. Qed.

(* the invariant is satisfiable: `open Assets:Foo  AAA, BBB`, and a two-call history on it *)
Example C03_layout_nonvacuous : layout_b 3 ex_doc ex_items = true.
Proof. vm_compute. reflexivity. Qed.

Example C03_history_nonvacuous :
  exists s', Hist 3 ex_seps ex_sepsb (mkst ex_doc ex_items)
               [RInsert (-1) ex_v 100; RPop 7; RDropMany [2; 0; -1; 0]] s' /\ map fst (s_items s') = [50].
Proof.
  eexists. split.
  - eapply H_ok; [| vm_compute; reflexivity |].
    + split; [|reflexivity]. repeat split.
      * repeat constructor; discriminate.
      * intros x Hx. cbn in Hx. intuition lia.
      * intros x Hx. cbn in Hx. intuition lia.
      * repeat constructor; cbn; intuition lia.
    + eapply H_err; [exact I | vm_compute; reflexivity |].
      eapply H_ok; [| vm_compute; reflexivity | apply H_nil].
      split; exact I.
  - reflexivity.
Qed.
