(* C16 - "The editor writes exactly the edited files, exactly, and nothing else".

   Every theorem is about Editor.v (a statement-by-statement model of editor.py) for an ARBITRARY world W:
   any parser/printer/include extractor, any glob, any normpath/dirname/join/pathlib/abspath functions,
   either newline mode, with or without the makedirs guard; any file system, any include graph, any
   root spelling, any body.  [completed ... texts files files' fs' tr] = the block was entered with the
   dict `files` (texts read: `texts`), its body returned leaving `files'`, and the exit code ran to the
   end giving the disk fs' and the list tr of file-system calls.  [alias_free] = no two keys that are
   unlinked or kept denote the same file (NoDup after canon): the editor identifies files by the
   normalised spelling, so this is as far as "any way of spelling the path" can go.

   PARTIAL with respect to the property text, and why:
   - "contains exactly the printed model ... carriage returns as they were on disk" holds only when files
     are opened with newline='' (w_translate = false): C16_every_entry_printed_exactly.  For the code as it
     is on the unrepaired tree (newline=None) it is false: C16_crlf_refuted.
   - "this holds for any way of spelling the path" needs the guard on os.makedirs; without it a bare
     spelling makes a completed block raise and drop every edit: C16_bare_path_refuted.
   - "each file exactly once" is proved per normalised spelling; per file it is false when one file is reached under
     a relative and an absolute spelling: C16_each_once_refuted (known finding).
   - (closed since session 5) that ONLY reachable spellings are visited: C16_visits_exactly_reachable, with the
     discovery order of the mapping handed to the caller (C16_discovery_order).
   - parse/print/glob/path functions are Section variables: no law is assumed except print_parse (C01),
     stated where used.  *)
From AB Require Import Prelude Editor EditorProofs EditorRun EditorReach.

Theorem C16_each_once : forall W fuel fs root tr texts files,
  bfs W fuel fs [normpath W root] [] [] = (tr, EOk (texts, files)) ->
  tr = map OpRead (keys files) /\ NoDup (keys files) /\ keys texts = keys files /\
  In (normpath W root) (keys files) /\ includes_closed W files (keys files) /\
  Forall2 (entry_ok W fs) texts files.
Proof. exact visits_each_once. Qed.

(* the converse: a spelling is visited ONLY IF it is reachable from the root - the root itself, or a spelling the include
   directives of a reachable, readable, parsable file expand to (reach, EditorReach.v) - hence the keys handed to the
   caller are exactly the reachable spellings: no unrelated file is ever read, parsed or offered for editing *)
Theorem C16_only_reachable : forall W fuel fs root tr texts files,
  bfs W fuel fs [normpath W root] [] [] = (tr, EOk (texts, files)) ->
  forall k, In k (keys files) -> reach W fs (normpath W root) k.
Proof. exact only_reachable. Qed.

Theorem C16_visits_exactly_reachable : forall W fuel fs root tr texts files,
  bfs W fuel fs [normpath W root] [] [] = (tr, EOk (texts, files)) ->
  forall k, In k (keys files) <-> reach W fs (normpath W root) k.
Proof. exact visits_exactly_reachable. Qed.

(* the mapping lists the root first and every other file after a file that includes it (breadth-first discovery) *)
Theorem C16_discovery_order : forall W fuel fs root tr texts files,
  bfs W fuel fs [normpath W root] [] [] = (tr, EOk (texts, files)) ->
  discovered W files (normpath W root) /\ exists m rest, files = (normpath W root, m) :: rest.
Proof. exact discovery_order. Qed.

Theorem C16_terminates_on_cycles : forall W (U : list path) fuel fs root,
  In (normpath W root) U ->
  (forall k text m ps, In k U -> fs_read W fs k = Some text -> parse W text = Some m ->
     include_paths W k m = EOk ps -> forall p, In p ps -> In p U) ->
  (length U < fuel)%nat ->
  snd (bfs W fuel fs [normpath W root] [] []) <> EErr EOutOfFuel.
Proof. exact read_phase_terminates. Qed.

Theorem C16_raise_no_write : forall W fuel fs root body fs' tr r,
  edit_file_recursive W fuel fs root body = (fs', tr, r) ->
  (forall files, body files = None) ->
  fs' = fs /\ forallb is_read tr = true /\ exists e, r = EErr e.
Proof. exact raise_touches_nothing. Qed.

Theorem C16_failed_entry_no_write : forall W fuel fs root body tr e,
  bfs W fuel fs [normpath W root] [] [] = (tr, EErr e) ->
  edit_file_recursive W fuel fs root body = (fs, tr, EErr e) /\ forallb is_read tr = true.
Proof. exact failed_entry_touches_nothing. Qed.

Theorem C16_completed_calls_exactly : forall W fuel fs root body texts files files' fs' tr,
  completed W fuel fs root body texts files files' fs' tr ->
  alias_free W texts files' ->
  tr = map OpRead (keys files) ++ map OpUnlink (removed_keys W texts files') ++ write_ops W texts files' /\
  (forall k, In k (removed_keys W texts files') -> content fs' (canon W k) = None) /\
  (forall k m, In (k, m) files' ->
     content fs' (canon W k) = if will_write W texts (k, m) then Some (print W m) else content fs (canon W k)) /\
  (forall c, ~ In c (map (canon W) (removed_keys W texts files' ++ written_keys W texts files')) ->
     content fs' c = content fs c).
Proof. exact completed_spec. Qed.

Theorem C16_unchanged_not_written : forall W fuel fs root body texts files files' fs' tr k m,
  completed W fuel fs root body texts files files' fs' tr -> alias_free W texts files' ->
  (forall t m0, parse W t = Some m0 -> print W m0 = t) ->
  In (k, m) files -> In (k, m) files' ->
  content fs' (canon W k) = content fs (canon W k) /\
  (forall k', In (OpWrite k') tr -> canon W k' <> canon W k) /\ ~ In (OpUnlink k) tr.
Proof. exact unchanged_not_written. Qed.

Theorem C16_changed_exact : forall W fuel fs root body texts files files' fs' tr k m t,
  completed W fuel fs root body texts files files' fs' tr -> alias_free W texts files' ->
  In (k, m) files' -> lookup k texts = Some t -> print W m <> t ->
  content fs' (canon W k) = Some (print W m).
Proof. exact changed_exact. Qed.

Theorem C16_every_entry_printed_exactly : forall W fuel fs root body texts files files' fs' tr k m,
  completed W fuel fs root body texts files files' fs' tr -> alias_free W texts files' ->
  w_translate W = false ->
  In (k, m) files' -> content fs' (canon W k) = Some (print W m).
Proof. exact every_entry_printed_exactly. Qed.

Theorem C16_texts_are_disk_bytes : forall W fuel fs root tr texts files k t,
  bfs W fuel fs [normpath W root] [] [] = (tr, EOk (texts, files)) -> w_translate W = false ->
  lookup k texts = Some t -> content fs (canon W k) = Some t.
Proof. exact texts_are_disk_bytes. Qed.

Theorem C16_removed_unlinked : forall W fuel fs root body texts files files' fs' tr k,
  completed W fuel fs root body texts files files' fs' tr -> alias_free W texts files' ->
  In k (keys files) -> ~ In k (keys files') ->
  content fs' (canon W k) = None /\ In (OpUnlink k) tr.
Proof. exact removed_unlinked. Qed.

Theorem C16_added_created : forall W fuel fs root body texts files files' fs' tr k m,
  completed W fuel fs root body texts files files' fs' tr -> alias_free W texts files' ->
  In (k, m) files' -> ~ In k (keys files) ->
  content fs' (canon W k) = Some (print W m) /\ In (OpWrite k) tr.
Proof. exact added_created. Qed.

Theorem C16_nothing_else_touched : forall W fuel fs root body texts files files' fs' tr c,
  completed W fuel fs root body texts files files' fs' tr -> alias_free W texts files' ->
  ~ In c (map (canon W) (removed_keys W texts files' ++ written_keys W texts files')) ->
  content fs' c = content fs c.
Proof. exact nothing_else_touched. Qed.

Theorem C16_completed_trace : forall W fuel fs root body texts files files' fs' tr,
  completed W fuel fs root body texts files files' fs' tr ->
  tr = map OpRead (keys files) ++ map OpUnlink (removed_keys W texts files') ++ write_ops W texts files'.
Proof. exact completed_trace. Qed.

(* re-keying (alias_free excludes it): remove k, add k' spelling the same file.  Needs only that the KEPT
   keys denote distinct files; true because every unlink precedes every write. *)
Theorem C16_rekeyed_entry_survives : forall W fuel fs root body texts files files' fs' tr k k' m,
  completed W fuel fs root body texts files files' fs' tr ->
  NoDup (map (canon W) (keys files')) ->
  In k (keys files) -> ~ In k (keys files') ->
  In (k', m) files' -> ~ In k' (keys files) ->
  canon W k' = canon W k ->
  content fs' (canon W k) = Some (print W m) /\
  exists pre post, tr = pre ++ post /\ In (OpUnlink k) pre /\ In (OpWrite k') post /\
    (forall p, ~ In (OpWrite p) pre) /\ (forall p, ~ In (OpUnlink p) post).
Proof. exact rekeyed_entry_survives. Qed.

Theorem C16_bare_key_no_makedirs : forall W k,
  w_guard W = true -> dirname W k = [] -> mk_ops W k = [].
Proof. exact bare_key_no_makedirs. Qed.

Theorem C16_edit_file : forall W fs p body fs' tr r,
  edit_file W fs p body = (fs', tr, r) ->
  match r with
  | EErr _ => fs' = fs /\ (forall o, In o tr -> o = OpRead (ppath W p) \/ (o = OpWrite (ppath W p) /\ r = EErr EOSError))
  | EOk _ => exists text m m', fs_read W fs (ppath W p) = Some text /\ parse W text = Some m /\ body m = Some m' /\
      if str_eqb (print W m') text then fs' = fs /\ tr = [OpRead (ppath W p)]
      else tr = [OpRead (ppath W p); OpWrite (ppath W p)] /\
           content fs' (canon W (ppath W p)) = Some (print W m') /\
           forall c, c <> canon W (ppath W p) -> content fs' c = content fs c
  end.
Proof. exact edit_file_spec. Qed.

Theorem C16_edit_file_raise_no_write : forall W fs p body fs' tr r,
  edit_file W fs p body = (fs', tr, r) -> (forall m, body m = None) ->
  fs' = fs /\ forallb is_read tr = true /\ exists e, r = EErr e.
Proof. exact edit_file_raise_touches_nothing. Qed.

Theorem C16_edit_file_any_spelling : forall W fs p p' body,
  canon W (ppath W p) = canon W (ppath W p') ->
  traversable W fs (ppath W p) = traversable W fs (ppath W p') ->
  fst (fst (edit_file W fs p body)) = fst (fst (edit_file W fs p' body)) /\
  snd (edit_file W fs p body) = snd (edit_file W fs p' body).
Proof. exact edit_file_spelling. Qed.

(* ---- non-vacuity: the hypotheses hold on a concrete run (EditorRun.ex_case: bare root "m", a CRLF file,
        a cycle m -> m, a diamond m -> a -> b <- m; m edited, a untouched, b removed, n added) ---------- *)
From Coq Require Import String.
Example ex_completed : forall t g, g = true ->
  completed (ex_W t g) ex_fuel ex_fs ex_root (ex_body t g) (ex_texts t g) (ex_files t g) (ex_files' t g)
            (ex_fs' t g) (ex_tr t g).
Proof.
  intros t g G. subst g. exists (fst (ex_bfs t true)), (skipn 3 (ex_tr t true)).
  destruct t; repeat split; vm_compute; reflexivity.
Qed.
Example ex_alias_free : forall t g, alias_free (ex_W t g) (ex_texts t g) (ex_files' t g).
Proof. intros t g. apply nodupb_sound. destruct t, g; vm_compute; reflexivity. Qed.
Example ex_print_parse : forall t g u m0, parse (ex_W t g) u = Some m0 -> print (ex_W t g) m0 = u.
Proof. intros t g u m0. cbn. intro H. inversion H. reflexivity. Qed.

Example C16_each_once_ex :
  fst (ex_bfs false true) = map OpRead (map zs ["m"; "a"; "b"]%string) /\ NoDup (keys (ex_files false true)).
Proof.
  destruct (C16_each_once (ex_W false true) ex_fuel ex_fs ex_root (fst (ex_bfs false true))
              (ex_texts false true) (ex_files false true)) as [A [B _]]; [vm_compute; reflexivity|].
  split; [exact A | exact B].
Qed.
Example C16_visits_exactly_reachable_ex :   (* b is reached through a (and through m); n and x are not reachable, and not read *)
  reach (ex_W false true) ex_fs (normpath (ex_W false true) ex_root) (zs "b") /\
  ~ reach (ex_W false true) ex_fs (normpath (ex_W false true) ex_root) (zs "n") /\
  ~ reach (ex_W false true) ex_fs (normpath (ex_W false true) ex_root) (zs "x").
Proof.
  assert (H : bfs (ex_W false true) ex_fuel ex_fs [normpath (ex_W false true) ex_root] [] []
              = (fst (ex_bfs false true), EOk (ex_texts false true, ex_files false true))) by (vm_compute; reflexivity).
  pose proof (C16_visits_exactly_reachable _ _ _ _ _ _ _ H) as X.
  split; [destruct (X (zs "b")) as [X1 _]; apply X1; vm_compute; tauto|].
  split; intro R.
  - destruct (X (zs "n")) as [_ X2]. apply X2 in R. vm_compute in R.
    repeat (destruct R as [R|R]; [discriminate R|]); exact R.
  - destruct (X (zs "x")) as [_ X2]. apply X2 in R. vm_compute in R.
    repeat (destruct R as [R|R]; [discriminate R|]); exact R.
Qed.
Example C16_discovery_order_ex : map fst (ex_files false true) = map zs ["m"; "a"; "b"]%string.
Proof. vm_compute. reflexivity. Qed.
Example C16_terminates_on_cycles_ex : snd (ex_bfs false true) <> EErr EOutOfFuel.
Proof.
  apply (C16_terminates_on_cycles (ex_W false true) (map zs ["m"; "a"; "b"]%string)).
  - vm_compute. auto.
  - intros k text m ps Ik. vm_compute in Ik. destruct Ik as [E|[E|[E|[]]]]; subst k; vm_compute;
      intros R P I; inversion R; subst; inversion P; subst; vm_compute in I; inversion I; subst;
      intros p Ip; vm_compute in Ip; vm_compute; tauto.
  - vm_compute. lia.
Qed.
Example C16_raise_no_write_ex :
  fst (fst (edit_file_recursive (ex_W false true) ex_fuel ex_fs ex_root (fun _ => None))) = ex_fs.
Proof.
  destruct (edit_file_recursive (ex_W false true) ex_fuel ex_fs ex_root (fun _ => None)) as [[f t] r] eqn:E.
  destruct (C16_raise_no_write _ _ _ _ _ _ _ _ E (fun _ => eq_refl)) as [A _]. exact A.
Qed.
Example C16_failed_entry_no_write_ex :   (* /t/x does not exist *)
  exists tr, edit_file_recursive (ex_W false true) ex_fuel ex_fs (zs "x") (ex_body false true) = (ex_fs, tr, EErr EOSError).
Proof.
  eexists. apply (C16_failed_entry_no_write (ex_W false true) ex_fuel ex_fs (zs "x")). vm_compute. reflexivity.
Qed.
Example C16_completed_calls_exactly_ex :
  ex_tr false true = map OpRead (map zs ["m"; "a"; "b"]%string) ++ [OpUnlink (zs "b")] ++ [OpWrite (zs "m"); OpWrite (zs "n")].
Proof.
  destruct (C16_completed_calls_exactly _ _ _ _ _ _ _ _ _ _ (ex_completed false true eq_refl) (ex_alias_free false true)) as [A _].
  rewrite A. vm_compute. reflexivity.
Qed.
Example C16_unchanged_not_written_ex :
  content (ex_fs' false true) (zs "/t/a") = content ex_fs (zs "/t/a") /\ ~ In (OpWrite (zs "a")) (ex_tr false true).
Proof.
  destruct (C16_unchanged_not_written (ex_W false true) _ _ _ _ _ _ _ _ _ (zs "a") (zs "B" ++ [NL])
              (ex_completed false true eq_refl) (ex_alias_free false true) (ex_print_parse false true)) as [A [B _]].
  - vm_compute. tauto.
  - vm_compute. tauto.
  - split; [exact A|]. intro I. exact (B _ I eq_refl).
Qed.
Example C16_changed_exact_ex : content (ex_fs' false true) (zs "/t/m") = Some (zs "Z" ++ CRLF).
Proof.
  apply (C16_changed_exact (ex_W false true) _ _ _ _ _ _ _ _ _ (zs "m") (zs "Z" ++ CRLF) (zs "A" ++ CRLF)
           (ex_completed false true eq_refl) (ex_alias_free false true)).
  - vm_compute. tauto.
  - vm_compute. reflexivity.
  - vm_compute. discriminate.
Qed.
Example C16_every_entry_printed_exactly_ex : content (ex_fs' false true) (zs "/t/a") = Some (zs "B" ++ [NL]).
Proof.
  apply (C16_every_entry_printed_exactly (ex_W false true) _ _ _ _ _ _ _ _ _ (zs "a") (zs "B" ++ [NL])
           (ex_completed false true eq_refl) (ex_alias_free false true) eq_refl).
  vm_compute. tauto.
Qed.
Example C16_texts_are_disk_bytes_ex : content ex_fs (zs "/t/m") = Some (zs "A" ++ CRLF).
Proof.
  apply (C16_texts_are_disk_bytes (ex_W false true) ex_fuel ex_fs ex_root (fst (ex_bfs false true))
           (ex_texts false true) (ex_files false true) (zs "m")); vm_compute; reflexivity.
Qed.
Example C16_removed_unlinked_ex : content (ex_fs' false true) (zs "/t/b") = None.
Proof.
  refine (proj1 (C16_removed_unlinked (ex_W false true) _ _ _ _ _ _ _ _ _ (zs "b") (ex_completed false true eq_refl) (ex_alias_free false true) _ _)).
  - vm_compute. tauto.
  - vm_compute. intros [E|[E|[E|[]]]]; discriminate.
Qed.
Example C16_added_created_ex : content (ex_fs' false true) (zs "/t/n") = Some (zs "N" ++ [NL]).
Proof.
  refine (proj1 (C16_added_created (ex_W false true) _ _ _ _ _ _ _ _ _ (zs "n") (zs "N" ++ [NL]) (ex_completed false true eq_refl) (ex_alias_free false true) _ _)).
  - vm_compute. tauto.
  - vm_compute. intros [E|[E|[E|[]]]]; discriminate.
Qed.
(* texts.get(path) is None for a new key and None <> "": a new entry is created even when it prints as "" *)
Example ex_completed3 :
  completed (ex_W false true) ex_fuel ex_fs ex_root ex_body3 (ex_texts false true) (ex_files false true) ex_files3'
            (fst (fst ex_out3)) (snd (fst ex_out3)).
Proof. exists (fst (ex_bfs false true)), (skipn 3 (snd (fst ex_out3))). repeat split; vm_compute; reflexivity. Qed.
Example C16_added_created_empty_ex :
  content (fst (fst ex_out3)) (zs "/t/e") = Some [] /\ In (OpWrite (zs "e")) (snd (fst ex_out3)) /\
  content ex_fs (zs "/t/e") = None.
Proof.
  assert (AF : alias_free (ex_W false true) (ex_texts false true) ex_files3') by (apply nodupb_sound; vm_compute; reflexivity).
  destruct (C16_added_created (ex_W false true) _ _ _ _ _ _ _ _ _ (zs "e") ([] : model (ex_W false true)) ex_completed3 AF) as [A B].
  - vm_compute. tauto.
  - vm_compute. intros [E|[E|[E|[]]]]; discriminate.
  - split; [exact A|]. split; [exact B | vm_compute; reflexivity].
Qed.
Example C16_nothing_else_touched_ex : content (ex_fs' false true) (zs "/t/a") = content ex_fs (zs "/t/a").
Proof.
  apply (C16_nothing_else_touched (ex_W false true) _ _ _ _ _ _ _ _ _ (zs "/t/a") (ex_completed false true eq_refl) (ex_alias_free false true)).
  vm_compute. intros [E|[E|[E|[]]]]; discriminate.
Qed.
Example ex_completed2 :
  completed (ex_W false true) ex_fuel ex_fs ex_root ex_body2 (ex_texts false true) (ex_files false true) ex_files2'
            (fst (fst ex_out2)) (snd (fst ex_out2)).
Proof. exists (fst (ex_bfs false true)), (skipn 3 (snd (fst ex_out2))). repeat split; vm_compute; reflexivity. Qed.
Example C16_completed_trace_ex :
  snd (fst ex_out2) = map OpRead [zs "m"; zs "a"; zs "b"] ++ [OpUnlink (zs "a"); OpUnlink (zs "b")]
                      ++ [OpMakedirs (zs "/t"); OpWrite (zs "/t/a")].
Proof. rewrite (C16_completed_trace _ _ _ _ _ _ _ _ _ _ ex_completed2). vm_compute. reflexivity. Qed.
Example C16_rekeyed_entry_survives_ex : content (fst (fst ex_out2)) (zs "/t/a") = Some (zs "Q" ++ [NL]).
Proof.
  refine (proj1 (C16_rekeyed_entry_survives (ex_W false true) _ _ _ _ _ _ _ _ _ (zs "a") (zs "/t/a") (zs "Q" ++ [NL])
                   ex_completed2 _ _ _ _ _ _)).
  - apply nodupb_sound. vm_compute. reflexivity.
  - vm_compute. tauto.
  - vm_compute. intros [E|[E|[]]]; discriminate.
  - vm_compute. tauto.
  - vm_compute. intros [E|[E|[E|[]]]]; discriminate.
  - vm_compute. reflexivity.
Qed.
Example C16_bare_key_no_makedirs_ex : mk_ops (ex_W false true) (zs "m") = [].
Proof. apply C16_bare_key_no_makedirs; vm_compute; reflexivity. Qed.
Example C16_edit_file_any_spelling_ex :
  fst (fst (edit_file (ex_W false true) ex_fs (zs "m") (fun _ => Some (zs "Q"))))
  = fst (fst (edit_file (ex_W false true) ex_fs (zs "//t/../t//./m") (fun _ => Some (zs "Q")))).
Proof. apply C16_edit_file_any_spelling; vm_compute; reflexivity. Qed.
(* ... but a spelling through a directory that does not exist is not a spelling of the file: the OS refuses it *)
Example C16_edit_file_unresolvable_spelling_ex :
  snd (edit_file (ex_W false true) ex_fs (zs "/t/x/..//./m") (fun _ => Some (zs "Q"))) = EErr EOSError.
Proof. vm_compute. reflexivity. Qed.

(* "exactly once" holds per SPELLING (C16_each_once: NoDup (keys files)), not per FILE: a file included once by a
   relative and once by an absolute name gets two keys, is read and parsed twice and is yielded as two models
   (known finding C16:same-file-under-two-spellings; keys are what the user indexes the dict with) *)
Theorem C16_each_once_refuted :
  exists W fuel fs root tr texts files k k',
    bfs W fuel fs [normpath W root] [] [] = (tr, EOk (texts, files)) /\
    k <> k' /\ In (OpRead k) tr /\ In (OpRead k') tr /\ In k (keys files) /\ In k' (keys files) /\
    canon W k = canon W k'.
Proof.
  exists ex_WA, 4%nat, (mkfs (c_files ex_caseA) (c_dirs ex_caseA)), (zs "m"), (fst ex_bfsA),
         (match snd ex_bfsA with EOk (t, _) => t | _ => [] end), (match snd ex_bfsA with EOk (_, f) => f | _ => [] end),
         (zs "a"), (zs "/t/a").
  split; [vm_compute; reflexivity|]. split; [vm_compute; discriminate|].
  repeat split; vm_compute; tauto.
Qed.

(* ---- the two statements the unrepaired code refutes ---------------------------------------------- *)
(* newline=None: the body replaces the first character of m ("A" -> "Z"), everything after it is printed
   as parsed, and yet the "\r\n" that followed it on disk is gone *)
Theorem C16_crlf_refuted :
  exists W fuel fs root body texts files files' fs' tr k c c' rest,
    w_translate W = true /\ (forall t m0, parse W t = Some m0 -> print W m0 = t) /\
    completed W fuel fs root body texts files files' fs' tr /\ alias_free W texts files' /\
    content fs (canon W k) = Some (c :: rest) /\
    (exists m m' rest_t, In (k, m) files /\ In (k, m') files' /\ print W m = c :: rest_t /\ print W m' = c' :: rest_t) /\
    content fs' (canon W k) <> Some (c' :: rest).
Proof.
  exists (ex_W true true), ex_fuel, ex_fs, ex_root, (ex_body true true), (ex_texts true true), (ex_files true true),
         (ex_files' true true), (ex_fs' true true), (ex_tr true true), (zs "m"), 65, 90, CRLF.
  split; [reflexivity|]. split; [exact (ex_print_parse true true)|].
  split; [exact (ex_completed true true eq_refl)|]. split; [exact (ex_alias_free true true)|].
  split; [vm_compute; reflexivity|]. split.
  - exists (zs "A" ++ [NL]), (zs "Z" ++ [NL]), [NL]. vm_compute. tauto.
  - vm_compute. discriminate.
Qed.

(* no guard: the root is spelled without a directory part, the body returns normally, and the block ends in
   OSError at os.makedirs('') with m unedited on disk (b, removed from the dict, is already unlinked) *)
Theorem C16_bare_path_refuted :
  exists W fuel fs root body files files' fs' tr,
    w_guard W = false /\ dirname W (normpath W root) = [] /\
    snd (bfs W fuel fs [normpath W root] [] []) = EOk (ex_texts false false, files) /\ body files = Some files' /\
    edit_file_recursive W fuel fs root body = (fs', tr, EErr EOSError) /\
    In (OpMakedirs []) tr /\
    (exists m', In (normpath W root, m') files' /\ content fs' (canon W root) <> Some (print W m')).
Proof.
  exists (ex_W false false), ex_fuel, ex_fs, ex_root, (ex_body false false), (ex_files false false),
         (ex_files' false false), (ex_fs' false false), (ex_tr false false).
  repeat split; try (vm_compute; reflexivity).
  - vm_compute. tauto.
  - exists (zs "Z" ++ CRLF). split; [vm_compute; tauto | vm_compute; discriminate].
Qed.
