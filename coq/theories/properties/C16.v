From AB Require Import Editor.
Theorem C16_placeholder : True. Proof. exact I. Qed.
