(* C06 - what the model says is what the printed text says.
   The re-parse needs the real lexer and LALR engine (an oracle): that half is decided on every run by the
   monitor (print, re-parse with the real parser, field-by-field comparison). Proved here: the formatted
   layout of every generated class enumerates its declared fields exactly once in declaration order, and
   every `or`-chain that places an optional child (pivot) is the scheme's chain - the facts the edit
   algorithms' separator placement relies on (C06_partial: the separation invariant itself is C03's). *)
From AB Require Import Desc Generated GeneratedWf DescProofs.

Theorem C06_generated_classes_wf : forall c, In c classes -> wf_desc c = true.
Proof. exact generated_wf_each. Qed.

Theorem C06_formatted_order_partial :
  forall c, In c classes -> fmt_fields (c_formatted c) = field_names c.
Proof. intros c H. apply wf_formatted_order. exact (generated_wf_each c H). Qed.

Theorem C06_pivots_are_scheme_partial : forall c, In c classes -> pivots_ok c = true.
Proof. intros c H. destruct (wf_desc_parts c (generated_wf_each c H)) as (_&_&_&_&_&_&_&_&_&P&_). exact P. Qed.
