(* C06 - what the model says is what the printed text says.
   The re-parse itself needs the real lexer and LALR engine (an oracle): that half is decided on every run
   by the monitor (print, re-parse with the real parser, field-by-field comparison after every edit).
   Proved here:
   (a) for every generated class (re-extracted from the source on this run): the formatted layout enumerates
       the declared fields exactly once in declaration order, and every pivot that places an optional child
       is the scheme's `or`-chain (and is recomputed on every access: the translator refuses a cached pivot);
   (b) the separation invariant of repeated fields (RepeatedSep.v): if every item is preceded by a gap that
       contains a visible separator token whenever the field's separators are visible (", ", "\n", " "), then
       the same holds after every deletion, insertion (any number of values, any position, all three separator
       branches of _insert_tokens) and replacement - this is what rules out `AAA, , BBBEUR` / `BBBUSD`;
       fields declared with separators=() demand nothing (C06_sep_tight).
   C06_partial: the statement "the printed text re-parses to the same model" is not a theorem (oracle). *)
From AB Require Import Desc Generated GeneratedWf DescProofs Repeated RepeatedLayout RepeatedCells RepeatedSep.

Theorem C06_generated_classes_wf : forall c, In c classes -> wf_desc c = true.
Proof. exact generated_wf_each. Qed.

Theorem C06_formatted_order_partial :
  forall c, In c classes -> fmt_fields (c_formatted c) = field_names c.
Proof. intros c H. apply wf_formatted_order. exact (generated_wf_each c H). Qed.

Theorem C06_pivots_are_scheme_partial : forall c, In c classes -> pivots_ok c = true.
Proof. intros c H. destruct (wf_desc_parts c (generated_wf_each c H)) as (_&_&_&_&_&_&_&_&_&P&_). exact P. Qed.

Theorem C06_sep_delete : forall seps sepsb A M B, Sep seps sepsb (A ++ M ++ B) -> Sep seps sepsb (del_res A M B).
Proof. exact Sep_del. Qed.

Theorem C06_sep_insert : forall seps sepsb A B fr vs,
  Sep seps sepsb (A ++ B) -> Sep seps sepsb (ins_res seps sepsb A B fr vs).
Proof. exact Sep_ins. Qed.

Theorem C06_sep_replace : forall seps sepsb A c B body,
  Sep seps sepsb (A ++ c :: B) -> Sep seps sepsb (A ++ mkcell (c_gap c) body :: B).
Proof. exact Sep_set. Qed.

Theorem C06_sep_tight : forall cs, Sep [] [] cs.
Proof. exact Sep_tight. Qed.
