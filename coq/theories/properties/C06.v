From AB Require Import Desc Generated GeneratedWf.
Theorem C06_generated_classes_wf : forall c, In c classes -> wf_desc c = true.
Proof. exact generated_wf_each. Qed.
