(* C06 - what the model says is what the printed text says.
   The re-parse itself needs the real LALR engine and lark's contextual choice of terminal (an oracle): that
   half is decided on every run by the monitor (print, re-parse with the real parser, field-by-field
   comparison after every edit).
   Proved here:
   (a) for every generated class (re-extracted from the source on this run): the formatted layout enumerates
       the declared fields exactly once in declaration order, and every pivot that places an optional child
       is the scheme's `or`-chain (and is recomputed on every access: the translator refuses a cached pivot);
   (b) the separation invariant of repeated fields (RepeatedSep.v): if every item is preceded by a gap that
       contains a visible separator token whenever the field's separators are visible (", ", "\n", " "), then
       the same holds after every deletion, insertion (any number of values, any position, all three separator
       branches of _insert_tokens) and replacement - this is what rules out `AAA, , BBBEUR` / `BBBUSD`;
       fields declared with separators=() demand nothing (C06_sep_tight);
   (c) why separation is enough for the lexer (TokensStable.v, about the recognisers lexr_K of Tokens.v, which
       harness/c12.py compares with lark / CPython re on every run, also on "lexeme + following text"):
       C06_extent_stable_<K>: a complete lexeme of terminal K followed by a text r is recognised with exactly
       the same extent whenever boundary_K r holds - a condition on the first character(s) of r, the weakest
       one (C06_boundary_weakest_<K>: when it fails some complete lexeme is lexed differently before r);
       C06_blank_is_boundary: a blank (space, tab, CR, LF), the end of the text and ", " satisfy boundary_K of
       every value terminal (a comment ends at the line end only);
       C06_separated_relex: lexemes printed with such gaps in between are scanned back, with the recognisers of
       the expected kinds, into exactly these lexemes (C06_tight_is_not_relexed: "USD" "EUR" printed tight are not).
   Remains oracle (C06_partial): which terminal lark tries at a position (LALR state, terminal priorities,
   longest match among several terminals - e.g. TRUEX is a CURRENCY although BOOL stops after TRUE), the
   %ignore'd terminals between tokens, and the tree construction; so "the printed text re-parses to the same
   model" is not a theorem. *)
From AB Require Import Desc Generated GeneratedWf DescProofs Repeated RepeatedLayout RepeatedCells RepeatedSep.

Theorem C06_generated_classes_wf : forall c, In c classes -> wf_desc c = true.
Proof. exact generated_wf_each. Qed.

Theorem C06_formatted_order_partial :
  forall c, In c classes -> fmt_fields (c_formatted c) = field_names c.
Proof. intros c H. apply wf_formatted_order. exact (generated_wf_each c H). Qed.

Theorem C06_pivots_are_scheme_partial : forall c, In c classes -> pivots_ok c = true.
Proof. intros c H. destruct (wf_desc_parts c (generated_wf_each c H)) as (_&_&_&_&_&_&_&_&_&P&_). exact P. Qed.

Theorem C06_sep_delete : forall seps sepsb A M B post, Sep seps sepsb (A ++ M ++ B) -> Sep seps sepsb (del_res A M B post).
Proof. exact Sep_del. Qed.

Theorem C06_sep_insert : forall seps sepsb A B fr vs,
  Sep seps sepsb (A ++ B) -> Sep seps sepsb (ins_res seps sepsb A B fr vs).
Proof. exact Sep_ins. Qed.

Theorem C06_sep_replace : forall seps sepsb A c B body,
  Sep seps sepsb (A ++ c :: B) -> Sep seps sepsb (A ++ mkcell (c_gap c) body :: B).
Proof. exact Sep_set. Qed.

Theorem C06_sep_tight : forall cs, Sep [] [] cs.
Proof. exact Sep_tight. Qed.


(* ---- (c) lexical stability: separation is enough for the recognisers ---- *)
From Coq Require Import ZArith List.
From AB Require Tokens TokensStable.

Theorem C06_extent_stable_string : forall s r,
  Tokens.lexr_string s = Some nil -> TokensStable.boundary_string r = true -> Tokens.lexr_string (s ++ r)%list = Some r.
Proof. exact TokensStable.extent_stable_string. Qed.
Theorem C06_extent_stable_inline : forall s r,
  Tokens.lexr_inline s = Some nil -> TokensStable.boundary_inline r = true -> Tokens.lexr_inline (s ++ r)%list = Some r.
Proof. exact TokensStable.extent_stable_inline. Qed.
Theorem C06_extent_stable_newline : forall s r,
  Tokens.lexr_newline s = Some nil -> TokensStable.boundary_newline r = true -> Tokens.lexr_newline (s ++ r)%list = Some r.
Proof. exact TokensStable.extent_stable_newline. Qed.
Theorem C06_extent_stable_ws : forall s r,
  Tokens.lexr_ws1 s = Some nil -> TokensStable.boundary_ws r = true -> Tokens.lexr_ws1 (s ++ r)%list = Some r.
Proof. exact TokensStable.extent_stable_ws. Qed.
Theorem C06_extent_stable_block : forall s r,
  Tokens.lexr_block s = Some nil -> TokensStable.boundary_block (TokensStable.block_indented s) r = true ->
  Tokens.lexr_block (s ++ r)%list = Some r.
Proof. exact TokensStable.extent_stable_block. Qed.
Theorem C06_extent_stable_date : forall s r,
  Tokens.lexr_date s = Some nil -> TokensStable.boundary_date r = true -> Tokens.lexr_date (s ++ r)%list = Some r.
Proof. exact TokensStable.extent_stable_date. Qed.
Theorem C06_extent_stable_number : forall s r,
  Tokens.lexr_number s = Some nil -> TokensStable.boundary_number r = true -> Tokens.lexr_number (s ++ r)%list = Some r.
Proof. exact TokensStable.extent_stable_number. Qed.
Theorem C06_extent_stable_tag : forall s r,
  Tokens.lexr_tag s = Some nil -> TokensStable.boundary_tag r = true -> Tokens.lexr_tag (s ++ r)%list = Some r.
Proof. exact TokensStable.extent_stable_tag. Qed.
Theorem C06_extent_stable_link : forall s r,
  Tokens.lexr_link s = Some nil -> TokensStable.boundary_link r = true -> Tokens.lexr_link (s ++ r)%list = Some r.
Proof. exact TokensStable.extent_stable_link. Qed.
Theorem C06_extent_stable_metakey : forall s r,
  Tokens.lexr_metakey s = Some nil -> TokensStable.boundary_metakey r = true -> Tokens.lexr_metakey (s ++ r)%list = Some r.
Proof. exact TokensStable.extent_stable_metakey. Qed.
Theorem C06_extent_stable_bool : forall s r,
  Tokens.lexr_bool s = Some nil -> TokensStable.boundary_bool r = true -> Tokens.lexr_bool (s ++ r)%list = Some r.
Proof. exact TokensStable.extent_stable_bool. Qed.
Theorem C06_extent_stable_null : forall s r,
  Tokens.lexr_null s = Some nil -> TokensStable.boundary_null r = true -> Tokens.lexr_null (s ++ r)%list = Some r.
Proof. exact TokensStable.extent_stable_null. Qed.
Theorem C06_extent_stable_pflag : forall s r,
  Tokens.lexr_pflag s = Some nil -> TokensStable.boundary_pflag r = true -> Tokens.lexr_pflag (s ++ r)%list = Some r.
Proof. exact TokensStable.extent_stable_pflag. Qed.
Theorem C06_extent_stable_txflag : forall s r,
  Tokens.lexr_txflag s = Some nil -> TokensStable.boundary_txflag r = true -> Tokens.lexr_txflag (s ++ r)%list = Some r.
Proof. exact TokensStable.extent_stable_txflag. Qed.
Theorem C06_extent_stable_account : forall s r,
  Tokens.lexr_account s = Some nil -> TokensStable.boundary_account r = true -> Tokens.lexr_account (s ++ r)%list = Some r.
Proof. exact TokensStable.extent_stable_account. Qed.
Theorem C06_extent_stable_currency : forall s r,
  Tokens.lexr_currency s = Some nil -> TokensStable.boundary_currency r = true -> Tokens.lexr_currency (s ++ r)%list = Some r.
Proof. exact TokensStable.extent_stable_currency. Qed.

(* the boundaries are the weakest conditions on r alone *)
Theorem C06_boundary_weakest_number : forall r, TokensStable.boundary_number r = false ->
  exists s, Tokens.lexr_number s = Some nil /\ Tokens.lexr_number (s ++ r)%list <> Some r.
Proof. exact TokensStable.boundary_number_weakest. Qed.
Theorem C06_boundary_weakest_date : forall r, TokensStable.boundary_date r = false ->
  exists s, Tokens.lexr_date s = Some nil /\ Tokens.lexr_date (s ++ r)%list <> Some r.
Proof. exact TokensStable.boundary_date_weakest. Qed.
Theorem C06_boundary_weakest_tag : forall r, TokensStable.boundary_tag r = false ->
  exists s, Tokens.lexr_tag s = Some nil /\ Tokens.lexr_tag (s ++ r)%list <> Some r.
Proof. exact TokensStable.boundary_tag_weakest. Qed.
Theorem C06_boundary_weakest_link : forall r, TokensStable.boundary_link r = false ->
  exists s, Tokens.lexr_link s = Some nil /\ Tokens.lexr_link (s ++ r)%list <> Some r.
Proof. exact TokensStable.boundary_link_weakest. Qed.
Theorem C06_boundary_weakest_account : forall r, TokensStable.boundary_account r = false ->
  exists s, Tokens.lexr_account s = Some nil /\ Tokens.lexr_account (s ++ r)%list <> Some r.
Proof. exact TokensStable.boundary_account_weakest. Qed.
Theorem C06_boundary_weakest_currency : forall r, TokensStable.boundary_currency r = false ->
  exists s, Tokens.lexr_currency s = Some nil /\ Tokens.lexr_currency (s ++ r)%list <> Some r.
Proof. exact TokensStable.boundary_currency_weakest. Qed.
Theorem C06_boundary_weakest_inline : forall r, TokensStable.boundary_inline r = false ->
  exists s, Tokens.lexr_inline s = Some nil /\ Tokens.lexr_inline (s ++ r)%list <> Some r.
Proof. exact TokensStable.boundary_inline_weakest. Qed.
Theorem C06_boundary_weakest_ws : forall r, TokensStable.boundary_ws r = false ->
  exists s, Tokens.lexr_ws1 s = Some nil /\ Tokens.lexr_ws1 (s ++ r)%list <> Some r.
Proof. exact TokensStable.boundary_ws_weakest. Qed.

(* sep_start r: r is empty, starts with a blank, or starts with ',' and a blank *)
Theorem C06_blank_is_boundary : forall k r,
  TokensStable.is_value_kind k = true -> TokensStable.sep_start r = true -> TokensStable.boundary_of k r = true.
Proof. exact TokensStable.blank_is_boundary. Qed.
Theorem C06_comment_ends_at_eol : forall r,
  r = nil \/ TokensStable.starts_with Tokens.is_crnl r = true -> TokensStable.boundary_inline r = true.
Proof. exact TokensStable.boundary_inline_eol. Qed.
Theorem C06_block_comment_ends : forall ind,
  TokensStable.boundary_block ind nil = true /\
  (forall c t, Tokens.is_ws c = false -> (c =? Tokens.SEMI)%Z = false -> (c =? Prelude.CR)%Z = false ->
               TokensStable.boundary_block ind (Prelude.NL :: c :: t) = true).
Proof. exact TokensStable.boundary_block_ends. Qed.

Theorem C06_separated_relex : forall items, TokensStable.items_ok items ->
  TokensStable.scan (map (fun i => fst (fst i)) items) (TokensStable.print items) =
  Some (map (fun i => snd (fst i)) items).
Proof. exact TokensStable.separated_relex. Qed.

(* non-vacuity: `Assets:A  1,234.50 USD, EUR ; c` + LF is such a printing, and is scanned back *)
Example C06_separated_relex_example :
  TokensStable.items_ok TokensStable.ex_items2 /\
  TokensStable.scan (map (fun i => fst (fst i)) TokensStable.ex_items2) (TokensStable.print TokensStable.ex_items2) =
  Some (map (fun i => snd (fst i)) TokensStable.ex_items2).
Proof. exact TokensStable.ex_relex2_full. Qed.
Example C06_extent_example_needs_sep :
  Tokens.lexr_number (49 :: nil)%Z = Some nil /\ Tokens.lexr_number ((49 :: nil) ++ (44 :: 50 :: 51 :: 52 :: nil))%list%Z = Some nil.
Proof. exact TokensStable.number_comma_needs_sep. Qed.
Example C06_tight_is_not_relexed :
  TokensStable.scan (TokensStable.KCurrency :: TokensStable.KCurrency :: nil) ((85 :: 83 :: 68 :: nil) ++ (69 :: 85 :: 82 :: nil))%list%Z = None.
Proof. exact TokensStable.ex_tight_fails. Qed.

(* (d) optional children (Fields.v, as repaired by fixes/optional-remove-keeps-separator-when-glued.patch): removing the
   child of an optional field keeps every token that lay between the pivot and the child (the separators) whenever the
   child touches what lies on its other side - zero-width tokens Z skipped, the nearest token n with text shows a
   character that is neither blank nor a bracket (RepeatedProofs.shows): the pivot and n are still apart afterwards.
   `    Assets:Cash 10CAD`, number = None used to print `Assets:CashCAD`. *)
From AB Require Fields RepeatedProofs.
Theorem C06_remove_keeps_separation :
  (forall P p G X Z n Q (cur : item) b,
     NoDup (ids (P ++ p :: G ++ X ++ Z ++ n :: Q)) -> X <> nil ->
     fst cur = tid (hd RepeatedProofs.dft X) -> snd cur = tid (last X RepeatedProofs.dft) ->
     Forall (fun t => ttext t = nil) Z -> RepeatedProofs.shows true n = true -> In b G ->
     exists B1 B2, G = B1 ++ b :: B2 /\
       Fields.remove_node Fields.SLeft (P ++ p :: G ++ X ++ Z ++ n :: Q) (tid p) cur
       = (P ++ p :: (B1 ++ b :: B2) ++ Z ++ n :: Q, Prelude.Ok tt)) /\
  (forall P n Z X G p Q (cur : item) b,
     NoDup (ids ((P ++ n :: Z) ++ X ++ G ++ p :: Q)) -> X <> nil ->
     fst cur = tid (hd RepeatedProofs.dft X) -> snd cur = tid (last X RepeatedProofs.dft) ->
     Forall (fun t => ttext t = nil) Z -> RepeatedProofs.shows false n = true -> In b G ->
     exists B1 B2, G = B1 ++ b :: B2 /\
       Fields.remove_node Fields.SRight ((P ++ n :: Z) ++ X ++ G ++ p :: Q) (tid p) cur
       = ((P ++ n :: Z) ++ (B1 ++ b :: B2) ++ p :: Q, Prelude.Ok tt)).
Proof. exact (conj RepeatedProofs.remove_left_keeps_separation RepeatedProofs.remove_right_keeps_separation). Qed.

(* non-vacuity on the `10CAD` shape: indent, `Assets:Cash` (pivot, id 2), ` ` (b, id 3), `10` (child, id 4), `CAD` (n);
   the blank is still between the account and the currency after posting.number = None *)
Example C06_remove_keeps_separation_example :
  let ind := mktok 1 KWhitespace (32 :: 32 :: nil)%Z in
  let acc := mktok 2 KOther (65 :: 115 :: 115 :: 101 :: 116 :: 115 :: 58 :: 67 :: 97 :: 115 :: 104 :: nil)%Z in
  let ws := mktok 3 KWhitespace (32 :: nil)%Z in
  let num := mktok 4 KOther (49 :: 48 :: nil)%Z in
  let cur := mktok 5 KOther (67 :: 65 :: 68 :: nil)%Z in
  let eol := mktok 6 KPlaceholder nil in
  let nl := mktok 7 KNewline (10 :: nil)%Z in
  NoDup (ids ((ind :: nil) ++ acc :: (ws :: nil) ++ (num :: nil) ++ nil ++ cur :: eol :: nl :: nil)) /\
  RepeatedProofs.shows true cur = true /\
  Fields.remove_node Fields.SLeft (ind :: acc :: ws :: num :: cur :: eol :: nl :: nil) 2%Z (4, 4)%Z
  = (ind :: acc :: ws :: cur :: eol :: nl :: nil, Prelude.Ok tt).
Proof.
  split; [|split; vm_compute; reflexivity].
  repeat constructor; simpl; intuition congruence.
Qed.

(* (e) repeated fields next to a glued item (RepeatedNodeWrapper._del_tokens, as repaired by
   fixes/repeated-remove-keeps-separator-when-glued.patch; was the known finding C06:list-item-removed-next-to-glued-item).
   Sep is a HYPOTHESIS of C06_sep_delete, and a parsed document need not meet it - `custom "x" 1 "s"2` has no separator
   between "s" and 2.  Deleting "s" (raw_values.pop(1)) used to remove its gap and its body, and `1` and `2` - apart
   before - were adjacent tokens afterwards (they lex as `12`).  Now: under the layout invariant alone, when the cells
   M = m0 :: M' are deleted behind a cell a and in front of a cell b0, and RepeatedProofs.keep_gap holds (the gap of m0
   is not empty, all blank, and the nearest token with text behind the window shows a character that has to be kept
   apart - RepeatedProofs.shows, see C06_keep_gap_shows), the gap of m0 stays in front of b0: whatever kept m0 apart
   from the item before it now keeps b0 apart from it - no hypothesis on the gap of b0. *)
Theorem C06_delete_glued_keeps_gap : forall seps ph pre pht a A m0 M' b0 B' post,
  WF ph pre pht ((a :: A) ++ (m0 :: M') ++ b0 :: B') post ->
  RepeatedProofs.keep_gap (c_gap m0) (flat (b0 :: B') ++ post) = true ->
  exists c,
    (del_tokens ph (lay pre pht ((a :: A) ++ (m0 :: M') ++ b0 :: B') post)
               (map item_of ((a :: A) ++ (m0 :: M') ++ b0 :: B')) (Prelude.zlen (a :: A)) (Prelude.zlen (a :: A) + Prelude.zlen (m0 :: M'))%Z
     = (lay pre pht ((a :: A) ++ c :: B') post, Prelude.Ok tt)) /\
    c_body c = c_body b0 /\ c_gap c = c_gap m0 ++ c_gap b0 /\
    c_gap m0 <> [] /\ forallb blank_tok (c_gap m0) = true /\
    (vis (c_gap m0) = true -> vis (c_gap c) = true) /\
    (gap_ok seps m0 -> gap_ok seps c).
Proof. exact del_glued_keeps_gap. Qed.

(* keep_gap in terms of RepeatedProofs.shows: zero-width tokens Z skipped, the nearest token n with text behind the
   window shows (as its first character) something that is neither blank nor a bracket *)
Theorem C06_keep_gap_shows : forall g G Z n Q,
  Forall (fun t => ttext t = nil) Z -> RepeatedProofs.shows true n = true -> forallb blank_tok (g :: G) = true ->
  RepeatedProofs.keep_gap (g :: G) (Z ++ n :: Q) = true.
Proof. exact keep_gap_shows. Qed.

(* non-vacuity, on the input of the former finding: `"x" <ph> 1 "s"2` + LF, delete item 1 (`"s"`): the blank in front
   of it (token 5) stays, the result prints `"x" 1 2`; layout before and after; Sep does not hold before. *)
Example C06_delete_keeps_blank_before_glued_item :
  (RepeatedLayout.layout_b 2 glued_doc glued_items = true /\
  (exists pre pht a m b post, glued_doc = lay pre pht [a; m; b] post /\ vis (c_gap m) = true /\ c_gap b = [] /\
     ~ Sep [(KWhitespace, [32])] [(KWhitespace, [32])] [a; m; b] /\
     RepeatedProofs.keep_gap (c_gap m) (flat [b] ++ post) = true) /\
  fst (del_tokens 2 glued_doc glued_items 1 2) =
    [mktok 1 KOther [34;120;34]; mktok 2 KPlaceholder []; mktok 3 KWhitespace [32]; mktok 4 KOther [49];
     mktok 5 KWhitespace [32]; mktok 7 KOther [50]; mktok 8 KNewline [10]] /\
  snd (del_tokens 2 glued_doc glued_items 1 2) = Prelude.Ok tt /\
  RepeatedLayout.layout_b 2 (fst (del_tokens 2 glued_doc glued_items 1 2)) [(4, 4); (7, 7)] = true)%Z.
Proof. exact del_keeps_blank_before_glued_item. Qed.
