(* C09 - a value written through a property is the value read back, siblings unaffected.
   Statements only; the proofs are in CostProofs.v.  Models: Cost.v (CostSpec), Txn.v (payee/narration,
   plain optional value properties).  Cost.v transcribes cost_spec.py *with*
   fixes/costspec-raw-setter-atomic.patch (statement order of the raw setters) and
   fixes/costspec-currency-onto-number.patch (D11); C09_cost_unrepaired_refuted is the witness that
   the code before the patch does not satisfy C09_cost_sequences. *)
From AB Require Import Prelude Cost Txn CostProofs.

(* -- cost group: number_per / number_total / currency (+ date, label, merge) ---------------------
   For every state with at most one amount-like component and at most one date, label, asterisk,
   in any order and among any other components (Normal), one assignment through a value property
   acts on the six getters exactly like the assignment on the record of optionals, which refuses
   (ValueError) exactly the records with both numbers and no currency; the result is Normal again;
   a refused assignment leaves the whole concrete state unchanged. *)
Theorem C09_cost_refines : forall s o s' r, Normal s -> apply s o = (s', r) ->
  Normal s' /\ (abs s', r) = sp_apply (abs s) o /\ (forall e, r = Err e -> s' = s).
Proof. exact apply_refines. Qed.

(* lifted to every assignment sequence (refused assignments are caught and the sequence goes on) *)
Theorem C09_cost_sequences : forall ops s s' rs, Normal s -> run s ops = (s', rs) ->
  Normal s' /\ (abs s', rs) = sp_run (abs s) ops.
Proof. exact run_refines. Qed.

(* read-back and frame, spelled out: after an accepted assignment the assigned getter returns v and
   the five others return what they returned before *)
Theorem C09_cost_get_set_frame : forall s o s', Normal s -> apply s o = (s', Ok tt) ->
  abs s' = sp_assign (abs s) o.
Proof. exact assign_ok. Qed.

(* the documented rejections, and only those *)
Theorem C09_cost_accepted_iff_valid : forall s o, Normal s ->
  (exists s', apply s o = (s', Ok tt)) <-> sp_valid (sp_assign (abs s) o) = true.
Proof. exact accepted_iff_valid. Qed.

Theorem C09_cost_refusal_atomic : forall s o s' e, Normal s -> apply s o = (s', Err e) ->
  e = ValueError /\ s' = s /\ sp_valid (sp_assign (abs s) o) = false.
Proof. exact refusal. Qed.

(* raw-level assignment (`cost.raw_number_per = node`, ...) of a free node (fresh or a deep copy):
   the same refinement *)
Theorem C09_cost_raw_refines : forall s r v s' x, Normal s -> rapply s r v false = (s', x) ->
  Normal s' /\ (abs s', x) = sp_apply (abs s) (cop_of r v) /\ (forall e, x = Err e -> s' = s).
Proof. exact rapply_refines. Qed.

(* raw-level assignment of a node that is attached elsewhere: refused with ValueError by all three
   setters from every state (normal or not), and nothing has been written (C19 for this file; the
   statement order is that of fixes/costspec-raw-setter-atomic.patch; the D11 branch does not matter) *)
Theorem C09_cost_raw_refusal_atomic : forall fixed s r v s' x,
  rapply_gen fixed false s r (Some v) true = (s', x) -> x = Err ValueError /\ s' = s.
Proof. exact raw_refusal_atomic. Qed.

(* before that patch: `{{1 USD}}`, raw_number_per = attached node -> ValueError, but the braces are {} *)
Theorem C09_cost_raw_unrepaired_refuted : exists s r v s' x,
  Normal s /\ rapply_gen true true s r (Some v) true = (s', x) /\ x = Err ValueError /\ s' <> s.
Proof. exact raw_late_refuted. Qed.

(* whole-field assignment `cost_spec.raw_cost = cost` of a free cost: the state is the assigned cost,
   so the getters, and every later assignment sequence, are those of the assigned cost; an attached
   cost is refused with nothing written.  (The model has no component cache; that the code has none
   either is what the correspondence checks after every whole-cost step.) *)
Theorem C09_cost_whole_assignment : forall s c ops s' rs, Normal c ->
  set_raw_cost false s c = (c, Ok tt) /\
  (run c ops = (s', rs) -> Normal s' /\ (abs s', rs) = sp_run (abs c) ops).
Proof. exact whole_assignment. Qed.

Theorem C09_cost_whole_assignment_refused : forall s c, set_raw_cost true s c = (s, Err ValueError).
Proof. exact whole_assignment_refused. Qed.

(* Known finding C09:cost:separate-number-currency-components.  The parser also accepts a bare number
   and a bare currency as two components (`{12.34, USD}`; not a valid beancount cost: "duplicate cost").
   That shape is outside Normal, and there the setters do lose a value: `{1, C}`, number_total = 5
   gives `{{5 C, 1}}` and number_per reads None.  All theorems above assume Normal, which excludes it. *)
Theorem C09_cost_non_normal_refuted : exists s ops,
  separate_b s = true /\ abs (fst (run s ops)) <> fst (sp_run (abs s) ops).
Proof. exact non_normal_refuted. Qed.

(* Known finding C09:cost:duplicate-components: the other shapes outside Normal that the parser produces
   (a repeated date, label, asterisk, number or currency): the setters act on the first one only and
   the getter then reads the second. *)
Theorem C09_cost_duplicates_refuted :
  Forall (fun c : cost * list cop =>
            normal_b (fst c) = false /\ abs (fst (run (fst c) (snd c))) <> fst (sp_run (abs (fst c)) (snd c)))
    [ (mkcost Unit [KDate 1; KDate 2], [ODate None]);
      (mkcost Unit [KAsterisk; KAsterisk], [OMerge false]);
      (mkcost Unit [KLabel 1; KLabel 2], [OLabel None]);
      (mkcost Unit [KNumber 1; KNumber 2], [OPer None]);
      (mkcost Total [KCurrency 1; KCurrency 2], [OCur None]) ].
Proof. exact duplicates_refuted. Qed.

Theorem C09_cost_separate_not_normal : forall s, separate_b s = true -> normal_b s = false.
Proof. exact separate_not_normal. Qed.

(* from_value produces a normal state reading back its arguments, or refuses an invalid record *)
Theorem C09_cost_from_value : forall p t c d l m,
  match from_value p t c d l m with
  | Ok s => Normal s /\ abs s = mkspec p t c d l m
  | Err e => e = ValueError /\ sp_valid (mkspec p t c d l m) = false
  end.
Proof. exact from_value_refines. Qed.

(* D11: `{1}`, currency = c, number_total = t on the code before the repair loses number_per.
   This documents the code before repo commit ecb3422 (apply_gen false); no tree tested today has it. *)
Theorem C09_cost_unrepaired_refuted : exists s ops,
  Normal s /\ abs (fst (run_gen false s ops)) <> fst (sp_run (abs s) ops).
Proof. exact unrepaired_refuted. Qed.

(* non-vacuity: every listed initial concrete form is Normal (values are arbitrary codes) *)
Example C09_forms_normal :
  Forall Normal
    [ mkcost Unit []; mkcost Total [];
      mkcost Unit [KNumber 1]; mkcost Total [KNumber 1];
      mkcost Unit [KCurrency 2]; mkcost Total [KCurrency 2];
      mkcost Unit [KAmount 1 2]; mkcost Total [KAmount 1 2];
      mkcost Unit [KCompound (Some 1) (Some 3) 2]; mkcost Unit [KCompound None (Some 3) 2];
      mkcost Unit [KCompound (Some 1) None 2]; mkcost Unit [KCompound None None 2];
      mkcost Total [KCompound (Some 1) (Some 3) 2];
      mkcost Unit [KDate 4; KAmount 1 2; KAsterisk; KLabel 5];
      mkcost Total [KAsterisk; KLabel 5; KNumber 1; KDate 4];
      mkcost Unit [KLabel 5; KDate 4; KAsterisk] ].
Proof. repeat constructor. Qed.

(* non-vacuity: an accepted, a form-changing and a refused assignment all occur *)
Example C09_cost_example :
  run (mkcost Total [KDate 4; KNumber 1]) [OPer (Some 9); OCur (Some 2); OPer (Some 9); OCur None; ODate None]
  = (mkcost Unit [KCompound (Some 9) (Some 1) 2],
     [Err ValueError; Ok tt; Ok tt; Err ValueError; Ok tt]).
Proof. reflexivity. Qed.

(* -- payee / narration ----------------------------------------------------------------------------- *)
(* every parse result satisfies the invariant (string0 never produced; lone string is the narration) *)
Theorem C09_txn_parse_inv : forall s1 s2, TInv (from_parsed None s1 s2).
Proof. exact from_parsed_inv. Qed.

(* any assignment sequence on payee / narration equals the pair-of-optionals model with the
   "payee present => narration present (defaulting to '')" rule, from every parsed form *)
Theorem C09_txn_sequences : forall ops t, TInv t ->
  TInv (trun t ops) /\ tabs (trun t ops) = ts_run (tabs t) ops.
Proof. exact trun_refines. Qed.

Theorem C09_txn_payee_implies_narration : forall t, TInv t -> raw_payee t <> None -> raw_narration t <> None.
Proof. exact tinv_payee_narration. Qed.

(* print + parse (the lone-string swap of from_parsed_children) gives back the same slots *)
Theorem C09_txn_reparse_stable : forall t, TInv t -> reparse t = t.
Proof. exact reparse_stable. Qed.

Example C09_txn_example :
  tabs (trun (from_parsed None (Some 5) None) [OPayee (Some 7); ONarration None; OPayee None; ONarration None])
  = mktspec None None.
Proof. reflexivity. Qed.

(* -- value properties (required_value_property, optional_{string,indented_string,decimal,date}_property)
   over a record of independent slots, the slot's token codec (fmt = from_value/_format_value,
   parse = _parse_value) being a parameter; each slot holds a node with identity and text. ---------- *)
(* read-back, incl. None: needs only that the slot's codec round-trips the assigned value (C12) *)
Theorem C09_get_set : forall (T : Type) (fmt : nat -> Z -> T) (parse : nat -> T -> Z) r i v,
  (i < length (vr_slots r))%nat -> (forall x, v = Some x -> parse i (fmt i x) = x) ->
  vget parse (opt_set fmt r i v) i = v.
Proof. exact opt_get_set. Qed.

(* frame: every other property keeps its node, identity and text *)
Theorem C09_frame : forall (T : Type) (fmt : nat -> Z -> T) r i j v, i <> j ->
  nth_error (vr_slots (opt_set fmt r i v)) j = nth_error (vr_slots r) j.
Proof. exact opt_frame. Qed.

(* the three-way branch of optional_*_property.__set__: update in place keeps the node, creation makes a
   fresh one *)
Theorem C09_optional_set_identity : forall (T : Type) (fmt : nat -> Z -> T) r i x,
  match nth_error (vr_slots r) i with
  | Some (Some n) => nth_error (vr_slots (opt_set fmt r i (Some x))) i = Some (Some (mkvnode (vn_id n) (fmt i x)))
  | Some None => nth_error (vr_slots (opt_set fmt r i (Some x))) i = Some (Some (mkvnode (vr_next r) (fmt i x)))
  | None => opt_set fmt r i (Some x) = r
  end.
Proof. exact opt_set_identity. Qed.

Theorem C09_required_get_set_frame : forall (T : Type) (fmt : nat -> Z -> T) (parse : nat -> T -> Z) r i x n,
  nth_error (vr_slots r) i = Some (Some n) -> parse i (fmt i x) = x ->
  let '(r', res) := req_set fmt r i x in
  res = Ok tt /\ vget parse r' i = Some x
  /\ nth_error (vr_slots r') i = Some (Some (mkvnode (vn_id n) (fmt i x)))
  /\ forall j, i <> j -> nth_error (vr_slots r') j = nth_error (vr_slots r) j.
Proof. exact req_get_set. Qed.

Example C09_get_set_example :
  vget (fun _ t => t - 100)
       (opt_set (fun _ x => x + 100) (mkvrec [Some (mkvnode 0 101); None; Some (mkvnode 1 103)] 2) 1%nat (Some 8)) 1%nat
  = Some 8.
Proof. reflexivity. Qed.

(* -- meta_value_internal.py: the `value` property of MetaItem (optional_meta_value_property.__get__/__set__,
   update_value, from_value) over the universe str | date | datetime | Decimal | bool | None | raw model, for every
   current content of the slot (absent, or any of the nine raw kinds).  Model MetaValue.v (the isinstance tests in the
   order of the `match` statements); tied per run by MetaValueRun.check_mcase/check_ucase/check_fcase
   (harness/c09.py: check_meta_value).  Codec round trips are C12's, the carrier laws those of C13_from_value_exact. -- *)
From AB Require MetaValue MetaValueProofs.

(* read-back: whatever the slot held, after `item.value = v` the property reads v (a datetime.datetime as its date,
   a raw EscapedString/Date/Bool/NumberExpr as its value, any other raw model as itself) *)
Theorem C09_meta_value_get_set :
  forall (D : Type) (dadd dsub dmul ddiv : D -> D -> D) (dneg dabs : D -> D) (dltz : D -> bool)
         (num_value : list Z -> D) (num_text : D -> list Z) (str_text str_value : list Z -> list Z)
         (date_text : MetaValue.date -> list Z) (date_value : list Z -> MetaValue.date)
         (bool_text : bool -> list Z) (bool_value : list Z -> bool),
  (forall s, str_value (str_text s) = s) -> (forall d, date_value (date_text d) = d) ->
  (forall b, bool_value (bool_text b) = b) -> (forall v, num_value (num_text (dabs v)) = dabs v) ->
  (forall v, dltz v = true -> dneg (dabs v) = v) -> (forall v, dltz v = false -> dabs v = v) ->
  forall slot v fresh det slot',
  MetaValue.set D dabs dltz num_text str_text date_text bool_text slot v fresh det = (slot', Ok tt) ->
  MetaValue.get D dadd dsub dmul ddiv dneg num_value str_value date_value bool_value slot'
  = MetaValueProofs.read_back D dadd dsub dmul ddiv dneg num_value str_value date_value bool_value v.
Proof. exact MetaValueProofs.get_set. Qed.

(* in place iff same kind: a matching (raw model, value) pair keeps the object in the slot and rewrites its
   content only; otherwise the slot receives from_value(v): a new object / nothing / the very raw model *)
Theorem C09_meta_value_in_place_iff :
  forall (D : Type) (dabs : D -> D) (dltz : D -> bool) (num_text : D -> list Z) (str_text : list Z -> list Z)
         (date_text : MetaValue.date -> list Z) (bool_text : bool -> list Z) slot v fresh det slot',
  MetaValue.set D dabs dltz num_text str_text date_text bool_text slot v fresh det = (slot', Ok tt) ->
  if MetaValueProofs.kinds_match D slot v
  then exists m, slot = Some m /\
       slot' = Some (MetaValue.RM (MetaValue.rm_id m)
                       (MetaValue.content_of D dabs dltz num_text str_text date_text bool_text v))
  else slot' = MetaValue.from_value D dabs dltz num_text str_text date_text bool_text fresh v /\
       match v with
       | MetaValue.MNone => slot' = None
       | MetaValue.MRaw r => slot' = Some r
       | _ => slot' = Some (MetaValue.RM fresh (MetaValue.content_of D dabs dltz num_text str_text date_text bool_text v))
       end.
Proof. exact MetaValueProofs.set_in_place_iff. Qed.

Theorem C09_meta_value_raw_stored :
  forall (D : Type) (dabs : D -> D) (dltz : D -> bool) (num_text : D -> list Z) (str_text : list Z -> list Z)
         (date_text : MetaValue.date -> list Z) (bool_text : bool -> list Z) slot r fresh,
  MetaValue.set D dabs dltz num_text str_text date_text bool_text slot (MetaValue.MRaw r) fresh true = (Some r, Ok tt).
Proof. exact MetaValueProofs.set_raw_stores. Qed.

Theorem C09_meta_value_none_clears :
  forall (D : Type) (dabs : D -> D) (dltz : D -> bool) (num_text : D -> list Z) (str_text : list Z -> list Z)
         (date_text : MetaValue.date -> list Z) (bool_text : bool -> list Z) slot fresh det,
  MetaValue.set D dabs dltz num_text str_text date_text bool_text slot MetaValue.MNone fresh det = (None, Ok tt).
Proof. exact MetaValueProofs.set_none_clears. Qed.

(* the only refusal: a raw model that lives elsewhere and is not the one already in the slot; nothing changes *)
Theorem C09_meta_value_refused :
  forall (D : Type) (dabs : D -> D) (dltz : D -> bool) (num_text : D -> list Z) (str_text : list Z -> list Z)
         (date_text : MetaValue.date -> list Z) (bool_text : bool -> list Z) slot v fresh det slot' e,
  MetaValue.set D dabs dltz num_text str_text date_text bool_text slot v fresh det = (slot', Err e) ->
  slot' = slot /\ e = ValueError /\ det = false /\
  exists r, v = MetaValue.MRaw r /\ (forall m, slot = Some m -> MetaValue.rm_id m <> MetaValue.rm_id r).
Proof. exact MetaValueProofs.set_refused. Qed.
Theorem C09_meta_value_total :
  forall (D : Type) (dabs : D -> D) (dltz : D -> bool) (num_text : D -> list Z) (str_text : list Z -> list Z)
         (date_text : MetaValue.date -> list Z) (bool_text : bool -> list Z) slot v fresh det,
  (match v with
   | MetaValue.MRaw r => det = true \/ exists m, slot = Some m /\ MetaValue.rm_id m = MetaValue.rm_id r
   | _ => True end) ->
  exists slot', MetaValue.set D dabs dltz num_text str_text date_text bool_text slot v fresh det = (slot', Ok tt).
Proof. exact MetaValueProofs.set_total. Qed.

(* full read-back is false for datetime.datetime: it is a datetime.date for `case datetime.date()`, only its date is
   written *)
Theorem C09_meta_value_datetime_refuted :
  forall (D : Type) (dadd dsub dmul ddiv : D -> D -> D) (dneg dabs : D -> D) (dltz : D -> bool)
         (num_value : list Z -> D) (num_text : D -> list Z) (str_text str_value : list Z -> list Z)
         (date_text : MetaValue.date -> list Z) (date_value : list Z -> MetaValue.date)
         (bool_text : bool -> list Z) (bool_value : list Z -> bool),
  (forall s, str_value (str_text s) = s) -> (forall d, date_value (date_text d) = d) ->
  (forall b, bool_value (bool_text b) = b) -> (forall v, num_value (num_text (dabs v)) = dabs v) ->
  (forall v, dltz v = true -> dneg (dabs v) = v) -> (forall v, dltz v = false -> dabs v = v) ->
  forall d t slot fresh,
  MetaValue.get D dadd dsub dmul ddiv dneg num_value str_value date_value bool_value
    (fst (MetaValue.set D dabs dltz num_text str_text date_text bool_text slot (MetaValue.MDateTime d t) fresh true))
  <> MetaValue.MDateTime d t.
Proof. exact MetaValueProofs.get_set_datetime_refuted. Qed.

(* non-vacuity (carrier Z, identity codecs): a Bool slot assigned a bool keeps its object 7; assigned a string it
   gets the new object 99 *)
Example C09_meta_value_example :
  let set := MetaValue.set Z Z.abs (fun z => Z.ltb z 0) (fun z => [z]) (fun s => s) (fun d => [fst (fst d)]) (fun b => [if b then 1 else 0]) in
  set (Some (MetaValue.RM 7 (MetaValue.RBool [0]))) (MetaValue.MBool true) 99 true
    = (Some (MetaValue.RM 7 (MetaValue.RBool [1])), Ok tt) /\
  set (Some (MetaValue.RM 7 (MetaValue.RBool [0]))) (MetaValue.MStr [5]) 99 true
    = (Some (MetaValue.RM 99 (MetaValue.RString [5])), Ok tt) /\
  set (Some (MetaValue.RM 7 (MetaValue.RBool [0]))) (MetaValue.MRaw (MetaValue.RM 8 (MetaValue.RTag [3]))) 99 false
    = (Some (MetaValue.RM 7 (MetaValue.RBool [0])), Err ValueError).
Proof. repeat split. Qed.
