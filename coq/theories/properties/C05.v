From AB Require Import Desc Generated GeneratedWf.
From AB Require Import Tree TreeDefs TreeProofs TreeProofs2 TreeProofs3 TreeProofs4 TreeRun TreeFacts.
From Coq Require Import ZArith List Bool.
Import ListNotations.

Theorem C05_generated_classes_wf : forall c, In c classes -> wf_desc c = true.
Proof. exact generated_wf_each. Qed.
Theorem C05_classes_ok_generated : classes_ok classes.
Proof. exact classes_ok_generated. Qed.
Theorem C05_classes_ok_all : classes_ok all_classes.
Proof. exact classes_ok_all. Qed.
(* every extracted class declares a non-optional field *)
Theorem C05_classes_anchored_all : classes_anchored all_classes.
Proof. exact classes_anchored_all. Qed.

(* after reattach(store) every model reachable from the node (incl. Repeated) lives in that store:
   needs the scheme (_reattach covers every declared field and sets _token_store) *)
Theorem C05_reattach_sids : forall cs new, classes_ok cs -> forall a, conforms cs a = true ->
  forall s, In s (sids (reattach cs new a)) -> s = new.
Proof. exact reattach_sids. Qed.
(* ... and really depends on it: with a _reattach that skips one declared field a child stays in
   the old store *)
Theorem C05_reattach_sids_needs_scheme :
  conforms [bad_reattach_cls] bad_reattach_node = true
  /\ wf_tree bad_reattach_cls = false
  /\ In 0%Z (sids (reattach [bad_reattach_cls] 7 bad_reattach_node)).
Proof. exact reattach_sids_needs_wf. Qed.
(* reattach changes no token: same leaves, same token list, same type (any node, any classes) *)
Theorem C05_reattach_leaves : forall cs new a, leaves (reattach cs new a) = leaves a.
Proof. exact reattach_leaves. Qed.
Theorem C05_reattach_toks : forall cs new a, node_toks (reattach cs new a) = node_toks a.
Proof. exact reattach_toks. Qed.
Theorem C05_reattach_type : forall cs new a, node_type (reattach cs new a) = node_type a.
Proof. exact reattach_type. Qed.

(* first_token / last_token of a conforming node always exist and are leaves of that node *)
Theorem C05_border_total : forall cs, classes_ok cs -> classes_anchored cs ->
  forall n fuel sd, (depth n < fuel)%nat -> conforms cs n = true ->
  exists t, border cs fuel sd n = Some t /\ In t (leaves n).
Proof. exact border_total. Qed.
(* a re-attached node (what pop() + insertion produce) is again a conforming tree, and its
   first/last token are leaves of the node *)
Theorem C05_reattach_conforms : forall cs new a,
  conforms cs a = true -> conforms cs (reattach cs new a) = true.
Proof. exact reattach_conforms. Qed.
Theorem C05_reattach_border : forall cs new, classes_ok cs -> classes_anchored cs ->
  forall n fuel sd, (depth (reattach cs new n) < fuel)%nat -> conforms cs n = true ->
  exists t, border cs fuel sd (reattach cs new n) = Some t /\ In t (leaves n).
Proof. exact reattach_border_total. Qed.

Example C05_hyps :
  conforms classes ex_open = true /\ conforms all_classes ex_open_num = true
  /\ depth ex_open_num = 5%nat
  /\ sids ex_open_num = [0; 0; 0; 0; 0; 0; 0; 0]%Z
  /\ sids (reattach all_classes 7 ex_open_num) = [7; 7; 7; 7; 7; 7; 7; 7]%Z
  /\ option_map k_id (border all_classes 64 SFirst ex_open_num) = Some 1%Z
  /\ option_map k_id (border all_classes 64 SLast ex_open_num) = Some 23%Z.
Proof. vm_compute. auto 10. Qed.
