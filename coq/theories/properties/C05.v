From AB Require Import Desc Generated GeneratedWf.
From AB Require Import Tree TreeDefs TreeProofs TreeProofs2 TreeProofs3 TreeProofs4 TreeWF TreeWFProofs TreeRun TreeFacts.
From AB Require Import Construct ConstructProofs ConstructWF TreeEdit TreeEditProofs TreeEditProofs2 TreeEditFacts.
From Coq Require Import ZArith List Bool.
Import ListNotations.

Theorem C05_generated_classes_wf : forall c, In c classes -> wf_desc c = true.
Proof. exact generated_wf_each. Qed.
Theorem C05_classes_ok_generated : classes_ok classes.
Proof. exact classes_ok_generated. Qed.
Theorem C05_classes_ok_all : classes_ok all_classes.
Proof. exact classes_ok_all. Qed.
(* every extracted class declares a non-optional field *)
Theorem C05_classes_anchored_all : classes_anchored all_classes.
Proof. exact classes_anchored_all. Qed.

(* after reattach(store) every model reachable from the node (incl. Repeated) lives in that store:
   needs the scheme (_reattach covers every declared field and sets _token_store) *)
Theorem C05_reattach_sids : forall cs new, classes_ok cs -> forall a, conforms cs a = true ->
  forall s, In s (sids (reattach cs new a)) -> s = new.
Proof. exact reattach_sids. Qed.
(* ... and really depends on it: with a _reattach that skips one declared field a child stays in
   the old store *)
Theorem C05_reattach_sids_needs_scheme :
  conforms [bad_reattach_cls] bad_reattach_node = true
  /\ wf_tree bad_reattach_cls = false
  /\ In 0%Z (sids (reattach [bad_reattach_cls] 7 bad_reattach_node)).
Proof. exact reattach_sids_needs_wf. Qed.
(* reattach changes no token: same leaves, same token list, same type (any node, any classes) *)
Theorem C05_reattach_leaves : forall cs new a, leaves (reattach cs new a) = leaves a.
Proof. exact reattach_leaves. Qed.
Theorem C05_reattach_toks : forall cs new a, node_toks (reattach cs new a) = node_toks a.
Proof. exact reattach_toks. Qed.
Theorem C05_reattach_type : forall cs new a, node_type (reattach cs new a) = node_type a.
Proof. exact reattach_type. Qed.

(* first_token / last_token of a conforming node always exist and are leaves of that node *)
Theorem C05_border_total : forall cs, classes_ok cs -> classes_anchored cs ->
  forall n fuel sd, (depth n < fuel)%nat -> conforms cs n = true ->
  exists t, border cs fuel sd n = Some t /\ In t (leaves n).
Proof. exact border_total. Qed.
(* a re-attached node (what pop() + insertion produce) is again a conforming tree, and its
   first/last token are leaves of the node *)
Theorem C05_reattach_conforms : forall cs new a,
  conforms cs a = true -> conforms cs (reattach cs new a) = true.
Proof. exact reattach_conforms. Qed.
Theorem C05_reattach_border : forall cs new, classes_ok cs -> classes_anchored cs ->
  forall n fuel sd, (depth (reattach cs new n) < fuel)%nat -> conforms cs n = true ->
  exists t, border cs fuel sd (reattach cs new n) = Some t /\ In t (leaves n).
Proof. exact reattach_border_total. Qed.

Example C05_hyps :
  conforms classes ex_open = true /\ conforms all_classes ex_open_num = true
  /\ depth ex_open_num = 5%nat
  /\ sids ex_open_num = [0; 0; 0; 0; 0; 0; 0; 0]%Z
  /\ sids (reattach all_classes 7 ex_open_num) = [7; 7; 7; 7; 7; 7; 7; 7]%Z
  /\ option_map k_id (border all_classes 64 SFirst ex_open_num) = Some 1%Z
  /\ option_map k_id (border all_classes 64 SLast ex_open_num) = Some 23%Z.
Proof. vm_compute. auto 10. Qed.

(* ---- the C05 statement itself: TreeWF.WF (store membership, spans from first to last token, children
   nested in order without visible overlap, leaves = the significant tokens, no token twice) ------- *)
(* the checker the harness evaluates on every dumped implementation state (TreeRun.TWf) is sound *)
Theorem C05_wf_b_sound : forall cs n, wf_b cs n = true -> WF cs n.
Proof. exact wf_b_sound. Qed.
Theorem C05_whole_store_b_sound : forall n store, whole_store_b n store = true -> whole_store n store.
Proof. exact whole_store_b_sound. Qed.
(* re-attaching a well-formed tree to another store gives a well-formed tree in that store *)
Theorem C05_reattach_wf : forall cs new, classes_ok cs ->
  forall a, conforms cs a = true -> WF cs a -> WF cs (reattach cs new a).
Proof. exact reattach_WF. Qed.
(* a copy through a token map that keeps rule/text and does not identify two tokens is well-formed *)
Theorem C05_clone_wf : forall cs new f, classes_ok cs ->
  (forall t, k_rule (f t) = k_rule t /\ k_text (f t) = k_text t) ->
  forall a, conforms cs a = true ->
  (forall t t', In t (node_toks a) -> In t' (node_toks a) -> k_id (f t) = k_id (f t') -> k_id t = k_id t') ->
  WF cs a -> WF cs (clone cs new f a).
Proof. exact clone_WF. Qed.
(* WF => every model reachable from the root lives in the root's store *)
Theorem C05_wf_sids : forall cs a, WF cs a -> forall s, In s (sids a) -> s = root_sid a.
Proof. exact WF_sids. Qed.
(* a self-contained tree prints exactly the text of its store *)
Theorem C05_whole_store_text : forall n store,
  whole_store n store -> text_of store = text_of (node_toks n).
Proof. exact whole_store_text. Qed.

Example C05_wf_hyps :
  wf_b classes ex_open = true /\ wf_b all_classes ex_open_num = true
  /\ whole_store_b ex_open_num (node_toks ex_open_num) = true
  /\ forallb (fun t => forallb (fun t' => negb (k_id (ex_fresh t) =? k_id (ex_fresh t'))%Z || (k_id t =? k_id t')%Z)
                                (node_toks ex_open_num)) (node_toks ex_open_num) = true
  /\ wf_b all_classes (clone all_classes 9 ex_fresh ex_open_num) = true
  /\ wf_b all_classes (reattach all_classes 9 ex_open_num) = true.
Proof. vm_compute. auto 10. Qed.

(* a tree built by the generic from_children from well-formed free-standing arguments is well-formed
   (see properties/C15.v for the two run-level hypotheses) *)
Theorem C05_constructed_wf_partial : forall cs new mid, classes_ok cs -> forall c args data next store n,
  classes_anchored cs -> find_class cs (c_name c) = Some c -> wf_desc c = true -> NoDup (names c) ->
  args_all args (arg_good cs) ->
  construct cs new mid c args data next = Some (store, n) ->
  NoDup (ids store) -> node_toks n = store ->
  WF cs n.
Proof. exact constructed_wf. Qed.

(* ---- edits (TreeEdit.v): replacing a sub-tree ----------------------------------------------------------
   Invariant: HWF = every sub-node is WF as a tree on its own, with the children of every unit lying
   one after the other in its token list (`woven`: WF without the tolerance for permuted zero-width
   placeholders), and only the root may be a File. HWF implies WF; hwf_b is its sound checker
   (all implementation states dumped by the harness so far satisfy it). *)
Theorem C05_hwf_b_sound : forall cs root, hwf_b cs root = true -> HWF cs root.
Proof. exact hwf_b_sound. Qed.
Theorem C05_hwf_wf : forall cs n, HWF cs n -> WF cs n.
Proof. exact HWF_WF. Qed.

(* Context lemma. `plug root p new` replaces the sub-tree `old` selected by the path p (steps through
   required / present optional fields and into item i of repeated fields) and rewrites the token list of
   every ancestor, Repeated included (pre ++ toks old ++ post |-> pre ++ toks new ++ post). If new is
   itself HWF, ALREADY LIVES IN THE ROOT'S STORE (the hypothesis a forgotten reattach violates, see
   C05_replace_without_reattach_not_wf), is not a File, and its tokens are new objects, the result is
   HWF again; the root's token list changes exactly at old's infix; no other leaf changes. *)
Theorem C05_replace_subtree_wf : forall cs, classes_ok cs ->
  forall p root new root' old rsid,
  HWF cs root -> select root p = Some old -> plug root p new = Some root' ->
  HWF cs new -> exempt (UNode new) = false ->
  (forall c s T k d, new = Tree c s T k d -> s = rsid) -> (p <> [] -> root_sid root = rsid) ->
  (forall t t', In t (node_toks new) -> In t' (node_toks root) -> k_id t <> k_id t') ->
  HWF cs root' /\ WF cs root'
  /\ (exists pre post, node_toks root = pre ++ node_toks old ++ post
                       /\ node_toks root' = pre ++ node_toks new ++ post)
  /\ (forall t, In t (leaves root') -> In t (leaves root) \/ In t (node_toks new)).
Proof. exact replace_subtree. Qed.
(* without the re-attachment the result is not WF: any tree containing a model of another store *)
Theorem C05_foreign_store_not_wf : forall cs n s, In s (sids n) -> s <> root_sid n -> ~ WF cs n.
Proof. exact foreign_sid_not_WF. Qed.
Theorem C05_replace_without_reattach_not_wf :
  hwf_b all_classes ex_new_foreign = true /\ fresh_b ex_new_foreign ex_meta = true
  /\ match plug ex_meta ex_path ex_new_foreign with
     | Some r => ~ WF all_classes r
     | None => False end.
Proof. exact ex_foreign_not_WF. Qed.
Example C05_replace_hyps :
  hwf_b all_classes ex_meta = true /\ hwf_b all_classes ex_new_attached = true
  /\ exempt (UNode ex_new_attached) = false /\ root_sid ex_new_attached = root_sid ex_meta
  /\ fresh_b ex_new_attached ex_meta = true
  /\ select ex_meta ex_path = Some ex_old
  /\ match plug ex_meta ex_path ex_new_attached with
     | Some r => hwf_b all_classes r = true /\ conforms all_classes r = true
     | None => False end.
Proof. exact ex_edit_hyps. Qed.

Example C05_replace_hyps_deep :
  hwf_b all_classes ex_open_num = true /\ select ex_open_num ex_deep_path = Some ex_old
  /\ fresh_b ex_new_attached ex_open_num = true /\ root_sid ex_new_attached = root_sid ex_open_num
  /\ match plug ex_open_num ex_deep_path ex_new_attached with
     | Some r => hwf_b all_classes r = true /\ conforms all_classes r = true
                 /\ text_of (node_toks r) = text_of (node_toks ex_open_num)
     | None => False end.
Proof. exact ex_edit_hyps_deep. Qed.
