From AB Require Import Desc Generated GeneratedWf.
From AB Require Import Tree TreeDefs TreeProofs TreeProofs2 TreeProofs3 TreeProofs4 TreeWF TreeWFProofs TreeRun TreeFacts.
From AB Require Import Construct ConstructProofs ConstructWF TreeEdit TreeEditProofs TreeEditProofs2 TreeEditProofs3 TreeEditProofs4 TreeEditProofs5 TreeEditProofs6 TreeEditFacts ConstructFull.
From Coq Require Import ZArith List Bool.
Import ListNotations.

Theorem C05_generated_classes_wf : forall c, In c classes -> wf_desc c = true.
Proof. exact generated_wf_each. Qed.
Theorem C05_classes_ok_generated : classes_ok classes.
Proof. exact classes_ok_generated. Qed.
Theorem C05_classes_ok_all : classes_ok all_classes.
Proof. exact classes_ok_all. Qed.
(* every extracted class declares a non-optional field *)
Theorem C05_classes_anchored_all : classes_anchored all_classes.
Proof. exact classes_anchored_all. Qed.

(* after reattach(store) every model reachable from the node (incl. Repeated) lives in that store:
   needs the scheme (_reattach covers every declared field and sets _token_store) *)
Theorem C05_reattach_sids : forall cs new, classes_ok cs -> forall a, conforms cs a = true ->
  forall s, In s (sids (reattach cs new a)) -> s = new.
Proof. exact reattach_sids. Qed.
(* ... and really depends on it: with a _reattach that skips one declared field a child stays in
   the old store *)
Theorem C05_reattach_sids_needs_scheme :
  conforms [bad_reattach_cls] bad_reattach_node = true
  /\ wf_tree bad_reattach_cls = false
  /\ In 0%Z (sids (reattach [bad_reattach_cls] 7 bad_reattach_node)).
Proof. exact reattach_sids_needs_wf. Qed.
(* reattach changes no token: same leaves, same token list, same type (any node, any classes) *)
Theorem C05_reattach_leaves : forall cs new a, leaves (reattach cs new a) = leaves a.
Proof. exact reattach_leaves. Qed.
Theorem C05_reattach_toks : forall cs new a, node_toks (reattach cs new a) = node_toks a.
Proof. exact reattach_toks. Qed.
Theorem C05_reattach_type : forall cs new a, node_type (reattach cs new a) = node_type a.
Proof. exact reattach_type. Qed.

(* first_token / last_token of a conforming node always exist and are leaves of that node *)
Theorem C05_border_total : forall cs, classes_ok cs -> classes_anchored cs ->
  forall n fuel sd, (depth n < fuel)%nat -> conforms cs n = true ->
  exists t, border cs fuel sd n = Some t /\ In t (leaves n).
Proof. exact border_total. Qed.
(* a re-attached node (what pop() + insertion produce) is again a conforming tree, and its
   first/last token are leaves of the node *)
Theorem C05_reattach_conforms : forall cs new a,
  conforms cs a = true -> conforms cs (reattach cs new a) = true.
Proof. exact reattach_conforms. Qed.
Theorem C05_reattach_border : forall cs new, classes_ok cs -> classes_anchored cs ->
  forall n fuel sd, (depth (reattach cs new n) < fuel)%nat -> conforms cs n = true ->
  exists t, border cs fuel sd (reattach cs new n) = Some t /\ In t (leaves n).
Proof. exact reattach_border_total. Qed.

Example C05_hyps :
  conforms classes ex_open = true /\ conforms all_classes ex_open_num = true
  /\ depth ex_open_num = 5%nat
  /\ sids ex_open_num = [0; 0; 0; 0; 0; 0; 0; 0]%Z
  /\ sids (reattach all_classes 7 ex_open_num) = [7; 7; 7; 7; 7; 7; 7; 7]%Z
  /\ option_map k_id (border all_classes 64 SFirst ex_open_num) = Some 1%Z
  /\ option_map k_id (border all_classes 64 SLast ex_open_num) = Some 23%Z.
Proof. vm_compute. auto 10. Qed.

(* ---- the C05 statement itself: TreeWF.WF (store membership, spans from first to last token, children
   nested in order without visible overlap, leaves = the significant tokens, no token twice) ------- *)
(* the checker the harness evaluates on every dumped implementation state (TreeRun.TWf) is sound *)
Theorem C05_wf_b_sound : forall cs n, wf_b cs n = true -> WF cs n.
Proof. exact wf_b_sound. Qed.
Theorem C05_whole_store_b_sound : forall n store, whole_store_b n store = true -> whole_store n store.
Proof. exact whole_store_b_sound. Qed.
(* re-attaching a well-formed tree to another store gives a well-formed tree in that store *)
Theorem C05_reattach_wf : forall cs new, classes_ok cs ->
  forall a, conforms cs a = true -> WF cs a -> WF cs (reattach cs new a).
Proof. exact reattach_WF. Qed.
(* a copy through a token map that keeps rule/text and does not identify two tokens is well-formed *)
Theorem C05_clone_wf : forall cs new f, classes_ok cs ->
  (forall t, k_rule (f t) = k_rule t /\ k_text (f t) = k_text t) ->
  forall a, conforms cs a = true ->
  (forall t t', In t (node_toks a) -> In t' (node_toks a) -> k_id (f t) = k_id (f t') -> k_id t = k_id t') ->
  WF cs a -> WF cs (clone cs new f a).
Proof. exact clone_WF. Qed.
(* WF => every model reachable from the root lives in the root's store *)
Theorem C05_wf_sids : forall cs a, WF cs a -> forall s, In s (sids a) -> s = root_sid a.
Proof. exact WF_sids. Qed.
(* a self-contained tree prints exactly the text of its store *)
Theorem C05_whole_store_text : forall n store,
  whole_store n store -> text_of store = text_of (node_toks n).
Proof. exact whole_store_text. Qed.

Example C05_wf_hyps :
  wf_b classes ex_open = true /\ wf_b all_classes ex_open_num = true
  /\ whole_store_b ex_open_num (node_toks ex_open_num) = true
  /\ forallb (fun t => forallb (fun t' => negb (k_id (ex_fresh t) =? k_id (ex_fresh t'))%Z || (k_id t =? k_id t')%Z)
                                (node_toks ex_open_num)) (node_toks ex_open_num) = true
  /\ wf_b all_classes (clone all_classes 9 ex_fresh ex_open_num) = true
  /\ wf_b all_classes (reattach all_classes 9 ex_open_num) = true.
Proof. vm_compute. auto 10. Qed.

(* a tree built by the generic from_children from well-formed free-standing arguments is well-formed
   (see properties/C15.v for the two run-level hypotheses) *)
Theorem C05_constructed_wf_partial : forall cs new mid, classes_ok cs -> forall c args data next store n,
  classes_anchored cs -> find_class cs (c_name c) = Some c -> wf_desc c = true -> NoDup (names c) ->
  args_all args (arg_good cs) ->
  construct cs new mid c args data next = Some (store, n) ->
  NoDup (ids store) -> node_toks n = store ->
  WF cs n.
Proof. exact constructed_wf. Qed.

(* ---- edits (TreeEdit.v): replacing a sub-tree ----------------------------------------------------------
   Invariant: HWF = every sub-node is WF as a tree on its own, with the children of every unit lying
   one after the other in its token list (`woven`: WF without the tolerance for permuted zero-width
   placeholders), and only the root may be a File. HWF implies WF; hwf_b is its sound checker
   (all implementation states dumped by the harness so far satisfy it). *)
Theorem C05_hwf_b_sound : forall cs root, hwf_b cs root = true -> HWF cs root.
Proof. exact hwf_b_sound. Qed.
Theorem C05_hwf_wf : forall cs n, HWF cs n -> WF cs n.
Proof. exact HWF_WF. Qed.

(* Context lemma. `plug root p new` replaces the sub-tree `old` selected by the path p (steps through
   required / present optional fields and into item i of repeated fields) and rewrites the token list of
   every ancestor, Repeated included (pre ++ toks old ++ post |-> pre ++ toks new ++ post). If new is
   itself HWF, ALREADY LIVES IN THE ROOT'S STORE (the hypothesis a forgotten reattach violates, see
   C05_replace_without_reattach_not_wf), is not a File, and its tokens are new objects, the result is
   HWF again; the root's token list changes exactly at old's infix; no other leaf changes. *)
Theorem C05_replace_subtree_wf : forall cs, classes_ok cs ->
  forall p root new root' old rsid,
  HWF cs root -> select root p = Some old -> plug root p new = Some root' ->
  HWF cs new -> exempt (UNode new) = false ->
  (forall c s T k d, new = Tree c s T k d -> s = rsid) -> (p <> [] -> root_sid root = rsid) ->
  (forall t t', In t (node_toks new) -> In t' (node_toks root) -> k_id t <> k_id t') ->
  HWF cs root' /\ WF cs root'
  /\ (exists pre post, node_toks root = pre ++ node_toks old ++ post
                       /\ node_toks root' = pre ++ node_toks new ++ post)
  /\ (forall t, In t (leaves root') -> In t (leaves root) \/ In t (node_toks new)).
Proof. exact replace_subtree. Qed.
(* without the re-attachment the result is not WF: any tree containing a model of another store *)
Theorem C05_foreign_store_not_wf : forall cs n s, In s (sids n) -> s <> root_sid n -> ~ WF cs n.
Proof. exact foreign_sid_not_WF. Qed.
Theorem C05_replace_without_reattach_not_wf :
  hwf_b all_classes ex_new_foreign = true /\ fresh_b ex_new_foreign ex_meta = true
  /\ match plug ex_meta ex_path ex_new_foreign with
     | Some r => ~ WF all_classes r
     | None => False end.
Proof. exact ex_foreign_not_WF. Qed.
Example C05_replace_hyps :
  hwf_b all_classes ex_meta = true /\ hwf_b all_classes ex_new_attached = true
  /\ exempt (UNode ex_new_attached) = false /\ root_sid ex_new_attached = root_sid ex_meta
  /\ fresh_b ex_new_attached ex_meta = true
  /\ select ex_meta ex_path = Some ex_old
  /\ match plug ex_meta ex_path ex_new_attached with
     | Some r => hwf_b all_classes r = true /\ conforms all_classes r = true
     | None => False end.
Proof. exact ex_edit_hyps. Qed.

Example C05_replace_hyps_deep :
  hwf_b all_classes ex_open_num = true /\ select ex_open_num ex_deep_path = Some ex_old
  /\ fresh_b ex_new_attached ex_open_num = true /\ root_sid ex_new_attached = root_sid ex_open_num
  /\ match plug ex_open_num ex_deep_path ex_new_attached with
     | Some r => hwf_b all_classes r = true /\ conforms all_classes r = true
                 /\ text_of (node_toks r) = text_of (node_toks ex_open_num)
     | None => False end.
Proof. exact ex_edit_hyps_deep. Qed.

(* ---- edits on repeated fields (RepeatedNodeWrapper._insert_tokens / _del_tokens, one item) ---------------
   insert_item root p f i seps y: at the model selected by p, item y becomes item i of the repeated field f;
   its tokens and the separator tokens go after the previous item (placeholder when there is none), or - at
   index 0 of a non-empty list - in front of the old first item followed by the separators. If y is hereditarily
   well-formed, lives in the root's store, is not a File, the separators are insignificant tokens and all new
   tokens are new objects, the result is HWF (hence WF); the root's token list gains exactly those tokens in one
   place; no other leaf appears. *)
Theorem C05_insert_item : forall cs, classes_ok cs -> forall root p f i seps y root',
  HWF cs root -> insert_item root p f i seps y = Some root' ->
  sub_ok cs (root_sid root) y -> glue_ok seps -> NoDup (ids (seps ++ node_toks y)) ->
  (forall t t', In t (seps ++ node_toks y) -> In t' (node_toks root) -> k_id t <> k_id t') ->
  HWF cs root' /\ WF cs root'
  /\ (exists pre post Mnew, (Mnew = seps ++ node_toks y \/ Mnew = node_toks y ++ seps)
        /\ node_toks root = pre ++ [] ++ post /\ node_toks root' = pre ++ Mnew ++ post)
  /\ (forall t, In t (leaves root') -> In t (leaves root) \/ In t (seps ++ node_toks y)).
Proof. exact insert_item_ok. Qed.
(* remove_item (pop / __delitem__ of one item): the item leaves with the separators before it (after it when it
   is the first of several); what remains is HWF/WF, the removed item is itself HWF, no leaf appears. *)
Theorem C05_remove_item : forall cs, classes_ok cs -> forall root p f i x root',
  HWF cs root -> remove_item root p f i = Some (x, root') ->
  HWF cs root' /\ WF cs root' /\ HWF cs x /\ exempt (UNode x) = false
  /\ (exists pre g post Mold, (Mold = g ++ node_toks x \/ Mold = node_toks x ++ g)
        /\ node_toks root = pre ++ Mold ++ post /\ node_toks root' = pre ++ [] ++ post)
  /\ (forall t, In t (leaves root') -> In t (leaves root)).
Proof. exact remove_item_ok. Qed.
(* an item that touches the item after it (`1 "s"2`, `#a ^l#b`; `keep` = _touches, evaluated by remove_item on the
   root's tokens: rep_touches) leaves WITHOUT the blanks in front of it: they stay between the previous unit and the
   next item. Without the touch they leave with the item. *)
Theorem C05_remove_item_keeps_gap : forall rs rt ph items i x a xa b,
  nth_error items i = Some x ->
  after_unit rt (prev_unit ph items i) = Some a -> first_off rt (node_toks x) = Some xa ->
  after_unit rt (node_toks x) = Some b ->
  S i < length items -> a < xa -> forallb blank_tk (slice rt a xa) = true ->
  rep_remove_A true rs rt ph items i
    = Some (x, SRep rs (firstn a rt ++ slice rt a xa ++ skipn b rt) ph (firstn i items ++ skipn (S i) items))
  /\ rep_remove_A false rs rt ph items i
    = Some (x, SRep rs (firstn a rt ++ skipn b rt) ph (firstn i items ++ skipn (S i) items))
  /\ (i <> 0 -> forall keep, rep_remove keep rs rt ph items i = rep_remove_A keep rs rt ph items i).
Proof. exact remove_item_keeps_gap. Qed.
Example C05_remove_item_keeps_gap_example :
  hwf_b all_classes ex_glued_custom = true
  /\ rep_touches ex_glued_custom ex_glued_custom "_values" 1%nat = true
  /\ rep_touches ex_glued_custom ex_glued_custom "_values" 2%nat = false
  /\ match remove_item ex_glued_custom [] "_values" 1%nat with
     | Some (x, r) => hwf_b all_classes r = true /\ map k_text (node_toks x) = ["""s"""]
                      /\ map k_text (node_toks r) = ["2000-01-01"; " "; "custom"; " "; """x"""; ""; " "; "1"; " "; "2"; " "; "3"; ""; ""]
     | None => False
     end
  /\ match remove_item ex_glued_custom [] "_values" 2%nat with
     | Some (x, r) => hwf_b all_classes r = true
                      /\ map k_text (node_toks r) = ["2000-01-01"; " "; "custom"; " "; """x"""; ""; " "; "1"; " "; """s"""; " "; "3"; ""; ""]
     | None => False
     end.
Proof. exact ex_glued_hyps. Qed.
(* pop(): the removed item, re-attached to a fresh store holding exactly its tokens, is a complete,
   self-contained well-formed tree; the tree it left stays well-formed *)
Theorem C05_pop_selfcontained : forall cs, classes_ok cs -> forall root p f i x root' fresh_store,
  HWF cs root -> remove_item root p f i = Some (x, root') -> conforms cs x = true ->
  let x' := reattach cs fresh_store x in
  HWF cs x' /\ WF cs x' /\ whole_store x' (node_toks x)
  /\ (forall s, In s (sids x') -> s = fresh_store)
  /\ leaves x' = leaves x
  /\ HWF cs root' /\ WF cs root'.
Proof. exact pop_selfcontained. Qed.

(* ---- histories: any sequence of (replace a sub-tree by a re-attached donor | insert a re-attached donor as
   an item | remove an item), at any paths, keeps the tree well-formed. A donor is a free-standing HWF,
   conforming tree that is not a File; its tokens (and the separators) are new to the tree. *)
Theorem C05_edit_step : forall cs, classes_ok cs -> forall a b, HWF cs a -> edit cs a b -> HWF cs b.
Proof. exact edit_HWF. Qed.
Theorem C05_history : forall cs, classes_ok cs -> forall a b, HWF cs a -> edits cs a b -> HWF cs b /\ WF cs b.
Proof. exact history_HWF. Qed.
(* the hypotheses are met: `USD, EUR` -> pop(0) -> `EUR` -> insert(1, fresh copy of USD) -> `EUR, USD` *)
Example C05_item_hyps :
  match ex_popped with
  | Some (x, r) =>
      hwf_b all_classes r = true /\ hwf_b all_classes x = true /\ conforms all_classes x = true
      /\ hwf_b all_classes (clone all_classes 0 ex_fresh x) = true
      /\ exempt (UNode (clone all_classes 0 ex_fresh x)) = false
      /\ forallb (fun t => negb (significant t)) ex_seps = true
      /\ ids_nodup_b (ex_seps ++ node_toks (clone all_classes 0 ex_fresh x)) = true
      /\ forallb (fun t => forallb (fun t' => negb (k_id t =? k_id t')%Z) (node_toks r))
                 (ex_seps ++ node_toks (clone all_classes 0 ex_fresh x)) = true
      /\ length (node_toks r) = (length (node_toks ex_open_num) - 3)%nat
  | None => False end
  /\ match ex_reinserted with
     | Some r2 => hwf_b all_classes r2 = true /\ conforms all_classes r2 = true
                  /\ length (node_toks r2) = length (node_toks ex_open_num)
     | None => False end.
Proof. exact ex_item_hyps. Qed.

(* ---- optional fields (optional_node_property.__set__ with optional_left_field / optional_right_field) ------------
   create_opt cs root p f seps y: at the model selected by p the empty optional slot f receives the child y. The
   pivot token is computed as the implementation computes it (the chain `_f_pivot` extracted from the source,
   c_pivots, evaluated on the children: the nearest present sibling); for a left field the separators and then
   y's tokens go right after the pivot, for a right field y's tokens and then the separators go right before it.
   remove_opt cuts everything between the pivot and the far end of the child - or the child alone when it touches what
   lies beyond it - and empties the slot.
   classes_pivots_ok: every class's extracted pivot chains are the ones of the generic scheme (part of wf_desc,
   C05_generated_classes_wf; C05_pivots_ok_all for the classes the harness evaluates with). *)
Theorem C05_pivots_ok_all : classes_pivots_ok all_classes.
Proof. exact classes_pivots_ok_all. Qed.
Theorem C05_create_optional : forall cs, classes_ok cs -> classes_pivots_ok cs -> forall root p f seps y root',
  HWF cs root -> create_opt cs root p f seps y = Some root' ->
  sub_ok cs (root_sid root) y -> glue_ok seps -> NoDup (ids (seps ++ node_toks y)) ->
  (forall t t', In t (seps ++ node_toks y) -> In t' (node_toks root) -> k_id t <> k_id t') ->
  HWF cs root' /\ WF cs root'
  /\ (exists pre post Mnew, (Mnew = seps ++ node_toks y \/ Mnew = node_toks y ++ seps)
        /\ node_toks root = pre ++ [] ++ post /\ node_toks root' = pre ++ Mnew ++ post)
  /\ (forall t, In t (leaves root') -> In t (leaves root) \/ In t (seps ++ node_toks y)).
Proof. exact create_opt_ok. Qed.
(* remove_opt (as repaired by fixes/optional-remove-keeps-separator-when-glued.patch): the child X leaves together with
   the tokens g between the pivot and the child - unless the child touches what lies beyond it (fields._touches,
   evaluated by TreeEdit.opt_touches): then g stays, so that the root's token list loses exactly one infix:
   g ++ X, X ++ g, or just X (= [] ++ X). When g stays and the owner of the field goes on beyond the child, g stays
   inside the owner (`Assets:Cash 10CAD`, number = None); when the child was the last / first thing of its owner
   (`@ 10 USD;c`, currency = None) g becomes a gap of the deepest ancestor that goes on beyond the pivot, and of the
   Repeated holding the path's item if that goes on beyond it too (TreeEdit.regap; TreeEditProofs6: gap_unit_ok,
   gap_item_ok, gap_at_ok). All cases are covered. *)
Theorem C05_remove_optional : forall cs, classes_ok cs -> classes_pivots_ok cs -> forall root p f x root',
  HWF cs root -> remove_opt cs root p f = Some (x, root') ->
  HWF cs root' /\ WF cs root' /\ HWF cs x /\ exempt (UNode x) = false
  /\ (exists pre g post Mold, (Mold = g ++ node_toks x \/ Mold = node_toks x ++ g)
        /\ node_toks root = pre ++ Mold ++ post /\ node_toks root' = pre ++ [] ++ post)
  /\ (forall t, In t (leaves root') -> In t (leaves root)).
Proof. exact remove_opt_ok. Qed.
(* the case where the separators stay outside the owner of the field is met: `    Assets:Cash 10 CAD @ 5 USD;c`,
   price.currency = None gives `... @ 5 ;c` (a dump of the real posting; opt_out = the blank that stays) *)
Example C05_remove_optional_regap_hyps :
  hwf_b all_classes ex_regap_posting = true
  /\ map k_text (opt_out all_classes ex_regap_posting [SField "_price"] "_currency") = [" "]
  /\ match remove_opt all_classes ex_regap_posting [SField "_price"] "_currency" with
     | Some (x, r) => hwf_b all_classes r = true
                      /\ map k_text (node_toks r) = ["    "; "Assets:Cash"; " "; "10"; " "; "CAD"; " "; "@"; " "; "5"; " "; ";c"; ""; ""]
                      /\ map k_text (node_toks x) = ["USD"]
     | None => False
     end.
Proof. exact ex_regap_hyps. Qed.
(* histories over all slot kinds: edit2 = edit (replace a sub-tree | insert an item | remove an item) + create the
   child of an empty optional slot from a re-attached donor + remove the child of an optional slot *)
Theorem C05_edit_step_all_slots : forall cs, classes_ok cs -> classes_pivots_ok cs ->
  forall a b, HWF cs a -> edit2 cs a b -> HWF cs b.
Proof. exact edit2_HWF. Qed.
Theorem C05_history_all_slots : forall cs, classes_ok cs -> classes_pivots_ok cs ->
  forall a b, HWF cs a -> edits2 cs a b -> HWF cs b /\ WF cs b.
Proof. exact history2_HWF. Qed.
(* the hypotheses are met: `USD, EUR ; hi` -> inline comment removed -> booking "STRICT" created (root level), and an
   inline comment created on the meta item (path through a repeated field); the first two as an edits2 history *)
Example C05_optional_hyps :
  match ex_opt_removed with
  | Some (x, r) =>
      hwf_b all_classes r = true /\ conforms all_classes r = true /\ hwf_b all_classes x = true
      /\ length (node_toks r) = (length (node_toks ex_open_num) - 2)%nat
      /\ hwf_b all_classes ex_booking = true /\ conforms all_classes ex_booking = true
      /\ exempt (UNode ex_booking) = false
      /\ forallb (fun t => negb (significant t)) ex_opt_seps = true
      /\ ids_nodup_b (ex_opt_seps ++ node_toks ex_booking) = true
      /\ fresh_list_b (ex_opt_seps ++ node_toks ex_booking) (node_toks r) = true
  | None => False end
  /\ match ex_opt_created with
     | Some r2 => hwf_b all_classes r2 = true /\ conforms all_classes r2 = true
                  /\ length (node_toks r2) = length (node_toks ex_open_num)
     | None => False end
  /\ match ex_opt_created_deep with
     | Some r3 => hwf_b all_classes r3 = true /\ conforms all_classes r3 = true
                  /\ length (node_toks r3) = (length (node_toks ex_open_num) + 2)%nat
     | None => False end.
Proof. exact ex_opt_hyps. Qed.
Example C05_history_all_slots_example : exists r2, edits2 all_classes ex_open_num r2
  /\ length (node_toks r2) = length (node_toks ex_open_num) /\ leaves r2 <> leaves ex_open_num.
Proof. exact ex_opt_history. Qed.

(* ---- construction closes the loop (ConstructFull.v): a model built by the generic from_children from admissible
   donors with fresh tokens is WF and complete in its own store, hereditarily well-formed, hence itself an admissible
   donor (any class but File); construct, insert somewhere, then any edit history: the C05 statement holds *)
Theorem C05_constructed_wf : forall cs new mid, classes_ok cs -> forall c args data next store n,
  classes_anchored cs -> find_class cs (c_name c) = Some c -> wf_desc c = true -> NoDup (names c) ->
  edges_ok c = true ->
  args_all args (arg_good cs) -> args_fresh args next ->
  construct cs new mid c args data next = Some (store, n) ->
  WF cs n /\ whole_store n store.
Proof. exact constructed_wf_full. Qed.
Theorem C05_constructed_hwf : forall cs new mid, classes_ok cs -> forall c args data next store n,
  classes_anchored cs -> find_class cs (c_name c) = Some c -> wf_desc c = true -> NoDup (names c) ->
  edges_ok c = true ->
  args_all args (donor cs) -> args_fresh args next ->
  construct cs new mid c args data next = Some (store, n) ->
  HWF cs n.
Proof. exact constructed_hwf. Qed.
Theorem C05_constructed_donor : forall cs new mid, classes_ok cs -> forall c args data next store n,
  classes_anchored cs -> find_class cs (c_name c) = Some c -> wf_desc c = true -> NoDup (names c) ->
  edges_ok c = true -> mem (c_name c) store_spanning = false ->
  args_all args (donor cs) -> args_fresh args next ->
  construct cs new mid c args data next = Some (store, n) ->
  donor cs n.
Proof. exact constructed_donor. Qed.
Theorem C05_construct_insert_history : forall cs new mid, classes_ok cs ->
  forall c args data next store y root p f i seps root' final,
  classes_anchored cs -> find_class cs (c_name c) = Some c -> wf_desc c = true -> NoDup (names c) ->
  edges_ok c = true -> mem (c_name c) store_spanning = false ->
  args_all args (donor cs) -> args_fresh args next ->
  construct cs new mid c args data next = Some (store, y) ->
  HWF cs root -> glue_ok seps -> NoDup (ids (seps ++ store)) -> fresh_for (seps ++ store) root ->
  insert_item root p f i seps (reattach cs (root_sid root) y) = Some root' ->
  edits cs root' final ->
  HWF cs final /\ WF cs final.
Proof. exact constructed_insert_history. Qed.
