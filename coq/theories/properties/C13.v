(* C13 - number expressions evaluate and compose like ordinary arithmetic.
   All statements are over ALL trees (any nesting, any spacing), all operands (int, Decimal, free or
   attached expression), all operator forms, all chains, and an ARBITRARY arithmetic carrier D
   (no algebraic law is used: D and its operations are interpreted by Python's decimal). *)
From AB Require Import Prelude NumExpr NumExprProofs.

(* precedence / associativity: the printed tokens of any tree, whatever the spacing, are parsed by the
   grammar's descent to that very tree (spacing forgotten) *)
Theorem C13_parse_print : forall e : add, parse_top (significant (re e)) = Some (se e).
Proof. exact parse_print. Qed.

Section Carrier.
  Variable D : Type.
  Variables dadd dsub dmul ddiv : D -> D -> D.
  Variables dneg dabs : D -> D.
  Variable dltz : D -> bool.
  Variable of_int : Z -> D.
  Variable num_value : str -> D.
  Variable num_text : D -> str.

  Notation vadd := (vadd D dadd dsub dmul ddiv dneg num_value).
  Notation vm := (vm D dadd dsub dmul ddiv dneg num_value).
  Notation va := (va D dadd dsub dmul ddiv dneg num_value).
  Notation value := (value D dadd dsub dmul ddiv dneg num_value).
  Notation eval_top := (eval_top D dadd dsub dmul ddiv dneg num_value).
  Notation coerce := (coerce D dabs dltz of_int num_text).
  Notation dunder := (dunder D dabs dltz of_int num_text).
  Notation arith := (arith D dadd dsub dmul ddiv).
  Notation apply_chain := (apply_chain D dabs dltz of_int num_text).
  Notation arith_step := (arith_step D dadd dsub dmul ddiv dneg dabs dltz of_int num_value num_text).

  (* the value of whatever the parser builds is the usual evaluation (precedence climbing, left
     associative, no tree) of the same lexemes; failure on exactly the same inputs *)
  Theorem C13_value_parsed : forall ts, eval_top ts = option_map vadd (parse_top ts).
  Proof. exact (value_parsed D dadd dsub dmul ddiv dneg num_value). Qed.

  (* `vadd` / `vm` are literally the loops of NumberAddExpr.value / NumberMulExpr.value *)
  Theorem C13_value_is_source_loop_add : forall e d0,
    vadd e = fold_left (add_step D dadd dsub dmul ddiv dneg num_value)
                       (combine (add_ops e) (tl (add_operands e))) (vm (hd d0 (add_operands e))).
  Proof. exact (value_add_is_fold D dadd dsub dmul ddiv dneg num_value). Qed.

  Theorem C13_value_is_source_loop_mul : forall m d0,
    vm m = fold_left (mul_step D dadd dsub dmul ddiv dneg num_value)
                     (combine (mul_ops m) (tl (mul_operands m))) (va (hd d0 (mul_operands m))).
  Proof. exact (value_mul_is_fold D dadd dsub dmul ddiv dneg num_value). Qed.

  (* SCOPE OF THE OPERAND-UNCHANGED CLAUSES.  NumExpr.v is a pure model: `dunder` returns the operands it was
     given, so `o_self r = self` and `o_other r = Some x` below hold by the definition of `dunder`; they record
     what the model CLAIMS about number_expr.py, they do not prove it.  A consuming implementation (`a + b`
     emptying b, `5 * posting.raw_number` editing the file - the defect this check found) is not a different
     Gallina function here.  That clause of the property is therefore carried by
       - the monitor, on the implementation itself: printed text of both operands and of the documents they
         belong to before/after every non-in-place operator, signature `C13:operand-changed-or-refused`;
       - the correspondence `numexpr-operator-correspondence`, which compares the observed (store prefix,
         tree, store suffix) of result, self and operand after every step with `o_result/o_self/o_other`.
     Aliasing (`x += x`) is outside the pure model too: NumExprRun.check_step compares the aliased operand
     with `o_self` instead of `o_other` (flag `aliased`).
     What IS proved here about operands: the result's tree, value and text, the frame of in-place edits
     (`pre`/`post` kept), that non-in-place results live in a fresh store, and that no call is refused. *)
  (* every binary operator, plain / reflected / in-place, int / Decimal / expression operand, free or
     attached: never refuses; the result tree is `new_body`; its value is the arithmetic result;
     non-in-place forms return `self` untouched and a fresh store; in-place edits only between
     self's own first and last token; the expression operand is untouched in every form *)
  Theorem C13_op_spec : forall k f self o,
    exists r,
      dunder k f self o = Ok r /\
      body (o_result r) = new_body k (body (lhs f self (coerce o))) (body (rhs f self (coerce o))) /\
      value (o_result r) = arith k (value (lhs f self (coerce o))) (value (rhs f self (coerce o))) /\
      (match f with
       | InPlace => o_self r = o_result r /\ pre (o_result r) = pre self /\ post (o_result r) = post self
       | _ => o_self r = self /\ pre (o_result r) = [] /\ post (o_result r) = []
       end) /\
      o_other r = match o with OExpr x => Some x | _ => None end.
  Proof. exact (dunder_spec D dadd dsub dmul ddiv dneg dabs dltz of_int num_value num_text). Qed.

  (* parentheses exactly where the operand's top operator binds weaker: printed text of the result *)
  Theorem C13_op_text : forall k s o,
    text (re (new_body k s o)) =
    parens (left_needs_paren k s) (text (re s)) ++ [CH_SP] ++ op_text k ++ [CH_SP]
      ++ parens (right_needs_paren k o) (text (re o)).
  Proof. exact new_body_text. Qed.

  Theorem C13_unary_spec : forall b self,
    let r := dunder_unary b self in
    body (o_result r) = AMul (MAtom (Unary b [] (as_atom_expr (body self)))) /\
    value (o_result r) = (if b then dneg (value self) else value self) /\
    o_self r = self /\ pre (o_result r) = [] /\ post (o_result r) = [] /\
    text (re (body (o_result r))) =
      sign_text b ++ parens (needs_paren_as_atom (body self)) (text (re (body self))).
  Proof. exact (unary_spec D dadd dsub dmul ddiv dneg num_value). Qed.

  (* the printed text of ANY expression object re-parses to its tree and re-evaluates to its value
     (so the parentheses the operators add are always enough) *)
  Theorem C13_result_reparses : forall x : nexpr,
    parse_top (significant (re (body x))) = Some (se (body x)) /\
    vadd (se (body x)) = value x /\
    eval_top (significant (re (body x))) = Some (value x).
  Proof. exact (result_reparses D dadd dsub dmul ddiv dneg num_value). Qed.

  (* chains of operator applications (and value assignments) of any length *)
  Theorem C13_chain : forall l x, forallb (step_arith D) l = true -> exists x',
    apply_chain x l = Ok x' /\
    value x' = fold_left arith_step l (value x) /\
    eval_top (significant (re (body x'))) = Some (fold_left arith_step l (value x)).
  Proof. exact (chain_spec D dadd dsub dmul ddiv dneg dabs dltz of_int num_value num_text). Qed.

  (* `.value` is a function of the CURRENT tree (no remembered result): after any history of operator
     applications, in-place edits of Number / operator tokens anywhere inside the expression (also inside
     parentheses an earlier in-place operator added) and value assignments, the value is the usual
     evaluation of the text printed now, and that text parses back to the current tree *)
  Theorem C13_history_value : forall l x, exists x',
    apply_chain x l = Ok x' /\
    eval_top (significant (re (body x'))) = Some (value x') /\
    parse_top (significant (re (body x'))) = Some (se (body x')).
  Proof. exact (history_value D dadd dsub dmul ddiv dneg dabs dltz of_int num_value num_text). Qed.

  (* in-place chains on an expression inside a document keep everything outside the expression *)
  Theorem C13_inplace_chain_frame : forall l x x',
    forallb (step_inplace D) l = true -> apply_chain x l = Ok x' ->
    store_toks x' = pre x ++ re (body x') ++ post x.
  Proof. exact (inplace_chain_frame D dadd dsub dmul ddiv dneg dabs dltz of_int num_value num_text). Qed.

  (* int / Decimal operands: a negative number becomes unary minus on the absolute value *)
  Theorem C13_from_value : forall v,
    value (from_value D dabs dltz num_text v) =
      (if dltz v then dneg (num_value (num_text (dabs v))) else num_value (num_text (dabs v))) /\
    text (re (body (from_value D dabs dltz num_text v))) =
      (if dltz v then [CH_MINUS] ++ num_text (dabs v) else num_text (dabs v)).
  Proof. exact (from_value_spec D dadd dsub dmul ddiv dneg dabs dltz num_value num_text). Qed.

  (* ... and its value is exactly v, under the three laws of decimal that the code relies on
     (copy_abs / copy_negate / plain-notation round trip; validated per run against CPython) *)
  Theorem C13_from_value_exact :
    (forall v, num_value (num_text (dabs v)) = dabs v) ->
    (forall v, dltz v = true -> dneg (dabs v) = v) ->
    (forall v, dltz v = false -> dabs v = v) ->
    forall v, value (from_value D dabs dltz num_text v) = v.
  Proof. exact (from_value_exact D dadd dsub dmul ddiv dneg dabs dltz num_value num_text). Qed.
End Carrier.

(* the three laws are satisfiable (carrier Z, a number is spelled by one code point) *)
Example C13_from_value_exact_nonvacuous :
  let num_value := fun s : str => hd 0 s in
  let num_text := fun z : Z => [z] in
  (forall v, num_value (num_text (Z.abs v)) = Z.abs v) /\
  (forall v, (v <? 0) = true -> Z.opp (Z.abs v) = v) /\
  (forall v, (v <? 0) = false -> Z.abs v = v).
Proof.
  cbv zeta. split; [reflexivity|]. split; intros v H.
  - apply Z.ltb_lt in H. lia.
  - apply Z.ltb_ge in H. lia.
Qed.

(* non-vacuity of the one theorem with hypotheses: `posting.raw_number += 2; posting.raw_number *= 3`
   inside "  10 + 2 USD" (carrier Z) *)
Example C13_inplace_chain_frame_nonvacuous :
  let x := NE [TWs [32; 32]] (AOp (AMul (MAtom (Num [49; 48]))) [32] false [32] (MAtom (Num [50])))
              [TWs [32]; TNum [85; 83; 68]] in
  let l := [SBin OpAdd InPlace (OInt 2); SBin OpMul InPlace (OInt 3)] in
  forallb (step_inplace Z) l = true /\ forallb (step_arith Z) l = true /\
  exists x', apply_chain Z Z.abs (fun z => z <? 0) (fun z => z) (fun z => [48 + z]) x l = Ok x' /\
             text (store_toks x') =
             [32;32; 40; 49;48; 32; 43; 32; 50; 32; 43; 32; 50; 41; 32; 42; 32; 51; 32; 85;83;68].
Proof. cbv zeta. split; [reflexivity|]. split; [reflexivity|]. eexists. split; vm_compute; reflexivity. Qed.
