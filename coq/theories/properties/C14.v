(* C14 - every block comment has at most one owner, chosen by the documented rules.

   State: (token list, ownership table); calls: claim_/unclaim_ leading/trailing (`OS`), claim_/unclaim_
   interleaving comments (`OClaimInter`/`OUnclaimInter`); auto_claim_comments is the sequence of such calls the
   generated code emits (all with ignore_if_already_claimed=True / no explicit comment list: `is_auto_op`).
   Inv = token ids unique (the store invariant of C07) /\ OwnInv (every block comment is referenced by <= 1 slot
   and its claimed flag is set iff it is referenced by exactly one) /\ leading/trailing slots hold <= 1 comment.
   Every hypothesis below is a boolean evaluated by the harness on every trace of the implementation
   (CommentsRun.hyp_case): inv_b on every parsed state, op_ok before every call (the item list handed to the
   claimer is the table's, and its items lie in store order behind the field's placeholder), auto_ok in a repeated
   auto-claim, adjacent_comment before an unclaim+claim.

   Closed in session 4 (CommentsRange.v = the claimer's range read off _find_outer/_find_inner, CommentsComplete.v):
     C14_claimer_claim_covers / _frame / C14_claimer_range_stops : claim_interleaving_comments() claims exactly the
        unclaimed block comments (with text) of its range and nothing outside it; the range ends in front of the
        first claimed comment / token with text that is no Newline or Whitespace, and behind the model's first/last
        token - comments beyond are NOT covered, nor are comments inside the span of an item.
     C14_file_auto_claim_all_claimed, C14_idempotent_file : "no block comment is left unowned" for the root File and
        idempotence of File.auto_claim_comments WITHOUT assuming that everything is claimed.  The one hypothesis about
        what the children's claims leave behind is the boolean file_cover_b (every block comment still unclaimed when
        the File's own claim starts lies in the File's range and has text), evaluated per trace at every File-level
        claim (CommentsRun k_mode 4; counter hyp_file_cover_steps).  C14_idempotent_partial is kept (any sub-model,
        under all_claimed).
     C14_unclaim_claim_interleaving : full; acceptance of the claim (C14_claim_accepted, with the converse
        C14_claim_accepted_only and C14_claimer_only_value_error) under the position hypothesis claimable_b (every
        comment of cs is an unclaimed comment in the range of the field, or an entry already), evaluated per trace
        (k_mode 3; counter hyp_restore_interleaving).  Without it the statement is FALSE:
        C14_unclaim_claim_interleaving_unconditional_refuted - a comment entry appended to the empty meta field of a
        directive without indented body (no DedentMark): after the un-claim the model's last token is the field's own
        placeholder = the scan limit, claim_interleaving_comments(cs) raises ValueError('1 comment(s) not found.');
        reproduced on the implementation (parse '2000-01-01 open Assets:A\n', raw_meta_with_comments.append(
        BlockComment.from_value('c', indent='  ')), unclaim_interleaving_comments(), claim_interleaving_comments(u)).
   Placement (session 4c, CommentsPlacement.v): C14_claim_entries_inside - after a successful claim the field's own
     placeholder precedes every entry of the returned list, the entries lie in store order behind it (items_behind_b for
     the returned items = the hypothesis of the next call; NoDup and ph_ok_b are kept) and no placeholder stands between
     the placeholder and the last comment claimed in front, nor between the last item and the last comment claimed behind
     (tight_b).  C14_claim_nearest_front_refuted / C14_claim_first_behind_refuted: the regressions seeded/C05-m8
     (comments_before[-1]) and seeded/C14-m9 (comments_after[0]) keep return value and flags but break the first resp.
     the second conclusion.  C14_field_history_placement: every sequence of claim / unclaim interleaving calls on one
     field keeps the invariant.  Hypotheses and both conclusions are evaluated at every claimer call of every trace, the
     conclusions on the token order the implementation reports (CommentsRun.placement_ok; counter hyp_placement_checked).
   Still partial:
     C14_rule_single_claim is complete for one surrounding claim (declarative iff on the token list; the
        _sound/_complete forms add the resulting document).
   The rule over whole layouts (session 4b, CommentsRule.v / CommentsRuleGen.v):
     attrib_spec d layout c = SLead of the model starting right below c (placeholders aside exactly one line break, no
        blank line / dedent mark in between, same indentation class), else STrail of the model ending right above, else
        SRep of the first visited repeated field whose claim_range holds c.
     The call order (CommentsRule.emit = own leading, own trailing, children last field to first, a repeated field its
        items last to first and then its own claim; C14_rule_generated_order ties it to the classes extracted on this
        run) puts, for items A before B of ONE repeated field, B.claim_leading before A.claim_trailing and both before
        the field's claim (C14_rule_emit_siblings / _items_before_field).  Auto calls never take a comment away
        (C14_rule_auto_keeps), so the first eligible call decides: C14_rule_leading_first, C14_rule_first_claim_wins,
        C14_rule_order_decides (the ORDER of the two calls is all there is to "leading > trailing"),
        C14_rule_standalone_fallthrough.  With C14_claimer_claim_covers: every comment gets the owner attrib_spec names
        for comments between two entries of one repeated field (top-level entries, meta items, postings, posting meta),
        before the first / after the last item of a body, at file start / end.
     NOT covered by proof, validated per trace instead (CommentsRun.attrib_hist: attrib_spec evaluated on the parsed
        store for every block comment and compared with the owner after File.auto_claim_comments(); counter
        hyp_attrib_spec_checked): that c is still unclaimed and adjacent / in range when its call comes (calls made for
        OTHER comments only move placeholders; unrelated models do not reach c).
     REFUTED for two fields of one model: the later field's own claim precedes the trailing claims of the earlier
        field's items (C14_rule_emit_later_field_first); Transaction is the only such class and visits postings before
        meta, so a comment directly below the last meta item of a transaction without postings becomes a postings entry:
        C14_rule_priority_refuted (= known finding C14:rule:empty-postings-claim-first; the per-trace check accepts
        exactly this inversion: inversion_b). *)
From AB Require Import Prelude Comments CommentsProofs CommentsOwn CommentsRestore.

(* eop = the six comment calls + node-level assignment of a comment (x.raw_leading_comment = c, insertion into a
   *_with_comments list: BlockComment.reattach sets the flag, the slot references the comment) *)
Theorem C14_unique_step : forall st o, Inv st -> eop_ok st o = true -> Inv (estep st o).
Proof. exact estep_inv. Qed.

Theorem C14_unique_history : forall ops st, Inv st -> ehist_ok ops st = true -> Inv (fold_left estep ops st).
Proof. exact ehistory_inv. Qed.

Theorem C14_inv_b_sound : forall st, inv_b st = true -> Inv st.
Proof. exact inv_b_ok. Qed.

Theorem C14_unclaim_claim_surrounding : forall (lead : bool) d tb n start ig ind c,
  NoDup (ids d) ->
  adjacent_comment d start lead ind = Some c -> t_claimed c = true ->
  tget tb (if lead then SLead n else STrail n) = [t_id c] ->
  let st' := sstep (sstep (d, tb) (if lead then UnclaimLead n else UnclaimTrail n))
                   (if lead then ClaimLead n start ig ind else ClaimTrail n start ig ind) in
  teq (snd st') tb /\ Permutation.Permutation (fst st') d.
Proof. exact sstep_unclaim_claim_b. Qed.

Theorem C14_unclaim_claim_interleaving_partial : forall d tb r items flt un kept d1 ph items2 mf ml ret its d2,
  Inv (d, tb) -> refs_ok_b d items = true -> old_comments items = tget tb (SRep r) ->
  unclaim_inter d items flt = (Ok (un, kept), d1) ->
  map oitem_of items2 = kept -> items_ordered_b d1 ph items2 = true ->
  claimer_claim d1 ph items2 mf ml (Some un) = (Ok (ret, its), d2) ->
  (forall c, count_z c (comments_of its) = count_z c (old_comments items)) /\ Permutation.Permutation d2 d.
Proof. exact inter_unclaim_claim. Qed.

(* the rule for ONE surrounding claim, declaratively on the token list: the call returns comment i exactly when
   the store reads  pre ++ model_token :: g1 ++ [newline] ++ g2 ++ [comment] ++ post  (mirrored for a leading
   claim) with g1, g2 placeholders only, the comment unclaimed and of the model's indentation class *)
Theorem C14_rule_single_claim : forall d start bw ig ind i,
  NoDup (ids d) ->
  (fst (claim_comment None d start bw ig ind) = Ok (Some i) <->
   exists c, t_id c = i /\ adjacent_decl d start bw ind c).
Proof. exact rule_single_claim. Qed.

Theorem C14_idempotent_partial : forall ops st,
  Inv st -> all_claimed (fst st) -> hist_auto_ok ops st = true ->
  fst (fold_left cstep ops st) = fst st /\ teq (snd (fold_left cstep ops st)) (snd st).
Proof. exact auto_history_noop. Qed.

Theorem C14_rule_local_sound_partial : forall d start bw ig ind r d',
  NoDup (ids d) -> claim_comment None d start bw ig ind = (r, d') ->
  (d' = d /\ (r = Ok None \/ exists e, r = Err e)) \/
  (exists t d2, r = Ok (Some (t_id t)) /\ In t d /\ is_comment t = true /\ t_claimed t = false /\
                Permutation.Permutation d2 d /\ d' = set_claimed (t_id t) true d2 /\
                match ind with Some b => comment_indented t = b | None => True end).
Proof. exact claim_comment_cases. Qed.

Theorem C14_rule_local_complete_partial : forall d start bw ig ind first w' ign1 nl ign2 c rest,
  NoDup (ids d) ->
  walk d start bw = Some (first :: w') ->
  first :: w' = ign1 ++ nl :: ign2 ++ c :: rest ->
  forallb is_ph ign1 = true -> forallb is_ph ign2 = true -> is_nl nl = true -> is_comment c = true ->
  t_claimed c = false -> match ind with Some b => comment_indented c = b | None => True end ->
  exists d2, Permutation.Permutation d2 d /\
    claim_comment None d start bw ig ind = (Ok (Some (t_id c)), set_claimed (t_id c) true d2).
Proof. exact claim_comment_complete. Qed.

(* non-vacuity: the invariant holds of a concrete store with an empty table, a claim changes the table, the
   hypotheses of the history theorem are satisfiable by a history that uses the interleaving claimer *)
Example C14_nonvacuous :
  Inv (ex_doc, []) /\
  snd (sstep (ex_doc, []) (ClaimTrail 1 3 false (Some false))) = [(STrail 1, [6])] /\
  snd (sstep (ex_doc, []) (ClaimTrail 1 3 false (Some true))) = [(STrail 1, [])] /\
  (let ops := [OClaimInter 9 1 [mkitem false 7 2 4] 1 8 None; OUnclaimInter 9 [mkitem false 7 2 4; mkitem true 6 6 6] None;
               OS (ClaimTrail 7 4 true None); OS (UnclaimTrail 7); OS (ClaimTrail 7 4 true None)] in
   hist_ok ops (ex_doc, []) = true /\
   snd (fold_left cstep ops (ex_doc, [])) = [(SRep 9, []); (STrail 7, [6])]) /\
  adjacent_comment ex_doc 3 false (Some false) = Some (mktok 6 KBlockComment [59; 32; 99] false).
Proof. split; [exact ex_inv | repeat split; vm_compute; reflexivity]. Qed.

(* ---- session 4: the range of the interleaving claimer, "no comment is left unowned", acceptance of a re-claim ---- *)
From AB Require Import CommentsRange CommentsComplete.

(* where one _find_outer scan stops: the run is a prefix of the walk made of tokens the scan steps over; it ends at
   the end of the store, behind the limit token, or in front of a token that stops it *)
Theorem C14_claimer_range_stops : forall w prev limit,
  exists rest, w = outer_run prev w limit ++ rest /\
    forallb passes (outer_run prev w limit) = true /\
    (rest = [] \/ last (prev :: ids (outer_run prev w limit)) 0 = limit \/
     exists s r, rest = s :: r /\ passes s = false).
Proof. exact outer_run_decl. Qed.

Theorem C14_claimer_claim_covers : forall d ph items mf ml ret its d',
  NoDup (ids d) ->
  claimer_claim d ph items mf ml None = (Ok (ret, its), d') ->
  (forall x, In x (old_comments items) -> In x (comments_of its)) /\
  forall t', In t' d' -> is_comment t' = true -> text_empty t' = false ->
    In (t_id t') (ids (claim_range d ph items mf ml)) ->
    t_claimed t' = true /\
    (forall t, In t d -> t_id t = t_id t' -> t_claimed t = false -> In (t_id t') (comments_of its)).
Proof. exact claimer_claim_covers. Qed.

Theorem C14_claimer_claim_frame : forall d ph items mf ml flt ret its d',
  claimer_claim d ph items mf ml flt = (Ok (ret, its), d') ->
  (forall x, In x (comments_of its) -> In x (ids (claim_range d ph items mf ml)) \/ In x (old_comments items)) /\
  (forall t', In t' d' -> ~ In (t_id t') (ids (claim_range d ph items mf ml)) ->
              ~ In (t_id t') (old_comments items) -> In t' d).
Proof. exact claimer_claim_frame. Qed.

(* the claimer raises nothing but ValueError('... not found') - exactly when comments of the list are left over -
   and has written nothing then *)
Theorem C14_claimer_only_value_error : forall d ph items mf ml flt,
  NoDup (ids d) -> has_tok_b d ph = true -> items_ordered_b d ph items = true ->
  exists wb wa cb_rev s1 inner s2 ca s3,
    walk d ph true = Some wb /\ walk d (rep_last ph items) false = Some wa /\
    find_outer ph wb mf flt = (cb_rev, s1) /\ find_inner d (from_incl d ph) items s1 = (inner, s2) /\
    find_outer (rep_last ph items) wa ml s2 = (ca, s3) /\
    let its := map (fun c => (true, c)) (rev cb_rev) ++ inner ++ map (fun c => (true, c)) ca in
    if cs_nonempty s3 then claimer_claim d ph items mf ml flt = (Err ValueError, d)
    else exists d2, Permutation.Permutation d2 d /\
         claimer_claim d ph items mf ml flt = (Ok (comments_of its, its), claim_all (comments_of its) d2).
Proof. exact claimer_claim_total. Qed.

Theorem C14_claim_accepted : forall d ph items mf ml cs,
  NoDup (ids d) -> has_tok_b d ph = true -> items_ordered_b d ph items = true ->
  claimable_b d ph items mf ml cs = true ->
  exists ret its d', claimer_claim d ph items mf ml (Some cs) = (Ok (ret, its), d').
Proof. exact claimer_claim_accepts. Qed.

Theorem C14_claim_accepted_only : forall d ph items mf ml cs ret its d',
  claimer_claim d ph items mf ml (Some cs) = (Ok (ret, its), d') ->
  forall c, In c cs -> In c (ids (claim_range d ph items mf ml)) \/ In c (old_comments items).
Proof. exact claimer_claim_accepted_only. Qed.

Theorem C14_file_auto_claim_all_claimed : forall d tb r ph items mf ml,
  Inv (d, tb) -> items_ordered_b d ph items = true -> file_cover_b d ph items mf ml = true ->
  all_claimed (fst (cstep (d, tb) (OClaimInter r ph items mf ml None))).
Proof. exact file_claim_all_claimed. Qed.

(* File.auto_claim_comments() = ops1 (the children, last to first) followed by the File's own
   claim_interleaving_comments(); ops2 = the calls of a second run *)
Theorem C14_idempotent_file : forall ops1 st r ph items mf ml ops2,
  Inv st -> hist_ok (ops1 ++ [OClaimInter r ph items mf ml None]) st = true ->
  file_cover_b (fst (fold_left cstep ops1 st)) ph items mf ml = true ->
  let st2 := fold_left cstep (ops1 ++ [OClaimInter r ph items mf ml None]) st in
  all_claimed (fst st2) /\
  (hist_auto_ok ops2 st2 = true ->
   fst (fold_left cstep ops2 st2) = fst st2 /\ teq (snd (fold_left cstep ops2 st2)) (snd st2)).
Proof. exact idempotent_file. Qed.

Theorem C14_unclaim_claim_interleaving : forall d tb r items flt un kept d1 ph items2 mf ml,
  Inv (d, tb) -> refs_ok_b d items = true -> old_comments items = tget tb (SRep r) ->
  unclaim_inter d items flt = (Ok (un, kept), d1) ->
  map oitem_of items2 = kept -> items_ordered_b d1 ph items2 = true ->
  has_tok_b d1 ph = true -> claimable_b d1 ph items2 mf ml un = true ->
  exists ret its d2, claimer_claim d1 ph items2 mf ml (Some un) = (Ok (ret, its), d2) /\
    (forall c, count_z c (comments_of its) = count_z c (old_comments items)) /\ Permutation.Permutation d2 d.
Proof. exact inter_unclaim_claim_full. Qed.

Theorem C14_unclaim_claim_interleaving_unconditional_refuted :
  exists d tb r items flt un kept d1 ph items2 mf ml,
    Inv (d, tb) /\ refs_ok_b d items = true /\ old_comments items = tget tb (SRep r) /\
    items_ordered_b d ph items = true /\
    unclaim_inter d items flt = (Ok (un, kept), d1) /\ map oitem_of items2 = kept /\
    items_ordered_b d1 ph items2 = true /\ has_tok_b d1 ph = true /\
    claimer_claim d1 ph items2 mf ml (Some un) = (Err ValueError, d1) /\
    claimable_b d1 ph items2 mf ml un = false.
Proof. exact inter_unclaim_claim_unconditional_refuted. Qed.

(* non-vacuity: on ex_doc (placeholder, a directive, `; c` two lines below it, another token) the File-level
   hypotheses hold, the claim takes the comment (range = placeholder, the two line breaks and the comment - not the
   token behind them), a second run is an auto history; after un-claiming the comment the re-claim hypotheses hold *)
Example C14_complete_nonvacuous :
  let items := [mkitem false 7 2 4] in
  let items' := [mkitem false 7 2 4; mkitem true 6 6 6] in
  let st1 := cstep (ex_doc, []) (OClaimInter 9 1 items 1 8 None) in
  hist_ok ([] ++ [OClaimInter 9 1 items 1 8 None]) (ex_doc, []) = true /\
  file_cover_b ex_doc 1 items 1 8 = true /\
  hist_auto_ok [OClaimInter 9 1 items' 1 8 None] st1 = true /\
  map t_id (filter t_claimed (fst st1)) = [6] /\ snd st1 = [(SRep 9, [6])] /\
  ids (claim_range ex_doc 1 items 1 8) = [1; 5; 6; 7] /\
  (let d := fst st1 in
   refs_ok_b d items' = true /\ old_comments items' = tget (snd st1) (SRep 9) /\
   unclaim_inter d items' (Some [6]) = (Ok ([6], [(false, 7)]), unclaim_all [6] d) /\
   items_ordered_b (unclaim_all [6] d) 1 items = true /\ has_tok_b (unclaim_all [6] d) 1 = true /\
   claimable_b (unclaim_all [6] d) 1 items 1 8 [6] = true /\
   fst (claimer_claim (unclaim_all [6] d) 1 items 1 8 (Some [6])) = Ok ([6], [(false, 7); (true, 6)])).
Proof. repeat split; vm_compute; reflexivity. Qed.

(* ---- session 4b: the attribution rule over whole layouts ----------------------------------------------------------- *)
From AB Require Import CommentsRule CommentsRuleGen.

(* attrib_spec clause by clause; adj_is d start bw ind c = "the store reads  start-token, placeholders, ONE line break,
   placeholders, c  (mirrored for bw = true), c of indentation class ind" (C14_rule_adj_is_decl: adjacent_decl) *)
Theorem C14_rule_attrib_spec_decl : forall d layout c s, attrib_spec d layout c = Some s ->
  match s with
  | SLead n => exists start ig ind, In (OS (ClaimLead n start ig ind)) layout /\ adj_is d start true ind c = true
  | STrail n =>
    (forall n' start ig ind, In (OS (ClaimLead n' start ig ind)) layout -> adj_is d start true ind c = false) /\
    exists start ig ind, In (OS (ClaimTrail n start ig ind)) layout /\ adj_is d start false ind c = true
  | SRep r =>
    (forall n' start ig ind, In (OS (ClaimLead n' start ig ind)) layout -> adj_is d start true ind c = false) /\
    (forall n' start ig ind, In (OS (ClaimTrail n' start ig ind)) layout -> adj_is d start false ind c = false) /\
    exists ph items mf ml flt, In (OClaimInter r ph items mf ml flt) layout /\ in_range_b d ph items mf ml c = true
  end.
Proof. exact attrib_spec_decl. Qed.

Theorem C14_rule_adj_is_decl : forall d start bw ind c, NoDup (ids d) -> adj_is d start bw ind c = true ->
  exists t, t_id t = c /\ In t d /\ is_comment t = true /\ (t_claimed t = false -> adjacent_decl d start bw ind t).
Proof. exact adj_is_decl. Qed.

Theorem C14_rule_auto_keeps : forall ops st s c,
  Inv st -> hist_ok ops st = true -> forallb is_auto_op ops = true ->
  In c (tget (snd st) s) -> In c (tget (snd (fold_left cstep ops st)) s).
Proof. exact auto_history_keeps. Qed.

Theorem C14_rule_first_claim_wins : forall (lead : bool) ops1 ops2 st n start ig ind c,
  Inv st ->
  hist_ok (ops1 ++ sclaim lead n start ig ind :: ops2) st = true -> forallb is_auto_op ops2 = true ->
  tget (snd (fold_left cstep ops1 st)) (sslot lead n) = [] ->
  adjacent_decl (fst (fold_left cstep ops1 st)) start lead ind c ->
  let stf := fold_left cstep (ops1 ++ sclaim lead n start ig ind :: ops2) st in
  tget (snd stf) (sslot lead n) = [t_id c] /\ forall s, s <> sslot lead n -> ~ In (t_id c) (tget (snd stf) s).
Proof. exact first_claim_wins. Qed.

Theorem C14_rule_leading_first : forall ops1 ops2 st nB sB ig indB c,
  Inv st ->
  hist_ok (ops1 ++ OS (ClaimLead nB sB ig indB) :: ops2) st = true -> forallb is_auto_op ops2 = true ->
  tget (snd (fold_left cstep ops1 st)) (SLead nB) = [] ->
  adjacent_decl (fst (fold_left cstep ops1 st)) sB true indB c ->
  let stf := fold_left cstep (ops1 ++ OS (ClaimLead nB sB ig indB) :: ops2) st in
  tget (snd stf) (SLead nB) = [t_id c] /\
  (forall nA, ~ In (t_id c) (tget (snd stf) (STrail nA))) /\ (forall r, ~ In (t_id c) (tget (snd stf) (SRep r))).
Proof. exact rule_leading_first. Qed.

Theorem C14_rule_order_decides : forall d tb nA sA indA nB sB indB c,
  Inv (d, tb) -> tget tb (SLead nB) = [] -> tget tb (STrail nA) = [] ->
  adjacent_decl d sB true indB c -> adjacent_decl d sA false indA c ->
  (let stf := fold_left cstep [sclaim true nB sB true indB; sclaim false nA sA true indA] (d, tb) in
   tget (snd stf) (SLead nB) = [t_id c] /\ ~ In (t_id c) (tget (snd stf) (STrail nA))) /\
  (let stf := fold_left cstep [sclaim false nA sA true indA; sclaim true nB sB true indB] (d, tb) in
   tget (snd stf) (STrail nA) = [t_id c] /\ ~ In (t_id c) (tget (snd stf) (SLead nB))).
Proof. exact order_decides. Qed.

Theorem C14_rule_standalone_fallthrough : forall ops1 ops2 st r ph items mf ml c,
  Inv st ->
  hist_ok (ops1 ++ OClaimInter r ph items mf ml None :: ops2) st = true -> forallb is_auto_op ops2 = true ->
  has_tok_b (fst (fold_left cstep ops1 st)) ph = true ->
  in_range_b (fst (fold_left cstep ops1 st)) ph items mf ml c = true ->
  let stf := fold_left cstep (ops1 ++ OClaimInter r ph items mf ml None :: ops2) st in
  In c (tget (snd stf) (SRep r)) /\ forall s, s <> SRep r -> ~ In c (tget (snd stf) s).
Proof. exact standalone_fallthrough. Qed.

Theorem C14_rule_emit_siblings : forall ms a b x y, m_before a b ms -> In x (emit b) -> In y (emit a) ->
  precedes x y (emit_ms ms).
Proof. exact emit_siblings. Qed.

Theorem C14_rule_emit_items_before_field : forall r items m x, min m items -> In x (emit m) ->
  precedes x (SRep r) (emit_f (AFRep r true items)).
Proof. exact emit_items_before_field. Qed.

Theorem C14_rule_emit_later_field_first : forall fs fa fb x y,
  f_before fa fb fs -> In x (emit_f fb) -> In y (emit_f fa) -> precedes x y (emit_fs fs).
Proof. exact emit_later_field_first. Qed.

From Coq Require Import String.

Theorem C14_rule_generated_order :
  forallb Desc.claim_ok Generated.classes = true /\
  Desc.c_claim Generated.c_File = [Desc.CProp "raw_directives_with_comments"%string] /\
  map Desc.c_name (filter (fun c => Nat.leb 2 (List.length (filter is_wc (Desc.c_claim c)))) Generated.classes)
    = ["Transaction"%string] /\
  claim_pos "raw_postings_with_comments" (Desc.c_claim Generated.c_Transaction) 0 = Some 3%nat /\
  claim_pos "raw_meta_with_comments" (Desc.c_claim Generated.c_Transaction) 0 = Some 4%nat.
Proof. exact generated_claim_order. Qed.

(* `2000-01-01 *` / `  kax: 1` / `  ; c` with the calls the implementation makes: the rule names the meta item's
   trailing slot, the postings field (visited first) owns the comment *)
Theorem C14_rule_priority_refuted :
  Inv (px_doc, []) /\ hist_ok px_ops (px_doc, []) = true /\ forallb is_auto_op px_ops = true /\
  map op_slot px_ops = emit px_tree /\
  attrib_spec px_doc px_ops 16 = Some (STrail 6) /\
  (exists c, t_id c = 16 /\ adjacent_decl px_doc 13 false (Some true) c) /\
  owner_of (snd (fold_left cstep px_ops (px_doc, []))) 16 = Some (SRep 9) /\
  tget (snd (fold_left cstep px_ops (px_doc, []))) (STrail 6) = [] /\
  inversion_b px_doc px_ops 16 (Some (SRep 9)) = true.
Proof. exact priority_refuted. Qed.

(* non-vacuity: on ex_doc (directive 2..4, `; c` = 6 directly below it, token 8 directly below the comment) the comment
   is adjacent to both; the hypotheses of C14_rule_order_decides / _first_claim_wins / _standalone_fallthrough hold and
   attrib_spec names the leading slot whatever the order of the layout list *)
Example C14_rule_nonvacuous :
  (exists c, t_id c = 6 /\ adjacent_decl ex_doc 8 true None c) /\
  (exists c, t_id c = 6 /\ adjacent_decl ex_doc 3 false None c) /\
  hist_ok ([] ++ sclaim true 2 8 true None :: [sclaim false 1 3 true None]) (ex_doc, []) = true /\
  snd (fold_left cstep [sclaim true 2 8 true None; sclaim false 1 3 true None] (ex_doc, [])) = [(SLead 2, [6]); (STrail 1, [])] /\
  snd (fold_left cstep [sclaim false 1 3 true None; sclaim true 2 8 true None] (ex_doc, [])) = [(STrail 1, [6]); (SLead 2, [])] /\
  attrib_spec ex_doc [sclaim false 1 3 true None; sclaim true 2 8 true None] 6 = Some (SLead 2) /\
  hist_ok ([] ++ OClaimInter 9 1 [mkitem false 7 2 4] 1 8 None :: []) (ex_doc, []) = true /\
  has_tok_b ex_doc 1 = true /\ in_range_b ex_doc 1 [mkitem false 7 2 4] 1 8 6 = true /\
  attrib_spec ex_doc [OClaimInter 9 1 [mkitem false 7 2 4] 1 8 None] 6 = Some (SRep 9).
Proof.
  split; [apply (proj1 (rule_single_claim ex_doc 8 true true None 6 ex_doc_nodup)); vm_compute; reflexivity|].
  split; [apply (proj1 (rule_single_claim ex_doc 3 false true None 6 ex_doc_nodup)); vm_compute; reflexivity|].
  repeat split; vm_compute; reflexivity.
Qed.

(* ---- session 4c: placement of the claimed entries and of the placeholders ------------------------------------------ *)
From AB Require Import CommentsPlacement.

Theorem C14_claim_entries_inside : forall d ph items mf ml flt ret its d',
  NoDup (ids d) -> ph_ok_b d ph = true -> items_behind_b d ph items = true ->
  claimer_claim d ph items mf ml flt = (Ok (ret, its), d') ->
  map oitem_of (claim_items d ph items mf ml flt) = its /\
  NoDup (ids d') /\ ph_ok_b d' ph = true /\
  items_behind_b d' ph (claim_items d ph items mf ml flt) = true /\
  (let '(cb, _, ca) := claim_parts d ph items mf ml flt in tight_b d' ph (rep_last ph items) cb ca = true).
Proof. exact claim_placement. Qed.

(* items_behind_b is the strict form of the hypothesis op_ok asks for *)
Theorem C14_items_behind_ordered : forall d ph items, NoDup (ids d) -> ph_ok_b d ph = true ->
  items_behind_b d ph items = true -> items_ordered_b d ph items = true.
Proof. exact behind_ordered. Qed.

Theorem C14_claim_nearest_front_refuted :
  let items := [mkitem false 0 8 8] in
  NoDup (ids pa_doc) /\ ph_ok_b pa_doc 6 = true /\ items_behind_b pa_doc 6 items = true /\
  fst (claimer_claim_nearest_front pa_doc 6 items 1 8 None) = fst (claimer_claim pa_doc 6 items 1 8 None) /\
  fst (claimer_claim pa_doc 6 items 1 8 None) = Ok ([2; 4], [(true, 2); (true, 4); (false, 0)]) /\
  map t_id (filter t_claimed (snd (claimer_claim_nearest_front pa_doc 6 items 1 8 None))) = [2; 4] /\
  items_behind_b (snd (claimer_claim pa_doc 6 items 1 8 None)) 6 (claim_items pa_doc 6 items 1 8 None) = true /\
  items_behind_b (snd (claimer_claim_nearest_front pa_doc 6 items 1 8 None)) 6 (claim_items pa_doc 6 items 1 8 None) = false /\
  ids (snd (claimer_claim_nearest_front pa_doc 6 items 1 8 None)) = [1; 2; 3; 6; 4; 5; 7; 8].
Proof. exact nearest_front_refuted. Qed.

Theorem C14_claim_first_behind_refuted :
  let items := [mkitem false 0 2 2] in
  NoDup (ids pb_doc) /\ ph_ok_b pb_doc 1 = true /\ items_behind_b pb_doc 1 items = true /\
  fst (claimer_claim_first_behind pb_doc 1 items 1 9 None) = fst (claimer_claim pb_doc 1 items 1 9 None) /\
  fst (claimer_claim pb_doc 1 items 1 9 None) = Ok ([4; 7], [(false, 0); (true, 4); (true, 7)]) /\
  map t_id (filter t_claimed (snd (claimer_claim_first_behind pb_doc 1 items 1 9 None))) = [4; 7] /\
  tight_b (snd (claimer_claim pb_doc 1 items 1 9 None)) 1 2 [] [4; 7] = true /\
  tight_b (snd (claimer_claim_first_behind pb_doc 1 items 1 9 None)) 1 2 [] [4; 7] = false /\
  ids (snd (claimer_claim pb_doc 1 items 1 9 None)) = [1; 2; 3; 4; 6; 7; 5; 8; 9] /\
  ids (snd (claimer_claim_first_behind pb_doc 1 items 1 9 None)) = [1; 2; 3; 4; 5; 6; 7; 8; 9].
Proof. exact first_behind_refuted. Qed.

Theorem C14_field_history_placement : forall ph ops st, FInv ph st -> FInv ph (fold_left (fstep ph) ops st).
Proof. exact field_history_inv. Qed.

(* non-vacuity: on pa_doc the hypotheses hold, the claim takes both comments in front, and a history claim / unclaim
   one / claim again keeps the invariant with a changing entry list *)
Example C14_placement_nonvacuous :
  let st0 := (pa_doc, [mkitem false 0 8 8]) in
  ph_ok_b pa_doc 6 = true /\ items_behind_b pa_doc 6 (snd st0) = true /\
  ids (fst (fstep 6 st0 (FClaim 1 8 None))) = [1; 6; 2; 3; 4; 5; 7; 8] /\
  map oitem_of (snd (fstep 6 st0 (FClaim 1 8 None))) = [(true, 2); (true, 4); (false, 0)] /\
  map oitem_of (snd (fold_left (fstep 6) [FClaim 1 8 None; FUnclaim (Some [2])] st0)) = [(true, 4); (false, 0)] /\
  map oitem_of (snd (fold_left (fstep 6) [FClaim 1 8 None; FUnclaim (Some [2]); FClaim 1 8 (Some [2])] st0))
    = [(true, 2); (true, 4); (false, 0)] /\
  items_behind_b (fst (fold_left (fstep 6) [FClaim 1 8 None; FUnclaim (Some [2]); FClaim 1 8 (Some [2])] st0)) 6
    (snd (fold_left (fstep 6) [FClaim 1 8 None; FUnclaim (Some [2]); FClaim 1 8 (Some [2])] st0)) = true.
Proof. repeat split; vm_compute; reflexivity. Qed.
