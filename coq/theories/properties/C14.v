(* C14 - every block comment has at most one owner, chosen by the documented rules.

   Proved (all inputs, all histories): the ownership invariant
     OwnInv: every block comment of the store is referenced by <= 1 slot of the ownership table and its claimed
             flag is set iff it is referenced by exactly one,
   is kept by claim_leading/claim_trailing (any start token, either ignore mode, with or without the
   indentation-class test) and unclaim_leading/unclaim_trailing, and by every history of them; a comment claimed
   as leading/trailing comment was unclaimed, is a block comment of the store and (repaired code) is in the
   indentation class of the model.

   Full statement wanted, of which the theorems below are the part proved (hence `_partial`):
     C14_unique        : OwnInv is also kept by claim_interleaving_comments / unclaim_interleaving_comments /
                         auto_claim_comments.  Missing: that the comments collected by _find_outer/_find_inner are
                         pairwise distinct (needs the geometric invariant "items lie in store order after the
                         placeholder"); validated on every trace by the correspondence and the ownership monitor.
     C14_rule          : auto-claim = the documented order as a function of the line layout.  Proved here only as
                         the token-level characterisation C14_claimed_is_adjacent_partial; the line-level rule is
                         evaluated by the monitor `rule_check` (independent oracle on generated layouts).
     C14_idempotent, C14_parse_then_claim, C14_unclaim_claim : monitors only (need the whole-tree traversal).
   Refuted on the unrepaired code by the monitors, see fixes/c14-*.md. *)
From AB Require Import Prelude Comments CommentsProofs.

Theorem C14_unique_step_partial : forall st o, Inv st -> Inv (sstep st o).
Proof. exact sstep_inv. Qed.

Theorem C14_unique_history_partial : forall ops st, Inv st -> Inv (fold_left sstep ops st).
Proof. exact shistory_inv. Qed.

Theorem C14_claimed_is_adjacent_partial : forall d start bw ig ind r d',
  NoDup (ids d) -> claim_comment None d start bw ig ind = (r, d') ->
  (d' = d /\ (r = Ok None \/ exists e, r = Err e)) \/
  (exists t d2, r = Ok (Some (t_id t)) /\ In t d /\ is_comment t = true /\ t_claimed t = false /\
                Permutation.Permutation d2 d /\ d' = set_claimed (t_id t) true d2 /\
                match ind with Some b => comment_indented t = b | None => True end).
Proof. exact claim_comment_cases. Qed.

(* non-vacuity: the invariant holds of a concrete store with an empty table, and a claim changes the table *)
Example C14_nonvacuous :
  Inv (ex_doc, []) /\
  snd (sstep (ex_doc, []) (ClaimTrail 1 3 false (Some false))) = [(STrail 1, [6])] /\
  snd (sstep (ex_doc, []) (ClaimTrail 1 3 false (Some true))) = [(STrail 1, [])].
Proof. split; [exact ex_inv | split; vm_compute; reflexivity]. Qed.
