(* C14 - every block comment has at most one owner, chosen by the documented rules.

   State: (token list, ownership table); calls: claim_/unclaim_ leading/trailing (`OS`), claim_/unclaim_
   interleaving comments (`OClaimInter`/`OUnclaimInter`); auto_claim_comments is the sequence of such calls the
   generated code emits (all with ignore_if_already_claimed=True / no explicit comment list: `is_auto_op`).
   Inv = token ids unique (the store invariant of C07) /\ OwnInv (every block comment is referenced by <= 1 slot
   and its claimed flag is set iff it is referenced by exactly one) /\ leading/trailing slots hold <= 1 comment.
   Every hypothesis below is a boolean evaluated by the harness on every trace of the implementation
   (CommentsRun.hyp_case): inv_b on every parsed state, op_ok before every call (the item list handed to the
   claimer is the table's, and its items lie in store order behind the field's placeholder), auto_ok in a repeated
   auto-claim, adjacent_comment before an unclaim+claim.

   Closed in session 4 (CommentsRange.v = the claimer's range read off _find_outer/_find_inner, CommentsComplete.v):
     C14_claimer_claim_covers / _frame / C14_claimer_range_stops : claim_interleaving_comments() claims exactly the
        unclaimed block comments (with text) of its range and nothing outside it; the range ends in front of the
        first claimed comment / token with text that is no Newline or Whitespace, and behind the model's first/last
        token - comments beyond are NOT covered, nor are comments inside the span of an item.
     C14_file_auto_claim_all_claimed, C14_idempotent_file : "no block comment is left unowned" for the root File and
        idempotence of File.auto_claim_comments WITHOUT assuming that everything is claimed.  The one hypothesis about
        what the children's claims leave behind is the boolean file_cover_b (every block comment still unclaimed when
        the File's own claim starts lies in the File's range and has text), evaluated per trace at every File-level
        claim (CommentsRun k_mode 4; counter hyp_file_cover_steps).  C14_idempotent_partial is kept (any sub-model,
        under all_claimed).
     C14_unclaim_claim_interleaving : full; acceptance of the claim (C14_claim_accepted, with the converse
        C14_claim_accepted_only and C14_claimer_only_value_error) under the position hypothesis claimable_b (every
        comment of cs is an unclaimed comment in the range of the field, or an entry already), evaluated per trace
        (k_mode 3; counter hyp_restore_interleaving).  Without it the statement is FALSE:
        C14_unclaim_claim_interleaving_unconditional_refuted - a comment entry appended to the empty meta field of a
        directive without indented body (no DedentMark): after the un-claim the model's last token is the field's own
        placeholder = the scan limit, claim_interleaving_comments(cs) raises ValueError('1 comment(s) not found.');
        reproduced on the implementation (parse '2000-01-01 open Assets:A\n', raw_meta_with_comments.append(
        BlockComment.from_value('c', indent='  ')), unclaim_interleaving_comments(), claim_interleaving_comments(u)).
   Still partial:
     C14_rule_single_claim is complete for one surrounding claim (declarative iff on the token list; the
        _sound/_complete forms add the resulting document).  The rule over whole layouts is NOT proved.
        Missing: attrib_spec over whole line layouts (priority leading > trailing > standalone across models, and
        the standalone fall-through) - evaluated by the monitor `rule_check` on every generated layout, excluding
        the known-finding layout (transaction with meta but no postings, C14:rule:empty-postings-claim-first). *)
From AB Require Import Prelude Comments CommentsProofs CommentsOwn CommentsRestore.

(* eop = the six comment calls + node-level assignment of a comment (x.raw_leading_comment = c, insertion into a
   *_with_comments list: BlockComment.reattach sets the flag, the slot references the comment) *)
Theorem C14_unique_step : forall st o, Inv st -> eop_ok st o = true -> Inv (estep st o).
Proof. exact estep_inv. Qed.

Theorem C14_unique_history : forall ops st, Inv st -> ehist_ok ops st = true -> Inv (fold_left estep ops st).
Proof. exact ehistory_inv. Qed.

Theorem C14_inv_b_sound : forall st, inv_b st = true -> Inv st.
Proof. exact inv_b_ok. Qed.

Theorem C14_unclaim_claim_surrounding : forall (lead : bool) d tb n start ig ind c,
  NoDup (ids d) ->
  adjacent_comment d start lead ind = Some c -> t_claimed c = true ->
  tget tb (if lead then SLead n else STrail n) = [t_id c] ->
  let st' := sstep (sstep (d, tb) (if lead then UnclaimLead n else UnclaimTrail n))
                   (if lead then ClaimLead n start ig ind else ClaimTrail n start ig ind) in
  teq (snd st') tb /\ Permutation.Permutation (fst st') d.
Proof. exact sstep_unclaim_claim_b. Qed.

Theorem C14_unclaim_claim_interleaving_partial : forall d tb r items flt un kept d1 ph items2 mf ml ret its d2,
  Inv (d, tb) -> refs_ok_b d items = true -> old_comments items = tget tb (SRep r) ->
  unclaim_inter d items flt = (Ok (un, kept), d1) ->
  map oitem_of items2 = kept -> items_ordered_b d1 ph items2 = true ->
  claimer_claim d1 ph items2 mf ml (Some un) = (Ok (ret, its), d2) ->
  (forall c, count_z c (comments_of its) = count_z c (old_comments items)) /\ Permutation.Permutation d2 d.
Proof. exact inter_unclaim_claim. Qed.

(* the rule for ONE surrounding claim, declaratively on the token list: the call returns comment i exactly when
   the store reads  pre ++ model_token :: g1 ++ [newline] ++ g2 ++ [comment] ++ post  (mirrored for a leading
   claim) with g1, g2 placeholders only, the comment unclaimed and of the model's indentation class *)
Theorem C14_rule_single_claim : forall d start bw ig ind i,
  NoDup (ids d) ->
  (fst (claim_comment None d start bw ig ind) = Ok (Some i) <->
   exists c, t_id c = i /\ adjacent_decl d start bw ind c).
Proof. exact rule_single_claim. Qed.

Theorem C14_idempotent_partial : forall ops st,
  Inv st -> all_claimed (fst st) -> hist_auto_ok ops st = true ->
  fst (fold_left cstep ops st) = fst st /\ teq (snd (fold_left cstep ops st)) (snd st).
Proof. exact auto_history_noop. Qed.

Theorem C14_rule_local_sound_partial : forall d start bw ig ind r d',
  NoDup (ids d) -> claim_comment None d start bw ig ind = (r, d') ->
  (d' = d /\ (r = Ok None \/ exists e, r = Err e)) \/
  (exists t d2, r = Ok (Some (t_id t)) /\ In t d /\ is_comment t = true /\ t_claimed t = false /\
                Permutation.Permutation d2 d /\ d' = set_claimed (t_id t) true d2 /\
                match ind with Some b => comment_indented t = b | None => True end).
Proof. exact claim_comment_cases. Qed.

Theorem C14_rule_local_complete_partial : forall d start bw ig ind first w' ign1 nl ign2 c rest,
  NoDup (ids d) ->
  walk d start bw = Some (first :: w') ->
  first :: w' = ign1 ++ nl :: ign2 ++ c :: rest ->
  forallb is_ph ign1 = true -> forallb is_ph ign2 = true -> is_nl nl = true -> is_comment c = true ->
  t_claimed c = false -> match ind with Some b => comment_indented c = b | None => True end ->
  exists d2, Permutation.Permutation d2 d /\
    claim_comment None d start bw ig ind = (Ok (Some (t_id c)), set_claimed (t_id c) true d2).
Proof. exact claim_comment_complete. Qed.

(* non-vacuity: the invariant holds of a concrete store with an empty table, a claim changes the table, the
   hypotheses of the history theorem are satisfiable by a history that uses the interleaving claimer *)
Example C14_nonvacuous :
  Inv (ex_doc, []) /\
  snd (sstep (ex_doc, []) (ClaimTrail 1 3 false (Some false))) = [(STrail 1, [6])] /\
  snd (sstep (ex_doc, []) (ClaimTrail 1 3 false (Some true))) = [(STrail 1, [])] /\
  (let ops := [OClaimInter 9 1 [mkitem false 7 2 4] 1 8 None; OUnclaimInter 9 [mkitem false 7 2 4; mkitem true 6 6 6] None;
               OS (ClaimTrail 7 4 true None); OS (UnclaimTrail 7); OS (ClaimTrail 7 4 true None)] in
   hist_ok ops (ex_doc, []) = true /\
   snd (fold_left cstep ops (ex_doc, [])) = [(SRep 9, []); (STrail 7, [6])]) /\
  adjacent_comment ex_doc 3 false (Some false) = Some (mktok 6 KBlockComment [59; 32; 99] false).
Proof. split; [exact ex_inv | repeat split; vm_compute; reflexivity]. Qed.

(* ---- session 4: the range of the interleaving claimer, "no comment is left unowned", acceptance of a re-claim ---- *)
From AB Require Import CommentsRange CommentsComplete.

(* where one _find_outer scan stops: the run is a prefix of the walk made of tokens the scan steps over; it ends at
   the end of the store, behind the limit token, or in front of a token that stops it *)
Theorem C14_claimer_range_stops : forall w prev limit,
  exists rest, w = outer_run prev w limit ++ rest /\
    forallb passes (outer_run prev w limit) = true /\
    (rest = [] \/ last (prev :: ids (outer_run prev w limit)) 0 = limit \/
     exists s r, rest = s :: r /\ passes s = false).
Proof. exact outer_run_decl. Qed.

Theorem C14_claimer_claim_covers : forall d ph items mf ml ret its d',
  NoDup (ids d) ->
  claimer_claim d ph items mf ml None = (Ok (ret, its), d') ->
  (forall x, In x (old_comments items) -> In x (comments_of its)) /\
  forall t', In t' d' -> is_comment t' = true -> text_empty t' = false ->
    In (t_id t') (ids (claim_range d ph items mf ml)) ->
    t_claimed t' = true /\
    (forall t, In t d -> t_id t = t_id t' -> t_claimed t = false -> In (t_id t') (comments_of its)).
Proof. exact claimer_claim_covers. Qed.

Theorem C14_claimer_claim_frame : forall d ph items mf ml flt ret its d',
  claimer_claim d ph items mf ml flt = (Ok (ret, its), d') ->
  (forall x, In x (comments_of its) -> In x (ids (claim_range d ph items mf ml)) \/ In x (old_comments items)) /\
  (forall t', In t' d' -> ~ In (t_id t') (ids (claim_range d ph items mf ml)) ->
              ~ In (t_id t') (old_comments items) -> In t' d).
Proof. exact claimer_claim_frame. Qed.

(* the claimer raises nothing but ValueError('... not found') - exactly when comments of the list are left over -
   and has written nothing then *)
Theorem C14_claimer_only_value_error : forall d ph items mf ml flt,
  NoDup (ids d) -> has_tok_b d ph = true -> items_ordered_b d ph items = true ->
  exists wb wa cb_rev s1 inner s2 ca s3,
    walk d ph true = Some wb /\ walk d (rep_last ph items) false = Some wa /\
    find_outer ph wb mf flt = (cb_rev, s1) /\ find_inner d (from_incl d ph) items s1 = (inner, s2) /\
    find_outer (rep_last ph items) wa ml s2 = (ca, s3) /\
    let its := map (fun c => (true, c)) (rev cb_rev) ++ inner ++ map (fun c => (true, c)) ca in
    if cs_nonempty s3 then claimer_claim d ph items mf ml flt = (Err ValueError, d)
    else exists d2, Permutation.Permutation d2 d /\
         claimer_claim d ph items mf ml flt = (Ok (comments_of its, its), claim_all (comments_of its) d2).
Proof. exact claimer_claim_total. Qed.

Theorem C14_claim_accepted : forall d ph items mf ml cs,
  NoDup (ids d) -> has_tok_b d ph = true -> items_ordered_b d ph items = true ->
  claimable_b d ph items mf ml cs = true ->
  exists ret its d', claimer_claim d ph items mf ml (Some cs) = (Ok (ret, its), d').
Proof. exact claimer_claim_accepts. Qed.

Theorem C14_claim_accepted_only : forall d ph items mf ml cs ret its d',
  claimer_claim d ph items mf ml (Some cs) = (Ok (ret, its), d') ->
  forall c, In c cs -> In c (ids (claim_range d ph items mf ml)) \/ In c (old_comments items).
Proof. exact claimer_claim_accepted_only. Qed.

Theorem C14_file_auto_claim_all_claimed : forall d tb r ph items mf ml,
  Inv (d, tb) -> items_ordered_b d ph items = true -> file_cover_b d ph items mf ml = true ->
  all_claimed (fst (cstep (d, tb) (OClaimInter r ph items mf ml None))).
Proof. exact file_claim_all_claimed. Qed.

(* File.auto_claim_comments() = ops1 (the children, last to first) followed by the File's own
   claim_interleaving_comments(); ops2 = the calls of a second run *)
Theorem C14_idempotent_file : forall ops1 st r ph items mf ml ops2,
  Inv st -> hist_ok (ops1 ++ [OClaimInter r ph items mf ml None]) st = true ->
  file_cover_b (fst (fold_left cstep ops1 st)) ph items mf ml = true ->
  let st2 := fold_left cstep (ops1 ++ [OClaimInter r ph items mf ml None]) st in
  all_claimed (fst st2) /\
  (hist_auto_ok ops2 st2 = true ->
   fst (fold_left cstep ops2 st2) = fst st2 /\ teq (snd (fold_left cstep ops2 st2)) (snd st2)).
Proof. exact idempotent_file. Qed.

Theorem C14_unclaim_claim_interleaving : forall d tb r items flt un kept d1 ph items2 mf ml,
  Inv (d, tb) -> refs_ok_b d items = true -> old_comments items = tget tb (SRep r) ->
  unclaim_inter d items flt = (Ok (un, kept), d1) ->
  map oitem_of items2 = kept -> items_ordered_b d1 ph items2 = true ->
  has_tok_b d1 ph = true -> claimable_b d1 ph items2 mf ml un = true ->
  exists ret its d2, claimer_claim d1 ph items2 mf ml (Some un) = (Ok (ret, its), d2) /\
    (forall c, count_z c (comments_of its) = count_z c (old_comments items)) /\ Permutation.Permutation d2 d.
Proof. exact inter_unclaim_claim_full. Qed.

Theorem C14_unclaim_claim_interleaving_unconditional_refuted :
  exists d tb r items flt un kept d1 ph items2 mf ml,
    Inv (d, tb) /\ refs_ok_b d items = true /\ old_comments items = tget tb (SRep r) /\
    items_ordered_b d ph items = true /\
    unclaim_inter d items flt = (Ok (un, kept), d1) /\ map oitem_of items2 = kept /\
    items_ordered_b d1 ph items2 = true /\ has_tok_b d1 ph = true /\
    claimer_claim d1 ph items2 mf ml (Some un) = (Err ValueError, d1) /\
    claimable_b d1 ph items2 mf ml un = false.
Proof. exact inter_unclaim_claim_unconditional_refuted. Qed.

(* non-vacuity: on ex_doc (placeholder, a directive, `; c` two lines below it, another token) the File-level
   hypotheses hold, the claim takes the comment (range = placeholder, the two line breaks and the comment - not the
   token behind them), a second run is an auto history; after un-claiming the comment the re-claim hypotheses hold *)
Example C14_complete_nonvacuous :
  let items := [mkitem false 7 2 4] in
  let items' := [mkitem false 7 2 4; mkitem true 6 6 6] in
  let st1 := cstep (ex_doc, []) (OClaimInter 9 1 items 1 8 None) in
  hist_ok ([] ++ [OClaimInter 9 1 items 1 8 None]) (ex_doc, []) = true /\
  file_cover_b ex_doc 1 items 1 8 = true /\
  hist_auto_ok [OClaimInter 9 1 items' 1 8 None] st1 = true /\
  map t_id (filter t_claimed (fst st1)) = [6] /\ snd st1 = [(SRep 9, [6])] /\
  ids (claim_range ex_doc 1 items 1 8) = [1; 5; 6; 7] /\
  (let d := fst st1 in
   refs_ok_b d items' = true /\ old_comments items' = tget (snd st1) (SRep 9) /\
   unclaim_inter d items' (Some [6]) = (Ok ([6], [(false, 7)]), unclaim_all [6] d) /\
   items_ordered_b (unclaim_all [6] d) 1 items = true /\ has_tok_b (unclaim_all [6] d) 1 = true /\
   claimable_b (unclaim_all [6] d) 1 items 1 8 [6] = true /\
   fst (claimer_claim (unclaim_all [6] d) 1 items 1 8 (Some [6])) = Ok ([6], [(false, 7); (true, 6)])).
Proof. repeat split; vm_compute; reflexivity. Qed.
