(* C14 - every block comment has at most one owner, chosen by the documented rules.

   State: (token list, ownership table); calls: claim_/unclaim_ leading/trailing (`OS`), claim_/unclaim_
   interleaving comments (`OClaimInter`/`OUnclaimInter`); auto_claim_comments is the sequence of such calls the
   generated code emits (all with ignore_if_already_claimed=True / no explicit comment list: `is_auto_op`).
   Inv = token ids unique (the store invariant of C07) /\ OwnInv (every block comment is referenced by <= 1 slot
   and its claimed flag is set iff it is referenced by exactly one) /\ leading/trailing slots hold <= 1 comment.
   Every hypothesis below is a boolean evaluated by the harness on every trace of the implementation
   (CommentsRun.hyp_case): inv_b on every parsed state, op_ok before every call (the item list handed to the
   claimer is the table's, and its items lie in store order behind the field's placeholder), auto_ok in a repeated
   auto-claim, adjacent_comment before an unclaim+claim.

   Still partial:
     C14_unclaim_claim_interleaving_partial : unclaim_interleaving_comments(cs) then claim_interleaving_comments(cs)
        gives back the same entries (as a multiset; their order is the store order) and the same flags, *if the
        claim is accepted*. Missing: that it is accepted (no ValueError), which needs the position of the comments
        relative to the model's first/last token; evaluated by the monitor C14:unclaim-claim.
        (C14_unclaim_claim_surrounding, the leading/trailing half, is complete.)
     C14_idempotent_partial : under the hypothesis that every block comment of the store is claimed (what the first
        File.auto_claim_comments establishes: monitor C14:unowned-after-parse; not proved because it needs the
        whole-tree traversal). Does not speak about auto_claim_comments of a sub-model while comments elsewhere
        are unclaimed.
     C14_rule_single_claim is complete for one surrounding claim (declarative iff on the token list; the
        _sound/_complete forms add the resulting document).  The rule over whole layouts is NOT proved.
        Missing: attrib_spec over whole line layouts (priority leading > trailing > standalone across models, and
        the standalone fall-through) - evaluated by the monitor `rule_check` on every generated layout, excluding
        the known-finding layout (transaction with meta but no postings, C14:rule:empty-postings-claim-first). *)
From AB Require Import Prelude Comments CommentsProofs CommentsOwn CommentsRestore.

(* eop = the six comment calls + node-level assignment of a comment (x.raw_leading_comment = c, insertion into a
   *_with_comments list: BlockComment.reattach sets the flag, the slot references the comment) *)
Theorem C14_unique_step : forall st o, Inv st -> eop_ok st o = true -> Inv (estep st o).
Proof. exact estep_inv. Qed.

Theorem C14_unique_history : forall ops st, Inv st -> ehist_ok ops st = true -> Inv (fold_left estep ops st).
Proof. exact ehistory_inv. Qed.

Theorem C14_inv_b_sound : forall st, inv_b st = true -> Inv st.
Proof. exact inv_b_ok. Qed.

Theorem C14_unclaim_claim_surrounding : forall (lead : bool) d tb n start ig ind c,
  NoDup (ids d) ->
  adjacent_comment d start lead ind = Some c -> t_claimed c = true ->
  tget tb (if lead then SLead n else STrail n) = [t_id c] ->
  let st' := sstep (sstep (d, tb) (if lead then UnclaimLead n else UnclaimTrail n))
                   (if lead then ClaimLead n start ig ind else ClaimTrail n start ig ind) in
  teq (snd st') tb /\ Permutation.Permutation (fst st') d.
Proof. exact sstep_unclaim_claim_b. Qed.

Theorem C14_unclaim_claim_interleaving_partial : forall d tb r items flt un kept d1 ph items2 mf ml ret its d2,
  Inv (d, tb) -> refs_ok_b d items = true -> old_comments items = tget tb (SRep r) ->
  unclaim_inter d items flt = (Ok (un, kept), d1) ->
  map oitem_of items2 = kept -> items_ordered_b d1 ph items2 = true ->
  claimer_claim d1 ph items2 mf ml (Some un) = (Ok (ret, its), d2) ->
  (forall c, count_z c (comments_of its) = count_z c (old_comments items)) /\ Permutation.Permutation d2 d.
Proof. exact inter_unclaim_claim. Qed.

(* the rule for ONE surrounding claim, declaratively on the token list: the call returns comment i exactly when
   the store reads  pre ++ model_token :: g1 ++ [newline] ++ g2 ++ [comment] ++ post  (mirrored for a leading
   claim) with g1, g2 placeholders only, the comment unclaimed and of the model's indentation class *)
Theorem C14_rule_single_claim : forall d start bw ig ind i,
  NoDup (ids d) ->
  (fst (claim_comment None d start bw ig ind) = Ok (Some i) <->
   exists c, t_id c = i /\ adjacent_decl d start bw ind c).
Proof. exact rule_single_claim. Qed.

Theorem C14_idempotent_partial : forall ops st,
  Inv st -> all_claimed (fst st) -> hist_auto_ok ops st = true ->
  fst (fold_left cstep ops st) = fst st /\ teq (snd (fold_left cstep ops st)) (snd st).
Proof. exact auto_history_noop. Qed.

Theorem C14_rule_local_sound_partial : forall d start bw ig ind r d',
  NoDup (ids d) -> claim_comment None d start bw ig ind = (r, d') ->
  (d' = d /\ (r = Ok None \/ exists e, r = Err e)) \/
  (exists t d2, r = Ok (Some (t_id t)) /\ In t d /\ is_comment t = true /\ t_claimed t = false /\
                Permutation.Permutation d2 d /\ d' = set_claimed (t_id t) true d2 /\
                match ind with Some b => comment_indented t = b | None => True end).
Proof. exact claim_comment_cases. Qed.

Theorem C14_rule_local_complete_partial : forall d start bw ig ind first w' ign1 nl ign2 c rest,
  NoDup (ids d) ->
  walk d start bw = Some (first :: w') ->
  first :: w' = ign1 ++ nl :: ign2 ++ c :: rest ->
  forallb is_ph ign1 = true -> forallb is_ph ign2 = true -> is_nl nl = true -> is_comment c = true ->
  t_claimed c = false -> match ind with Some b => comment_indented c = b | None => True end ->
  exists d2, Permutation.Permutation d2 d /\
    claim_comment None d start bw ig ind = (Ok (Some (t_id c)), set_claimed (t_id c) true d2).
Proof. exact claim_comment_complete. Qed.

(* non-vacuity: the invariant holds of a concrete store with an empty table, a claim changes the table, the
   hypotheses of the history theorem are satisfiable by a history that uses the interleaving claimer *)
Example C14_nonvacuous :
  Inv (ex_doc, []) /\
  snd (sstep (ex_doc, []) (ClaimTrail 1 3 false (Some false))) = [(STrail 1, [6])] /\
  snd (sstep (ex_doc, []) (ClaimTrail 1 3 false (Some true))) = [(STrail 1, [])] /\
  (let ops := [OClaimInter 9 1 [mkitem false 7 2 4] 1 8 None; OUnclaimInter 9 [mkitem false 7 2 4; mkitem true 6 6 6] None;
               OS (ClaimTrail 7 4 true None); OS (UnclaimTrail 7); OS (ClaimTrail 7 4 true None)] in
   hist_ok ops (ex_doc, []) = true /\
   snd (fold_left cstep ops (ex_doc, [])) = [(SRep 9, []); (STrail 7, [6])]) /\
  adjacent_comment ex_doc 3 false (Some false) = Some (mktok 6 KBlockComment [59; 32; 99] false).
Proof. split; [exact ex_inv | repeat split; vm_compute; reflexivity]. Qed.
