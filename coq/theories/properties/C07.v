From AB Require Import Store.
Theorem C07_placeholder : True. Proof. exact I. Qed.
