(* C07 - the token store behaves exactly like a plain ordered sequence.
   Model: Store.v (statement-by-statement transcription of autobean_refactor/token_store.py, tied to the
   code by the full-state correspondence of harness/store_check.py).  `abs s` is the plain list
   (concatenation of the blocks' token lists), `Inv s` the representation invariant (StoreInv.v),
   `list_splice l ts p q = firstn p l ++ ts ++ skipn q l` the list reference.  All theorems hold for every
   load factor LF >= 1, in particular for the LF >= 2 the property names; they cover block splits, merges
   (both outcomes) and rebalancing because they are proved about _update_block itself.
   `r = Ok tt` in the conclusions says that no IndexError / ValueError / OutOfFuel is reachable.

   Store identity.  A store_handle is (store id, block, index); `raw s t` is the handle as stored,
   `hnd s t` the handle as THIS store sees it (_check_store_handle(token, self): None for a token without
   a handle - `free` - and for a token whose handle names another store - `foreign`).  The model follows one
   store; other stores only exist through the foreign handles their tokens carry.  What is proved about
   them: every operation and observer of this store refuses a foreign reference token and a foreign
   inserted token (C07_bad_reference_refused, C07_refusals), and leaves every foreign token untouched
   (C07_foreign_untouched, `frames`).  What is NOT in the model: the effect of a text update of a foreign
   token on ITS store (Token._update_raw_text calls the token's own store; here it leaves this store alone),
   and anything another store does to its own tokens.  `pure s` = no foreign token around; histories that
   start from one fresh store stay pure (TokenStore() / from_tokens are only valid on an empty store, whose
   tokens are then all free), and under `pure s` "not in the list" and "free" coincide. *)
From AB Require Import StoreTop StoreRefuse StoreRun.
From AB Require StoreLinkRepeated StoreLinkComments StoreLinkMisc.
From AB Require Import StoreLink.

(* ---- the mutators refine the list splice, keep the invariant, never raise, leave texts alone, keep the
        store's identity, leave the handles of all other tokens alone and detach the removed ones (`frames`) *)

Theorem C07_splice_refines :
  forall (LF : Z) (s : store) (tokens : list positive) (ref del_end : option positive) 
    (p q : nat) (s' : store) (r : res unit),
  1 <= LF ->
  Inv s ->
  ref_pos (abs s) ref p ->
  end_pos (abs s) del_end p q ->
  valid_tokens s tokens p q ->
  splice LF s tokens ref del_end = (s', r) ->
  r = Ok tt /\
  Inv s' /\
  abs s' = list_splice (abs s) tokens p q /\
  (forall t : positive, txt s' t = txt s t) /\ frames s s' tokens p q.
Proof. exact splice_spec. Qed.

Example C07_splice_refines_nonvacuous :
  Inv ex_s /\ length (s_blocks ex_s) = 4%nat /\
  ref_pos (abs ex_s) (Some 2%positive) 1 /\ end_pos (abs ex_s) (Some 6%positive) 1 6 /\
  valid_tokens ex_s [8; 3]%positive 1 6.
Proof. exact (conj (proj1 ex_inv) (conj ex_blocks ex_splice_args)). Qed.

(* removed tokens are detached (store_handle = None) *)

Theorem C07_splice_detaches :
  forall (LF : Z) (s : store) (tokens : list positive) (ref del_end : option positive) 
    (p q : nat) (s' : store) (r : res unit),
  1 <= LF ->
  Inv s ->
  ref_pos (abs s) ref p ->
  end_pos (abs s) del_end p q ->
  valid_tokens s tokens p q ->
  splice LF s tokens ref del_end = (s', r) ->
  forall t : positive, In t (firstn (q - p) (skipn p (abs s))) -> ~ In t tokens -> raw s' t = None.
Proof. exact splice_detaches. Qed.


(* in any state satisfying the invariant: tokens outside the store have no place in it, tokens inside know
   their block and offset, and the block knows its position *)

Theorem C07_detached :
  forall (s : store) (t : positive), Inv s -> ~ In t (abs s) -> hnd s t = None.
Proof. exact detached. Qed.

Theorem C07_attached :
  forall (s : store) (k : nat) (t : positive),
  Inv s ->
  nth_error (abs s) k = Some t ->
  exists (i : nat) (b : positive) (j : nat),
    nth_error (s_blocks s) i = Some b /\
    nth_error (toks s b) j = Some t /\
    k = (length (flat_map (toks s) (firstn i (s_blocks s))) + j)%nat /\
    hnd s t = Some (b, Z.of_nat j) /\ bidx s b = Z.of_nat i.
Proof. exact attached. Qed.

Theorem C07_foreign_not_in_store :
  forall (s : store) (t : positive), Inv s -> foreign s t -> ~ In t (abs s).
Proof. exact foreign_not_in. Qed.

Theorem C07_insert_after_refines :
  forall (LF : Z) (s : store) (tokens : list positive) (ref : option positive) 
    (p : nat) (s' : store) (r : res unit),
  1 <= LF ->
  Inv s ->
  match ref with
  | Some r0 => (1 <= p)%nat /\ nth_error (abs s) (p - 1) = Some r0
  | None => p = 0%nat
  end ->
  NoDup tokens ->
  (forall t : positive, In t tokens -> free s t) ->
  insert_after LF s ref tokens = (s', r) ->
  r = Ok tt /\
  Inv s' /\
  abs s' = list_splice (abs s) tokens p p /\
  (forall t : positive, txt s' t = txt s t) /\ frames s s' tokens p p.
Proof. exact insert_after_spec. Qed.

Theorem C07_insert_before_refines :
  forall (LF : Z) (s : store) (tokens : list positive) (ref : option positive) 
    (p : nat) (s' : store) (r : res unit),
  1 <= LF ->
  Inv s ->
  ref_pos (abs s) ref p ->
  NoDup tokens ->
  (forall t : positive, In t tokens -> free s t) ->
  insert_before LF s ref tokens = (s', r) ->
  r = Ok tt /\
  Inv s' /\
  abs s' = list_splice (abs s) tokens p p /\
  (forall t : positive, txt s' t = txt s t) /\ frames s s' tokens p p.
Proof. exact insert_before_spec. Qed.

Theorem C07_replace_refines :
  forall (LF : Z) (s : store) (t r0 : positive) (k : nat) (s' : store) (r : res unit),
  1 <= LF ->
  Inv s ->
  nth_error (abs s) k = Some t ->
  r0 = t \/ free s r0 ->
  replace LF s t r0 = (s', r) ->
  r = Ok tt /\
  Inv s' /\
  abs s' = list_splice (abs s) [r0] k (S k) /\
  (forall u : positive, txt s' u = txt s u) /\ frames s s' [r0] k (S k).
Proof. exact replace_spec. Qed.

Theorem C07_remove_refines :
  forall (LF : Z) (s : store) (a : positive) (b : option positive) (ka kb : nat) 
    (s' : store) (r : res unit),
  1 <= LF ->
  Inv s ->
  nth_error (abs s) ka = Some a ->
  match b with
  | Some b0 => (ka <= kb)%nat /\ nth_error (abs s) kb = Some b0
  | None => kb = ka
  end ->
  remove LF s a b = (s', r) ->
  r = Ok tt /\
  Inv s' /\
  abs s' = list_splice (abs s) [] ka (S kb) /\
  (forall u : positive, txt s' u = txt s u) /\ frames s s' [] ka (S kb).
Proof. exact remove_spec. Qed.

Example C07_mutators_nonvacuous :
  Inv ex_s /\ nth_error (abs ex_s) 2 = Some 3%positive /\ nth_error (abs ex_s) 5 = Some 6%positive /\
  free ex_s 9%positive.
Proof.
  split; [exact (proj1 ex_inv)|]. rewrite (proj2 ex_inv). split; [reflexivity|]. split; [reflexivity|vm_compute; reflexivity].
Qed.

(* `frames` keep the absence of foreign tokens *)

Theorem C07_frames_keep_purity :
  forall (s s' : store) (tokens : list positive) (p q : nat),
  Inv s ->
  Inv s' ->
  (p <= q)%nat ->
  abs s' = firstn p (abs s) ++ tokens ++ skipn q (abs s) ->
  frames s s' tokens p q -> pure s -> pure s'.
Proof. exact frames_pure. Qed.


(* the block-level statement underneath (start/end given as (block, offset) pairs), covering the fast
   path, _update_block (rebuild / merge / split) and the multi-block path *)

Theorem C07_splice_block_level :
  forall (LF : Z) (s : store) (tokens : list positive) (si sj ei ej : nat) 
    (bs be : positive) (s' : store) (r : res unit),
  1 <= LF ->
  Inv s ->
  nth_error (s_blocks s) si = Some bs ->
  nth_error (s_blocks s) ei = Some be ->
  (sj <= length (toks s bs))%nat ->
  (ej <= length (toks s be))%nat ->
  (si < ei)%nat \/ si = ei /\ (sj <= ej)%nat ->
  NoDup tokens ->
  let F := fun n : nat => length (flat_map (toks s) (firstn n (s_blocks s))) in
  let p := (F si + sj)%nat in
  let q := (F ei + ej)%nat in
  (forall t : positive, In t tokens -> free s t \/ In t (firstn (q - p) (skipn p (abs s)))) ->
  splice_ LF s tokens (Z.of_nat si, Z.of_nat sj) (Z.of_nat ei, Z.of_nat ej) = (s', r) ->
  r = Ok tt /\
  Inv s' /\
  abs s' = firstn p (abs s) ++ tokens ++ skipn q (abs s) /\
  (forall t : positive, txt s' t = txt s t) /\
  s_id s' = s_id s /\
  (forall t : positive, ~ In t (abs s) -> ~ In t tokens -> raw s' t = raw s t) /\
  (forall t : positive, In t (firstn (q - p) (skipn p (abs s))) -> ~ In t tokens -> raw s' t = None).
Proof. exact splice__spec. Qed.


(* _update_block repairs a store in which only block b is stale, without changing the sequence *)

Theorem C07_update_block :
  forall (LF : Z) (s : store) (b : positive) (s' : store) (r : res unit),
  1 <= LF ->
  InvG (eq b) s ->
  In b (s_blocks s) ->
  update_block LF s b = (s', r) -> r = Ok tt /\ Inv0 s' /\ abs s' = abs s /\ frame_ok s s'.
Proof. exact update_block_spec. Qed.


(* ---- observers = list functions on the abstraction; tokens that are not in this store (free or foreign)
        make every observer raise ValueError *)

Theorem C07_observers :
  forall s : store,
  Inv s ->
  all_tokens s = abs s /\
  len s = zlen (abs s) /\
  get_first s = Ok (nth_error (abs s) 0) /\
  get_last s = Ok (nth_error (abs s) (length (abs s) - 1)) /\
  (forall (k : nat) (t : positive),
   nth_error (abs s) k = Some t ->
   get_index s t = Ok (Z.of_nat k) /\
   get_prev s t = Ok match k with
                     | 0%nat => None
                     | S k' => nth_error (abs s) k'
                     end /\ get_next s t = Ok (nth_error (abs s) (S k))) /\
  (forall (k1 k2 : nat) (a b : positive),
   nth_error (abs s) k1 = Some a ->
   nth_error (abs s) k2 = Some b -> iter_range s a b = Ok (firstn (k2 + 1 - k1) (skipn k1 (abs s)))) /\
  (forall t : positive,
   ~ In t (abs s) ->
   get_index s t = Err ValueError /\
   get_prev s t = Err ValueError /\
   get_next s t = Err ValueError /\
   get_position s t = Err ValueError /\
   (forall u : positive, iter_range s t u = Err ValueError /\ iter_range s u t = Err ValueError)).
Proof. exact observers_spec. Qed.

Example C07_observers_nonvacuous : Inv ex_s /\ abs ex_s = ex_ids /\ length (s_blocks ex_s) = 4%nat.
Proof. exact (conj (proj1 ex_inv) (conj (proj2 ex_inv) ex_blocks)). Qed.

(* iter over a reversed pair lying in different blocks (token 6 = block 5, token 2 = block 2) yields nothing *)
Example C07_iter_reversed_cross_block :
  nth_error (abs ex_s) 5 = Some 6%positive /\ nth_error (abs ex_s) 1 = Some 2%positive /\
  hnd ex_s 6%positive = Some (5%positive, 0) /\ hnd ex_s 2%positive = Some (2%positive, 1) /\
  iter_range ex_s 6%positive 2%positive = Ok [].
Proof. exact ex_iter_reversed. Qed.

(* ---- constructors establish the invariant *)

Theorem C07_empty_store :
  forall (sid : positive) (tk : tokmap),
  clean tk -> Inv (empty_store sid tk) /\ abs (empty_store sid tk) = [].
Proof. exact empty_inv. Qed.

Theorem C07_from_tokens :
  forall (LF : Z) (sid : positive) (tk : tokmap) (ts : list positive) (s' : store) (r : res unit),
  1 <= LF ->
  clean tk ->
  NoDup ts ->
  from_tokens LF sid tk ts = (s', r) ->
  r = Ok tt /\
  Inv s' /\
  abs s' = ts /\ (forall t : positive, txt s' t = t_text (tget tk t)) /\ s_id s' = sid /\ pure s'.
Proof. exact from_tokens_spec. Qed.


(* the same next to other stores (tokens of other stores carry other ids; only the new id must be unused);
   from_tokens is accepted EXACTLY when every listed token is free and none is listed twice; otherwise it
   raises ValueError, the store built so far is the discarded empty one, and the token map - text, size
   and handle of every token, listed or not - is the one passed in *)

Theorem C07_empty_store_general :
  forall (sid : positive) (tk : tokmap),
  sizes_ok tk -> fresh_id sid tk -> Inv (empty_store sid tk) /\ abs (empty_store sid tk) = [].
Proof. exact empty_inv_gen. Qed.

Theorem C07_from_tokens_general :
  forall (LF : Z) (sid : positive) (tk : tokmap) (ts : list positive) (s' : store) (r : res unit),
  1 <= LF ->
  sizes_ok tk ->
  fresh_id sid tk ->
  all_free tk ts ->
  NoDup ts ->
  from_tokens LF sid tk ts = (s', r) ->
  r = Ok tt /\
  Inv s' /\
  abs s' = ts /\
  (forall t : positive, txt s' t = t_text (tget tk t)) /\
  s_id s' = sid /\ (forall t : positive, ~ In t ts -> tget (s_toks s') t = tget tk t).
Proof. exact from_tokens_gen. Qed.

Theorem C07_from_tokens_refused :
  forall (LF : Z) (sid : positive) (tk : tokmap) (ts : list positive),
  ~ (all_free tk ts /\ NoDup ts) -> from_tokens LF sid tk ts = (empty_store sid tk, Err ValueError).
Proof. exact from_tokens_refused. Qed.

Theorem C07_from_tokens_iff :
  forall (LF : Z) (sid : positive) (tk : tokmap) (ts : list positive),
  1 <= LF ->
  sizes_ok tk ->
  fresh_id sid tk ->
  (snd (from_tokens LF sid tk ts) = Ok tt <-> all_free tk ts /\ NoDup ts) /\
  (snd (from_tokens LF sid tk ts) <> Ok tt ->
   from_tokens LF sid tk ts = (empty_store sid tk, Err ValueError) /\
   s_toks (fst (from_tokens LF sid tk ts)) = tk).
Proof. exact from_tokens_iff. Qed.

Theorem C07_step_from_tokens_refused :
  forall (LF : Z) (s : store) (ts : list Z),
  ~ (all_free (s_toks s) (map P ts) /\ NoDup (map P ts)) ->
  step LF s (OFromTokens ts) = (s, Err ValueError).
Proof. exact step_from_tokens_refused. Qed.

Example C07_from_tokens_refusal_nonvacuous :
  sizes_ok (s_toks ex_s) /\ fresh_id 2%positive (s_toks ex_s) /\
  ~ (all_free (s_toks ex_s) [8; 8]%positive /\ NoDup [8; 8]%positive) /\
  ~ (all_free (s_toks ex_s) [8; 3]%positive /\ NoDup [8; 3]%positive).
Proof.
  destruct ex_inv_pure as ([I _] & _ & Pu). split; [exact (g_sz _ _ I)|]. split.
  - intros t sd b j H Esd. apply (Pu t). exists sd, b, j. split; [exact H|]. subst sd. discriminate.
  - split; [intros [_ ND]; inversion ND as [|? ? N _]; subst; apply N; left; reflexivity|].
    intros [Haf _]. specialize (Haf 3%positive (or_intror (or_introl eq_refl))). vm_compute in Haf. discriminate.
Qed.

Example C07_constructors_nonvacuous : clean ex_tk /\ NoDup ex_ids.
Proof. exact (conj ex_clean ex_ids_nodup). Qed.

(* ---- histories: every step returns normally, the invariant holds after every step, the contents and the
        texts follow the list reference (good_run), for every load factor *)

Theorem C07_history :
  forall LF : Z,
  1 <= LF ->
  forall (ops : list sop) (s : store), Inv s -> pure s -> ops_valid (abs s) ops -> good_run LF s ops.
Proof. exact history_refines. Qed.

Theorem C07_history_final :
  forall LF : Z,
  1 <= LF ->
  forall (ops : list sop) (s : store),
  Inv s ->
  pure s ->
  ops_valid (abs s) ops ->
  Inv (run_ops LF s ops) /\
  abs (run_ops LF s ops) = ref_run (abs s) ops /\
  (forall t : positive, txt (run_ops LF s ops) t = ref_texts (txt s) ops t).
Proof. exact run_ops_spec. Qed.

Example C07_history_nonvacuous : Inv ex_s /\ pure ex_s /\ ops_valid (abs ex_s) ex_ops /\ length ex_ops = 7%nat.
Proof. exact (conj (proj1 ex_inv) (conj ex_pure (conj ex_ops_valid eq_refl))). Qed.

(* ---- refusals: the full contract.  A call whose token list is not valid - a token listed twice, a token
        of this store outside the removed range [p, q), a token of another store - is refused with
        ValueError and the store is returned unchanged; so is a reversed range, a reference token that is
        free or foreign (for every mutator and observer), and a text update routed to the wrong store. *)

Theorem C07_refusals :
  forall (LF : Z) (s : store) (tokens : list positive) (ref del_end : option positive) (p q : nat),
  Inv s ->
  ref_pos (abs s) ref p ->
  end_pos (abs s) del_end p q ->
  ~ valid_tokens s tokens p q -> splice LF s tokens ref del_end = (s, Err ValueError).
Proof. exact splice_refusals. Qed.

Example C07_refusals_nonvacuous :
  Inv ex_s /\ ref_pos (abs ex_s) (Some 3%positive) 2 /\ end_pos (abs ex_s) None 2 2 /\
  ~ valid_tokens ex_s [3%positive] 2 2 /\ ~ valid_tokens ex_s [8; 8]%positive 2 2.
Proof.
  split; [exact (proj1 ex_inv)|]. unfold valid_tokens. rewrite (proj2 ex_inv). split; [reflexivity|]. split; [reflexivity|]. split.
  - intros [_ H]. destruct (H 3%positive (in_eq _ _)) as [Hn|Hr]; [vm_compute in Hn; discriminate|exact Hr].
  - intros [ND _]. inversion ND as [|? ? N _]; subst. apply N. left. reflexivity.
Qed.


Theorem C07_refuses_outside_range :
  forall (LF : Z) (s : store) (tokens : list positive) (ref del_end : option positive) 
    (p q : nat) (t : positive) (k : nat),
  Inv s ->
  ref_pos (abs s) ref p ->
  end_pos (abs s) del_end p q ->
  In t tokens ->
  nth_error (abs s) k = Some t ->
  (k < p)%nat \/ (q <= k)%nat -> splice LF s tokens ref del_end = (s, Err ValueError).
Proof. exact splice_refuses. Qed.

Theorem C07_insert_after_refuses :
  forall (LF : Z) (s : store) (tokens : list positive) (ref : option positive) 
    (p : nat) (t : positive),
  Inv s ->
  match ref with
  | Some r0 => (1 <= p)%nat /\ nth_error (abs s) (p - 1) = Some r0
  | None => p = 0%nat
  end -> In t tokens -> ~ free s t -> insert_after LF s ref tokens = (s, Err ValueError).
Proof. exact insert_after_refuses. Qed.

Theorem C07_bad_reference_refused :
  forall (LF : Z) (s : store) (r : positive) (ts : list positive) (d0 : option positive),
  hnd s r = None ->
  splice LF s ts (Some r) d0 = (s, Err ValueError) /\
  insert_before LF s (Some r) ts = (s, Err ValueError) /\
  insert_after LF s (Some r) ts = (s, Err ValueError) /\
  remove LF s r d0 = (s, Err ValueError) /\
  (forall x : positive, replace LF s r x = (s, Err ValueError)) /\
  get_index s r = Err ValueError /\
  get_position s r = Err ValueError /\
  get_prev s r = Err ValueError /\
  get_next s r = Err ValueError /\
  (forall u : positive, iter_range s r u = Err ValueError /\ iter_range s u r = Err ValueError) /\
  (forall z : pos, update s r z = (s, Err ValueError)).
Proof. exact bad_reference_refused. Qed.

Theorem C07_bad_end_refused :
  forall (LF : Z) (s : store) (r : option positive) (e : positive) (ts : list positive),
  hnd s e = None -> splice LF s ts r (Some e) = (s, Err ValueError).
Proof. exact bad_end_refused. Qed.


(* a reversed range.  _splice compares `end < start` on (block.index, index) pairs with end = position AFTER
   del_end, so for del_end = the token just before ref its answer depended on the block layout (a finding,
   repaired in /repo: splice() now compares del_end's own position with start first; Store.splice models that
   statement, and the exhaustive small-scope correspondence exercises every (ref, del_end) pair).
   C07_reversed_range_refused_all covers every del_end before ref; the older, weaker statement is kept. *)

Theorem C07_reversed_range_refused_all :
  forall (LF : Z) (s : store) (tokens : list positive) (r e : positive) (p kd : nat),
  Inv s ->
  nth_error (abs s) p = Some r ->
  nth_error (abs s) kd = Some e ->
  (kd < p)%nat -> splice LF s tokens (Some r) (Some e) = (s, Err ValueError).
Proof. exact splice_reversed_refused_all. Qed.

Example C07_reversed_range_all_nonvacuous : Inv ex_s /\ nth_error (abs ex_s) 2 = Some 3%positive /\ nth_error (abs ex_s) 1 = Some 2%positive.
Proof. split; [exact (proj1 ex_inv)|]. rewrite (proj2 ex_inv). split; reflexivity. Qed.


Theorem C07_reversed_range_refused :
  forall (LF : Z) (s : store) (tokens : list positive) (r e : positive) (p kd : nat),
  Inv s ->
  nth_error (abs s) p = Some r ->
  nth_error (abs s) kd = Some e ->
  (kd + 1 < p)%nat -> splice LF s tokens (Some r) (Some e) = (s, Err ValueError).
Proof. exact splice_reversed_refused. Qed.

Example C07_reversed_range_nonvacuous : Inv ex_s /\ nth_error (abs ex_s) 4 = Some 5%positive /\ nth_error (abs ex_s) 1 = Some 2%positive.
Proof. split; [exact (proj1 ex_inv)|]. rewrite (proj2 ex_inv). split; reflexivity. Qed.

(* the frame between stores: a token of another store is untouched by a valid splice and stays foreign;
   a text update never touches any handle or the identity of the store *)

Theorem C07_foreign_untouched :
  forall (LF : Z) (s : store) (tokens : list positive) (ref del_end : option positive) 
    (p q : nat) (s' : store) (r : res unit) (t : positive),
  1 <= LF ->
  Inv s ->
  ref_pos (abs s) ref p ->
  end_pos (abs s) del_end p q ->
  valid_tokens s tokens p q ->
  splice LF s tokens ref del_end = (s', r) ->
  foreign s t -> raw s' t = raw s t /\ txt s' t = txt s t /\ foreign s' t.
Proof. exact foreign_untouched. Qed.

Theorem C07_set_text_keeps_handles :
  forall (s : store) (t : positive) (x : str),
  s_id (fst (set_text s t x)) = s_id s /\
  (forall u : positive, raw (fst (set_text s t x)) u = raw s u).
Proof. exact set_text_raw. Qed.


(* ------------------------------------------------------------------------------------------------
   Links to the plain-list models of the other layers (DESIGN 3.1: "every L2/L3 store operation is the
   list operation L1 refines").  A document d of a list model represents the store s when
   abs s = map (Pid id) d, Pid x = P (id x) being the store's token for the model token x (ids positive).
   Each theorem says: what the model's list surgery computes is what the blocked store computes, for every
   load factor; refusals agree (ValueError, store unchanged).  The list models know one store only, hence
   `pure s` (no tokens of other stores); it is preserved (`pure s'`). *)

(* Repeated.v / Fields.v (Fields.v calls the same Repeated.st_ functions) *)

Theorem C07_link_Repeated_insert_after :
  forall LF : Z,
  1 <= LF ->
  forall (s : store) (d : Repeated.doc),
  Inv s ->
  pure s ->
  abs s = map (Pid Repeated.tid) d ->
  ids_pos Repeated.tid d ->
  forall (ref : Z) (ts : list Repeated.tok),
  0 < ref ->
  ids_pos Repeated.tid ts ->
  NoDup (map Repeated.tid ts) ->
  match Repeated.st_insert_after ref ts d with
  | Ok d' =>
      let s' := fst (insert_after LF s (Some (P ref)) (map (Pid Repeated.tid) ts)) in
      insert_after LF s (Some (P ref)) (map (Pid Repeated.tid) ts) = (s', Ok tt) /\
      Inv s' /\
      abs s' = map (Pid Repeated.tid) d' /\
      (forall u : positive, txt s' u = txt s u) /\ pure s'
  | Err e =>
      e = ValueError /\
      insert_after LF s (Some (P ref)) (map (Pid Repeated.tid) ts) = (s, Err ValueError)
  end.
Proof. exact StoreLinkRepeated.link_insert_after. Qed.

Theorem C07_link_Repeated_insert_before :
  forall LF : Z,
  1 <= LF ->
  forall (s : store) (d : Repeated.doc),
  Inv s ->
  pure s ->
  abs s = map (Pid Repeated.tid) d ->
  ids_pos Repeated.tid d ->
  forall (ref : Z) (ts : list Repeated.tok),
  0 < ref ->
  ids_pos Repeated.tid ts ->
  NoDup (map Repeated.tid ts) ->
  match Repeated.st_insert_before ref ts d with
  | Ok d' =>
      let s' := fst (insert_before LF s (Some (P ref)) (map (Pid Repeated.tid) ts)) in
      insert_before LF s (Some (P ref)) (map (Pid Repeated.tid) ts) = (s', Ok tt) /\
      Inv s' /\
      abs s' = map (Pid Repeated.tid) d' /\
      (forall u : positive, txt s' u = txt s u) /\ pure s'
  | Err e =>
      e = ValueError /\
      insert_before LF s (Some (P ref)) (map (Pid Repeated.tid) ts) = (s, Err ValueError)
  end.
Proof. exact StoreLinkRepeated.link_insert_before. Qed.

Theorem C07_link_Repeated_splice :
  forall LF : Z,
  1 <= LF ->
  forall (s : store) (d : Repeated.doc),
  Inv s ->
  pure s ->
  abs s = map (Pid Repeated.tid) d ->
  ids_pos Repeated.tid d ->
  forall (ts : list Repeated.tok) (first last : Z) (d' : Repeated.doc),
  ids_pos Repeated.tid ts ->
  NoDup (map Repeated.tid ts) ->
  Repeated.st_splice ts first last d = Ok d' ->
  let s' := fst (splice LF s (map (Pid Repeated.tid) ts) (Some (P first)) (Some (P last)))
    in
  splice LF s (map (Pid Repeated.tid) ts) (Some (P first)) (Some (P last)) = (s', Ok tt) /\
  Inv s' /\
  abs s' = map (Pid Repeated.tid) d' /\
  (forall u : positive, txt s' u = txt s u) /\ pure s'.
Proof. exact StoreLinkRepeated.link_splice. Qed.

Theorem C07_link_Repeated_remove :
  forall LF : Z,
  1 <= LF ->
  forall (s : store) (d : Repeated.doc),
  Inv s ->
  pure s ->
  abs s = map (Pid Repeated.tid) d ->
  ids_pos Repeated.tid d ->
  forall (first last : Z) (d' : Repeated.doc),
  Repeated.st_remove first last d = Ok d' ->
  let s' := fst (remove LF s (P first) (Some (P last))) in
  remove LF s (P first) (Some (P last)) = (s', Ok tt) /\
  Inv s' /\
  abs s' = map (Pid Repeated.tid) d' /\
  (forall u : positive, txt s' u = txt s u) /\ pure s'.
Proof. exact StoreLinkRepeated.link_remove. Qed.

Theorem C07_link_Repeated_absent :
  forall (LF : Z) (s : store) (d : Repeated.doc),
  Inv s ->
  abs s = map (Pid Repeated.tid) d ->
  ids_pos Repeated.tid d ->
  forall (first last : Z) (ts : list Repeated.tok),
  0 < first ->
  0 < last ->
  ~ In first (Repeated.ids d) \/ ~ In last (Repeated.ids d) ->
  Repeated.st_splice ts first last d = Err ValueError /\
  splice LF s (map (Pid Repeated.tid) ts) (Some (P first)) (Some (P last)) =
  (s, Err ValueError).
Proof. exact StoreLinkRepeated.link_absent. Qed.

Theorem C07_link_Repeated_get_prev_next :
  Z ->
  forall (s : store) (d : Repeated.doc),
  Inv s ->
  abs s = map (Pid Repeated.tid) d ->
  ids_pos Repeated.tid d ->
  forall i : Z,
  0 < i ->
  Repeated.st_get_prev i d =
  match get_prev s (P i) with
  | Ok o => Ok (option_map Z.pos o)
  | Err e => Err e
  end /\
  Repeated.st_get_next i d =
  match get_next s (P i) with
  | Ok o => Ok (option_map Z.pos o)
  | Err e => Err e
  end.
Proof. exact StoreLinkRepeated.link_get_prev_next. Qed.

Theorem C07_link_Repeated_iter :
  forall (s : store) (d : Repeated.doc),
  Inv s ->
  abs s = map (Pid Repeated.tid) d ->
  forall first last : Z,
  Repeated.st_iter first last d <> [] ->
  iter_range s (P first) (P last) =
  Ok (map (Pid Repeated.tid) (Repeated.st_iter first last d)).
Proof. exact StoreLinkRepeated.link_iter. Qed.

Definition ex_rdoc : Repeated.doc := map (fun i => Repeated.mktok i Repeated.KOther []) [1; 2; 3; 4; 5; 6; 7].
Example C07_link_Repeated_nonvacuous :
  Inv ex_s /\ pure ex_s /\ abs ex_s = map (Pid Repeated.tid) ex_rdoc /\ ids_pos Repeated.tid ex_rdoc /\
  Repeated.st_splice [Repeated.mktok 9 Repeated.KOther []] 2 5 ex_rdoc
    = Ok (map (fun i => Repeated.mktok i Repeated.KOther []) [1; 9; 6; 7]).
Proof.
  split; [exact (proj1 ex_inv)|]. split; [exact ex_pure|]. split; [rewrite (proj2 ex_inv); reflexivity|]. split; [|reflexivity].
  unfold ids_pos, ex_rdoc. repeat constructor.
Qed.

(* Comments.v *)

Theorem C07_link_Comments_splice :
  forall LF : Z,
  1 <= LF ->
  forall (s : store) (d : Comments.doc),
  Inv s ->
  pure s ->
  abs s = map (Pid Comments.t_id) d ->
  ids_pos Comments.t_id d ->
  forall (new : list Comments.tok) (ref del_end : Z) (d' : Comments.doc),
  ids_pos Comments.t_id new ->
  NoDup (map Comments.t_id new) ->
  (forall x : Comments.tok,
   In x new ->
   ~ In (Comments.t_id x) (map Comments.t_id d) \/
   (exists rng : list Comments.tok,
      Comments.iter_range d ref del_end = Some rng /\
      In (Comments.t_id x) (map Comments.t_id rng))) ->
  Comments.splice d new ref del_end = Some d' ->
  let s' :=
    fst (splice LF s (map (Pid Comments.t_id) new) (Some (P ref)) (Some (P del_end))) in
  splice LF s (map (Pid Comments.t_id) new) (Some (P ref)) (Some (P del_end)) = (s', Ok tt) /\
  Inv s' /\
  abs s' = map (Pid Comments.t_id) d' /\
  (forall u : positive, txt s' u = txt s u) /\ pure s'.
Proof. exact StoreLinkComments.link_splice. Qed.

Theorem C07_link_Comments_splice_absent :
  forall (LF : Z) (s : store) (d : Comments.doc),
  Inv s ->
  abs s = map (Pid Comments.t_id) d ->
  ids_pos Comments.t_id d ->
  forall (new : list Comments.tok) (ref del_end : Z),
  0 < ref ->
  0 < del_end ->
  ~ In ref (map Comments.t_id d) \/ ~ In del_end (map Comments.t_id d) ->
  Comments.splice d new ref del_end = None /\
  splice LF s (map (Pid Comments.t_id) new) (Some (P ref)) (Some (P del_end)) =
  (s, Err ValueError).
Proof. exact StoreLinkComments.link_splice_absent. Qed.

Theorem C07_link_Comments_iter_range :
  forall (s : store) (d : Comments.doc),
  Inv s ->
  abs s = map (Pid Comments.t_id) d ->
  forall (first last : Z) (rng : list Comments.tok),
  Comments.iter_range d first last = Some rng ->
  rng <> [] -> iter_range s (P first) (P last) = Ok (map (Pid Comments.t_id) rng).
Proof. exact StoreLinkComments.link_iter_range. Qed.

Theorem C07_link_Comments_walk :
  forall (s : store) (d : Comments.doc),
  Inv s ->
  abs s = map (Pid Comments.t_id) d ->
  forall (start : Z) (a : Comments.doc) (t : Comments.tok)
    (b : list Comments.tok),
  Comments.split_at start d = Some (a, t :: b) ->
  get_next s (P start) =
  Ok (option_map (Pid Comments.t_id) match b with
                                                | [] => None
                                                | x :: _ => Some x
                                                end) /\
  get_prev s (P start) =
  Ok
    (option_map (Pid Comments.t_id)
       match a with
       | [] => None
       | x :: r => Some (last r x)
       end) /\
  Comments.walk d start false = Some b /\
  Comments.walk d start true = Some (rev a).
Proof. exact StoreLinkComments.link_walk_step. Qed.

Definition ex_cdoc : Comments.doc := map (fun i => Comments.mktok i Comments.KOther [] false) [1; 2; 3; 4; 5; 6; 7].
Example C07_link_Comments_nonvacuous :
  Inv ex_s /\ pure ex_s /\ abs ex_s = map (Pid Comments.t_id) ex_cdoc /\ ids_pos Comments.t_id ex_cdoc /\
  Comments.splice ex_cdoc (map (fun i => Comments.mktok i Comments.KOther [] false) [4; 3; 2]) 2 4
    = Some (map (fun i => Comments.mktok i Comments.KOther [] false) [1; 4; 3; 2; 5; 6; 7]).
Proof.
  split; [exact (proj1 ex_inv)|]. split; [exact ex_pure|]. split; [rewrite (proj2 ex_inv); reflexivity|]. split; [|reflexivity].
  unfold ids_pos, ex_cdoc. repeat constructor.
Qed.

(* position-based models: Spacing.v, NumExpr.v, Builder.v.  Their results are positional splices of the
   document, and the positional store call computes the same positional splice of abs s. *)

Theorem C07_link_positional_call :
  forall (LF : Z) (s : store) (N : list positive) (p q : nat) (s' : store) (r : res unit),
  1 <= LF ->
  Inv s ->
  (p <= q <= length (abs s))%nat ->
  NoDup N ->
  (forall t : positive, In t N -> free s t) ->
  StoreLinkMisc.pos_call LF s N p q = (s', r) ->
  r = Ok tt /\
  Inv s' /\
  abs s' = StoreLinkMisc.gsplice (abs s) N p q /\
  (forall t : positive, txt s' t = txt s t) /\ frames s s' N p q.
Proof. exact StoreLinkMisc.pos_call_spec. Qed.

Theorem C07_link_Spacing_set_after :
  forall (d : list Spacing.tok) (j : nat) (new : list Spacing.tok),
  exists p q : nat,
    (p <= q <= length d)%nat /\
    Spacing.set_raw_spacing_after d j new = StoreLinkMisc.gsplice d new p q.
Proof. exact StoreLinkMisc.link_spacing_after. Qed.

Theorem C07_link_Spacing_set_before :
  forall (d : list Spacing.tok) (i : nat) (new : list Spacing.tok),
  exists p q : nat,
    (p <= q <= length d)%nat /\
    Spacing.set_raw_spacing_before d i new = StoreLinkMisc.gsplice d new p q.
Proof. exact StoreLinkMisc.link_spacing_before. Qed.

Theorem C07_link_NumExpr_inplace :
  forall (k : NumExpr.binop) (self other r : NumExpr.nexpr),
  NumExpr.inplace k self other = Ok r ->
  exists L R : list NumExpr.tok,
    (L = [] \/ L = [NumExpr.TLp]) /\
    NumExpr.store_toks r =
    NumExpr.pre self ++
    L ++ NumExpr.re (NumExpr.body self) ++ R ++ NumExpr.post self /\
    (let p := length (NumExpr.pre self) in
     let q := (p + length (NumExpr.re (NumExpr.body self)))%nat in
     NumExpr.store_toks r =
     StoreLinkMisc.gsplice (StoreLinkMisc.gsplice (NumExpr.store_toks self) R q q) L p p).
Proof. exact StoreLinkMisc.link_numexpr_inplace. Qed.

Theorem C07_link_Builder_store :
  forall (LF : Z) (sid : positive) (tk : tokmap) (built : list positive),
  1 <= LF ->
  clean tk ->
  NoDup built ->
  let s' := fst (insert_after LF (empty_store sid tk) None built) in
  insert_after LF (empty_store sid tk) None built = (s', Ok tt) /\
  Inv s' /\
  abs s' = built /\
  (forall (k1 k2 : nat) (a b : positive),
   nth_error built k1 = Some a ->
   nth_error built k2 = Some b -> iter_range s' a b = Ok (firstn (k2 + 1 - k1) (skipn k1 built))).
Proof. exact StoreLinkMisc.link_builder_store. Qed.

Example C07_link_positional_nonvacuous : Inv ex_s /\ (2 <= 5 <= length (abs ex_s))%nat /\
  NoDup [8; 9]%positive /\ (forall t, In t [8; 9]%positive -> free ex_s t).
Proof.
  split; [exact (proj1 ex_inv)|]. rewrite (proj2 ex_inv). split; [cbn; lia|].
  split; [repeat constructor; cbn; intuition discriminate|]. intros t [<-|[<-|[]]]; vm_compute; reflexivity.
Qed.
