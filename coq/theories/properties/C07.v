(* C07 - the token store behaves exactly like a plain ordered sequence.
   Model: Store.v (statement-by-statement transcription of autobean_refactor/token_store.py, tied to the
   code by the full-state correspondence of harness/store_check.py).  `abs s` is the plain list
   (concatenation of the blocks' token lists), `Inv s` the representation invariant (StoreInv.v),
   `list_splice l ts p q = firstn p l ++ ts ++ skipn q l` the list reference.  All theorems hold for every
   load factor LF >= 1, in particular for the LF >= 2 the property names; they cover block splits, merges
   (both outcomes) and rebalancing because they are proved about _update_block itself.
   `r = Ok tt` in the conclusions says that no IndexError / ValueError / OutOfFuel is reachable. *)
From AB Require Import StoreTop StoreRefuse StoreRun.

(* the mutators refine the list splice, keep the invariant, never raise, leave texts alone *)
Theorem C07_splice_refines : forall LF s tokens ref del_end p q s' r,
  1 <= LF -> Inv s -> ref_pos (abs s) ref p -> end_pos (abs s) del_end p q ->
  valid_tokens (abs s) tokens p q ->
  splice LF s tokens ref del_end = (s', r) ->
  r = Ok tt /\ Inv s' /\ abs s' = list_splice (abs s) tokens p q /\ (forall t, txt s' t = txt s t).
Proof. exact splice_spec. Qed.

Example C07_splice_refines_nonvacuous :
  Inv ex_s /\ length (s_blocks ex_s) = 4%nat /\
  ref_pos (abs ex_s) (Some 2%positive) 1 /\ end_pos (abs ex_s) (Some 6%positive) 1 6 /\
  valid_tokens (abs ex_s) [8; 3]%positive 1 6.
Proof. exact (conj (proj1 ex_inv) (conj ex_blocks ex_splice_args)). Qed.

(* removed tokens are detached (store_handle = None) *)
Theorem C07_splice_detaches : forall LF s tokens ref del_end p q s' r,
  1 <= LF -> Inv s -> ref_pos (abs s) ref p -> end_pos (abs s) del_end p q ->
  valid_tokens (abs s) tokens p q ->
  splice LF s tokens ref del_end = (s', r) ->
  forall t, In t (firstn (q - p) (skipn p (abs s))) -> ~ In t tokens -> hnd s' t = None.
Proof. exact splice_detaches. Qed.

(* in any state satisfying the invariant: tokens outside the store have no handle, tokens inside know
   their block and offset, and the block knows its position *)
Theorem C07_detached : forall s t, Inv s -> ~ In t (abs s) -> hnd s t = None.
Proof. exact detached. Qed.
Theorem C07_attached : forall s k t, Inv s -> nth_error (abs s) k = Some t ->
  exists i b j, nth_error (s_blocks s) i = Some b /\ nth_error (toks s b) j = Some t /\
    k = (length (flat_map (toks s) (firstn i (s_blocks s))) + j)%nat /\
    hnd s t = Some (b, Z.of_nat j) /\ bidx s b = Z.of_nat i.
Proof. exact attached. Qed.

Theorem C07_insert_after_refines : forall LF s tokens ref p s' r,
  1 <= LF -> Inv s ->
  match ref with None => p = 0%nat | Some r0 => (1 <= p)%nat /\ nth_error (abs s) (p - 1) = Some r0 end ->
  NoDup tokens -> (forall t, In t tokens -> ~ In t (abs s)) ->
  insert_after LF s ref tokens = (s', r) ->
  r = Ok tt /\ Inv s' /\ abs s' = list_splice (abs s) tokens p p /\ (forall t, txt s' t = txt s t).
Proof. exact insert_after_spec. Qed.

Theorem C07_insert_before_refines : forall LF s tokens ref p s' r,
  1 <= LF -> Inv s -> ref_pos (abs s) ref p -> NoDup tokens -> (forall t, In t tokens -> ~ In t (abs s)) ->
  insert_before LF s ref tokens = (s', r) ->
  r = Ok tt /\ Inv s' /\ abs s' = list_splice (abs s) tokens p p /\ (forall t, txt s' t = txt s t).
Proof. exact insert_before_spec. Qed.

Theorem C07_replace_refines : forall LF s t r0 k s' r,
  1 <= LF -> Inv s -> nth_error (abs s) k = Some t -> (r0 = t \/ ~ In r0 (abs s)) ->
  replace LF s t r0 = (s', r) ->
  r = Ok tt /\ Inv s' /\ abs s' = list_splice (abs s) [r0] k (S k) /\ (forall u, txt s' u = txt s u).
Proof. exact replace_spec. Qed.

Theorem C07_remove_refines : forall LF s a b ka kb s' r,
  1 <= LF -> Inv s -> nth_error (abs s) ka = Some a ->
  match b with None => kb = ka | Some b0 => (ka <= kb)%nat /\ nth_error (abs s) kb = Some b0 end ->
  remove LF s a b = (s', r) ->
  r = Ok tt /\ Inv s' /\ abs s' = list_splice (abs s) [] ka (S kb) /\ (forall u, txt s' u = txt s u).
Proof. exact remove_spec. Qed.

Example C07_mutators_nonvacuous :
  Inv ex_s /\ nth_error (abs ex_s) 2 = Some 3%positive /\ nth_error (abs ex_s) 5 = Some 6%positive /\
  ~ In 9%positive (abs ex_s).
Proof.
  split; [exact (proj1 ex_inv)|]. rewrite (proj2 ex_inv). cbn. intuition discriminate.
Qed.

(* the block-level statement underneath (start/end given as (block, offset) pairs), covering the fast
   path, _update_block (rebuild / merge / split) and the multi-block path *)
Theorem C07_splice_block_level : forall LF s tokens si sj ei ej bs be s' r,
  1 <= LF -> Inv s ->
  nth_error (s_blocks s) si = Some bs -> nth_error (s_blocks s) ei = Some be ->
  (sj <= length (toks s bs))%nat -> (ej <= length (toks s be))%nat ->
  (si < ei \/ (si = ei /\ sj <= ej))%nat ->
  NoDup tokens ->
  let F n := length (flat_map (toks s) (firstn n (s_blocks s))) in
  let p := (F si + sj)%nat in let q := (F ei + ej)%nat in
  (forall t, In t tokens -> ~ In t (abs s) \/ In t (firstn (q - p) (skipn p (abs s)))) ->
  splice_ LF s tokens (Z.of_nat si, Z.of_nat sj) (Z.of_nat ei, Z.of_nat ej) = (s', r) ->
  r = Ok tt /\ Inv s' /\ abs s' = firstn p (abs s) ++ tokens ++ skipn q (abs s) /\
  (forall t, txt s' t = txt s t).
Proof. exact splice__spec. Qed.

(* _update_block repairs a store in which only block b is stale, without changing the sequence *)
Theorem C07_update_block : forall LF s b s' r,
  1 <= LF -> InvG (eq b) s -> In b (s_blocks s) -> update_block LF s b = (s', r) ->
  r = Ok tt /\ Inv0 s' /\ abs s' = abs s /\ frame_ok s s'.
Proof. exact update_block_spec. Qed.

(* observers = list functions on the abstraction *)
Theorem C07_observers : forall s, Inv s ->
  all_tokens s = abs s /\ len s = zlen (abs s) /\
  get_first s = Ok (nth_error (abs s) 0) /\ get_last s = Ok (nth_error (abs s) (length (abs s) - 1)) /\
  (forall k t, nth_error (abs s) k = Some t ->
     get_index s t = Ok (Z.of_nat k) /\
     get_prev s t = Ok (match k with O => None | S k' => nth_error (abs s) k' end) /\
     get_next s t = Ok (nth_error (abs s) (S k))) /\
  (forall k1 k2 a b, nth_error (abs s) k1 = Some a -> nth_error (abs s) k2 = Some b -> (k1 <= k2)%nat ->
     iter_range s a b = Ok (firstn (k2 + 1 - k1) (skipn k1 (abs s)))) /\
  (forall t, ~ In t (abs s) ->
     get_index s t = Err ValueError /\ get_prev s t = Err ValueError /\ get_next s t = Err ValueError).
Proof. exact observers_spec. Qed.

Example C07_observers_nonvacuous : Inv ex_s /\ abs ex_s = ex_ids /\ length (s_blocks ex_s) = 4%nat.
Proof. exact (conj (proj1 ex_inv) (conj (proj2 ex_inv) ex_blocks)). Qed.

(* constructors establish the invariant *)
Theorem C07_empty_store : forall tk, clean tk -> Inv (empty_store tk) /\ abs (empty_store tk) = [].
Proof. exact empty_inv. Qed.
Theorem C07_from_tokens : forall LF tk ts s' r, 1 <= LF -> clean tk -> NoDup ts ->
  from_tokens LF tk ts = (s', r) ->
  r = Ok tt /\ Inv s' /\ abs s' = ts /\ (forall t, txt s' t = t_text (tget tk t)).
Proof. exact from_tokens_spec. Qed.

Example C07_constructors_nonvacuous : clean ex_tk /\ NoDup ex_ids.
Proof. exact (conj ex_clean ex_ids_nodup). Qed.

(* histories: every step returns normally, the invariant holds after every step, the contents and the
   texts follow the list reference (good_run), for every load factor *)
Theorem C07_history : forall LF, 1 <= LF -> forall ops s, Inv s -> ops_valid (abs s) ops -> good_run LF s ops.
Proof. exact history_refines. Qed.

Theorem C07_history_final : forall LF, 1 <= LF -> forall ops s, Inv s -> ops_valid (abs s) ops ->
  Inv (run_ops LF s ops) /\ abs (run_ops LF s ops) = ref_run (abs s) ops /\
  (forall t, txt (run_ops LF s ops) t = ref_texts (txt s) ops t).
Proof. exact run_ops_spec. Qed.

Example C07_history_nonvacuous : Inv ex_s /\ ops_valid (abs ex_s) ex_ops /\ length ex_ops = 7%nat.
Proof. exact (conj (proj1 ex_inv) (conj ex_ops_valid eq_refl)). Qed.

(* Refusals (reuse guard `block.store is self and start <= (block.index, index) < end`; the model has one
   store, so only the range part is modelled).  Arguments that break the contract of a duplicate-free
   token list - some inserted token is in the store but outside the removed range [p, q) - are refused with
   ValueError and the store is returned unchanged.  (A token listed twice in `tokens` is not checked by
   the code; NoDup is a hypothesis.) *)
Theorem C07_refusals : forall LF s tokens ref del_end p q,
  Inv s -> ref_pos (abs s) ref p -> end_pos (abs s) del_end p q ->
  NoDup tokens -> ~ valid_tokens (abs s) tokens p q ->
  splice LF s tokens ref del_end = (s, Err ValueError).
Proof. exact splice_refusals. Qed.

Example C07_refusals_nonvacuous :
  Inv ex_s /\ ref_pos (abs ex_s) (Some 3%positive) 2 /\ end_pos (abs ex_s) None 2 2 /\
  NoDup [3%positive] /\ ~ valid_tokens (abs ex_s) [3%positive] 2 2.
Proof.
  split; [exact (proj1 ex_inv)|]. rewrite (proj2 ex_inv). split; [reflexivity|]. split; [reflexivity|].
  split; [repeat constructor; intros []|].
  intros [_ H]. destruct (H 3%positive (in_eq _ _)) as [Hn|Hr]; [apply Hn; cbn; auto|exact Hr].
Qed.

(* per token: every store token outside [p, q) among the inserted tokens is refused *)
Theorem C07_refuses_outside_range : forall LF s tokens ref del_end p q t k,
  Inv s -> ref_pos (abs s) ref p -> end_pos (abs s) del_end p q ->
  In t tokens -> nth_error (abs s) k = Some t -> (k < p \/ q <= k)%nat ->
  splice LF s tokens ref del_end = (s, Err ValueError).
Proof. exact splice_refuses. Qed.

Theorem C07_insert_after_refuses : forall LF s tokens ref p t,
  Inv s ->
  match ref with None => p = 0%nat | Some r0 => (1 <= p)%nat /\ nth_error (abs s) (p - 1) = Some r0 end ->
  In t tokens -> In t (abs s) ->
  insert_after LF s ref tokens = (s, Err ValueError).
Proof. exact insert_after_refuses. Qed.

(* ------------------------------------------------------------------------------------------------
   Links to the plain-list models of the other layers (DESIGN 3.1: "every L2/L3 store operation is the
   list operation L1 refines").  A document d of a list model represents the store s when
   abs s = map (Pid id) d, Pid x = P (id x) being the store's token for the model token x (ids positive).
   Each theorem says: what the model's list surgery computes is what the blocked store computes, for every
   load factor; refusals agree (ValueError, store unchanged). *)
From AB Require StoreLinkRepeated StoreLinkComments StoreLinkMisc.
From AB Require Import StoreLink.

(* Repeated.v / Fields.v (Fields.v calls the same Repeated.st_ functions) *)
Theorem C07_link_Repeated_insert_after : forall LF, 1 <= LF -> forall s d, Inv s ->
  abs s = map (Pid Repeated.tid) d -> ids_pos Repeated.tid d ->
  forall ref ts, 0 < ref -> ids_pos Repeated.tid ts -> NoDup (map Repeated.tid ts) ->
  match Repeated.st_insert_after ref ts d with
  | Ok d' => let s' := fst (insert_after LF s (Some (P ref)) (map (Pid Repeated.tid) ts)) in
             insert_after LF s (Some (P ref)) (map (Pid Repeated.tid) ts) = (s', Ok tt) /\ Inv s' /\
             abs s' = map (Pid Repeated.tid) d' /\ (forall u, txt s' u = txt s u)
  | Err e => e = ValueError /\ insert_after LF s (Some (P ref)) (map (Pid Repeated.tid) ts) = (s, Err ValueError)
  end.
Proof. exact StoreLinkRepeated.link_insert_after. Qed.

Theorem C07_link_Repeated_insert_before : forall LF, 1 <= LF -> forall s d, Inv s ->
  abs s = map (Pid Repeated.tid) d -> ids_pos Repeated.tid d ->
  forall ref ts, 0 < ref -> ids_pos Repeated.tid ts -> NoDup (map Repeated.tid ts) ->
  match Repeated.st_insert_before ref ts d with
  | Ok d' => let s' := fst (insert_before LF s (Some (P ref)) (map (Pid Repeated.tid) ts)) in
             insert_before LF s (Some (P ref)) (map (Pid Repeated.tid) ts) = (s', Ok tt) /\ Inv s' /\
             abs s' = map (Pid Repeated.tid) d' /\ (forall u, txt s' u = txt s u)
  | Err e => e = ValueError /\ insert_before LF s (Some (P ref)) (map (Pid Repeated.tid) ts) = (s, Err ValueError)
  end.
Proof. exact StoreLinkRepeated.link_insert_before. Qed.

Theorem C07_link_Repeated_splice : forall LF, 1 <= LF -> forall s d, Inv s ->
  abs s = map (Pid Repeated.tid) d -> ids_pos Repeated.tid d ->
  forall ts first last d', ids_pos Repeated.tid ts -> NoDup (map Repeated.tid ts) ->
  Repeated.st_splice ts first last d = Ok d' ->
  let s' := fst (splice LF s (map (Pid Repeated.tid) ts) (Some (P first)) (Some (P last))) in
  splice LF s (map (Pid Repeated.tid) ts) (Some (P first)) (Some (P last)) = (s', Ok tt) /\ Inv s' /\
  abs s' = map (Pid Repeated.tid) d' /\ (forall u, txt s' u = txt s u).
Proof. exact StoreLinkRepeated.link_splice. Qed.

Theorem C07_link_Repeated_remove : forall LF, 1 <= LF -> forall s d, Inv s ->
  abs s = map (Pid Repeated.tid) d -> ids_pos Repeated.tid d ->
  forall first last d', Repeated.st_remove first last d = Ok d' ->
  let s' := fst (remove LF s (P first) (Some (P last))) in
  remove LF s (P first) (Some (P last)) = (s', Ok tt) /\ Inv s' /\
  abs s' = map (Pid Repeated.tid) d' /\ (forall u, txt s' u = txt s u).
Proof. exact StoreLinkRepeated.link_remove. Qed.

Theorem C07_link_Repeated_absent : forall LF s d, Inv s ->
  abs s = map (Pid Repeated.tid) d -> ids_pos Repeated.tid d ->
  forall first last ts, 0 < first -> 0 < last ->
  (~ In first (Repeated.ids d) \/ ~ In last (Repeated.ids d)) ->
  Repeated.st_splice ts first last d = Err ValueError /\
  splice LF s (map (Pid Repeated.tid) ts) (Some (P first)) (Some (P last)) = (s, Err ValueError).
Proof. exact StoreLinkRepeated.link_absent. Qed.

Theorem C07_link_Repeated_get_prev_next : forall (LF : Z) s d, Inv s ->
  abs s = map (Pid Repeated.tid) d -> ids_pos Repeated.tid d -> forall i, 0 < i ->
  Repeated.st_get_prev i d = match get_prev s (P i) with Ok o => Ok (option_map Zpos o) | Err e => Err e end /\
  Repeated.st_get_next i d = match get_next s (P i) with Ok o => Ok (option_map Zpos o) | Err e => Err e end.
Proof. exact StoreLinkRepeated.link_get_prev_next. Qed.

Theorem C07_link_Repeated_iter : forall s d, Inv s -> abs s = map (Pid Repeated.tid) d ->
  forall first last, Repeated.st_iter first last d <> [] ->
  iter_range s (P first) (P last) = Ok (map (Pid Repeated.tid) (Repeated.st_iter first last d)).
Proof. exact StoreLinkRepeated.link_iter. Qed.

Definition ex_rdoc : Repeated.doc := map (fun i => Repeated.mktok i Repeated.KOther []) [1; 2; 3; 4; 5; 6; 7].
Example C07_link_Repeated_nonvacuous :
  Inv ex_s /\ abs ex_s = map (Pid Repeated.tid) ex_rdoc /\ ids_pos Repeated.tid ex_rdoc /\
  Repeated.st_splice [Repeated.mktok 9 Repeated.KOther []] 2 5 ex_rdoc
    = Ok (map (fun i => Repeated.mktok i Repeated.KOther []) [1; 9; 6; 7]).
Proof.
  split; [exact (proj1 ex_inv)|]. split; [rewrite (proj2 ex_inv); reflexivity|]. split; [|reflexivity].
  unfold ids_pos, ex_rdoc. repeat constructor.
Qed.

(* Comments.v *)
Theorem C07_link_Comments_splice : forall LF, 1 <= LF -> forall s d, Inv s ->
  abs s = map (Pid Comments.t_id) d -> ids_pos Comments.t_id d ->
  forall new ref del_end d', ids_pos Comments.t_id new -> NoDup (map Comments.t_id new) ->
  (forall x, In x new -> ~ In (Comments.t_id x) (map Comments.t_id d) \/
      exists rng, Comments.iter_range d ref del_end = Some rng /\ In (Comments.t_id x) (map Comments.t_id rng)) ->
  Comments.splice d new ref del_end = Some d' ->
  let s' := fst (splice LF s (map (Pid Comments.t_id) new) (Some (P ref)) (Some (P del_end))) in
  splice LF s (map (Pid Comments.t_id) new) (Some (P ref)) (Some (P del_end)) = (s', Ok tt) /\ Inv s' /\
  abs s' = map (Pid Comments.t_id) d' /\ (forall u, txt s' u = txt s u).
Proof. exact StoreLinkComments.link_splice. Qed.

Theorem C07_link_Comments_splice_absent : forall LF s d, Inv s ->
  abs s = map (Pid Comments.t_id) d -> ids_pos Comments.t_id d ->
  forall new ref del_end, 0 < ref -> 0 < del_end ->
  (~ In ref (map Comments.t_id d) \/ ~ In del_end (map Comments.t_id d)) ->
  Comments.splice d new ref del_end = None /\
  splice LF s (map (Pid Comments.t_id) new) (Some (P ref)) (Some (P del_end)) = (s, Err ValueError).
Proof. exact StoreLinkComments.link_splice_absent. Qed.

Theorem C07_link_Comments_iter_range : forall s d, Inv s -> abs s = map (Pid Comments.t_id) d ->
  forall first last rng, Comments.iter_range d first last = Some rng -> rng <> [] ->
  iter_range s (P first) (P last) = Ok (map (Pid Comments.t_id) rng).
Proof. exact StoreLinkComments.link_iter_range. Qed.

Theorem C07_link_Comments_walk : forall s d, Inv s -> abs s = map (Pid Comments.t_id) d ->
  forall start a t b, Comments.split_at start d = Some (a, t :: b) ->
  get_next s (P start) = Ok (option_map (Pid Comments.t_id) (match b with [] => None | x :: _ => Some x end)) /\
  get_prev s (P start) = Ok (option_map (Pid Comments.t_id) (match a with [] => None | x :: r => Some (last r x) end)) /\
  Comments.walk d start false = Some b /\ Comments.walk d start true = Some (rev a).
Proof. exact StoreLinkComments.link_walk_step. Qed.

Definition ex_cdoc : Comments.doc := map (fun i => Comments.mktok i Comments.KOther [] false) [1; 2; 3; 4; 5; 6; 7].
Example C07_link_Comments_nonvacuous :
  Inv ex_s /\ abs ex_s = map (Pid Comments.t_id) ex_cdoc /\ ids_pos Comments.t_id ex_cdoc /\
  Comments.splice ex_cdoc (map (fun i => Comments.mktok i Comments.KOther [] false) [4; 3; 2]) 2 4
    = Some (map (fun i => Comments.mktok i Comments.KOther [] false) [1; 4; 3; 2; 5; 6; 7]).
Proof.
  split; [exact (proj1 ex_inv)|]. split; [rewrite (proj2 ex_inv); reflexivity|]. split; [|reflexivity].
  unfold ids_pos, ex_cdoc. repeat constructor.
Qed.

(* position-based models: Spacing.v, NumExpr.v, Builder.v.  Their results are positional splices of the
   document, and the positional store call computes the same positional splice of abs s. *)
Theorem C07_link_positional_call : forall LF s N p q s' r, 1 <= LF -> Inv s -> (p <= q <= length (abs s))%nat ->
  NoDup N -> (forall t, In t N -> ~ In t (abs s)) ->
  StoreLinkMisc.pos_call LF s N p q = (s', r) ->
  r = Ok tt /\ Inv s' /\ abs s' = StoreLinkMisc.gsplice (abs s) N p q /\ (forall t, txt s' t = txt s t).
Proof. exact StoreLinkMisc.pos_call_spec. Qed.

Theorem C07_link_Spacing_set_after : forall d j new,
  exists p q, (p <= q <= length d)%nat /\ Spacing.set_raw_spacing_after d j new = StoreLinkMisc.gsplice d new p q.
Proof. exact StoreLinkMisc.link_spacing_after. Qed.
Theorem C07_link_Spacing_set_before : forall d i new,
  exists p q, (p <= q <= length d)%nat /\ Spacing.set_raw_spacing_before d i new = StoreLinkMisc.gsplice d new p q.
Proof. exact StoreLinkMisc.link_spacing_before. Qed.

Theorem C07_link_NumExpr_inplace : forall k self other r, NumExpr.inplace k self other = Ok r ->
  exists L R, (L = [] \/ L = [NumExpr.TLp]) /\
    NumExpr.store_toks r = NumExpr.pre self ++ L ++ NumExpr.re (NumExpr.body self) ++ R ++ NumExpr.post self /\
    let p := length (NumExpr.pre self) in let q := (p + length (NumExpr.re (NumExpr.body self)))%nat in
    NumExpr.store_toks r = StoreLinkMisc.gsplice (StoreLinkMisc.gsplice (NumExpr.store_toks self) R q q) L p p.
Proof. exact StoreLinkMisc.link_numexpr_inplace. Qed.

Theorem C07_link_Builder_store : forall LF tk built, 1 <= LF -> clean tk -> NoDup built ->
  let s' := fst (insert_after LF (empty_store tk) None built) in
  insert_after LF (empty_store tk) None built = (s', Ok tt) /\ Inv s' /\ abs s' = built /\
  (forall k1 k2 a b, nth_error built k1 = Some a -> nth_error built k2 = Some b -> (k1 <= k2)%nat ->
     iter_range s' a b = Ok (firstn (k2 + 1 - k1) (skipn k1 built))).
Proof. exact StoreLinkMisc.link_builder_store. Qed.

Example C07_link_positional_nonvacuous : Inv ex_s /\ (2 <= 5 <= length (abs ex_s))%nat /\
  NoDup [8; 9]%positive /\ (forall t, In t [8; 9]%positive -> ~ In t (abs ex_s)).
Proof.
  split; [exact (proj1 ex_inv)|]. rewrite (proj2 ex_inv). split; [cbn; lia|].
  split; [repeat constructor; cbn; intuition discriminate|]. intros t [<-|[<-|[]]]; cbn; intuition discriminate.
Qed.
