From AB Require Import Store.
Theorem C02_placeholder : True. Proof. exact I. Qed.
