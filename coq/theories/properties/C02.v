(* C02 - changing one token changes only that token's characters.
   `set_text` models Token._update_raw_text (which calls TokenStore.update for a token in a store). *)
From AB Require Import StoreTop StoreRun.

(* the sequence of tokens (identity and order) is unchanged, the token has the new text, every other
   token keeps its text; holds for tokens in the store and for free tokens *)
Theorem C02_update_frame : forall s t x s' r, Inv s -> set_text s t x = (s', r) ->
  r = Ok tt /\ Inv s' /\ abs s' = abs s /\ (forall u, hnd s' u = hnd s u) /\ txt s' t = x /\
  (forall u, u <> t -> txt s' u = txt s u).
Proof. exact set_text_spec. Qed.

(* hence the printed text changes exactly inside that token's span *)
Theorem C02_printed_text : forall s t x s' r k, Inv s -> nth_error (abs s) k = Some t -> set_text s t x = (s', r) ->
  let pre := prefix_text s k in
  let post := concat (map (txt s) (skipn (S k) (abs s))) in
  printed s = pre ++ txt s t ++ post /\ printed s' = pre ++ x ++ post.
Proof. exact set_text_printed. Qed.

Example C02_update_nonvacuous : Inv ex_s /\ nth_error (abs ex_s) 4 = Some 5%positive /\ txt ex_s 5 = [97; 10; 98].
Proof. split; [exact (proj1 ex_inv)|]. split; [rewrite (proj2 ex_inv); reflexivity|vm_compute; reflexivity]. Qed.

(* sequences of assignments *)
Theorem C02_assignments : forall l s, Inv s ->
  Inv (assign_all s l) /\ abs (assign_all s l) = abs s /\
  (forall u, txt (assign_all s l) u = texts_after (txt s) l u).
Proof. exact assign_all_spec. Qed.

Example C02_assignments_nonvacuous : Inv ex_s /\
  texts_after (txt ex_s) [(2%positive, [120]); (5%positive, [10; 10]); (2%positive, [])] 2%positive = [].
Proof. split; [exact (proj1 ex_inv)|vm_compute; reflexivity]. Qed.

(* structural edits never change any text *)
Theorem C02_splice_keeps_texts : forall LF s tokens ref del_end p q s' r,
  1 <= LF -> Inv s -> ref_pos (abs s) ref p -> end_pos (abs s) del_end p q ->
  valid_tokens s tokens p q ->
  splice LF s tokens ref del_end = (s', r) -> forall t, txt s' t = txt s t.
Proof. intros LF s tokens ref del_end p q s' r H1 H2 H3 H4 H5 H6. exact (proj1 (proj2 (proj2 (proj2 (splice_spec LF s tokens ref del_end p q s' r H1 H2 H3 H4 H5 H6))))). Qed.

(* the value / indent setters of token models are set_text (formatter value): only that token's characters
   change, whatever the formatter *)
Theorem C02_setter_frame : forall (V : Type) (fmt : V -> str) s t v s' r k, Inv s -> nth_error (abs s) k = Some t ->
  setter fmt s t v = (s', r) ->
  r = Ok tt /\ Inv s' /\ abs s' = abs s /\ txt s' t = fmt v /\ (forall u, u <> t -> txt s' u = txt s u) /\
  printed s' = prefix_text s k ++ fmt v ++ concat (map (txt s) (skipn (S k) (abs s))) /\
  (forall k' u, nth_error (abs s') k' = Some u ->
     get_position s' u = Ok (advance pos0 (prefix_text s' k')) /\ get_index s' u = Ok (Z.of_nat k')).
Proof. exact @setter_spec. Qed.
