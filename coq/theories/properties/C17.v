(* C17 - spacing accessors read and write exactly the whitespace between neighbours.
   d = token list of the store; i / j = position of model.first_token / model.last_token.
   Statements only; proofs are in SpacingProofs.v. *)
From AB Require Import Prelude Spacing SpacingProofs.

(* getter: after skipping zero-width tokens the getter returns the text of the unique maximal run of
   Newline/Whitespace tokens (travel order: forwards from last_token for spacing_after, backwards
   from first_token for spacing_before; `find_spacing l` is what both raw getters compute on that list) *)
Theorem C17_get_scan : forall l : list tok,
  exists S, spacing_run_of l S /\ (forall S2, spacing_run_of l S2 -> S2 = S)
            /\ find_spacing l = filter nonempty S /\ txt (find_spacing l) = txt S.
Proof. exact run_exists_unique. Qed.

(* The getter clause as the property states it - "exactly the run of blanks and newlines adjacent to it" in
   the PRINTED TEXT (text_run: zero-width tokens print nothing) - is FALSE on the unchanged tree: the scan
   stops at a zero-width mark, so with blanks in front of the end-of-line mark ("open Assets:A  \n") the
   account's spacing_after is "  " while the adjacent run in the text is "  \n". By design (the comment in
   _find_spacing: "must not interleave with special tokens to avoid removing them in spacing update"); known
   finding C17:both-sides:blanks-before-eol. Proved instead: the clause holds exactly when no zero-width
   mark splits the run. *)
Theorem C17_get_partial : forall l, split_by_mark l = false -> find_spacing l = text_run l.
Proof. exact get_text_partial. Qed.

Theorem C17_get_only_then : forall l, split_by_mark l = true -> txt (find_spacing l) <> txt (text_run l).
Proof. exact get_text_split. Qed.

(* witness: the tokens after `Assets:A` in  "2000-01-01 open Assets:A  \n2000-01-02 close Assets:A\n" *)
Definition finding_doc : list tok :=
  [mktok KOther [65]; mktok KWhitespace [32; 32]; mktok KOther []; mktok KOther []; mktok KNewline [10];
   mktok KOther [50]].
Theorem C17_get_refuted : exists l, txt (find_spacing l) <> txt (text_run l).
Proof. exists (skipn 1 finding_doc). vm_compute. discriminate. Qed.

(* adjacent models see the same run from both sides when the gap is  empties* spacing* empties*, i.e. when
   no zero-width mark splits the run between them (for a gap between consecutive visible tokens, which
   consists of zero-width and spacing tokens only, the other shape is spacing - mark - spacing: the
   signature of the finding); the unconditional clause is refuted below *)
Theorem C17_both_sides : forall pre a E1 G E2 b post,
  Forall (fun t => is_empty t = true) E1 -> Forall (fun t => is_spacing t = true) G ->
  Forall (fun t => is_empty t = true) E2 -> visible a = true -> visible b = true ->
  let d := pre ++ a :: (E1 ++ G ++ E2) ++ b :: post in
  spacing_after d (length pre) = txt G
  /\ spacing_before d (length pre + 1 + length (E1 ++ G ++ E2)) = txt G.
Proof. exact both_sides_text. Qed.

(* the executable check the harness runs on every gap of every parsed document is that shape *)
Theorem C17_gap_shape_sound : forall g, gap_shape_b g = true ->
  exists E1 S E2, g = E1 ++ S ++ E2 /\ Forall (fun t => is_empty t = true) E1
                  /\ Forall (fun t => is_spacing t = true) S /\ Forall (fun t => is_empty t = true) E2.
Proof. exact gap_shape_decomp. Qed.

(* setter: d' = d with exactly the tokens the getter reported (a block of Newline/Whitespace tokens)
   replaced by the tokens of s; every other token is the same token in the same order; the length of
   the text changes by |s| - |old spacing|; with only blanks in spacing tokens the non-blank text is
   unchanged *)
Theorem C17_set_after_frame : forall d j s,
  set_statement d (set_spacing_after d j s) s (raw_spacing_after d j).
Proof. exact set_after_statement. Qed.

Theorem C17_set_before_frame : forall d i s,
  set_statement d (set_spacing_before d i s) s (raw_spacing_before d i).
Proof. exact set_before_statement. Qed.

(* a non-empty string of spaces, tabs, LF and CR*LF reads back as assigned *)
Theorem C17_set_get_after : forall d j s, (j < length d)%nat -> s <> [] -> spacing_string_b s = true ->
  spacing_after (set_spacing_after d j s) j = s.
Proof. exact set_get_after. Qed.

Theorem C17_set_get_before : forall d i s, s <> [] -> spacing_string_b s = true ->
  spacing_before (set_spacing_before d i s) (moved_first d i (text_to_tokens s)) = s.
Proof. exact set_get_before. Qed.

(* the recogniser used in the two statements above is the language (' ' | '\t' | '\r'* '\n')* *)
Theorem C17_language : forall s, spacing_string_b s = true <-> spacing_string s.
Proof. intros s. split; [apply spacing_string_b_sound|apply spacing_string_b_complete]. Qed.

(* non-vacuity: Account Eol'' Placeholder'' "\n" " " Date *)
Definition ex_doc : list tok :=
  [mktok KOther [65]; mktok KOther []; mktok KOther []; mktok KNewline [10]; mktok KWhitespace [32];
   mktok KOther [50]].
Example C17_both_sides_ex :
  spacing_after ex_doc 0 = [10; 32] /\ spacing_before ex_doc 5 = [10; 32]
  /\ gap_shape_b (firstn 4 (skipn 1 ex_doc)) = true.
Proof. vm_compute. repeat split. Qed.
Example C17_set_get_ex :
  spacing_string_b [13; 10; 9] = true
  /\ spacing_after (set_spacing_after ex_doc 0 [13; 10; 9]) 0 = [13; 10; 9]
  /\ spacing_before (set_spacing_before ex_doc 5 [13; 10; 9]) (moved_first ex_doc 5 (text_to_tokens [13; 10; 9])) = [13; 10; 9]
  /\ txt (set_spacing_after ex_doc 0 [13; 10; 9]) = [65; 13; 10; 9; 50].
Proof. vm_compute. repeat split. Qed.
Example C17_get_ex : spacing_run_of (skipn 1 ex_doc) [mktok KNewline [10]; mktok KWhitespace [32]].
Proof.
  exists [mktok KOther []; mktok KOther []], [mktok KOther [50]].
  repeat split; try reflexivity; repeat constructor.
Qed.

(* the unconditional clause is false on the unchanged tree (same witness; a = Account, b = Date are
   consecutive visible tokens, the text between them is the single run "  \n") *)
Theorem C17_both_sides_refuted : exists pre a gap b post,
  visible a = true /\ visible b = true /\ forallb (fun t => negb (visible t)) gap = true
  /\ let d := pre ++ a :: gap ++ b :: post in
     spacing_after d (length pre) <> spacing_before d (length pre + 1 + length gap)
     /\ spacing_after d (length pre) <> txt gap.
Proof.
  exists [], (mktok KOther [65]), (firstn 4 (skipn 1 finding_doc)), (mktok KOther [50]), [].
  vm_compute. repeat split; discriminate.
Qed.

(* the shape hypothesis of C17_both_sides is needed, and parsed documents do contain the other shape:
   "A \n2" is  Account, Whitespace " ", Eol "", Newline "\n", Date  -  by design each side reports the
   run up to the zero-width end-of-line mark (the code comment: "must not interleave with special tokens") *)
Example C17_both_sides_needs_shape :
  let d := [mktok KOther [65]; mktok KWhitespace [32]; mktok KOther []; mktok KNewline [10]; mktok KOther [50]] in
  spacing_after d 0 = [32] /\ spacing_before d 4 = [10] /\ gap_shape_b (firstn 3 (skipn 1 d)) = false.
Proof. vm_compute. repeat split. Qed.
