(* C04 - operations that are not edits never change the document.
   For every comment-attribution primitive (claim in both directions, unclaim, _shift_ignored, the interleaving
   claimer and un-claimer) and every history of surrounding-comment calls: the new token list is a permutation of
   the old one and the tokens that are not Placeholders are the *same tokens in the same order with the same
   text* (same_vis), hence the printed text is unchanged.  Getters, iteration, ==, hash, deepcopy and printing do
   not write the store in the model by construction; that the implementation's do not is checked by the
   read-only sweep of harness/c14.py (monitor, not theorem). *)
From AB Require Import Prelude Comments CommentsProofs.

Theorem C04_claim_comment : forall cur d start bw ig ind r d',
  NoDup (ids d) -> claim_comment cur d start bw ig ind = (r, d') -> same_vis d' d.
Proof. exact claim_comment_same_vis. Qed.

Theorem C04_unclaim_comment : forall cur d r now d', unclaim_comment cur d = (r, now, d') -> same_vis d' d.
Proof. exact unclaim_comment_same_vis. Qed.

(* no restriction on the shifted range: any number of visible tokens, value-equal tokens included (tokens are
   told apart by identity = id); first/last need not even be in order *)
Theorem C04_shift_ignored : forall d first last bw d', shift_ignored d first last bw = Some d' -> same_vis d' d.
Proof. exact shift_ignored_same_vis. Qed.

Theorem C04_claim_interleaving : forall d ph items mf ml flt r d',
  claimer_claim d ph items mf ml flt = (r, d') -> same_vis d' d.
Proof. exact claimer_claim_same_vis. Qed.

Theorem C04_unclaim_interleaving : forall d items flt r d', unclaim_inter d items flt = (r, d') -> same_vis d' d.
Proof. exact unclaim_inter_same_vis. Qed.

(* every history of the six non-edit comment calls (claim_/unclaim_ leading/trailing/interleaving); an
   auto_claim_comments is a sequence of such calls *)
Theorem C04_history : forall ops st, NoDup (ids (fst st)) -> same_vis (fst (fold_left cstep ops st)) (fst st).
Proof. exact chistory_same_vis. Qed.

Theorem C04_text_unchanged : forall d' d, same_vis d' d ->
  (forall t, In t d -> is_ph t = true -> t_text t = []) -> txt d' = txt d.
Proof. exact same_vis_txt. Qed.

(* non-vacuity: unique ids are satisfiable and the claim really moves a placeholder *)
Example C04_nonvacuous :
  NoDup (ids ex_doc) /\
  map t_id (snd (claim_comment None ex_doc 3 false false (Some false))) = [1; 2; 3; 5; 6; 4; 7; 8] /\
  fst (claim_comment None ex_doc 3 false false (Some false)) = Ok (Some 6).
Proof. split; [exact ex_doc_nodup | split; vm_compute; reflexivity]. Qed.
