(* C04 - operations that are not edits never change the document.
   (I)  Comment attribution.  For every comment-attribution primitive (claim in both directions, unclaim,
   _shift_ignored, the interleaving claimer and un-claimer) and every history of surrounding-comment calls: the new
   token list is a permutation of the old one and the tokens that are not Placeholders are the *same tokens in the same
   order with the same text* (same_vis), hence the printed text is unchanged.
   (II) The other non-edit operations the development models (ReadOnlyProofs.v):
     - wrappers and views created lazily and cached on first read (repeated_node_property._get,
       cached_custom_property._get), the deep copy of a wrapper, and reads through wrappers / views (WholeField.v): they
       DO write the heap (instance caches, handler lists, the copy's new objects) but every Repeated that existed keeps
       its items, attachment and liveness, every instance keeps its list, every handler that was registered is still
       registered with the cache it had - for one step, for every history of such steps, for every variant of the code,
       and in every heap reachable from a parsed document by any history of edits (C04_read_history);
     - reading through a view (len, iteration, getitem, mapping get / contains / keys / values / items, the dict views:
       Views.v) returns the state it was given - raw list and every index cache - and what a read returns does not
       depend on the reads before it; creating a view appends one handler and keeps the raw list;
     - copy.deepcopy of a model (Tree.clone, a function of its source): after any number of deep copies every live tree
       is the same value at the same place; the copy prints its source's text and shares no token identity and no store
       with ANY live tree;
     - the token store's observers (get_index / get_position / get_prev / get_next / get_first / get_last / iteration /
       range iteration / len: Store.v) are functions of the store; deleting them from a history that interleaves them
       with edits gives the same final store, token list and texts.
   ==, hash (Tree.node_eq; properties/C20.v) and printing are functions of their arguments in the model: there is no
   state they could write, nothing to prove.  (I) and (II) are separate theorems on purpose: claiming interleaving
   comments makes the comments ITEMS of the Repeated (items[:] = ...), so "raw lists unchanged" is false for it; its
   guarantee is same_vis on the tokens.
   That the implementation's getters, iteration, ==, hash, deepcopy and printing write nothing is checked on every run
   by the read-only sweep of harness/c14.py (store snapshot) and, for the raw lists behind wrappers and views, by the
   read-step monitor of harness/wholefield.py (monitor, not theorem). *)
From AB Require Import Prelude PySeq Views WholeField WholeFieldProofs.
From AB Require Import Desc Generated Tree TreeDefs TreeRun TreeFacts.
From AB Require Store StoreRun StoreTop.
From AB Require Import ReadOnlyProofs.
From AB Require Import Prelude Comments CommentsProofs.

Theorem C04_claim_comment : forall cur d start bw ig ind r d',
  NoDup (ids d) -> claim_comment cur d start bw ig ind = (r, d') -> same_vis d' d.
Proof. exact claim_comment_same_vis. Qed.

Theorem C04_unclaim_comment : forall cur d r now d', unclaim_comment cur d = (r, now, d') -> same_vis d' d.
Proof. exact unclaim_comment_same_vis. Qed.

(* no restriction on the shifted range: any number of visible tokens, value-equal tokens included (tokens are
   told apart by identity = id); first/last need not even be in order *)
Theorem C04_shift_ignored : forall d first last bw d', shift_ignored d first last bw = Some d' -> same_vis d' d.
Proof. exact shift_ignored_same_vis. Qed.

Theorem C04_claim_interleaving : forall d ph items mf ml flt r d',
  claimer_claim d ph items mf ml flt = (r, d') -> same_vis d' d.
Proof. exact claimer_claim_same_vis. Qed.

Theorem C04_unclaim_interleaving : forall d items flt r d', unclaim_inter d items flt = (r, d') -> same_vis d' d.
Proof. exact unclaim_inter_same_vis. Qed.

(* every history of the six non-edit comment calls (claim_/unclaim_ leading/trailing/interleaving); an
   auto_claim_comments is a sequence of such calls *)
Theorem C04_history : forall ops st, NoDup (ids (fst st)) -> same_vis (fst (fold_left cstep ops st)) (fst st).
Proof. exact chistory_same_vis. Qed.

Theorem C04_text_unchanged : forall d' d, same_vis d' d ->
  (forall t, In t d -> is_ph t = true -> t_text t = []) -> txt d' = txt d.
Proof. exact same_vis_txt. Qed.

(* non-vacuity: unique ids are satisfiable and the claim really moves a placeholder *)
Example C04_nonvacuous :
  NoDup (ids ex_doc) /\
  map t_id (snd (claim_comment None ex_doc 3 false false (Some false))) = [1; 2; 3; 5; 6; 4; 7; 8] /\
  fst (claim_comment None ex_doc 3 false false (Some false)) = Ok (Some 6).
Proof. split; [exact ex_doc_nodup | split; vm_compute; reflexivity]. Qed.

(* ==== (II) the other non-edit operations ====================================================================== *)

(* ---- wrappers, views, wrapper copies (WholeField.v) ---- *)
(* one non-edit step (wread: WGetWrapper, WGetView, WCopy, a read through a wrapper's view), any variant of the code *)
Theorem C04_wrapper_read_step : forall var h o, wread o = true -> reps_bounded h ->
  forall k R, WholeField.lookup k (h_reps h) = Some R -> WholeField.lookup k (h_reps (fst (wstep var h o))) = Some R.
Proof. exact read_step_keeps_reps. Qed.

(* a read through a wrapper or a view returns the very heap it was given *)
Theorem C04_wrapper_read_through : forall h w o, read_only o = true -> fst (edit h w o) = h.
Proof. exact edit_read_heap. Qed.

(* any history of non-edit steps: every Repeated that existed is exactly as it was (items, attachment, liveness) *)
Theorem C04_wrapper_read_history_reps : forall var ops h, Forall (fun o => wread o = true) ops -> reps_bounded h ->
  forall k R, WholeField.lookup k (h_reps h) = Some R -> WholeField.lookup k (h_reps (wrun var h ops)) = Some R.
Proof. exact read_history_keeps_reps. Qed.

(* ... every instance holds the same list object with the same items *)
Theorem C04_wrapper_read_history_fields : forall var ops h, Forall (fun o => wread o = true) ops -> reps_bounded h ->
  forall i ins its, WholeField.lookup i (h_insts h) = Some ins -> field_items h ins = Some its ->
  exists ins', WholeField.lookup i (h_insts (wrun var h ops)) = Some ins' /\ i_field ins' = i_field ins
               /\ field_items (wrun var h ops) ins' = Some its.
Proof. exact read_history_keeps_fields. Qed.

(* ... every handler (view with its index cache) registered on an existing wrapper is still there, in place, unchanged *)
Theorem C04_wrapper_read_history_views : forall var ops h, Forall (fun o => wread o = true) ops -> wrps_bounded h ->
  forall w W, WholeField.lookup w (h_wrps h) = Some W ->
  exists W', WholeField.lookup w (h_wrps (wrun var h ops)) = Some W' /\ w_rep W' = w_rep W
             /\ forall k v, nth_error (w_views W) k = Some v -> nth_error (w_views W') k = Some v.
Proof. exact read_history_keeps_views. Qed.

(* the combined statement: in every heap reachable from a parsed document by ANY history `pre` (edits, whole-field
   assignments, copies ...), a history of non-edit steps leaves every raw list as it was *)
Theorem C04_read_history : forall its pre ops, Forall (fun o => wread o = true) ops ->
  let h := wrun VRepaired (init_heap its) pre in
  let h' := wrun VRepaired h ops in
  (forall k R, WholeField.lookup k (h_reps h) = Some R -> WholeField.lookup k (h_reps h') = Some R)
  /\ (forall i ins, WholeField.lookup i (h_insts h) = Some ins ->
        exists ins' its0, WholeField.lookup i (h_insts h') = Some ins' /\ i_field ins' = i_field ins
                          /\ field_items h ins = Some its0 /\ field_items h' ins' = Some its0).
Proof. exact reachable_read_history. Qed.

(* what a read through an existing view returns after a history of non-edit steps is what it returned before it *)
Theorem C04_wrapper_reads_same_answers : forall var ops h w W R o,
  Forall (fun o => wread o = true) ops -> w < h_next h -> w_rep W < h_next h ->
  WholeField.lookup w (h_wrps h) = Some W -> WholeField.lookup (w_rep W) (h_reps h) = Some R ->
  read_only o = true -> (op_view o < length (w_views W))%nat ->
  snd (edit (wrun var h ops) w o) = snd (edit h w o).
Proof. exact read_history_same_answers. Qed.

Example C04_same_answers_instance :
  let h := wrun VRepaired (init_heap ex_its) (ex_read ++ [WEdit 2 (RAppend (mkelem 1 0 9)); WEdit 3 (RPop 0)]) in
  exists W R, WholeField.lookup 2 (h_wrps h) = Some W /\ WholeField.lookup (w_rep W) (h_reps h) = Some R
    /\ (2 <? h_next h) = true /\ (w_rep W <? h_next h) = true
    /\ Nat.ltb (op_view (VIter 1)) (length (w_views W)) = true
    /\ snd (edit (wrun VRepaired h ex_ro) 2 (VIter 1)) = Ok (RL [mkelem 0 0 2]).
Proof. eexists. eexists. vm_compute. repeat split; reflexivity. Qed.

(* non-vacuity: after edits (an append, a pop), ex_ro (three cached reads, a wrapper copy, reads through views, a cached
   re-read) is a history of non-edit steps that really runs: the allocator moves from 4 to 6 (the copied Repeated and its
   wrapper), the lists are [.. ; appended] and the popped one, before and after *)
Example C04_read_history_instance :
  let pre := ex_read ++ [WEdit 2 (RAppend (mkelem 1 0 9)); WEdit 3 (RPop 0)] in
  let h := wrun VRepaired (init_heap ex_its) pre in
  let h' := wrun VRepaired h ex_ro in
  Forall (fun o => wread o = true) ex_ro /\ reps_bounded h /\ wrps_bounded h
  /\ h_next h = 4 /\ h_next h' = 6
  /\ option_map r_items (WholeField.lookup 0 (h_reps h)) = Some [mkelem 1 0 1; mkelem 2 0 2; mkelem 1 0 9]
  /\ option_map r_items (WholeField.lookup 0 (h_reps h')) = Some [mkelem 1 0 1; mkelem 2 0 2; mkelem 1 0 9]
  /\ option_map r_items (WholeField.lookup 1 (h_reps h')) = Some [mkelem 1 0 4]
  /\ option_map r_items (WholeField.lookup 4 (h_reps h')) = Some [mkelem 1 0 4]
  /\ snd (wstep VRepaired h' (WEdit 2 (VIter 0))) = Ok (RL [mkelem 0 0 1; mkelem 0 0 9]).
Proof.
  assert (HI : WholeFieldProofs.Inv (wrun VRepaired (init_heap ex_its)
                      (ex_read ++ [WEdit 2 (RAppend (mkelem 1 0 9)); WEdit 3 (RPop 0)]))) by (apply wrun_inv, init_inv).
  destruct HI as (_ & _ & _ & _ & _ & _ & Hb1 & Hb2).
  split; [exact ex_ro_reads|]. split; [exact Hb1|]. split; [exact Hb2|]. vm_compute. repeat split; reflexivity.
Qed.

(* ---- reading through a view (Views.v), code as found or repaired ---- *)
Theorem C04_view_read : forall fx s o, read_only o = true -> fst (Views.step fx s o) = s.
Proof. exact step_read_state. Qed.

(* creating views and reading through them, any history: same raw list, the handlers that were there keep their caches *)
Theorem C04_view_read_history : forall fx ops s, Forall (fun o => view_read o = true) ops ->
  items (Views.run fx s ops) = items s /\ exists more, views (Views.run fx s ops) = views s ++ more.
Proof. exact views_read_history. Qed.

(* what any operation does or returns after a history of reads is what it does or returns without them *)
Theorem C04_view_reads_do_not_interfere : forall fx ops s o, Forall (fun o => read_only o = true) ops ->
  Views.step fx (Views.run fx s ops) o = Views.step fx s o.
Proof. exact views_reads_do_not_interfere. Qed.

Example C04_view_read_instance :
  let s := mkst [mkelem 1 0 5; mkelem 2 0 6; mkelem 1 7 8] [] in
  let ops := [ORegister [1] KString; VLen 0; VIter 0; VGet 0 (IInt (-1)); ORegister [1; 2] KNode; MGet 1 true 7;
              MContains 1 3; MKeys 1; MValues 1 false; MItems 1 true; MDict 1 2 false DReversed; VGet 0 (IInt 5)] in
  Forall (fun o => view_read o = true) ops
  /\ items (Views.run true s ops) = items s /\ length (views (Views.run true s ops)) = 2%nat
  /\ snd (Views.step true (Views.run true s ops) (VIter 0)) = Ok [mkelem 0 0 5; mkelem 0 0 8]
  /\ snd (Views.step true (Views.run true s ops) (VGet 0 (IInt 5))) = Err IndexError.
Proof. split; [repeat constructor|]. vm_compute. repeat split; reflexivity. Qed.

(* ---- copy.deepcopy of a model (Tree.v) ---- *)
(* any number of deep copies: every live tree is the same value (tokens, identities, texts, store ids, fields) at the
   same place in the forest *)
Theorem C04_deepcopy_keeps_forest : forall cs rq F j a,
  nth_error F j = Some a -> nth_error (deepcopies cs F rq) j = Some a.
Proof. exact deepcopies_keep_nth. Qed.

(* the tree a deep copy adds prints its source's text and shares no token identity and no store with ANY live tree *)
Theorem C04_deepcopy_apart : forall cs F k new f a,
  classes_ok cs -> nth_error F k = Some a -> conforms cs a = true ->
  (forall t, k_rule (f t) = k_rule t /\ k_text (f t) = k_text t) ->
  (forall t y, In t (node_toks a ++ leaves a) -> In y (forest_toks F) -> k_id (f t) <> k_id y) ->
  ~ In new (forest_sids F) ->
  exists c, deepcopy cs F k new f = F ++ [c]
    /\ text_of (node_toks c) = text_of (node_toks a)
    /\ (forall x y, In x (node_toks c ++ leaves c) -> In y (forest_toks F) -> k_id x <> k_id y)
    /\ (forall s, In s (sids c) -> ~ In s (forest_sids F)).
Proof. exact deepcopy_apart. Qed.

Example C04_deepcopy_instance :
  let F := [ex_open_num; ex_open_other] in
  classes_ok all_classes /\ nth_error F 0 = Some ex_open_num /\ conforms all_classes ex_open_num = true
  /\ (forall t, k_rule (ex_fresh t) = k_rule t /\ k_text (ex_fresh t) = k_text t)
  /\ (forall t y, In t (node_toks ex_open_num ++ leaves ex_open_num) -> In y (forest_toks F) ->
        k_id (ex_fresh t) <> k_id y)
  /\ ~ In 9 (forest_sids F)
  /\ length (deepcopies all_classes F [(0%nat, 9, ex_fresh); (2%nat, 10, ex_fresh); (1%nat, 11, ex_fresh)]) = 5%nat
  /\ length (leaves ex_open_num) = 16%nat.
Proof.
  split; [exact classes_ok_all|]. split; [reflexivity|]. split; [vm_compute; reflexivity|].
  split; [exact ex_fresh_keeps|]. split; [apply fresh_b_ok; vm_compute; reflexivity|].
  split; [|vm_compute; split; reflexivity].
  intros H. vm_compute in H. repeat (destruct H as [H|H]; [discriminate H|]). exact H.
Qed.

(* ---- observers of the token store (Store.v) ---- *)
(* a history that interleaves observers (mrun: MRead) with edits ends in the store its edits alone produce *)
Theorem C04_store_reads_erasable : forall LF ops s,
  fst (mrun LF s ops) = StoreTop.run_ops LF s (edits_of ops).
Proof. exact store_reads_erasable. Qed.

Theorem C04_store_reads_erasable_abs : forall LF ops s,
  1 <= LF -> StoreInv.Inv s -> StoreOps.pure s -> StoreHist.ops_valid (StoreInv.abs s) (edits_of ops) ->
  StoreInv.abs (fst (mrun LF s ops)) = StoreTop.ref_run (StoreInv.abs s) (edits_of ops)
  /\ (forall t, StoreInv.txt (fst (mrun LF s ops)) t = StoreTop.ref_texts (StoreInv.txt s) (edits_of ops) t).
Proof. exact store_reads_erasable_abs. Qed.

Example C04_store_reads_instance :
  StoreInv.Inv StoreTop.ex_s /\ StoreOps.pure StoreTop.ex_s
  /\ StoreHist.ops_valid (StoreInv.abs StoreTop.ex_s) (edits_of ex_mixed)
  /\ length ex_mixed = 44%nat /\ length (snd (mrun 2 StoreTop.ex_s ex_mixed)) = 37%nat
  /\ StoreInv.abs (fst (mrun 2 StoreTop.ex_s ex_mixed)) = StoreInv.abs (StoreTop.run_ops 2 StoreTop.ex_s StoreTop.ex_ops).
Proof.
  split; [exact (proj1 StoreTop.ex_inv)|]. split; [exact StoreTop.ex_pure|].
  split; [rewrite ex_mixed_edits; exact StoreTop.ex_ops_valid|]. vm_compute. repeat split; reflexivity.
Qed.
