(* C08 - reported line/column positions always match the printed text.
   `advance pos0 text` (Prelude) is the meaning of "(line, column) after reading text" (0-based, as
   Position() starts at (0,0)); `prefix_text s k` is the concatenated text of the first k tokens. *)
From AB Require Import StoreTop StoreRun.

(* token_size is the displacement of reading the text, and it is additive *)
Theorem C08_token_size_meaning : forall x, advance pos0 x = token_size x.
Proof. exact advance_pos0. Qed.
Theorem C08_token_size_app : forall a b, token_size (a ++ b) = pos_iadd (token_size a) (token_size b).
Proof. exact token_size_app. Qed.

(* the reported position of the k-th token is the position of its first character in the printed text;
   the reported index is its ordinal *)
Theorem C08_position : forall s k t, Inv s -> nth_error (abs s) k = Some t ->
  get_position s t = Ok (advance pos0 (prefix_text s k)) /\ get_index s t = Ok (Z.of_nat k).
Proof. intros s k t [I L] H. exact (conj (obs_position s I k t H) (obs_index s I k t H)). Qed.

Example C08_position_nonvacuous : Inv ex_s /\ nth_error (abs ex_s) 5 = Some 6%positive /\
  advance pos0 (prefix_text ex_s 5) = mkpos 2 1.
Proof. split; [exact (proj1 ex_inv)|]. split; [rewrite (proj2 ex_inv); reflexivity|vm_compute; reflexivity]. Qed.

(* a text change (with or without line breaks appearing / disappearing) keeps the invariant, hence
   C08_position holds again afterwards: all four branches of TokenStore.update *)
Theorem C08_update_preserves : forall s t x s' r, Inv s -> set_text s t x = (s', r) ->
  r = Ok tt /\ Inv s' /\ abs s' = abs s /\ (forall u, hnd s' u = hnd s u) /\ txt s' t = x /\
  (forall u, u <> t -> txt s' u = txt s u).
Proof. exact set_text_spec. Qed.

(* the cache arithmetic of update(), as a statement about one block's token list P ++ t :: Q *)
Theorem C08_update_cache : forall tk t r' P Q sz l, ~ In t P -> ~ In t Q ->
  sizes_scan tk 0 (P ++ t :: Q) pos0 (-1) = (sz, l) ->
  let tk' := PositiveMap.add t r' tk in let size := t_size r' in
  let hi := zlen P in let old := tsz tk t in
  let sz1 := mkpos (line sz + (line size - line old)) (col sz) in
  sizes_scan tk' 0 (P ++ t :: Q) pos0 (-1) =
   (if hi <? l then (sz1, l)
    else if negb (line size =? 0) && (line old =? 0) then (mkpos (line sz1) (col size + cols tk Q), hi)
    else if negb (line old =? 0) && (line size =? 0) then
       let '(c, l') := back_scan tk (rev (enum_from 0 P)) (col sz1 + col size - col old) in (mkpos (line sz1) c, l')
    else (mkpos (line sz1) (col sz1 + (col size - col old)), l)).
Proof. exact update_cache. Qed.

(* the fast path of _splice keeps the caches right when last_newline_index >= end_j *)
Theorem C08_fast_path_cache : forall tk B1 R B2 tokens sz l,
  sizes_scan tk 0 (B1 ++ R ++ B2) pos0 (-1) = (sz, l) -> l >= zlen (B1 ++ R) ->
  sizes_scan tk 0 (B1 ++ tokens ++ B2) pos0 (-1) =
  (mkpos (line sz + (- sum_lines tk R + sum_lines tk tokens)) (col sz), l + (zlen tokens - zlen R)).
Proof. exact fast_cache. Qed.

(* after any history of structural edits and text changes, stated on the list/text reference only *)
Theorem C08_history_positions : forall LF ops s k t, 1 <= LF -> Inv s -> pure s -> ops_valid (abs s) ops ->
  nth_error (ref_run (abs s) ops) k = Some t ->
  get_position (run_ops LF s ops) t =
    Ok (advance pos0 (concat (map (ref_texts (txt s) ops) (firstn k (ref_run (abs s) ops))))) /\
  get_index (run_ops LF s ops) t = Ok (Z.of_nat k).
Proof. exact history_positions. Qed.

Example C08_history_nonvacuous : Inv ex_s /\ pure ex_s /\ ops_valid (abs ex_s) ex_ops /\
  nth_error (ref_run (abs ex_s) ex_ops) 4 = Some 11%positive.
Proof.
  split; [exact (proj1 ex_inv)|]. split; [exact ex_pure|]. split; [exact ex_ops_valid|]. rewrite (proj2 ex_inv). vm_compute. reflexivity.
Qed.

(* the value / indent setters of token models (SingleValueRawTokenModel.value, BlockComment.value/.indent):
   new raw text = formatter(value), assigned through Token._update_raw_text (harness tie: ast check that the
   setters call _update_raw_text).  For every formatter: the invariant is kept, so positions are right again *)
Theorem C08_setter_positions : forall (V : Type) (fmt : V -> str) s t v s' r k, Inv s -> nth_error (abs s) k = Some t ->
  setter fmt s t v = (s', r) ->
  r = Ok tt /\ Inv s' /\ abs s' = abs s /\ txt s' t = fmt v /\ (forall u, u <> t -> txt s' u = txt s u) /\
  printed s' = prefix_text s k ++ fmt v ++ concat (map (txt s) (skipn (S k) (abs s))) /\
  (forall k' u, nth_error (abs s') k' = Some u ->
     get_position s' u = Ok (advance pos0 (prefix_text s' k')) /\ get_index s' u = Ok (Z.of_nat k')).
Proof. exact @setter_spec. Qed.

Example C08_setter_nonvacuous : Inv ex_s /\ nth_error (abs ex_s) 4 = Some 5%positive.
Proof. split; [exact (proj1 ex_inv)|]. rewrite (proj2 ex_inv). reflexivity. Qed.
