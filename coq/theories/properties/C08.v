From AB Require Import Store.
Theorem C08_placeholder : True. Proof. exact I. Qed.
