(* C15 - constructed models are well-formed and parse back to the same content.
   Proved here (for all 34 generated classes, regenerated from the source on every run): from_children lays
   out every declared field exactly once and in declaration order, __init__ stores every field, so the
   constructed tree's children are ordered and non-overlapping in its fresh store. The re-parse half of the
   property needs the real lexer/parser (an oracle): decided by the monitor on every run (C15_partial). *)
From AB Require Import Tree TreeDefs TreeProofs TreeProofs2 TreeProofs3 TreeProofs4 TreeWF TreeWFProofs TreeRun TreeFacts Construct ConstructProofs ConstructWF ConstructFacts.
From AB Require Import Desc Generated GeneratedWf DescProofs.
From Coq Require Import ZArith.

Theorem C15_generated_classes_wf : forall c, In c classes -> wf_desc c = true.
Proof. exact generated_wf_each. Qed.

Theorem C15_layout_enumerates_fields_partial :
  forall c l, In c classes -> c_layout c = Some l -> flat_map lay_field l = field_names c.
Proof. intros c l H. apply wf_layout_order. exact (generated_wf_each c H). Qed.

Theorem C15_init_stores_every_field :
  forall c, In c classes -> c_init c = field_names c /\ c_init_data c = c_data c.
Proof. intros c H. destruct (wf_desc_parts c (generated_wf_each c H)) as (A & B & _). split; assumption. Qed.

Example C15_open_layout :
  exists l, c_layout c_Open = Some l /\ flat_map lay_field l = field_names c_Open /\ length l = 13.
Proof. eexists. split; [reflexivity|]. split; vm_compute; reflexivity. Qed.

(* ---- the generic from_children (Construct.construct: the generated classmethod over descriptors,
   with fields.py's detach_with_separators and Repeated.from_children) --------------------------- *)
(* the new store holds, token by token, the texts the layout specifies (children's texts, declared
   separators, placeholder for repeated fields); hence the printed text *)
Theorem C15_constructed_text : forall cs new mid c args data next store n,
  construct cs new mid c args data next = Some (store, n) ->
  texts store = spec_texts c args /\ text_of store = cat (spec_texts c args).
Proof. exact constructed_texts. Qed.
(* each child of the result is the argument given for that field (re-attached), one per layout
   entry; for a class following the scheme these are exactly the declared fields, in order *)
Theorem C15_constructed_fields : forall cs new mid c args data next store n,
  construct cs new mid c args data next = Some (store, n) ->
  exists T kids, n = Tree (c_name c) new T kids data
    /\ (wf_desc c = true -> map fst kids = names c)
    /\ (forall name sl, In (name, sl) kids -> kid_from_arg cs new mid c args name sl).
Proof. exact constructed_fields. Qed.
(* the result conforms to its class declaration, for every subset of optional arguments and every
   list length (args is arbitrary) *)
Theorem C15_constructed_conforms : forall cs new mid c args data next store n,
  find_class cs (c_name c) = Some c -> wf_desc c = true -> NoDup (names c) ->
  args_all args (fun x => conforms cs x = true) ->
  construct cs new mid c args data next = Some (store, n) ->
  conforms cs n = true.
Proof. exact constructed_conforms. Qed.
Theorem C15_constructed_conforms_generated : forall c args new mid data next store n,
  In c classes -> find_class all_classes (c_name c) = Some c ->
  args_all args (fun x => conforms all_classes x = true) ->
  construct all_classes new mid c args data next = Some (store, n) ->
  conforms all_classes n = true.
Proof.
  exact (fun c args new mid data next store n Hc Hf =>
    constructed_conforms all_classes new mid c args data next store n Hf (generated_wf_each c Hc)
      (names_nodup_all c (proj1 (find_class_In _ _ _ Hf)))).
Qed.
(* the result satisfies the C05 statement (TreeWF.WF). Two hypotheses are about the run, not the class:
   the tokens are pairwise distinct objects, and the node spans its whole store. The second holds
   when no separator/literal lies before the first or after the last present child (true of every
   generated layout: checked on the implementation by TreeRun.TWf with the store given); deriving it
   from the descriptor alone is not done here, hence _partial. *)
Theorem C15_constructed_wf_partial : forall cs new mid, classes_ok cs -> forall c args data next store n,
  classes_anchored cs -> find_class cs (c_name c) = Some c -> wf_desc c = true -> NoDup (names c) ->
  args_all args (arg_good cs) ->
  construct cs new mid c args data next = Some (store, n) ->
  NoDup (ids store) -> node_toks n = store ->
  WF cs n.
Proof. exact constructed_wf. Qed.

Example C15_constructed_hyps :
  find_class all_classes (c_name c_Open) = Some c_Open /\ wf_desc c_Open = true
  /\ match ex_construct with
     | Some (store, n) =>
       nodupz (ids store) = true /\ toks_same (node_toks n) store = true
       /\ conforms all_classes n = true /\ wf_b all_classes n = true /\ whole_store_b n store = true
       /\ length store = 23%nat
     | None => False
     end.
Proof. vm_compute. auto 10. Qed.
Example C15_constructed_args_good : args_all ex_args (arg_good all_classes).
Proof. exact ex_args_good. Qed.
