(* C15 - constructed models are well-formed and parse back to the same content.
   Proved here (for all 34 generated classes, regenerated from the source on every run): from_children lays
   out every declared field exactly once and in declaration order, __init__ stores every field, so the
   constructed tree's children are ordered and non-overlapping in its fresh store. The re-parse half of the
   property needs the real lexer/parser (an oracle): decided by the monitor on every run (C15_partial). *)
From AB Require Import Tree TreeDefs TreeProofs TreeProofs2 TreeProofs3 TreeProofs4 TreeWF TreeWFProofs TreeRun TreeFacts Construct ConstructProofs ConstructWF ConstructFacts.
From AB Require Import Desc Generated GeneratedWf DescProofs ConstructFull.
From AB Require TreeEdit TreeEditProofs4.
From Coq Require Import ZArith.

Theorem C15_generated_classes_wf : forall c, In c classes -> wf_desc c = true.
Proof. exact generated_wf_each. Qed.

Theorem C15_layout_enumerates_fields_partial :
  forall c l, In c classes -> c_layout c = Some l -> flat_map lay_field l = field_names c.
Proof. intros c l H. apply wf_layout_order. exact (generated_wf_each c H). Qed.

Theorem C15_init_stores_every_field :
  forall c, In c classes -> c_init c = field_names c /\ c_init_data c = c_data c.
Proof. intros c H. destruct (wf_desc_parts c (generated_wf_each c H)) as (A & B & _). split; assumption. Qed.

Example C15_open_layout :
  exists l, c_layout c_Open = Some l /\ flat_map lay_field l = field_names c_Open /\ length l = 13.
Proof. eexists. split; [reflexivity|]. split; vm_compute; reflexivity. Qed.

(* ---- the generic from_children (Construct.construct: the generated classmethod over descriptors,
   with fields.py's detach_with_separators and Repeated.from_children) --------------------------- *)
(* the new store holds, token by token, the texts the layout specifies (children's texts, declared
   separators, placeholder for repeated fields); hence the printed text *)
Theorem C15_constructed_text : forall cs new mid c args data next store n,
  construct cs new mid c args data next = Some (store, n) ->
  texts store = spec_texts c args /\ text_of store = cat (spec_texts c args).
Proof. exact constructed_texts. Qed.
(* each child of the result is the argument given for that field (re-attached), one per layout
   entry; for a class following the scheme these are exactly the declared fields, in order *)
Theorem C15_constructed_fields : forall cs new mid c args data next store n,
  construct cs new mid c args data next = Some (store, n) ->
  exists T kids, n = Tree (c_name c) new T kids data
    /\ (wf_desc c = true -> map fst kids = names c)
    /\ (forall name sl, In (name, sl) kids -> kid_from_arg cs new mid c args name sl).
Proof. exact constructed_fields. Qed.
(* the result conforms to its class declaration, for every subset of optional arguments and every
   list length (args is arbitrary) *)
Theorem C15_constructed_conforms : forall cs new mid c args data next store n,
  find_class cs (c_name c) = Some c -> wf_desc c = true -> NoDup (names c) ->
  args_all args (fun x => conforms cs x = true) ->
  construct cs new mid c args data next = Some (store, n) ->
  conforms cs n = true.
Proof. exact constructed_conforms. Qed.
Theorem C15_constructed_conforms_generated : forall c args new mid data next store n,
  In c classes -> find_class all_classes (c_name c) = Some c ->
  args_all args (fun x => conforms all_classes x = true) ->
  construct all_classes new mid c args data next = Some (store, n) ->
  conforms all_classes n = true.
Proof.
  exact (fun c args new mid data next store n Hc Hf =>
    constructed_conforms all_classes new mid c args data next store n Hf (generated_wf_each c Hc)
      (names_nodup_all c (proj1 (find_class_In _ _ _ Hf)))).
Qed.
(* the result satisfies the C05 statement (TreeWF.WF). Two hypotheses are about the run, not the class:
   the tokens are pairwise distinct objects, and the node spans its whole store. The second holds
   when no separator/literal lies before the first or after the last present child (true of every
   generated layout: checked on the implementation by TreeRun.TWf with the store given); deriving it
   from the descriptor alone is not done here, hence _partial. *)
Theorem C15_constructed_wf_partial : forall cs new mid, classes_ok cs -> forall c args data next store n,
  classes_anchored cs -> find_class cs (c_name c) = Some c -> wf_desc c = true -> NoDup (names c) ->
  args_all args (arg_good cs) ->
  construct cs new mid c args data next = Some (store, n) ->
  NoDup (ids store) -> node_toks n = store ->
  WF cs n.
Proof. exact constructed_wf. Qed.

(* ---- the full statement (ConstructFull.v): both run-level hypotheses are discharged from the construction itself.
   edges_ok c (decidable, on the class descriptor; true of every generated class: C15_generated_edges_ok by vm_compute
   over the re-extracted classes) says the layout reaches a required or repeated field from each end passing only
   optional fields whose separators sit on the inner side - so the node spans its whole store; args_fresh (boolean
   twin args_fresh_b) says the argument trees' token objects are pairwise distinct and older than the ids the
   construction mints - which is exactly when the implementation does not refuse ('The same token is listed twice') *)
Theorem C15_generated_edges_ok : forall c, In c classes -> edges_ok c = true.
Proof. exact generated_edges_each. Qed.
Theorem C15_args_fresh_b_sound : forall args next, args_fresh_b args next = true -> args_fresh args next.
Proof. exact args_fresh_b_sound. Qed.
Theorem C15_constructed_store : forall cs new mid, classes_ok cs -> forall c args data next store n,
  classes_anchored cs -> find_class cs (c_name c) = Some c -> wf_desc c = true -> NoDup (names c) ->
  edges_ok c = true ->
  args_all args (arg_good cs) -> args_fresh args next ->
  construct cs new mid c args data next = Some (store, n) ->
  NoDup (ids store) /\ node_toks n = store
  /\ exists hi, forall t, In t store -> (next <= k_id t < hi)%Z \/ In t (args_toks args).
Proof. exact constructed_store_facts. Qed.
Theorem C15_constructed_wf : forall cs new mid, classes_ok cs -> forall c args data next store n,
  classes_anchored cs -> find_class cs (c_name c) = Some c -> wf_desc c = true -> NoDup (names c) ->
  edges_ok c = true ->
  args_all args (arg_good cs) -> args_fresh args next ->
  construct cs new mid c args data next = Some (store, n) ->
  WF cs n /\ whole_store n store.
Proof. exact constructed_wf_full. Qed.
(* every generated class, every argument combination (every subset of optional arguments, every list length) *)
Theorem C15_constructed_wf_generated : forall c args new mid data next store n,
  In c classes -> find_class all_classes (c_name c) = Some c ->
  args_all args (arg_good all_classes) -> args_fresh args next ->
  construct all_classes new mid c args data next = Some (store, n) ->
  WF all_classes n /\ whole_store n store.
Proof. exact constructed_wf_generated. Qed.
Example C15_constructed_full_hyps :
  match ex_construct with
  | Some (store, n) =>
    WF all_classes n /\ whole_store n store /\ TreeEdit.HWF all_classes n /\ TreeEditProofs4.donor all_classes n
    /\ length store = 23%nat /\ args_fresh_b ex_args 1000 = true
  | None => False
  end.
Proof. exact ex_construct_full. Qed.

Example C15_constructed_hyps :
  find_class all_classes (c_name c_Open) = Some c_Open /\ wf_desc c_Open = true
  /\ match ex_construct with
     | Some (store, n) =>
       nodupz (ids store) = true /\ toks_same (node_toks n) store = true
       /\ conforms all_classes n = true /\ wf_b all_classes n = true /\ whole_store_b n store = true
       /\ length store = 23%nat
     | None => False
     end.
Proof. vm_compute. auto 10. Qed.
Example C15_constructed_args_good : args_all ex_args (arg_good all_classes).
Proof. exact ex_args_good. Qed.

(* ---- custom.py: Custom.from_children / from_value juxtapose their values; a number expression that starts
   with a unary sign right after another number expression is wrapped in parentheses (_disambiguate_values).
   Model: CustomValues.v (the loop with its `prev` variable, the up-front _check_detachable, the grammar's
   repeated{_custom_value} with NumExpr's parse_add read greedily); tied per run by CustomValuesRun.check_dcase /
   check_pcase / check_ucase (harness/c15.py: run_custom). ------------------------------------------------- *)
From AB Require CustomValues CustomValuesProofs NumExpr.
From AB Require Import Prelude.

(* no two values merge: the values yielded for ANY argument list print to a token stream that the grammar
   splits into exactly these values (spacing inside expressions forgotten) *)
Theorem C15_custom_disambiguate_reparses : forall values after out,
  CustomValues.disambiguate values = (after, Ok out) ->
  CustomValues.parse_values (CustomValues.render_values (map CustomValues.cv_val out))
  = Some (map CustomValues.strip_value (map CustomValues.cv_val out)).
Proof. exact CustomValuesProofs.disambiguate_reparses. Qed.
Theorem C15_custom_disambiguate_reparses_exact : forall values after out,
  CustomValues.disambiguate values = (after, Ok out) ->
  Forall CustomValuesProofs.gapless (map CustomValues.cv_val out) ->
  CustomValues.parse_values (CustomValues.render_values (map CustomValues.cv_val out))
  = Some (map CustomValues.cv_val out).
Proof. exact CustomValuesProofs.disambiguate_reparses_exact. Qed.
(* without the wrapping the statement is false: [1; -2] is accepted by the check but prints to `1 -2`, one value *)
Theorem C15_custom_undisambiguated_refuted : exists values,
  CustomValues.check_detachable [] values = Ok tt /\
  CustomValues.parse_values (CustomValues.render_values (map CustomValues.cv_val values))
    <> Some (map CustomValues.strip_value (map CustomValues.cv_val values)) /\
  CustomValues.parse_values (CustomValues.render_values (map CustomValues.cv_val values)) =
    Some [CustomValues.VNum (NumExpr.AOp (NumExpr.AMul (NumExpr.MAtom (NumExpr.Num [49]))) [] true []
                                         (NumExpr.MAtom (NumExpr.Num [50])))].
Proof. exact CustomValuesProofs.undisambiguated_reparse_refuted. Qed.
(* same length, same objects; a non-number is untouched; a number/amount keeps its currency and its value (for any
   arithmetic); it gains one pair of parentheses exactly when it follows a NumberExpr and starts with a sign *)
Theorem C15_custom_values_kept :
  forall (D : Type) (dadd dsub dmul ddiv : D -> D -> D) (dneg : D -> D) (num_value : list Z -> D) values after out,
  CustomValues.disambiguate values = (after, Ok out) ->
  length out = length values /\
  forall i c, nth_error values i = Some c ->
    exists c', nth_error out i = Some c' /\
      CustomValues.cv_id c' = CustomValues.cv_id c /\
      CustomValuesProofs.number_value D dadd dsub dmul ddiv dneg num_value (CustomValues.cv_val c')
        = CustomValuesProofs.number_value D dadd dsub dmul ddiv dneg num_value (CustomValues.cv_val c) /\
      CustomValuesProofs.currency_of (CustomValues.cv_val c') = CustomValuesProofs.currency_of (CustomValues.cv_val c) /\
      (CustomValuesProofs.number_of (CustomValues.cv_val c) = None -> CustomValues.cv_val c' = CustomValues.cv_val c) /\
      CustomValues.cv_val c' =
        (if CustomValuesProofs.prev_is_num_at (map CustomValues.cv_val values) i
            && CustomValuesProofs.starts_unary (CustomValues.cv_val c)
         then CustomValuesProofs.wrap_value (CustomValues.cv_val c) else CustomValues.cv_val c).
Proof. exact CustomValuesProofs.disambiguate_values_kept. Qed.
Theorem C15_custom_disambiguate_idempotent : forall values after out,
  CustomValues.disambiguate values = (after, Ok out) -> CustomValues.disambiguate out = (out, Ok out).
Proof. exact CustomValuesProofs.disambiguate_idempotent. Qed.
(* a refused call (ValueError) has edited nothing; it is refused exactly when an argument is given twice or does
   not span its store; without the up-front check a refused call leaves parentheses behind *)
Theorem C15_custom_refusal_atomic : forall values after e,
  CustomValues.disambiguate values = (after, Err e) -> after = values /\ e = ValueError.
Proof. exact CustomValuesProofs.disambiguate_refusal_atomic. Qed.
Theorem C15_custom_refuses_iff : forall values,
  (exists out, CustomValues.disambiguate values = (out, Ok out)) <->
  (NoDup (map CustomValues.cv_id values) /\ forall c, In c values -> CustomValues.cv_free c = true).
Proof. exact CustomValuesProofs.disambiguate_refuses_iff. Qed.
Theorem C15_custom_unchecked_refusal_refuted : exists values after,
  CustomValues.disambiguate_unchecked values = (after, Err ValueError) /\ after <> values /\
  CustomValues.disambiguate values = (values, Err ValueError).
Proof. exact CustomValuesProofs.unchecked_refusal_not_atomic. Qed.
(* value level: what from_value builds from a scalar reads back as that scalar (a datetime as its date), given the
   token classes' own round trips (C12) and the carrier laws of C13_from_value_exact; _update_raw succeeds exactly on
   matching kinds *)
Theorem C15_custom_simplify_unsimplify :
  forall (D : Type) (dadd dsub dmul ddiv : D -> D -> D) (dneg dabs : D -> D) (dltz : D -> bool)
         (num_value : list Z -> D) (num_text : D -> list Z)
         (str_text str_value : list Z -> list Z)
         (date_text : CustomValues.date -> list Z) (date_value : list Z -> CustomValues.date)
         (bool_text : bool -> list Z) (bool_value : list Z -> bool),
  (forall s, str_value (str_text s) = s) -> (forall d, date_value (date_text d) = d) ->
  (forall b, bool_value (bool_text b) = b) ->
  (forall v, num_value (num_text (dabs v)) = dabs v) ->
  (forall v, dltz v = true -> dneg (dabs v) = v) -> (forall v, dltz v = false -> dabs v = v) ->
  forall v,
  CustomValues.simplify_value D dadd dsub dmul ddiv dneg num_value str_value date_value bool_value
    (CustomValues.unsimplify_value D dabs dltz num_text str_text date_text bool_text v)
  = CustomValuesProofs.read_back D dadd dsub dmul ddiv dneg num_value str_value date_value bool_value v.
Proof. exact CustomValuesProofs.simplify_unsimplify. Qed.

(* non-vacuity: [1; -2 USD; "s"; 3; -4*5] is accepted, the two followers that start with a sign are wrapped, and the
   printed stream splits back into the five values *)
Example C15_custom_example :
  let one := NumExpr.AMul (NumExpr.MAtom (NumExpr.Num [49])) in
  let neg s := NumExpr.Unary true [] (NumExpr.Num s) in
  let values := [CustomValues.CV 1 true (CustomValues.VNum one);
                 CustomValues.CV 2 true (CustomValues.VAmount (NumExpr.AMul (NumExpr.MAtom (neg [50]))) [85; 83; 68]);
                 CustomValues.CV 3 true (CustomValues.VStr [34; 115; 34]);
                 CustomValues.CV 4 true (CustomValues.VNum (NumExpr.AMul (NumExpr.MAtom (NumExpr.Num [51]))));
                 CustomValues.CV 5 true (CustomValues.VNum (NumExpr.AMul
                     (NumExpr.MOp (NumExpr.MAtom (neg [52])) [] false [] (NumExpr.Num [53]))))] in
  exists out, CustomValues.disambiguate values = (out, Ok out) /\ out <> values /\
    Forall CustomValuesProofs.gapless (map CustomValues.cv_val out) /\
    length (CustomValues.render_values (map CustomValues.cv_val out)) = 14%nat /\
    CustomValues.parse_values (CustomValues.render_values (map CustomValues.cv_val out))
      = Some (map CustomValues.cv_val out).
Proof.
  eexists. split; [vm_compute; reflexivity|]. split; [discriminate|]. split; [repeat constructor|].
  split; vm_compute; reflexivity.
Qed.
(* _update_raw (the in-place path of Custom.values[i] = v): succeeds exactly on a matching (raw kind, value type)
   pair, the raw value then reads as the new value; otherwise nothing is touched *)
Theorem C15_custom_update_raw :
  forall (D : Type) (dadd dsub dmul ddiv : D -> D -> D) (dneg dabs : D -> D) (dltz : D -> bool)
         (num_value : list Z -> D) (num_text : D -> list Z)
         (str_text str_value : list Z -> list Z)
         (date_text : CustomValues.date -> list Z) (date_value : list Z -> CustomValues.date)
         (bool_text : bool -> list Z) (bool_value : list Z -> bool),
  (forall s, str_value (str_text s) = s) -> (forall d, date_value (date_text d) = d) ->
  (forall b, bool_value (bool_text b) = b) ->
  (forall v, num_value (num_text (dabs v)) = dabs v) ->
  (forall v, dltz v = true -> dneg (dabs v) = v) -> (forall v, dltz v = false -> dabs v = v) ->
  forall r v,
  let upd := CustomValues.update_raw D dabs dltz num_text str_text date_text bool_text r v in
  snd upd = CustomValuesProofs.kinds_match D r v /\
  (CustomValuesProofs.kinds_match D r v = true ->
   CustomValues.simplify_value D dadd dsub dmul ddiv dneg num_value str_value date_value bool_value (fst upd)
   = CustomValuesProofs.read_back D dadd dsub dmul ddiv dneg num_value str_value date_value bool_value v) /\
  (CustomValuesProofs.kinds_match D r v = false -> fst upd = r).
Proof. exact CustomValuesProofs.update_raw_spec. Qed.
