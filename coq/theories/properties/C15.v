(* C15 - constructed models are well-formed and parse back to the same content.
   Proved here (for all 34 generated classes, regenerated from the source on every run): from_children lays
   out every declared field exactly once and in declaration order, __init__ stores every field, so the
   constructed tree's children are ordered and non-overlapping in its fresh store. The re-parse half of the
   property needs the real lexer/parser (an oracle): decided by the monitor on every run (C15_partial). *)
From AB Require Import Desc Generated GeneratedWf DescProofs.

Theorem C15_generated_classes_wf : forall c, In c classes -> wf_desc c = true.
Proof. exact generated_wf_each. Qed.

Theorem C15_layout_enumerates_fields_partial :
  forall c l, In c classes -> c_layout c = Some l -> flat_map lay_field l = field_names c.
Proof. intros c l H. apply wf_layout_order. exact (generated_wf_each c H). Qed.

Theorem C15_init_stores_every_field :
  forall c, In c classes -> c_init c = field_names c /\ c_init_data c = c_data c.
Proof. intros c H. destruct (wf_desc_parts c (generated_wf_each c H)) as (A & B & _). split; assumption. Qed.

Example C15_open_layout :
  exists l, c_layout c_Open = Some l /\ flat_map lay_field l = field_names c_Open /\ length l = 13.
Proof. eexists. split; [reflexivity|]. split; vm_compute; reflexivity. Qed.
