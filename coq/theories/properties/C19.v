(* C19 - a refused operation leaves the document exactly as it was.

   The model keeps the statement order of the code (every function returns the state written so
   far), so these are statements about what the code has written when it raises.

   Full statement wanted: for every mutator op, every state and arguments,
     op s args = (s', donors', Err e) -> s' = s /\ donors' = donors,
   and: a donor that is attached elsewhere is always refused.

   Proved: (a) full atomicity of the single-child slots (optional / required: every path);
   (b) for the repeated-field mutators, atomicity of document and items for insert / append / extend /
   clear / pop / xs[i] = v on every path, and refusal-with-nothing-changed (donors included) whenever
   a donor is not detachable, for every mutator and every batch position;
   (c) D15: detach decides on (store, first, last) only, so it accepts a child that spans the whole
   store of its free-standing parent: C19_reuse_refused_refuted (witness), C19_reuse_refused_partial
   (refusal holds for every donor that does not span its store).
   C19_refused_step / C19_history (RepeatedHistory.step_err) close every mutator under Layout, extended slices and
   drop_many included.  The unconditional `_partial` statements below say what holds without the invariant.  Both are covered by the snapshot monitor on the implementation on every run. *)
From AB Require Import Prelude PySeq RepeatedLib Repeated Fields RepeatedProofs RepeatedLayout RepeatedInsert RepeatedCells
  RepeatedSep RepeatedOps RepeatedSlices RepeatedDrop RepeatedExt RepeatedHistory.

Theorem C19_atomic_optional : forall sd seps s pivot same value fr s' dl e,
  optional_set sd seps s pivot same value fr = (s', dl, Err e) -> s' = s.
Proof. exact optional_set_atomic. Qed.

Theorem C19_atomic_required : forall s same v s' dl e,
  required_set s same v = (s', dl, Err e) -> s' = s.
Proof. exact required_set_atomic. Qed.

Theorem C19_atomic_insert_partial : forall ph seps sepsb s i v fr s' dl e,
  insert ph seps sepsb s i v fr = (s', dl, Err e) -> s' = s.
Proof. exact insert_atomic. Qed.

Theorem C19_atomic_append_partial : forall ph seps sepsb s v fr s' dl e,
  append ph seps sepsb s v fr = (s', dl, Err e) -> s' = s.
Proof. exact append_atomic. Qed.

Theorem C19_atomic_extend_partial : forall ph seps sepsb s vs fr s' dl e,
  extend ph seps sepsb s vs fr = (s', dl, Err e) -> s' = s.
Proof. exact extend_atomic. Qed.

Theorem C19_atomic_clear_partial : forall ph s s' dl e, clear ph s = (s', dl, Err e) -> s' = s.
Proof. exact clear_atomic. Qed.

Theorem C19_atomic_setitem_int_partial :
   forall (s : st) (index : Z) (same : bool) (v : donor) (s' : st) (dl : list donor) (e : exn),
       guard (d_store v) (s_doc s) = true ->
       (forall it : item,
        list_get_int (s_items s) index = Ok it ->
        exists P S Q : list tok,
          s_doc s = P ++ S ++ Q /\
          S <> [] /\ NoDup (ids (s_doc s)) /\ fst it = tid (hd dft S) /\ snd it = tid (last S dft)) ->
       setitem_int s index same v = (s', dl, Err e) -> s' = s /\ dl = [v].
Proof. exact setitem_int_atomic. Qed.

(* under the layout invariant, with fresh arguments, a refused call of ANY mutator (insert / append / extend / xs[i] = v / xs[a:b:k] = vs for every step / del for every index form / pop / clear / drop_many) leaves document and items exactly as they were: every refusal happens before the first store write and every later step is proved to succeed *)
Theorem C19_refused_step :
   forall (ph : Z) (seps sepsb : list (kind * str)),
       seps_ok seps ->
       seps_ok sepsb ->
       forall (s : st) (o : rop) (s' : st) (e : exn),
       LayS ph s -> op_err_ok s o -> run_op ph seps sepsb s o = (s', Err e) -> s' = s.
Proof. exact step_err. Qed.

(* at every point of any history over the full op language *)
Theorem C19_history :
   forall (ph : Z) (seps sepsb : list (kind * str)),
       seps_ok seps ->
       seps_ok sepsb ->
       forall (s0 : st) (ops : list rop) (s : st) (o : rop) (s' : st),
       LayS ph s0 ->
       Hist ph seps sepsb s0 ops s ->
       (op_ok s o -> run_op ph seps sepsb s o = (s', Ok tt) -> LayS ph s' /\ FrameS ph seps sepsb s s') /\
       (forall e : exn, op_err_ok s o -> run_op ph seps sepsb s o = (s', Err e) -> s' = s).
Proof. exact history_step. Qed.

(* an attached donor (one that does not span its store) is refused by every mutator, at every
   position of a batch, with document, items and every donor unchanged *)
Theorem C19_reuse_refused_partial :
  (forall d cur v, detachable v = false -> replace_node d cur false v = (d, [v], Err ValueError)) /\
  (forall sd seps d pivot v fr, detachable v = false -> create_node sd seps d pivot v fr = (d, [v], Err ValueError)) /\
  (forall ph seps sepsb s vs fr, existsb (fun v => negb (detachable v)) vs = true ->
      extend ph seps sepsb s vs fr = (s, vs, Err ValueError)) /\
  (forall ph seps sepsb s sl vs fr, existsb (fun v => negb (detachable v)) vs = true ->
      exists e, setitem_slice ph seps sepsb s sl vs fr = (s, vs, Err e)) /\
  (forall ph seps sepsb d items index v length sbl fr, detachable v = false ->
      (exists r, prev_last ph items index = Ok r) ->
      exists fr', insert_tokens ph seps sepsb d items index [v] length sbl fr = (d, [v], fr', Err ValueError)) /\
  (forall s index v it, detachable v = false -> list_get_int (s_items s) index = Ok it ->
      setitem_int s index false v = (s, [v], Err ValueError)).
Proof.
  repeat split.
  - exact replace_node_refused.
  - exact create_node_refused.
  - exact extend_refused.
  - exact setitem_slice_refused.
  - exact insert_tokens_one_refused.
  - exact setitem_int_refused.
Qed.

(* D15: a free-standing parent and its child share the store and the span; detach accepts the child *)
Theorem C19_reuse_refused_refuted :
  exists parent child : donor,
    d_node parent <> d_node child /\ d_store child = d_store parent /\ d_store parent <> [] /\
    detachable parent = true /\ exists r, detach child = Ok r.
Proof.
  exists (mkdonor 1 [mktok 10 KOther [49]; mktok 11 KOther [50]] 10 11),
         (mkdonor 2 [mktok 10 KOther [49]; mktok 11 KOther [50]] 10 11).
  split; [discriminate|]. split; [reflexivity|]. split; [discriminate|]. split; [reflexivity|].
  eexists. vm_compute. reflexivity.
Qed.

(* Out of scope (not in the property's list of refusal kinds): a *value* outside the domain of its token type in
   the middle of a value-level batch (custom.values[0:2] = ['x', Decimal('NaN')]): the conversion of the second
   value raises after the first element was replaced; C19's list covers nodes that cannot be reused, missing
   indices / keys, size mismatches, comments, cost combinations, raw texts and arithmetic operands. *)

(* ---- non-vacuity -------------------------------------------------------------------------------- *)
Definition ex_doc : doc :=
  [mktok 1 KOther [111]; mktok 3 KPlaceholder []; mktok 4 KWhitespace [32];
   mktok 5 KOther [65]; mktok 6 KComma [44]; mktok 7 KWhitespace [32]; mktok 8 KOther [66]; mktok 10 KNewline [10]].
Definition ex_s := mkst ex_doc [(5, 5); (8, 8)].
Definition ex_seps : list (kind * str) := [(KComma, [44]); (KWhitespace, [32])].
(* a donor that sits inside a larger store: attached *)
Definition ex_att : donor := mkdonor 50 [mktok 49 KOther [87]; mktok 50 KOther [88]] 50 50.
Definition ex_free : donor := mkdonor 60 [mktok 60 KOther [89]] 60 60.

Example C19_refusals_happen :
  extend 3 ex_seps ex_seps ex_s [ex_free; ex_att] 100 = (ex_s, [ex_free; ex_att], Err ValueError) /\
  setitem_slice 3 ex_seps ex_seps ex_s (mkslc (Some 0) (Some 2) None) [ex_free; ex_att] 100
    = (ex_s, [ex_free; ex_att], Err ValueError) /\
  insert 3 ex_seps ex_seps ex_s 1 ex_att 100 = (ex_s, [ex_att], Err ValueError) /\
  setitem_int ex_s 5 false ex_free = (ex_s, [ex_free], Err IndexError) /\
  setitem_int ex_s 1 true ex_att = (ex_s, [ex_att], Ok tt) /\
  fst (optional_set SLeft ex_seps (mkslot ex_doc None) 1 false (Some ex_att) 100) = (mkslot ex_doc None, [ex_att]) /\
  (* duplicates in a batch are refused too *)
  extend 3 ex_seps ex_seps ex_s [ex_free; ex_free] 100 = (ex_s, [ex_free; ex_free], Err ValueError).
Proof. vm_compute. repeat split; reflexivity. Qed.

(* a history whose calls are refused because the donor is ATTACHED IN THE SAME DOCUMENT (item 0 of the same list,
   its store is the document itself), offered twice in one batch, or missing: nothing changes, the invariant holds *)
Definition ex_item0 : donor := mkdonor 5 ex_doc 5 5.
Example C19_history_with_reuse_refusals :
  Hist 3 ex_seps ex_seps ex_s
    [RAppend ex_item0 100; RExtend [ex_free; ex_free] 100; RSetSlice (mkslc (Some 0) (Some 1) None) [ex_free; ex_item0] 100;
     RInsert 0 ex_item0 100; RSetInt 1 false ex_item0 100; RDropMany [0; 7]; RPop 9] ex_s
  /\ layout_b 3 ex_doc [(5, 5); (8, 8)] = true.
Proof.
  split; [|vm_compute; reflexivity].
  eapply H_err; [exact I|vm_compute; reflexivity|].
  eapply H_err; [exact I|vm_compute; reflexivity|].
  eapply H_err; [intros Hd; vm_compute in Hd; discriminate|vm_compute; reflexivity|].
  eapply H_err; [exact I|vm_compute; reflexivity|].
  eapply H_err; [exact I|vm_compute; reflexivity|].
  eapply H_err; [exact I|vm_compute; reflexivity|].
  eapply H_err; [exact I|vm_compute; reflexivity|].
  apply H_nil.
Qed.

(* ---- whole-field assignment of a repeated field (model.raw_xs = wrapper): WholeField.v -------------------
   The heap model keeps instance dicts (cached wrapper, cached value views in dict order), wrappers (which Repeated,
   handler list = the views' _raw_indexes), Repeateds (items, detachable?, still in a store?).  A refused assignment -
   in particular every wrapper whose Repeated is still attached elsewhere (detach refuses it) - returns the heap it was
   given: field, cached wrapper, cached views, every handler list and the donor are what they were. *)
From AB Require Import Prelude PySeq Views WholeField WholeFieldProofs.

Theorem C19_whole_field_refused_atomic :
  (forall h i w h' e, wstep VRepaired h (WAssign i w) = (h', Err e) -> h' = h)
  /\ (forall h i w ins W Nd P,
        WholeField.lookup i (h_insts h) = Some ins -> WholeField.lookup w (h_wrps h) = Some W ->
        WholeField.lookup (i_field ins) (h_reps h) = Some Nd -> WholeField.lookup (w_rep W) (h_reps h) = Some P ->
        i_field ins <> w_rep W -> r_live Nd = true -> r_spans P = false ->
        wstep VRepaired h (WAssign i w) = (h, Err ValueError)).
Proof. exact whole_field_refused_atomic. Qed.

(* seeded regression C19-m5 (drop_views_of and the cache assignment moved in front of replace_node): the refusal
   leaves the target's accessor on the SOURCE's wrapper and its views dropped, the field untouched *)
Theorem C19_whole_field_cache_first_refuted :
  exists h i w h', Inv h /\ assign VCacheFirst h i w = (h', Err ValueError) /\ h' <> h
    /\ exists ins ins', WholeField.lookup i (h_insts h) = Some ins /\ WholeField.lookup i (h_insts h') = Some ins'
         /\ i_field ins' = i_field ins /\ i_wrapper ins' = Some w /\ i_wrapper ins <> Some w
         /\ i_views ins <> [] /\ i_views ins' = [].
Proof. exact cache_first_refused_not_atomic. Qed.

(* non-vacuity: in a document with two transactions whose tags/links were read, assigning the second one's (attached)
   wrapper 3 to the first is refused with nothing changed; a deep copy (wrapper 5) is accepted *)
Example C19_whole_field_refusal_happens :
  let h := wrun VRepaired (init_heap ex_its) ex_read in
  wstep VRepaired h (WAssign 0 3) = (h, Err ValueError)
  /\ snd (wstep VRepaired (fst (wstep VRepaired h (WCopy 3))) (WAssign 0 5)) = Ok RNone.
Proof. vm_compute. split; reflexivity. Qed.

(* ---- "comments that cannot be found": Comments.v (the claimer of interleaving_comments.py) ---------------------
   A selective claim / unclaim that names a comment which is not there is refused with ValueError and the document -
   tokens, order, claimed flags - is the one it was given (the seeded regression that cleared the flags inside the
   scan loop is a different function: the correspondence of ./check C14 and this property's snapshot monitor see it). *)
From AB Require Comments CommentsProofs CommentsRange CommentsRefuse.

Theorem C19_unclaim_not_found_atomic : forall d items flt e d',
  Comments.unclaim_inter d items flt = (Err e, d') -> d' = d /\ e = ValueError.
Proof. exact CommentsRefuse.unclaim_inter_refused. Qed.

Theorem C19_claim_not_found_atomic : forall d ph items mf ml flt e d',
  NoDup (CommentsProofs.ids d) -> CommentsRange.has_tok_b d ph = true -> Comments.items_ordered_b d ph items = true ->
  Comments.claimer_claim d ph items mf ml flt = (Err e, d') -> d' = d /\ e = ValueError.
Proof. exact CommentsRefuse.claimer_claim_refused. Qed.

Example C19_unclaim_refusal_happens :
  exists d items, fst (Comments.unclaim_inter d items (Some (99 :: nil)%Z)) = Err ValueError.
Proof. exact CommentsRefuse.unclaim_refusal_happens. Qed.

(* ---- "an arithmetic operand that cannot be consumed": NumExprSteps.v ----------------------------------------------
   The in-place operators of NumberExpr (`+=`, `-=`, `*=`, `/=`), statement by statement over the token store of the
   document: type check, deep copy of the right operand (raises on a NumberExpr whose tree was moved into another
   expression: it has no tokens left), parentheses around self, coercion of the COPY, splice, new tree.  A refused call -
   operand not a number (TypeError), NaN (decimal.InvalidOperation), spent expression (ValueError) - returns the store
   and the left operand (first token, tree) it was given, for every store, every left operand (attached inside a
   document, free-standing, or itself spent: its tree living in somebody else's document), every operator. *)
From AB Require NumExpr NumExprSteps NumExprStepsProofs.

(* every operator, every store, every right operand, EVERY left operand (in its own store or itself spent) *)
Theorem C19_arith_refused_atomic :
  forall (k : NumExpr.binop) (s : list NumExpr.tok) (self : NumExprSteps.sref) (o : NumExprSteps.soperand)
         (s' : list NumExpr.tok) (self' : NumExprSteps.sref) (e : exn),
    NumExprSteps.s_idunder NumExprSteps.VCode k s self o = (s', self', Err e) -> s' = s /\ self' = self.
Proof. exact NumExprStepsProofs.idunder_refused_atomic. Qed.

(* the code as found (_wrap_paren through add_expr.token_store; repaired by fixes/number-expr-spent-left-operand.patch): the
   left operand's tree `1 + 2` was moved into a number of the document `A 1 + 2 U`; `left *= 3` is refused (ValueError) after
   _wrap_paren wrote `(` `)` into the store of the TREE - the receiving document, which then prints `A (1 + 2) U` with
   parentheses no node owns.  The repaired code refuses the same call with nothing written. *)
Theorem C19_asfound_arith_spent_self_refuted :
  NumExprSteps.attached NumExprStepsProofs.wf_store NumExprStepsProofs.wf_spent_self /\
  exists s',
    NumExprSteps.s_idunder NumExprSteps.VAsFound NumExpr.OpMul NumExprStepsProofs.wf_store NumExprStepsProofs.wf_spent_self
      (NumExprSteps.OScalar false [51]) = (s', NumExprSteps.SR 3 NumExprStepsProofs.wf_self_tree false, Err ValueError) /\
    s' <> NumExprStepsProofs.wf_store /\
    NumExpr.text s' = [65; 32; 40; 49; 32; 43; 32; 50; 41; 32; 85] /\
    NumExpr.text NumExprStepsProofs.wf_store = [65; 32; 49; 32; 43; 32; 50; 32; 85] /\
    NumExprSteps.s_idunder NumExprSteps.VCode NumExpr.OpMul NumExprStepsProofs.wf_store NumExprStepsProofs.wf_spent_self
      (NumExprSteps.OScalar false [51]) = (NumExprStepsProofs.wf_store, NumExprStepsProofs.wf_spent_self, Err ValueError).
Proof. exact NumExprStepsProofs.asfound_spent_self_refuted. Qed.

(* what held as found: atomic for every left operand in its own store *)
Theorem C19_asfound_arith_refused_atomic_partial :
  forall (k : NumExpr.binop) (s : list NumExpr.tok) (self : NumExprSteps.sref) (o : NumExprSteps.soperand)
         (s' : list NumExpr.tok) (self' : NumExprSteps.sref) (e : exn),
    NumExprSteps.s_owns self = true ->
    NumExprSteps.s_idunder NumExprSteps.VAsFound k s self o = (s', self', Err e) -> s' = s /\ self' = self.
Proof. exact NumExprStepsProofs.asfound_idunder_refused_atomic. Qed.

(* the refused calls are exactly: right operand not a number / NaN / spent, and every call on a spent left operand *)
Theorem C19_arith_refused_iff :
  forall (k : NumExpr.binop) (s : list NumExpr.tok) (self : NumExprSteps.sref) (o : NumExprSteps.soperand),
    match NumExprStepsProofs.refusal_of o with
    | Some e => NumExprSteps.s_idunder NumExprSteps.VCode k s self o = (s, self, Err e)
    | None => if NumExprSteps.s_owns self
              then exists s' self', NumExprSteps.s_idunder NumExprSteps.VCode k s self o = (s', self', Ok tt)
              else NumExprSteps.s_idunder NumExprSteps.VCode k s self o = (s, self, Err ValueError)
    end.
Proof. exact NumExprStepsProofs.idunder_refused_iff. Qed.

(* seeded regression (self is wrapped in parentheses before the operand is copied): `A 1 + 2 U` *= <spent expression> is
   refused with the store printing `A (1 + 2) U`; the tree of self is untouched, so the parentheses belong to no node *)
Theorem C19_arith_wrap_first_refuted :
  NumExprSteps.attached NumExprStepsProofs.wf_store NumExprStepsProofs.wf_self /\
  exists s',
    NumExprSteps.s_imuldiv NumExprSteps.VWrapFirst NumExprStepsProofs.wf_store NumExprStepsProofs.wf_self NumExprSteps.Spent false
      = (s', NumExprSteps.SR 3 NumExprStepsProofs.wf_self_tree true, Err ValueError) /\
    s' <> NumExprStepsProofs.wf_store /\
    NumExpr.text s' = [65; 32; 40; 49; 32; 43; 32; 50; 41; 32; 85] /\
    NumExpr.text NumExprStepsProofs.wf_store = [65; 32; 49; 32; 43; 32; 50; 32; 85] /\
    NumExprSteps.s_imuldiv NumExprSteps.VCode NumExprStepsProofs.wf_store NumExprStepsProofs.wf_self NumExprSteps.Spent false
      = (NumExprStepsProofs.wf_store, NumExprStepsProofs.wf_self, Err ValueError).
Proof. exact NumExprStepsProofs.wrap_first_refuted. Qed.

(* accepted calls (either order of statements): store and tree are those of the pure model of C13 (NumExpr.inplace, which
   `NumExpr.dunder _ InPlace` runs after the coercion of scalars) - the regression is invisible unless a call is refused *)
Theorem C19_arith_accepted_is_pure :
  forall (v : NumExprSteps.variant) (k : NumExpr.binop) (self x : NumExpr.nexpr),
    exists r, NumExpr.inplace k self x = Ok r /\
      NumExprSteps.s_inplace v k (NumExprSteps.store_of self) (NumExprSteps.sref_of self) (NumExprSteps.Live x)
        = (NumExprSteps.store_of r, NumExprSteps.sref_of r, Ok tt).
Proof. exact NumExprStepsProofs.inplace_live_is_pure. Qed.

Example C19_arith_refusal_happens :
  NumExprSteps.s_idunder NumExprSteps.VCode NumExpr.OpMul NumExprStepsProofs.wf_store NumExprStepsProofs.wf_self
      (NumExprSteps.OExpr NumExprSteps.Spent) = (NumExprStepsProofs.wf_store, NumExprStepsProofs.wf_self, Err ValueError) /\
  NumExprSteps.s_idunder NumExprSteps.VCode NumExpr.OpAdd NumExprStepsProofs.wf_store NumExprStepsProofs.wf_self
      (NumExprSteps.OExpr NumExprSteps.Spent) = (NumExprStepsProofs.wf_store, NumExprStepsProofs.wf_self, Err ValueError) /\
  NumExprSteps.s_idunder NumExprSteps.VCode NumExpr.OpDiv NumExprStepsProofs.wf_store NumExprStepsProofs.wf_self
      NumExprSteps.ONaN = (NumExprStepsProofs.wf_store, NumExprStepsProofs.wf_self, Err NumExprSteps.InvalidOperation) /\
  NumExprSteps.s_idunder NumExprSteps.VCode NumExpr.OpSub NumExprStepsProofs.wf_store NumExprStepsProofs.wf_self
      NumExprSteps.ONotNumber = (NumExprStepsProofs.wf_store, NumExprStepsProofs.wf_self, Err TypeError) /\
  (exists s' self', NumExprSteps.s_idunder NumExprSteps.VCode NumExpr.OpMul NumExprStepsProofs.wf_store NumExprStepsProofs.wf_self
      (NumExprSteps.OScalar true [51]) = (s', self', Ok tt) /\
     NumExpr.text s' = [65; 32; 40; 49; 32; 43; 32; 50; 41; 32; 42; 32; 45; 51; 32; 85]).
Proof. exact NumExprStepsProofs.refusals_happen. Qed.
