(* L1: concrete model of autobean_refactor/token_store.py, statement by statement.
   Objects are heap cells: tokens are `positive` ids into s_toks (every id denotes a token object;
   one that was never touched is a free token with empty text), blocks are ids into s_heap
   (dead blocks stay readable, as Python objects do). No proofs in this file. *)
From AB Require Export Prelude.
From Coq Require Export FMapPositive.

(* store_handle = _StoreHandle(block, index); the first component is the identity of block.store *)
Record tokrec := mktok { t_text : str; t_size : pos; t_handle : option (positive * positive * Z) }.
Record blk := mkblk { b_index : Z; b_toks : list positive; b_size : pos; b_lnl : Z }.
Definition tok0 := mktok [] pos0 None.
Definition blk0 := mkblk 0 [] pos0 (-1).

Definition tokmap := PositiveMap.t tokrec.
Definition heap := PositiveMap.t blk.

Record store := mkstore {
  s_id : positive;            (* identity of this TokenStore object (`block.store is self`) *)
  s_blocks : list positive;   (* TokenStore._blocks, as block ids *)
  s_heap : heap;
  s_toks : tokmap;
  s_len : Z;                  (* TokenStore._len *)
  s_next : positive           (* next fresh block id *)
}.

Definition tget (tk : tokmap) (t : positive) : tokrec :=
  match PositiveMap.find t tk with Some r => r | None => tok0 end.
Definition bget (h : heap) (b : positive) : blk :=
  match PositiveMap.find b h with Some r => r | None => blk0 end.
Definition tset_handle (tk : tokmap) (t : positive) (h : option (positive * positive * Z)) : tokmap :=
  let r := tget tk t in PositiveMap.add t (mktok (t_text r) (t_size r) h) tk.

Definition with_heap (s : store) (h : heap) := mkstore (s_id s) (s_blocks s) h (s_toks s) (s_len s) (s_next s).
Definition with_toks (s : store) (tk : tokmap) := mkstore (s_id s) (s_blocks s) (s_heap s) tk (s_len s) (s_next s).
Definition with_blocks (s : store) (bs : list positive) := mkstore (s_id s) bs (s_heap s) (s_toks s) (s_len s) (s_next s).
Definition with_len (s : store) (n : Z) := mkstore (s_id s) (s_blocks s) (s_heap s) (s_toks s) n (s_next s).
Definition set_blk (s : store) (b : positive) (r : blk) := with_heap s (PositiveMap.add b r (s_heap s)).

(* the loop shared by _StoreBlock.from_tokens / rebuild / extend:
     size += token.size; if token.size.line: last_newline_index = i *)
Fixpoint sizes_scan (tk : tokmap) (i : Z) (ts : list positive) (sz : pos) (lnl : Z) : pos * Z :=
  match ts with
  | [] => (sz, lnl)
  | t :: r => let z := t_size (tget tk t) in
              sizes_scan tk (i + 1) r (pos_iadd sz z) (if line z =? 0 then lnl else i)
  end.
(*   token.store_handle = _StoreHandle(block, i)   for i, token in enumerate(ts, start=i) *)
Fixpoint rehandle (tk : tokmap) (sid b : positive) (i : Z) (ts : list positive) : tokmap :=
  match ts with
  | [] => tk
  | t :: r => rehandle (tset_handle tk t (Some (sid, b, i))) sid b (i + 1) r
  end.
(*   token.store_handle = None   for token in ts *)
Fixpoint unhandle (tk : tokmap) (ts : list positive) : tokmap :=
  match ts with [] => tk | t :: r => unhandle (tset_handle tk t None) r end.

(* _StoreBlock.from_tokens(tokens, store, index) *)
Definition new_block (s : store) (index : Z) (ts : list positive) : store * positive :=
  let b := s_next s in
  let '(sz, lnl) := sizes_scan (s_toks s) 0 ts pos0 (-1) in
  (mkstore (s_id s) (s_blocks s) (PositiveMap.add b (mkblk index ts sz lnl) (s_heap s))
           (rehandle (s_toks s) (s_id s) b 0 ts) (s_len s) (Pos.succ b), b).

(* _StoreBlock(self, index, tokens): no handles are assigned, size/last_newline_index are the defaults *)
Definition bare_block (s : store) (index : Z) (ts : list positive) : store * positive :=
  let b := s_next s in
  (mkstore (s_id s) (s_blocks s) (PositiveMap.add b (mkblk index ts pos0 (-1)) (s_heap s))
           (s_toks s) (s_len s) (Pos.succ b), b).

(* _StoreBlock.rebuild *)
Definition rebuild (s : store) (b : positive) : store :=
  let r := bget (s_heap s) b in
  let '(sz, lnl) := sizes_scan (s_toks s) 0 (b_toks r) pos0 (-1) in
  mkstore (s_id s) (s_blocks s) (PositiveMap.add b (mkblk (b_index r) (b_toks r) sz lnl) (s_heap s))
          (rehandle (s_toks s) (s_id s) b 0 (b_toks r)) (s_len s) (s_next s).

Section WithLF.
Variable LF : Z.
Definition DOUBLE := LF * 2.
Definition HALF := LF / 2.
Definition ONE_HALF := LF + HALF.

(* _build_blocks; fuel bounds the `while remaining` loop (length tokens suffices when LF >= 1) *)
Fixpoint build_blocks (fuel : nat) (s : store) (start_index : Z) (ts : list positive)
  : store * res (list positive) :=
  let remaining := zlen ts in
  if remaining =? 0 then (s, Ok [])
  else if remaining >? ONE_HALF then
    match fuel with
    | O => (s, Err OutOfFuel)
    | S f =>
      let '(s1, b) := new_block s start_index (zfirstn LF ts) in
      match build_blocks f s1 (start_index + 1) (zskipn LF ts) with
      | (s2, Ok bs) => (s2, Ok (b :: bs))
      | (s2, Err e) => (s2, Err e)
      end
    end
  else if remaining >? LF then
    let len := remaining / 2 in
    let '(s1, b1) := new_block s start_index (zfirstn len ts) in
    let '(s2, b2) := new_block s1 (start_index + 1) (zskipn len ts) in
    (s2, Ok [b1; b2])
  else
    let '(s1, b) := new_block s start_index ts in (s1, Ok [b]).

(* TokenStore(): a new store object, identity sid *)
Definition empty_store (sid : positive) (tk : tokmap) : store :=
  mkstore sid [1%positive] (PositiveMap.add 1%positive blk0 (PositiveMap.empty blk)) tk 0 2%positive.

Fixpoint has_dup (l : list positive) : bool :=
  match l with [] => false | x :: r => existsb (Pos.eqb x) r || has_dup r end.

(* TokenStore.from_tokens: tokens already in a store and a token listed twice are refused *)
Definition from_tokens (sid : positive) (tk : tokmap) (ts : list positive) : store * res unit :=
  let s := empty_store sid tk in
  if existsb (fun t => match t_handle (tget tk t) with Some _ => true | None => false end) ts
  then (s, Err ValueError)
  else if has_dup ts then (s, Err ValueError)
  else match ts with
       | [] => (s, Ok tt)
       | _ => match build_blocks (length ts) s 0 ts with
              | (s1, Ok bs) => (with_len (with_blocks s1 bs) (zlen ts), Ok tt)
              | (s1, Err e) => (s1, Err e)
              end
       end.

(* _update_block_indexes(i): while i < len(self._blocks): self._blocks[i].index = i *)
Fixpoint set_indexes (h : heap) (i : Z) (bs : list positive) : heap :=
  match bs with
  | [] => h
  | b :: r => let x := bget h b in
              set_indexes (PositiveMap.add b (mkblk i (b_toks x) (b_size x) (b_lnl x)) h) (i + 1) r
  end.
Definition update_block_indexes (s : store) (i : Z) : store :=
  if i <? 0 then (* negative i: Python would index from the end; never reached *)
    with_heap s (set_indexes (s_heap s) 0 (s_blocks s))
  else with_heap s (set_indexes (s_heap s) i (zskipn i (s_blocks s))).

(* Python list slice assignment l[a:b] = x for 0 <= a (b clamped to >= a) *)
Definition list_setslice {A} (l : list A) (a b : Z) (x : list A) : list A :=
  let a' := Z.min (Z.max a 0) (zlen l) in
  let b' := Z.max a' (Z.min (Z.max b 0) (zlen l)) in
  zfirstn a' l ++ x ++ zskipn b' l.
(* list.pop(i) for in-range i (negative wraps), None = IndexError *)
Definition list_pop {A} (l : list A) (i : Z) : option (list A) :=
  let n := zlen l in
  let i' := if i <? 0 then i + n else i in
  if (0 <=? i') && (i' <? n) then Some (zfirstn i' l ++ zskipn (i' + 1) l) else None.

(* _split_block *)
Definition split_block (s : store) (b : positive) : store * res unit :=
  let r := bget (s_heap s) b in
  match build_blocks (length (b_toks r)) s (b_index r) (b_toks r) with
  | (s1, Err e) => (s1, Err e)
  | (s1, Ok nbs) =>
    let idx := b_index (bget (s_heap s1) b) in
    let s2 := with_blocks s1 (list_setslice (s_blocks s1) idx (idx + 1) nbs) in
    match rev nbs with
    | [] => (s2, Err IndexError)            (* new_blocks[-1] *)
    | lastb :: _ => (update_block_indexes s2 (b_index (bget (s_heap s2) lastb) + 1), Ok tt)
    end
  end.

(* _merge_blocks(a, b) *)
Definition merge_blocks (s : store) (a b : positive) : store * res unit :=
  let ra := bget (s_heap s) a in
  let rb := bget (s_heap s) b in
  let atoks := b_toks ra ++ b_toks rb in              (* a.tokens += b.tokens *)
  let s1 := set_blk s a (mkblk (b_index ra) atoks (b_size ra) (b_lnl ra)) in
  if zlen atoks <? DOUBLE then
    let s2 := rebuild s1 a in
    let bi := b_index (bget (s_heap s2) b) in
    match list_pop (s_blocks s2) bi with
    | None => (s2, Err IndexError)
    | Some bs => (update_block_indexes (with_blocks s2 bs) bi, Ok tt)
    end
  else
    let len := Z.shiftr (zlen atoks) 1 in
    let rb1 := bget (s_heap s1) b in
    let s2 := set_blk s1 b (mkblk (b_index rb1) (zskipn len atoks) (b_size rb1) (b_lnl rb1)) in
    let ra2 := bget (s_heap s2) a in
    let s3 := set_blk s2 a (mkblk (b_index ra2) (zfirstn len atoks) (b_size ra2) (b_lnl ra2)) in
    (rebuild (rebuild s3 a) b, Ok tt).

Definition blocks_at (s : store) (i : Z) : res positive :=
  match py_nth (s_blocks s) i with Some b => Ok b | None => Err IndexError end.

(* _update_block *)
Definition update_block (s : store) (b : positive) : store * res unit :=
  let r := bget (s_heap s) b in
  let length := zlen (b_toks r) in
  if length >=? DOUBLE then split_block s b
  else if (length <=? HALF) && (zlen (s_blocks s) >? 1) then
    if negb (b_index r =? 0) then
      match blocks_at s (b_index r - 1) with
      | Ok p => merge_blocks s p b
      | Err e => (s, Err e)
      end
    else
      match blocks_at s (b_index r + 1) with
      | Ok n => merge_blocks s b n
      | Err e => (s, Err e)
      end
  else
    let s1 := rebuild s b in
    let nbi := b_index (bget (s_heap s1) b) + 1 in
    if nbi <? zlen (s_blocks s1) then
      match blocks_at s1 nbi with
      | Ok n => if negb (b_index (bget (s_heap s1) n) =? nbi)
                then (update_block_indexes s1 nbi, Ok tt) else (s1, Ok tt)
      | Err e => (s1, Err e)
      end
    else (s1, Ok tt).

(* tuple comparison (a1,a2) <= (b1,b2) *)
Definition pair_le (a b : Z * Z) : bool :=
  (fst a <? fst b) || ((fst a =? fst b) && (snd a <=? snd b)).
(* tuple comparison (a1,a2) < (b1,b2) *)
Definition pair_lt (a b : Z * Z) : bool :=
  (fst a <? fst b) || ((fst a =? fst b) && (snd a <? snd b)).

Definition sum_lines (tk : tokmap) (ts : list positive) : Z :=
  fold_left (fun acc t => acc + line (t_size (tget tk t))) ts 0.

(* len({id(token) for token in tokens}) != len(tokens) *)

(* _splice(tokens, start, end): `end < start` and a token listed twice are refused first; then the reuse guard
     token.store_handle is not None and not (block.store is self and start <= (block.index, index) < end) *)
Definition splice_ (s : store) (tokens : list positive) (st en : Z * Z) : store * res unit :=
  let '(start_i, start_j) := st in
  let '(end_i, end_j) := en in
  if pair_lt en st then (s, Err ValueError)
  else if has_dup tokens then (s, Err ValueError)
  else if existsb (fun t =>
       match t_handle (tget (s_toks s) t) with
       | None => false
       | Some (sid, hb, hi) =>
         let p := (b_index (bget (s_heap s) hb), hi) in
         negb (Pos.eqb sid (s_id s) && (pair_le st p && pair_lt p en))
       end) tokens
  then (s, Err ValueError)
  else if start_i =? end_i then
    let len_removed := end_j - start_j in
    match blocks_at s start_i with
    | Err e => (s, Err e)
    | Ok b =>
      let r := bget (s_heap s) b in
      let removed := zfirstn (end_j - start_j) (zskipn start_j (b_toks r)) in   (* range(start_j, end_j) *)
      let lines_diff := - sum_lines (s_toks s) removed in
      let s1 := with_toks s (unhandle (s_toks s) removed) in
      let ntoks := list_setslice (b_toks r) start_j end_j tokens in
      let s2 := set_blk s1 b (mkblk (b_index r) ntoks (b_size r) (b_lnl r)) in
      let n := zlen ntoks in
      let '(s3, rr) :=
        if (n <? DOUBLE) && ((n >? HALF) || (zlen (s_blocks s2) =? 1)) && (b_lnl r >=? end_j) then
          let lines_diff2 := lines_diff + sum_lines (s_toks s2) tokens in
          let tk := rehandle (s_toks s2) (s_id s2) b start_j (zskipn start_j ntoks) in
          let r2 := bget (s_heap s2) b in
          (set_blk (with_toks s2 tk) b
             (mkblk (b_index r2) (b_toks r2)
                    (mkpos (line (b_size r2) + lines_diff2) (col (b_size r2)))
                    (b_lnl r2 + (zlen tokens - len_removed))), Ok tt)
        else update_block s2 b in
      match rr with
      | Err e => (s3, Err e)
      | Ok _ => (with_len s3 (s_len s3 + (zlen tokens - len_removed)), Ok tt)
      end
    end
  else
    match blocks_at s start_i, blocks_at s end_i with
    | Err e, _ => (s, Err e)
    | _, Err e => (s, Err e)
    | Ok bs, Ok be =>
      let rs := bget (s_heap s) bs in
      let re := bget (s_heap s) be in
      let mids := zfirstn (end_i - (start_i + 1)) (zskipn (start_i + 1) (s_blocks s)) in
      let midtoks := flat_map (fun b => b_toks (bget (s_heap s) b)) mids in
      let len_removed := zlen (b_toks rs) - start_j + end_j + zlen midtoks in
      let tk1 := unhandle (s_toks s) (zskipn start_j (b_toks rs)) in
      let tk2 := unhandle tk1 midtoks in
      let tk3 := unhandle tk2 (zfirstn end_j (b_toks re)) in
      let s1 := with_toks s tk3 in
      let '(s2, nb) := bare_block s1 start_i
                         (zfirstn start_j (b_toks rs) ++ tokens ++ zskipn end_j (b_toks re)) in
      let s3 := with_blocks s2 (list_setslice (s_blocks s2) start_i (end_i + 1) [nb]) in
      let s3' := update_block_indexes s3 (start_i + 1) in
      match blocks_at s3' start_i with
      | Err e => (s3', Err e)
      | Ok b0 =>
        match update_block s3' b0 with
        | (s4, Err e) => (s4, Err e)
        | (s4, Ok _) => (with_len s4 (s_len s4 + (zlen tokens - len_removed)), Ok tt)
        end
      end
    end.

(* _check_store_handle(token, self): no handle, or a handle into another store, raise ValueError *)
Definition check_handle (s : store) (t : positive) : res (positive * Z) :=
  match t_handle (tget (s_toks s) t) with
  | Some (sid, b, i) => if Pos.eqb sid (s_id s) then Ok (b, i) else Err ValueError
  | None => Err ValueError
  end.

(* splice(tokens, ref, del_end); a del_end that comes before ref - also directly before it, where end = start -
   is refused here:  if (end_handle.block.index, end_handle.index) < start: raise ValueError *)
Definition splice (s : store) (tokens : list positive) (ref del_end : option positive)
  : store * res unit :=
  let st := match ref with
            | None => Ok (0, 0)
            | Some r => match check_handle s r with
                        | Ok (hb, hi) => Ok (b_index (bget (s_heap s) hb), hi)
                        | Err e => Err e end
            end in
  match st with
  | Err e => (s, Err e)
  | Ok st =>
    let en := match del_end with
              | None => Ok st
              | Some d => match check_handle s d with
                          | Ok (hb, hi) =>
                            if pair_lt (b_index (bget (s_heap s) hb), hi) st then Err ValueError
                            else Ok (b_index (bget (s_heap s) hb), hi + 1)
                          | Err e => Err e end
              end in
    match en with
    | Err e => (s, Err e)
    | Ok en => splice_ s tokens st en
    end
  end.

Definition insert_after (s : store) (ref : option positive) (tokens : list positive)
  : store * res unit :=
  match ref with
  | None => splice_ s tokens (0, 0) (0, 0)
  | Some r => match check_handle s r with
              | Err e => (s, Err e)
              | Ok (hb, hi) => let st := (b_index (bget (s_heap s) hb), hi + 1) in splice_ s tokens st st
              end
  end.
Definition insert_before (s : store) (ref : option positive) (tokens : list positive) :=
  splice s tokens ref None.
Definition replace (s : store) (t r : positive) := splice s [r] (Some t) (Some t).
Definition remove (s : store) (a : positive) (b : option positive) :=
  splice s [] (Some a) (Some (match b with Some x => x | None => a end)).

(* sum of column sizes over tokens[lo..hi) of a block *)
Definition cols (tk : tokmap) (ts : list positive) : Z :=
  fold_left (fun acc t => acc + col (t_size (tget tk t))) ts 0.

(* the `for i in range(index-1, -1, -1)` loop of update(): walk `before` (tokens before the updated
   one, nearest first, paired with their indexes) accumulating columns until a newline token *)
Fixpoint back_scan (tk : tokmap) (before : list (Z * positive)) (c : Z) : Z * Z :=
  match before with
  | [] => (c, -1)
  | (i, t) :: r => let z := t_size (tget tk t) in
                   let c' := c + col z in
                   if negb (line z =? 0) then (c', i) else back_scan tk r c'
  end.
Fixpoint enum_from {A} (i : Z) (l : list A) : list (Z * A) :=
  match l with [] => [] | x :: r => (i, x) :: enum_from (i + 1) r end.

(* TokenStore.update(token, raw_text, size) : caches only; text/size of the token are written by
   Token._update_raw_text afterwards *)
Definition update (s : store) (t : positive) (size : pos) : store * res unit :=
  match check_handle s t with
  | Err e => (s, Err e)
  | Ok (hb, hi) =>
    let r := bget (s_heap s) hb in
    let tsz := t_size (tget (s_toks s) t) in
    let sz1 := mkpos (line (b_size r) + (line size - line tsz)) (col (b_size r)) in
    if hi <? b_lnl r then (set_blk s hb (mkblk (b_index r) (b_toks r) sz1 (b_lnl r)), Ok tt)
    else if negb (line size =? 0) && (line tsz =? 0) then
      let c := col size + cols (s_toks s) (zskipn (hi + 1) (b_toks r)) in
      (set_blk s hb (mkblk (b_index r) (b_toks r) (mkpos (line sz1) c) hi), Ok tt)
    else if negb (line tsz =? 0) && (line size =? 0) then
      let c0 := col sz1 + col size - col tsz in
      let '(c, l) := back_scan (s_toks s) (rev (enum_from 0 (zfirstn hi (b_toks r)))) c0 in
      (set_blk s hb (mkblk (b_index r) (b_toks r) (mkpos (line sz1) c) l), Ok tt)
    else
      (set_blk s hb (mkblk (b_index r) (b_toks r)
                       (mkpos (line sz1) (col sz1 + (col size - col tsz))) (b_lnl r)), Ok tt)
  end.

(* Token._update_raw_text(value) *)
Definition set_text (s : store) (t : positive) (x : str) : store * res unit :=
  let size := token_size x in
  (* if self.store_handle: self.store_handle.block.store.update(self, value, size) -- the token's own store;
     for a token of another store that call is outside this one-store model and leaves this store alone *)
  let '(s1, rr) := match t_handle (tget (s_toks s) t) with
                   | Some (sid, _, _) => if Pos.eqb sid (s_id s) then update s t size else (s, Ok tt)
                   | None => (s, Ok tt) end in
  match rr with
  | Err e => (s1, Err e)
  | Ok _ => let r := tget (s_toks s1) t in
            (with_toks s1 (PositiveMap.add t (mktok x size (t_handle r)) (s_toks s1)), Ok tt)
  end.

(* ---- observers ---- *)
Definition all_tokens (s : store) : list positive :=              (* __iter__ *)
  flat_map (fun b => b_toks (bget (s_heap s) b)) (s_blocks s).

Definition iter_range (s : store) (a b : positive) : res (list positive) :=    (* iter(start, end) *)
  match check_handle s a, check_handle s b with
  | Err e, _ => Err e
  | _, Err e => Err e
  | Ok (ba, ia), Ok (bb, ib) =>
    if Pos.eqb ba bb then Ok (zfirstn (ib + 1 - ia) (zskipn ia (b_toks (bget (s_heap s) ba))))
    else if b_index (bget (s_heap s) bb) <? b_index (bget (s_heap s) ba) then Ok []   (* start in a later block *)
    else
      let ra := bget (s_heap s) ba in
      let rb := bget (s_heap s) bb in
      let mids := zfirstn (b_index rb - (b_index ra + 1)) (zskipn (b_index ra + 1) (s_blocks s)) in
      Ok (zskipn ia (b_toks ra) ++ flat_map (fun x => b_toks (bget (s_heap s) x)) mids
          ++ zfirstn (ib + 1) (b_toks rb))
  end.

Definition get_index (s : store) (t : positive) : res Z :=
  match check_handle s t with
  | Err e => Err e
  | Ok (hb, hi) =>
    let bi := b_index (bget (s_heap s) hb) in
    Ok (fold_left (fun acc b => acc + zlen (b_toks (bget (s_heap s) b))) (zfirstn bi (s_blocks s)) hi)
  end.

Definition get_position (s : store) (t : positive) : res pos :=
  match check_handle s t with
  | Err e => Err e
  | Ok (hb, hi) =>
    let r := bget (s_heap s) hb in
    let p1 := fold_left (fun p b => pos_iadd p (b_size (bget (s_heap s) b)))
                        (zfirstn (b_index r) (s_blocks s)) pos0 in
    Ok (fold_left (fun p t' => pos_iadd p (t_size (tget (s_toks s) t'))) (zfirstn hi (b_toks r)) p1)
  end.

Definition get_prev (s : store) (t : positive) : res (option positive) :=
  match check_handle s t with
  | Err e => Err e
  | Ok (hb, hi) =>
    let r := bget (s_heap s) hb in
    if negb (hi =? 0) then
      match py_nth (b_toks r) (hi - 1) with Some x => Ok (Some x) | None => Err IndexError end
    else if negb (b_index r =? 0) then
      match py_nth (s_blocks s) (b_index r - 1) with
      | None => Err IndexError
      | Some p => match rev (b_toks (bget (s_heap s) p)) with
                  | [] => Ok None
                  | x :: _ => Ok (Some x) end
      end
    else Ok None
  end.

Definition get_next (s : store) (t : positive) : res (option positive) :=
  match check_handle s t with
  | Err e => Err e
  | Ok (hb, hi) =>
    let r := bget (s_heap s) hb in
    if hi + 1 <? zlen (b_toks r) then
      match py_nth (b_toks r) (hi + 1) with Some x => Ok (Some x) | None => Err IndexError end
    else if b_index r + 1 <? zlen (s_blocks s) then
      match py_nth (s_blocks s) (b_index r + 1) with
      | None => Err IndexError
      | Some n => match b_toks (bget (s_heap s) n) with
                  | [] => Err IndexError
                  | x :: _ => Ok (Some x) end
      end
    else Ok None
  end.

Definition get_first (s : store) : res (option positive) :=
  match s_blocks s with
  | [] => Ok None
  | b :: _ => match b_toks (bget (s_heap s) b) with [] => Ok None | x :: _ => Ok (Some x) end
  end.
Definition get_last (s : store) : res (option positive) :=
  match s_blocks s with
  | [] => Ok None
  | b :: _ => match b_toks (bget (s_heap s) b) with
              | [] => Ok None
              | _ => match rev (s_blocks s) with
                     | [] => Ok None
                     | l :: _ => match rev (b_toks (bget (s_heap s) l)) with
                                 | [] => Err IndexError
                                 | x :: _ => Ok (Some x) end
                     end
              end
  end.
Definition len (s : store) : Z := s_len s.

End WithLF.
