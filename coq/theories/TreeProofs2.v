(* Proofs about the generic tree model, part 2: clone (C11), reattach (C05), first/last token (C05). *)
From AB Require Import Desc Tree TreeDefs TreeProofs.
From Coq Require Import ZArith List Bool Lia.
Import ListNotations.
Open Scope list_scope.

(* ---- kids_flat / kids_clone / kids_reattach ---------------------------------------------------- *)
Lemma In_kids_flat : forall {A} (g : slot -> list A) ks x,
  In x (kids_flat g ks) <-> exists k sl, In (k, sl) ks /\ In x (g sl).
Proof.
  intros A g ks x. induction ks as [|[k sl] ks IH]; simpl.
  - split; [tauto | intros (k & sl & [] & _)].
  - rewrite in_app_iff, IH. split.
    + intros [H|(k' & sl' & Hin & Hx)]; [exists k, sl; auto | exists k', sl'; auto].
    + intros (k' & sl' & [E|Hin] & Hx).
      * inversion E. subst. auto.
      * right. exists k', sl'. auto.
Qed.

Lemma In_flat_map_items : forall {A} (g : node -> list A) l x,
  In x (flat_map g l) <-> exists y, In y l /\ In x (g y).
Proof. intros. apply in_flat_map. Qed.

Section Ops.
Variable cs : classes_t.
Variable new : Z.

Lemma kid_kids_clone : forall f sel ks n,
  kid (kids_clone cs new f sel ks) n =
  if mem n sel then option_map (slot_clone cs new f) (kid ks n) else None.
Proof.
  intros f sel ks n. induction ks as [|[k sl] ks IH]; simpl.
  - destruct (mem n sel); reflexivity.
  - destruct (existsb (String.eqb k) sel) eqn:Ek; simpl; destruct (String.eqb k n) eqn:E.
    + apply String.eqb_eq in E. subst k. unfold mem. rewrite Ek. reflexivity.
    + exact IH.
    + apply String.eqb_eq in E. subst k. unfold mem in *. rewrite Ek in *. exact IH.
    + exact IH.
Qed.

Lemma In_kids_clone : forall f sel ks k sl',
  In (k, sl') (kids_clone cs new f sel ks) ->
  exists sl, In (k, sl) ks /\ sl' = slot_clone cs new f sl.
Proof.
  intros f sel ks k sl'. induction ks as [|[k0 sl0] ks IH]; simpl; intro H; try contradiction.
  destruct (existsb (String.eqb k0) sel).
  - destruct H as [E|H].
    + inversion E. subst. eauto.
    + destruct (IH H) as (sl & Hin & E). eauto.
  - destruct (IH H) as (sl & Hin & E). eauto.
Qed.

Lemma kids_clone_all : forall f sel ks, (forall k, In k (map fst ks) -> In k sel) ->
  kids_clone cs new f sel ks = map (fun kv => (fst kv, slot_clone cs new f (snd kv))) ks.
Proof.
  intros f sel ks. induction ks as [|[k sl] ks IH]; simpl; intro H; auto.
  assert (Hk : existsb (String.eqb k) sel = true) by (apply mem_In; apply H; auto).
  rewrite Hk, IH; auto.
Qed.

Lemma map_fst_kids_clone : forall f sel ks, (forall k, In k (map fst ks) -> In k sel) ->
  map fst (kids_clone cs new f sel ks) = map fst ks.
Proof.
  intros f sel ks H. rewrite kids_clone_all by assumption. rewrite map_map. reflexivity.
Qed.

Lemma In_kids_reattach : forall sel ks k sl',
  In (k, sl') (kids_reattach cs new sel ks) ->
  exists sl, In (k, sl) ks /\ sl' = if mem k sel then slot_reattach cs new sl else sl.
Proof.
  intros sel ks k sl'. induction ks as [|[k0 sl0] ks IH]; simpl; intro H; try contradiction.
  destruct H as [E|H].
  - inversion E. subst. exists sl0. auto.
  - destruct (IH H) as (sl & Hin & E). eauto.
Qed.

(* ---- C11: the copy is equal to the original ----------------------------------------------------- *)
Section Clone.
Variable f : tk -> tk.
Hypothesis f_keeps : forall t, k_rule (f t) = k_rule t /\ k_text (f t) = k_text t.
Hypothesis Hok : classes_ok cs.

Lemma items_eq_clone : forall l,
  Forall (fun a => conforms cs a = true -> node_eq cs (clone cs new f a) a = true) l ->
  forallb (conforms cs) l = true ->
  items_eq (node_eq cs) (map (clone cs new f) l) l = true.
Proof.
  induction l as [|x l IH]; intros HF H; simpl; auto.
  simpl in H. apply andb_true_iff in H. inversion HF as [|? ? Hx HF']. subst.
  rewrite Hx, IH; tauto.
Qed.

Lemma clone_equal : forall a, conforms cs a = true -> node_eq cs (clone cs new f a) a = true.
Proof.
  intros a.
  apply (node_ind2
    (fun a => conforms cs a = true -> node_eq cs (clone cs new f a) a = true)
    (fun sl => slot_all (conforms cs) sl = true ->
               slot_eq (node_eq cs) (slot_clone cs new f sl) sl = true)); clear a.
  - intros t _. simpl. apply tk_eqb_true. apply f_keeps.
  - intros c s t kids d IH H.
    destruct (conforms_parts _ _ _ _ _ _ H) as (dd & Hc & Hf & Hkeys & Hnd & Hk).
    destruct (classes_ok_find _ _ _ Hok Hc) as [Hcl Hcld _ _ _ _ _ _ _].
    rewrite clone_tree, Hc.
    eapply node_eq_sound; eauto.
    + apply Hok. apply (find_class_In _ _ _ Hc).
    + rewrite map_fst_kids_clone; auto. rewrite Hcl. exact Hkeys.
    + apply toks_eqb_map. exact f_keeps.
    + intros fd Hin. destruct (Hf fd Hin) as (sl & Hsl & _).
      exists (slot_clone cs new f sl), sl. repeat split; auto.
      * rewrite kid_kids_clone, Hsl, Hcl.
        assert (Hm : mem (f_name fd) (names dd) = true)
          by (apply mem_In; unfold names; apply in_map; exact Hin).
        rewrite Hm. reflexivity.
      * pose proof (Forall_kids_In _ _ _ _ IH (kid_In _ _ _ Hsl)) as HQ. simpl in HQ.
        apply HQ. eapply Hk. apply kid_In. eassumption.
    + intros x Hx.
      rewrite (datum_filter (fun k => existsb (String.eqb k) (c_clone_data dd))).
      assert (Hm : existsb (String.eqb x) (c_clone_data dd) = true)
        by (apply mem_In; rewrite Hcld; exact Hx).
      rewrite Hm. reflexivity.
  - intros n IH H. simpl in *. auto.
  - intros _. reflexivity.
  - intros n IH H. simpl in *. auto.
  - intros s t ph items IH H. simpl in *. rewrite toks_eqb_map by exact f_keeps. simpl.
    apply items_eq_clone; assumption.
  - intros items IH H. simpl in *. apply items_eq_clone; assumption.
Qed.
End Clone.

(* ---- C11: the copy's leaves are exactly the images of the original's leaves, in order ----------- *)
Lemma flat_map_map_Forall : forall {A} (g : node -> list A) (h : node -> node) (m : list A -> list A)
  (ok : node -> bool) l,
  (forall x y, m (x ++ y) = m x ++ m y) -> m [] = [] ->
  Forall (fun a => ok a = true -> g (h a) = m (g a)) l -> forallb ok l = true ->
  flat_map g (map h l) = m (flat_map g l).
Proof.
  intros A g h m ok l Happ Hnil. induction l as [|x l IH]; intros HF H; simpl; auto.
  simpl in H. apply andb_true_iff in H. inversion HF as [|? ? Hx HF']. subst.
  rewrite Happ, Hx, IH; tauto.
Qed.

Lemma kids_flat_map : forall {A} (h : slot -> slot) (m : list A -> list A) (g : slot -> list A)
  (ks : list (string * slot)),
  (forall x y, m (x ++ y) = m x ++ m y) -> m [] = [] ->
  (forall k sl, In (k, sl) ks -> g (h sl) = m (g sl)) ->
  kids_flat g (map (fun kv => (fst kv, h (snd kv))) ks) = m (kids_flat g ks).
Proof.
  intros A h m g ks Happ Hnil. induction ks as [|[k sl] ks IH]; intro H; simpl; auto.
  rewrite Happ, (H k sl), IH; auto.
  - intros k' sl' Hin. apply (H k'). right. exact Hin.
  - left. reflexivity.
Qed.

(* needs the scheme: a clone() that forgot a field would lose that field's tokens *)
Lemma clone_leaves : classes_ok cs -> forall f a, conforms cs a = true ->
  leaves (clone cs new f a) = map f (leaves a).
Proof.
  intros Hok f a.
  apply (node_ind2
    (fun a => conforms cs a = true -> leaves (clone cs new f a) = map f (leaves a))
    (fun sl => slot_all (conforms cs) sl = true ->
               slot_leaves (slot_clone cs new f sl) = map f (slot_leaves sl))); clear a.
  - intros t _. reflexivity.
  - intros c s t kids d IH H.
    destruct (conforms_parts _ _ _ _ _ _ H) as (dd & Hc & _ & Hkeys & _ & Hk).
    destruct (classes_ok_find _ _ _ Hok Hc) as [Hcl _ _ _ _ _ _ _ _].
    rewrite clone_tree, Hc, !leaves_tree.
    rewrite kids_clone_all by (rewrite Hcl; exact Hkeys).
    apply kids_flat_map; auto using map_app.
    intros k sl Hin. pose proof (Forall_kids_In _ _ _ _ IH Hin) as HQ. simpl in HQ.
    apply HQ. apply (Hk k). exact Hin.
  - intros n IH H. simpl in *. auto.
  - intros _. reflexivity.
  - intros n IH H. simpl in *. auto.
  - intros s t ph items IH H. simpl in *. f_equal.
    apply (flat_map_map_Forall _ _ (map f) (conforms cs)); auto. apply map_app.
  - intros items IH H. simpl in *.
    apply (flat_map_map_Forall _ _ (map f) (conforms cs)); auto. apply map_app.
Qed.

(* every store id of the copy is the new store (needs only that the classes are known) *)
Lemma In_flat_map_Forall : forall {A} (g : node -> list A) (h : node -> node) (ok : node -> bool)
  (R : A -> Prop) l,
  Forall (fun a => ok a = true -> forall x, In x (g (h a)) -> R x) l -> forallb ok l = true ->
  forall x, In x (flat_map g (map h l)) -> R x.
Proof.
  intros A g h ok R l HF H x Hx. apply in_flat_map in Hx. destruct Hx as (y & Hy & Hx).
  apply in_map_iff in Hy. destruct Hy as (a & E & Ha). subst y.
  rewrite Forall_forall in HF. rewrite forallb_forall in H. eapply HF; eauto.
Qed.

Lemma clone_sids : forall f a, conforms cs a = true ->
  forall s, In s (sids (clone cs new f a)) -> s = new.
Proof.
  intros f a.
  apply (node_ind2
    (fun a => conforms cs a = true -> forall s, In s (sids (clone cs new f a)) -> s = new)
    (fun sl => slot_all (conforms cs) sl = true ->
               forall s, In s (slot_sids (slot_clone cs new f sl)) -> s = new)); clear a.
  - intros t _ s []. 
  - intros c s t kids d IH H s0 Hs.
    destruct (conforms_parts _ _ _ _ _ _ H) as (dd & Hc & _ & _ & _ & Hk).
    rewrite clone_tree, Hc, sids_tree in Hs. destruct Hs as [E|Hs]; auto.
    apply In_kids_flat in Hs. destruct Hs as (k & sl' & Hin & Hs).
    apply In_kids_clone in Hin. destruct Hin as (sl & Hin & E). subst sl'.
    pose proof (Forall_kids_In _ _ _ _ IH Hin) as HQ. simpl in HQ.
    eapply HQ; eauto.
  - intros n IH H. simpl in *. auto.
  - intros _ s [].
  - intros n IH H. simpl in *. auto.
  - intros s t ph items IH H s0 Hs. simpl in H, Hs. destruct Hs as [E|Hs]; [symmetry; exact E|].
    exact (In_flat_map_Forall sids (clone cs new f) (conforms cs) (fun x => x = new) items IH H s0 Hs).
  - intros items IH H s0 Hs. simpl in H, Hs.
    exact (In_flat_map_Forall sids (clone cs new f) (conforms cs) (fun x => x = new) items IH H s0 Hs).
Qed.

(* ---- C05: reattach ------------------------------------------------------------------------------ *)
(* This is where a generated _reattach that skips a field (or forgets `self._token_store = ...`)
   would break: the skipped child keeps its old store id. The statement depends on wf_tree
   (c_reattach = declared fields, c_reattach_store = true); see reattach_sids_needs_wf. *)
Lemma reattach_sids : classes_ok cs -> forall a, conforms cs a = true ->
  forall s, In s (sids (reattach cs new a)) -> s = new.
Proof.
  intros Hok a.
  apply (node_ind2
    (fun a => conforms cs a = true -> forall s, In s (sids (reattach cs new a)) -> s = new)
    (fun sl => slot_all (conforms cs) sl = true ->
               forall s, In s (slot_sids (slot_reattach cs new sl)) -> s = new)); clear a.
  - intros t _ s [].
  - intros c s t kids d IH H s0 Hs.
    destruct (conforms_parts _ _ _ _ _ _ H) as (dd & Hc & _ & Hkeys & _ & Hk).
    destruct (classes_ok_find _ _ _ Hok Hc) as [_ _ Hre Hst _ _ _ _ _].
    rewrite reattach_tree, Hc, sids_tree, Hst in Hs. destruct Hs as [E|Hs]; auto.
    apply In_kids_flat in Hs. destruct Hs as (k & sl' & Hin & Hs).
    apply In_kids_reattach in Hin. destruct Hin as (sl & Hin & E).
    assert (Hm : mem k (c_reattach dd) = true).
    { apply mem_In. rewrite Hre. apply Hkeys. change k with (fst (k, sl)). apply in_map. exact Hin. }
    rewrite Hm in E. subst sl'.
    pose proof (Forall_kids_In _ _ _ _ IH Hin) as HQ. simpl in HQ.
    eapply HQ; eauto.
  - intros n IH H. simpl in *. auto.
  - intros _ s [].
  - intros n IH H. simpl in *. auto.
  - intros s t ph items IH H s0 Hs. simpl in H, Hs. destruct Hs as [E|Hs]; [symmetry; exact E|].
    exact (In_flat_map_Forall sids (reattach cs new) (conforms cs) (fun x => x = new) items IH H s0 Hs).
  - intros items IH H s0 Hs. simpl in H, Hs.
    exact (In_flat_map_Forall sids (reattach cs new) (conforms cs) (fun x => x = new) items IH H s0 Hs).
Qed.

Lemma flat_map_map_same : forall {A} (g : node -> list A) (h : node -> node) l,
  Forall (fun a => g (h a) = g a) l -> flat_map g (map h l) = flat_map g l.
Proof.
  intros A g h l HF. induction HF as [|x l Hx HF IH]; simpl; auto. rewrite Hx, IH. reflexivity.
Qed.

(* reattach changes no token: same leaves, same token list (unconditionally) *)
Lemma reattach_leaves : forall a, leaves (reattach cs new a) = leaves a.
Proof.
  intros a.
  apply (node_ind2
    (fun a => leaves (reattach cs new a) = leaves a)
    (fun sl => slot_leaves (slot_reattach cs new sl) = slot_leaves sl)); clear a.
  - reflexivity.
  - intros c s t kids d IH. rewrite reattach_tree. destruct (find_class cs c) as [dd|]; auto.
    rewrite !leaves_tree. induction IH as [|[k sl] kids Hsl IH IHk]; simpl; auto.
    simpl in Hsl. rewrite IHk. destruct (existsb (String.eqb k) (c_reattach dd)); [rewrite Hsl|]; reflexivity.
  - intros n IH. simpl. exact IH.
  - reflexivity.
  - intros n IH. simpl. exact IH.
  - intros s t ph items IH. simpl. f_equal. apply flat_map_map_same. exact IH.
  - intros items IH. simpl. apply flat_map_map_same. exact IH.
Qed.

Lemma reattach_toks : forall a, node_toks (reattach cs new a) = node_toks a.
Proof.
  intros [t|c s t kids d]; auto. rewrite reattach_tree. destruct (find_class cs c); reflexivity.
Qed.

Lemma reattach_type : forall a, node_type (reattach cs new a) = node_type a.
Proof.
  intros [t|c s t kids d]; auto. rewrite reattach_tree. destruct (find_class cs c); reflexivity.
Qed.
End Ops.

(* non-vacuity of the dependence on the scheme: a _reattach that skips a declared field leaves
   that child in the old store *)
Definition bad_reattach_cls : cdesc :=
  mkcdesc "K" "k" true false [mkfdesc "_x" FReq; mkfdesc "_y" FReq] []
          ["_x"; "_y"] [] ["_x"; "_y"] [] ["_x"] true "K" ["_x"; "_y"] []
          [APlain "_x" SFirst] [APlain "_y" SLast] [] None [] [].
Definition bad_reattach_node : node :=
  Tree "K" 0 [] [("_x", SReq (Tree "K" 0 [] [("_x", SReq (Leaf (mktk 1 "A" "a"))); ("_y", SReq (Leaf (mktk 2 "A" "b")))] []));
                 ("_y", SReq (Tree "K" 0 [] [("_x", SReq (Leaf (mktk 3 "A" "a"))); ("_y", SReq (Leaf (mktk 4 "A" "b")))] []))] [].
Lemma reattach_sids_needs_wf :
  conforms [bad_reattach_cls] bad_reattach_node = true
  /\ wf_tree bad_reattach_cls = false
  /\ In 0%Z (sids (reattach [bad_reattach_cls] 7 bad_reattach_node)).
Proof. vm_compute. intuition. Qed.

(* ---- C11 corollaries ---------------------------------------------------------------------------- *)
Lemma clone_toks : forall cs new f a, conforms cs a = true ->
  node_toks (clone cs new f a) = map f (node_toks a).
Proof.
  intros cs new f [t|c s t kids d] H; auto.
  destruct (conforms_parts _ _ _ _ _ _ H) as (dd & Hc & _). rewrite clone_tree, Hc. reflexivity.
Qed.

(* the copy prints exactly the text the original spans *)
Lemma clone_text : forall cs new f a,
  (forall t, k_rule (f t) = k_rule t /\ k_text (f t) = k_text t) -> conforms cs a = true ->
  text_of (node_toks (clone cs new f a)) = text_of (node_toks a).
Proof.
  intros cs new f a Hf H. rewrite clone_toks by assumption. apply toks_eqb_text.
  apply toks_eqb_map. exact Hf.
Qed.

(* no token is shared when the token map sends the original's leaves to fresh identities *)
Lemma clone_disjoint : forall cs new f a, classes_ok cs -> conforms cs a = true ->
  (forall t t', In t (leaves a) -> In t' (leaves a) -> k_id (f t) <> k_id t') ->
  forall x y, In x (leaves (clone cs new f a)) -> In y (leaves a) -> k_id x <> k_id y.
Proof.
  intros cs new f a Hok H Hfresh x y Hx Hy. rewrite clone_leaves in Hx by assumption.
  apply in_map_iff in Hx. destruct Hx as (t & E & Ht). subst x. apply Hfresh; assumption.
Qed.

(* complete in its own store: every leaf of the copy is the image of a leaf of the original *)
Lemma clone_complete : forall cs new f a, classes_ok cs -> conforms cs a = true ->
  forall x, In x (leaves (clone cs new f a)) <-> exists t, In t (leaves a) /\ x = f t.
Proof.
  intros cs new f a Hok H x. rewrite clone_leaves by assumption. rewrite in_map_iff.
  split; intros (t & H1 & H2); exists t; auto.
Qed.
