(* C18 model: how children created from plain values are indented.
   meta_item_internal.py: RepeatedMetaItemWrapper._get_indent / __setitem__(str), _get_default_indent;
   value_properties.py: RepeatedValueWrapper.append / insert (the raw routes), optional_indented_string_property;
   block_comment.py: BlockComment.from_value / _format_value.
   A parent (entry or posting) is abstracted to its own indent (None for entries: the generated class
   passes no indent_property), its indent_by and the list raw_meta_with_comments, each item with the
   value of its own indent. No proofs in this file. *)
From AB Require Import Prelude.

Inductive item :=
| IMeta (indent : str) (key : Z)     (* MetaItem: raw_indent.value, key (interned) *)
| IComment (indent : str).           (* interleaved BlockComment: its indent *)

Definition item_indent (it : item) : str := match it with IMeta i _ => i | IComment i => i end.
Definition is_meta (it : item) : bool := match it with IMeta _ _ => true | IComment _ => false end.

Record parent := mkparent {
  p_indent : option str;             (* Some (raw_indent.value) for a Posting, None for entries *)
  p_indent_by : str;                 (* the data field indent_by *)
  p_items : list item
}.
Definition with_items (p : parent) (l : list item) : parent := mkparent (p_indent p) (p_indent_by p) l.

(* _get_default_indent(instance, indent_by_field, indent_property) *)
Definition get_default_indent (p : parent) : str :=
  match p_indent p with
  | Some i => i ++ p_indent_by p       (* indent_property.__get__(instance).value + indent_by *)
  | None => p_indent_by p
  end.

(* the filtered view: MetaItems only, in order *)
Definition metas (l : list item) : list item := filter is_meta l.

(* RepeatedMetaItemWrapper._get_indent: first = next(super().__iter__(), None) *)
Definition get_indent (p : parent) : str :=
  match metas (p_items p) with
  | [] => get_default_indent p
  | first :: _ => item_indent first
  end.

Fixpoint has_key (k : Z) (l : list item) : bool :=
  match l with
  | [] => false
  | IMeta _ k' :: r => (k' =? k) || has_key k r
  | IComment _ :: r => has_key k r
  end.

(* RepeatedMetaItemWrapper.__setitem__(index: str, value):
     for item in self: if item.key == index: item.value = value; return     -- nothing is created
     self.append(MetaItem.from_value(index, value, indent=self._get_indent()))
   append goes to the end of the raw list (RepeatedValueWrapper.append -> raw_wrapper.append) *)
Definition setitem (p : parent) (k : Z) : parent :=
  if has_key k (p_items p) then p
  else with_items p (p_items p ++ [IMeta (get_indent p) k]).

(* raw routes: the node is inserted as it is *)
Definition append_raw (p : parent) (it : item) : parent := with_items p (p_items p ++ [it]).

(* positions of the MetaItems in the raw list: _raw_indexes *)
Fixpoint raw_indexes_from (i : Z) (l : list item) : list Z :=
  match l with
  | [] => []
  | it :: r => (if is_meta it then [i] else []) ++ raw_indexes_from (i + 1) r
  end.
Definition raw_indexes (l : list item) : list Z := raw_indexes_from 0 l.

(* RepeatedValueWrapper.insert(index, value) then RepeatedNodeWrapper.insert(raw_index, value) *)
Definition insert_raw (p : parent) (index : Z) (it : item) : parent :=
  let l := p_items p in
  let ri := raw_indexes l in
  let raw_index :=
    if index >=? zlen ri then zlen l
    else if index <? - zlen ri then 0
    else match py_nth ri index with Some x => x | None => 0 end in
  let raw_index := Z.min raw_index (zlen l) in
  with_items p (zfirstn raw_index l ++ it :: zskipn raw_index l).

(* ---- comments created from a string: optional_indented_string_property.__set__ *)
Record comment := mkcomment { c_indent : str; c_lines : list str }.   (* value as _splitlines(value) *)

Definition set_comment (current : option comment) (owner_indent : str) (value : option (list str))
  : option comment :=
  match current, value with
  | Some c, Some ls => Some (mkcomment (c_indent c) ls)    (* current.value = value: no node is created *)
  | _, Some ls => Some (mkcomment owner_indent ls)          (* inner_type.from_value(value, indent=indent) *)
  | _, None => None
  end.

(* BlockComment._format_value: f'{indent}; {line}' if line.rstrip('\r\n') else f'{indent};{line}' *)
Definition SEMI : Z := 59.
Definition only_breaks (line : str) : bool := forallb (fun c => (c =? CR) || (c =? NL)) line.
Definition format_line (indent line : str) : str :=
  if only_breaks line then indent ++ SEMI :: line else indent ++ SEMI :: 32 :: line.
Definition format_value (c : comment) : list str := map (format_line (c_indent c)) (c_lines c).
Definition raw_text_of (c : comment) : str := concat (format_value c).

(* ---- histories on one entry / posting: every mutator that touches the meta block or the inputs of the
   rule. Python `raise` = Err with the state written so far (none of these writes before it raises). *)
Inductive hop :=
| HSetItem (k : Z)                       (* parent.meta[key] = value *)
| HAppendRaw (it : item)                 (* raw_meta.append(node) / raw_meta_with_comments.append(comment) *)
| HInsertRaw (index : Z) (it : item)     (* raw_meta.insert(index, node) *)
| HDelKey (k : Z)                        (* del parent.meta[key]: first item with that key; KeyError *)
| HPop                                   (* parent.meta.pop(): the last meta item; IndexError *)
| HClear                                 (* parent.meta.clear(): drop_many(_raw_indexes): comments stay *)
| HSetIndentBy (s : str)                 (* parent.indent_by = s *)
| HSetIndent (s : str)                   (* posting.indent = s (entries have no indent: not generated) *)
| HDeepCopy.                             (* parent = copy.deepcopy(parent / its transaction / the file): the
                                            generated clone() rebuilds the node from its cloned children and
                                            forwards indent_by=self.indent_by; the history goes on under the copy *)

(* del: for i, item in enumerate(self): if item.key == index: return super().__delitem__(i) *)
Fixpoint del_key (k : Z) (l : list item) : list item :=
  match l with
  | [] => []
  | IMeta i k' :: r => if k' =? k then r else IMeta i k' :: del_key k r
  | IComment i :: r => IComment i :: del_key k r
  end.
(* pop(-1): raw_index = _raw_indexes[-1] *)
Fixpoint del_last_meta (l : list item) : list item :=
  match l with
  | [] => []
  | it :: r => if is_meta it && negb (existsb is_meta r) then r else it :: del_last_meta r
  end.

Definition hstep (p : parent) (o : hop) : parent * res unit :=
  match o with
  | HSetItem k => (setitem p k, Ok tt)
  | HAppendRaw it => (append_raw p it, Ok tt)
  | HInsertRaw n it => (insert_raw p n it, Ok tt)
  | HDelKey k => if has_key k (p_items p) then (with_items p (del_key k (p_items p)), Ok tt) else (p, Err KeyError)
  | HPop => if existsb is_meta (p_items p) then (with_items p (del_last_meta (p_items p)), Ok tt)
            else (p, Err IndexError)
  | HClear => (with_items p (filter (fun it => negb (is_meta it)) (p_items p)), Ok tt)
  | HSetIndentBy s => (mkparent (p_indent p) s (p_items p), Ok tt)
  | HSetIndent s => (mkparent (match p_indent p with Some _ => Some s | None => None end)
                              (p_indent_by p) (p_items p), Ok tt)
  | HDeepCopy => (mkparent (p_indent p) (p_indent_by p) (p_items p), Ok tt)
  end.

Fixpoint hrun (p : parent) (ops : list hop) : parent :=
  match ops with [] => p | o :: r => hrun (fst (hstep p o)) r end.
