(* Proofs about edits, part 4: re-attaching keeps HWF; the popped item is a self-contained tree; histories. *)
From AB Require Import Desc Tree TreeDefs TreeProofs TreeProofs2 TreeProofs3 TreeProofs4 TreeWF TreeWFProofs.
From AB Require Import Construct ConstructProofs ConstructWF TreeEdit TreeEditProofs TreeEditProofs2 TreeEditProofs3.
From Coq Require Import ZArith List Bool Lia.
Import ListNotations.
Open Scope list_scope.

Lemma woven_map : forall (g : tk -> tk) us T, woven T us -> woven (map g T) (map (map g) us).
Proof.
  induction us as [|u us IH]; intros T H; simpl; auto.
  destruct H as (gl & T' & E & Hw). exists (map g gl), (map g T'). subst. rewrite !map_app. auto.
Qed.

Section ReattachHWF.
Variable cs : classes_t.
Hypothesis Hok : classes_ok cs.
Variable new : Z.

Let op := reattach cs new.
Let g := fun t : tk => t.

Lemma reattach_op_leaf : forall t, op (Leaf t) = Leaf (g t).
Proof. reflexivity. Qed.

Lemma reattach_op_tree : forall c s T kids d, conforms cs (Tree c s T kids d) = true ->
  exists d', op (Tree c s T kids d) = Tree c new (map g T) (map_kids (fun _ sl => slot_op new op g sl) kids) d'.
Proof.
  intros c s T kids d H. unfold op, g.
  destruct (conforms_parts _ _ _ _ _ _ H) as (dd & Hf & _ & Hkeys & _).
  destruct (classes_ok_find _ _ _ Hok Hf) as [_ _ Hre Hst _ _ _ _ _].
  rewrite reattach_tree, Hf, Hst, kids_reattach_map. exists d. rewrite map_id. f_equal.
  unfold map_kids. apply map_ext_in. intros [k sl] Hin. simpl.
  assert (Hm : mem k (c_reattach dd) = true).
  { apply mem_In. rewrite Hre. apply Hkeys. change k with (fst (k, sl)). apply in_map. exact Hin. }
  rewrite Hm. f_equal. destruct sl as [x|[x|]|s' t ph items|items]; simpl; rewrite ?map_id; reflexivity.
Qed.

Lemma g_keeps_id : forall t, k_rule (g t) = k_rule t /\ k_text (g t) = k_text t.
Proof. intro t. split; reflexivity. Qed.

Lemma reattach_SWF : forall n, conforms cs n = true -> SWF cs n -> SWF cs (op n).
Proof.
  intros n Hc [Hwf Hwov]. split.
  - unfold op. apply reattach_WF; assumption.
  - intros u' Hu'. rewrite (op_subunits cs new op g reattach_op_leaf reattach_op_tree n Hc) in Hu'.
    apply in_map_iff in Hu'. destruct Hu' as (u & E & Hu). subst u'.
    pose proof (subunits_conf cs n Hc u Hu) as Huc.
    rewrite (unit_toks_op cs new op g reattach_op_leaf reattach_op_tree u Huc),
            (unit_children_op cs new op g reattach_op_leaf reattach_op_tree u Huc).
    apply woven_map. apply Hwov. exact Hu.
Qed.

Theorem reattach_HWF : forall a, conforms cs a = true -> HWF cs a -> HWF cs (op a).
Proof.
  intros a Hc [H1 H2].
  pose proof (op_subunits cs new op g reattach_op_leaf reattach_op_tree a Hc) as Esub.
  split.
  - intros n' Hn'. rewrite Esub in Hn'. apply in_map_iff in Hn'. destruct Hn' as (u & E & Hu).
    destruct u as [n0|? ? ? ?]; simpl in E; [|discriminate]. inversion E. subst n'.
    apply reattach_SWF; [exact (subunits_conf cs a Hc _ Hu)|apply H1; exact Hu].
  - intros u' Hu'. destruct a as [t|c s T kids d]; [rewrite reattach_op_leaf in Hu'; destruct Hu'|].
    destruct (reattach_op_tree c s T kids d Hc) as [d' E].
    rewrite subunits_tree in Esub. rewrite E, subunits_tree in Esub. simpl map in Esub. inversion Esub as [[E1 E2]].
    rewrite E in Hu'. simpl proper_units in Hu'. rewrite E2 in Hu'.
    apply in_map_iff in Hu'. destruct Hu' as (u & Eu & Hu). subst u'.
    assert (Huc : unit_conf cs u).
    { apply (subunits_conf cs _ Hc). rewrite subunits_tree. right. exact Hu. }
    rewrite (exempt_op cs new op g reattach_op_leaf reattach_op_tree u Huc). apply H2. exact Hu.
Qed.
End ReattachHWF.

Section Pop.
Variable cs : classes_t.
Hypothesis Hok : classes_ok cs.

(* pop(): the removed item, re-attached to a fresh store that holds exactly its tokens, is a complete,
   self-contained tree with the same property; and the tree it was removed from keeps the property *)
Theorem pop_selfcontained : forall root p f i x root' fresh_store,
  HWF cs root -> remove_item root p f i = Some (x, root') -> conforms cs x = true ->
  let x' := reattach cs fresh_store x in
  HWF cs x' /\ WF cs x' /\ whole_store x' (node_toks x)
  /\ (forall s, In s (sids x') -> s = fresh_store)
  /\ leaves x' = leaves x
  /\ HWF cs root' /\ WF cs root'.
Proof.
  intros root p f i x root' fresh_store Hroot Hrem Hc x'.
  destruct (remove_item_ok cs Hok root p f i x root' Hroot Hrem) as (A & B & Hx & _ & _ & _).
  assert (Hx' : HWF cs x') by (apply reattach_HWF; assumption).
  split; [exact Hx'|]. split; [exact (HWF_WF cs x' Hx')|]. split.
  - exists [], []. unfold x'. rewrite reattach_toks, app_nil_r. simpl. split; [reflexivity|]. split; intros t [].
  - split; [apply reattach_sids; assumption|]. split; [apply reattach_leaves|]. auto.
Qed.
End Pop.

(* ---- edits and histories ------------------------------------------------------------------------------------ *)
Section History.
Variable cs : classes_t.
Hypothesis Hok : classes_ok cs.

(* a free-standing tree that may be put into another one: hereditarily well-formed, conforming, not a File *)
Definition donor (y : node) : Prop := HWF cs y /\ conforms cs y = true /\ exempt (UNode y) = false.

Lemma donor_sub_ok : forall s y, donor y -> sub_ok cs s (reattach cs s y).
Proof.
  intros s y (H1 & H2 & H3). split; [apply reattach_HWF; assumption|]. split; [rewrite exempt_reattach; exact H3|].
  intros c0 s0 T0 k0 d0 E. destruct y as [t|c1 s1 T1 k1 d1]; [discriminate|].
  pose proof (root_sid_reattach cs s Hok c1 s1 T1 k1 d1 H2) as Hs. rewrite E in Hs. exact Hs.
Qed.

Definition fresh_for (N : list tk) (root : node) : Prop :=
  forall t t', In t N -> In t' (node_toks root) -> k_id t <> k_id t'.

Inductive edit : node -> node -> Prop :=
| edit_replace : forall root p old y root',        (* replace_node / setting a required or present field *)
    select root p = Some old -> donor y -> fresh_for (node_toks y) root ->
    plug root p (reattach cs (root_sid root) y) = Some root' -> edit root root'
| edit_insert : forall root p f i seps y root',    (* RepeatedNodeWrapper.insert / append / extend (one by one) *)
    donor y -> glue_ok seps -> NoDup (ids (seps ++ node_toks y)) -> fresh_for (seps ++ node_toks y) root ->
    insert_item root p f i seps (reattach cs (root_sid root) y) = Some root' -> edit root root'
| edit_remove : forall root p f i x root',         (* RepeatedNodeWrapper.pop / __delitem__ / clear (one by one) *)
    remove_item root p f i = Some (x, root') -> edit root root'.

Inductive edits : node -> node -> Prop :=
| edits_nil : forall root, edits root root
| edits_cons : forall a b c, edit a b -> edits b c -> edits a c.

Theorem edit_HWF : forall a b, HWF cs a -> edit a b -> HWF cs b.
Proof.
  intros a b Ha He. destruct He as [root p old y root' Hsel Hy Hfr Hplug|root p f i seps y root' Hy Hg Hnd Hfr Hins|root p f i x root' Hrem].
  - destruct (donor_sub_ok (root_sid root) y Hy) as (H1 & H2 & H3).
    destruct (replace_subtree cs Hok p root _ root' old (root_sid root) Ha Hsel Hplug H1 H2 H3 (fun _ => eq_refl)) as (A & _).
    + intros t t' Ht Ht'. rewrite reattach_toks in Ht. apply Hfr; assumption.
    + exact A.
  - destruct (insert_item_ok cs Hok root p f i seps _ root' Ha Hins (donor_sub_ok _ y Hy) Hg) as (A & _).
    + rewrite reattach_toks. exact Hnd.
    + intros t t' Ht Ht'. rewrite reattach_toks in Ht. apply Hfr; assumption.
    + exact A.
  - exact (proj1 (remove_item_ok cs Hok root p f i x root' Ha Hrem)).
Qed.

Theorem history_HWF : forall a b, HWF cs a -> edits a b -> HWF cs b /\ WF cs b.
Proof.
  intros a b Ha He. induction He as [root|a b c Hab Hbc IH].
  - split; [exact Ha|apply HWF_WF; exact Ha].
  - apply IH. eapply edit_HWF; eauto.
Qed.
End History.
