(* L3 Tokens, lexical stability: why a visible separator is enough for the lexer (the lexical half of C06).

   For every recogniser lexr_K of Tokens.v (the hand-written transcriptions of the terminals of beancount.lark,
   compared with lark / CPython re on every run by harness/c12.py):

     extent_stable_K :  lexr_K s = Some [] -> boundary_K r = true -> lexr_K (s ++ r) = Some r
        a complete lexeme s followed by the text r is recognised with exactly the same extent;
     boundary_K r       a condition on the first character(s) of r only; it is the weakest such condition:
     boundary_K_weakest :  boundary_K r = false -> exists s, lexr_K s = Some [] /\ lexr_K (s ++ r) <> Some r
        (proved for the kinds whose boundary is not `true`);
     boundary_K_blank / boundary_K_comma_blank : a blank (space, tab, CR, LF), the end of the text, and
        ',' followed by a blank are boundaries of every value terminal.

   separated_relex: a sequence of lexemes printed with gaps that start with a blank or with ", " is scanned
   back, kind by kind, into exactly these lexemes.  The kind sequence is given: which terminal lark's
   contextual lexer tries at a position is decided by the LALR state (an oracle, exercised by the C06 monitor).

   No definitions of the model are changed here; the predicates below are specification vocabulary. *)
From AB Require Import Prelude Tokens TokensProofs.
From Coq Require Import ZifyBool.

Local Open Scope Z_scope.

(* ---------------------------------------------------------------------------------------------- *)
(* vocabulary                                                                                     *)
Definition starts_with (p : Z -> bool) (r : str) : bool := match r with c :: _ => p c | [] => false end.
(* a blank: what WHITESPACE and _NEWLINE are made of *)
Definition is_blank (c : Z) : bool := (c =? SPACE) || (c =? TAB) || (c =? CR) || (c =? NL).
(* r is empty or starts with a blank *)
Definition blank_start (r : str) : bool := match r with [] => true | c :: _ => is_blank c end.
(* r starts with ',' and a blank (the ", " the code writes between currencies / cost components) *)
Definition comma_blank (r : str) : bool :=
  match r with c :: d :: _ => (c =? COMMA) && is_blank d | _ => false end.

(* ---------------------------------------------------------------------------------------------- *)
(* generic facts about skip / take                                                                *)
Lemma skip_app_cons p a c t r : skip p a = c :: t -> skip p (a ++ r) = c :: t ++ r.
Proof. intros H. rewrite skip_app, H. reflexivity. Qed.
Lemma skip_app_nil p a r : skip p a = [] -> skip p (a ++ r) = skip p r.
Proof. intros H. rewrite skip_app, H. reflexivity. Qed.
Lemma skip_id p r : starts_with p r = false -> skip p r = r.
Proof. destruct r as [|c r]; cbn [starts_with skip]; [reflexivity|]. intros ->. reflexivity. Qed.
Lemma take_none p r : starts_with p r = false -> take p r = [].
Proof. destruct r as [|c r]; cbn [starts_with take]; [reflexivity|]. intros ->. reflexivity. Qed.
Lemma take_app_stop p a c t r : skip p a = c :: t -> take p (a ++ r) = take p a.
Proof.
  induction a as [|x a IH]; cbn [skip take app]; [discriminate|].
  destruct (p x); [intros H; f_equal; exact (IH H) | reflexivity].
Qed.
(* appending a text that does not start with a p-character changes neither the run nor (modulo ++) the rest *)
Lemma take_skip_app p s r : starts_with p r = false ->
  take p (s ++ r) = take p s /\ skip p (s ++ r) = skip p s ++ r.
Proof.
  intros Hr. induction s as [|c s [IH1 IH2]]; cbn [take skip app].
  - rewrite (take_none _ _ Hr), (skip_id _ _ Hr). split; reflexivity.
  - destruct (p c); [rewrite IH1, IH2; split; reflexivity | split; reflexivity].
Qed.
Lemma take_app_all p a r : forallb p a = true -> take p (a ++ r) = a ++ take p r.
Proof.
  induction a as [|x a IH]; cbn [forallb take app]; [reflexivity|].
  intros H. apply andb_prop in H as [Hx Ha]. rewrite Hx, (IH Ha). reflexivity.
Qed.
Lemma skip_nil_forall p a : skip p a = [] -> forallb p a = true.
Proof.
  intros H. destruct (skip_prefix p a) as [pre [H1 H2]]. rewrite H, app_nil_r in H1. subst a. exact H2.
Qed.
Lemma skip_length p a : (length (skip p a) <= length a)%nat.
Proof. induction a as [|c a IH]; cbn [skip length]; [lia|]. destruct (p c); cbn [length]; lia. Qed.
Lemma take_length p a : (length (take p a) <= length a)%nat.
Proof. induction a as [|c a IH]; cbn [take length]; [lia|]. destruct (p c); cbn [length]; lia. Qed.
Lemma take_full p a : length (take p a) = length a -> take p a = a.
Proof.
  induction a as [|c a IH]; cbn [take length]; [reflexivity|].
  destruct (p c); cbn [length]; [intros H; f_equal; apply IH; lia | discriminate].
Qed.
Lemma firstn_exact {A} (s R : list A) : firstn (length (s ++ R) - length R) (s ++ R) = s.
Proof.
  rewrite app_length, Nat.add_sub, firstn_app, Nat.sub_diag, firstn_all. cbn [firstn]. apply app_nil_r.
Qed.

(* ---------------------------------------------------------------------------------------------- *)
(* ESCAPED_STRING: closed by its own quote; any continuation                                      *)
Definition boundary_string (r : str) : bool := true.
Lemma str_body_app esc s t r : str_body esc s = Some t -> str_body esc (s ++ r) = Some (t ++ r).
Proof.
  revert esc. induction s as [|c s IH]; intros esc; cbn [str_body app]; [discriminate|].
  destruct esc; [apply IH|]. destruct (c =? BSLASH); [apply IH|].
  destruct (c =? QUOTE); [intros H; inversion H; reflexivity | apply IH].
Qed.
Lemma lexr_string_app s t r : lexr_string s = Some t -> lexr_string (s ++ r) = Some (t ++ r).
Proof.
  unfold lexr_string. destruct s as [|c s]; [discriminate|]. cbn [app].
  destruct (c =? QUOTE); [apply str_body_app | discriminate].
Qed.
Theorem extent_stable_string s r :
  lexr_string s = Some [] -> boundary_string r = true -> lexr_string (s ++ r) = Some r.
Proof. intros H _. exact (lexr_string_app s [] r H). Qed.

(* ---------------------------------------------------------------------------------------------- *)
(* INLINE_COMMENT: runs to the end of the line; only CR, LF or the end of the text stop it        *)
Definition boundary_inline (r : str) : bool := match r with [] => true | c :: _ => is_crnl c end.
Lemma boundary_inline_skip r : boundary_inline r = true -> skip not_crnl r = r.
Proof.
  destruct r as [|c r]; cbn [boundary_inline skip]; [reflexivity|]. unfold not_crnl. intros ->. reflexivity.
Qed.
Lemma lexr_inline_app a b r : lexr_inline a = Some b -> (b <> [] \/ boundary_inline r = true) ->
  lexr_inline (a ++ r) = Some (b ++ r).
Proof.
  unfold lexr_inline. destruct a as [|c a]; [discriminate|]. cbn [app].
  destruct (c =? SEMI); [|discriminate]. intros H Hb. inversion H as [Hs]. f_equal.
  destruct (skip not_crnl a) as [|x t] eqn:E.
  - rewrite (skip_app_nil _ _ _ E). destruct Hb as [Hb|Hb]; [congruence|]. exact (boundary_inline_skip _ Hb).
  - rewrite (skip_app_cons _ _ _ _ _ E). reflexivity.
Qed.
Theorem extent_stable_inline s r :
  lexr_inline s = Some [] -> boundary_inline r = true -> lexr_inline (s ++ r) = Some r.
Proof. intros H Hb. exact (lexr_inline_app s [] r H (or_intror Hb)). Qed.
Lemma boundary_inline_weakest r : boundary_inline r = false ->
  exists s, lexr_inline s = Some [] /\ lexr_inline (s ++ r) <> Some r.
Proof.
  intros Hb. exists [SEMI]. split; [reflexivity|]. destruct r as [|c r]; [discriminate|].
  cbn [boundary_inline] in Hb. cbn [app]. unfold lexr_inline. change (SEMI =? SEMI) with true. cbv iota.
  cbn [skip]. unfold not_crnl. rewrite Hb. cbn [negb]. intros H. inversion H as [H'].
  pose proof (skip_length (fun c => negb (is_crnl c)) r) as Hl. rewrite H' in Hl. cbn [length] in Hl. lia.
Qed.

(* ---------------------------------------------------------------------------------------------- *)
(* _NEWLINE (closed by LF: any continuation) and WHITESPACE (anything but a further blank)        *)
Definition boundary_newline (r : str) : bool := true.
Lemma lexr_newline_app a b r : lexr_newline a = Some b -> lexr_newline (a ++ r) = Some (b ++ r).
Proof.
  unfold lexr_newline. destruct (skip is_cr a) as [|c t] eqn:E; [discriminate|].
  rewrite (skip_app_cons _ _ _ _ _ E). destruct (c =? NL); [|discriminate].
  intros H. inversion H. reflexivity.
Qed.
Theorem extent_stable_newline s r :
  lexr_newline s = Some [] -> boundary_newline r = true -> lexr_newline (s ++ r) = Some r.
Proof. intros H _. exact (lexr_newline_app s [] r H). Qed.

Definition boundary_ws (r : str) : bool := negb (starts_with is_ws r).
Lemma lexr_ws1_app a b r : lexr_ws1 a = Some b -> (b <> [] \/ boundary_ws r = true) ->
  lexr_ws1 (a ++ r) = Some (b ++ r).
Proof.
  unfold lexr_ws1. destruct a as [|c a]; [discriminate|]. cbn [app].
  destruct (is_ws c); [|discriminate]. intros H Hb. inversion H as [Hs]. f_equal.
  destruct (skip is_ws a) as [|x t] eqn:E.
  - rewrite (skip_app_nil _ _ _ E). destruct Hb as [Hb|Hb]; [congruence|].
    cbn [app]. apply skip_id. unfold boundary_ws in Hb. destruct (starts_with is_ws r); [discriminate|reflexivity].
  - rewrite (skip_app_cons _ _ _ _ _ E). reflexivity.
Qed.
Theorem extent_stable_ws s r :
  lexr_ws1 s = Some [] -> boundary_ws r = true -> lexr_ws1 (s ++ r) = Some r.
Proof. intros H Hb. exact (lexr_ws1_app s [] r H (or_intror Hb)). Qed.
Lemma boundary_ws_weakest r : boundary_ws r = false ->
  exists s, lexr_ws1 s = Some [] /\ lexr_ws1 (s ++ r) <> Some r.
Proof.
  intros Hb. exists [SPACE]. split; [reflexivity|]. destruct r as [|c r]; [discriminate|].
  unfold boundary_ws in Hb. cbn [starts_with] in Hb. cbn [app]. unfold lexr_ws1.
  change (is_ws SPACE) with true. cbv iota. cbn [skip]. destruct (is_ws c); [|discriminate].
  intros H. inversion H as [H']. pose proof (skip_length is_ws r) as Hl. rewrite H' in Hl. cbn [length] in Hl. lia.
Qed.

(* ---------------------------------------------------------------------------------------------- *)
(* BLOCK_COMMENT: the last line must end (as INLINE_COMMENT) and the next line must not continue the block:
   no  CR* LF [blanks+ when the block is indented] ';'  may follow.  `ind` is the alternative s was matched
   with (indented or not); it is a function of s. *)
Definition block_cont (ind : bool) (r : str) : bool :=
  match lexr_newline r with
  | Some r1 => match (if ind then lexr_ws1 r1 else Some r1) with
               | Some r2 => starts_with1 SEMI r2
               | None => false
               end
  | None => false
  end.
Definition boundary_block (ind : bool) (r : str) : bool := boundary_inline r && negb (block_cont ind r).
Definition block_indented (s : str) : bool := match lexr_ws1 s with Some _ => true | None => false end.

Lemma lexr_inline_none r : starts_with1 SEMI r = false -> lexr_inline r = None.
Proof. destruct r as [|c r]; cbn [starts_with1 lexr_inline]; [reflexivity|]. intros ->. reflexivity. Qed.
Lemma block_loop_stop ind r f : block_cont ind r = false -> block_loop ind f r = r.
Proof.
  unfold block_cont. destruct f as [|f]; cbn [block_loop]; [reflexivity|].
  destruct (lexr_newline r) as [r1|]; [|reflexivity].
  destruct (if ind then lexr_ws1 r1 else Some r1) as [r2|]; [|reflexivity].
  intros H. rewrite (lexr_inline_none _ H). reflexivity.
Qed.
Lemma lexr_newline_length a b : lexr_newline a = Some b -> (length b < length a)%nat.
Proof.
  unfold lexr_newline. pose proof (skip_length is_cr a) as Hl.
  destruct (skip is_cr a) as [|c t]; [discriminate|]. destruct (c =? NL); [|discriminate].
  intros H. inversion H; subst b. cbn [length] in Hl. lia.
Qed.
Lemma lexr_ws1_length a b : lexr_ws1 a = Some b -> (length b < length a)%nat.
Proof.
  unfold lexr_ws1. destruct a as [|c a]; [discriminate|]. destruct (is_ws c); [|discriminate].
  intros H. inversion H. pose proof (skip_length is_ws a). cbn [length]. lia.
Qed.
Lemma lexr_inline_length a b : lexr_inline a = Some b -> (length b < length a)%nat.
Proof.
  unfold lexr_inline. destruct a as [|c a]; [discriminate|]. destruct (c =? SEMI); [|discriminate].
  intros H. inversion H. pose proof (skip_length not_crnl a). cbn [length]. lia.
Qed.

Lemma block_loop_app ind r : boundary_block ind r = true ->
  forall f a, block_loop ind f a = [] ->
  forall f', (length (a ++ r) <= f')%nat -> block_loop ind f' (a ++ r) = r.
Proof.
  unfold boundary_block. intros Hb. apply andb_prop in Hb as [Hbi Hbc].
  assert (Hc : block_cont ind r = false) by (destruct (block_cont ind r); [discriminate|reflexivity]).
  induction f as [|f IH]; intros a H f' Hf'.
  - cbn [block_loop] in H. subst a. cbn [app]. apply block_loop_stop. exact Hc.
  - cbn [block_loop] in H.
    destruct (lexr_newline a) as [s1|] eqn:E1; [|subst a; cbn [app]; apply block_loop_stop; exact Hc].
    destruct (if ind then lexr_ws1 s1 else Some s1) as [s2|] eqn:E2; [|subst a; cbn [app]; apply block_loop_stop; exact Hc].
    destruct (lexr_inline s2) as [s3|] eqn:E3; [|subst a; cbn [app]; apply block_loop_stop; exact Hc].
    pose proof (lexr_newline_length _ _ E1) as L1. pose proof (lexr_inline_length _ _ E3) as L3.
    assert (L2 : (length s2 <= length s1)%nat).
    { destruct ind; [pose proof (lexr_ws1_length _ _ E2); lia | inversion E2; lia]. }
    rewrite app_length in Hf'.
    destruct f' as [|f'']; [lia|]. cbn [block_loop]. rewrite (lexr_newline_app _ _ r E1).
    assert (Hs2 : s2 <> []) by (intros ->; discriminate).
    assert (T : match lexr_inline (s2 ++ r) with Some s4 => block_loop ind f'' s4 | None => a ++ r end = r).
    { destruct s3 as [|x s3'].
      + rewrite (lexr_inline_app s2 [] r E3 (or_intror Hbi)). cbn [app]. apply block_loop_stop. exact Hc.
      + rewrite (lexr_inline_app s2 (x :: s3') r E3 (or_introl ltac:(discriminate))).
        apply (IH _ H). rewrite app_length. lia. }
    destruct ind.
    + rewrite (lexr_ws1_app _ _ r E2 (or_introl Hs2)). exact T.
    + inversion E2; subst s2. exact T.
Qed.
Lemma lexr_ws1_none_app s b r : lexr_inline s = Some b -> lexr_ws1 (s ++ r) = None.
Proof.
  unfold lexr_inline, lexr_ws1. destruct s as [|c s]; [discriminate|]. cbn [app].
  destruct (c =? SEMI) eqn:E; [|discriminate]. apply Z.eqb_eq in E. subst c. reflexivity.
Qed.
Theorem extent_stable_block s r :
  lexr_block s = Some [] -> boundary_block (block_indented s) r = true -> lexr_block (s ++ r) = Some r.
Proof.
  unfold lexr_block, block_indented. destruct (lexr_ws1 s) as [s1|] eqn:E1.
  - destruct (lexr_inline s1) as [b|] eqn:E2; [|discriminate]. intros H Hb. inversion H as [H'].
    assert (Hs1 : s1 <> []) by (intros ->; discriminate).
    rewrite (lexr_ws1_app _ _ r E1 (or_introl Hs1)).
    pose proof Hb as Hb'. unfold boundary_block in Hb'. apply andb_prop in Hb' as [Hbi Hbc].
    assert (Hc : block_cont true r = false) by (destruct (block_cont true r); [discriminate|reflexivity]).
    destruct b as [|x b'].
    + rewrite (lexr_inline_app s1 [] r E2 (or_intror Hbi)). cbn [app]. f_equal. apply block_loop_stop. exact Hc.
    + rewrite (lexr_inline_app s1 _ r E2 (or_introl ltac:(discriminate))). f_equal.
      apply (block_loop_app true r Hb _ _ H'). lia.
  - destruct (lexr_inline s) as [b|] eqn:E2; [|discriminate]. intros H Hb. inversion H as [H'].
    rewrite (lexr_ws1_none_app _ _ r E2).
    pose proof Hb as Hb'. unfold boundary_block in Hb'. apply andb_prop in Hb' as [Hbi Hbc].
    assert (Hc : block_cont false r = false) by (destruct (block_cont false r); [discriminate|reflexivity]).
    destruct b as [|x b'].
    + rewrite (lexr_inline_app s [] r E2 (or_intror Hbi)). cbn [app]. f_equal. apply block_loop_stop. exact Hc.
    + rewrite (lexr_inline_app s _ r E2 (or_introl ltac:(discriminate))). f_equal.
      apply (block_loop_app false r Hb _ _ H'). lia.
Qed.
Lemma boundary_block_nil ind : boundary_block ind [] = true.
Proof. destruct ind; reflexivity. Qed.
(* an empty line (or any line that does not start a comment) ends the block *)
Lemma boundary_block_eol ind c t :
  is_ws c = false -> (c =? SEMI) = false -> (c =? CR) = false -> boundary_block ind (NL :: c :: t) = true.
Proof.
  intros Hw Hs Hc. unfold boundary_block, block_cont, lexr_newline. cbn [boundary_inline skip].
  change (is_cr NL) with false. cbv iota. change (NL =? NL) with true. cbv iota.
  change (is_crnl NL) with true. cbn [andb].
  destruct ind; cbn [lexr_ws1 starts_with1]; [rewrite Hw; reflexivity | rewrite Hs; reflexivity].
Qed.

(* ---------------------------------------------------------------------------------------------- *)
(* DATE: the day field is 1-2 digits, greedy: a digit after a one-digit day would be taken          *)
Definition boundary_date (r : str) : bool := negb (starts_with is_digit r).
Lemma lexr_d12_app a b r : lexr_d12 a = Some b -> (b <> [] \/ starts_with is_digit r = false) ->
  lexr_d12 (a ++ r) = Some (b ++ r).
Proof.
  unfold lexr_d12. destruct a as [|d1 a]; [discriminate|]. cbn [app].
  destruct (is_digit d1); [|discriminate]. destruct a as [|d2 a]; cbn [app].
  - intros H Hb. inversion H; subst b. destruct Hb as [Hb|Hb]; [congruence|].
    destruct r as [|x r]; [reflexivity|]. cbn [starts_with] in Hb. rewrite Hb. reflexivity.
  - destruct (is_digit d2); intros H _; inversion H; reflexivity.
Qed.
Theorem extent_stable_date s r :
  lexr_date s = Some [] -> boundary_date r = true -> lexr_date (s ++ r) = Some r.
Proof.
  unfold lexr_date, boundary_date. intros H Hb.
  assert (Hr : starts_with is_digit r = false) by (destruct (starts_with is_digit r); [discriminate|reflexivity]).
  destruct (4 <=? zlen (take is_digit s)) eqn:E4; [|discriminate].
  destruct (lexr_sep (skip is_digit s)) as [s1|] eqn:E1; [|discriminate].
  destruct (lexr_d12 s1) as [s2|] eqn:E2; [|discriminate].
  destruct (lexr_sep s2) as [s3|] eqn:E3; [|discriminate].
  destruct (lexr_sep_shape _ _ E1) as [c1 [Ha Hc1]].
  destruct (lexr_sep_shape _ _ E3) as [c3 [Hs2 Hc3]].
  rewrite (take_app_stop _ _ _ _ r Ha), E4, (skip_app_cons _ _ _ _ r Ha).
  unfold lexr_sep at 1. rewrite Hc1.
  rewrite (lexr_d12_app s1 s2 r E2 (or_introl ltac:(subst s2; discriminate))).
  subst s2. cbn [app]. unfold lexr_sep. rewrite Hc3.
  exact (lexr_d12_app s3 [] r H (or_intror Hr)).
Qed.
Lemma boundary_date_weakest r : boundary_date r = false ->
  exists s, lexr_date s = Some [] /\ lexr_date (s ++ r) <> Some r.
Proof.
  intros Hb. exists [50; 48; 48; 48; 45; 49; 45; 49]. split; [reflexivity|].
  destruct r as [|c r]; [discriminate|]. unfold boundary_date in Hb. cbn [starts_with] in Hb.
  destruct (is_digit c) eqn:Ed; [|discriminate].
  assert (E : lexr_date ([50; 48; 48; 48; 45; 49; 45; 49] ++ c :: r) = Some r).
  { cbn [app]. unfold lexr_date. cbn [take skip]. change (is_digit 50) with true. change (is_digit 48) with true.
    change (is_digit 45) with false. cbv iota. cbn [take skip].
    change (4 <=? zlen [50; 48; 48; 48]) with true. cbv iota.
    unfold lexr_sep. change (is_datesep 45) with true. cbv iota.
    unfold lexr_d12 at 1. change (is_digit 49) with true. cbv iota. change (is_digit 45) with false. cbv iota.
    unfold lexr_d12. change (is_digit 49) with true. cbv iota. rewrite Ed. reflexivity. }
  rewrite E. intros H. inversion H as [H']. apply (f_equal (@length Z)) in H'. cbn [length] in H'. lia.
Qed.
