(* L3 Tokens, lexical stability: why a visible separator is enough for the lexer (the lexical half of C06).

   For every recogniser lexr_K of Tokens.v (the hand-written transcriptions of the terminals of beancount.lark,
   compared with lark / CPython re on every run by harness/c12.py):

     extent_stable_K :  lexr_K s = Some [] -> boundary_K r = true -> lexr_K (s ++ r) = Some r
        a complete lexeme s followed by the text r is recognised with exactly the same extent;
     boundary_K r       a condition on the first character(s) of r only; it is the weakest such condition:
     boundary_K_weakest :  boundary_K r = false -> exists s, lexr_K s = Some [] /\ lexr_K (s ++ r) <> Some r
        (proved for INLINE_COMMENT, WHITESPACE, DATE, NUMBER, TAG, LINK, ACCOUNT, CURRENCY; the other boundaries
        are `true`, except BLOCK_COMMENT's, for which only sufficiency is proved);
     boundary_K_sep, blank_is_boundary : a blank (space, tab, CR, LF), the end of the text, and ',' followed by
        a blank are boundaries of every value terminal (a comment ends at the line end only; WHITESPACE and
        BLOCK_COMMENT have their own boundaries).
   BLOCK_COMMENT's boundary depends on which alternative matched s (indented or not): boundary_block (block_indented s).
   DATE's boundary is the weakest condition on r alone; after a two-digit day any r keeps the extent (lexr_d12_app).

   separated_relex: a sequence of lexemes printed with gaps that start with a blank or with ", " is scanned
   back, kind by kind, into exactly these lexemes.  The kind sequence is given: which terminal lark's
   contextual lexer tries at a position is decided by the LALR state (an oracle, exercised by the C06 monitor).

   No definitions of the model are changed here; the predicates below are specification vocabulary. *)
From AB Require Import Prelude Tokens TokensProofs.
From Coq Require Import ZifyBool.

Local Open Scope Z_scope.

(* ---------------------------------------------------------------------------------------------- *)
(* vocabulary                                                                                     *)
Definition starts_with (p : Z -> bool) (r : str) : bool := match r with c :: _ => p c | [] => false end.
(* a blank: what WHITESPACE and _NEWLINE are made of *)
Definition is_blank (c : Z) : bool := (c =? SPACE) || (c =? TAB) || (c =? CR) || (c =? NL).
(* r is empty or starts with a blank *)
Definition blank_start (r : str) : bool := match r with [] => true | c :: _ => is_blank c end.
(* r starts with ',' and a blank (the ", " the code writes between currencies / cost components) *)
Definition comma_blank (r : str) : bool :=
  match r with c :: d :: _ => (c =? COMMA) && is_blank d | _ => false end.

(* ---------------------------------------------------------------------------------------------- *)
(* generic facts about skip / take                                                                *)
Lemma skip_app_cons p a c t r : skip p a = c :: t -> skip p (a ++ r) = c :: t ++ r.
Proof. intros H. rewrite skip_app, H. reflexivity. Qed.
Lemma skip_app_nil p a r : skip p a = [] -> skip p (a ++ r) = skip p r.
Proof. intros H. rewrite skip_app, H. reflexivity. Qed.
Lemma skip_id p r : starts_with p r = false -> skip p r = r.
Proof. destruct r as [|c r]; cbn [starts_with skip]; [reflexivity|]. intros ->. reflexivity. Qed.
Lemma take_none p r : starts_with p r = false -> take p r = [].
Proof. destruct r as [|c r]; cbn [starts_with take]; [reflexivity|]. intros ->. reflexivity. Qed.
Lemma take_app_stop p a c t r : skip p a = c :: t -> take p (a ++ r) = take p a.
Proof.
  induction a as [|x a IH]; cbn [skip take app]; [discriminate|].
  destruct (p x); [intros H; f_equal; exact (IH H) | reflexivity].
Qed.
(* appending a text that does not start with a p-character changes neither the run nor (modulo ++) the rest *)
Lemma take_skip_app p s r : starts_with p r = false ->
  take p (s ++ r) = take p s /\ skip p (s ++ r) = skip p s ++ r.
Proof.
  intros Hr. induction s as [|c s [IH1 IH2]]; cbn [take skip app].
  - rewrite (take_none _ _ Hr), (skip_id _ _ Hr). split; reflexivity.
  - destruct (p c); [rewrite IH1, IH2; split; reflexivity | split; reflexivity].
Qed.
Lemma take_app_all p a r : forallb p a = true -> take p (a ++ r) = a ++ take p r.
Proof.
  induction a as [|x a IH]; cbn [forallb take app]; [reflexivity|].
  intros H. apply andb_prop in H as [Hx Ha]. rewrite Hx, (IH Ha). reflexivity.
Qed.
Lemma skip_nil_forall p a : skip p a = [] -> forallb p a = true.
Proof.
  intros H. destruct (skip_prefix p a) as [pre [H1 H2]]. rewrite H, app_nil_r in H1. subst a. exact H2.
Qed.
Lemma skip_length p a : (length (skip p a) <= length a)%nat.
Proof. induction a as [|c a IH]; cbn [skip length]; [lia|]. destruct (p c); cbn [length]; lia. Qed.
Lemma take_length p a : (length (take p a) <= length a)%nat.
Proof. induction a as [|c a IH]; cbn [take length]; [lia|]. destruct (p c); cbn [length]; lia. Qed.
Lemma take_full p a : length (take p a) = length a -> take p a = a.
Proof.
  induction a as [|c a IH]; cbn [take length]; [reflexivity|].
  destruct (p c); cbn [length]; [intros H; f_equal; apply IH; lia | discriminate].
Qed.
Lemma firstn_exact {A} (s R : list A) : firstn (length (s ++ R) - length R) (s ++ R) = s.
Proof.
  rewrite app_length, Nat.add_sub, firstn_app, Nat.sub_diag, firstn_all. cbn [firstn]. apply app_nil_r.
Qed.

(* ---------------------------------------------------------------------------------------------- *)
(* ESCAPED_STRING: closed by its own quote; any continuation                                      *)
Definition boundary_string (r : str) : bool := true.
Lemma str_body_app esc s t r : str_body esc s = Some t -> str_body esc (s ++ r) = Some (t ++ r).
Proof.
  revert esc. induction s as [|c s IH]; intros esc; cbn [str_body app]; [discriminate|].
  destruct esc; [apply IH|]. destruct (c =? BSLASH); [apply IH|].
  destruct (c =? QUOTE); [intros H; inversion H; reflexivity | apply IH].
Qed.
Lemma lexr_string_app s t r : lexr_string s = Some t -> lexr_string (s ++ r) = Some (t ++ r).
Proof.
  unfold lexr_string. destruct s as [|c s]; [discriminate|]. cbn [app].
  destruct (c =? QUOTE); [apply str_body_app | discriminate].
Qed.
Theorem extent_stable_string s r :
  lexr_string s = Some [] -> boundary_string r = true -> lexr_string (s ++ r) = Some r.
Proof. intros H _. exact (lexr_string_app s [] r H). Qed.

(* ---------------------------------------------------------------------------------------------- *)
(* INLINE_COMMENT: runs to the end of the line; only CR, LF or the end of the text stop it        *)
Definition boundary_inline (r : str) : bool := match r with [] => true | c :: _ => is_crnl c end.
Lemma boundary_inline_skip r : boundary_inline r = true -> skip not_crnl r = r.
Proof.
  destruct r as [|c r]; cbn [boundary_inline skip]; [reflexivity|]. unfold not_crnl. intros ->. reflexivity.
Qed.
Lemma lexr_inline_app a b r : lexr_inline a = Some b -> (b <> [] \/ boundary_inline r = true) ->
  lexr_inline (a ++ r) = Some (b ++ r).
Proof.
  unfold lexr_inline. destruct a as [|c a]; [discriminate|]. cbn [app].
  destruct (c =? SEMI); [|discriminate]. intros H Hb. inversion H as [Hs]. f_equal.
  destruct (skip not_crnl a) as [|x t] eqn:E.
  - rewrite (skip_app_nil _ _ _ E). destruct Hb as [Hb|Hb]; [congruence|]. exact (boundary_inline_skip _ Hb).
  - rewrite (skip_app_cons _ _ _ _ _ E). reflexivity.
Qed.
Theorem extent_stable_inline s r :
  lexr_inline s = Some [] -> boundary_inline r = true -> lexr_inline (s ++ r) = Some r.
Proof. intros H Hb. exact (lexr_inline_app s [] r H (or_intror Hb)). Qed.
Lemma boundary_inline_weakest r : boundary_inline r = false ->
  exists s, lexr_inline s = Some [] /\ lexr_inline (s ++ r) <> Some r.
Proof.
  intros Hb. exists [SEMI]. split; [reflexivity|]. destruct r as [|c r]; [discriminate|].
  cbn [boundary_inline] in Hb. cbn [app]. unfold lexr_inline. change (SEMI =? SEMI) with true. cbv iota.
  cbn [skip]. unfold not_crnl. rewrite Hb. cbn [negb]. intros H. inversion H as [H'].
  pose proof (skip_length (fun c => negb (is_crnl c)) r) as Hl. rewrite H' in Hl. cbn [length] in Hl. lia.
Qed.

(* ---------------------------------------------------------------------------------------------- *)
(* _NEWLINE (closed by LF: any continuation) and WHITESPACE (anything but a further blank)        *)
Definition boundary_newline (r : str) : bool := true.
Lemma lexr_newline_app a b r : lexr_newline a = Some b -> lexr_newline (a ++ r) = Some (b ++ r).
Proof.
  unfold lexr_newline. destruct (skip is_cr a) as [|c t] eqn:E; [discriminate|].
  rewrite (skip_app_cons _ _ _ _ _ E). destruct (c =? NL); [|discriminate].
  intros H. inversion H. reflexivity.
Qed.
Theorem extent_stable_newline s r :
  lexr_newline s = Some [] -> boundary_newline r = true -> lexr_newline (s ++ r) = Some r.
Proof. intros H _. exact (lexr_newline_app s [] r H). Qed.

Definition boundary_ws (r : str) : bool := negb (starts_with is_ws r).
Lemma lexr_ws1_app a b r : lexr_ws1 a = Some b -> (b <> [] \/ boundary_ws r = true) ->
  lexr_ws1 (a ++ r) = Some (b ++ r).
Proof.
  unfold lexr_ws1. destruct a as [|c a]; [discriminate|]. cbn [app].
  destruct (is_ws c); [|discriminate]. intros H Hb. inversion H as [Hs]. f_equal.
  destruct (skip is_ws a) as [|x t] eqn:E.
  - rewrite (skip_app_nil _ _ _ E). destruct Hb as [Hb|Hb]; [congruence|].
    cbn [app]. apply skip_id. unfold boundary_ws in Hb. destruct (starts_with is_ws r); [discriminate|reflexivity].
  - rewrite (skip_app_cons _ _ _ _ _ E). reflexivity.
Qed.
Theorem extent_stable_ws s r :
  lexr_ws1 s = Some [] -> boundary_ws r = true -> lexr_ws1 (s ++ r) = Some r.
Proof. intros H Hb. exact (lexr_ws1_app s [] r H (or_intror Hb)). Qed.
Lemma boundary_ws_weakest r : boundary_ws r = false ->
  exists s, lexr_ws1 s = Some [] /\ lexr_ws1 (s ++ r) <> Some r.
Proof.
  intros Hb. exists [SPACE]. split; [reflexivity|]. destruct r as [|c r]; [discriminate|].
  unfold boundary_ws in Hb. cbn [starts_with] in Hb. cbn [app]. unfold lexr_ws1.
  change (is_ws SPACE) with true. cbv iota. cbn [skip]. destruct (is_ws c); [|discriminate].
  intros H. inversion H as [H']. pose proof (skip_length is_ws r) as Hl. rewrite H' in Hl. cbn [length] in Hl. lia.
Qed.

(* ---------------------------------------------------------------------------------------------- *)
(* BLOCK_COMMENT: the last line must end (as INLINE_COMMENT) and the next line must not continue the block:
   no  CR* LF [blanks+ when the block is indented] ';'  may follow.  `ind` is the alternative s was matched
   with (indented or not); it is a function of s. *)
Definition block_cont (ind : bool) (r : str) : bool :=
  match lexr_newline r with
  | Some r1 => match (if ind then lexr_ws1 r1 else Some r1) with
               | Some r2 => starts_with1 SEMI r2
               | None => false
               end
  | None => false
  end.
Definition boundary_block (ind : bool) (r : str) : bool := boundary_inline r && negb (block_cont ind r).
Definition block_indented (s : str) : bool := match lexr_ws1 s with Some _ => true | None => false end.

Lemma lexr_inline_none r : starts_with1 SEMI r = false -> lexr_inline r = None.
Proof. destruct r as [|c r]; cbn [starts_with1 lexr_inline]; [reflexivity|]. intros ->. reflexivity. Qed.
Lemma block_loop_stop ind r f : block_cont ind r = false -> block_loop ind f r = r.
Proof.
  unfold block_cont. destruct f as [|f]; cbn [block_loop]; [reflexivity|].
  destruct (lexr_newline r) as [r1|]; [|reflexivity].
  destruct (if ind then lexr_ws1 r1 else Some r1) as [r2|]; [|reflexivity].
  intros H. rewrite (lexr_inline_none _ H). reflexivity.
Qed.
Lemma lexr_newline_length a b : lexr_newline a = Some b -> (length b < length a)%nat.
Proof.
  unfold lexr_newline. pose proof (skip_length is_cr a) as Hl.
  destruct (skip is_cr a) as [|c t]; [discriminate|]. destruct (c =? NL); [|discriminate].
  intros H. inversion H; subst b. cbn [length] in Hl. lia.
Qed.
Lemma lexr_ws1_length a b : lexr_ws1 a = Some b -> (length b < length a)%nat.
Proof.
  unfold lexr_ws1. destruct a as [|c a]; [discriminate|]. destruct (is_ws c); [|discriminate].
  intros H. inversion H. pose proof (skip_length is_ws a). cbn [length]. lia.
Qed.
Lemma lexr_inline_length a b : lexr_inline a = Some b -> (length b < length a)%nat.
Proof.
  unfold lexr_inline. destruct a as [|c a]; [discriminate|]. destruct (c =? SEMI); [|discriminate].
  intros H. inversion H. pose proof (skip_length not_crnl a). cbn [length]. lia.
Qed.

Lemma block_loop_app ind r : boundary_block ind r = true ->
  forall f a, block_loop ind f a = [] ->
  forall f', (length (a ++ r) <= f')%nat -> block_loop ind f' (a ++ r) = r.
Proof.
  unfold boundary_block. intros Hb. apply andb_prop in Hb as [Hbi Hbc].
  assert (Hc : block_cont ind r = false) by (destruct (block_cont ind r); [discriminate|reflexivity]).
  induction f as [|f IH]; intros a H f' Hf'.
  - cbn [block_loop] in H. subst a. cbn [app]. apply block_loop_stop. exact Hc.
  - cbn [block_loop] in H.
    destruct (lexr_newline a) as [s1|] eqn:E1; [|subst a; cbn [app]; apply block_loop_stop; exact Hc].
    destruct (if ind then lexr_ws1 s1 else Some s1) as [s2|] eqn:E2; [|subst a; cbn [app]; apply block_loop_stop; exact Hc].
    destruct (lexr_inline s2) as [s3|] eqn:E3; [|subst a; cbn [app]; apply block_loop_stop; exact Hc].
    pose proof (lexr_newline_length _ _ E1) as L1. pose proof (lexr_inline_length _ _ E3) as L3.
    assert (L2 : (length s2 <= length s1)%nat).
    { destruct ind; [pose proof (lexr_ws1_length _ _ E2); lia | inversion E2; lia]. }
    rewrite app_length in Hf'.
    destruct f' as [|f'']; [lia|]. cbn [block_loop]. rewrite (lexr_newline_app _ _ r E1).
    assert (Hs2 : s2 <> []) by (intros ->; discriminate).
    assert (T : match lexr_inline (s2 ++ r) with Some s4 => block_loop ind f'' s4 | None => a ++ r end = r).
    { destruct s3 as [|x s3'].
      + rewrite (lexr_inline_app s2 [] r E3 (or_intror Hbi)). cbn [app]. apply block_loop_stop. exact Hc.
      + assert (Hne : x :: s3' <> []) by discriminate.
        rewrite (lexr_inline_app s2 (x :: s3') r E3 (or_introl Hne)).
        apply (IH _ H). rewrite app_length. lia. }
    destruct ind.
    + rewrite (lexr_ws1_app _ _ r E2 (or_introl Hs2)). exact T.
    + inversion E2; subst s2. exact T.
Qed.
Lemma lexr_ws1_none_app s b r : lexr_inline s = Some b -> lexr_ws1 (s ++ r) = None.
Proof.
  unfold lexr_inline, lexr_ws1. destruct s as [|c s]; [discriminate|]. cbn [app].
  destruct (c =? SEMI) eqn:E; [|discriminate]. apply Z.eqb_eq in E. subst c. reflexivity.
Qed.
Theorem extent_stable_block s r :
  lexr_block s = Some [] -> boundary_block (block_indented s) r = true -> lexr_block (s ++ r) = Some r.
Proof.
  unfold lexr_block, block_indented. destruct (lexr_ws1 s) as [s1|] eqn:E1.
  - destruct (lexr_inline s1) as [b|] eqn:E2; [|discriminate]. intros H Hb. inversion H as [H'].
    assert (Hs1 : s1 <> []) by (intros ->; discriminate).
    rewrite (lexr_ws1_app _ _ r E1 (or_introl Hs1)).
    pose proof Hb as Hb'. unfold boundary_block in Hb'. apply andb_prop in Hb' as [Hbi Hbc].
    assert (Hc : block_cont true r = false) by (destruct (block_cont true r); [discriminate|reflexivity]).
    destruct b as [|x b'].
    + rewrite (lexr_inline_app s1 [] r E2 (or_intror Hbi)). cbn [app]. f_equal. apply block_loop_stop. exact Hc.
    + assert (Hne : x :: b' <> []) by discriminate.
      rewrite (lexr_inline_app s1 _ r E2 (or_introl Hne)). f_equal.
      apply (block_loop_app true r Hb _ _ H'). lia.
  - destruct (lexr_inline s) as [b|] eqn:E2; [|discriminate]. intros H Hb. inversion H as [H'].
    rewrite (lexr_ws1_none_app _ _ r E2).
    pose proof Hb as Hb'. unfold boundary_block in Hb'. apply andb_prop in Hb' as [Hbi Hbc].
    assert (Hc : block_cont false r = false) by (destruct (block_cont false r); [discriminate|reflexivity]).
    destruct b as [|x b'].
    + rewrite (lexr_inline_app s [] r E2 (or_intror Hbi)). cbn [app]. f_equal. apply block_loop_stop. exact Hc.
    + assert (Hne : x :: b' <> []) by discriminate.
      rewrite (lexr_inline_app s _ r E2 (or_introl Hne)). f_equal.
      apply (block_loop_app false r Hb _ _ H'). lia.
Qed.
Lemma boundary_block_nil ind : boundary_block ind [] = true.
Proof. destruct ind; reflexivity. Qed.
(* an empty line (or any line that does not start a comment) ends the block *)
Lemma boundary_block_eol ind c t :
  is_ws c = false -> (c =? SEMI) = false -> (c =? CR) = false -> boundary_block ind (NL :: c :: t) = true.
Proof.
  intros Hw Hs Hc. unfold boundary_block, block_cont, lexr_newline. cbn [boundary_inline skip].
  change (is_cr NL) with false. cbv iota. change (NL =? NL) with true. cbv iota.
  change (is_crnl NL) with true. cbn [andb].
  destruct ind; cbn [lexr_ws1 starts_with1]; [rewrite Hw; reflexivity | rewrite Hs; reflexivity].
Qed.

Lemma boundary_block_ends ind :
  boundary_block ind [] = true /\
  (forall c t, is_ws c = false -> (c =? SEMI) = false -> (c =? CR) = false -> boundary_block ind (NL :: c :: t) = true).
Proof. split; [exact (boundary_block_nil ind) | exact (boundary_block_eol ind)]. Qed.

(* ---------------------------------------------------------------------------------------------- *)
(* DATE: the day field is 1-2 digits, greedy: a digit after a one-digit day would be taken          *)
Definition boundary_date (r : str) : bool := negb (starts_with is_digit r).
Lemma lexr_d12_app a b r : lexr_d12 a = Some b -> (b <> [] \/ starts_with is_digit r = false) ->
  lexr_d12 (a ++ r) = Some (b ++ r).
Proof.
  unfold lexr_d12. destruct a as [|d1 a]; [discriminate|]. cbn [app].
  destruct (is_digit d1); [|discriminate]. destruct a as [|d2 a]; cbn [app].
  - intros H Hb. inversion H; subst b. destruct Hb as [Hb|Hb]; [congruence|].
    destruct r as [|x r]; [reflexivity|]. cbn [starts_with] in Hb. rewrite Hb. reflexivity.
  - destruct (is_digit d2); intros H _; inversion H; reflexivity.
Qed.
Theorem extent_stable_date s r :
  lexr_date s = Some [] -> boundary_date r = true -> lexr_date (s ++ r) = Some r.
Proof.
  unfold lexr_date, boundary_date. intros H Hb.
  assert (Hr : starts_with is_digit r = false) by (destruct (starts_with is_digit r); [discriminate|reflexivity]).
  destruct (4 <=? zlen (take is_digit s)) eqn:E4; [|discriminate].
  destruct (lexr_sep (skip is_digit s)) as [s1|] eqn:E1; [|discriminate].
  destruct (lexr_d12 s1) as [s2|] eqn:E2; [|discriminate].
  destruct (lexr_sep s2) as [s3|] eqn:E3; [|discriminate].
  destruct (lexr_sep_shape _ _ E1) as [c1 [Ha Hc1]].
  destruct (lexr_sep_shape _ _ E3) as [c3 [Hs2 Hc3]].
  rewrite (take_app_stop _ _ _ _ r Ha), E4, (skip_app_cons _ _ _ _ r Ha).
  unfold lexr_sep at 1. rewrite Hc1.
  assert (Hne : s2 <> []) by (subst s2; discriminate).
  rewrite (lexr_d12_app s1 s2 r E2 (or_introl Hne)).
  subst s2. cbn [app]. unfold lexr_sep. rewrite Hc3.
  exact (lexr_d12_app s3 [] r H (or_intror Hr)).
Qed.
Lemma boundary_date_weakest r : boundary_date r = false ->
  exists s, lexr_date s = Some [] /\ lexr_date (s ++ r) <> Some r.
Proof.
  intros Hb. exists [50; 48; 48; 48; 45; 49; 45; 49]. split; [reflexivity|].
  destruct r as [|c r]; [discriminate|]. unfold boundary_date in Hb. cbn [starts_with] in Hb.
  destruct (is_digit c) eqn:Ed; [|discriminate].
  assert (E : lexr_date ([50; 48; 48; 48; 45; 49; 45; 49] ++ c :: r) = Some r).
  { cbn [app]. unfold lexr_date, lexr_sep, lexr_d12. cbn. rewrite Ed. reflexivity. }
  rewrite E. intros H. inversion H as [H']. apply (f_equal (@length Z)) in H'. cbn [length] in H'. lia.
Qed.

(* ---------------------------------------------------------------------------------------------- *)
(* NUMBER: a further digit, a '.', or a further group ',ddd' would be taken                         *)
Definition comma3 (r : str) : bool :=
  match r with
  | c :: d1 :: d2 :: d3 :: _ => (c =? COMMA) && is_digit d1 && is_digit d2 && is_digit d3
  | _ => false
  end.
Definition boundary_number (r : str) : bool :=
  negb (starts_with is_digit r) && negb (starts_with1 DOT r) && negb (comma3 r).

Lemma comma_groups_stop r : comma3 r = false -> comma_groups r = (r, 0).
Proof.
  destruct r as [|c [|d1 [|d2 [|d3 r]]]]; try reflexivity.
  cbn [comma3 comma_groups]. intros ->. reflexivity.
Qed.
(* what stopped the groups is decided by t alone (t is empty or does not start with ','), or by r *)
Lemma comma_groups_app r : comma3 r = false -> forall n a, (length a <= n)%nat -> forall t k,
  comma_groups a = (t, k) -> (t = [] \/ starts_with1 COMMA t = false) -> comma_groups (a ++ r) = (t ++ r, k).
Proof.
  intros Hr. induction n as [|n IH]; intros a Hn t k H Ht.
  - destruct a; [|cbn in Hn; lia]. cbn in H. inversion H; subst t k. cbn [app]. exact (comma_groups_stop _ Hr).
  - assert (Hstop : comma_groups a = (a, 0) -> (t, k) = (a, 0) -> comma_groups (a ++ r) = (t ++ r, k)).
    { intros _ E. inversion E; subst t k. destruct a as [|c a]; [exact (comma_groups_stop _ Hr)|].
      destruct Ht as [Ht|Ht]; [discriminate|]. cbn [starts_with1] in Ht. cbn [app].
      apply comma_groups_other. exact Ht. }
    destruct a as [|c [|d1 [|d2 [|d3 a]]]]; try (apply Hstop; [reflexivity | symmetry; exact H]).
    cbn [comma_groups] in H. cbn [app comma_groups].
    destruct ((c =? COMMA) && is_digit d1 && is_digit d2 && is_digit d3) eqn:E.
    + destruct (comma_groups a) as [t' k'] eqn:Ea. inversion H; subst t k.
      assert (Hla : (length a <= n)%nat) by (cbn [length] in Hn; lia).
      rewrite (IH a Hla t' k' Ea Ht). reflexivity.
    + inversion H; subst t k. destruct Ht as [Ht|Ht]; [discriminate|]. cbn [starts_with1] in Ht.
      rewrite Ht in E. reflexivity.
Qed.
Lemma lexr_frac_app t r : lexr_frac t = [] -> starts_with is_digit r = false -> starts_with1 DOT r = false ->
  lexr_frac (t ++ r) = r.
Proof.
  intros Ht Hd Hdot. destruct (lexr_frac_nil _ Ht) as [-> | [fr [-> Hfr]]]; cbn [app].
  - unfold lexr_frac. destruct r as [|c r]; [reflexivity|]. cbn [starts_with1] in Hdot. rewrite Hdot. reflexivity.
  - unfold lexr_frac. change (DOT =? DOT) with true. cbv iota. rewrite (skip_all_app _ _ _ Hfr). exact (skip_id _ _ Hd).
Qed.
Lemma frac_shape_comma t : lexr_frac t = [] -> t = [] \/ starts_with1 COMMA t = false.
Proof. intros H. destruct (lexr_frac_nil _ H) as [-> | [fr [-> _]]]; [left|right]; reflexivity. Qed.
Theorem extent_stable_number s r :
  lexr_number s = Some [] -> boundary_number r = true -> lexr_number (s ++ r) = Some r.
Proof.
  unfold lexr_number, boundary_number. intros H Hb.
  apply andb_prop in Hb as [Hb H3]. apply andb_prop in Hb as [Hd Hdot].
  assert (Hd' : starts_with is_digit r = false) by (destruct (starts_with is_digit r); [discriminate|reflexivity]).
  assert (Hdot' : starts_with1 DOT r = false) by (destruct (starts_with1 DOT r); [discriminate|reflexivity]).
  assert (H3' : comma3 r = false) by (destruct (comma3 r); [discriminate|reflexivity]).
  destruct (take_skip_app is_digit s r Hd') as [Et Es]. rewrite Et, Es.
  destruct (zlen (take is_digit s) =? 0); [discriminate|].
  destruct (comma_groups (skip is_digit s)) as [t k] eqn:Ec.
  destruct ((zlen (take is_digit s) <=? 3) && (1 <=? k)) eqn:EA; inversion H as [H'].
  - rewrite (comma_groups_app r H3' _ _ (Nat.le_refl _) t k Ec (frac_shape_comma _ H')), EA.
    rewrite (lexr_frac_app _ _ H' Hd' Hdot'). reflexivity.
  - assert (Ea : comma_groups (skip is_digit s) = (skip is_digit s, 0)).
    { destruct (lexr_frac_nil _ H') as [-> | [fr [-> _]]]; [reflexivity | apply comma_groups_other; reflexivity]. }
    rewrite Ea in Ec. inversion Ec; subst t k.
    rewrite (comma_groups_app r H3' _ _ (Nat.le_refl _) _ 0 Ea (frac_shape_comma _ H')), EA.
    rewrite (lexr_frac_app _ _ H' Hd' Hdot'). reflexivity.
Qed.

Lemma lexr_frac_length x : (length (lexr_frac x) <= length x)%nat.
Proof.
  unfold lexr_frac. destruct x as [|c x]; [cbn; lia|].
  destruct (c =? DOT); [pose proof (skip_length is_digit x); cbn [length]; lia | lia].
Qed.
Lemma comma_groups_fst_length a : (length (fst (comma_groups a)) <= length a)%nat.
Proof.
  destruct (comma_groups_shape (length a) a (Nat.le_refl _)) as [g [Hg _]].
  apply (f_equal (@length Z)) in Hg. rewrite app_length in Hg. lia.
Qed.
Lemma comma_groups_nonneg : forall n a, (length a <= n)%nat -> 0 <= snd (comma_groups a).
Proof.
  induction n as [|n IH]; intros a Hn.
  - destruct a; [cbn; lia|cbn in Hn; lia].
  - destruct a as [|c [|d1 [|d2 [|d3 a]]]]; try (cbn; lia). cbn [comma_groups].
    destruct ((c =? COMMA) && is_digit d1 && is_digit d2 && is_digit d3); [|cbn; lia].
    assert (Hl : (length a <= n)%nat) by (cbn [length] in Hn; lia). specialize (IH a Hl).
    destruct (comma_groups a) as [t k]. cbn [snd] in *. lia.
Qed.
Lemma boundary_number_weakest r : boundary_number r = false ->
  exists s, lexr_number s = Some [] /\ lexr_number (s ++ r) <> Some r.
Proof.
  intros Hb. exists [49]. split; [reflexivity|]. destruct r as [|c r]; [discriminate|].
  unfold boundary_number in Hb. cbn [starts_with starts_with1] in Hb.
  cbn [app]. unfold lexr_number. cbn [take skip]. change (is_digit 49) with true. cbv iota.
  destruct (is_digit c) eqn:Ed.
  - (* a digit follows *)
    pose proof (zlen_nonneg (take is_digit r)) as Hz.
    destruct (zlen (49 :: c :: take is_digit r) =? 0) eqn:E0; [rewrite !zlen_cons in E0; lia|].
    pose proof (comma_groups_fst_length (skip is_digit r)) as Hg. pose proof (skip_length is_digit r) as Hs.
    destruct (comma_groups (skip is_digit r)) as [t k]. cbn [fst] in Hg.
    destruct ((zlen (49 :: c :: take is_digit r) <=? 3) && (1 <=? k)); intros H; inversion H as [H'];
      apply (f_equal (@length Z)) in H'; cbn [length] in H'.
    + pose proof (lexr_frac_length t). lia.
    + pose proof (lexr_frac_length (skip is_digit r)). lia.
  - change (zlen [49] =? 0) with false. cbv iota. change (zlen [49] <=? 3) with true. cbn [andb].
    destruct (c =? DOT) eqn:Edot.
    + (* '.' follows *)
      apply Z.eqb_eq in Edot. subst c. rewrite comma_groups_other by reflexivity.
      change (1 <=? 0) with false. cbv iota. unfold lexr_frac. change (DOT =? DOT) with true. cbv iota.
      intros H. inversion H as [H']. pose proof (skip_length is_digit r) as Hs. rewrite H' in Hs. cbn [length] in Hs. lia.
    + (* ',ddd' follows *)
      cbn [negb andb] in Hb. assert (H3 : comma3 (c :: r) = true) by (destruct (comma3 (c :: r)); [reflexivity|discriminate]).
      destruct r as [|d1 [|d2 [|d3 r]]]; try discriminate H3. cbn [comma3] in H3. cbn [comma_groups]. rewrite H3.
      pose proof (comma_groups_fst_length r) as Hg. pose proof (comma_groups_nonneg _ r (Nat.le_refl _)) as Hk.
      destruct (comma_groups r) as [t k]. cbn [fst snd] in *.
      destruct (1 <=? k + 1) eqn:E1; [|lia].
      intros H. inversion H as [H']. apply (f_equal (@length Z)) in H'. cbn [length] in H'.
      pose proof (lexr_frac_length t). lia.
Qed.

(* ---------------------------------------------------------------------------------------------- *)
(* TAG / LINK: a further name character would be taken                                             *)
Definition boundary_tag (r : str) : bool := negb (starts_with is_tagchar r).
Definition boundary_link (r : str) : bool := negb (starts_with is_tagchar r).
Lemma extent_stable_prefixed x s r :
  lexr_prefixed x s = Some [] -> starts_with is_tagchar r = false -> lexr_prefixed x (s ++ r) = Some r.
Proof.
  unfold lexr_prefixed. destruct s as [|c s]; [discriminate|]. cbn [app].
  destruct (c =? x); [|discriminate]. intros H Hr.
  destruct (take_skip_app is_tagchar s r Hr) as [Et Es]. rewrite Et, Es.
  destruct (is_nil (take is_tagchar s)); [discriminate|]. inversion H as [H']. rewrite H'. reflexivity.
Qed.
Theorem extent_stable_tag s r : lexr_tag s = Some [] -> boundary_tag r = true -> lexr_tag (s ++ r) = Some r.
Proof.
  unfold lexr_tag, boundary_tag. intros H Hb. apply extent_stable_prefixed; [exact H|].
  destruct (starts_with is_tagchar r); [discriminate|reflexivity].
Qed.
Theorem extent_stable_link s r : lexr_link s = Some [] -> boundary_link r = true -> lexr_link (s ++ r) = Some r.
Proof.
  unfold lexr_link, boundary_link. intros H Hb. apply extent_stable_prefixed; [exact H|].
  destruct (starts_with is_tagchar r); [discriminate|reflexivity].
Qed.
Lemma prefixed_weakest x r : starts_with is_tagchar r = true ->
  exists s, lexr_prefixed x s = Some [] /\ lexr_prefixed x (s ++ r) <> Some r.
Proof.
  intros Hb. exists [x; 97]. split.
  - unfold lexr_prefixed. rewrite Z.eqb_refl. reflexivity.
  - destruct r as [|c r]; [discriminate|]. cbn [starts_with] in Hb. cbn [app]. unfold lexr_prefixed.
    rewrite Z.eqb_refl. cbn [take skip]. change (is_tagchar 97) with true. cbv iota. rewrite Hb. cbn [is_nil].
    intros H. inversion H as [H']. pose proof (skip_length is_tagchar r) as Hl. rewrite H' in Hl. cbn [length] in Hl. lia.
Qed.
Lemma boundary_tag_weakest r : boundary_tag r = false -> exists s, lexr_tag s = Some [] /\ lexr_tag (s ++ r) <> Some r.
Proof.
  unfold boundary_tag. intros H. apply prefixed_weakest. destruct (starts_with is_tagchar r); [reflexivity|discriminate].
Qed.
Lemma boundary_link_weakest r : boundary_link r = false -> exists s, lexr_link s = Some [] /\ lexr_link (s ++ r) <> Some r.
Proof.
  unfold boundary_link. intros H. apply prefixed_weakest. destruct (starts_with is_tagchar r); [reflexivity|discriminate].
Qed.

(* ---------------------------------------------------------------------------------------------- *)
(* META_KEY (closed by its ':'), BOOL, NULL, flags (fixed spellings): any continuation.
   (That TRUEX is one CURRENCY and not BOOL then X is decided by lark's choice among the terminals that
   match at a position - longest match / priority -, not by the extent of one terminal.)           *)
Definition boundary_metakey (r : str) : bool := true.
Definition boundary_bool (r : str) : bool := true.
Definition boundary_null (r : str) : bool := true.
Definition boundary_pflag (r : str) : bool := true.
Definition boundary_txflag (r : str) : bool := true.
Lemma lexr_metakey_app s t r : lexr_metakey s = Some t -> lexr_metakey (s ++ r) = Some (t ++ r).
Proof.
  unfold lexr_metakey. destruct s as [|c s]; [discriminate|]. cbn [app].
  destruct (is_lower c); [|discriminate].
  destruct (skip is_keychar s) as [|d u] eqn:E.
  - destruct (is_nil (take is_keychar s)); discriminate.
  - rewrite (take_app_stop _ _ _ _ r E), (skip_app_cons _ _ _ _ r E).
    destruct (is_nil (take is_keychar s)); [discriminate|]. destruct (d =? COLON); [|discriminate].
    intros H. inversion H. reflexivity.
Qed.
Theorem extent_stable_metakey s r :
  lexr_metakey s = Some [] -> boundary_metakey r = true -> lexr_metakey (s ++ r) = Some r.
Proof. intros H _. exact (lexr_metakey_app s [] r H). Qed.
Lemma strip_prefix_app p s t r : strip_prefix p s = Some t -> strip_prefix p (s ++ r) = Some (t ++ r).
Proof.
  revert s. induction p as [|x p IH]; intros s; cbn [strip_prefix].
  - intros H. inversion H. reflexivity.
  - destruct s as [|c s]; [discriminate|]. cbn [app]. destruct (c =? x); [apply IH | discriminate].
Qed.
Theorem extent_stable_bool s r : lexr_bool s = Some [] -> boundary_bool r = true -> lexr_bool (s ++ r) = Some r.
Proof.
  unfold lexr_bool. intros H _. destruct (strip_prefix FALSE_ s) as [t|] eqn:E.
  - inversion H; subst t. rewrite (strip_prefix_app _ _ _ r E). reflexivity.
  - apply strip_prefix_full in H. subst s. cbn [app]. reflexivity.
Qed.
Theorem extent_stable_null s r : lexr_null s = Some [] -> boundary_null r = true -> lexr_null (s ++ r) = Some r.
Proof. unfold lexr_null. intros H _. exact (strip_prefix_app _ _ _ r H). Qed.
Theorem extent_stable_pflag s r : lexr_pflag s = Some [] -> boundary_pflag r = true -> lexr_pflag (s ++ r) = Some r.
Proof.
  unfold lexr_pflag. destruct s as [|c s]; [discriminate|]. cbn [app]. destruct (is_flagchar c); [|discriminate].
  intros H _. inversion H. reflexivity.
Qed.
Lemma flagchar_not_t c : is_flagchar c = true -> (c =? 116) = false.
Proof. unfold is_flagchar. lia. Qed.
Theorem extent_stable_txflag s r :
  lexr_txflag s = Some [] -> boundary_txflag r = true -> lexr_txflag (s ++ r) = Some r.
Proof.
  unfold lexr_txflag. intros H _. destruct (strip_prefix TXN_ s) as [t|] eqn:E.
  - inversion H; subst t. rewrite (strip_prefix_app _ _ _ r E). reflexivity.
  - pose proof (extent_stable_pflag s r H eq_refl) as Hp. rewrite Hp.
    unfold lexr_pflag in H. destruct s as [|c s]; [discriminate|]. destruct (is_flagchar c) eqn:Ef; [|discriminate].
    cbn [app]. unfold TXN_. cbn [strip_prefix]. rewrite (flagchar_not_t _ Ef). reflexivity.
Qed.

(* ---------------------------------------------------------------------------------------------- *)
(* ACCOUNT: a further component character, or ':' and a component start, would be taken            *)
Definition acct_more (r : str) : bool :=
  match r with c :: d :: _ => (c =? COLON) && is_acct_name_start d | _ => false end.
Definition boundary_account (r : str) : bool := negb (starts_with is_acct_body r) && negb (acct_more r).
Lemma acct_groups_stop f r : acct_more r = false -> acct_groups f r = (r, 0).
Proof.
  destruct f as [|f]; [reflexivity|]. cbn [acct_groups]. destruct r as [|c [|d r]]; try reflexivity.
  cbn [acct_more]. intros ->. reflexivity.
Qed.
Lemma acct_groups_nil f : acct_groups f [] = ([], 0).
Proof. destruct f; reflexivity. Qed.
Lemma acct_groups_app r : starts_with is_acct_body r = false -> acct_more r = false ->
  forall f a k, acct_groups f a = ([], k) ->
  forall f', (length (a ++ r) <= f')%nat -> acct_groups f' (a ++ r) = (r, k).
Proof.
  intros Hb Hm. induction f as [|f IH]; intros a k H f' Hf'.
  - cbn [acct_groups] in H. inversion H; subst a k. cbn [app]. apply acct_groups_stop. exact Hm.
  - cbn [acct_groups] in H.
    destruct a as [|c [|d a]]; try (inversion H; subst k; cbn [app]; apply acct_groups_stop; exact Hm).
    destruct ((c =? COLON) && is_acct_name_start d) eqn:E; [|inversion H].
    destruct (acct_groups f (skip is_acct_body a)) as [t k'] eqn:Ea. inversion H; subst t k.
    cbn [app length] in Hf'. destruct f' as [|f'']; [lia|]. cbn [app acct_groups]. rewrite E.
    destruct (skip is_acct_body a) as [|x u] eqn:Es.
    + rewrite (skip_app_nil _ _ r Es), (skip_id _ _ Hb), (acct_groups_stop _ _ Hm).
      rewrite acct_groups_nil in Ea. inversion Ea. reflexivity.
    + rewrite (skip_app_cons _ _ _ _ r Es).
      assert (Hl : (length ((x :: u) ++ r) <= f'')%nat).
      { pose proof (skip_length is_acct_body a) as Hl. rewrite Es in Hl. rewrite app_length in *. lia. }
      change (x :: u ++ r) with ((x :: u) ++ r). rewrite (IH _ _ Ea _ Hl). reflexivity.
Qed.
Theorem extent_stable_account s r :
  lexr_account s = Some [] -> boundary_account r = true -> lexr_account (s ++ r) = Some r.
Proof.
  unfold lexr_account, boundary_account. intros H Hb. apply andb_prop in Hb as [Hb Hm].
  assert (Hb' : starts_with is_acct_body r = false) by (destruct (starts_with is_acct_body r); [discriminate|reflexivity]).
  assert (Hm' : acct_more r = false) by (destruct (acct_more r); [discriminate|reflexivity]).
  destruct s as [|c s]; [discriminate|]. cbn [app]. destruct (is_acct_type_start c); [|discriminate].
  destruct (acct_groups (length s) (skip is_acct_body s)) as [t k] eqn:Ea.
  destruct (1 <=? k) eqn:Ek; [|discriminate]. inversion H; subst t.
  destruct (skip is_acct_body s) as [|x u] eqn:Es.
  - rewrite acct_groups_nil in Ea. inversion Ea; subst k. discriminate.
  - rewrite (skip_app_cons _ _ _ _ r Es).
    assert (Hl : (length ((x :: u) ++ r) <= length (s ++ r))%nat).
    { pose proof (skip_length is_acct_body s) as Hl. rewrite Es in Hl. rewrite !app_length. lia. }
    change (x :: u ++ r) with ((x :: u) ++ r). rewrite (acct_groups_app r Hb' Hm' _ _ _ Ea _ Hl), Ek. reflexivity.
Qed.

Lemma acct_groups_fst_length : forall f a, (length (fst (acct_groups f a)) <= length a)%nat.
Proof.
  induction f as [|f IH]; intros a; [cbn; lia|]. cbn [acct_groups].
  destruct a as [|c [|d a]]; try (cbn; lia).
  destruct ((c =? COLON) && is_acct_name_start d); [|cbn; lia].
  specialize (IH (skip is_acct_body a)). pose proof (skip_length is_acct_body a).
  destruct (acct_groups f (skip is_acct_body a)) as [t k]. cbn [fst length] in *. lia.
Qed.
Lemma acct_groups_nonneg : forall f a, 0 <= snd (acct_groups f a).
Proof.
  induction f as [|f IH]; intros a; [cbn; lia|]. cbn [acct_groups].
  destruct a as [|c [|d a]]; try (cbn; lia).
  destruct ((c =? COLON) && is_acct_name_start d); [|cbn; lia].
  specialize (IH (skip is_acct_body a)). destruct (acct_groups f (skip is_acct_body a)) as [t k]. cbn [snd] in *. lia.
Qed.
Lemma acct_groups_S f c d a : acct_groups (S f) (c :: d :: a) =
  if (c =? COLON) && is_acct_name_start d
  then let (t, k) := acct_groups f (skip is_acct_body a) in (t, k + 1) else (c :: d :: a, 0).
Proof. reflexivity. Qed.
Lemma boundary_account_weakest r : boundary_account r = false ->
  exists s, lexr_account s = Some [] /\ lexr_account (s ++ r) <> Some r.
Proof.
  intros Hb. exists [65; 58; 66]. split; [reflexivity|]. destruct r as [|c r]; [discriminate|].
  unfold boundary_account in Hb. cbn [starts_with] in Hb.
  cbn [app]. unfold lexr_account. change (is_acct_type_start 65) with true. cbv iota.
  change (skip is_acct_body (58 :: 66 :: c :: r)) with (58 :: 66 :: c :: r).
  change (length (58 :: 66 :: c :: r)) with (S (S (S (length r)))).
  rewrite acct_groups_S. change ((58 =? COLON) && is_acct_name_start 66) with true. cbv iota.
  destruct (is_acct_body c) eqn:Ec.
  - (* a component character follows *)
    assert (EX : skip is_acct_body (c :: r) = skip is_acct_body r) by (cbn [skip]; rewrite Ec; reflexivity).
    rewrite EX. pose proof (skip_length is_acct_body r) as Hs.
    pose proof (acct_groups_fst_length (S (S (length r))) (skip is_acct_body r)) as Hg.
    pose proof (acct_groups_nonneg (S (S (length r))) (skip is_acct_body r)) as Hk.
    destruct (acct_groups (S (S (length r))) (skip is_acct_body r)) as [t k]. cbn [fst snd] in *.
    destruct (1 <=? k + 1) eqn:E1; [|lia]. intros H. inversion H as [H'].
    apply (f_equal (@length Z)) in H'. cbn [length] in H'. lia.
  - (* ':' and a component start follow *)
    cbn [negb andb] in Hb. assert (Hm : acct_more (c :: r) = true) by (destruct (acct_more (c :: r)); [reflexivity|discriminate]).
    destruct r as [|d r]; [discriminate Hm|]. cbn [acct_more] in Hm.
    assert (EX : skip is_acct_body (c :: d :: r) = c :: d :: r) by (cbn [skip]; rewrite Ec; reflexivity).
    rewrite EX. change (length (d :: r)) with (S (length r)). rewrite acct_groups_S, Hm.
    pose proof (skip_length is_acct_body r) as Hs.
    pose proof (acct_groups_fst_length (S (S (length r))) (skip is_acct_body r)) as Hg.
    pose proof (acct_groups_nonneg (S (S (length r))) (skip is_acct_body r)) as Hk.
    destruct (acct_groups (S (S (length r))) (skip is_acct_body r)) as [t k]. cbn [fst snd] in *.
    destruct (1 <=? k + 1 + 1) eqn:E1; [|lia]. intros H. inversion H as [H'].
    apply (f_equal (@length Z)) in H'. cbn [length] in H'. lia.
Qed.

(* ---------------------------------------------------------------------------------------------- *)
(* CURRENCY: the body run is taken greedily and given back to its last letter or digit: the lexeme grows
   exactly when the body characters that follow contain a letter or a digit                          *)
Definition boundary_currency (r : str) : bool := negb (existsb is_cur_end (take is_cur_body r)).
Lemma rstrip_length p a : (length (rstrip p a) <= length a)%nat.
Proof.
  induction a as [|c a IH]; cbn [rstrip length]; [lia|].
  destruct (rstrip p a); [destruct (p c)|]; cbn [length] in *; lia.
Qed.
Lemma rstrip_full p a : length (rstrip p a) = length a -> rstrip p a = a.
Proof.
  induction a as [|c a IH]; cbn [rstrip length]; [reflexivity|].
  pose proof (rstrip_length p a) as Hl.
  destruct (rstrip p a) as [|x t] eqn:E.
  - destruct (p c); cbn [length]; [discriminate|]. intros H. destruct a; [reflexivity|cbn [length] in H; lia].
  - cbn [length] in *. intros H. f_equal. apply IH. lia.
Qed.
Lemma rstrip_app_all p a b : forallb p b = true -> rstrip p (a ++ b) = rstrip p a.
Proof.
  intros Hb. induction a as [|c a IH]; cbn [app rstrip].
  - apply rstrip_nil_iff. exact Hb.
  - rewrite IH. reflexivity.
Qed.
Lemma skipn_nil_length {A} n (l : list A) : skipn n l = [] -> (length l <= n)%nat.
Proof.
  revert l. induction n as [|n IH]; intros l; cbn [skipn]; [intros ->; cbn; lia|].
  destruct l; cbn [length]; [lia|]. intros H. apply IH in H. lia.
Qed.
Lemma skipn_exact {A} (a b : list A) : skipn (length a) (a ++ b) = b.
Proof. induction a as [|x a IH]; [reflexivity|exact IH]. Qed.
Lemma not_end_forall b : existsb is_cur_end b = false -> forallb (fun x => negb (is_cur_end x)) b = true.
Proof.
  induction b as [|c b IH]; cbn [existsb forallb]; [reflexivity|].
  intros H. apply orb_false_iff in H as [Hc Hb]. rewrite Hc, (IH Hb). reflexivity.
Qed.
(* a complete lexeme is its first character and a body run that ends in a letter or digit *)
Lemma currency_full_shape s : let t := rstrip (fun x => negb (is_cur_end x)) (take is_cur_body s) in
  skipn (length t) s = [] -> t = s /\ forallb is_cur_body s = true.
Proof.
  intros t H. apply skipn_nil_length in H.
  pose proof (rstrip_length (fun x => negb (is_cur_end x)) (take is_cur_body s)) as H1.
  pose proof (take_length is_cur_body s) as H2. fold t in H1.
  assert (Ht : take is_cur_body s = s) by (apply take_full; lia).
  split.
  - unfold t. rewrite Ht. apply rstrip_full. unfold t in H. rewrite Ht in H.
    pose proof (rstrip_length (fun x => negb (is_cur_end x)) s). lia.
  - rewrite <- Ht. apply take_forall.
Qed.
Theorem extent_stable_currency s r :
  lexr_currency s = Some [] -> boundary_currency r = true -> lexr_currency (s ++ r) = Some r.
Proof.
  unfold lexr_currency, boundary_currency. intros H Hb.
  assert (Hb' : forallb (fun x => negb (is_cur_end x)) (take is_cur_body r) = true).
  { apply not_end_forall. destruct (existsb is_cur_end (take is_cur_body r)); [discriminate|reflexivity]. }
  destruct s as [|c s]; [discriminate|]. cbn [app].
  assert (K : skipn (length (rstrip (fun x => negb (is_cur_end x)) (take is_cur_body s))) s = [] ->
              rstrip (fun x => negb (is_cur_end x)) (take is_cur_body (s ++ r)) = s /\
              rstrip (fun x => negb (is_cur_end x)) (take is_cur_body s) = s).
  { intros Hs. destruct (currency_full_shape s Hs) as [Ht Hall].
    rewrite (take_app_all _ _ r Hall), (rstrip_app_all _ _ _ Hb').
    rewrite (take_all _ _ Hall) in Ht. split; [exact Ht|]. rewrite (take_all _ _ Hall). exact Ht. }
  destruct (c =? SLASH).
  - destruct (existsb is_upper (rstrip (fun x => negb (is_cur_end x)) (take is_cur_body s))) eqn:Eu; [|discriminate].
    inversion H as [Hs]. destruct (K Hs) as [K1 K2]. rewrite K1. rewrite K2 in Eu. rewrite Eu, skipn_exact. reflexivity.
  - destruct (is_upper c); [|discriminate].
    destruct (is_nil (rstrip (fun x => negb (is_cur_end x)) (take is_cur_body s))) eqn:En; [discriminate|].
    inversion H as [Hs]. destruct (K Hs) as [K1 K2]. rewrite K1. rewrite K2 in En. rewrite En, skipn_exact. reflexivity.
Qed.

Lemma boundary_currency_weakest r : boundary_currency r = false ->
  exists s, lexr_currency s = Some [] /\ lexr_currency (s ++ r) <> Some r.
Proof.
  intros Hb. exists [65; 65]. split; [reflexivity|].
  unfold boundary_currency in Hb.
  assert (He : existsb is_cur_end (take is_cur_body r) = true)
    by (destruct (existsb is_cur_end (take is_cur_body r)); [reflexivity|discriminate]).
  assert (Hn : rstrip (fun x => negb (is_cur_end x)) (take is_cur_body r) <> []).
  { intros E. apply rstrip_nil_iff in E. clear Hb. induction (take is_cur_body r) as [|x l IH]; [discriminate|].
    cbn [existsb forallb] in *. apply andb_prop in E as [E1 E2]. destruct (is_cur_end x); [discriminate|]. auto. }
  cbn [app]. unfold lexr_currency. change (65 =? SLASH) with false. change (is_upper 65) with true. cbv iota.
  cbn [take]. change (is_cur_body 65) with true. cbv iota. cbn [rstrip].
  destruct (rstrip (fun x => negb (is_cur_end x)) (take is_cur_body r)) as [|x t]; [congruence|].
  cbn [is_nil length skipn]. intros H. inversion H as [H'].
  destruct r as [|c r]; [discriminate He|].
  pose proof (skipn_length (length t) r) as Hl. rewrite H' in Hl. cbn [length] in Hl. lia.
Qed.

(* ---------------------------------------------------------------------------------------------- *)
(* blanks, the end of the text and ", " are boundaries of every value terminal                     *)
Definition sep_start (r : str) : bool := blank_start r || comma_blank r.
Lemma sep_start_cases r : sep_start r = true ->
  r = [] \/ (exists c t, r = c :: t /\ is_blank c = true) \/ (exists d t, r = COMMA :: d :: t /\ is_blank d = true).
Proof.
  unfold sep_start, blank_start, comma_blank. destruct r as [|c r]; [left; reflexivity|]. intros H.
  apply orb_prop in H as [H|H]; [right; left; exists c, r; split; [reflexivity|exact H]|].
  destruct r as [|d r]; [discriminate|]. apply andb_prop in H as [Hc Hd]. apply Z.eqb_eq in Hc. subst c.
  right; right. exists d, r. split; [reflexivity|exact Hd].
Qed.
Lemma blank_start_sep r : blank_start r = true -> sep_start r = true.
Proof. unfold sep_start. intros ->. reflexivity. Qed.
Lemma comma_blank_sep r : comma_blank r = true -> sep_start r = true.
Proof. unfold sep_start. intros ->. apply orb_true_r. Qed.

Lemma blank_facts c : is_blank c = true ->
  is_digit c = false /\ (c =? DOT) = false /\ (c =? COMMA) = false /\ is_tagchar c = false /\
  is_acct_body c = false /\ (c =? COLON) = false /\ is_cur_body c = false.
Proof.
  unfold is_blank, is_tagchar, is_acct_body, is_cur_body, is_nonascii, is_upper, is_lower, is_digit,
    SPACE, TAB, CR, NL, DOT, COMMA, COLON, DASH, USCORE, SLASH. lia.
Qed.
Lemma comma3_head c t : (c =? COMMA) = false -> comma3 (c :: t) = false.
Proof. intros H. destruct t as [|d1 [|d2 [|d3 t]]]; cbn [comma3]; try reflexivity. rewrite H. reflexivity. Qed.
Lemma comma3_second c d t : is_digit d = false -> comma3 (c :: d :: t) = false.
Proof.
  intros H. destruct t as [|d2 [|d3 t]]; cbn [comma3]; try reflexivity. rewrite H, andb_false_r. reflexivity.
Qed.
Lemma acct_more_head c t : (c =? COLON) = false -> acct_more (c :: t) = false.
Proof. intros H. destruct t; cbn [acct_more]; [reflexivity|]. rewrite H. reflexivity. Qed.

Lemma boundary_date_sep r : sep_start r = true -> boundary_date r = true.
Proof.
  intros H. destruct (sep_start_cases r H) as [-> | [[c [t [-> Hc]]] | [d [t [-> Hd]]]]]; try reflexivity.
  unfold boundary_date. cbn [starts_with]. destruct (blank_facts c Hc) as [-> _]. reflexivity.
Qed.
Lemma boundary_number_sep r : sep_start r = true -> boundary_number r = true.
Proof.
  intros H. destruct (sep_start_cases r H) as [-> | [[c [t [-> Hc]]] | [d [t [-> Hd]]]]]; [reflexivity| |].
  - unfold boundary_number. cbn [starts_with starts_with1].
    destruct (blank_facts c Hc) as (-> & -> & Hcm & _). rewrite (comma3_head _ _ Hcm). reflexivity.
  - unfold boundary_number. cbn [starts_with starts_with1].
    destruct (blank_facts d Hd) as (Hdd & _). rewrite (comma3_second _ _ _ Hdd). reflexivity.
Qed.
Lemma boundary_tag_sep r : sep_start r = true -> boundary_tag r = true.
Proof.
  intros H. destruct (sep_start_cases r H) as [-> | [[c [t [-> Hc]]] | [d [t [-> Hd]]]]]; try reflexivity.
  unfold boundary_tag. cbn [starts_with]. destruct (blank_facts c Hc) as (_ & _ & _ & -> & _). reflexivity.
Qed.
Lemma boundary_link_sep r : sep_start r = true -> boundary_link r = true.
Proof. exact (boundary_tag_sep r). Qed.
Lemma boundary_account_sep r : sep_start r = true -> boundary_account r = true.
Proof.
  intros H. destruct (sep_start_cases r H) as [-> | [[c [t [-> Hc]]] | [d [t [-> Hd]]]]]; try reflexivity.
  unfold boundary_account. cbn [starts_with]. destruct (blank_facts c Hc) as (_ & _ & _ & _ & -> & Hcol & _).
  rewrite (acct_more_head _ _ Hcol). reflexivity.
Qed.
Lemma boundary_currency_sep r : sep_start r = true -> boundary_currency r = true.
Proof.
  intros H. destruct (sep_start_cases r H) as [-> | [[c [t [-> Hc]]] | [d [t [-> Hd]]]]]; try reflexivity.
  unfold boundary_currency. cbn [take]. destruct (blank_facts c Hc) as (_ & _ & _ & _ & _ & _ & ->). reflexivity.
Qed.
(* a comment ends at the line end only *)
Lemma boundary_inline_eol r : r = [] \/ starts_with is_crnl r = true -> boundary_inline r = true.
Proof. intros [-> | H]; [reflexivity|]. destruct r; [discriminate|exact H]. Qed.

(* ---------------------------------------------------------------------------------------------- *)
(* the kinds of lexemes of a directive line, and the tiny printing model                            *)
Inductive kind :=
  KString | KDate | KNumber | KTag | KLink | KMetaKey | KBool | KNull | KAccount | KCurrency | KTxFlag | KPFlag
  | KInline.
Definition lexr_of (k : kind) : str -> option str :=
  match k with
  | KString => lexr_string | KDate => lexr_date | KNumber => lexr_number | KTag => lexr_tag | KLink => lexr_link
  | KMetaKey => lexr_metakey | KBool => lexr_bool | KNull => lexr_null | KAccount => lexr_account
  | KCurrency => lexr_currency | KTxFlag => lexr_txflag | KPFlag => lexr_pflag | KInline => lexr_inline
  end.
Definition boundary_of (k : kind) : str -> bool :=
  match k with
  | KString => boundary_string | KDate => boundary_date | KNumber => boundary_number | KTag => boundary_tag
  | KLink => boundary_link | KMetaKey => boundary_metakey | KBool => boundary_bool | KNull => boundary_null
  | KAccount => boundary_account | KCurrency => boundary_currency | KTxFlag => boundary_txflag
  | KPFlag => boundary_pflag | KInline => boundary_inline
  end.
Definition is_value_kind (k : kind) : bool := match k with KInline => false | _ => true end.

Theorem extent_stable_of k s r : lexr_of k s = Some [] -> boundary_of k r = true -> lexr_of k (s ++ r) = Some r.
Proof.
  destruct k; cbn [lexr_of boundary_of].
  - apply extent_stable_string. - apply extent_stable_date. - apply extent_stable_number.
  - apply extent_stable_tag. - apply extent_stable_link. - apply extent_stable_metakey.
  - apply extent_stable_bool. - apply extent_stable_null. - apply extent_stable_account.
  - apply extent_stable_currency. - apply extent_stable_txflag. - apply extent_stable_pflag.
  - apply extent_stable_inline.
Qed.
(* a value token followed by a blank, by ", " or by the end of the text re-lexes with the same extent *)
Theorem blank_is_boundary k r : is_value_kind k = true -> sep_start r = true -> boundary_of k r = true.
Proof.
  destruct k; cbn [is_value_kind boundary_of]; intros Hk H; try reflexivity; try discriminate.
  - exact (boundary_date_sep r H). - exact (boundary_number_sep r H). - exact (boundary_tag_sep r H).
  - exact (boundary_link_sep r H). - exact (boundary_account_sep r H). - exact (boundary_currency_sep r H).
Qed.

(* separator characters (what the scanner skips between lexemes): blanks and ',' *)
Definition is_sepchar (c : Z) : bool := is_blank c || (c =? COMMA).
(* a gap after a lexeme of kind k: separator characters only, starting with a blank or with ',' + blank
   (after a comment: with the line end) *)
Definition gap_ok (k : kind) (g : str) : bool :=
  forallb is_sepchar g &&
  match k with
  | KInline => starts_with is_crnl g
  | _ => negb (is_nil g) && sep_start g
  end.
Definition item := (kind * str * str)%type.      (* kind, lexeme, the gap printed after it *)
Fixpoint print (items : list item) : str :=
  match items with [] => [] | (k, s, g) :: rest => s ++ g ++ print rest end.
(* every lexeme is a complete lexeme of its kind; every gap is a gap (the last one may be empty) *)
Fixpoint items_ok (items : list item) : Prop :=
  match items with
  | [] => True
  | (k, s, g) :: rest =>
    lexr_of k s = Some [] /\ (gap_ok k g = true \/ (g = [] /\ rest = [])) /\ items_ok rest
  end.
(* scanning with the expected kinds: recognise, cut the lexeme, skip separator characters *)
Fixpoint scan (ks : list kind) (text : str) : option (list str) :=
  match ks with
  | [] => if is_nil text then Some [] else None
  | k :: ks' =>
    match lexr_of k text with
    | None => None
    | Some rest =>
      match scan ks' (skip is_sepchar rest) with
      | None => None
      | Some ls => Some (firstn (length text - length rest) text :: ls)
      end
    end
  end.

Definition head_ok (s : str) : bool := match s with c :: _ => negb (is_sepchar c) | [] => false end.
Lemma strip_prefix_head c0 p' s t : strip_prefix (c0 :: p') s = Some t -> is_sepchar c0 = false -> head_ok s = true.
Proof.
  intros H Hc. revert H. cbn [strip_prefix]. destruct s as [|c s]; [discriminate|]. destruct (c =? c0) eqn:E; [|discriminate].
  apply Z.eqb_eq in E. subst c. intros _. cbn [head_ok]. rewrite Hc. reflexivity.
Qed.
Lemma digit_not_sep c : is_digit c = true -> negb (is_sepchar c) = true.
Proof. unfold is_sepchar, is_blank, is_digit, SPACE, TAB, CR, NL, COMMA. lia. Qed.
Lemma flag_not_sep c : is_flagchar c = true -> negb (is_sepchar c) = true.
Proof. unfold is_sepchar, is_blank, is_flagchar, SPACE, TAB, CR, NL, COMMA. lia. Qed.
Lemma take_digit_head s : 0 < zlen (take is_digit s) -> head_ok s = true.
Proof.
  destruct s as [|c s]; cbn [take]; [cbn; lia|]. destruct (is_digit c) eqn:E; [|cbn; lia].
  intros _. cbn [head_ok]. exact (digit_not_sep _ E).
Qed.
Lemma lexeme_head k s : lexr_of k s = Some [] -> head_ok s = true.
Proof.
  destruct k; cbn [lexr_of].
  - unfold lexr_string. destruct s as [|c s]; [discriminate|]. destruct (c =? QUOTE) eqn:E; [|discriminate].
    apply Z.eqb_eq in E. subst c. reflexivity.
  - unfold lexr_date. destruct (4 <=? zlen (take is_digit s)) eqn:E; [|discriminate]. intros _.
    apply take_digit_head. lia.
  - unfold lexr_number. destruct (zlen (take is_digit s) =? 0) eqn:E; [discriminate|]. intros _.
    apply take_digit_head. pose proof (zlen_nonneg (take is_digit s)). lia.
  - unfold lexr_tag, lexr_prefixed. destruct s as [|c s]; [discriminate|]. destruct (c =? HASH) eqn:E; [|discriminate].
    apply Z.eqb_eq in E. subst c. reflexivity.
  - unfold lexr_link, lexr_prefixed. destruct s as [|c s]; [discriminate|]. destruct (c =? CARET) eqn:E; [|discriminate].
    apply Z.eqb_eq in E. subst c. reflexivity.
  - unfold lexr_metakey. destruct s as [|c s]; [discriminate|]. destruct (is_lower c) eqn:E; [|discriminate].
    intros _. cbn [head_ok]. revert E. unfold is_sepchar, is_blank, is_lower, SPACE, TAB, CR, NL, COMMA. lia.
  - unfold lexr_bool. intros H. destruct (strip_prefix FALSE_ s) as [t|] eqn:E.
    + exact (strip_prefix_head _ _ _ _ E eq_refl).
    + exact (strip_prefix_head _ _ _ _ H eq_refl).
  - unfold lexr_null. intros H. exact (strip_prefix_head _ _ _ _ H eq_refl).
  - unfold lexr_account. destruct s as [|c s]; [discriminate|]. destruct (is_acct_type_start c) eqn:E; [|discriminate].
    intros _. cbn [head_ok]. revert E.
    unfold is_sepchar, is_blank, is_acct_type_start, is_upper, is_nonascii, SPACE, TAB, CR, NL, COMMA. lia.
  - unfold lexr_currency. destruct s as [|c s]; [discriminate|]. cbn [head_ok].
    destruct (c =? SLASH) eqn:E; [apply Z.eqb_eq in E; subst c; reflexivity|].
    destruct (is_upper c) eqn:Eu; [|discriminate]. intros _. revert Eu.
    unfold is_sepchar, is_blank, is_upper, SPACE, TAB, CR, NL, COMMA. lia.
  - unfold lexr_txflag. intros H. destruct (strip_prefix TXN_ s) as [t|] eqn:E.
    + exact (strip_prefix_head _ _ _ _ E eq_refl).
    + unfold lexr_pflag in H. destruct s as [|c s]; [discriminate|]. destruct (is_flagchar c) eqn:Ef; [|discriminate].
      exact (flag_not_sep _ Ef).
  - unfold lexr_pflag. destruct s as [|c s]; [discriminate|]. destruct (is_flagchar c) eqn:Ef; [|discriminate].
    intros _. exact (flag_not_sep _ Ef).
  - unfold lexr_inline. destruct s as [|c s]; [discriminate|]. destruct (c =? SEMI) eqn:E; [|discriminate].
    apply Z.eqb_eq in E. subst c. reflexivity.
Qed.

Lemma gap_boundary k g x : gap_ok k g = true -> boundary_of k (g ++ x) = true.
Proof.
  unfold gap_ok. intros H. apply andb_prop in H as [_ H]. destruct (is_value_kind k) eqn:Ek.
  - apply blank_is_boundary; [exact Ek|].
    assert (H' : negb (is_nil g) && sep_start g = true) by (destruct k; try exact H; discriminate).
    apply andb_prop in H' as [Hn Hs]. destruct g as [|c g]; [discriminate|].
    unfold sep_start, blank_start, comma_blank in *. cbn [app].
    destruct g as [|d g]; [|exact Hs]. cbn [app]. apply orb_prop in Hs as [Hs|Hs]; [|discriminate].
    rewrite Hs. reflexivity.
  - destruct k; try discriminate. cbn [boundary_of]. destruct g as [|c g]; [discriminate|]. exact H.
Qed.
Lemma gap_skip k g x : gap_ok k g = true -> x = [] \/ head_ok x = true -> skip is_sepchar (g ++ x) = x.
Proof.
  unfold gap_ok. intros H Hx. apply andb_prop in H as [H _]. rewrite (skip_all_app _ _ _ H).
  destruct Hx as [-> | Hx]; [reflexivity|]. apply skip_id. destruct x as [|c x]; [reflexivity|].
  cbn [head_ok] in Hx. cbn [starts_with]. destruct (is_sepchar c); [discriminate|reflexivity].
Qed.
Lemma print_head items : items_ok items -> print items = [] \/ head_ok (print items) = true.
Proof.
  destruct items as [|[[k s] g] rest]; [left; reflexivity|]. cbn [items_ok print]. intros [H _]. right.
  apply lexeme_head in H. destruct s as [|c s]; [discriminate|]. exact H.
Qed.

Theorem separated_relex items : items_ok items ->
  scan (map (fun i => fst (fst i)) items) (print items) = Some (map (fun i => snd (fst i)) items).
Proof.
  induction items as [|[[k s] g] rest IH]; [reflexivity|].
  cbn [items_ok print map fst snd scan]. intros [Hs [Hg Hrest]].
  assert (Hb : boundary_of k (g ++ print rest) = true).
  { destruct Hg as [Hg | [-> ->]]; [exact (gap_boundary _ _ _ Hg)|].
    cbn [print app]. destruct (is_value_kind k) eqn:Ek; [apply blank_is_boundary; [exact Ek|reflexivity]|].
    destruct k; try discriminate. reflexivity. }
  rewrite (extent_stable_of k s _ Hs Hb).
  assert (Hk : skip is_sepchar (g ++ print rest) = print rest).
  { destruct Hg as [Hg | [-> ->]]; [exact (gap_skip _ _ _ Hg (print_head _ Hrest))|reflexivity]. }
  rewrite Hk, (IH Hrest), firstn_exact. reflexivity.
Qed.

(* ---------------------------------------------------------------------------------------------- *)
(* where separation is really needed: complete lexemes whose extent changes when text follows directly
   (each left component is a complete lexeme, the concatenation is lexed differently)               *)
(* "1" ++ ",234": one NUMBER 1,234 *)
Example number_comma_needs_sep :
  lexr_number [49] = Some [] /\ lexr_number ([49] ++ [44; 50; 51; 52]) = Some [].
Proof. split; vm_compute; reflexivity. Qed.
(* "3" ++ ",2012-01-01" (a cost "3" then a date, written without blank): NUMBER 3,201 and the rest 2-01-01 *)
Example number_comma_date_needs_sep :
  lexr_number ([51] ++ [44; 50; 48; 49; 50; 45; 48; 49; 45; 48; 49]) = Some [50; 45; 48; 49; 45; 48; 49].
Proof. vm_compute. reflexivity. Qed.
(* "12" ++ ".5" and "12" ++ "5" *)
Example number_dot_digit_need_sep :
  lexr_number ([49; 50] ++ [46; 53]) = Some [] /\ lexr_number ([49; 50] ++ [53]) = Some [].
Proof. split; vm_compute; reflexivity. Qed.
(* but "1,234" ++ "5" keeps its extent: the group is exactly three digits *)
Example number_group_is_three : lexr_number ([49; 44; 50; 51; 52] ++ [53]) = Some [53].
Proof. vm_compute. reflexivity. Qed.
(* "#a" ++ "b" is the TAG #ab *)
Example tag_needs_sep : lexr_tag [35; 97] = Some [] /\ lexr_tag ([35; 97] ++ [98]) = Some [].
Proof. split; vm_compute; reflexivity. Qed.
Example link_needs_sep : lexr_link [94; 98] = Some [] /\ lexr_link ([94; 98] ++ [98]) = Some [].
Proof. split; vm_compute; reflexivity. Qed.
(* "2012-01-1" ++ "5" is the DATE 2012-01-15; after a two-digit day a digit is not taken *)
Example date_needs_sep :
  lexr_date [50; 48; 49; 50; 45; 48; 49; 45; 49] = Some [] /\
  lexr_date ([50; 48; 49; 50; 45; 48; 49; 45; 49] ++ [53]) = Some [] /\
  lexr_date ([50; 48; 49; 50; 45; 48; 49; 45; 48; 49] ++ [53]) = Some [53].
Proof. repeat split; vm_compute; reflexivity. Qed.
(* "BBB" ++ "USD" is one CURRENCY; "USD" ++ "-X" too; "USD" ++ "-" keeps its extent *)
Example currency_needs_sep :
  lexr_currency [66; 66; 66] = Some [] /\ lexr_currency ([66; 66; 66] ++ [85; 83; 68]) = Some [] /\
  lexr_currency ([85; 83; 68] ++ [45; 88]) = Some [] /\ lexr_currency ([85; 83; 68] ++ [45]) = Some [45].
Proof. repeat split; vm_compute; reflexivity. Qed.
(* "A:B" ++ "c" and "A:B" ++ ":C" are one ACCOUNT *)
Example account_needs_sep :
  lexr_account [65; 58; 66] = Some [] /\ lexr_account ([65; 58; 66] ++ [99]) = Some [] /\
  lexr_account ([65; 58; 66] ++ [58; 67]) = Some [].
Proof. repeat split; vm_compute; reflexivity. Qed.
(* a blank does not end a comment *)
Example inline_blank_is_no_boundary : lexr_inline ([59; 32; 120] ++ [32; 121]) = Some [].
Proof. vm_compute. reflexivity. Qed.
(* the recogniser BOOL stops after TRUE whatever follows (the choice BOOL / CURRENCY at "TRUEX" is lark's) *)
Example bool_any_continuation : lexr_bool ([84; 82; 85; 69] ++ [88]) = Some [88] /\ lexr_currency ([84; 82; 85; 69] ++ [88]) = Some [].
Proof. split; vm_compute; reflexivity. Qed.

(* non-vacuity of separated_relex:
     2012-01-01 * "x" #t ^b\n     and     Assets:A  1,234.50 USD, EUR ; c\n                       *)
Definition ex_items1 : list item :=
  [ (KDate, [50; 48; 49; 50; 45; 48; 49; 45; 48; 49], [32]); (KTxFlag, [42], [32]); (KString, [34; 120; 34], [32]);
    (KTag, [35; 116], [32]); (KLink, [94; 98], [10]) ].
Definition ex_items2 : list item :=
  [ (KAccount, [65; 115; 115; 101; 116; 115; 58; 65], [32; 32]); (KNumber, [49; 44; 50; 51; 52; 46; 53; 48], [32]);
    (KCurrency, [85; 83; 68], [44; 32]); (KCurrency, [69; 85; 82], [32]); (KInline, [59; 32; 99], [10]) ].
Example ex_items1_ok : items_ok ex_items1.
Proof. cbn [items_ok ex_items1]. repeat split; try (left; reflexivity); vm_compute; reflexivity. Qed.
Example ex_items2_ok : items_ok ex_items2.
Proof. cbn [items_ok ex_items2]. repeat split; try (left; reflexivity); vm_compute; reflexivity. Qed.
Example ex_relex2 :
  scan [KAccount; KNumber; KCurrency; KCurrency; KInline] (print ex_items2) =
  Some [[65; 115; 115; 101; 116; 115; 58; 65]; [49; 44; 50; 51; 52; 46; 53; 48]; [85; 83; 68]; [69; 85; 82]; [59; 32; 99]].
Proof. exact (separated_relex ex_items2 ex_items2_ok). Qed.
(* without the gaps the same lexemes are not scanned back: "USD" "EUR" printed tight is one currency *)
Example ex_tight_fails :
  scan [KCurrency; KCurrency] ([85; 83; 68] ++ [69; 85; 82]) = None.
Proof. vm_compute. reflexivity. Qed.
Example ex_relex2_full :
  items_ok ex_items2 /\
  scan (map (fun i => fst (fst i)) ex_items2) (print ex_items2) = Some (map (fun i => snd (fst i)) ex_items2).
Proof. split; [exact ex_items2_ok | exact (separated_relex _ ex_items2_ok)]. Qed.
