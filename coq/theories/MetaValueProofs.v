(* C09 proofs about MetaValue.v (meta_value_internal.py). *)
From AB Require Import Prelude NumExpr MetaValue.

Section Meta.
  Variable D : Type.
  Variables dadd dsub dmul ddiv : D -> D -> D.
  Variables dneg dabs : D -> D.
  Variable dltz : D -> bool.
  Variable num_value : str -> D.
  Variable num_text : D -> str.
  Variable str_text : str -> str.     Variable str_value : str -> str.
  Variable date_text : date -> str.   Variable date_value : str -> date.
  Variable bool_text : bool -> str.   Variable bool_value : str -> bool.

  Notation get := (get D dadd dsub dmul ddiv dneg num_value str_value date_value bool_value).
  Notation content_of := (content_of D dabs dltz num_text str_text date_text bool_text).
  Notation update_value := (update_value D dabs dltz num_text str_text date_text bool_text).
  Notation from_value := (from_value D dabs dltz num_text str_text date_text bool_text).
  Notation set := (set D dabs dltz num_text str_text date_text bool_text).

  (* what reading gives for what was written: a datetime as its date, a raw model as `get` shows it *)
  Definition read_back (v : mval D) : mval D :=
    match v with
    | MDateTime d _ => MDate d
    | MRaw r => get (Some r)
    | _ => v
    end.

  Definition scalar (v : mval D) : bool :=
    isinstance_str D v || isinstance_date D v || isinstance_decimal D v || isinstance_bool D v.

  (* the (current raw model, value) pairs that update_value handles in place *)
  Definition kinds_match (slot : option rawm) (v : mval D) : bool :=
    (is_string slot && isinstance_str D v) || (is_date slot && isinstance_date D v)
    || (is_number slot && isinstance_decimal D v) || (is_bool slot && isinstance_bool D v).

  Lemma update_value_spec : forall slot v,
    update_value slot v = if kinds_match slot v then (with_content slot (content_of v), true) else (slot, false).
  Proof.
    intros slot v. unfold MetaValue.update_value, kinds_match.
    destruct (is_string slot && isinstance_str D v); [reflexivity|].
    destruct (is_date slot && isinstance_date D v); [reflexivity|].
    destruct (is_number slot && isinstance_decimal D v); [reflexivity|].
    destruct (is_bool slot && isinstance_bool D v); reflexivity.
  Qed.

  Lemma kinds_match_scalar : forall slot v, kinds_match slot v = true -> scalar v = true /\ exists m, slot = Some m.
  Proof.
    intros [m|] v H; [split; [|eexists; reflexivity]|discriminate H].
    destruct v; cbn in H |- *; try reflexivity; destruct m as [i []]; discriminate H.
  Qed.

  Lemma from_value_scalar : forall fresh v, scalar v = true -> from_value fresh v = Some (RM fresh (content_of v)).
  Proof. intros fresh []; cbn; intros H; try reflexivity; discriminate H. Qed.

  Lemma from_value_other : forall fresh v, scalar v = false ->
    from_value fresh v = match v with MRaw r => Some r | _ => None end.
  Proof. intros fresh []; cbn; intros H; try reflexivity; discriminate H. Qed.

  Lemma node_set_ok : forall c v d s, node_set c v d = Ok s -> s = v.
  Proof.
    intros [c|] [r|] d s; cbn; intros H.
    - destruct (rm_id c =? rm_id r); [congruence|]. destruct d; congruence.
    - congruence.
    - destruct d; congruence.
    - congruence.
  Qed.

  Lemma node_set_err : forall c v d e, node_set c v d = Err e ->
    e = ValueError /\ d = false /\ exists r, v = Some r /\ (forall m, c = Some m -> rm_id m <> rm_id r).
  Proof.
    intros [c|] [r|] d e; cbn; intros H; try discriminate H.
    - destruct (rm_id c =? rm_id r) eqn:E; [discriminate H|]. destruct d; [discriminate H|].
      injection H as <-. repeat split. exists r. split; [reflexivity|].
      intros m Hm. injection Hm as <-. apply Z.eqb_neq. exact E.
    - destruct d; [discriminate H|]. injection H as <-. repeat split. exists r. split; [reflexivity|]. discriminate.
  Qed.

  (* the two branches of __set__ *)
  Theorem set_branches : forall slot v fresh det,
    set slot v fresh det =
    if kinds_match slot v then (with_content slot (content_of v), Ok tt)
    else match node_set slot (from_value fresh v) (match v with MRaw _ => det | _ => true end) with
         | Ok s => (s, Ok tt)
         | Err e => (slot, Err e)
         end.
  Proof.
    intros. unfold MetaValue.set. rewrite update_value_spec. destruct (kinds_match slot v); reflexivity.
  Qed.

  (* "in place iff same kind": when the current raw model has the type matching the value's, the SAME object stays
     in the slot and only its content is rewritten; otherwise the slot receives from_value(value) - a new model
     for a scalar, nothing for None, the very model handed in for a raw model *)
  Theorem set_in_place_iff : forall slot v fresh det slot',
    set slot v fresh det = (slot', Ok tt) ->
    if kinds_match slot v
    then exists m, slot = Some m /\ slot' = Some (RM (rm_id m) (content_of v))
    else slot' = from_value fresh v /\
         match v with
         | MNone => slot' = None
         | MRaw r => slot' = Some r
         | _ => slot' = Some (RM fresh (content_of v))
         end.
  Proof.
    intros slot v fresh det slot' H. rewrite set_branches in H.
    destruct (kinds_match slot v) eqn:K.
    - destruct (kinds_match_scalar slot v K) as (_ & m & ->). injection H as <-. exists m. split; reflexivity.
    - destruct (node_set slot (from_value fresh v) _) as [s|e] eqn:N; [|discriminate H].
      injection H as <-. apply node_set_ok in N. subst s. split; [reflexivity|].
      destruct v; reflexivity.
  Qed.

  (* a refusal: only a raw model that lives elsewhere (and is not the one already there); nothing changes *)
  Theorem set_refused : forall slot v fresh det slot' e,
    set slot v fresh det = (slot', Err e) ->
    slot' = slot /\ e = ValueError /\ det = false /\
    exists r, v = MRaw r /\ (forall m, slot = Some m -> rm_id m <> rm_id r).
  Proof.
    intros slot v fresh det slot' e H. rewrite set_branches in H.
    destruct (kinds_match slot v) eqn:K; [discriminate H|].
    destruct (node_set slot (from_value fresh v) _) as [s|e'] eqn:N; [discriminate H|].
    injection H as <- <-. apply node_set_err in N. destruct N as (-> & Hd & r & Hr & Hid).
    split; [reflexivity|]. split; [reflexivity|].
    destruct v; cbn in Hr; try discriminate Hr; try (discriminate Hd).
    injection Hr as <-. split; [exact Hd|]. eexists. split; [reflexivity|exact Hid].
  Qed.

  Theorem set_total : forall slot v fresh det,
    (match v with MRaw r => det = true \/ exists m, slot = Some m /\ rm_id m = rm_id r | _ => True end) ->
    exists slot', set slot v fresh det = (slot', Ok tt).
  Proof.
    intros slot v fresh det H.
    destruct (set slot v fresh det) as [slot' [[]|e]] eqn:E; [eexists; reflexivity|].
    apply set_refused in E. destruct E as (_ & _ & Hd & r & -> & Hid).
    destruct H as [H|(m & Hm & Hmid)]; [congruence|]. exfalso. exact (Hid m Hm Hmid).
  Qed.

  (* `item.value = raw_model` stores that very model *)
  Theorem set_raw_stores : forall slot r fresh,
    set slot (MRaw r) fresh true = (Some r, Ok tt).
  Proof.
    intros slot r fresh. rewrite set_branches.
    assert (K : kinds_match slot (MRaw r) = false).
    { unfold kinds_match. cbn. rewrite !andb_false_r. reflexivity. }
    rewrite K. cbn. destruct slot as [c|]; cbn; [|reflexivity].
    destruct (rm_id c =? rm_id r); reflexivity.
  Qed.

  Theorem set_none_clears : forall slot fresh det, set slot MNone fresh det = (None, Ok tt).
  Proof.
    intros slot fresh det. rewrite set_branches.
    assert (K : kinds_match slot MNone = false).
    { unfold kinds_match. cbn. rewrite !andb_false_r. reflexivity. }
    rewrite K. cbn. destruct slot; reflexivity.
  Qed.

  (* read-back needs the codecs' round trips (C12) and the three carrier laws of C13_from_value_exact *)
  Hypothesis str_rt : forall s, str_value (str_text s) = s.
  Hypothesis date_rt : forall d, date_value (date_text d) = d.
  Hypothesis bool_rt : forall b, bool_value (bool_text b) = b.
  Hypothesis num_rt : forall v, num_value (num_text (dabs v)) = dabs v.
  Hypothesis neg_abs : forall v, dltz v = true -> dneg (dabs v) = v.
  Hypothesis pos_abs : forall v, dltz v = false -> dabs v = v.

  Lemma get_content : forall i v, scalar v = true -> get (Some (RM i (content_of v))) = read_back v.
  Proof.
    intros i [] H; try discriminate H; cbn; rewrite ?str_rt, ?date_rt, ?bool_rt; try reflexivity.
    f_equal. unfold add_expr_from_value. destruct (dltz d) eqn:E; cbn; rewrite num_rt; auto.
  Qed.

  (* C09 read-back: for every value of the universe and every current content of the slot *)
  Theorem get_set : forall slot v fresh det slot',
    set slot v fresh det = (slot', Ok tt) -> get slot' = read_back v.
  Proof.
    intros slot v fresh det slot' H. pose proof (set_in_place_iff _ _ _ _ _ H) as S.
    destruct (kinds_match slot v) eqn:K.
    - destruct S as (m & _ & ->). apply get_content. apply (kinds_match_scalar slot v K).
    - destruct S as [-> _]. destruct (scalar v) eqn:Sc.
      + rewrite from_value_scalar by exact Sc. apply get_content, Sc.
      + rewrite from_value_other by exact Sc. destruct v; try discriminate Sc; reflexivity.
  Qed.

  (* a datetime does not read back as itself after the text is re-read *)
  Theorem get_set_datetime_refuted : forall d t slot fresh,
    get (fst (set slot (MDateTime d t) fresh true)) <> MDateTime d t.
  Proof.
    intros d t slot fresh.
    destruct (set slot (MDateTime d t) fresh true) as [slot' [[]|e]] eqn:E.
    - cbn [fst]. rewrite (get_set _ _ _ _ _ E). discriminate.
    - apply set_refused in E. destruct E as (_ & _ & Hd & _). discriminate Hd.
  Qed.
End Meta.
