(* _insert_tokens for a list of values: the loop in closed form (three separator modes), the result
   on an exposed document, freshness of the created tokens. *)
From AB Require Import Prelude PySeq RepeatedLib Repeated Fields RepeatedProofs RepeatedLayout.
From Coq Require Import ZifyBool Permutation.

Definition emptied (v : donor) : donor := mkdonor (d_node v) [] (d_first v) (d_last v).

Lemma detach_ok : forall v, detachable v = true -> detach v = Ok (d_store v, emptied v).
Proof. intros v H. unfold detach. now rewrite H. Qed.

Section Seps.
Variable ph : Z.
Variables seps sepsb : list (kind * str).

Fixpoint fr_after (fr : Z) (vs : list donor) : Z :=
  match vs with [] => fr | _ :: r => fr_after (fr + nseps seps) r end.

(* separators ++ value, ... *)
Fixpoint toks1 (fr : Z) (vs : list donor) : list tok :=
  match vs with [] => [] | v :: r => mk_seps fr seps ++ d_store v ++ toks1 (fr + nseps seps) r end.
(* value ++ separators, ... *)
Fixpoint toks2 (fr : Z) (vs : list donor) : list tok :=
  match vs with [] => [] | v :: r => d_store v ++ mk_seps fr seps ++ toks2 (fr + nseps seps) r end.
(* separators_before ++ value, then separators ++ value, ... *)
Definition toks3 (fr : Z) (vs : list donor) : list tok :=
  match vs with [] => [] | v :: r => mk_seps fr sepsb ++ d_store v ++ toks1 (fr + nsepsb sepsb) r end.
Definition fr_after3 (fr : Z) (vs : list donor) : Z :=
  match vs with [] => fr | _ :: r => fr_after (fr + nsepsb sepsb) r end.

Lemma acc_eta : forall acc, acc = mkacc (a_toks acc) (a_ref acc) (a_sbl acc) (a_fr acc) (a_done acc).
Proof. now destruct acc. Qed.

(* mode 1: every value is preceded by separators *)
Lemma ins_loop_m1 : forall vs d (items : list item) index length i acc,
  (index <> 0 \/ (i <> 0 /\ length = 0)) -> 0 <= i -> forallb detachable vs = true ->
  ins_loop seps sepsb d items index length i vs acc =
    (mkacc (a_toks acc ++ toks1 (a_fr acc) vs) (a_ref acc) (a_sbl acc) (fr_after (a_fr acc) vs)
           (a_done acc ++ map emptied vs), [], Ok tt).
Proof.
  induction vs as [|v r IH]; intros d items index length i acc Hm Hi Hd.
  - cbn. rewrite !app_nil_r. now rewrite <- acc_eta.
  - cbn [forallb] in Hd. apply andb_true_iff in Hd. destruct Hd as [Hv Hr].
    cbn [ins_loop].
    assert (Hc : negb (index =? 0) || negb (i =? 0) && (length =? 0) = true).
    { destruct Hm as [Hm|[Hm1 Hm2]].
      - apply Z.eqb_neq in Hm. now rewrite Hm.
      - apply Z.eqb_neq in Hm1. apply Z.eqb_eq in Hm2. rewrite Hm1, Hm2. apply orb_true_r. }
    rewrite Hc.
    rewrite detach_ok by exact Hv.
    assert (Hm' : index <> 0 \/ (i + 1 <> 0 /\ length = 0))
      by (destruct Hm as [Hm|[Hm1 Hm2]]; [now left|right; split; lia]).
    rewrite IH; [|exact Hm'|lia|exact Hr].
    cbn [a_toks a_ref a_sbl a_fr a_done toks1 fr_after map].
    repeat rewrite <- app_assoc. reflexivity.
Qed.

(* mode 2: every value is followed by separators; the reference becomes separators_before_last *)
Lemma ins_loop_m2 : forall vs d (items : list item) length i acc s,
  length <> 0 -> a_sbl acc = Some s -> forallb detachable vs = true ->
  ins_loop seps sepsb d items 0 length i vs acc =
    (mkacc (a_toks acc ++ toks2 (a_fr acc) vs) (match vs with [] => a_ref acc | _ => s end) (Some s)
           (fr_after (a_fr acc) vs) (a_done acc ++ map emptied vs), [], Ok tt).
Proof.
  induction vs as [|v r IH]; intros d items length i acc s Hl Hs Hd.
  - cbn. rewrite !app_nil_r. rewrite <- Hs. now rewrite <- acc_eta.
  - cbn [forallb] in Hd. apply andb_true_iff in Hd. destruct Hd as [Hv Hr].
    cbn [ins_loop].
    assert (Hl0 : (length =? 0) = false) by (now apply Z.eqb_neq).
    cbn [Z.eqb negb orb]. rewrite Hl0, andb_false_r. cbn [negb].
    rewrite detach_ok by exact Hv. rewrite Hs.
    rewrite (IH _ _ _ _ _ s); [|exact Hl|reflexivity|exact Hr].
    cbn [a_toks a_ref a_sbl a_fr a_done toks2 fr_after map].
    repeat rewrite <- app_assoc.
    destruct r; reflexivity.
Qed.

(* ---- insert_after / guard facts -------------------------------------------------------------------- *)
Lemma split_at_in : forall i d, In i (ids d) -> exists a t b, split_at i d = Some (a, t, b).
Proof.
  induction d as [|x d IH]; simpl; intros H; [tauto|].
  destruct (tid x =? i) eqn:E; [now eexists _, _, _|].
  destruct H as [H|H]; [lia|]. destruct (IH H) as (a & t & b & ->). now eexists _, _, _.
Qed.

Lemma insert_after_nil : forall i d, In i (ids d) -> st_insert_after i [] d = Ok d.
Proof.
  intros i d H. unfold st_insert_after. destruct (split_at_in _ _ H) as (a & t & b & E). rewrite E.
  apply split_at_sound in E. destruct E as [-> _]. reflexivity.
Qed.

Lemma guard_disjoint : forall ts d, (forall t, In t ts -> ~ In (tid t) (ids d)) -> guard ts d = true.
Proof.
  intros ts d H. unfold guard. apply negb_true_iff.
  destruct (existsb _ ts) eqn:E; [|reflexivity].
  apply existsb_exists in E. destruct E as (t & Ht & Hm). apply zmem_true in Hm. exfalso. eapply H; eauto.
Qed.

(* ---- insert_tokens on an exposed document ----------------------------------------------------------- *)
Lemma insert_tokens_m1 : forall (items : list item) P p Q index vs length sbl fr,
  NoDup (ids (P ++ p :: Q)) -> index <> 0 -> prev_last ph items index = Ok (tid p) ->
  forallb detachable vs = true -> guard (toks1 fr vs) (P ++ p :: Q) = true ->
  insert_tokens ph seps sepsb (P ++ p :: Q) items index vs length sbl fr =
    (P ++ p :: toks1 fr vs ++ Q, map emptied vs, fr_after fr vs, Ok tt).
Proof.
  intros items P p Q index vs length sbl fr Hnd Hi Hpl Hd Hg.
  unfold insert_tokens. rewrite Hpl.
  rewrite ins_loop_m1; [|left; exact Hi|lia|exact Hd].
  cbn [a_toks a_ref a_fr a_done app].
  rewrite insert_after_mid; [now rewrite app_nil_r|eapply nodup_mid_l; exact Hnd|exact Hg].
Qed.

Lemma insert_tokens_m3 : forall (items : list item) P pht Q vs sbl fr,
  tid pht = ph -> NoDup (ids (P ++ pht :: Q)) ->
  forallb detachable vs = true -> guard (toks3 fr vs) (P ++ pht :: Q) = true ->
  insert_tokens ph seps sepsb (P ++ pht :: Q) items 0 vs 0 sbl fr =
    (P ++ pht :: toks3 fr vs ++ Q, map emptied vs, fr_after3 fr vs, Ok tt).
Proof.
  intros items P pht Q vs sbl fr Hph Hnd Hd Hg.
  unfold insert_tokens, prev_last. cbn [Z.ltb Z.compare].
  destruct vs as [|v r].
  - cbn [ins_loop a_ref a_toks a_done a_fr toks3 fr_after3 map app].
    rewrite <- Hph. rewrite insert_after_mid; [reflexivity|eapply nodup_mid_l; exact Hnd|reflexivity].
  - cbn [forallb] in Hd. apply andb_true_iff in Hd. destruct Hd as [Hv Hr].
    cbn [ins_loop Z.eqb negb orb andb]. rewrite detach_ok by exact Hv.
    rewrite ins_loop_m1; [|right; split; lia|lia|exact Hr].
    cbn [a_toks a_ref a_fr a_done app toks3 fr_after3 map] in *.
    rewrite <- app_assoc.
    rewrite <- Hph. rewrite insert_after_mid; [|eapply nodup_mid_l; exact Hnd|exact Hg].
    repeat rewrite <- app_assoc. rewrite app_nil_r. reflexivity.
Qed.

(* mode 2 with separators_before_last supplied by the caller (slice assignment) *)
Lemma insert_tokens_m2_some : forall (items : list item) P s Q vs length fr,
  In ph (ids (P ++ s :: Q)) -> NoDup (ids (P ++ s :: Q)) -> length <> 0 ->
  forallb detachable vs = true -> guard (toks2 fr vs) (P ++ s :: Q) = true ->
  insert_tokens ph seps sepsb (P ++ s :: Q) items 0 vs length (Some (tid s)) fr =
    (P ++ s :: toks2 fr vs ++ Q, map emptied vs, fr_after fr vs, Ok tt).
Proof.
  intros items P s Q vs length fr Hin Hnd Hl Hd Hg.
  unfold insert_tokens, prev_last. cbn [Z.ltb Z.compare].
  rewrite (ins_loop_m2 vs _ _ _ _ _ (tid s)); [|exact Hl|reflexivity|exact Hd].
  cbn [a_toks a_ref a_fr a_done app]. rewrite app_nil_r.
  destruct vs as [|v r].
  - cbn [toks2 app]. rewrite insert_after_nil by exact Hin. reflexivity.
  - rewrite insert_after_mid; [reflexivity|eapply nodup_mid_l; exact Hnd|exact Hg].
Qed.

(* mode 2 with separators_before_last computed inside the loop (insert / append / extend) *)
Lemma insert_tokens_m2_none : forall (items : list item) P s n Q vs length fr (it0 : item),
  In ph (ids (P ++ s :: n :: Q)) -> NoDup (ids (P ++ s :: n :: Q)) -> length <> 0 ->
  list_get_int items 0 = Ok it0 -> fst it0 = tid n ->
  forallb detachable vs = true -> guard (toks2 fr vs) (P ++ s :: n :: Q) = true ->
  insert_tokens ph seps sepsb (P ++ s :: n :: Q) items 0 vs length None fr =
    (P ++ s :: toks2 fr vs ++ n :: Q, map emptied vs, fr_after fr vs, Ok tt).
Proof.
  intros items P s n Q vs length fr it0 Hin Hnd Hl Hget Hf Hd Hg.
  destruct vs as [|v r].
  - unfold insert_tokens, prev_last. cbn [Z.ltb Z.compare ins_loop a_ref a_toks a_done a_fr toks2 fr_after map app].
    rewrite insert_after_nil by exact Hin. reflexivity.
  - cbn [forallb] in Hd. apply andb_true_iff in Hd. destruct Hd as [Hv Hr].
    unfold insert_tokens, prev_last. cbn [Z.ltb Z.compare ins_loop Z.eqb negb orb andb].
    assert (Hl0 : (length =? 0) = false) by (now apply Z.eqb_neq).
    rewrite Hl0. cbn [negb].
    rewrite detach_ok by exact Hv. cbn [a_sbl]. rewrite Hget, Hf.
    replace (P ++ s :: n :: Q) with ((P ++ [s]) ++ n :: Q) by (now rewrite <- app_assoc).
    rewrite get_prev_mid by (eapply nodup_mid_l; rewrite <- app_assoc; exact Hnd).
    rewrite last_opt_snoc. cbn [option_map].
    rewrite (ins_loop_m2 r _ _ _ _ _ (tid s)); [|exact Hl|reflexivity|exact Hr].
    cbn [a_toks a_ref a_fr a_done app].
    replace (match r with [] => tid s | _ :: _ => tid s end) with (tid s) by (now destruct r).
    replace ((P ++ [s]) ++ n :: Q) with (P ++ s :: n :: Q) by (now rewrite <- app_assoc).
    replace ((d_store v ++ mk_seps fr seps) ++ toks2 (fr + nseps seps) r) with (toks2 fr (v :: r))
      by (cbn [toks2]; now rewrite <- app_assoc).
    rewrite insert_after_mid; [|eapply nodup_mid_l; exact Hnd|exact Hg].
    cbn [toks2 fr_after map]. repeat rewrite <- app_assoc. rewrite app_nil_r. reflexivity.
Qed.

(* ---- the created tokens are fresh -------------------------------------------------------------------- *)
Lemma mk_seps_ids_range : forall s fr x, In x (ids (mk_seps fr s)) -> fr <= x < fr + zlen s.
Proof.
  induction s as [|[k t] r IH]; intros fr x H; [destruct H|].
  cbn in H. rewrite zlen_cons. pose proof (zlen_nonneg r). destruct H as [H|H]; [lia|].
  apply IH in H. lia.
Qed.

Lemma mk_seps_nodup : forall s fr, NoDup (ids (mk_seps fr s)).
Proof.
  induction s as [|[k t] r IH]; intros fr; cbn; constructor; [|apply IH].
  intro H. apply mk_seps_ids_range in H. lia.
Qed.

Lemma mk_seps_kind : forall s fr, forallb (fun p => is_sep (fst p)) s = true -> all_sep (mk_seps fr s) = true.
Proof.
  induction s as [|[k t] r IH]; intros fr H; [reflexivity|].
  cbn in *. apply andb_true_iff in H. destruct H as [H1 H2]. now rewrite H1, IH.
Qed.

Lemma nodup_app_intro : forall (a b : list Z), NoDup a -> NoDup b -> (forall x, In x a -> ~ In x b) -> NoDup (a ++ b).
Proof.
  induction a as [|x a IH]; intros b Ha Hb H; [exact Hb|].
  inversion Ha; subst. cbn. constructor.
  - intro Hin. apply in_app_or in Hin. destruct Hin as [Hin|Hin]; [contradiction|].
    apply (H x); [now left|exact Hin].
  - apply IH; [assumption|assumption|]. intros y Hy. apply H. now right.
Qed.

Lemma nodup_app_l : forall (a b : list Z), NoDup (a ++ b) -> NoDup a.
Proof.
  induction a as [|x a IH]; intros b H; [constructor|].
  cbn in H. inversion H; subst. constructor; [|eapply IH; eassumption].
  intro Hin. apply H2. apply in_or_app. now left.
Qed.

Lemma nodup_app_rr : forall (a b : list Z), NoDup (a ++ b) -> NoDup b.
Proof.
  induction a as [|x a IH]; intros b H; [exact H|].
  cbn in H. inversion H; subst. now apply IH.
Qed.

Lemma nodup_app_disj : forall (a b : list Z) x, NoDup (a ++ b) -> In x a -> ~ In x b.
Proof.
  induction a as [|y a IH]; intros b x H Hx; [destruct Hx|].
  cbn in H. inversion H; subst. destruct Hx as [->|Hx].
  - intro Hb. apply H2. apply in_or_app. now right.
  - now apply IH.
Qed.

(* inserting a duplicate-free, disjoint block into a duplicate-free list *)
Lemma nodup_insert : forall (a c b : list Z),
  NoDup (a ++ b) -> NoDup c -> (forall x, In x c -> ~ In x (a ++ b)) -> NoDup (a ++ c ++ b).
Proof.
  intros a c b Hab Hc Hd.
  apply (Permutation_NoDup (l := c ++ a ++ b)); [apply Permutation_app_swap_app|].
  apply nodup_app_intro; assumption.
Qed.

Definition dids (vs : list donor) : list Z := flat_map (fun v => ids (d_store v)) vs.

(* one step: separators s0 (ids from fr) ++ store of v ++ T *)
Lemma toks_step : forall s0 fr v T (D : list Z),
  (forall x, In x (ids (d_store v)) -> x < fr) -> NoDup (ids (d_store v)) ->
  (forall x, In x (ids T) -> fr + zlen s0 <= x \/ In x D) -> NoDup (ids T) ->
  (forall x, In x D -> x < fr) -> (forall x, In x (ids (d_store v)) -> ~ In x D) ->
  NoDup (ids (mk_seps fr s0 ++ d_store v ++ T)) /\
  (forall x, In x (ids (mk_seps fr s0 ++ d_store v ++ T)) -> fr <= x \/ In x (ids (d_store v) ++ D)).
Proof.
  intros s0 fr v T D Hv Hvn HT HTn HD Hdis. pose proof (zlen_nonneg s0) as Hz. split.
  - rewrite !ids_app. apply nodup_app_intro; [apply mk_seps_nodup| |].
    + apply nodup_app_intro; [exact Hvn|exact HTn|].
      intros x Hx HxT. destruct (HT x HxT) as [H|H]; [apply Hv in Hx; lia|exact (Hdis x Hx H)].
    + intros x Hx Hin. apply mk_seps_ids_range in Hx. apply in_app_or in Hin. destruct Hin as [Hin|Hin].
      * apply Hv in Hin. lia.
      * destruct (HT x Hin) as [H|H]; [lia|apply HD in H; lia].
  - intros x Hx. rewrite !ids_app in Hx. apply in_app_or in Hx. destruct Hx as [Hx|Hx].
    + apply mk_seps_ids_range in Hx. left. lia.
    + apply in_app_or in Hx. destruct Hx as [Hx|Hx].
      * right. apply in_or_app. now left.
      * destruct (HT x Hx) as [H|H]; [left; lia|right; apply in_or_app; now right].
Qed.

Lemma toks1_fresh : forall vs fr,
  (forall x, In x (dids vs) -> x < fr) -> NoDup (dids vs) ->
  NoDup (ids (toks1 fr vs)) /\ (forall x, In x (ids (toks1 fr vs)) -> fr <= x \/ In x (dids vs)).
Proof.
  induction vs as [|v r IH]; intros fr Hb Hn.
  - split; [constructor|]. intros x [].
  - cbn [toks1 dids flat_map] in *. fold (dids r) in *.
    pose proof (zlen_nonneg seps) as Hz.
    destruct (IH (fr + nseps seps)) as [IH1 IH2].
    { intros x Hx. assert (x < fr) by (apply Hb; apply in_or_app; now right). unfold nseps. lia. }
    { eapply nodup_app_rr. exact Hn. }
    apply toks_step.
    + intros x Hx. apply Hb. apply in_or_app. now left.
    + eapply nodup_app_l. exact Hn.
    + exact IH2.
    + exact IH1.
    + intros x Hx. apply Hb. apply in_or_app. now right.
    + intros x Hx. eapply nodup_app_disj; [exact Hn|exact Hx].
Qed.

Lemma toks3_fresh : forall vs fr,
  (forall x, In x (dids vs) -> x < fr) -> NoDup (dids vs) ->
  NoDup (ids (toks3 fr vs)) /\ (forall x, In x (ids (toks3 fr vs)) -> fr <= x \/ In x (dids vs)).
Proof.
  intros [|v r] fr Hb Hn.
  - split; [constructor|]. intros x [].
  - cbn [toks3 dids flat_map] in *. fold (dids r) in *.
    pose proof (zlen_nonneg sepsb) as Hz.
    destruct (toks1_fresh r (fr + nsepsb sepsb)) as [IH1 IH2].
    { intros x Hx. assert (x < fr) by (apply Hb; apply in_or_app; now right). unfold nsepsb. lia. }
    { eapply nodup_app_rr. exact Hn. }
    apply toks_step.
    + intros x Hx. apply Hb. apply in_or_app. now left.
    + eapply nodup_app_l. exact Hn.
    + exact IH2.
    + exact IH1.
    + intros x Hx. apply Hb. apply in_or_app. now right.
    + intros x Hx. eapply nodup_app_disj; [exact Hn|exact Hx].
Qed.

Lemma toks12_perm : forall vs fr, Permutation (toks1 fr vs) (toks2 fr vs).
Proof.
  induction vs as [|v r IH]; intros fr; [constructor|].
  cbn [toks1 toks2].
  eapply perm_trans; [apply Permutation_app_swap_app|].
  apply Permutation_app_head. apply Permutation_app_head. apply IH.
Qed.

Lemma toks2_fresh : forall vs fr,
  (forall x, In x (dids vs) -> x < fr) -> NoDup (dids vs) ->
  NoDup (ids (toks2 fr vs)) /\ (forall x, In x (ids (toks2 fr vs)) -> fr <= x \/ In x (dids vs)).
Proof.
  intros vs fr Hb Hn. destruct (toks1_fresh vs fr Hb Hn) as [H1 H2].
  assert (P : Permutation (ids (toks1 fr vs)) (ids (toks2 fr vs))) by (apply Permutation_map, toks12_perm).
  split; [eapply Permutation_NoDup; eassumption|].
  intros x Hx. apply H2. eapply Permutation_in; [apply Permutation_sym; exact P|exact Hx].
Qed.

End Seps.
