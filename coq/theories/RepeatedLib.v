(* List / Python-index facts used by the Repeated* proofs (self-contained copies, so that these proofs do not
   depend on files other contributors are editing). *)
From AB Require Import Prelude PySeq.
From Coq Require Import ZifyBool FinFun.

Lemma zlen_nonneg {A} (l : list A) : 0 <= zlen l.
Proof. unfold zlen. lia. Qed.

Lemma zlen_app {A} (a b : list A) : zlen (a ++ b) = zlen a + zlen b.
Proof. unfold zlen. rewrite app_length. lia. Qed.

Lemma zlen_cons {A} (x : A) (l : list A) : zlen (x :: l) = 1 + zlen l.
Proof. unfold zlen. cbn [length]. lia. Qed.

Lemma zlen_nil {A} : zlen (@nil A) = 0.
Proof. reflexivity. Qed.

Lemma zlen_map {A B} (f : A -> B) (l : list A) : zlen (map f l) = zlen l.
Proof. unfold zlen. now rewrite map_length. Qed.

Lemma zfirstn_app_exact {A} (a b : list A) : zfirstn (zlen a) (a ++ b) = a.
Proof.
  unfold zfirstn, zlen. rewrite Nat2Z.id.
  rewrite firstn_app, Nat.sub_diag, firstn_all. cbn. apply app_nil_r.
Qed.

Lemma zskipn_app_exact {A} (a b : list A) : zskipn (zlen a) (a ++ b) = b.
Proof.
  unfold zskipn, zlen. rewrite Nat2Z.id.
  rewrite skipn_app, Nat.sub_diag, skipn_all. reflexivity.
Qed.

Lemma splice_mid {A} (a b c xs : list A) :
  splice (a ++ b ++ c) (zlen a) (zlen a + zlen b) xs = a ++ xs ++ c.
Proof.
  unfold splice. rewrite zfirstn_app_exact.
  replace (Z.max (zlen a) (zlen a + zlen b)) with (zlen (a ++ b))
    by (rewrite zlen_app; pose proof (zlen_nonneg b); lia).
  replace (a ++ b ++ c) with ((a ++ b) ++ c) by (now rewrite app_assoc).
  rewrite zskipn_app_exact. reflexivity.
Qed.

Lemma splice_one {A} (a c : list A) (x : A) (xs : list A) :
  splice (a ++ x :: c) (zlen a) (zlen a + 1) xs = a ++ xs ++ c.
Proof.
  change (a ++ x :: c) with (a ++ [x] ++ c).
  replace (zlen a + 1) with (zlen a + zlen [x]) by reflexivity. apply splice_mid.
Qed.

Lemma splice_ins {A} (a c xs : list A) (b : Z) :
  b <= zlen a -> splice (a ++ c) (zlen a) b xs = a ++ xs ++ c.
Proof.
  intros H. unfold splice. rewrite zfirstn_app_exact.
  replace (Z.max (zlen a) b) with (zlen a) by lia. now rewrite zskipn_app_exact.
Qed.

Lemma nth_error_mid {A} (a c : list A) (x : A) :
  nth_error (a ++ x :: c) (Z.to_nat (zlen a)) = Some x.
Proof.
  unfold zlen. rewrite Nat2Z.id. rewrite nth_error_app2 by lia. now rewrite Nat.sub_diag.
Qed.

Lemma list_get_int_mid {A} (a c : list A) (x : A) :
  list_get_int (a ++ x :: c) (zlen a) = Ok x.
Proof.
  unfold list_get_int, norm_index.
  pose proof (zlen_nonneg a). pose proof (zlen_nonneg c).
  rewrite zlen_app, zlen_cons.
  replace ((0 <=? zlen a) && (zlen a <? zlen a + (1 + zlen c))) with true by lia.
  now rewrite nth_error_mid.
Qed.

Lemma list_set_int_mid {A} (a c : list A) (x y : A) :
  list_set_int (a ++ x :: c) (zlen a) y = Ok (a ++ y :: c).
Proof.
  unfold list_set_int, norm_index.
  pose proof (zlen_nonneg a). pose proof (zlen_nonneg c).
  rewrite zlen_app, zlen_cons.
  replace ((0 <=? zlen a) && (zlen a <? zlen a + (1 + zlen c))) with true by lia.
  now rewrite splice_one.
Qed.

Lemma norm_index_ok n i j : norm_index n i = Ok j -> 0 <= j < n /\ (j = i \/ j = i + n).
Proof.
  unfold norm_index. intros H.
  destruct ((0 <=? i) && (i <? n)) eqn:E1.
  - inversion H; subst. lia.
  - destruct ((i <? 0) && (0 <=? i + n)) eqn:E2; inversion H; subst. lia.
Qed.

Lemma norm_index_err n i e : norm_index n i = Err e -> e = IndexError /\ (i < - n \/ n <= i).
Proof.
  unfold norm_index. intros H.
  destruct ((0 <=? i) && (i <? n)) eqn:E1; [discriminate|].
  destruct ((i <? 0) && (0 <=? i + n)) eqn:E2; [discriminate|].
  inversion H. split; [reflexivity|lia].
Qed.

Lemma list_set_slice_plain {A} (l : list A) (a b : Z) (xs : list A) :
  0 <= a <= zlen l -> 0 <= b <= zlen l ->
  list_set_slice l (mkslc (Some a) (Some b) None) xs = Ok (splice l a b xs).
Proof.
  intros Ha Hb. unfold list_set_slice, slice_indices. cbn [sl_step sl_start sl_stop].
  cbn [Z.eqb Z.ltb Z.compare].
  replace (a <? 0) with false by lia. replace (b <? 0) with false by lia.
  replace (Z.min a (zlen l)) with a by lia. replace (Z.min b (zlen l)) with b by lia.
  reflexivity.
Qed.

Lemma slice_indices_range n sl a b k :
  0 <= n -> slice_indices n sl = Ok (a, b, k) ->
  k <> 0 /\ (0 < k -> 0 <= a <= n /\ 0 <= b <= n) /\ (k < 0 -> -1 <= a <= n - 1 /\ -1 <= b <= n - 1).
Proof.
  unfold slice_indices. intros Hn H.
  destruct (match sl_step sl with Some k0 => k0 | None => 1 end =? 0) eqn:E0; [discriminate|].
  inversion H as [[Ha Hb Hk]]. rewrite Hk in *. clear H.
  split; [lia|]. split; intros Hs.
  - replace (k <? 0) with false by lia.
    split; [destruct (sl_start sl) as [z|]; [destruct (z <? 0) eqn:Ez|] | destruct (sl_stop sl) as [z|]; [destruct (z <? 0) eqn:Ez|]]; lia.
  - replace (k <? 0) with true by lia.
    split; [destruct (sl_start sl) as [z|]; [destruct (z <? 0) eqn:Ez|] | destruct (sl_stop sl) as [z|]; [destruct (z <? 0) eqn:Ez|]]; lia.
Qed.

Lemma splice_one_len {A} (l : list A) (j : Z) (x : A) :
  0 <= j < zlen l -> zlen (splice l j (j + 1) [x]) = zlen l.
Proof.
  intros H. unfold splice, zfirstn, zskipn, zlen in *.
  rewrite !app_length, firstn_length, skipn_length. cbn [length]. lia.
Qed.

Lemma list_set_int_valid {A} (l : list A) (p : Z) (x : A) :
  0 <= p < zlen l -> list_set_int l p x = Ok (splice l p (p + 1) [x]).
Proof.
  intros H. unfold list_set_int, norm_index.
  now replace ((0 <=? p) && (p <? zlen l)) with true by lia.
Qed.

Lemma range_list_bounds n sl a b k :
  0 <= n -> slice_indices n sl = Ok (a, b, k) ->
  Forall (fun p => 0 <= p < n) (range_list (mkrng a b k)).
Proof.
  intros Hn H. destruct (slice_indices_range _ _ _ _ _ Hn H) as (Hk & Hpos & Hneg).
  unfold range_list, range_len. cbn [r_start r_stop r_step].
  apply Forall_forall. intros p Hp. apply in_map_iff in Hp. destruct Hp as (i & <- & Hi).
  apply in_seq in Hi.
  destruct (0 <? k) eqn:Ek.
  - destruct (Hpos ltac:(lia)) as (Ha & Hb).
    destruct (a <? b) eqn:Eab; [|cbn in Hi; lia].
    assert (H1 : k * ((b - a - 1) / k) <= b - a - 1) by (apply Z.mul_div_le; lia).
    assert (H0 : 0 <= (b - a - 1) / k) by (apply Z.div_pos; lia).
    assert (Hi' : Z.of_nat i <= (b - a - 1) / k) by lia.
    nia.
  - destruct (Hneg ltac:(lia)) as (Ha & Hb).
    destruct (b <? a) eqn:Eab; [|cbn in Hi; lia].
    assert (H1 : (- k) * ((a - b - 1) / (- k)) <= a - b - 1) by (apply Z.mul_div_le; lia).
    assert (H0 : 0 <= (a - b - 1) / (- k)) by (apply Z.div_pos; lia).
    assert (Hi' : Z.of_nat i <= (a - b - 1) / (- k)) by lia.
    nia.
Qed.

Lemma range_list_nodup r : r_step r <> 0 -> NoDup (range_list r).
Proof.
  intros Hs. unfold range_list. apply Injective_map_NoDup; [|apply seq_NoDup].
  intros x y H. nia.
Qed.
