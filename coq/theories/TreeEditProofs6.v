(* Proofs about edits, part 6: the separators of a removed optional child that stay next to the pivot although the
   owner of the field now ends (begins) at the pivot (TreeEdit.regap): they become a gap of the deepest ancestor that
   goes on beyond the pivot - right after (before) the unit that ends (begins) with the pivot - and, when that unit
   is an item of a Repeated that goes on beyond the pivot as well, of the Repeated's token list. Inserting such a
   gap keeps HWF; with it remove_opt keeps HWF in every case, and so does every history over all slot kinds. *)
From AB Require Import Desc Tree TreeDefs TreeProofs TreeProofs2 TreeProofs3 TreeProofs4 TreeWF TreeWFProofs.
From AB Require Import Construct ConstructProofs ConstructWF TreeEdit TreeEditProofs TreeEditProofs2 TreeEditProofs3 TreeEditProofs4 TreeEditProofs5.
From Coq Require Import ZArith List Bool Lia.
Import ListNotations.
Open Scope list_scope.

(* the side of a unit on which the pivot of a left / right field sits *)
Definition ksp (k : fkind) : side := match k with FOptL _ => SLast | _ => SFirst end.

Lemma NoDup_ids_join : forall a b, NoDup (ids a) -> NoDup (ids b) ->
  (forall x y, In x a -> In y b -> k_id x <> k_id y) -> NoDup (ids (a ++ b)).
Proof.
  induction a as [|z a IH]; intros b Ha Hb Hd; [exact Hb|]. simpl. inversion Ha as [|? ? Hn Ha']. subst. constructor.
  - unfold ids. rewrite map_app. intro Hin. apply in_app_or in Hin. destruct Hin as [Hin|Hin]; [exact (Hn Hin)|].
    apply in_map_iff in Hin. destruct Hin as (y & Ey & Hy). apply (Hd z y); [left; reflexivity|exact Hy|]. symmetry. exact Ey.
  - apply IH; auto. intros x y Hx Hy. apply Hd; [right; exact Hx|exact Hy].
Qed.

Lemma endtok_last_snoc : forall A pv, endtok SLast A = Some pv -> exists A0, A = A0 ++ [pv].
Proof.
  intros A pv H. simpl in H. destruct (rev A) as [|z r] eqn:Er; [discriminate|]. simpl in H. inversion H. subst z.
  exists (rev r). apply rev_cons_snoc. exact Er.
Qed.
Lemma endtok_first_cons : forall B pv, endtok SFirst B = Some pv -> exists B0, B = pv :: B0.
Proof. intros [|z B] pv H; simpl in H; [discriminate|]. inversion H. exists B. reflexivity. Qed.

Lemma ins_next_spec : forall k pv g A B, is_opt k = true -> NoDup (ids (A ++ B)) ->
  match k with FOptL _ => endtok SLast A = Some pv | _ => endtok SFirst B = Some pv end ->
  ins_next k pv g (A ++ B) = Some (A ++ g ++ B).
Proof.
  intros k pv g A B Hk Hnd H. unfold ins_next. destruct k; try discriminate.
  - destruct (endtok_last_snoc A pv H) as (A0 & E). subst A. rewrite <- app_assoc in *. simpl in *.
    rewrite (find_off_mid A0 pv B Hnd).
    replace (S (length A0)) with (length (A0 ++ [pv])) by (rewrite app_length; simpl; lia).
    replace (A0 ++ pv :: B) with ((A0 ++ [pv]) ++ B) by (rewrite <- app_assoc; reflexivity).
    rewrite splice_at. rewrite <- app_assoc. reflexivity.
  - destruct (endtok_first_cons B pv H) as (B0 & E). subst B.
    rewrite (find_off_mid A pv B0 Hnd). rewrite splice_at. reflexivity.
Qed.

Lemma far_end_true : forall k pv T, at_far_end k pv T = true -> endtok (ksp k) T = Some pv.
Proof.
  intros k pv T H. unfold at_far_end in H. destruct k; simpl;
    try (destruct T as [|z T]; [discriminate|]; apply tk_same_eq in H; subst; reflexivity).
  destruct (rev T) as [|z r]; [discriminate|]. apply tk_same_eq in H. subst. reflexivity.
Qed.

Lemma far_end_false : forall k pv A B, is_opt k = true -> at_far_end k pv (A ++ B) = false ->
  match k with FOptL _ => endtok SLast A = Some pv -> B <> [] | _ => endtok SFirst B = Some pv -> A <> [] end.
Proof.
  intros k pv A B Hk H. unfold at_far_end in H. destruct k; try discriminate; intros He E; subst.
  - rewrite app_nil_r in H. simpl in He. destruct (rev A); [discriminate|]. simpl in He. inversion He. subst.
    rewrite tk_same_refl in H. discriminate.
  - simpl in H. destruct B; [discriminate|]. simpl in He. inversion He. subst. rewrite tk_same_refl in H. discriminate.
Qed.

Section Gap.
Variable cs : classes_t.
Hypothesis Hok : classes_ok cs.
Hypothesis Hpivs : classes_pivots_ok cs.

(* the first / last token of a tree model is computed from its children only *)
Lemma ends_ok_same_kids : forall c s T T' kids d,
  ends_ok cs (SReq (Tree c s T kids d)) T -> (forall sd, endtok sd T' = endtok sd T) ->
  ends_ok cs (SReq (Tree c s T' kids d)) T'.
Proof.
  intros c s T T' kids d (m0 & H) E. exists (S m0). intros m sd Hm. destruct m as [|m]; [lia|].
  specialize (H (S m) sd ltac:(lia)). cbn [slot_border] in H |- *.
  rewrite (border_tree_get cs m sd c s T' kids d). rewrite (border_tree_get cs m sd c s T kids d) in H.
  rewrite E. exact H.
Qed.

Lemma endtok_gap : forall A g B, A <> [] -> B <> [] -> forall sd, endtok sd (A ++ g ++ B) = endtok sd (A ++ B).
Proof.
  intros A g B HA HB sd. change (A ++ B) with (A ++ [] ++ B). apply endtok_outer_cons. destruct sd; assumption.
Qed.

(* what HWF says about the units below a child slot *)
Lemma slot_sub_facts : forall c s T kids d f sl, HWF cs (Tree c s T kids d) -> kid kids f = Some sl ->
  forall u, In u (slot_subunits subunits sl) ->
    unit_ok cs s u /\ woven (unit_toks u) (unit_children u) /\ exempt u = false /\ (forall n, u = UNode n -> SWF cs n).
Proof.
  intros c s T kids d f sl Hroot Ek u Hu.
  pose proof (HWF_SWF _ _ Hroot) as [(_ & W2 & _) Hwov]. simpl root_sid in W2.
  assert (Hp : In u (proper_units (Tree c s T kids d))).
  { simpl. apply In_kids_flat. exists f, sl. split; [apply kid_In; exact Ek|exact Hu]. }
  assert (Hs : In u (subunits (Tree c s T kids d))) by (rewrite subunits_tree; right; exact Hp).
  split; [apply W2; exact Hs|]. split; [apply Hwov; exact Hs|]. split; [apply (proj2 Hroot); exact Hp|].
  intros n E. subst u. apply (proj1 Hroot). exact Hs.
Qed.

(* a gap g next to the single unit U of a child slot, on the side where U ends with pv, in a node that goes on beyond pv *)
Lemma gap_unit_ok : forall c s T kids d f sl U k pv g,
  HWF cs (Tree c s T kids d) -> kid kids f = Some sl -> slot_units sl = [U] -> is_opt k = true ->
  endtok (ksp k) U = Some pv -> at_far_end k pv T = false ->
  (forall t, In t g -> significant t = false) -> NoDup (ids g) ->
  (forall t t', In t g -> In t' T -> k_id t <> k_id t') ->
  exists A B, T = A ++ B
    /\ match k with FOptL _ => endtok SLast A = Some pv | _ => endtok SFirst B = Some pv end
    /\ local_edit cs (Tree c s T kids d) (Tree c s (A ++ g ++ B) kids d) A [] g B g.
Proof.
  intros c s T kids d f sl U k pv g Hroot Ek Eu Hk He Hfar Hins Hndg Hfresh.
  pose proof (HWF_SWF _ _ Hroot) as [(W1 & W2 & W3 & W4 & W5) Hwov]. simpl node_toks in *. simpl root_sid in W2.
  set (A0 := Tree c s T kids d) in *.
  assert (HuA : In (UNode A0) (subunits A0)) by (unfold A0; rewrite subunits_tree; left; reflexivity).
  destruct (kid_split _ _ _ Ek) as (K1 & K2 & EK & Eset).
  destruct (tree_decomp cs c s T kids d f sl U Hroot Ek Eu) as (_ & _ & _ & _ & _ & _ & _ & _ & _ & X4 & X5).
  pose proof (Hwov _ HuA) as HwA. unfold A0 in HwA. simpl unit_toks in HwA. simpl unit_children in HwA.
  unfold kids_units in HwA. rewrite EK, kids_flat_app, kids_flat_cons, Eu in HwA.
  destruct (woven_app_inv _ _ T HwA) as (T1 & T2 & ET & Hw1 & Hw2).
  simpl app in Hw2. destruct Hw2 as (g0 & T3 & ET2 & Hw3). subst T2.
  set (P := T1 ++ g0). set (Q := T3).
  assert (ETm : T = P ++ U ++ Q) by (unfold P, Q; rewrite ET, <- !app_assoc; reflexivity).
  assert (HwP : woven P (kids_flat slot_units K1)) by (unfold P; apply woven_glue; exact Hw1).
  assert (HU : U <> []) by (intro E; subst U; destruct k; discriminate).
  assert (HndU : NoDup (ids U)) by (rewrite ETm in W1; apply NoDup_ids_app_r in W1; apply NoDup_ids_app_l in W1; exact W1).
  assert (HUT : forall t, In t U -> In t T) by (intros t Ht; rewrite ETm; apply in_or_app; right; apply in_or_app; left; exact Ht).
  assert (Y3 : NoDup (ids (slot_leaves sl))).
  { unfold A0 in W3. rewrite leaves_tree, EK, kids_flat_app, kids_flat_cons in W3.
    apply NoDup_ids_app_r in W3. apply NoDup_ids_app_l in W3. exact W3. }
  assert (Hends0 : exempt (UNode A0) = false -> ends_ok cs (SReq A0) T).
  { intro Hex. destruct (W2 _ HuA) as (_ & Hfl & _). exact (first_last_ends cs (UNode A0) Hfl Hex). }
  (* the common part, for the changed region X' = U ++ g / g ++ U *)
  assert (Hmain : forall X', woven X' (slot_units sl) -> NoDup (ids X') ->
            (forall t, In t X' <-> In t U \/ In t g) ->
            (forall sd, endtok sd (P ++ X' ++ Q) = endtok sd T) ->
            HWF cs (Tree c s (P ++ X' ++ Q) kids d)
            /\ (forall t, In t (leaves (Tree c s (P ++ X' ++ Q) kids d)) -> In t (leaves A0) \/ In t g)).
  { intros X' HwX' Y1 HX' Hend.
    assert (Hne' : P ++ X' ++ Q <> []).
    { intro E. apply app_eq_nil in E. destruct E as [_ E]. apply app_eq_nil in E. destruct E as [E _].
      destruct U as [|u0 U0]; [contradiction|]. assert (Hin : In u0 X') by (apply HX'; left; left; reflexivity).
      rewrite E in Hin. destruct Hin. }
    pose proof (tree_toggle cs c s T kids d f sl sl K1 K2 P U X' Q g Hroot EK (Eset sl) ETm HwP) as Htt.
    rewrite (Eset sl), <- EK in Htt. apply Htt; clear Htt; auto.
    - rewrite Eu. exists [], []. rewrite app_nil_r. split; [reflexivity|exact I].
    - intros t Ht. apply HX'. left. apply X4. exact Ht.
    - intros t Ht Hs. apply HX' in Ht. destruct Ht as [Ht|Ht]; [apply X5; assumption|].
      rewrite (Hins t Ht) in Hs. discriminate.
    - intros t Ht. apply HX'. exact Ht.
    - intros u Hu. exact (slot_sub_facts c s T kids d f sl Hroot Ek u Hu).
    - intro Hex. apply (ends_ok_same_kids c s T); [exact (Hends0 Hex)|exact Hend]. }
  destruct k as [|sepsd|sepsd|? ?]; try discriminate; simpl ksp in He.
  - (* left: the gap follows U *)
    assert (HQ : Q <> []).
    { apply (far_end_false (FOptL sepsd) pv (P ++ U) Q eq_refl); [rewrite <- app_assoc, <- ETm; exact Hfar|].
      simpl. rewrite hd_rev_app by exact HU. exact He. }
    destruct (Hmain (U ++ g)) as [HA HL].
    + rewrite Eu. exists [], g. split; [reflexivity|exact I].
    + apply NoDup_ids_join; [exact HndU|exact Hndg|]. intros x y Hx Hy E. apply (Hfresh y x Hy (HUT x Hx)). symmetry. exact E.
    + intro t. rewrite in_app_iff. tauto.
    + intro sd. rewrite ETm. rewrite <- !app_assoc. rewrite !(app_assoc P U).
      apply endtok_gap; [intro E; apply app_eq_nil in E; destruct E; auto|exact HQ].
    + exists (P ++ U), Q. split; [rewrite <- app_assoc; exact ETm|]. split.
      * simpl. rewrite hd_rev_app by exact HU. exact He.
      * replace ((P ++ U) ++ g ++ Q) with (P ++ (U ++ g) ++ Q) by (rewrite <- !app_assoc; reflexivity).
        constructor; [exact HA| |exact HL|do 7 eexists; split; reflexivity].
        simpl node_toks. split; [rewrite ETm, <- !app_assoc; reflexivity|rewrite <- !app_assoc; reflexivity].
  - (* right: the gap precedes U *)
    assert (HP : P <> []).
    { apply (far_end_false (FOptR sepsd) pv P (U ++ Q) eq_refl); [rewrite <- ETm; exact Hfar|].
      destruct U; [contradiction|exact He]. }
    destruct (Hmain (g ++ U)) as [HA HL].
    + rewrite Eu. exists g, []. rewrite app_nil_r. split; [reflexivity|exact I].
    + apply NoDup_ids_join; [exact Hndg|exact HndU|]. intros x y Hx Hy. apply (Hfresh x y Hx (HUT y Hy)).
    + intro t. rewrite in_app_iff. tauto.
    + intro sd. rewrite ETm. rewrite <- !app_assoc.
      apply endtok_gap; [exact HP|intro E; apply app_eq_nil in E; destruct E; auto].
    + exists P, (U ++ Q). split; [exact ETm|]. split.
      * destruct U; [contradiction|exact He].
      * replace (P ++ g ++ U ++ Q) with (P ++ (g ++ U) ++ Q) by (rewrite <- !app_assoc; reflexivity).
        constructor; [exact HA| |exact HL|do 7 eexists; split; reflexivity].
        simpl node_toks. split; [rewrite ETm; reflexivity|rewrite <- !app_assoc; reflexivity].
Qed.

Lemma ends_ok_rep_same : forall rs rs' rt rt' ph items,
  ends_ok cs (SRep rs rt ph items) rt -> (forall sd, endtok sd rt' = endtok sd rt) ->
  ends_ok cs (SRep rs' rt' ph items) rt'.
Proof.
  intros rs rs' rt rt' ph items (m0 & H) E. exists m0. intros m sd Hm. specialize (H m sd Hm).
  cbn [slot_border] in H |- *. rewrite E. exact H.
Qed.

(* the same gap inside the token list of the Repeated that holds the unit: item x ends (begins) with pv and the
   Repeated goes on beyond pv *)
Lemma gap_item_ok : forall c s T kids d f rs rt ph items i x k pv g,
  HWF cs (Tree c s T kids d) -> kid kids f = Some (SRep rs rt ph items) -> nth_error items i = Some x ->
  is_opt k = true -> endtok (ksp k) (node_toks x) = Some pv -> at_far_end k pv rt = false ->
  (forall t, In t g -> significant t = false) -> NoDup (ids g) ->
  (forall t t', In t g -> In t' T -> k_id t <> k_id t') ->
  exists A B T' rt', T = A ++ B
    /\ match k with FOptL _ => endtok SLast A = Some pv | _ => endtok SFirst B = Some pv end
    /\ ins_next k pv g T = Some T' /\ ins_next k pv g rt = Some rt' /\ T' = A ++ g ++ B
    /\ local_edit cs (Tree c s T kids d) (Tree c s T' (set_kid kids f (SRep rs rt' ph items)) d) A [] g B g.
Proof.
  intros c s T kids d f rs rt ph items i x k pv g Hroot Ek Ei Hk He Hfar Hins Hndg Hfresh.
  pose proof (HWF_SWF _ _ Hroot) as [(W1 & _) _]. simpl node_toks in W1.
  destruct (rep_basic cs c s T kids d f rs rt ph items Hroot Ek) as (Hrs & Hndrt & HndL & Hendrt & Hnert & Hwrt).
  destruct (nth_split_set items i x Ei) as (I1 & I2 & EI & _ & _).
  assert (Hxin : In x items) by (apply nth_error_In with i; exact Ei). clear Ei. subst items.
  assert (Hxok : sub_ok cs s x) by (eapply rep_item_ok; [exact Hroot|exact Ek|exact Hxin]).
  pose proof (HWF_SWF _ _ (proj1 Hxok)) as [(Y1 & _ & Y3 & _ & Y5) _].
  set (M := node_toks x) in *.
  assert (HM : M <> []) by (intro E; rewrite E in He; destruct k; discriminate).
  rewrite map_app in Hwrt. simpl map in Hwrt.
  destruct (woven_app_inv ([ph] :: map node_toks I1) (M :: map node_toks I2) rt Hwrt) as (A1 & B1 & Ert0 & Hw1 & Hwb).
  destruct Hwb as (g0 & R2 & EB1 & Hw2). subst B1.
  set (R1 := A1 ++ g0).
  assert (Ert : rt = R1 ++ M ++ R2) by (unfold R1; rewrite Ert0, <- !app_assoc; reflexivity).
  assert (HwR1 : woven R1 ([ph] :: map node_toks I1)) by (unfold R1; apply woven_glue; exact Hw1).
  assert (HR1 : R1 <> []).
  { destruct HwR1 as (g1 & T1' & E1 & _). rewrite E1. intro E. apply app_eq_nil in E. destruct E as [_ E]. discriminate. }
  destruct (tree_decomp cs c s T kids d f (SRep rs rt ph _) rt Hroot Ek eq_refl)
    as (_ & _ & P & Q & _ & _ & ET & _).
  assert (HrtT : forall t, In t rt -> In t T) by (intros t Ht; rewrite ET; apply in_or_app; right; apply in_or_app; left; exact Ht).
  assert (HMrt : forall t, In t M -> In t rt) by (intros t Ht; rewrite Ert; apply in_or_app; right; apply in_or_app; left; exact Ht).
  assert (Ek' : kid kids f = Some (SRep rs rt ph (I1 ++ [x] ++ I2))) by (rewrite Ek; reflexivity).
  (* common part for M' = M ++ g / g ++ M *)
  assert (Hmain : forall M', woven M' (map node_toks [x]) -> NoDup (ids M') ->
            (forall t, In t M' <-> In t M \/ In t g) ->
            (forall sd, endtok sd (R1 ++ M' ++ R2) = endtok sd rt) ->
            exists pre post, local_edit cs (Tree c s T kids d)
              (Tree c s (P ++ (R1 ++ M' ++ R2) ++ Q) (set_kid kids f (SRep rs (R1 ++ M' ++ R2) ph (I1 ++ x :: I2))) d) pre M M' post g).
  { intros M' HwM' HndM' HM' Hend. change (x :: I2) with ([x] ++ I2).
    apply (rep_local_change cs Hok c s T kids d f rs rt ph I1 [x] [x] I2 R1 M M' R2 g); auto.
    - simpl. exists [], []. rewrite app_nil_r. split; [reflexivity|exact I].
    - simpl. rewrite app_nil_r. exact Y3.
    - simpl. rewrite app_nil_r. intros t Ht. apply HM'. left. apply (sub_ok_leaves cs s x Hxok). exact Ht.
    - simpl. rewrite app_nil_r. intros t Ht Hs. apply HM' in Ht. destruct Ht as [Ht|Ht]; [apply Y5; assumption|].
      rewrite (Hins t Ht) in Hs. discriminate.
    - intros t Ht. apply HM'. exact Ht.
    - intros y [E|[]]. subst y. exact Hxok.
    - apply (ends_ok_rep_same rs rs rt); [exact Hendrt|exact Hend].
    - rewrite ET in W1 |- *. apply replace_infix_spec; [exact W1|exact Hnert]. }
  assert (ETf : T = (P ++ R1) ++ M ++ (R2 ++ Q)) by (rewrite ET, Ert, <- !app_assoc; reflexivity).
  destruct k as [|sepsd|sepsd|? ?]; try discriminate; simpl ksp in He.
  - assert (HR2 : R2 <> []).
    { apply (far_end_false (FOptL sepsd) pv (R1 ++ M) R2 eq_refl); [rewrite <- app_assoc, <- Ert; exact Hfar|].
      simpl. rewrite hd_rev_app by exact HM. exact He. }
    destruct (Hmain (M ++ g)) as (pre & post & Hle).
    + simpl. exists [], g. split; [reflexivity|exact I].
    + apply NoDup_ids_join; [exact Y1|exact Hndg|]. intros a b Ha Hb E. apply (Hfresh b a Hb (HrtT a (HMrt a Ha))). symmetry. exact E.
    + intro t. rewrite in_app_iff. tauto.
    + intro sd. rewrite Ert. rewrite <- !app_assoc. rewrite !(app_assoc R1 M).
      apply endtok_gap; [intro E; apply app_eq_nil in E; destruct E; auto|exact HR2].
    + destruct Hle as [Lh (Lt1 & Lt2) Ll Ls]. simpl node_toks in Lt1, Lt2.
      assert (HeA : endtok SLast ((P ++ R1) ++ M) = Some pv) by (simpl; rewrite hd_rev_app by exact HM; exact He).
      assert (HeR : endtok SLast (R1 ++ M) = Some pv) by (simpl; rewrite hd_rev_app by exact HM; exact He).
      exists ((P ++ R1) ++ M), (R2 ++ Q), (((P ++ R1) ++ M) ++ g ++ (R2 ++ Q)), ((R1 ++ M) ++ g ++ R2).
      split; [rewrite <- app_assoc; exact ETf|]. split; [exact HeA|].
      split; [rewrite ETf at 1; rewrite app_assoc; apply (ins_next_spec (FOptL sepsd) pv g _ _ eq_refl); [rewrite <- app_assoc, <- ETf; exact W1|exact HeA]|].
      split; [rewrite Ert at 1; rewrite app_assoc; apply (ins_next_spec (FOptL sepsd) pv g _ _ eq_refl); [rewrite <- app_assoc, <- Ert; exact Hndrt|exact HeR]|].
      split; [reflexivity|].
      replace (((P ++ R1) ++ M) ++ g ++ R2 ++ Q) with (P ++ (R1 ++ (M ++ g) ++ R2) ++ Q) by (rewrite <- !app_assoc; reflexivity).
      replace ((R1 ++ M) ++ g ++ R2) with (R1 ++ (M ++ g) ++ R2) by (rewrite <- !app_assoc; reflexivity).
      constructor; [exact Lh| |exact Ll|exact Ls].
      simpl node_toks. split; [rewrite ETf, <- !app_assoc; reflexivity|rewrite <- !app_assoc; reflexivity].
  - destruct (Hmain (g ++ M)) as (pre & post & Hle).
    + simpl. exists g, []. rewrite app_nil_r. split; [reflexivity|exact I].
    + apply NoDup_ids_join; [exact Hndg|exact Y1|]. intros a b Ha Hb. apply (Hfresh a b Ha (HrtT b (HMrt b Hb))).
    + intro t. rewrite in_app_iff. tauto.
    + intro sd. rewrite Ert. rewrite <- !app_assoc.
      apply endtok_gap; [exact HR1|intro E; apply app_eq_nil in E; destruct E; auto].
    + destruct Hle as [Lh (Lt1 & Lt2) Ll Ls]. simpl node_toks in Lt1, Lt2.
      assert (HeB : endtok SFirst (M ++ R2 ++ Q) = Some pv) by (destruct M; [contradiction|exact He]).
      assert (HeR : endtok SFirst (M ++ R2) = Some pv) by (destruct M; [contradiction|exact He]).
      exists (P ++ R1), (M ++ R2 ++ Q), ((P ++ R1) ++ g ++ (M ++ R2 ++ Q)), (R1 ++ g ++ (M ++ R2)).
      split; [exact ETf|]. split; [exact HeB|].
      split; [rewrite ETf at 1; apply (ins_next_spec (FOptR sepsd) pv g _ _ eq_refl); [rewrite <- ETf; exact W1|exact HeB]|].
      split; [rewrite Ert at 1; apply (ins_next_spec (FOptR sepsd) pv g _ _ eq_refl); [rewrite <- Ert; exact Hndrt|exact HeR]|].
      split; [reflexivity|].
      replace ((P ++ R1) ++ g ++ M ++ R2 ++ Q) with (P ++ (R1 ++ (g ++ M) ++ R2) ++ Q) by (rewrite <- !app_assoc; reflexivity).
      replace (R1 ++ g ++ M ++ R2) with (R1 ++ (g ++ M) ++ R2) by (rewrite <- !app_assoc; reflexivity).
      constructor; [exact Lh| |exact Ll|exact Ls].
      simpl node_toks. split; [rewrite ETf, <- !app_assoc; reflexivity|rewrite <- !app_assoc; reflexivity].
Qed.

Lemma set_kid_flat : forall {A} (h : slot -> list A) kids f sl sl', kid kids f = Some sl -> h sl' = h sl ->
  kids_flat h (set_kid kids f sl') = kids_flat h kids.
Proof.
  intros A h kids f sl sl' Ek E. destruct (kid_split _ _ _ Ek) as (K1 & K2 & EK & Eset).
  rewrite (Eset sl'). rewrite EK. rewrite !kids_flat_app, !kids_flat_cons, E. reflexivity.
Qed.

(* TreeEdit.gap_at at a node that goes on beyond the pivot while its child on the path ends (begins) at the pivot *)
Lemma gap_at_ok : forall a st x k pv g a',
  HWF cs a -> select a [st] = Some x -> is_opt k = true ->
  at_far_end k pv (node_toks a) = false -> at_far_end k pv (node_toks x) = true ->
  (forall t, In t g -> significant t = false) -> NoDup (ids g) ->
  (forall t t', In t g -> In t' (node_toks a) -> k_id t <> k_id t') ->
  gap_at k pv g a st = Some a' ->
  exists A B, node_toks a = A ++ B
    /\ match k with FOptL _ => endtok SLast A = Some pv | _ => endtok SFirst B = Some pv end
    /\ local_edit cs a a' A [] g B g /\ leaves a' = leaves a.
Proof.
  intros a st x k pv g a' Hroot Hsel Hk Hfar Hx Hins Hndg Hfresh H.
  destruct a as [t0|c s T kids d]; [discriminate|]. simpl node_toks in *.
  pose proof (HWF_SWF _ _ Hroot) as [(W1 & _) _]. simpl node_toks in W1.
  pose proof (far_end_true k pv _ Hx) as Hex.
  unfold gap_at in H. destruct st as [f|f i]; cbn [select] in Hsel.
  - destruct (kid kids f) as [sl|] eqn:Ek; try discriminate.
    destruct (slot_node sl) as [x'|] eqn:Ex; try discriminate. inversion Hsel. subst x'. clear Hsel.
    destruct (slot_node_units sl x Ex) as (Eu & _).
    destruct (gap_unit_ok c s T kids d f sl (node_toks x) k pv g Hroot Ek Eu Hk Hex Hfar Hins Hndg Hfresh)
      as (A & B & ET & Hside & Hle).
    rewrite ET in H, W1. rewrite (ins_next_spec k pv g A B Hk W1 Hside) in H. inversion H. subst a'.
    exists A, B. split; [exact ET|]. split; [exact Hside|]. split; [exact Hle|reflexivity].
  - destruct (kid kids f) as [[?|?|rs rt ph items|?]|] eqn:Ek; try discriminate;
      try (destruct (ins_next k pv g T); discriminate).
    destruct (nth_error items i) as [x'|] eqn:Ei; try discriminate. inversion Hsel. subst x'. clear Hsel.
    destruct (at_far_end k pv rt) eqn:Hfr.
    + pose proof (far_end_true k pv _ Hfr) as Hert.
      destruct (gap_unit_ok c s T kids d f (SRep rs rt ph items) rt k pv g Hroot Ek eq_refl Hk Hert Hfar Hins Hndg Hfresh)
        as (A & B & ET & Hside & Hle).
      rewrite ET in H, W1. rewrite (ins_next_spec k pv g A B Hk W1 Hside) in H. inversion H. subst a'.
      exists A, B. split; [exact ET|]. split; [exact Hside|]. split; [exact Hle|reflexivity].
    + destruct (gap_item_ok c s T kids d f rs rt ph items i x k pv g Hroot Ek Ei Hk Hex Hfr Hins Hndg Hfresh)
        as (A & B & T' & rt' & ET & Hside & E1 & E2 & ET' & Hle).
      rewrite E1, E2 in H. inversion H. subst a'.
      exists A, B. split; [exact ET|]. split; [exact Hside|]. split; [exact Hle|].
      rewrite !leaves_tree. apply (set_kid_flat slot_leaves kids f _ _ Ek). reflexivity.
Qed.

Lemma select_cons : forall n st r,
  select n (st :: r) = match select n [st] with Some x => select x r | None => None end.
Proof.
  intros n st r. destruct n as [t0|c s T kids d]; [destruct st; reflexivity|].
  destruct st as [f|f i]; cbn [select].
  - destruct (kid kids f) as [sl|]; [|reflexivity]. destruct (slot_node sl); reflexivity.
  - destruct (kid kids f) as [[?|?|? ? ? items|?]|]; try reflexivity. destruct (nth_error items i); reflexivity.
Qed.

Lemma gap_site_spec : forall k pv p n q st, gap_site k pv n p = Some (q, st) ->
  exists a x, select n q = Some a /\ at_far_end k pv (node_toks a) = false
    /\ select a [st] = Some x /\ at_far_end k pv (node_toks x) = true.
Proof.
  intros k pv. induction p as [|st0 r IH]; intros n q st H; cbn [gap_site] in H; [discriminate|].
  destruct (at_far_end k pv (node_toks n)) eqn:Hn; [discriminate|].
  destruct (select n [st0]) as [x|] eqn:Es; [|discriminate].
  destruct (at_far_end k pv (node_toks x)) eqn:Hx.
  - inversion H. subst q st. exists n, x. auto.
  - destruct (gap_site k pv x r) as [[q' st']|] eqn:Eg; [|discriminate]. inversion H. subst q st.
    destruct (IH x q' st' Eg) as (a & y & S1 & S2 & S3 & S4). exists a, y.
    split; [rewrite select_cons, Es; exact S1|]. auto.
Qed.

(* lift_local with the place of the change exposed *)
Lemma lift_local_ext : forall p root old new root' pre Mold Mnew post N,
  HWF cs root -> select root p = Some old -> plug root p new = Some root' ->
  local_edit cs old new pre Mold Mnew post N ->
  (forall t, In t Mnew -> In t Mold \/ In t N) ->
  (forall t t', In t N -> In t' (node_toks root) -> k_id t <> k_id t') ->
  HWF cs root' /\ WF cs root'
  /\ (exists pr po, node_toks root = (pr ++ pre) ++ Mold ++ (post ++ po)
                    /\ node_toks root' = (pr ++ pre) ++ Mnew ++ (post ++ po))
  /\ (forall t, In t (leaves root') -> In t (leaves root) \/ In t N).
Proof.
  intros p root old new root' pre Mold Mnew post N Hroot Hsel Hplug [Lh (Lt1 & Lt2) Ll Lshape] HM Hfresh.
  destruct Lshape as (c & s & T & T' & k & k' & d & Eold & Enew). subst old new. simpl node_toks in Lt1, Lt2.
  assert (Hexn : p <> [] -> exempt (UNode (Tree c s T' k' d)) = false).
  { intro Hp. exact (proj1 (proj2 (proj1 (select_sub_ok cs p root _ Hroot Hsel Hp)))). }
  assert (Hsidr : p <> [] -> root_sid root = s).
  { intro Hp. destruct (select_sub_ok cs p root _ Hroot Hsel Hp) as [(_ & _ & Hs) _]. symmetry. eapply Hs. reflexivity. }
  destruct (plug_all cs Hok p root (Tree c s T' k' d) root' (Tree c s T k d) s N Hroot Hsel Hplug Lh Hexn) as [A (pr & po & B1 & B2) _ D _].
  - intros c0 s0 T0 k0 d0 E. inversion E. reflexivity.
  - exact Hsidr.
  - simpl node_toks. rewrite Lt1, Lt2. intros t Ht. apply in_app_or in Ht. destruct Ht as [Ht|Ht]; [left; apply in_or_app; left; exact Ht|].
    apply in_app_or in Ht. destruct Ht as [Ht|Ht].
    + destruct (HM t Ht) as [H0|H0]; [left; apply in_or_app; right; apply in_or_app; left; exact H0|right; exact H0].
    + left. apply in_or_app. right. apply in_or_app. right. exact Ht.
  - exact Ll.
  - exact Hfresh.
  - split; [exact A|]. split; [exact (HWF_WF cs root' A)|]. split; [|exact D].
    simpl node_toks in B1, B2. exists pr, po. rewrite B1, B2, Lt1, Lt2, <- !app_assoc. auto.
Qed.

(* plug with a sub-tree that has the same leaves *)
Lemma plug_leaves_same : forall p root old new root',
  select root p = Some old -> plug root p new = Some root' -> leaves new = leaves old -> leaves root' = leaves root.
Proof.
  induction p as [|st r IH]; intros root old new root' Hsel Hplug E.
  - simpl in Hsel, Hplug. inversion Hsel. inversion Hplug. subst. exact E.
  - destruct root as [t0|c s T kids d]; [destruct st; discriminate|].
    destruct st as [f|f i]; cbn [select] in Hsel; cbn [plug] in Hplug.
    + destruct (kid kids f) as [sl|] eqn:Ek; try discriminate.
      destruct (slot_node sl) as [x|] eqn:Ex; try discriminate.
      destruct (plug x r new) as [x'|] eqn:Epx; try discriminate.
      destruct (replace_infix (node_toks x) (node_toks x') T) as [T'|]; try discriminate.
      inversion Hplug. subst root'. rewrite !leaves_tree. apply (set_kid_flat slot_leaves kids f sl _ Ek).
      destruct (slot_node_units sl x Ex) as (_ & El & _ & Hwith). destruct (Hwith x') as (_ & El' & _).
      rewrite El, El'. exact (IH x old new x' Hsel Epx E).
    + destruct (kid kids f) as [[?|?|rs rt ph items|?]|] eqn:Ek; try discriminate.
      destruct (nth_error items i) as [x|] eqn:Ei; try discriminate.
      destruct (plug x r new) as [x'|] eqn:Epx; try discriminate.
      destruct (replace_infix (node_toks x) (node_toks x') rt) as [rt'|]; try discriminate.
      destruct (replace_infix rt rt' T) as [T'|]; try discriminate.
      inversion Hplug. subst root'. rewrite !leaves_tree. apply (set_kid_flat slot_leaves kids f _ _ Ek).
      simpl. f_equal. destruct (nth_split_set items i x Ei) as (l1 & l2 & El & _ & Hset).
      rewrite (Hset x'), El, !flat_map_app. simpl. rewrite (IH x old new x' Hsel Epx E). reflexivity.
Qed.
End Gap.

Lemma prefix_unique : forall A B A' B' pv, A ++ B = A' ++ B' -> NoDup (ids (A ++ B)) ->
  endtok SLast A = Some pv -> endtok SLast A' = Some pv -> A = A' /\ B = B'.
Proof.
  intros A B A' B' pv E Hnd HA HA'.
  destruct (endtok_last_snoc A pv HA) as (A0 & EA). destruct (endtok_last_snoc A' pv HA') as (A0' & EA'). subst A A'.
  repeat rewrite <- app_assoc in E. repeat rewrite <- app_assoc in Hnd. simpl in E, Hnd.
  pose proof (find_off_mid A0 pv B Hnd) as F1. rewrite E in Hnd, F1. rewrite (find_off_mid A0' pv B' Hnd) in F1.
  inversion F1 as [Hlen].
  pose proof (f_equal (firstn (length A0)) E) as Ef. rewrite firstn_app_len in Ef. rewrite <- Hlen, firstn_app_len in Ef.
  subst A0'. apply app_inv_head in E. inversion E. auto.
Qed.

Lemma suffix_unique : forall A B A' B' pv, A ++ B = A' ++ B' -> NoDup (ids (A ++ B)) ->
  endtok SFirst B = Some pv -> endtok SFirst B' = Some pv -> A = A' /\ B = B'.
Proof.
  intros A B A' B' pv E Hnd HB HB'.
  destruct (endtok_first_cons B pv HB) as (B0 & EB). destruct (endtok_first_cons B' pv HB') as (B0' & EB'). subst B B'.
  pose proof (find_off_mid A pv B0 Hnd) as F1. rewrite E in Hnd, F1. rewrite (find_off_mid A' pv B0' Hnd) in F1.
  inversion F1 as [Hlen].
  pose proof (f_equal (firstn (length A)) E) as Ef. rewrite firstn_app_len in Ef. rewrite <- Hlen, firstn_app_len in Ef.
  subst A'. apply app_inv_head in E. auto.
Qed.

Section RemoveOpt.
Variable cs : classes_t.
Hypothesis Hok : classes_ok cs.
Hypothesis Hpivs : classes_pivots_ok cs.

(* removing the child of an optional field, in every case: the child X leaves with the tokens g between the pivot and the
   child (Mold = g ++ X / X ++ g), or alone ([] ++ X) when it touches what lies beyond it - whether the separators then
   stay inside the owner of the field or only in its ancestors (regap) *)
Theorem remove_opt_ok : forall root p f x root',
  HWF cs root -> remove_opt cs root p f = Some (x, root') ->
  HWF cs root' /\ WF cs root' /\ HWF cs x /\ exempt (UNode x) = false
  /\ (exists pre g post Mold, (Mold = g ++ node_toks x \/ Mold = node_toks x ++ g)
        /\ node_toks root = pre ++ Mold ++ post /\ node_toks root' = pre ++ [] ++ post)
  /\ (forall t, In t (leaves root') -> In t (leaves root)).
Proof.
  intros root p f x root' Hroot H. unfold remove_opt in H.
  destruct (select root p) as [old|] eqn:Hsel; try discriminate.
  destruct (remove_opt_at cs (opt_touches cs root old f) old f) as [[[x0 new] out]|] eqn:Hrem; try discriminate.
  destruct (plug root p new) as [root1|] eqn:Hplug; try discriminate.
  destruct old as [t0|c s T kd d]; [discriminate|].
  assert (Hold : HWF cs (Tree c s T kd d)).
  { destruct p as [|st r].
    - simpl in Hsel. inversion Hsel. subst root. auto.
    - exact (proj1 (proj1 (select_sub_ok cs _ root _ Hroot Hsel ltac:(discriminate)))). }
  destruct (remove_at_ok cs Hok Hpivs _ c s T kd d f x0 new out Hold Hrem)
    as (Hx & pre & g & post & Mold & HM & Hle & k & pv & Ep & Hk & Hko).
  destruct (lift_local_ext cs Hok p root _ new root1 pre Mold [] post [] Hroot Hsel Hplug Hle)
    as (A1 & B1 & (pr & po & C1 & C2) & D1); [intros t []|intros t t' []|].
  assert (Hfirst : HWF cs root1 /\ WF cs root1 /\ HWF cs x0 /\ exempt (UNode x0) = false
    /\ (exists pre g post Mold, (Mold = g ++ node_toks x0 \/ Mold = node_toks x0 ++ g)
          /\ node_toks root = pre ++ Mold ++ post /\ node_toks root1 = pre ++ [] ++ post)
    /\ (forall t, In t (leaves root1) -> In t (leaves root))).
  { split; [exact A1|]. split; [exact B1|]. split; [exact (proj1 Hx)|]. split; [exact (proj1 (proj2 Hx))|]. split.
    - exists (pr ++ pre), g, (post ++ po), Mold. auto.
    - intros t Ht. destruct (D1 t Ht) as [H0|[]]. exact H0. }
  destruct out as [|o0 out'].
  - inversion H. subst x0 root1. exact Hfirst.
  - rewrite Ep in H. destruct (regap k pv (o0 :: out') root1 p) as [r2|] eqn:Erg; try discriminate.
    inversion H. subst x0 r2. clear H.
    destruct Hko as [E0|(Eout & Hins & Hside)]; [discriminate|]. rewrite Eout in Erg.
    pose proof (HWF_WF cs root Hroot) as (W1r & _).
    assert (HgM : forall t, In t g -> In t Mold).
    { intros t Ht. destruct HM as [E|E]; rewrite E; apply in_or_app; auto. }
    assert (Hfresh : forall t t', In t g -> In t' (node_toks root1) -> k_id t <> k_id t').
    { intros t t' Ht Ht'. rewrite C2 in Ht'. simpl app in Ht'. rewrite C1 in W1r.
      apply in_app_or in Ht'. destruct Ht' as [Ht'|Ht'].
      - intro E. apply (NoDup_ids_disjoint _ _ t' t W1r Ht'); [apply in_or_app; left; apply HgM; exact Ht|]. symmetry. exact E.
      - rewrite app_assoc in W1r. apply (NoDup_ids_disjoint _ _ t t' W1r); [apply in_or_app; right; apply HgM; exact Ht|exact Ht']. }
    assert (Hndg : NoDup (ids g)).
    { rewrite C1 in W1r. apply NoDup_ids_app_r in W1r. apply NoDup_ids_app_l in W1r.
      destruct HM as [E|E]; rewrite E in W1r; [apply NoDup_ids_app_l in W1r|apply NoDup_ids_app_r in W1r]; exact W1r. }
    unfold regap in Erg. destruct (gap_site k pv root1 p) as [[q st]|] eqn:Egs.
    + destruct (gap_site_spec k pv p root1 q st Egs) as (a & xch & S1 & S2 & S3 & S4). rewrite S1 in Erg.
      destruct (gap_at k pv g a st) as [a'|] eqn:Ega; try discriminate.
      assert (Ha : HWF cs a /\ (forall t, In t (node_toks a) -> In t (node_toks root1))).
      { destruct q as [|st0 q0].
        - simpl in S1. inversion S1. subst a. auto.
        - destruct (select_sub_ok cs _ root1 a A1 S1 ltac:(discriminate)) as [(H1 & _) H4]. auto. }
      destruct Ha as [Ha HaT].
      assert (Hfra : forall t t', In t g -> In t' (node_toks a) -> k_id t <> k_id t')
        by (intros t t' Ht Ht'; apply Hfresh; auto).
      destruct (gap_at_ok cs Hok a st xch k pv g a' Ha S3 Hk S2 S4 Hins Hndg Hfra Ega) as (A & B & ETa & Hsd & Hle2 & Elv).
      destruct (lift_local_ext cs Hok q root1 a a' root' A [] g B g A1 S1 Erg Hle2)
        as (A2 & B2 & (pr2 & po2 & C3 & C4) & _); [intros t Ht; right; exact Ht|exact Hfresh|].
      pose proof (plug_leaves_same q root1 a a' root' S1 Erg Elv) as Elr.
      split; [exact A2|]. split; [exact B2|]. split; [exact (proj1 Hx)|]. split; [exact (proj1 (proj2 Hx))|]. split.
      * pose proof (HWF_WF cs root1 A1) as (W11 & _).
        simpl app in C2, C3.
        assert (E12 : (pr ++ pre) ++ (post ++ po) = (pr2 ++ A) ++ (B ++ po2)) by (rewrite <- C2, <- C3; reflexivity).
        rewrite C2 in W11. simpl app in W11.
        destruct k as [|sepsd|sepsd|? ?]; try discriminate; destruct Hside as [EM Hpv].
        -- assert (Hp1 : endtok SLast (pr ++ pre) = Some pv).
           { simpl. simpl in Hpv. rewrite hd_rev_app; [exact Hpv|]. intro E. rewrite E in Hpv. discriminate. }
           assert (Hp2 : endtok SLast (pr2 ++ A) = Some pv).
           { simpl. simpl in Hsd. rewrite hd_rev_app; [exact Hsd|]. intro E. rewrite E in Hsd. discriminate. }
           destruct (prefix_unique _ _ _ _ pv E12 W11 Hp1 Hp2) as [EA EB].
           exists ((pr ++ pre) ++ g), [], (post ++ po), (node_toks x). split; [left; reflexivity|].
           split; [rewrite C1, EM, <- !app_assoc; reflexivity|]. rewrite C4, <- EA, <- EB, <- !app_assoc. reflexivity.
        -- assert (Hp1 : endtok SFirst (post ++ po) = Some pv) by (destruct post; [discriminate|exact Hpv]).
           assert (Hp2 : endtok SFirst (B ++ po2) = Some pv) by (destruct B; [discriminate|exact Hsd]).
           destruct (suffix_unique _ _ _ _ pv E12 W11 Hp1 Hp2) as [EA EB].
           exists (pr ++ pre), [], (g ++ post ++ po), (node_toks x). split; [left; reflexivity|].
           split; [rewrite C1, EM, <- !app_assoc; reflexivity|]. rewrite C4, <- EA, <- EB, <- !app_assoc. reflexivity.
      * intros t Ht. rewrite Elr in Ht. destruct (D1 t Ht) as [H0|[]]. exact H0.
    + inversion Erg. subst root'. exact Hfirst.
Qed.

(* ---- histories over all slot kinds ---------------------------------------------------------------------------- *)
Inductive edit2 : node -> node -> Prop :=
| edit2_old : forall a b, edit cs a b -> edit2 a b       (* replace a sub-tree / insert an item / remove an item *)
| edit2_create : forall root p f seps y root',           (* optional_node_property.__set__: None -> a node *)
    donor cs y -> glue_ok seps -> NoDup (ids (seps ++ node_toks y)) -> fresh_for (seps ++ node_toks y) root ->
    create_opt cs root p f seps (reattach cs (root_sid root) y) = Some root' -> edit2 root root'
| edit2_remove : forall root p f x root',                (* optional_node_property.__set__: a node -> None *)
    remove_opt cs root p f = Some (x, root') -> edit2 root root'.

Inductive edits2 : node -> node -> Prop :=
| edits2_nil : forall root, edits2 root root
| edits2_cons : forall a b c, edit2 a b -> edits2 b c -> edits2 a c.

Theorem edit2_HWF : forall a b, HWF cs a -> edit2 a b -> HWF cs b.
Proof.
  intros a b Ha He. destruct He as [a b He|root p f seps y root' Hy Hg Hnd Hfr Hins|root p f x root' Hrem].
  - exact (edit_HWF cs Hok a b Ha He).
  - destruct (create_opt_ok cs Hok Hpivs root p f seps _ root' Ha Hins (donor_sub_ok cs Hok _ y Hy) Hg) as (A & _).
    + rewrite reattach_toks. exact Hnd.
    + intros t t' Ht Ht'. rewrite reattach_toks in Ht. apply Hfr; assumption.
    + exact A.
  - exact (proj1 (remove_opt_ok root p f x root' Ha Hrem)).
Qed.

Theorem history2_HWF : forall a b, HWF cs a -> edits2 a b -> HWF cs b /\ WF cs b.
Proof.
  intros a b Ha He. induction He as [root|a b c Hab Hbc IH].
  - split; [exact Ha|apply HWF_WF; exact Ha].
  - apply IH. eapply edit2_HWF; eauto.
Qed.
End RemoveOpt.

(* ---- RepeatedNodeWrapper._del_tokens when the removed item is written right against the next one (`1 "s"2`,
   fixes/repeated-remove-keeps-separator-when-glued.patch): the blanks in front of the item stay ---- *)
Lemma firstn_slice : forall {A} (l : list A) a e, a <= e -> firstn e l = firstn a l ++ slice l a e.
Proof.
  intros A l a. revert l. unfold slice. induction a as [|a IH]; intros l e Hae.
  - simpl. rewrite Nat.sub_0_r. reflexivity.
  - destruct e as [|e]; [lia|]. destruct l as [|x l].
    + simpl. rewrite firstn_nil. reflexivity.
    + simpl. f_equal. apply IH. lia.
Qed.

(* item i is followed by an item, there are tokens between the previous unit (previous item / placeholder) and it
   (a < xa), all blank, and it touches what follows (keep = true): the Repeated's tokens afterwards are everything up to
   the previous unit's end (a), the blanks (a .. xa), and everything after the item (b ..): only xa .. b has left.
   Without the touch (keep = false) the blanks leave with the item. *)
Lemma remove_item_keeps_gap : forall rs rt ph items i x a xa b,
  nth_error items i = Some x ->
  after_unit rt (prev_unit ph items i) = Some a -> first_off rt (node_toks x) = Some xa ->
  after_unit rt (node_toks x) = Some b ->
  S i < length items -> a < xa -> forallb blank_tk (slice rt a xa) = true ->
  rep_remove_A true rs rt ph items i
    = Some (x, SRep rs (firstn a rt ++ slice rt a xa ++ skipn b rt) ph (firstn i items ++ skipn (S i) items))
  /\ rep_remove_A false rs rt ph items i
    = Some (x, SRep rs (firstn a rt ++ skipn b rt) ph (firstn i items ++ skipn (S i) items))
  /\ (i <> 0 -> forall keep, rep_remove keep rs rt ph items i = rep_remove_A keep rs rt ph items i).
Proof.
  intros rs rt ph items i x a xa b Ei Ea Exa Eb Hi Hax Hblank. split; [|split].
  - unfold rep_remove_A. rewrite Ei, Ea, Eb, Exa. unfold rep_remove_from. rewrite Hblank.
    rewrite (proj2 (Nat.ltb_lt _ _) Hi), (proj2 (Nat.ltb_lt _ _) Hax). cbn [andb]. unfold cut.
    rewrite (firstn_slice rt a xa) by lia. rewrite <- app_assoc. reflexivity.
  - unfold rep_remove_A. rewrite Ei, Ea, Eb, Exa. unfold rep_remove_from. rewrite andb_false_r. reflexivity.
  - intros Hne keep. destruct i as [|j]; [contradiction|]. reflexivity.
Qed.
