(* Correspondence glue for Repeated.v / Fields.v: one case = the state of one slot of the real
   implementation before a call (token list of the store with ids, items, placeholder, separators),
   the call with its donors, and what the implementation did (exception class, token list after,
   items after as positions, donor stores after a refusal, popped tokens). *)
From AB Require Import Prelude PySeq Repeated Fields RepeatedLib RepeatedProofs RepeatedLayout.

Inductive rop :=
| OSetInt (i : Z) (same : bool) | OSetSlice (s : slc) | ODel (ix : pyidx) | OInsert (i : Z) | OAppend | OExtend
| OPop (i : Z) | OClear | ODropMany (l : list Z)
| FOpt (sd : side) (pivot : Z) (same has_value : bool) | FReq (same : bool).

Record case := mkcase {
  c_doc : doc; c_items : list item; c_ph : Z; c_seps : list (kind * str); c_sepsb : list (kind * str);
  c_op : rop; c_vals : list donor; c_fr : Z;
  c_exn : option exn;                       (* None: the call returned *)
  c_doc' : list (Z * kind * str);           (* (id, or -1 for a token created by the call) *)
  c_items' : list (Z * Z);                  (* positions of first / last token in c_doc' *)
  c_donors' : list (list Z);                (* ids in each donor's store afterwards (compared on refusal) *)
  c_popped : list Z                         (* ids of the tokens of the popped node *)
}.

Fixpoint find_pos (i : Z) (d : doc) (k : Z) : Z :=
  match d with [] => -1 | t :: r => if tid t =? i then k else find_pos i r (k + 1) end.

Definition str_eqb := list_eqb Z.eqb.

Fixpoint all2 {A B} (f : A -> B -> bool) (a : list A) (b : list B) : bool :=
  match a, b with
  | [], [] => true
  | x :: a', y :: b' => f x y && all2 f a' b'
  | _, _ => false
  end.

Definition tok_matches (t : tok) (e : Z * kind * str) : bool :=
  let '(i, k, s) := e in
  ((i <? 0) || (tid t =? i)) && kind_eqb (tkind t) k && str_eqb (ttext t) s.

Definition items_pos (d : doc) (its : list item) : list (Z * Z) :=
  map (fun it => (find_pos (fst it) d 0, find_pos (snd it) d 0)) its.

Definition pair_eqb (a b : Z * Z) := (fst a =? fst b) && (snd a =? snd b).

Definition res_matches {R} (r : res R) (e : option exn) : bool :=
  match r, e with
  | Ok _, None => true
  | Err a, Some b => exn_eqb a b
  | _, _ => false
  end.

Definition donors_match {R} (r : res R) (dl : list donor) (exp : list (list Z)) : bool :=
  match r with
  | Ok _ => true
  | Err _ => list_eqb (list_eqb Z.eqb) (map (fun v => ids (d_store v)) dl) exp
  end.

Definition state_matches (c : case) (d : doc) (its : list item) : bool :=
  all2 tok_matches d (c_doc' c) && list_eqb pair_eqb (items_pos d its) (c_items' c).

Definition run_case (c : case) : st * list donor * res (list tok) :=
  let s := mkst (c_doc c) (c_items c) in
  let lift (o : out unit) : st * list donor * res (list tok) :=
      match o with (s', dl, Ok _) => (s', dl, Ok []) | (s', dl, Err e) => (s', dl, Err e) end in
  let v0 := hd (mkdonor 0 [] 0 0) (c_vals c) in
  match c_op c with
  | OSetInt i same => lift (setitem_int s i same v0)
  | OSetSlice sl => lift (setitem_slice (c_ph c) (c_seps c) (c_sepsb c) s sl (c_vals c) (c_fr c))
  | ODel ix => lift (delitem (c_ph c) (c_seps c) (c_sepsb c) s ix (c_fr c))
  | OInsert i => lift (insert (c_ph c) (c_seps c) (c_sepsb c) s i v0 (c_fr c))
  | OAppend => lift (append (c_ph c) (c_seps c) (c_sepsb c) s v0 (c_fr c))
  | OExtend => lift (extend (c_ph c) (c_seps c) (c_sepsb c) s (c_vals c) (c_fr c))
  | OPop i => pop (c_ph c) s i
  | OClear => lift (clear (c_ph c) s)
  | ODropMany l => lift (drop_many (c_ph c) s l)
  | FOpt sd pivot same has_value =>
      match optional_set sd (c_seps c) (mkslot (c_doc c) (hd_opt (c_items c))) pivot same
                         (if has_value then Some v0 else None) (c_fr c) with
      | (sl, dl, r) => lift (mkst (sl_doc sl) (match sl_cur sl with Some x => [x] | None => [] end), dl, r)
      end
  | FReq same =>
      match required_set (mkslot (c_doc c) (hd_opt (c_items c))) same v0 with
      | (sl, dl, r) => lift (mkst (sl_doc sl) (match sl_cur sl with Some x => [x] | None => [] end), dl, r)
      end
  end.

Definition check_case (c : case) : bool :=
  match run_case c with
  | (s', dl, r) =>
      res_matches r (c_exn c) && state_matches c (s_doc s') (s_items s') && donors_match r dl (c_donors' c)
      && match r with Ok ts => list_eqb Z.eqb (ids ts) (c_popped c) | Err _ => true end
  end.

(* the hypothesis of the C03 / C19 theorems, evaluated on the implementation state of every case that
   edits a repeated field (RepeatedLayout.layout_b_sound : layout_b = true -> Layout) *)
Definition layout_case (c : case) : bool :=
  match c_op c with
  | FOpt _ _ _ _ | FReq _ => true
  | _ => layout_b (c_ph c) (c_doc c) (c_items c)
  end.
Definition check_both (c : case) : bool := check_case c && layout_case c.
