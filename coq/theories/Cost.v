(* Model of autobean_refactor/models/cost_spec.py (CostSpec), cost.py (into_unit_cost / into_total_cost)
   and the parts of internal/properties.py (unordered_node_property) and internal/value_properties.py
   (optional_{decimal,string,date}_property) it is built from.

   State = brace kind (UnitCost | TotalCost) + the component list of `raw_cost.raw_components`.
   Values (decimals, currency names, dates, labels) are opaque: the code never inspects them (every
   `if value:` tests an object that defines neither __bool__ nor __len__, i.e. `value is not None`),
   so they are Z codes chosen by the harness.  RepeatedNodeWrapper.insert/append/pop/__setitem__ are
   the plain list operations (that they are is C03/C07's business).
   Statement order is kept: each setter is a sequence of component-property assignments, written as
   nested lets in source order; `raise` returns the state reached so far.  No proofs here. *)
From AB Require Import Prelude.

Inductive brace := Unit | Total.

Inductive comp :=
| KCompound (per total : option Z) (cur : Z)     (* CompoundAmount: [number_per] # [number_total] CURRENCY *)
| KAmount (n cur : Z)                            (* Amount *)
| KNumber (n : Z)                                (* NumberExpr *)
| KCurrency (c : Z)                              (* Currency *)
| KDate (d : Z)                                  (* Date *)
| KLabel (l : Z)                                 (* EscapedString *)
| KAsterisk.                                     (* Asterisk *)

Record cost := mkcost { c_brace : brace; c_comps : list comp }.

Definition with_comps (s : cost) (l : list comp) : cost := mkcost (c_brace s) l.

(* isinstance(item, T) *)
Definition is_compound c := match c with KCompound _ _ _ => true | _ => false end.
Definition is_amount c := match c with KAmount _ _ => true | _ => false end.
Definition is_number c := match c with KNumber _ => true | _ => false end.
Definition is_currency c := match c with KCurrency _ => true | _ => false end.
Definition is_date c := match c with KDate _ => true | _ => false end.
Definition is_label c := match c with KLabel _ => true | _ => false end.
Definition is_asterisk c := match c with KAsterisk => true | _ => false end.

(* ---- unordered_node_property ------------------------------------------------------------ *)
(* _get: next((item for item in wrapper if isinstance(item, T)), None) *)
Definition un_get (k : comp -> bool) (l : list comp) : option comp := find k l.

(* next((i for i, item in enumerate(wrapper) if isinstance(item, T)), None) *)
Fixpoint find_idx (k : comp -> bool) (l : list comp) : option nat :=
  match l with
  | [] => None
  | x :: r => if k x then Some O else option_map S (find_idx k r)
  end.

Fixpoint pop_nth (i : nat) (l : list comp) : list comp :=      (* wrapper.pop(i) *)
  match l, i with
  | [], _ => []
  | _ :: r, O => r
  | x :: r, S j => x :: pop_nth j r
  end.

Fixpoint set_nth (i : nat) (v : comp) (l : list comp) : list comp :=   (* wrapper[i] = v *)
  match l, i with
  | [], _ => []
  | _ :: r, O => v :: r
  | x :: r, S j => x :: set_nth j v r
  end.

Definition un_set (prepend : bool) (k : comp -> bool) (l : list comp) (v : option comp) : list comp :=
  match find_idx k l, v with
  | None, Some x => if prepend then x :: l (* insert(0, x) *) else l ++ [x] (* append *)
  | Some i, None => pop_nth i l
  | Some i, Some x => set_nth i x l
  | None, None => l
  end.

(* `obj.attr = ...` on the object `_get` returned: rewrite the first component of that type *)
Fixpoint upd_first (k : comp -> bool) (f : comp -> comp) (l : list comp) : list comp :=
  match l with
  | [] => []
  | x :: r => if k x then f x :: r else x :: upd_first k f r
  end.

(* the seven component properties of CostSpec (prepend=True for the four amount-like ones) *)
Definition compound_comp s := un_get is_compound (c_comps s).
Definition amount_comp s := un_get is_amount (c_comps s).
Definition number_comp s := un_get is_number (c_comps s).
Definition currency_comp s := un_get is_currency (c_comps s).
Definition date_comp s := un_get is_date (c_comps s).
Definition label_comp s := un_get is_label (c_comps s).
Definition asterisk_comp s := un_get is_asterisk (c_comps s).

Definition set_compound_comp s v := with_comps s (un_set true is_compound (c_comps s) v).
Definition set_amount_comp s v := with_comps s (un_set true is_amount (c_comps s) v).
Definition set_number_comp s v := with_comps s (un_set true is_number (c_comps s) v).
Definition set_currency_comp s v := with_comps s (un_set true is_currency (c_comps s) v).
Definition set_date_comp s v := with_comps s (un_set false is_date (c_comps s) v).
Definition set_label_comp s v := with_comps s (un_set false is_label (c_comps s) v).
Definition set_asterisk_comp s v := with_comps s (un_set false is_asterisk (c_comps s) v).

(* cost.py: the braces are replaced, `_components` is shared *)
Definition into_unit_cost (s : cost) : cost := mkcost Unit (c_comps s).
Definition into_total_cost (s : cost) : cost := mkcost Total (c_comps s).

(* ---- raw getters ------------------------------------------------------------------------- *)
Definition raw_number_per (s : cost) : option Z :=
  match compound_comp s with
  | Some (KCompound p _ _) => p
  | Some _ => None
  | None =>
    match c_brace s with
    | Total => None
    | Unit =>
      match amount_comp s with
      | Some (KAmount n _) => Some n
      | Some _ => None
      | None => match number_comp s with Some (KNumber n) => Some n | _ => None end
      end
    end
  end.

Definition raw_number_total (s : cost) : option Z :=
  match compound_comp s with
  | Some (KCompound _ t _) => t
  | Some _ => None
  | None =>
    match c_brace s with
    | Unit => None
    | Total =>
      match amount_comp s with
      | Some (KAmount n _) => Some n
      | Some _ => None
      | None => match number_comp s with Some (KNumber n) => Some n | _ => None end
      end
    end
  end.

Definition raw_currency (s : cost) : option Z :=
  match compound_comp s with
  | Some (KCompound _ _ c) => Some c
  | Some _ => None
  | None =>
    match amount_comp s with
    | Some (KAmount _ c) => Some c
    | Some _ => None
    | None => match currency_comp s with Some (KCurrency c) => Some c | _ => None end
    end
  end.

Definition raw_date (s : cost) : option Z := match date_comp s with Some (KDate d) => Some d | _ => None end.
Definition raw_label (s : cost) : option Z := match label_comp s with Some (KLabel d) => Some d | _ => None end.
Definition get_merge (s : cost) : bool := match asterisk_comp s with Some _ => true | None => false end.

(* ---- raw setters (value : Optional[node]) ----------------------------------------------- *)
Definition set_per_of c v := match c with KCompound _ t cu => KCompound v t cu | x => x end.
Definition set_total_of c v := match c with KCompound p _ cu => KCompound p v cu | x => x end.
Definition set_cur_of c v :=
  match c with KCompound p t _ => KCompound p t v | KAmount n _ => KAmount n v | KCurrency _ => KCurrency v | x => x end.
Definition set_num_of c v := match c with KAmount _ cu => KAmount v cu | KNumber _ => KNumber v | x => x end.

(* A raw setter receives a node.  [att] = the node is attached elsewhere (its detach() raises
   ValueError "Cannot reuse node"); it is meaningless when v = None.  The statement that consumes the
   node (from_children / child-property assignment / component assignment, each of which detaches it
   before touching anything: internal/properties.py replace_node, _check_detachable, fields) is where
   the refusal happens.  [late] = the statement order before fixes/costspec-raw-setter-atomic.patch:
   the braces were flipped first, then the node consumed. *)
Definition refuse_if (att : bool) (s : cost) (k : cost * res unit) : cost * res unit :=
  if att then (s, Err ValueError) else k.

Definition raw_set_number_per_gen (late att : bool) (s : cost) (v : option Z) : cost * res unit :=
  match compound_comp s with
  | Some _ =>                                    (* compound_amount.raw_number_per = value *)
    match v with
    | Some _ => refuse_if att s
        (with_comps s (upd_first is_compound (fun c => set_per_of c v) (c_comps s)), Ok tt)
    | None => (with_comps s (upd_first is_compound (fun c => set_per_of c v) (c_comps s)), Ok tt)
    end
  | None =>
    match c_brace s with
    | Unit =>
      match amount_comp s with
      | Some (KAmount n cu) =>
        match v with
        | Some x => refuse_if att s
            (with_comps s (upd_first is_amount (fun c => set_num_of c x) (c_comps s)), Ok tt)
        | None =>
          let s1 := set_currency_comp s (Some (KCurrency cu)) in
          let s2 := set_amount_comp s1 None in
          (s2, Ok tt)
        end
      | Some _ => (s, Err ModelStuck)
      | None =>
        match currency_comp s, v with
        | Some (KCurrency cu), Some x =>
          refuse_if att s                        (* Amount.from_children(value, ...) *)
            (let s1 := set_amount_comp s (Some (KAmount x cu)) in
             let s2 := set_currency_comp s1 None in
             (s2, Ok tt))
        | _, Some x => refuse_if att s (set_number_comp s (Some (KNumber x)), Ok tt)
        | _, None => (set_number_comp s None, Ok tt)
        end
      end
    | Total =>
      match v with
      | None => (s, Ok tt)
      | Some x =>
        match amount_comp s with
        | Some (KAmount n cu) =>
          if late then
            let s1 := into_unit_cost s in
            refuse_if att s1
              (let s2 := set_compound_comp s1 (Some (KCompound (Some x) (Some n) cu)) in
               let s3 := set_amount_comp s2 None in
               (s3, Ok tt))
          else
            refuse_if att s                      (* CompoundAmount.from_children(value, ...) *)
              (let s1 := into_unit_cost s in
               let s2 := set_compound_comp s1 (Some (KCompound (Some x) (Some n) cu)) in
               let s3 := set_amount_comp s2 None in
               (s3, Ok tt))
        | Some _ => (s, Err ModelStuck)
        | None =>
          match currency_comp s with
          | Some (KCurrency cu) =>
            if late then
              let s1 := into_unit_cost s in
              refuse_if att s1
                (let s2 := set_amount_comp s1 (Some (KAmount x cu)) in
                 let s3 := set_currency_comp s2 None in
                 (s3, Ok tt))
            else
              refuse_if att s                    (* Amount.from_children(value, ...) *)
                (let s1 := into_unit_cost s in
                 let s2 := set_amount_comp s1 (Some (KAmount x cu)) in
                 let s3 := set_currency_comp s2 None in
                 (s3, Ok tt))
          | Some _ => (s, Err ModelStuck)
          | None =>
            match number_comp s with
            | Some _ => (s, Err ValueError)
            | None =>
              if late then
                let s1 := into_unit_cost s in
                refuse_if att s1 (set_number_comp s1 (Some (KNumber x)), Ok tt)
              else
                refuse_if att s                  (* self.raw_number_comp = value *)
                  (let s1 := set_number_comp s (Some (KNumber x)) in
                   (into_unit_cost s1, Ok tt))
            end
          end
        end
      end
    end
  end.

Definition raw_set_number_total_gen (late att : bool) (s : cost) (v : option Z) : cost * res unit :=
  match compound_comp s with
  | Some _ =>
    match v with
    | Some _ => refuse_if att s
        (with_comps s (upd_first is_compound (fun c => set_total_of c v) (c_comps s)), Ok tt)
    | None => (with_comps s (upd_first is_compound (fun c => set_total_of c v) (c_comps s)), Ok tt)
    end
  | None =>
    match c_brace s with
    | Total =>
      match amount_comp s with
      | Some (KAmount n cu) =>
        match v with
        | Some x => refuse_if att s
            (with_comps s (upd_first is_amount (fun c => set_num_of c x) (c_comps s)), Ok tt)
        | None =>
          let s1 := set_currency_comp s (Some (KCurrency cu)) in
          let s2 := set_amount_comp s1 None in
          (s2, Ok tt)
        end
      | Some _ => (s, Err ModelStuck)
      | None =>
        match currency_comp s, v with
        | Some (KCurrency cu), Some x =>
          refuse_if att s
            (let s1 := set_amount_comp s (Some (KAmount x cu)) in
             let s2 := set_currency_comp s1 None in
             (s2, Ok tt))
        | _, Some x => refuse_if att s (set_number_comp s (Some (KNumber x)), Ok tt)
        | _, None => (set_number_comp s None, Ok tt)
        end
      end
    | Unit =>
      match v with
      | None => (s, Ok tt)
      | Some x =>
        match amount_comp s with
        | Some (KAmount n cu) =>                 (* no brace change: the compound lives in {} *)
          refuse_if att s
            (let s1 := set_compound_comp s (Some (KCompound (Some n) (Some x) cu)) in
             let s2 := set_amount_comp s1 None in
             (s2, Ok tt))
        | Some _ => (s, Err ModelStuck)
        | None =>
          match currency_comp s with
          | Some (KCurrency cu) =>
            if late then
              let s1 := into_total_cost s in
              refuse_if att s1
                (let s2 := set_amount_comp s1 (Some (KAmount x cu)) in
                 let s3 := set_currency_comp s2 None in
                 (s3, Ok tt))
            else
              refuse_if att s
                (let s1 := into_total_cost s in
                 let s2 := set_amount_comp s1 (Some (KAmount x cu)) in
                 let s3 := set_currency_comp s2 None in
                 (s3, Ok tt))
          | Some _ => (s, Err ModelStuck)
          | None =>
            match number_comp s with
            | Some _ => (s, Err ValueError)
            | None =>
              if late then
                let s1 := into_total_cost s in
                refuse_if att s1 (set_number_comp s1 (Some (KNumber x)), Ok tt)
              else
                refuse_if att s
                  (let s1 := set_number_comp s (Some (KNumber x)) in
                   (into_total_cost s1, Ok tt))
            end
          end
        end
      end
    end
  end.

Definition raw_set_number_per := raw_set_number_per_gen false false.
Definition raw_set_number_total := raw_set_number_total_gen false false.

(* The branch marked (D11) is the repaired code (fixes/costspec-currency-onto-number.patch):
   Number + Currency -> Amount, the mirror image of "Currency + Number -> Amount" in the number
   setters.  [fixed] = false is the code before the repair (the plain `raw_currency_comp = value`). *)
Definition raw_set_currency_gen (fixed att : bool) (s : cost) (v : option Z) : cost * res unit :=
  match compound_comp s with
  | Some (KCompound p t cu) =>
    match v with
    | Some x => refuse_if att s
        (with_comps s (upd_first is_compound (fun c => set_cur_of c x) (c_comps s)), Ok tt)
    | None =>
      match p, t, c_brace s with
      | Some a, None, Unit =>
        let s1 := set_number_comp s (Some (KNumber a)) in
        (set_compound_comp s1 None, Ok tt)
      | Some a, None, Total =>
        let s1 := into_unit_cost s in
        let s2 := set_number_comp s1 (Some (KNumber a)) in
        (set_compound_comp s2 None, Ok tt)
      | None, Some b, Total =>
        let s1 := set_number_comp s (Some (KNumber b)) in
        (set_compound_comp s1 None, Ok tt)
      | None, Some b, Unit =>
        let s1 := into_total_cost s in
        let s2 := set_number_comp s1 (Some (KNumber b)) in
        (set_compound_comp s2 None, Ok tt)
      | Some _, Some _, _ => (s, Err ValueError)
      | None, None, _ => (set_compound_comp s None, Ok tt)      (* no case matches *)
      end
    end
  | Some _ => (s, Err ModelStuck)
  | None =>
    match amount_comp s with
    | Some (KAmount n cu) =>
      match v with
      | Some x => refuse_if att s
          (with_comps s (upd_first is_amount (fun c => set_cur_of c x) (c_comps s)), Ok tt)
      | None =>
        let s1 := set_number_comp s (Some (KNumber n)) in
        (set_amount_comp s1 None, Ok tt)
      end
    | Some _ => (s, Err ModelStuck)
    | None =>
      match (if fixed then number_comp s else None), v with
      | Some (KNumber n), Some x =>                                     (* (D11) *)
        refuse_if att s                          (* Amount.from_children(copy(number), value) *)
          (let s1 := set_amount_comp s (Some (KAmount n x)) in
           (set_number_comp s1 None, Ok tt))
      | _, Some x => refuse_if att s (set_currency_comp s (Some (KCurrency x)), Ok tt)
      | _, None => (set_currency_comp s None, Ok tt)
      end
    end
  end.

Definition raw_set_currency := raw_set_currency_gen true false.

(* ---- value-level properties (optional_decimal/string/date_property.__set__) ---------------
   current = raw getter; if both current and value are present: current.value = value (in place,
   on the object the getter found), otherwise the raw setter with from_value(value) / None. *)
Definition inplace_number_per (s : cost) (x : Z) : cost :=
  match compound_comp s with
  | Some _ => with_comps s (upd_first is_compound (fun c => set_per_of c (Some x)) (c_comps s))
  | None =>
    match amount_comp s with
    | Some _ => with_comps s (upd_first is_amount (fun c => set_num_of c x) (c_comps s))
    | None => with_comps s (upd_first is_number (fun c => set_num_of c x) (c_comps s))
    end
  end.

Definition inplace_number_total (s : cost) (x : Z) : cost :=
  match compound_comp s with
  | Some _ => with_comps s (upd_first is_compound (fun c => set_total_of c (Some x)) (c_comps s))
  | None =>
    match amount_comp s with
    | Some _ => with_comps s (upd_first is_amount (fun c => set_num_of c x) (c_comps s))
    | None => with_comps s (upd_first is_number (fun c => set_num_of c x) (c_comps s))
    end
  end.

Definition inplace_currency (s : cost) (x : Z) : cost :=
  match compound_comp s with
  | Some _ => with_comps s (upd_first is_compound (fun c => set_cur_of c x) (c_comps s))
  | None =>
    match amount_comp s with
    | Some _ => with_comps s (upd_first is_amount (fun c => set_cur_of c x) (c_comps s))
    | None => with_comps s (upd_first is_currency (fun c => set_cur_of c x) (c_comps s))
    end
  end.

Definition set_number_per (s : cost) (v : option Z) : cost * res unit :=
  match raw_number_per s, v with
  | Some _, Some x => (inplace_number_per s x, Ok tt)
  | _, _ => raw_set_number_per s v
  end.

Definition set_number_total (s : cost) (v : option Z) : cost * res unit :=
  match raw_number_total s, v with
  | Some _, Some x => (inplace_number_total s x, Ok tt)
  | _, _ => raw_set_number_total s v
  end.

Definition set_currency_gen (fixed : bool) (s : cost) (v : option Z) : cost * res unit :=
  match raw_currency s, v with
  | Some _, Some x => (inplace_currency s x, Ok tt)
  | _, _ => raw_set_currency_gen fixed false s v
  end.
Definition set_currency := set_currency_gen true.

Definition set_date (s : cost) (v : option Z) : cost * res unit :=
  match raw_date s, v with
  | Some _, Some x => (with_comps s (upd_first is_date (fun _ => KDate x) (c_comps s)), Ok tt)
  | _, _ => (set_date_comp s (option_map KDate v), Ok tt)
  end.

Definition set_label (s : cost) (v : option Z) : cost * res unit :=
  match raw_label s, v with
  | Some _, Some x => (with_comps s (upd_first is_label (fun _ => KLabel x) (c_comps s)), Ok tt)
  | _, _ => (set_label_comp s (option_map KLabel v), Ok tt)
  end.

(* merge.setter *)
Definition set_merge (s : cost) (v : bool) : cost * res unit :=
  let current := get_merge s in
  if current && negb v then (set_asterisk_comp s None, Ok tt)
  else if negb current && v then (set_asterisk_comp s (Some KAsterisk), Ok tt)
  else (s, Ok tt).

(* ---- CostSpec.from_value ----------------------------------------------------------------- *)
Definition opt_list {A} (o : option A) : list A := match o with Some x => [x] | None => [] end.

Definition from_value (per total cur date label : option Z) (merge : bool) : res cost :=
  let tail := opt_list (option_map KDate date) ++ opt_list (option_map KLabel label)
              ++ (if merge then [KAsterisk] else []) in
  match per, total with
  | Some p, Some t =>
    match cur with
    | None => Err ValueError
    | Some c => Ok (mkcost Unit (KCompound (Some p) (Some t) c :: tail))
    end
  | Some p, None =>
    match cur with
    | None => Ok (mkcost Unit (KNumber p :: tail))
    | Some c => Ok (mkcost Unit (KAmount p c :: tail))
    end
  | None, Some t =>
    match cur with
    | None => Ok (mkcost Total (KNumber t :: tail))
    | Some c => Ok (mkcost Total (KAmount t c :: tail))
    end
  | None, None =>
    match cur with
    | Some c => Ok (mkcost Unit (KCurrency c :: tail))
    | None => Ok (mkcost Unit tail)
    end
  end.

(* ---- one assignment; the operation language shared with the harness and the spec ---------- *)
Inductive cop :=
| OPer (v : option Z) | OTotal (v : option Z) | OCur (v : option Z)
| ODate (v : option Z) | OLabel (v : option Z) | OMerge (v : bool).

Definition apply_gen (fixed : bool) (s : cost) (o : cop) : cost * res unit :=
  match o with
  | OPer v => set_number_per s v
  | OTotal v => set_number_total s v
  | OCur v => set_currency_gen fixed s v
  | ODate v => set_date s v
  | OLabel v => set_label s v
  | OMerge v => set_merge s v
  end.
Definition apply := apply_gen true.

(* raw-level assignments (`cost.raw_number_per = node` ...): which setter, the node's value, and
   whether the node is attached elsewhere *)
Inductive rop := RPer | RTotal | RCur.
Definition rapply_gen (fixed late : bool) (s : cost) (r : rop) (v : option Z) (att : bool) : cost * res unit :=
  match r with
  | RPer => raw_set_number_per_gen late att s v
  | RTotal => raw_set_number_total_gen late att s v
  | RCur => raw_set_currency_gen fixed att s v
  end.
Definition rapply := rapply_gen true false.
Definition cop_of (r : rop) (v : option Z) : cop :=
  match r with RPer => OPer v | RTotal => OTotal v | RCur => OCur v end.

(* `cost_spec.raw_cost = cost` (required_node_property.__set__ -> replace_node): the whole cost is
   replaced; an attached cost is refused by its detach() before anything is written.  CostSpec keeps
   no cache of the components (raw_cost_components is an uncached custom_property), so the state after
   the assignment is the assigned cost. *)
Definition set_raw_cost (att : bool) (s c : cost) : cost * res unit := refuse_if att s (c, Ok tt).

(* a whole assignment sequence, as a Python program would run it: a refused assignment raises,
   the caller catches it and goes on (results collected in order) *)
Fixpoint run_gen (fixed : bool) (s : cost) (ops : list cop) : cost * list (res unit) :=
  match ops with
  | [] => (s, [])
  | o :: r => let '(s1, x) := apply_gen fixed s o in
              let '(s2, xs) := run_gen fixed s1 r in (s2, x :: xs)
  end.
Definition run := run_gen true.

(* ---- the record-of-optionals specification ------------------------------------------------ *)
Record spec := mkspec {
  sp_per : option Z; sp_total : option Z; sp_cur : option Z;
  sp_date : option Z; sp_label : option Z; sp_merge : bool }.

(* the only constraint between the fields: both numbers need a currency *)
Definition sp_valid (a : spec) : bool :=
  match sp_per a, sp_total a, sp_cur a with Some _, Some _, None => false | _, _, _ => true end.

Definition sp_assign (a : spec) (o : cop) : spec :=
  match o with
  | OPer v => mkspec v (sp_total a) (sp_cur a) (sp_date a) (sp_label a) (sp_merge a)
  | OTotal v => mkspec (sp_per a) v (sp_cur a) (sp_date a) (sp_label a) (sp_merge a)
  | OCur v => mkspec (sp_per a) (sp_total a) v (sp_date a) (sp_label a) (sp_merge a)
  | ODate v => mkspec (sp_per a) (sp_total a) (sp_cur a) v (sp_label a) (sp_merge a)
  | OLabel v => mkspec (sp_per a) (sp_total a) (sp_cur a) (sp_date a) v (sp_merge a)
  | OMerge v => mkspec (sp_per a) (sp_total a) (sp_cur a) (sp_date a) (sp_label a) v
  end.

(* assign the field; refuse (ValueError, record unchanged) when the result would be invalid *)
Definition sp_apply (a : spec) (o : cop) : spec * res unit :=
  let b := sp_assign a o in if sp_valid b then (b, Ok tt) else (a, Err ValueError).

Fixpoint sp_run (a : spec) (ops : list cop) : spec * list (res unit) :=
  match ops with
  | [] => (a, [])
  | o :: r => let '(a1, x) := sp_apply a o in
              let '(a2, xs) := sp_run a1 r in (a2, x :: xs)
  end.

(* what the six public getters return *)
Definition abs (s : cost) : spec :=
  mkspec (raw_number_per s) (raw_number_total s) (raw_currency s) (raw_date s) (raw_label s) (get_merge s).

(* ---- the normal form: at most one amount-like component, at most one date, label, asterisk -- *)
Definition is_amountlike c := is_compound c || is_amount c || is_number c || is_currency c.
Definition count (k : comp -> bool) (l : list comp) : nat := length (filter k l).
Definition normal_b (s : cost) : bool :=
  (count is_amountlike (c_comps s) <=? 1)%nat && (count is_date (c_comps s) <=? 1)%nat
  && (count is_label (c_comps s) <=? 1)%nat && (count is_asterisk (c_comps s) <=? 1)%nat.

(* the shape outside Normal that the parser also accepts and on which the setters lose a value
   (known finding C09:cost:separate-number-currency-components): a bare number and a bare currency as
   two components, no amount and no compound amount *)
Definition separate_b (s : cost) : bool :=
  (count is_number (c_comps s) =? 1)%nat && (count is_currency (c_comps s) =? 1)%nat
  && (count is_amount (c_comps s) =? 0)%nat && (count is_compound (c_comps s) =? 0)%nat.
