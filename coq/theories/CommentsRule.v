(* C14: the attribution rule over whole layouts.
   The generated auto_claim_comments methods emit, for a model M: M.claim_leading_comment, M.claim_trailing_comment
   (both with ignore_if_already_claimed=True; only classes with the surrounding-comments mixin), then the children
   strictly last field to first (Desc.claim_ok, proved of every extracted class: GeneratedWf); a repeated field
   visits its items last to first (Repeated.auto_claim_comments) and, when it carries interleaving comments, finally
   calls claim_interleaving_comments() (RepeatedNodeWithInterleavingCommentsWrapper.auto_claim_comments): `emit`.
   Semantics (Comments.cstep): an auto call never takes a comment away from its owner (auto_history_keeps), so the
   FIRST call of the sequence that is eligible for a comment decides its owner (first_claim_wins,
   standalone_fallthrough); the documented priority "leading > trailing > standalone" therefore holds exactly where
   the emitted order has the leading call of the model below in front of the trailing call of the model above in
   front of the claim of the enclosing field (emit_* lemmas) - and fails where it has not (priority_refuted). *)
From AB Require Import Prelude Comments CommentsRange CommentsProofs CommentsOwn CommentsRestore CommentsComplete.
From Coq Require Import Permutation.

(* ---- 1. the declarative rule for one comment ------------------------------------------------------------------
   `layout` is the list of calls of one File.auto_claim_comments() run, read as a description of the tree: which
   token starts / ends which model (and its indentation class), which placeholder / items / limits belong to which
   repeated field.  The ORDER of the list is used only to break ties between several models of the same kind. *)
Definition adj_is (d : doc) (start : Z) (bw : bool) (ind : option bool) (c : Z) : bool :=
  match adjacent_comment d start bw ind with Some t => t_id t =? c | None => false end.

(* the model that starts right below c: placeholders aside, exactly one line break between c and its first token
   (no blank line, no dedent mark in between), same indentation class *)
Fixpoint lead_owner (d : doc) (c : Z) (layout : list cop) : option Z :=
  match layout with
  | [] => None
  | OS (ClaimLead n start _ ind) :: r => if adj_is d start true ind c then Some n else lead_owner d c r
  | _ :: r => lead_owner d c r
  end.
(* the model that ends right above c *)
Fixpoint trail_owner (d : doc) (c : Z) (layout : list cop) : option Z :=
  match layout with
  | [] => None
  | OS (ClaimTrail n start _ ind) :: r => if adj_is d start false ind c then Some n else trail_owner d c r
  | _ :: r => trail_owner d c r
  end.
(* the (innermost = first visited) repeated field with interleaving comments whose range holds c *)
Fixpoint field_owner (d : doc) (c : Z) (layout : list cop) : option Z :=
  match layout with
  | [] => None
  | OClaimInter r ph items mf ml _ :: rest =>
    if in_range_b d ph items mf ml c then Some r else field_owner d c rest
  | _ :: r => field_owner d c r
  end.

Definition attrib_spec (d : doc) (layout : list cop) (c : Z) : option slot :=
  match lead_owner d c layout with
  | Some n => Some (SLead n)
  | None => match trail_owner d c layout with
            | Some n => Some (STrail n)
            | None => match field_owner d c layout with Some r => Some (SRep r) | None => None end
            end
  end.

(* the slot that references c *)
Fixpoint owner_of (tb : table) (c : Z) : option slot :=
  match tb with [] => None | (s, l) :: r => if existsb (Z.eqb c) l then Some s else owner_of r c end.

Definition slot_opt_eqb (a b : option slot) : bool :=
  match a, b with Some x, Some y => slot_eqb x y | None, None => true | _, _ => false end.

Fixpoint pos_of (p : cop -> bool) (ops : list cop) : option nat :=
  match ops with [] => None | o :: r => if p o then Some O else option_map S (pos_of p r) end.
Definition is_claimer_of (r : Z) (o : cop) : bool := match o with OClaimInter r' _ _ _ _ _ => r =? r' | _ => false end.
Definition is_trail_of (n : Z) (o : cop) : bool := match o with OS (ClaimTrail n' _ _ _) => n =? n' | _ => false end.

(* the one way the emitted order contradicts the rule: a field that is visited BEFORE the model ending right above c
   (a later field of the same parent) takes c as a standalone entry *)
Definition inversion_b (d : doc) (ops : list cop) (c : Z) (actual : option slot) : bool :=
  match lead_owner d c ops, trail_owner d c ops, actual with
  | None, Some n, Some (SRep r) =>
    match pos_of (is_claimer_of r) ops, pos_of (is_trail_of n) ops with
    | Some i, Some j => (i <? j)%nat
    | _, _ => false
    end
  | _, _, _ => false
  end.

(* per trace: d = the parsed store (nothing claimed), ops = the calls of File.auto_claim_comments(), tb = the table
   after them *)
Definition attrib_spec_b (d : doc) (ops : list cop) (tb : table) : bool :=
  forallb (fun t => negb (is_comment t) || t_claimed t
                    || slot_opt_eqb (attrib_spec d ops (t_id t)) (owner_of tb (t_id t))
                    || inversion_b d ops (t_id t) (owner_of tb (t_id t))) d.

(* ---- 2. an auto call never takes a comment away ---------------------------------------------------------------- *)
Lemma hist_ok_app : forall a b st, hist_ok (a ++ b) st = hist_ok a st && hist_ok b (fold_left cstep a st).
Proof.
  induction a as [|o a IH]; intros b st; simpl; [reflexivity|]. rewrite IH, andb_assoc. reflexivity.
Qed.

Lemma small_single : forall (l : list Z) c, (length l <= 1)%nat -> In c l -> l = [c].
Proof.
  intros [|x [|y l]] c L I; simpl in *; try contradiction; try lia. destruct I as [I|[]]. subst; reflexivity.
Qed.

Lemma auto_step_keeps : forall st o s c,
  Inv st -> op_ok st o = true -> is_auto_op o = true ->
  In c (tget (snd st) s) -> In c (tget (snd (cstep st o)) s).
Proof.
  intros [d tb] o s c HI OK AU I. destruct HI as [ND [OI SS]]. simpl in ND, OI, SS, I.
  destruct o as [[n start ig ind|n start ig ind|n|n]|r ph items mf ml flt|r items flt]; simpl in AU; try discriminate.
  - simpl. destruct (claim_comment (cur_of (tget tb (SLead n))) d start true ig ind) as [[x|e] d'] eqn:E; simpl; [|exact I].
    rewrite tget_tset. destruct (slot_eqb (SLead n) s) eqn:SE; [|exact I].
    apply slot_eqb_eq in SE. subst s. destruct (SS n) as [L _].
    rewrite (small_single _ c L I) in E. simpl in E. inversion E; subst. left; reflexivity.
  - simpl. destruct (claim_comment (cur_of (tget tb (STrail n))) d start false ig ind) as [[x|e] d'] eqn:E; simpl; [|exact I].
    rewrite tget_tset. destruct (slot_eqb (STrail n) s) eqn:SE; [|exact I].
    apply slot_eqb_eq in SE. subst s. destruct (SS n) as [_ L].
    rewrite (small_single _ c L I) in E. simpl in E. inversion E; subst. left; reflexivity.
  - destruct flt; [discriminate|]. simpl in OK. apply andb_prop in OK. destruct OK as [EQ _]. apply list_eqb_Z in EQ.
    simpl. destruct (claimer_claim d ph items mf ml None) as [[[ret its]|e] d'] eqn:E; simpl; [|exact I].
    rewrite tget_tset. destruct (slot_eqb (SRep r) s) eqn:SE; [|exact I].
    apply slot_eqb_eq in SE. subst s. rewrite <- EQ in I.
    destruct (claimer_claim_covers _ _ _ _ _ _ _ _ ND E) as [OLD _]. apply OLD. exact I.
Qed.

Theorem auto_history_keeps : forall ops st s c,
  Inv st -> hist_ok ops st = true -> forallb is_auto_op ops = true ->
  In c (tget (snd st) s) -> In c (tget (snd (fold_left cstep ops st)) s).
Proof.
  induction ops as [|o ops IH]; simpl; intros st s c HI OK AU I; [exact I|].
  apply andb_prop in OK. destruct OK as [O1 O2]. apply andb_prop in AU. destruct AU as [A1 A2].
  apply IH; auto. - apply cstep_inv; auto. - apply auto_step_keeps; auto.
Qed.

Lemma owners_two : forall c tb s s', s <> s' ->
  (count_z c (tget tb s) + count_z c (tget tb s') <= owners c tb)%nat.
Proof.
  induction tb as [|[s0 l] tb IH]; simpl; intros s s' NE; [lia|].
  destruct (slot_eqb s0 s) eqn:E1; destruct (slot_eqb s0 s') eqn:E2.
  - apply slot_eqb_eq in E1. apply slot_eqb_eq in E2. congruence.
  - pose proof (owners_ge_tget c tb s'). lia.
  - pose proof (owners_ge_tget c tb s). lia.
  - specialize (IH s s' NE). lia.
Qed.

Lemma inv_single_owner : forall d tb t s s',
  Inv (d, tb) -> In t d -> is_comment t = true -> In (t_id t) (tget tb s) -> s <> s' -> ~ In (t_id t) (tget tb s').
Proof.
  intros d tb t s s' [_ [OI _]] It C I NE J. simpl in OI. destruct (OI t It C) as [LE _].
  apply count_z_in in I. apply count_z_in in J. pose proof (owners_two (t_id t) tb s s' NE). lia.
Qed.

Lemma comment_persists : forall ops st t, NoDup (ids (fst st)) -> In t (fst st) -> is_comment t = true ->
  exists t', In t' (fst (fold_left cstep ops st)) /\ t_id t' = t_id t /\ is_comment t' = true.
Proof.
  intros ops st t ND I C. destruct (chistory_same_vis ops st ND) as [P _].
  assert (X : In (tkey t) (map tkey (fst (fold_left cstep ops st)))).
  { eapply Permutation_in; [apply Permutation_sym; exact P | apply in_map; exact I]. }
  apply in_map_iff in X. destruct X as [t' [K I']]. unfold tkey in K. injection K as K1 K2 K3.
  exists t'. split; [exact I'|]. split; [exact K1|]. unfold is_comment in *. rewrite K2. exact C.
Qed.

(* ---- 3. the first eligible call decides -------------------------------------------------------------------------- *)
Definition sslot (lead : bool) (n : Z) : slot := if lead then SLead n else STrail n.
Definition sclaim (lead : bool) (n start : Z) (ig : bool) (ind : option bool) : cop :=
  OS (if lead then ClaimLead n start ig ind else ClaimTrail n start ig ind).

Lemma sstep_claims : forall (lead : bool) d tb n start ig ind c,
  NoDup (ids d) -> tget tb (sslot lead n) = [] -> adjacent_decl d start lead ind c ->
  tget (snd (cstep (d, tb) (sclaim lead n start ig ind))) (sslot lead n) = [t_id c].
Proof.
  intros lead d tb n start ig ind c ND TG ADJ.
  assert (R : fst (claim_comment None d start lead ig ind) = Ok (Some (t_id c))).
  { apply rule_single_claim; auto. exists c. split; auto. }
  destruct lead; unfold sclaim, sslot in *; simpl; rewrite TG; simpl cur_of;
    destruct (claim_comment None d start _ ig ind) as [r d'] eqn:E; simpl in R; subst r; simpl;
    rewrite tget_tset, slot_eqb_refl; reflexivity.
Qed.

Lemma adjacent_decl_in : forall d start bw ind c, adjacent_decl d start bw ind c -> In c d /\ is_comment c = true.
Proof.
  intros d start bw ind c [pre [s [g1 [nl [g2 [post [Hd [_ [_ [_ [_ [IC _]]]]]]]]]]]]. split; [|exact IC].
  destruct bw; rewrite Hd.
  - apply in_or_app; right; left; reflexivity.
  - apply in_or_app; right; right. apply in_or_app; right; right. apply in_or_app; right; left; reflexivity.
Qed.

(* whichever surrounding claim (leading: lead = true, trailing: lead = false) is called while c is still unclaimed and
   adjacent to its model owns c at the end of every auto sequence, and nobody else does *)
Theorem first_claim_wins : forall (lead : bool) ops1 ops2 st n start ig ind c,
  Inv st ->
  hist_ok (ops1 ++ sclaim lead n start ig ind :: ops2) st = true -> forallb is_auto_op ops2 = true ->
  tget (snd (fold_left cstep ops1 st)) (sslot lead n) = [] ->
  adjacent_decl (fst (fold_left cstep ops1 st)) start lead ind c ->
  let stf := fold_left cstep (ops1 ++ sclaim lead n start ig ind :: ops2) st in
  tget (snd stf) (sslot lead n) = [t_id c] /\ forall s, s <> sslot lead n -> ~ In (t_id c) (tget (snd stf) s).
Proof.
  intros lead ops1 ops2 st n start ig ind c HI OK AU TG ADJ stf.
  rewrite hist_ok_app in OK. apply andb_prop in OK. destruct OK as [OK1 OK2].
  assert (OKo : op_ok (fold_left cstep ops1 st) (sclaim lead n start ig ind) = true) by reflexivity.
  assert (OK2' : hist_ok ops2 (cstep (fold_left cstep ops1 st) (sclaim lead n start ig ind)) = true).
  { simpl in OK2. exact OK2. }
  clear OK2. rename OK2' into OK2.
  assert (I1 : Inv (fold_left cstep ops1 st)) by (apply chistory_inv; auto).
  destruct (fold_left cstep ops1 st) as [d1 tb1] eqn:E1. simpl in TG, ADJ.
  assert (ND1 : NoDup (ids d1)) by (apply I1).
  pose proof (sstep_claims lead d1 tb1 n start ig ind c ND1 TG ADJ) as CL.
  assert (I2 : Inv (cstep (d1, tb1) (sclaim lead n start ig ind))) by (apply cstep_inv; auto).
  assert (EF : stf = fold_left cstep ops2 (cstep (d1, tb1) (sclaim lead n start ig ind))).
  { unfold stf. rewrite fold_left_app. simpl. rewrite E1. reflexivity. }
  assert (IF : Inv stf) by (rewrite EF; apply chistory_inv; auto).
  assert (KEEP : In (t_id c) (tget (snd stf) (sslot lead n))).
  { rewrite EF. apply auto_history_keeps; auto. rewrite CL. left; reflexivity. }
  split.
  - apply small_single; [|exact KEEP]. destruct IF as [_ [_ SS]]. destruct lead; simpl; apply (SS n).
  - intros s NE.
    destruct (adjacent_decl_in _ _ _ _ _ ADJ) as [Ic Cc].
    assert (ND0 : NoDup (ids (fst (d1, tb1)))) by exact ND1.
    destruct (comment_persists (sclaim lead n start ig ind :: ops2) (d1, tb1) c ND0 Ic Cc) as [t' [It' [Et' Ct']]].
    assert (EQ : fold_left cstep (sclaim lead n start ig ind :: ops2) (d1, tb1) = stf) by (rewrite EF; reflexivity).
    rewrite EQ in It'. rewrite <- Et'. rewrite <- Et' in KEEP.
    destruct stf as [df tbf]. eapply inv_single_owner; eauto.
Qed.

(* leading > trailing is nothing but the order of the two calls: with c adjacent to the first token of B (below) and to
   the last token of A (above), [B.claim_leading; A.claim_trailing] gives c to B, the other order gives it to A *)
Theorem order_decides : forall d tb nA sA indA nB sB indB c,
  Inv (d, tb) -> tget tb (SLead nB) = [] -> tget tb (STrail nA) = [] ->
  adjacent_decl d sB true indB c -> adjacent_decl d sA false indA c ->
  (let stf := fold_left cstep [sclaim true nB sB true indB; sclaim false nA sA true indA] (d, tb) in
   tget (snd stf) (SLead nB) = [t_id c] /\ ~ In (t_id c) (tget (snd stf) (STrail nA))) /\
  (let stf := fold_left cstep [sclaim false nA sA true indA; sclaim true nB sB true indB] (d, tb) in
   tget (snd stf) (STrail nA) = [t_id c] /\ ~ In (t_id c) (tget (snd stf) (SLead nB))).
Proof.
  intros d tb nA sA indA nB sB indB c HI TB TA AB AA. split.
  - destruct (first_claim_wins true [] [sclaim false nA sA true indA] (d, tb) nB sB true indB c HI eq_refl eq_refl TB AB)
      as [X Y]. split; [exact X | apply Y; discriminate].
  - destruct (first_claim_wins false [] [sclaim true nB sB true indB] (d, tb) nA sA true indA c HI eq_refl eq_refl TA AA)
      as [X Y]. split; [exact X | apply Y; discriminate].
Qed.

(* the documented priority for the model below: once B.claim_leading_comment is called with c unclaimed and adjacent, c is
   B's leading comment after the whole sequence - no trailing slot and no repeated field has it *)
Theorem rule_leading_first : forall ops1 ops2 st nB sB ig indB c,
  Inv st ->
  hist_ok (ops1 ++ OS (ClaimLead nB sB ig indB) :: ops2) st = true -> forallb is_auto_op ops2 = true ->
  tget (snd (fold_left cstep ops1 st)) (SLead nB) = [] ->
  adjacent_decl (fst (fold_left cstep ops1 st)) sB true indB c ->
  let stf := fold_left cstep (ops1 ++ OS (ClaimLead nB sB ig indB) :: ops2) st in
  tget (snd stf) (SLead nB) = [t_id c] /\
  (forall nA, ~ In (t_id c) (tget (snd stf) (STrail nA))) /\ (forall r, ~ In (t_id c) (tget (snd stf) (SRep r))).
Proof.
  intros ops1 ops2 st nB sB ig indB c HI OK AU TG ADJ stf.
  destruct (first_claim_wins true ops1 ops2 st nB sB ig indB c HI OK AU TG ADJ) as [X Y].
  split; [exact X|]. split; intros k; apply Y; discriminate.
Qed.

(* a comment that no surrounding claim has taken when the enclosing field claims, and that lies in that field's
   range, ends as an entry of that field *)
Lemma claimer_none_ok : forall d ph items mf ml,
  NoDup (ids d) -> has_tok_b d ph = true -> items_ordered_b d ph items = true ->
  exists ret its d', claimer_claim d ph items mf ml None = (Ok (ret, its), d').
Proof.
  intros d ph items mf ml ND HT ORD.
  destruct (claimer_claim_total d ph items mf ml None ND HT ORD)
    as [wb [wa [cb_rev [s1 [inner [s2 [ca [s3 [WB [WA [F1 [FI [F2 R]]]]]]]]]]]]].
  pose proof (find_outer_None_s _ _ _ _ _ F1) as E1. subst s1.
  pose proof (find_inner_None_s _ _ _ _ _ FI) as E2. subst s2.
  pose proof (find_outer_None_s _ _ _ _ _ F2) as E3. subst s3.
  cbv zeta in R. simpl cs_nonempty in R. cbv iota in R. destruct R as [d2 [_ R]]. eauto.
Qed.

Theorem standalone_fallthrough : forall ops1 ops2 st r ph items mf ml c,
  Inv st ->
  hist_ok (ops1 ++ OClaimInter r ph items mf ml None :: ops2) st = true -> forallb is_auto_op ops2 = true ->
  has_tok_b (fst (fold_left cstep ops1 st)) ph = true ->
  in_range_b (fst (fold_left cstep ops1 st)) ph items mf ml c = true ->
  let stf := fold_left cstep (ops1 ++ OClaimInter r ph items mf ml None :: ops2) st in
  In c (tget (snd stf) (SRep r)) /\ forall s, s <> SRep r -> ~ In c (tget (snd stf) s).
Proof.
  intros ops1 ops2 st r ph items mf ml c HI OK AU HT IR stf.
  rewrite hist_ok_app in OK. apply andb_prop in OK. destruct OK as [OK1 OK2].
  simpl hist_ok in OK2. apply andb_prop in OK2. destruct OK2 as [OKo OK2].
  assert (I1 : Inv (fold_left cstep ops1 st)) by (apply chistory_inv; auto).
  destruct (fold_left cstep ops1 st) as [d1 tb1] eqn:E1. simpl fst in HT, IR.
  assert (ND1 : NoDup (ids d1)) by (apply I1).
  pose proof OKo as OKo'. simpl in OKo'. apply andb_prop in OKo'. destruct OKo' as [_ ORD].
  destruct (claimer_none_ok d1 ph items mf ml ND1 HT ORD) as [ret [its [d' CC]]].
  destruct (in_range_b_spec _ _ _ _ _ _ IR) as [t [It [Et [Ct [Ut TEt]]]]].
  assert (Itd : In t d1) by (eapply claim_range_in; eauto).
  destruct (claimer_claim_covers _ _ _ _ _ _ _ _ ND1 CC) as [_ COV].
  destruct (claimer_claim_same_vis _ _ _ _ _ _ _ _ CC) as [P _].
  assert (X : In (tkey t) (map tkey d')).
  { eapply Permutation_in; [apply Permutation_sym; exact P | apply in_map; exact Itd]. }
  apply in_map_iff in X. destruct X as [t' [K It']]. unfold tkey in K. injection K as K1 K2 K3.
  assert (C' : is_comment t' = true) by (unfold is_comment in *; rewrite K2; exact Ct).
  assert (TE' : text_empty t' = false) by (unfold text_empty in *; rewrite K3; exact TEt).
  assert (R' : In (t_id t') (ids (claim_range d1 ph items mf ml))) by (rewrite K1; unfold ids; apply in_map; exact It).
  destruct (COV t' It' C' TE' R') as [_ REF].
  assert (INI : In c (comments_of its)) by (rewrite <- Et, <- K1; apply (REF t Itd); [symmetry; exact K1 | exact Ut]).
  assert (S2 : tget (snd (cstep (d1, tb1) (OClaimInter r ph items mf ml None))) (SRep r) = comments_of its).
  { simpl. rewrite CC. simpl. rewrite tget_tset, slot_eqb_refl. reflexivity. }
  assert (I2 : Inv (cstep (d1, tb1) (OClaimInter r ph items mf ml None))) by (apply cstep_inv; auto).
  assert (EF : stf = fold_left cstep ops2 (cstep (d1, tb1) (OClaimInter r ph items mf ml None))).
  { unfold stf. rewrite fold_left_app. simpl fold_left. rewrite E1. reflexivity. }
  assert (IF : Inv stf) by (rewrite EF; apply chistory_inv; auto).
  assert (KEEP : In c (tget (snd stf) (SRep r))).
  { rewrite EF. apply auto_history_keeps; auto. rewrite S2. exact INI. }
  split; [exact KEEP|]. intros s NE.
  assert (ND0 : NoDup (ids (fst (d1, tb1)))) by exact ND1.
  destruct (comment_persists (OClaimInter r ph items mf ml None :: ops2) (d1, tb1) t ND0 Itd Ct) as [tf [Itf [Etf Ctf]]].
  assert (EQ : fold_left cstep (OClaimInter r ph items mf ml None :: ops2) (d1, tb1) = stf) by (rewrite EF; reflexivity).
  rewrite EQ in Itf. rewrite <- Et, <- Etf. rewrite <- Et, <- Etf in KEEP.
  destruct stf as [df tbf]. eapply inv_single_owner; eauto.
Qed.

(* ---- 4. the order the generated code emits ----------------------------------------------------------------------- *)
Inductive amodel := AM (n : Z) (mixin : bool) (fs : afields)
with afields := FNil | FCons (f : afield) (fs : afields)               (* fields in declaration order *)
with afield := AFModel (m : amodel) | AFRep (r : Z) (inter : bool) (items : amodels)
with amodels := MNil | MCons (m : amodel) (ms : amodels).              (* items in store order *)

Fixpoint emit (m : amodel) : list slot :=
  match m with AM n mx fs => (if mx then [SLead n; STrail n] else []) ++ emit_fs fs end
with emit_fs (fs : afields) : list slot :=
  match fs with FNil => [] | FCons f fs' => emit_fs fs' ++ emit_f f end          (* last field first *)
with emit_f (f : afield) : list slot :=
  match f with
  | AFModel m => emit m
  | AFRep r inter items => emit_ms items ++ (if inter then [SRep r] else [])    (* items, then the field's own claim *)
  end
with emit_ms (ms : amodels) : list slot :=
  match ms with MNil => [] | MCons m ms' => emit_ms ms' ++ emit m end.           (* reversed(items) *)

Definition precedes (x y : slot) (l : list slot) : Prop := exists l1 l2 l3, l = l1 ++ x :: l2 ++ y :: l3.

Lemma precedes_app : forall x y l1 l2, In x l1 -> In y l2 -> precedes x y (l1 ++ l2).
Proof.
  intros x y l1 l2 I1 I2. apply in_split in I1. destruct I1 as [a [b E1]]. apply in_split in I2. destruct I2 as [a' [b' E2]].
  exists a, (b ++ a'), b'. rewrite E1, E2. rewrite <- ?app_assoc. simpl. rewrite <- ?app_assoc. reflexivity.
Qed.

Lemma precedes_app_l : forall x y l1 l2, precedes x y l1 -> precedes x y (l1 ++ l2).
Proof. intros x y l1 l2 [a [b [c E]]]. exists a, b, (c ++ l2). rewrite E. rewrite <- ?app_assoc. simpl. rewrite <- ?app_assoc. reflexivity. Qed.
Lemma precedes_app_r : forall x y l1 l2, precedes x y l2 -> precedes x y (l1 ++ l2).
Proof. intros x y l1 l2 [a [b [c E]]]. exists (l1 ++ a), b, c. rewrite E. rewrite <- ?app_assoc. reflexivity. Qed.

Fixpoint min (m : amodel) (ms : amodels) : Prop :=
  match ms with MNil => False | MCons m' ms' => m = m' \/ min m ms' end.
(* A stands before B in the item list *)
Fixpoint m_before (a b : amodel) (ms : amodels) : Prop :=
  match ms with MNil => False | MCons m ms' => (a = m /\ min b ms') \/ m_before a b ms' end.
Fixpoint fin (f : afield) (fs : afields) : Prop :=
  match fs with FNil => False | FCons f' fs' => f = f' \/ fin f fs' end.
Fixpoint f_before (a b : afield) (fs : afields) : Prop :=
  match fs with FNil => False | FCons f fs' => (a = f /\ fin b fs') \/ f_before a b fs' end.

Lemma emit_ms_in : forall ms m s, min m ms -> In s (emit m) -> In s (emit_ms ms).
Proof.
  induction ms as [|m' ms IH]; simpl; intros m s I H; [contradiction|].
  apply in_or_app. destruct I as [I|I]; [subst; right; exact H | left; eapply IH; eauto].
Qed.
Lemma emit_fs_in : forall fs f s, fin f fs -> In s (emit_f f) -> In s (emit_fs fs).
Proof.
  induction fs as [|f' fs IH]; simpl; intros f s I H; [contradiction|].
  apply in_or_app. destruct I as [I|I]; [subst; right; exact H | left; eapply IH; eauto].
Qed.

(* siblings: every call of the later item B comes before every call of the earlier item A - in particular
   B.claim_leading before A.claim_trailing *)
Theorem emit_siblings : forall ms a b x y, m_before a b ms -> In x (emit b) -> In y (emit a) ->
  precedes x y (emit_ms ms).
Proof.
  induction ms as [|m ms IH]; simpl; intros a b x y H X Y; [contradiction|].
  destruct H as [[E I]|H].
  - subst m. apply precedes_app; [eapply emit_ms_in; eauto | exact Y].
  - apply precedes_app_l. eapply IH; eauto.
Qed.

(* every call of an item comes before the claim of the field that holds it *)
Theorem emit_items_before_field : forall r items m x, min m items -> In x (emit m) ->
  precedes x (SRep r) (emit_f (AFRep r true items)).
Proof.
  intros r items m x I X. simpl. apply precedes_app; [eapply emit_ms_in; eauto | left; reflexivity].
Qed.

(* two fields of one model: every call of the LATER field - its own claim_interleaving_comments() included - comes
   before every call of the earlier field *)
Theorem emit_later_field_first : forall fs fa fb x y, f_before fa fb fs -> In x (emit_f fb) -> In y (emit_f fa) ->
  precedes x y (emit_fs fs).
Proof.
  induction fs as [|f fs IH]; simpl; intros fa fb x y H X Y; [contradiction|].
  destruct H as [[E I]|H].
  - subst f. apply precedes_app; [eapply emit_fs_in; eauto | exact Y].
  - apply precedes_app_l. eapply IH; eauto.
Qed.

(* hence, for a model whose meta field is declared before its postings field (Transaction): the postings' standalone
   claim precedes the trailing claim of every meta item *)
Corollary emit_postings_before_meta_trail : forall n mx fs rm rp im metas posts k kmx kfs,
  f_before (AFRep rm im metas) (AFRep rp true posts) fs -> min (AM k kmx kfs) metas -> kmx = true ->
  precedes (SRep rp) (STrail k) (emit (AM n mx fs)).
Proof.
  intros n mx fs rm rp im metas posts k kmx kfs FB MI KM. subst kmx. simpl. apply precedes_app_r.
  eapply emit_later_field_first; [exact FB | |].
  - simpl. apply in_or_app; right; left; reflexivity.
  - simpl. apply in_or_app; left. eapply emit_ms_in; [exact MI|]. simpl. right; left; reflexivity.
Qed.

(* ---- 5. the shape on which the emitted order contradicts the rule (known finding
        C14:rule:empty-postings-claim-first): `2000-01-01 *` / `  kax: 1` / `  ; c`.  The calls are those the
        implementation makes (Transaction 3, its postings field 9 with placeholder 14, MetaItem 6 = tokens 9..13, meta
        field 5, File field 2); c = token 16 is adjacent to the last token of the meta item and to no first token *)
Definition px_doc : doc :=
  [mktok 1 KPlaceholder [] false; mktok 2 KOther [50; 48; 48] false; mktok 3 KWhitespace [32] false;
   mktok 4 KOther [42] false; mktok 5 KPlaceholder [] false; mktok 6 KEol [] false; mktok 7 KPlaceholder [] false;
   mktok 8 KNewline [10] false; mktok 9 KIndent [32; 32] false; mktok 10 KOther [107; 97; 120] false;
   mktok 11 KWhitespace [32] false; mktok 12 KOther [49] false; mktok 13 KEol [] false; mktok 14 KPlaceholder [] false;
   mktok 15 KNewline [10] false; mktok 16 KBlockComment [32; 32; 59] false; mktok 17 KOther [] false;
   mktok 18 KNewline [10] false].
Definition px_ops : list cop :=
  [OS (ClaimLead 3 2 true (Some false)); OS (ClaimTrail 3 17 true (Some false)); OClaimInter 9 14 [] 2 17 None;
   OS (ClaimLead 6 9 true (Some true)); OS (ClaimTrail 6 13 true (Some true));
   OClaimInter 5 7 [mkitem false 0 9 13] 2 17 None; OClaimInter 2 1 [mkitem false 0 2 17] 1 18 None].
(* the tree behind px_ops: File{directives: [Transaction 3 {tags_links 4; meta 5: [MetaItem 6]; postings 9: []}]} *)
Definition px_tree : amodel :=
  AM 1 false (FCons (AFRep 2 true (MCons
    (AM 3 true (FCons (AFRep 4 false MNil) (FCons (AFRep 5 true (MCons (AM 6 true FNil) MNil))
               (FCons (AFRep 9 true MNil) FNil)))) MNil)) FNil).

Lemma ex_nodup_px : NoDup (ids px_doc).
Proof. apply nodup_zb_ok. vm_compute. reflexivity. Qed.

Theorem priority_refuted :
  Inv (px_doc, []) /\ hist_ok px_ops (px_doc, []) = true /\ forallb is_auto_op px_ops = true /\
  map op_slot px_ops = emit px_tree /\
  attrib_spec px_doc px_ops 16 = Some (STrail 6) /\
  (exists c, t_id c = 16 /\ adjacent_decl px_doc 13 false (Some true) c) /\
  owner_of (snd (fold_left cstep px_ops (px_doc, []))) 16 = Some (SRep 9) /\
  tget (snd (fold_left cstep px_ops (px_doc, []))) (STrail 6) = [] /\
  inversion_b px_doc px_ops 16 (Some (SRep 9)) = true.
Proof.
  split; [apply inv_b_ok; vm_compute; reflexivity|].
  split; [vm_compute; reflexivity|]. split; [vm_compute; reflexivity|]. split; [vm_compute; reflexivity|].
  split; [vm_compute; reflexivity|].
  split.
  - apply (proj1 (rule_single_claim px_doc 13 false true (Some true) 16 ex_nodup_px)). vm_compute. reflexivity.
  - repeat split; vm_compute; reflexivity.
Qed.

(* ---- 6. attrib_spec read declaratively ---------------------------------------------------------------------------- *)
Lemma adj_is_decl : forall d start bw ind c, NoDup (ids d) -> adj_is d start bw ind c = true ->
  exists t, t_id t = c /\ In t d /\ is_comment t = true /\ (t_claimed t = false -> adjacent_decl d start bw ind t).
Proof.
  intros d start bw ind c ND H. unfold adj_is in H.
  destruct (adjacent_comment d start bw ind) as [t|] eqn:A; [|discriminate]. apply Z.eqb_eq in H.
  destruct (adjacent_comment_shape d start bw ind t A)
    as [first [w' [ign1 [nl [ign2 [rest [W [HW [P1 [P2 [INL [IC IND]]]]]]]]]]]].
  assert (It : In t d).
  { eapply walk_in; [exact W|]. rewrite HW. apply in_or_app; right; right. apply in_or_app; right; left; reflexivity. }
  exists t. split; [exact H|]. split; [exact It|]. split; [exact IC|]. intros U.
  assert (R : fst (claim_comment None d start bw true ind) = Ok (Some (t_id t))).
  { rewrite claim_comment_is_spec; [|exact ND | rewrite W; discriminate]. unfold claim_spec. rewrite A, U. reflexivity. }
  apply (proj1 (rule_single_claim d start bw true ind (t_id t) ND)) in R. destruct R as [c' [E AD]].
  destruct (adjacent_decl_in _ _ _ _ _ AD) as [Ic' _].
  assert (c' = t) by (apply (nodup_id_inj d); auto). subst c'. exact AD.
Qed.

Lemma lead_owner_some : forall d c layout n, lead_owner d c layout = Some n ->
  exists start ig ind, In (OS (ClaimLead n start ig ind)) layout /\ adj_is d start true ind c = true.
Proof.
  induction layout as [|o r IH]; simpl; intros n H; [discriminate|].
  destruct o as [[n0 start ig ind|n0 start ig ind|n0|n0]|r0 ph items mf ml flt|r0 items flt];
    try (destruct (IH n H) as [s [g [i [I A]]]]; exists s, g, i; split; [right; exact I | exact A]).
  destruct (adj_is d start true ind c) eqn:A.
  - inversion H; subst. exists start, ig, ind. split; [left; reflexivity | exact A].
  - destruct (IH n H) as [s [g [i [I A']]]]. exists s, g, i. split; [right; exact I | exact A'].
Qed.

Lemma lead_owner_none : forall d c layout, lead_owner d c layout = None ->
  forall n start ig ind, In (OS (ClaimLead n start ig ind)) layout -> adj_is d start true ind c = false.
Proof.
  induction layout as [|o r IH]; simpl; intros H n start ig ind I; [contradiction|].
  destruct o as [[n0 start0 ig0 ind0|n0 start0 ig0 ind0|n0|n0]|r0 ph items mf ml flt|r0 items flt];
    try (destruct I as [I|I]; [discriminate | eapply IH; eauto]).
  destruct (adj_is d start0 true ind0 c) eqn:A; [discriminate|].
  destruct I as [I|I]; [inversion I; subst; exact A | eapply IH; eauto].
Qed.

Lemma trail_owner_some : forall d c layout n, trail_owner d c layout = Some n ->
  exists start ig ind, In (OS (ClaimTrail n start ig ind)) layout /\ adj_is d start false ind c = true.
Proof.
  induction layout as [|o r IH]; simpl; intros n H; [discriminate|].
  destruct o as [[n0 start ig ind|n0 start ig ind|n0|n0]|r0 ph items mf ml flt|r0 items flt];
    try (destruct (IH n H) as [s [g [i [I A]]]]; exists s, g, i; split; [right; exact I | exact A]).
  destruct (adj_is d start false ind c) eqn:A.
  - inversion H; subst. exists start, ig, ind. split; [left; reflexivity | exact A].
  - destruct (IH n H) as [s [g [i [I A']]]]. exists s, g, i. split; [right; exact I | exact A'].
Qed.

Lemma trail_owner_none : forall d c layout, trail_owner d c layout = None ->
  forall n start ig ind, In (OS (ClaimTrail n start ig ind)) layout -> adj_is d start false ind c = false.
Proof.
  induction layout as [|o r IH]; simpl; intros H n start ig ind I; [contradiction|].
  destruct o as [[n0 start0 ig0 ind0|n0 start0 ig0 ind0|n0|n0]|r0 ph items mf ml flt|r0 items flt];
    try (destruct I as [I|I]; [discriminate | eapply IH; eauto]).
  destruct (adj_is d start0 false ind0 c) eqn:A; [discriminate|].
  destruct I as [I|I]; [inversion I; subst; exact A | eapply IH; eauto].
Qed.

Lemma field_owner_some : forall d c layout r, field_owner d c layout = Some r ->
  exists ph items mf ml flt, In (OClaimInter r ph items mf ml flt) layout /\ in_range_b d ph items mf ml c = true.
Proof.
  induction layout as [|o rest IH]; simpl; intros r H; [discriminate|].
  destruct o as [o|r0 ph items mf ml flt|r0 items flt];
    try (destruct (IH r H) as [a [b [e [f [g [I A]]]]]]; exists a, b, e, f, g; split; [right; exact I | exact A]).
  destruct (in_range_b d ph items mf ml c) eqn:A.
  - inversion H; subst. exists ph, items, mf, ml, flt. split; [left; reflexivity | exact A].
  - destruct (IH r H) as [a [b [e [f [g [I A']]]]]]. exists a, b, e, f, g. split; [right; exact I | exact A'].
Qed.

(* the rule, clause by clause: SLead n - model n starts right below c; STrail n - no model starts right below c and
   model n ends right above it; SRep r - neither, and c lies in the range of field r *)
Theorem attrib_spec_decl : forall d layout c s, attrib_spec d layout c = Some s ->
  match s with
  | SLead n => exists start ig ind, In (OS (ClaimLead n start ig ind)) layout /\ adj_is d start true ind c = true
  | STrail n =>
    (forall n' start ig ind, In (OS (ClaimLead n' start ig ind)) layout -> adj_is d start true ind c = false) /\
    exists start ig ind, In (OS (ClaimTrail n start ig ind)) layout /\ adj_is d start false ind c = true
  | SRep r =>
    (forall n' start ig ind, In (OS (ClaimLead n' start ig ind)) layout -> adj_is d start true ind c = false) /\
    (forall n' start ig ind, In (OS (ClaimTrail n' start ig ind)) layout -> adj_is d start false ind c = false) /\
    exists ph items mf ml flt, In (OClaimInter r ph items mf ml flt) layout /\ in_range_b d ph items mf ml c = true
  end.
Proof.
  intros d layout c s H. unfold attrib_spec in H.
  destruct (lead_owner d c layout) as [n|] eqn:L.
  - inversion H; subst. eapply lead_owner_some; eauto.
  - destruct (trail_owner d c layout) as [n|] eqn:T.
    + inversion H; subst. split; [eapply lead_owner_none; eauto | eapply trail_owner_some; eauto].
    + destruct (field_owner d c layout) as [r|] eqn:F; [|discriminate]. inversion H; subst.
      split; [eapply lead_owner_none; eauto|]. split; [eapply trail_owner_none; eauto | eapply field_owner_some; eauto].
Qed.
