(* Proofs about edits, part 3: inserting / removing an item of a Repeated anywhere in the tree. *)
From AB Require Import Desc Tree TreeDefs TreeProofs TreeProofs2 TreeProofs3 TreeProofs4 TreeWF TreeWFProofs.
From AB Require Import Construct ConstructProofs ConstructWF TreeEdit TreeEditProofs TreeEditProofs2.
From Coq Require Import ZArith List Bool Lia.
Import ListNotations.
Open Scope list_scope.

(* ---- positions ---------------------------------------------------------------------------------------- *)
Lemma woven_split_tight : forall us1 ul us2 T, woven T ((us1 ++ [ul]) ++ us2) ->
  exists Ta T2, T = (Ta ++ ul) ++ T2 /\ woven (Ta ++ ul) (us1 ++ [ul]) /\ woven T2 us2.
Proof.
  induction us1 as [|u us1 IH]; intros ul us2 T H; simpl in H.
  - destruct H as (g & T' & E & Hw). exists g, T'. split; [rewrite E, <- app_assoc; reflexivity|]. split; auto.
    simpl. exists g, []. rewrite app_nil_r. auto.
  - destruct H as (g & T' & E & Hw). destruct (IH _ _ _ Hw) as (Ta & T2 & E' & H1 & H2).
    exists (g ++ u ++ Ta), T2. subst. split; [rewrite <- !app_assoc; reflexivity|]. split; auto.
    simpl. exists g, (Ta ++ ul). split; [rewrite <- !app_assoc; reflexivity|exact H1].
Qed.

Lemma rev_cons_snoc : forall {A} (u : list A) z r, rev u = z :: r -> u = rev r ++ [z].
Proof. intros A u z r H. rewrite <- (rev_involutive u), H. reflexivity. Qed.

Lemma after_unit_pos : forall Ta ul T2, NoDup (ids ((Ta ++ ul) ++ T2)) -> ul <> [] ->
  after_unit ((Ta ++ ul) ++ T2) ul = Some (length (Ta ++ ul)).
Proof.
  intros Ta ul T2 Hnd Hne. unfold after_unit. destruct (rev ul) as [|z r] eqn:Er.
  - exfalso. apply Hne. rewrite <- (rev_involutive ul), Er. reflexivity.
  - apply rev_cons_snoc in Er. subst ul.
    replace ((Ta ++ rev r ++ [z]) ++ T2) with ((Ta ++ rev r) ++ z :: T2) in * by (rewrite <- !app_assoc; reflexivity).
    rewrite (find_off_app _ _ _ Hnd). simpl. f_equal. rewrite !app_length. simpl. lia.
Qed.

Lemma splice_at : forall {A} (T1 T2 M : list A), splice (T1 ++ T2) (length T1) M = T1 ++ M ++ T2.
Proof. intros. unfold splice. rewrite firstn_app_len, skipn_app_len. reflexivity. Qed.

Lemma cut_at : forall {A} (T1 M T2 : list A), cut (T1 ++ M ++ T2) (length T1) (length (T1 ++ M)) = T1 ++ T2.
Proof.
  intros. unfold cut. rewrite firstn_app_len. f_equal.
  rewrite app_assoc. apply skipn_app_len.
Qed.

Lemma firstn_S_nth : forall {A} (l : list A) j y, nth_error l j = Some y -> firstn (S j) l = firstn j l ++ [y].
Proof.
  induction l as [|x l IH]; intros j y H; destruct j; simpl in H; try discriminate.
  - inversion H. reflexivity.
  - simpl. f_equal. apply IH. exact H.
Qed.

Lemma prev_last : forall ph items i, i <= length items ->
  exists us0, [ph] :: map node_toks (firstn i items) = us0 ++ [prev_unit ph items i].
Proof.
  intros ph items [|j] Hi.
  - exists []. reflexivity.
  - destruct (nth_error items j) as [y|] eqn:Ey; [|apply nth_error_None in Ey; lia].
    exists ([ph] :: map node_toks (firstn j items)). simpl prev_unit. rewrite Ey.
    rewrite (firstn_S_nth items j y Ey), map_app. reflexivity.
Qed.

Lemma hd_rev_app_l : forall {A} (p q : list A), q = [] -> hd_error (rev (p ++ q)) = hd_error (rev p).
Proof. intros. subst. rewrite app_nil_r. reflexivity. Qed.

(* ---- first/last token of a Repeated when an item is inserted or removed ---------------------------------- *)
Section RepEnds.
Variable cs : classes_t.

Lemma rep_border_first : forall m s t ph items,
  slot_border (border cs m SFirst) SFirst (SRep s t ph items) = Some (Some ph).
Proof. reflexivity. Qed.

(* the old last token lies in R1 (it is the placeholder or belongs to the last item of I1) when I2 = [] *)
Lemma rep_last_in : forall s m rs rt ph I1 R1 t,
  (forall y, In y I1 -> sub_ok cs s y) -> woven R1 ([ph] :: map node_toks I1) ->
  slot_border (border cs m SLast) SLast (SRep rs rt ph I1) = Some (Some t) -> In t R1.
Proof.
  intros s m rs rt ph I1 R1 t HI1 Hw H. cbn [slot_border] in H.
  destruct (rev I1) as [|z r] eqn:Er.
  - inversion H. subst. eapply woven_units_in; [exact Hw|left; reflexivity|left; reflexivity].
  - destruct (border cs m SLast z) as [tz|] eqn:Ez; inversion H. subst tz.
    assert (Hz : In z I1) by (apply in_rev; rewrite Er; left; reflexivity).
    eapply woven_units_in; [exact Hw|right; apply in_map; exact Hz|].
    eapply sub_ok_leaves; [apply HI1; exact Hz|]. eapply border_in_leaves; eauto.
Qed.

Lemma woven_nonempty : forall (Is : list node) R, Is <> [] -> (forall y, In y Is -> node_toks y <> []) ->
  woven R (map node_toks Is) -> R <> [].
Proof.
  intros [|y Is] R Hne Htoks Hw; [contradiction|]. simpl in Hw. destruct Hw as (g & T' & E & _). subst R.
  intro E0. apply app_eq_nil in E0. destruct E0 as [_ E0]. apply app_eq_nil in E0. destruct E0 as [E0 _].
  apply (Htoks y); [left; reflexivity|exact E0].
Qed.

(* common part: the items after the change point are not empty: the last token is theirs, unchanged *)
Lemma rep_ends_tail : forall rs rs' ph I1 IM IM' I2 R1 M M' R2,
  I2 <> [] -> (forall y, In y I2 -> node_toks y <> []) -> woven R2 (map node_toks I2) -> R1 <> [] ->
  ends_ok cs (SRep rs (R1 ++ M ++ R2) ph (I1 ++ IM ++ I2)) (R1 ++ M ++ R2) ->
  ends_ok cs (SRep rs' (R1 ++ M' ++ R2) ph (I1 ++ IM' ++ I2)) (R1 ++ M' ++ R2).
Proof.
  intros rs rs' ph I1 IM IM' I2 R1 M M' R2 HI2 Htoks Hw2 HR1 (m0 & H).
  assert (HR2 : R2 <> []) by (eapply woven_nonempty; eauto).
  exists m0. intros m sd Hm. specialize (H m sd Hm). destruct sd.
  - cbn [slot_border] in H |- *. rewrite H. f_equal. simpl. destruct R1; [contradiction|reflexivity].
  - cbn [slot_border] in H |- *. rewrite !app_assoc, !rev_app_distr in H |- *.
    destruct (rev I2) as [|z r] eqn:Er.
    + exfalso. apply HI2. rewrite <- (rev_involutive I2), Er. reflexivity.
    + cbn [app] in H |- *. rewrite H. f_equal. simpl.
      rewrite <- !app_assoc. rewrite !(app_assoc R1), !hd_rev_app by exact HR2. reflexivity.
Qed.
End RepEnds.

Lemma singleton_snoc : forall {A} (a b : A) l, [a] = l ++ [b] -> a = b.
Proof. intros A a b l H. change [a] with ([] ++ [a]) in H. apply app_inj_tail in H. apply H. Qed.

Section RepEnds2.
Variable cs : classes_t.

Lemma last_not_in_tail : forall R1 R2 t, NoDup (ids (R1 ++ R2)) -> In t R1 ->
  hd_error (rev (R1 ++ R2)) = Some t -> R2 = [].
Proof.
  intros R1 R2 t Hnd Hin H. destruct R2 as [|z zs]; [reflexivity|exfalso].
  rewrite hd_rev_app in H by discriminate.
  assert (Hin2 : In t (z :: zs)) by (apply (endtok_in SLast); exact H).
  exact (NoDup_ids_disjoint R1 (z :: zs) t t Hnd Hin Hin2 eq_refl).
Qed.

Lemma rep_ends_insert : forall s rs rs' ph I1 I2 R1 R2 seps y,
  (forall z, In z (I1 ++ I2) -> sub_ok cs s z) ->
  woven R1 ([ph] :: map node_toks I1) -> woven R2 (map node_toks I2) ->
  NoDup (ids (R1 ++ R2)) ->
  ends_ok cs (SReq y) (node_toks y) -> node_toks y <> [] ->
  ends_ok cs (SRep rs (R1 ++ [] ++ R2) ph (I1 ++ [] ++ I2)) (R1 ++ [] ++ R2) ->
  ends_ok cs (SRep rs' (R1 ++ (seps ++ node_toks y) ++ R2) ph (I1 ++ [y] ++ I2)) (R1 ++ (seps ++ node_toks y) ++ R2).
Proof.
  intros s rs rs' ph I1 I2 R1 R2 seps y Hitems Hw1 Hw2 Hnd Hy HneY Hold.
  assert (HR1 : R1 <> []).
  { intro E. subst R1. destruct Hw1 as (g & T' & E & _). destruct g; discriminate. }
  destruct I2 as [|z2 I2'].
  - destruct Hold as (m1 & H1). destruct Hy as (m2 & H2). simpl app in *. rewrite app_nil_r in *.
    assert (HR2 : R2 = []).
    { pose proof (H1 m1 SLast (le_n _)) as H. cbn [endtok] in H.
      destruct (hd_error (rev (R1 ++ R2))) as [t|] eqn:Et.
      - eapply last_not_in_tail; [exact Hnd| |exact Et].
        apply (rep_last_in cs s m1 rs (R1 ++ R2) ph I1 R1 t);
          [intros z Hz; apply Hitems; exact Hz|exact Hw1|exact H].
      - cbn [slot_border] in H. destruct (rev I1); [discriminate|]. destruct (border cs m1 SLast n); discriminate. }
    subst R2. exists (m1 + m2). intros m sd Hm. destruct sd.
    + cbn [slot_border endtok]. f_equal.
      pose proof (H1 m SFirst ltac:(lia)) as H. cbn [slot_border endtok] in H. inversion H as [Hph].
      rewrite !app_nil_r in *. rewrite Hph. destruct R1; [contradiction|reflexivity].
    + cbn [slot_border endtok]. rewrite rev_app_distr. simpl rev. cbn [app].
      pose proof (H2 m SLast ltac:(lia)) as H. cbn [slot_border endtok] in H.
      destruct (border cs m SLast y) as [ty|]; [|destruct (endtok_some SLast (node_toks y) HneY) as (? & E0); simpl in E0; rewrite E0 in H; discriminate].
      inversion H as [Hty]. f_equal. rewrite Hty. rewrite app_nil_r, !app_assoc, hd_rev_app by exact HneY. reflexivity.
  - apply (rep_ends_tail cs rs rs' ph I1 [] [y] (z2 :: I2') R1 [] (seps ++ node_toks y) R2); auto; try discriminate.
    intros z Hz. assert (Hok : sub_ok cs s z) by (apply Hitems; apply in_or_app; right; exact Hz).
    destruct Hok as (Hz1 & Hz2 & _). exact (proj2 (node_ends cs z (HWF_SWF _ _ Hz1) Hz2)).
Qed.

Lemma rep_ends_remove : forall s rs rs' ph I1 x I2 us0 Ta ul g R2,
  (forall z, In z (I1 ++ [x] ++ I2) -> sub_ok cs s z) ->
  [ph] :: map node_toks I1 = us0 ++ [ul] -> woven R2 (map node_toks I2) ->
  NoDup (ids ((Ta ++ ul) ++ (g ++ node_toks x) ++ R2)) ->
  ends_ok cs (SRep rs ((Ta ++ ul) ++ (g ++ node_toks x) ++ R2) ph (I1 ++ [x] ++ I2)) ((Ta ++ ul) ++ (g ++ node_toks x) ++ R2) ->
  ends_ok cs (SRep rs' ((Ta ++ ul) ++ [] ++ R2) ph (I1 ++ [] ++ I2)) ((Ta ++ ul) ++ [] ++ R2).
Proof.
  intros s rs rs' ph I1 x I2 us0 Ta ul g R2 Hitems Eus Hw2 Hnd Hold.
  assert (Hul : ul <> []).
  { destruct (rev I1) as [|z r] eqn:Er.
    - assert (I1 = []) by (rewrite <- (rev_involutive I1), Er; reflexivity). subst I1. simpl in Eus.
      apply singleton_snoc in Eus. subst ul. discriminate.
    - apply rev_cons_snoc in Er. rewrite Er, map_app in Eus. simpl in Eus.
      change ([ph] :: map node_toks (rev r) ++ [node_toks z]) with (([ph] :: map node_toks (rev r)) ++ [node_toks z]) in Eus.
      apply app_inj_tail in Eus. destruct Eus as [_ E]. subst ul.
      assert (Hok : sub_ok cs s z) by (apply Hitems; apply in_or_app; left; rewrite Er; apply in_or_app; right; left; reflexivity).
      destruct Hok as (Hz1 & Hz2 & _). exact (proj2 (node_ends cs z (HWF_SWF _ _ Hz1) Hz2)). }
  assert (HR1 : Ta ++ ul <> []) by (intro E; apply app_eq_nil in E; destruct E; auto).
  destruct I2 as [|z2 I2'].
  - assert (Hxok : sub_ok cs s x) by (apply Hitems; apply in_or_app; right; left; reflexivity).
    destruct Hold as (m1 & H1). simpl app in *. rewrite !app_nil_r in *.
    (* nothing follows the removed item *)
    assert (HR2 : R2 = []).
    { pose proof (H1 m1 SLast (le_n _)) as H. cbn [slot_border endtok] in H.
      rewrite rev_app_distr in H. simpl rev in H. cbn [app] in H.
      destruct (border cs m1 SLast x) as [t|] eqn:Et; [|discriminate]. inversion H as [Ht]. symmetry in Ht.
      rewrite !app_assoc in Ht, Hnd. eapply last_not_in_tail; [exact Hnd| |exact Ht].
      apply in_or_app. right. eapply sub_ok_leaves; [exact Hxok|]. eapply border_in_leaves; eauto. }
    subst R2. rewrite !app_nil_r in *.
    destruct (rev I1) as [|z r] eqn:Er.
    + assert (I1 = []) by (rewrite <- (rev_involutive I1), Er; reflexivity). subst I1. simpl in Eus.
      apply singleton_snoc in Eus. subst ul. exists m1. intros m sd Hm. destruct sd.
      * cbn [slot_border endtok]. f_equal. pose proof (H1 m SFirst Hm) as H. cbn [slot_border endtok] in H.
        inversion H as [Hph]. rewrite Hph. rewrite <- !app_assoc. destruct Ta; reflexivity.
      * cbn [slot_border endtok]. simpl rev. f_equal. rewrite hd_rev_app by discriminate. reflexivity.
    + pose proof (rev_cons_snoc _ _ _ Er) as EI1. rewrite EI1, map_app in Eus. simpl in Eus.
      change ([ph] :: map node_toks (rev r) ++ [node_toks z]) with (([ph] :: map node_toks (rev r)) ++ [node_toks z]) in Eus.
      apply app_inj_tail in Eus. destruct Eus as [_ E]. subst ul.
      assert (Hok : sub_ok cs s z) by (apply Hitems; apply in_or_app; left; rewrite EI1; apply in_or_app; right; left; reflexivity).
      destruct Hok as (Hz1 & Hz2 & _). destruct (node_ends cs z (HWF_SWF _ _ Hz1) Hz2) as [(m2 & H2) Hnez].
      exists (m1 + m2). intros m sd Hm. destruct sd.
      * cbn [slot_border endtok]. f_equal. pose proof (H1 m SFirst ltac:(lia)) as H. cbn [slot_border endtok] in H.
        inversion H as [Hph]. rewrite Hph. rewrite <- !app_assoc. destruct Ta; [|reflexivity].
        simpl. destruct (node_toks z); [contradiction|reflexivity].
      * cbn [slot_border endtok]. rewrite Er.
        pose proof (H2 m SLast ltac:(lia)) as H. cbn [slot_border endtok] in H.
        destruct (border cs m SLast z) as [tz|]; [|destruct (endtok_some SLast (node_toks z) Hnez) as (? & E0); simpl in E0; rewrite E0 in H; discriminate].
        inversion H as [Htz]. f_equal. rewrite Htz. rewrite hd_rev_app by exact Hnez. reflexivity.
  - apply (rep_ends_tail cs rs rs' ph I1 [x] [] (z2 :: I2') (Ta ++ ul) (g ++ node_toks x) [] R2); auto; try discriminate.
    intros z Hz. assert (Hok : sub_ok cs s z) by (apply Hitems; apply in_or_app; right; apply in_or_app; right; exact Hz).
    destruct Hok as (Hz1 & Hz2 & _). exact (proj2 (node_ends cs z (HWF_SWF _ _ Hz1) Hz2)).
Qed.
End RepEnds2.

(* ---- the edits at the node that holds the Repeated ----------------------------------------------------- *)
Section LocalOps.
Variable cs : classes_t.
Hypothesis Hok : classes_ok cs.

Record local_edit (old new : node) (pre Mold Mnew post N : list tk) : Prop := {
  le_hwf : HWF cs new;
  le_toks : node_toks old = pre ++ Mold ++ post /\ node_toks new = pre ++ Mnew ++ post;
  le_leaves : forall t, In t (leaves new) -> In t (leaves old) \/ In t N;
  le_shape : exists c s T T' k k' d, old = Tree c s T k d /\ new = Tree c s T' k' d
}.

Lemma sub_ok_toks_ne : forall s z, sub_ok cs s z -> node_toks z <> [] /\ ends_ok cs (SReq z) (node_toks z).
Proof. intros s z (H1 & H2 & _). destruct (node_ends cs z (HWF_SWF _ _ H1) H2). auto. Qed.

(* a Repeated whose items and tokens change in the middle, inside its parent node *)
Lemma rep_local_change : forall c s T kids d f rs rt ph I1 IM IM' I2 R1 M M' R2 N T',
  HWF cs (Tree c s T kids d) -> kid kids f = Some (SRep rs rt ph (I1 ++ IM ++ I2)) ->
  rt = R1 ++ M ++ R2 ->
  woven R1 ([ph] :: map node_toks I1) -> woven M (map node_toks IM) -> woven R2 (map node_toks I2) ->
  woven M' (map node_toks IM') ->
  NoDup (ids M') -> NoDup (ids (flat_map leaves IM')) ->
  (forall t, In t (flat_map leaves IM') -> In t M') ->
  (forall t, In t M' -> significant t = true -> In t (flat_map leaves IM')) ->
  (forall t, In t M' -> In t M \/ In t N) ->
  (forall t, In t (flat_map leaves IM') -> In t (flat_map leaves IM) \/ In t N) ->
  (forall t t', In t N -> In t' T -> k_id t <> k_id t') ->
  (forall y, In y IM' -> sub_ok cs s y) ->
  ends_ok cs (SRep rs (R1 ++ M' ++ R2) ph (I1 ++ IM' ++ I2)) (R1 ++ M' ++ R2) ->
  replace_infix rt (R1 ++ M' ++ R2) T = Some T' ->
  exists pre post,
    local_edit (Tree c s T kids d)
               (Tree c s T' (set_kid kids f (SRep rs (R1 ++ M' ++ R2) ph (I1 ++ IM' ++ I2))) d) pre M M' post N.
Proof.
  intros c s T kids d f rs rt ph I1 IM IM' I2 R1 M M' R2 N T' Hroot Ek Ert Hw1 HwM Hw2 HwM'
         H1 H2 H3 H4 H5 H6 Hfresh H8 Hends Eri.
  destruct (rep_basic cs c s T kids d f rs rt ph _ Hroot Ek) as (_ & _ & _ & Hendrt & Hnert & _).
  pose proof (rep_change cs c s T kids d f rs rt ph I1 IM IM' I2 R1 M M' R2 N Hroot Ek Ert Hw1 HwM Hw2 HwM'
                H1 H2 H3 H4 H5 H6 Hfresh H8 Hends) as Hsn.
  destruct (tree_finish cs Hok c s T kids d f _ _ rt _ N T' Hroot Ek eq_refl Hnert Hendrt Hsn Hfresh Eri)
    as (HA' & (P & Q & ET & ET') & HL').
  exists (P ++ R1), (R2 ++ Q). constructor.
  - exact HA'.
  - simpl node_toks. rewrite ET, ET', Ert, <- !app_assoc. auto.
  - exact HL'.
  - do 7 eexists. split; reflexivity.
Qed.

(* what the inserted item has to satisfy *)
Record item_ok (s : Z) (T seps : list tk) (y : node) : Prop := {
  io_sub : sub_ok cs s y;
  io_glue : glue_ok seps;
  io_nd : NoDup (ids (seps ++ node_toks y));
  io_fresh : forall t t', In t (seps ++ node_toks y) -> In t' T -> k_id t <> k_id t'
}.

Lemma new_middle : forall s T seps y M', item_ok s T seps y ->
  (forall t, In t M' <-> In t (seps ++ node_toks y)) -> NoDup (ids M') ->
  NoDup (ids (flat_map leaves [y]))
  /\ (forall t, In t (flat_map leaves [y]) -> In t M')
  /\ (forall t, In t M' -> significant t = true -> In t (flat_map leaves [y]))
  /\ (forall t, In t M' -> In t (@nil tk) \/ In t (seps ++ node_toks y))
  /\ (forall t, In t (flat_map leaves [y]) -> In t (flat_map leaves []) \/ In t (seps ++ node_toks y))
  /\ (forall z, In z [y] -> sub_ok cs s z).
Proof.
  intros s T seps y M' [Hy Hglue Hnd Hfresh] HM' HndM'.
  pose proof (HWF_SWF _ _ (proj1 Hy)) as [(Y1 & Y2 & Y3 & Y4 & Y5) Yw]. simpl. rewrite !app_nil_r.
  split; [exact Y3|]. split; [|split; [|split; [|split]]].
  - intros t Ht. apply HM'. apply in_or_app. right. auto.
  - intros t Ht Hs. apply HM' in Ht. apply in_app_or in Ht. destruct Ht as [Ht|Ht]; [rewrite (Hglue t Ht) in Hs; discriminate|auto].
  - intros t Ht. right. apply HM'. exact Ht.
  - intros t Ht. right. apply in_or_app. right. auto.
  - intros z [E|[]]. subst z. exact Hy.
Qed.

Lemma insert_A_ok : forall c s T kids d f rs rt ph items i seps y sl' new,
  HWF cs (Tree c s T kids d) -> kid kids f = Some (SRep rs rt ph items) -> item_ok s T seps y ->
  rep_insert_A rs rt ph items i seps y = Some sl' -> with_rep (Tree c s T kids d) f sl' = Some new ->
  exists pre post, local_edit (Tree c s T kids d) new pre [] (seps ++ node_toks y) post (seps ++ node_toks y).
Proof.
  intros c s T kids d f rs rt ph items i seps y sl' new Hroot Ek Hio H Hwith.
  unfold rep_insert_A in H. destruct (Nat.leb i (length items)) eqn:Hi; try discriminate. apply Nat.leb_le in Hi.
  destruct (after_unit rt (prev_unit ph items i)) as [pos|] eqn:Epos; try discriminate.
  inversion H. subst sl'. clear H. unfold with_rep in Hwith. rewrite Ek in Hwith.
  destruct (replace_infix rt (splice rt pos (seps ++ node_toks y)) T) as [T'|] eqn:Eri; try discriminate.
  inversion Hwith. subst new. clear Hwith.
  destruct (rep_basic cs c s T kids d f rs rt ph items Hroot Ek) as (Hrs & Hndrt & HndL & Hendrt & Hnert & Hwrt).
  set (I1 := firstn i items) in *. set (I2 := skipn i items) in *.
  assert (EI : items = I1 ++ [] ++ I2) by (unfold I1, I2; simpl; symmetry; apply firstn_skipn).
  destruct (prev_last ph items i Hi) as (us0 & Eus). fold I1 in Eus.
  assert (Hpu : prev_unit ph items i <> []).
  { intro E. unfold after_unit in Epos. rewrite E in Epos. discriminate. }
  set (pu := prev_unit ph items i) in *.
  rewrite EI, map_app in Hwrt. simpl app in Hwrt.
  change ([ph] :: map node_toks I1 ++ map node_toks I2) with (([ph] :: map node_toks I1) ++ map node_toks I2) in Hwrt.
  rewrite Eus in Hwrt. destruct (woven_split_tight _ _ _ _ Hwrt) as (Ta & R2 & Ert & Hw1 & Hw2).
  rewrite <- Eus in Hw1. set (R1 := Ta ++ pu) in *.
  assert (Epos' : pos = length R1).
  { rewrite Ert in Epos, Hndrt. unfold R1 in *. rewrite (after_unit_pos Ta pu R2 Hndrt Hpu) in Epos. inversion Epos. reflexivity. }
  assert (Ert' : splice rt pos (seps ++ node_toks y) = R1 ++ (seps ++ node_toks y) ++ R2).
  { rewrite Ert, Epos'. apply splice_at. }
  rewrite Ert' in *.
  assert (Hitems : forall z, In z (I1 ++ I2) -> sub_ok cs s z).
  { intros z Hz. eapply rep_item_ok; eauto. rewrite EI. exact Hz. }
  destruct (sub_ok_toks_ne s y (io_sub _ _ _ _ Hio)) as [HneY HendY].
  assert (Ert0 : rt = R1 ++ [] ++ R2) by (rewrite Ert; reflexivity).
  destruct (new_middle s T seps y (seps ++ node_toks y) Hio ltac:(intro t; reflexivity) (io_nd _ _ _ _ Hio))
    as (N1 & N2 & N3 & N4 & N5 & N6).
  rewrite EI in Ek.
  apply (rep_local_change c s T kids d f rs rt ph I1 [] [y] I2 R1 [] (seps ++ node_toks y) R2 (seps ++ node_toks y) T'
           Hroot Ek Ert0 Hw1 I Hw2); auto.
  - exists seps, []. rewrite app_nil_r. split; [reflexivity|exact I].
  - exact (io_nd _ _ _ _ Hio).
  - exact (io_fresh _ _ _ _ Hio).
  - apply (rep_ends_insert cs s rs rs ph I1 I2 R1 R2 seps y Hitems Hw1 Hw2); auto.
    + rewrite Ert in Hndrt. exact Hndrt.
    + rewrite <- Ert0, <- EI. exact Hendrt.
Qed.

Lemma NoDup_ids_comm : forall a b, NoDup (ids (a ++ b)) -> NoDup (ids (b ++ a)).
Proof.
  intros a b H. apply NoDup_ids_app_intro.
  - eapply NoDup_ids_app_r; eauto.
  - eapply NoDup_ids_app_l; eauto.
  - intros x y Hx Hy E. exact (NoDup_ids_disjoint a b y x H Hy Hx (eq_sym E)).
Qed.

Lemma find_off_mid : forall P x r, NoDup (ids (P ++ x :: r)) -> find_off x (P ++ x :: r) = Some (length P).
Proof. exact find_off_app. Qed.

Lemma insert_B_ok : forall c s T kids d f rs rt ph z rest seps y sl' new,
  HWF cs (Tree c s T kids d) -> kid kids f = Some (SRep rs rt ph (z :: rest)) -> item_ok s T seps y ->
  rep_insert_B rs rt ph z rest seps y = Some sl' -> with_rep (Tree c s T kids d) f sl' = Some new ->
  exists pre post, local_edit (Tree c s T kids d) new pre [] (node_toks y ++ seps) post (seps ++ node_toks y).
Proof.
  intros c s T kids d f rs rt ph z rest seps y sl' new Hroot Ek Hio H Hwith.
  unfold rep_insert_B in H. destruct (node_toks z) as [|tz Z'] eqn:EZ; try discriminate.
  destruct (find_off tz rt) as [pos|] eqn:Epos; try discriminate.
  inversion H. subst sl'. clear H. unfold with_rep in Hwith. rewrite Ek in Hwith.
  destruct (replace_infix rt (splice rt pos (node_toks y ++ seps)) T) as [T'|] eqn:Eri; try discriminate.
  inversion Hwith. subst new. clear Hwith.
  destruct (rep_basic cs c s T kids d f rs rt ph _ Hroot Ek) as (Hrs & Hndrt & HndL & Hendrt & Hnert & Hwrt).
  simpl map in Hwrt. change ([ph] :: node_toks z :: map node_toks rest) with (([] ++ [[ph]]) ++ node_toks z :: map node_toks rest) in Hwrt.
  destruct (woven_split_tight _ _ _ _ Hwrt) as (Ta & T2 & Ert & Hw1 & Hw2a).
  destruct Hw2a as (g0 & T3 & ET2 & Hw3). subst T2.
  set (R1 := (Ta ++ [ph]) ++ g0) in *. set (R2 := node_toks z ++ T3) in *.
  assert (Ert1 : rt = R1 ++ [] ++ R2) by (unfold R1, R2; rewrite Ert, <- !app_assoc; reflexivity).
  assert (Epos' : pos = length R1).
  { rewrite Ert1 in Epos, Hndrt. unfold R2 in Epos, Hndrt. rewrite EZ in Epos, Hndrt. simpl app in Epos, Hndrt.
    rewrite (find_off_mid R1 tz (Z' ++ T3) Hndrt) in Epos. inversion Epos. reflexivity. }
  assert (Ert' : splice rt pos (node_toks y ++ seps) = R1 ++ (node_toks y ++ seps) ++ R2).
  { rewrite Ert1, Epos'. simpl. apply splice_at. }
  rewrite Ert' in *.
  assert (Hw1' : woven R1 ([ph] :: map node_toks [])) by (apply woven_glue; exact Hw1).
  assert (Hw2 : woven R2 (map node_toks (z :: rest))) by (simpl; exists [], T3; auto).
  assert (HndM : NoDup (ids (node_toks y ++ seps))).
  { apply NoDup_ids_comm. exact (io_nd _ _ _ _ Hio). }
  destruct (new_middle s T seps y (node_toks y ++ seps) Hio) as (N1 & N2 & N3 & N4 & N5 & N6); auto.
  { intro t. rewrite !in_app_iff. tauto. }
  apply (rep_local_change c s T kids d f rs rt ph [] [] [y] (z :: rest) R1 [] (node_toks y ++ seps) R2 (seps ++ node_toks y) T'
           Hroot Ek Ert1 Hw1' I Hw2); auto.
  - exists [], seps. split; [reflexivity|exact I].
  - exact (io_fresh _ _ _ _ Hio).
  - apply (rep_ends_tail cs rs rs ph [] [] [y] (z :: rest) R1 [] (node_toks y ++ seps) R2); auto; try discriminate.
    + intros z0 Hz0. assert (Hzok : sub_ok cs s z0) by (eapply rep_item_ok; eauto).
      exact (proj1 (sub_ok_toks_ne s z0 Hzok)).
    + unfold R1. intro E. apply app_eq_nil in E. destruct E as [E _]. apply app_eq_nil in E. destruct E; discriminate.
    + rewrite <- Ert1. exact Hendrt.
Qed.

Lemma first_off_pos : forall P u R, NoDup (ids (P ++ u ++ R)) -> u <> [] ->
  first_off (P ++ u ++ R) u = Some (length P).
Proof.
  intros P u R Hnd Hne. destruct u as [|z u']; [contradiction|]. unfold first_off.
  change (P ++ (z :: u') ++ R) with (P ++ z :: (u' ++ R)) in *. apply find_off_app. exact Hnd.
Qed.

Lemma remove_A_ok : forall keep c s T kids d f rs rt ph items i x sl' new,
  HWF cs (Tree c s T kids d) -> kid kids f = Some (SRep rs rt ph items) ->
  rep_remove_A keep rs rt ph items i = Some (x, sl') -> with_rep (Tree c s T kids d) f sl' = Some new ->
  sub_ok cs s x /\ exists pre g post, local_edit (Tree c s T kids d) new pre (g ++ node_toks x) [] post [].
Proof.
  intros keep c s T kids d f rs rt ph items i x sl' new Hroot Ek H Hwith.
  unfold rep_remove_A in H. destruct (nth_error items i) as [x0|] eqn:Ei; try discriminate.
  destruct (after_unit rt (prev_unit ph items i)) as [a|] eqn:Ea; try discriminate.
  destruct (after_unit rt (node_toks x0)) as [b|] eqn:Eb; try discriminate.
  destruct (first_off rt (node_toks x0)) as [xa|] eqn:Exa; try discriminate.
  set (a' := rep_remove_from keep rt items i a xa) in H.
  inversion H. subst x0 sl'. clear H. unfold with_rep in Hwith. rewrite Ek in Hwith.
  destruct (replace_infix rt (cut rt a' b) T) as [T'|] eqn:Eri; try discriminate.
  inversion Hwith. subst new. clear Hwith.
  destruct (rep_basic cs c s T kids d f rs rt ph items Hroot Ek) as (Hrs & Hndrt & HndL & Hendrt & Hnert & Hwrt).
  destruct (nth_split_set items i x Ei) as (I1 & I2 & EI & Hlen & _).
  assert (EI0 : items = I1 ++ [x] ++ I2) by (rewrite EI; reflexivity).
  assert (E1 : firstn i items = I1) by (rewrite EI, <- Hlen; apply firstn_app_len).
  assert (E2 : skipn (S i) items = I2).
  { rewrite EI. change (I1 ++ x :: I2) with (I1 ++ [x] ++ I2). rewrite app_assoc.
    replace (S i) with (length (I1 ++ [x])) by (rewrite app_length; simpl; lia). apply skipn_app_len. }
  change (match items with [] => [] | _ :: l => skipn i l end) with (skipn (S i) items) in *.
  rewrite ?E1, ?E2 in *.
  assert (Hi : i <= length items) by (rewrite EI, app_length; lia).
  destruct (prev_last ph items i Hi) as (us0 & Eus). rewrite E1 in Eus.
  assert (Hpu : prev_unit ph items i <> []).
  { intro E. unfold after_unit in Ea. rewrite E in Ea. discriminate. }
  set (pu := prev_unit ph items i) in *.
  rewrite EI0, !map_app in Hwrt. simpl map in Hwrt.
  change ([ph] :: map node_toks I1 ++ [node_toks x] ++ map node_toks I2)
    with (([ph] :: map node_toks I1) ++ (node_toks x :: map node_toks I2)) in Hwrt.
  rewrite Eus in Hwrt. destruct (woven_split_tight _ _ _ _ Hwrt) as (Ta & T2 & Ert & Hw1 & Hw2a).
  destruct Hw2a as (g & R2 & ET2 & Hw2). subst T2.
  assert (Hitems : forall z, In z (I1 ++ [x] ++ I2) -> sub_ok cs s z).
  { intros z Hz. eapply rep_item_ok; eauto. rewrite EI0. exact Hz. }
  assert (Hxok : sub_ok cs s x) by (apply Hitems; apply in_or_app; right; left; reflexivity).
  destruct (sub_ok_toks_ne s x Hxok) as [HneX _].
  set (R1 := Ta ++ pu) in *.
  assert (Ert1 : rt = R1 ++ (g ++ node_toks x) ++ R2) by (rewrite Ert, <- !app_assoc; reflexivity).
  assert (Ea' : a = length R1).
  { rewrite Ert in Ea, Hndrt. unfold R1 in *. rewrite (after_unit_pos Ta pu _ Hndrt Hpu) in Ea. inversion Ea. reflexivity. }
  assert (Eb' : b = length (R1 ++ g ++ node_toks x)).
  { assert (Ert2 : rt = ((R1 ++ g) ++ node_toks x) ++ R2) by (rewrite Ert1, <- !app_assoc; reflexivity).
    rewrite Ert2 in Eb, Hndrt. rewrite (after_unit_pos (R1 ++ g) (node_toks x) R2 Hndrt HneX) in Eb.
    inversion Eb. rewrite <- !app_assoc. reflexivity. }
  split; [exact Hxok|].
  rewrite EI0 in Ek. rewrite <- Eus in Hw1.
  unfold rep_remove_from in a'.
  destruct (Nat.ltb (S i) (length items) && Nat.ltb a xa && keep && forallb blank_tk (slice rt a xa)) eqn:Ekeep; subst a'.
  - (* the blanks in front of the item stay: they go with the part before the cut *)
    assert (Ert3 : rt = (R1 ++ g) ++ node_toks x ++ R2) by (rewrite Ert1, <- !app_assoc; reflexivity).
    assert (Exa' : xa = length (R1 ++ g)).
    { rewrite Ert3 in Exa, Hndrt. rewrite (first_off_pos (R1 ++ g) (node_toks x) R2 Hndrt HneX) in Exa.
      inversion Exa. reflexivity. }
    assert (Eb2 : b = length ((R1 ++ g) ++ node_toks x)) by (rewrite Eb', <- !app_assoc; reflexivity).
    assert (Ecut : cut rt xa b = (R1 ++ g) ++ [] ++ R2).
    { rewrite Ert3, Exa', Eb2. simpl. apply cut_at. }
    rewrite Ecut in *.
    assert (HI2 : I2 <> []).
    { apply andb_prop in Ekeep. destruct Ekeep as [Ekeep _]. apply andb_prop in Ekeep. destruct Ekeep as [Ekeep _].
      apply andb_prop in Ekeep. destruct Ekeep as [Ekeep _]. apply Nat.ltb_lt in Ekeep.
      intro E. rewrite EI, E, app_length in Ekeep. simpl in Ekeep. lia. }
    destruct (rep_local_change c s T kids d f rs rt ph I1 [x] [] I2 (R1 ++ g) (node_toks x) [] R2 [] T'
             Hroot Ek Ert3 (woven_glue _ _ g Hw1)) as (pre & post & Hle); auto.
    + exists [], []. rewrite app_nil_r. split; [reflexivity|exact I].
    + exact I.
    + constructor.
    + constructor.
    + intros z [].
    + apply (rep_ends_tail cs rs rs ph I1 [x] [] I2 (R1 ++ g) (node_toks x) [] R2); auto.
      * intros z0 Hz0. assert (Hzok : sub_ok cs s z0) by (apply Hitems; apply in_or_app; right; right; exact Hz0).
        exact (proj1 (sub_ok_toks_ne s z0 Hzok)).
      * unfold R1. intro E. apply app_eq_nil in E. destruct E as [E _]. apply app_eq_nil in E. destruct E as [_ E]. exact (Hpu E).
      * rewrite <- Ert3, <- EI0. exact Hendrt.
    + exists pre, [], post. exact Hle.
  - assert (Ecut : cut rt a b = R1 ++ [] ++ R2).
    { rewrite Ert1, Ea', Eb'. simpl. apply cut_at. }
    rewrite Ecut in *.
    destruct (rep_local_change c s T kids d f rs rt ph I1 [x] [] I2 R1 (g ++ node_toks x) [] R2 [] T'
             Hroot Ek Ert1 Hw1) as (pre & post & Hle); auto.
    + exists g, []. rewrite app_nil_r. split; [reflexivity|exact I].
    + exact I.
    + constructor.
    + constructor.
    + intros z [].
    + apply (rep_ends_remove cs s rs rs ph I1 x I2 us0 Ta pu g R2 Hitems Eus Hw2).
      * unfold R1 in Ert1. rewrite <- Ert1. exact Hndrt.
      * unfold R1 in Ert1. rewrite <- Ert1, <- EI0. exact Hendrt.
    + exists pre, g, post. exact Hle.
Qed.

Lemma remove_B_ok : forall c s T kids d f rs rt ph x z rest sl' new,
  HWF cs (Tree c s T kids d) -> kid kids f = Some (SRep rs rt ph (x :: z :: rest)) ->
  rep_remove_B rs rt ph x z rest = Some (x, sl') -> with_rep (Tree c s T kids d) f sl' = Some new ->
  sub_ok cs s x /\ exists pre g post, local_edit (Tree c s T kids d) new pre (node_toks x ++ g) [] post [].
Proof.
  intros c s T kids d f rs rt ph x z rest sl' new Hroot Ek H Hwith.
  unfold rep_remove_B in H. destruct (node_toks x) as [|tx X'] eqn:EX; try discriminate.
  destruct (node_toks z) as [|tz Z'] eqn:EZ; try discriminate.
  destruct (find_off tx rt) as [a|] eqn:Ea; try discriminate.
  destruct (find_off tz rt) as [b|] eqn:Eb; try discriminate.
  inversion H. subst sl'. clear H. unfold with_rep in Hwith. rewrite Ek in Hwith.
  destruct (replace_infix rt (cut rt a b) T) as [T'|] eqn:Eri; try discriminate.
  inversion Hwith. subst new. clear Hwith. rewrite <- ?EX.
  destruct (rep_basic cs c s T kids d f rs rt ph _ Hroot Ek) as (Hrs & Hndrt & HndL & Hendrt & Hnert & Hwrt).
  simpl map in Hwrt.
  change ([ph] :: node_toks x :: node_toks z :: map node_toks rest)
    with (([] ++ [[ph]]) ++ node_toks x :: node_toks z :: map node_toks rest) in Hwrt.
  destruct (woven_split_tight _ _ _ _ Hwrt) as (Ta & T2 & Ert & Hw1 & Hw2a).
  destruct Hw2a as (g0 & T3 & ET2 & Hw3). subst T2. destruct Hw3 as (g1 & T4 & ET3 & Hw4). subst T3.
  set (R1 := (Ta ++ [ph]) ++ g0) in *. set (R2 := node_toks z ++ T4) in *.
  assert (Ert1 : rt = R1 ++ (node_toks x ++ g1) ++ R2) by (unfold R1, R2; rewrite Ert, <- !app_assoc; reflexivity).
  assert (Hxok : sub_ok cs s x) by (eapply rep_item_ok; eauto; left; reflexivity).
  assert (Ea' : a = length R1).
  { rewrite Ert1 in Ea, Hndrt. rewrite EX in Ea, Hndrt. simpl app in Ea, Hndrt.
    rewrite (find_off_mid R1 tx _ Hndrt) in Ea. inversion Ea. reflexivity. }
  assert (Eb' : b = length (R1 ++ node_toks x ++ g1)).
  { assert (Ert2 : rt = (R1 ++ node_toks x ++ g1) ++ R2) by (rewrite Ert1, <- !app_assoc; reflexivity).
    rewrite Ert2 in Eb, Hndrt. unfold R2 in Eb, Hndrt. rewrite EZ in Eb, Hndrt. simpl app in Eb, Hndrt.
    rewrite (find_off_mid _ tz _ Hndrt) in Eb. inversion Eb. reflexivity. }
  assert (Ecut : cut rt a b = R1 ++ [] ++ R2).
  { rewrite Ert1, Ea', Eb'. simpl. rewrite <- ?EX. apply (cut_at R1 (node_toks x ++ g1) R2). }
  rewrite Ecut in *. split; [exact Hxok|].
  assert (Hw1' : woven R1 ([ph] :: map node_toks [])) by (apply woven_glue; exact Hw1).
  assert (Hw2 : woven R2 (map node_toks (z :: rest))) by (simpl; exists [], T4; auto).
  destruct (rep_local_change c s T kids d f rs rt ph [] [x] [] (z :: rest) R1 (node_toks x ++ g1) [] R2 [] T'
           Hroot Ek Ert1 Hw1') as (pre & post & Hle); auto.
  - exists [], g1. split; [reflexivity|exact I].
  - exact I.
  - constructor.
  - constructor.
  - intros z0 [].
  - apply (rep_ends_tail cs rs rs ph [] [x] [] (z :: rest) R1 (node_toks x ++ g1) [] R2); auto; try discriminate.
    + intros z0 Hz0. assert (Hzok : sub_ok cs s z0) by (eapply rep_item_ok; eauto; right; exact Hz0).
      exact (proj1 (sub_ok_toks_ne s z0 Hzok)).
    + unfold R1. intro E. apply app_eq_nil in E. destruct E as [E _]. apply app_eq_nil in E. destruct E; discriminate.
    + rewrite <- Ert1. exact Hendrt.
  - exists pre, g1, post. exact Hle.
Qed.

Lemma insert_at_ok : forall c s T kids d f i seps y new,
  HWF cs (Tree c s T kids d) -> item_ok s T seps y ->
  insert_item_at (Tree c s T kids d) f i seps y = Some new ->
  exists pre post Mnew, (Mnew = seps ++ node_toks y \/ Mnew = node_toks y ++ seps)
    /\ local_edit (Tree c s T kids d) new pre [] Mnew post (seps ++ node_toks y).
Proof.
  intros c s T kids d f i seps y new Hroot Hio H. unfold insert_item_at, node_rep in H.
  destruct (kid kids f) as [[?|?|rs rt ph items|?]|] eqn:Ek; try discriminate.
  destruct (rep_insert rs rt ph items i seps y) as [sl'|] eqn:Eins; try discriminate.
  unfold rep_insert in Eins. destruct i as [|i']; [destruct items as [|z rest]|].
  - destruct (insert_A_ok _ _ _ _ _ _ _ _ _ _ _ _ _ _ _ Hroot Ek Hio Eins H) as (pre & post & Hle). exists pre, post, (seps ++ node_toks y). auto.
  - destruct (insert_B_ok _ _ _ _ _ _ _ _ _ _ _ _ _ _ _ Hroot Ek Hio Eins H) as (pre & post & Hle). exists pre, post, (node_toks y ++ seps). auto.
  - destruct (insert_A_ok _ _ _ _ _ _ _ _ _ _ _ _ _ _ _ Hroot Ek Hio Eins H) as (pre & post & Hle). exists pre, post, (seps ++ node_toks y). auto.
Qed.

Lemma remove_at_ok : forall keep c s T kids d f i x new,
  HWF cs (Tree c s T kids d) ->
  remove_item_at keep (Tree c s T kids d) f i = Some (x, new) ->
  sub_ok cs s x /\ exists pre g post Mold, (Mold = g ++ node_toks x \/ Mold = node_toks x ++ g)
    /\ local_edit (Tree c s T kids d) new pre Mold [] post [].
Proof.
  intros keep c s T kids d f i x new Hroot H. unfold remove_item_at, node_rep in H.
  destruct (kid kids f) as [[?|?|rs rt ph items|?]|] eqn:Ek; try discriminate.
  destruct (rep_remove keep rs rt ph items i) as [[x0 sl']|] eqn:Erem; try discriminate.
  destruct (with_rep (Tree c s T kids d) f sl') as [n'|] eqn:Ew; try discriminate. inversion H. subst x0 n'. clear H.
  unfold rep_remove in Erem.
  assert (HA : rep_remove_A keep rs rt ph items i = Some (x, sl') ->
               sub_ok cs s x /\ exists pre g post Mold, (Mold = g ++ node_toks x \/ Mold = node_toks x ++ g)
                 /\ local_edit (Tree c s T kids d) new pre Mold [] post []).
  { intro E. destruct (remove_A_ok _ _ _ _ _ _ _ _ _ _ _ _ _ _ _ Hroot Ek E Ew) as (Hx & pre & g & post & Hle).
    split; [exact Hx|]. exists pre, g, post, (g ++ node_toks x). auto. }
  destruct i as [|i']; [destruct items as [|x1 [|z rest]]|]; auto.
  assert (x1 = x).
  { unfold rep_remove_B in Erem. destruct (node_toks x1), (node_toks z); try discriminate.
    destruct (find_off t rt), (find_off t0 rt); try discriminate. inversion Erem. reflexivity. }
  subst x1. destruct (remove_B_ok _ _ _ _ _ _ _ _ _ _ _ _ _ _ Hroot Ek Erem Ew) as (Hx & pre & g & post & Hle).
  split; [exact Hx|]. exists pre, g, post, (node_toks x ++ g). auto.
Qed.
End LocalOps.

(* ---- anywhere in the tree -------------------------------------------------------------------------------- *)
Section TreeOps.
Variable cs : classes_t.
Hypothesis Hok : classes_ok cs.

Lemma kid_sub_ok : forall c s T kids d f sl x,
  HWF cs (Tree c s T kids d) -> kid kids f = Some sl -> slot_node sl = Some x -> sub_ok cs s x.
Proof.
  intros c s T kids d f sl x Hroot Ek Ex.
  destruct (HWF_kid cs _ _ _ _ _ _ _ _ Hroot (kid_In _ _ _ Ek) Ex) as [Hx Hexx].
  destruct (slot_node_units sl x Ex) as (_ & _ & Esub & _).
  split; [exact Hx|]. split; [exact Hexx|]. intros cx sx Tx kx dx E. subst x.
  pose proof (HWF_SWF _ _ Hroot) as [(_ & W2 & _) _]. simpl root_sid in W2.
  destruct (W2 (UNode (Tree cx sx Tx kx dx))) as (Hs & _).
  { rewrite subunits_tree. right. apply In_kids_flat. exists f, sl. split; [apply kid_In; exact Ek|].
    rewrite Esub, subunits_tree. left. reflexivity. }
  simpl in Hs. inversion Hs. reflexivity.
Qed.

(* one step down: the child is sub_ok and its tokens are among the parent's *)
Lemma step_down : forall c s T kids d st r old,
  HWF cs (Tree c s T kids d) -> select (Tree c s T kids d) (st :: r) = Some old ->
  exists x, select x r = Some old /\ sub_ok cs s x /\ (forall t, In t (node_toks x) -> In t T).
Proof.
  intros c s T kids d st r old Hroot Hsel. destruct st as [f|f i]; cbn [select] in Hsel.
  - destruct (kid kids f) as [sl|] eqn:Ek; try discriminate.
    destruct (slot_node sl) as [x|] eqn:Ex; try discriminate.
    exists x. split; [exact Hsel|]. split; [eapply kid_sub_ok; eauto|].
    destruct (slot_node_units sl x Ex) as (Eu & _).
    destruct (tree_decomp cs c s T kids d f sl (node_toks x) Hroot Ek Eu) as (_ & _ & P & Q & _ & _ & ET & _).
    intros t Ht. rewrite ET. apply in_or_app. right. apply in_or_app. left. exact Ht.
  - destruct (kid kids f) as [[?|?|rs rt ph items|?]|] eqn:Ek; try discriminate.
    destruct (nth_error items i) as [x|] eqn:Ei; try discriminate.
    exists x. split; [exact Hsel|]. apply nth_error_In in Ei. split; [eapply rep_item_ok; eauto|].
    destruct (rep_basic cs c s T kids d f rs rt ph items Hroot Ek) as (_ & _ & _ & _ & _ & Hw).
    destruct (tree_decomp cs c s T kids d f _ rt Hroot Ek eq_refl) as (_ & _ & P & Q & _ & _ & ET & _).
    intros t Ht. rewrite ET. apply in_or_app. right. apply in_or_app. left.
    eapply woven_units_in; [exact Hw|right; apply in_map; exact Ei|exact Ht].
Qed.

Lemma select_sub_ok : forall p root old, HWF cs root -> select root p = Some old -> p <> [] ->
  sub_ok cs (root_sid root) old /\ (forall t, In t (node_toks old) -> In t (node_toks root)).
Proof.
  induction p as [|st r IH]; intros root old Hroot Hsel Hp; [contradiction|].
  destruct root as [t0|c s T kids d]; [destruct st; discriminate|].
  destruct (step_down c s T kids d st r old Hroot Hsel) as (x & Hselx & Hxok & HxT).
  destruct r as [|st' r'].
  - simpl in Hselx. inversion Hselx. subst. split; auto.
  - destruct x as [tx|cx sx Tx kx dx]; [destruct st'; discriminate|].
    assert (sx = s) by (eapply (proj2 (proj2 Hxok)); reflexivity). subst sx.
    destruct (IH _ old (proj1 Hxok) Hselx ltac:(discriminate)) as [H1 H2]. simpl root_sid in *.
    split; [exact H1|]. intros t Ht. apply HxT. apply H2. exact Ht.
Qed.

(* lift a local edit of the node selected by p to the whole tree *)
Lemma lift_local : forall p root old new root' pre Mold Mnew post N,
  HWF cs root -> select root p = Some old -> plug root p new = Some root' ->
  local_edit cs old new pre Mold Mnew post N ->
  (forall t, In t Mnew -> In t Mold \/ In t N) ->
  (forall t t', In t N -> In t' (node_toks root) -> k_id t <> k_id t') ->
  HWF cs root' /\ WF cs root'
  /\ (exists pre' post', node_toks root = pre' ++ Mold ++ post' /\ node_toks root' = pre' ++ Mnew ++ post')
  /\ (forall t, In t (leaves root') -> In t (leaves root) \/ In t N).
Proof.
  intros p root old new root' pre Mold Mnew post N Hroot Hsel Hplug [Lh (Lt1 & Lt2) Ll Lshape] HM Hfresh.
  destruct Lshape as (c & s & T & T' & k & k' & d & Eold & Enew). subst old new. simpl node_toks in Lt1, Lt2.
  assert (Hexn : p <> [] -> exempt (UNode (Tree c s T' k' d)) = false).
  { intro Hp. exact (proj1 (proj2 (proj1 (select_sub_ok p root _ Hroot Hsel Hp)))). }
  assert (Hsidr : p <> [] -> root_sid root = s).
  { intro Hp. destruct (select_sub_ok p root _ Hroot Hsel Hp) as [(_ & _ & Hs) _]. symmetry. eapply Hs. reflexivity. }
  destruct (plug_all cs Hok p root (Tree c s T' k' d) root' (Tree c s T k d) s N Hroot Hsel Hplug Lh Hexn) as [A (pr & po & B1 & B2) _ D _].
  - intros c0 s0 T0 k0 d0 E. inversion E. reflexivity.
  - exact Hsidr.
  - simpl node_toks. rewrite Lt1, Lt2. intros t Ht. apply in_app_or in Ht. destruct Ht as [Ht|Ht]; [left; apply in_or_app; left; exact Ht|].
    apply in_app_or in Ht. destruct Ht as [Ht|Ht].
    + destruct (HM t Ht) as [H0|H0]; [left; apply in_or_app; right; apply in_or_app; left; exact H0|right; exact H0].
    + left. apply in_or_app. right. apply in_or_app. right. exact Ht.
  - exact Ll.
  - exact Hfresh.
  - split; [exact A|]. split; [exact (HWF_WF cs root' A)|]. split; [|exact D].
    simpl node_toks in B1, B2. exists (pr ++ pre), (post ++ po). rewrite B1, B2, Lt1, Lt2, <- !app_assoc. auto.
Qed.

Theorem insert_item_ok : forall root p f i seps y root',
  HWF cs root -> insert_item root p f i seps y = Some root' ->
  sub_ok cs (root_sid root) y -> glue_ok seps -> NoDup (ids (seps ++ node_toks y)) ->
  (forall t t', In t (seps ++ node_toks y) -> In t' (node_toks root) -> k_id t <> k_id t') ->
  HWF cs root' /\ WF cs root'
  /\ (exists pre post Mnew, (Mnew = seps ++ node_toks y \/ Mnew = node_toks y ++ seps)
        /\ node_toks root = pre ++ [] ++ post /\ node_toks root' = pre ++ Mnew ++ post)
  /\ (forall t, In t (leaves root') -> In t (leaves root) \/ In t (seps ++ node_toks y)).
Proof.
  intros root p f i seps y root' Hroot H Hy Hglue Hnd Hfresh. unfold insert_item in H.
  destruct (select root p) as [old|] eqn:Hsel; try discriminate.
  destruct (insert_item_at old f i seps y) as [new|] eqn:Hins; try discriminate.
  destruct old as [t0|c s T k d]; [discriminate|].
  assert (Hold : HWF cs (Tree c s T k d) /\ s = root_sid root /\ (forall t, In t T -> In t (node_toks root))).
  { destruct p as [|st r].
    - simpl in Hsel. inversion Hsel. subst root. auto.
    - destruct (select_sub_ok _ root _ Hroot Hsel ltac:(discriminate)) as [(H1 & _ & H3) H4].
      split; [exact H1|]. split; [eapply H3; reflexivity|exact H4]. }
  destruct Hold as (Hold & Es & HT). rewrite <- Es in Hy.
  assert (Hio : item_ok cs s T seps y) by (constructor; auto).
  destruct (insert_at_ok cs Hok c s T k d f i seps y new Hold Hio Hins) as (pre & post & Mnew & HM & Hle).
  destruct (lift_local p root _ new root' pre [] Mnew post (seps ++ node_toks y) Hroot Hsel H Hle) as (A & B & (pr & po & C1 & C2) & D).
  - intros t Ht. right. destruct HM as [E|E]; subst Mnew; auto. apply in_app_or in Ht. apply in_or_app. tauto.
  - exact Hfresh.
  - split; [exact A|]. split; [exact B|]. split; [|exact D]. exists pr, po, Mnew. auto.
Qed.

Theorem remove_item_ok : forall root p f i x root',
  HWF cs root -> remove_item root p f i = Some (x, root') ->
  HWF cs root' /\ WF cs root' /\ HWF cs x /\ exempt (UNode x) = false
  /\ (exists pre g post Mold, (Mold = g ++ node_toks x \/ Mold = node_toks x ++ g)
        /\ node_toks root = pre ++ Mold ++ post /\ node_toks root' = pre ++ [] ++ post)
  /\ (forall t, In t (leaves root') -> In t (leaves root)).
Proof.
  intros root p f i x root' Hroot H. unfold remove_item in H.
  destruct (select root p) as [old|] eqn:Hsel; try discriminate.
  destruct (remove_item_at (rep_touches root old f i) old f i) as [[x0 new]|] eqn:Hrem; try discriminate.
  destruct (plug root p new) as [r'|] eqn:Hplug; try discriminate. inversion H. subst x0 r'. clear H.
  destruct old as [t0|c s T k d]; [discriminate|].
  assert (Hold : HWF cs (Tree c s T k d)).
  { destruct p as [|st r].
    - simpl in Hsel. inversion Hsel. subst root. auto.
    - exact (proj1 (proj1 (select_sub_ok _ root _ Hroot Hsel ltac:(discriminate)))). }
  destruct (remove_at_ok cs Hok _ c s T k d f i x new Hold Hrem) as (Hx & pre & g & post & Mold & HM & Hle).
  destruct (lift_local p root _ new root' pre Mold [] post [] Hroot Hsel Hplug Hle) as (A & B & (pr & po & C1 & C2) & D).
  - intros t [].
  - intros t t' [].
  - split; [exact A|]. split; [exact B|]. split; [exact (proj1 Hx)|]. split; [exact (proj1 (proj2 Hx))|]. split.
    + exists pr, g, po, Mold. auto.
    + intros t Ht. destruct (D t Ht) as [H0|[]]. exact H0.
Qed.
End TreeOps.
