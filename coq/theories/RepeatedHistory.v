(* Operation histories on a repeated field: the layout invariant holds after every operation, every
   successful step is framed, every refused step leaves the state unchanged. *)
From AB Require Import Prelude PySeq RepeatedLib Repeated Fields RepeatedProofs RepeatedLayout RepeatedInsert RepeatedCells RepeatedSep RepeatedOps RepeatedSlices.
From Coq Require Import ZifyBool Permutation.

Inductive rop :=
| RInsert (i : Z) (v : donor) (fr : Z) | RAppend (v : donor) (fr : Z) | RExtend (vs : list donor) (fr : Z)
| RSetInt (i : Z) (v : donor) (fr : Z) | RSetSlice (sl : slc) (vs : list donor) (fr : Z)
| RDel (ix : pyidx) (fr : Z) | RPop (i : Z) | RClear.

Definition step1 (sl : slc) : Prop := sl_step sl = None \/ sl_step sl = Some 1.

(* the values are new to the document (non-empty, fresh ids); says nothing about being free *)
Definition args_fresh (fr : Z) (d : doc) (vs : list donor) : Prop :=
  Forall (fun v => d_store v <> []) vs /\
  (forall x, In x (ids d) -> x < fr) /\ (forall x, In x (dids vs) -> x < fr) /\
  NoDup (ids d ++ dids vs).

Lemma donors_ok_of_fresh : forall fr d vs, args_fresh fr d vs -> forallb detachable vs = true -> donors_ok fr d vs.
Proof.
  intros fr d vs (H1 & H2 & H3 & H4) Hd. repeat split; try assumption.
  clear H3 H4. induction vs as [|v r IH]; [constructor|]. cbn in Hd. apply andb_true_iff in Hd. destruct Hd as [Hv Hr].
  constructor; [split; [exact Hv|exact (Forall_inv H1)]|]. apply IH; [exact (Forall_inv_tail H1)|exact Hr].
Qed.

Lemma fresh_of_donors_ok : forall fr d vs, donors_ok fr d vs -> args_fresh fr d vs.
Proof.
  intros fr d vs (H1 & H2 & H3 & H4). repeat split; try assumption.
  eapply Forall_impl; [|exact H1]. intros v [_ H]. exact H.
Qed.

Lemma check_detachable_nodup : forall vs seen, check_detachable seen vs = Ok tt ->
  NoDup (map d_node vs) /\ (forall x, In x (map d_node vs) -> ~ In x seen).
Proof.
  induction vs as [|v r IH]; intros seen H; [split; [constructor|intros x []]|].
  cbn [check_detachable] in H. destruct (zmem (d_node v) seen) eqn:Em; [discriminate|]. cbn [orb] in H.
  destruct (negb (detachable v)); [discriminate|]. destruct (IH _ H) as [Hn Hd]. cbn [map]. split.
  - constructor; [|exact Hn]. intro Hin. apply (Hd _ Hin). now left.
  - intros x [<-|Hx]; [now apply zmem_false|]. intro Hs. apply (Hd x Hx). now right.
Qed.

Section Hist.
Variable ph : Z.
Variables seps sepsb : list (kind * str).
Hypothesis Hseps : seps_ok seps.
Hypothesis Hsepsb : seps_ok sepsb.

Definition LayS (s : st) : Prop := Layout ph (s_doc s) (s_items s).

(* s' is s with one contiguous run of items replaced: same prefix, placeholder, suffix; items before
   are literally the same cells, items after keep their tokens; separation is kept *)
Definition FrameS (s s' : st) : Prop :=
  exists pre pht cs cs' post M news,
    s = mkst (lay pre pht cs post) (map item_of cs) /\ WF ph pre pht cs post /\
    s' = mkst (lay pre pht cs' post) (map item_of cs') /\ WF ph pre pht cs' post /\
    Edit cs cs' M news /\ (Sep seps sepsb cs -> Sep seps sepsb cs').

Definition run_op (s : st) (o : rop) : st * res unit :=
  match o with
  | RInsert i v fr => let '(s', _, r) := insert ph seps sepsb s i v fr in (s', r)
  | RAppend v fr => let '(s', _, r) := append ph seps sepsb s v fr in (s', r)
  | RExtend vs fr => let '(s', _, r) := extend ph seps sepsb s vs fr in (s', r)
  | RSetInt i v fr => let '(s', _, r) := setitem_int s i v in (s', r)
  | RSetSlice sl vs fr => let '(s', _, r) := setitem_slice ph seps sepsb s sl vs fr in (s', r)
  | RDel ix fr => let '(s', _, r) := delitem ph seps sepsb s ix fr in (s', r)
  | RPop i => let '(s', _, r) := pop ph s i in (s', match r with Ok _ => Ok tt | Err e => Err e end)
  | RClear => let '(s', _, r) := clear ph s in (s', r)
  end.

(* arguments well-formed (what the API guarantees for any call): fresh values, step-1 slices *)
Definition op_fresh (s : st) (o : rop) : Prop :=
  match o with
  | RInsert _ v fr | RAppend v fr | RSetInt _ v fr => args_fresh fr (s_doc s) [v]
  | RExtend vs fr => args_fresh fr (s_doc s) vs
  | RSetSlice sl vs fr => args_fresh fr (s_doc s) vs /\ step1 sl
  | RDel ix fr => (forall x, In x (ids (s_doc s)) -> x < fr) /\ match ix with IInt _ => True | ISlice sl => step1 sl end
  | RPop _ | RClear => True
  end.
(* ... and free values, each offered once *)
Definition op_ok (s : st) (o : rop) : Prop :=
  op_fresh s o /\
  match o with
  | RInsert _ v _ | RAppend v _ | RSetInt _ v _ => detachable v = true
  | RExtend vs _ | RSetSlice _ vs _ => forallb detachable vs = true /\ NoDup (map d_node vs)
  | _ => True
  end.

Lemma one_detachable : forall v, detachable v = true -> forallb detachable [v] = true.
Proof. intros v H. cbn. now rewrite H. Qed.

Lemma del_index_step1 : forall ix n r, match ix with IInt _ => True | ISlice sl => step1 sl end ->
  range_from_index ix n = Ok r -> r_step r = 1.
Proof.
  intros [i|sl] n r Hs H; cbn in H.
  - destruct (norm_index n i); inversion H; reflexivity.
  - unfold range_getslice, slice_indices in H. destruct Hs as [E|E]; rewrite E in H; cbn in H; inversion H; reflexivity.
Qed.

Theorem step_ok : forall s o s', LayS s -> op_ok s o -> run_op s o = (s', Ok tt) -> LayS s' /\ FrameS s s'.
Proof.
  intros [d items] o s' (pre & pht & cs & post & Ed & Ei & Hwf) [Hf Hk] H. cbn [s_doc s_items] in *. subst d items.
  assert (Fin : forall cs' M news, s' = mkst (lay pre pht cs' post) (map item_of cs') -> WF ph pre pht cs' post ->
                 Edit cs cs' M news -> (Sep seps sepsb cs -> Sep seps sepsb cs') ->
                 LayS s' /\ FrameS (mkst (lay pre pht cs post) (map item_of cs)) s').
  { intros cs' M news -> Hw He Hs. split.
    - exists pre, pht, cs', post. split; [reflexivity|split; [reflexivity|exact Hw]].
    - exists pre, pht, cs, cs', post, M, news. split; [reflexivity|]. split; [exact Hwf|]. split; [reflexivity|].
      split; [exact Hw|]. split; [exact He|exact Hs]. }
  destruct o as [i v fr|v fr|vs fr|i v fr|sl vs fr|ix fr|i|]; cbn [run_op op_fresh op_ok] in *.
  - destruct (insert_layout ph seps sepsb Hseps Hsepsb pre pht cs post i v fr Hwf) as (cs' & E & Hw & He & _ & Hs).
    { apply donors_ok_of_fresh; [exact Hf|now apply one_detachable]. }
    rewrite E in H. injection H as Hs'. eapply Fin; [symmetry; exact Hs'|exact Hw|exact He|exact Hs].
  - destruct (append_layout ph seps sepsb Hseps Hsepsb pre pht cs post v fr Hwf) as (cs' & E & Hw & He & _ & Hs).
    { apply donors_ok_of_fresh; [exact Hf|now apply one_detachable]. }
    rewrite E in H. injection H as Hs'. eapply Fin; [symmetry; exact Hs'|exact Hw|exact He|exact Hs].
  - destruct Hk as [Hd Hn].
    destruct (extend_layout ph seps sepsb Hseps Hsepsb pre pht cs post vs fr Hwf) as (cs' & E & Hw & He & _ & Hs);
      [now apply donors_ok_of_fresh|exact Hn|].
    rewrite E in H. injection H as Hs'. eapply Fin; [symmetry; exact Hs'|exact Hw|exact He|exact Hs].
  - destruct (setitem_int (mkst (lay pre pht cs post) (map item_of cs)) i v) as [[s1 dl] r] eqn:E.
    inversion H; subst s1 r.
    destruct (setitem_int_layout ph pre pht cs post i v fr s' dl Hwf) as (A & c & B & -> & _ & _ & Es & Hw & He); [|exact E|].
    { apply donors_ok_of_fresh; [exact Hf|now apply one_detachable]. }
    eapply Fin; [exact Es|exact Hw|exact He|apply Sep_set].
  - destruct Hf as [Hf Hst]. destruct Hk as [Hd Hn].
    destruct (setslice_layout ph seps sepsb Hseps Hsepsb pre pht cs post sl vs fr Hwf) as (A & M & B & cs' & _ & E & Hw & He & _ & Hs);
      [now apply donors_ok_of_fresh|exact Hn|exact Hst|].
    rewrite E in H. injection H as Hs'. eapply Fin; [symmetry; exact Hs'|exact Hw|exact He|exact Hs].
  - destruct Hf as [Hb Hst].
    destruct (range_from_index ix (zlen cs)) as [r|e] eqn:Er.
    + destruct (delitem_layout ph seps sepsb Hseps Hsepsb pre pht cs post ix fr r Hwf Hb Er) as (A & M & B & cs' & _ & E & Hw & He & _ & Hs).
      { eapply del_index_step1; eassumption. }
      rewrite E in H. injection H as Hs'. eapply Fin; [symmetry; exact Hs'|exact Hw|exact He|exact Hs].
    + unfold delitem in H. cbn [s_items] in H. rewrite zlen_map, Er in H. discriminate.
  - destruct (pop ph (mkst (lay pre pht cs post) (map item_of cs)) i) as [[s1 dl] r] eqn:E.
    destruct r as [toks|e]; [|discriminate]. inversion H; subst s1.
    destruct (pop_layout ph pre pht cs post i s' dl toks Hwf E) as (A & c & B & -> & _ & _ & _ & Es & Hw & He).
    eapply Fin; [exact Es|exact Hw|exact He|]. intro HS. now apply Sep_del.
  - destruct (clear_layout ph pre pht cs post Hwf) as (E & Hw & He).
    rewrite E in H. injection H as Hs'. eapply Fin; [symmetry; exact Hs'|exact Hw|exact He|intro; exact I].
Qed.

Lemma list_pop_of_get : forall {A} (l : list A) i x, list_get_int l i = Ok x -> exists y, list_pop l i = Ok y.
Proof.
  intros A l i x H. unfold list_pop. rewrite H. unfold list_get_int in H.
  destruct (norm_index (zlen l) i); [eexists; reflexivity|discriminate].
Qed.

(* C19 under the invariant: a refused operation leaves document and items exactly as they were *)
Theorem step_err : forall s o s' e, LayS s -> op_fresh s o -> run_op s o = (s', Err e) -> s' = s.
Proof.
  intros [d items] o s' e (pre & pht & cs & post & Ed & Ei & Hwf) Hf H. cbn [s_doc s_items] in *. subst d items.
  destruct o as [i v fr|v fr|vs fr|i v fr|sl vs fr|ix fr|i|]; cbn [run_op op_fresh] in *.
  - destruct (insert _ _ _ _ _ _ _) as [[s1 dl] r] eqn:E. inversion H; subst. eapply insert_atomic; exact E.
  - destruct (append _ _ _ _ _ _) as [[s1 dl] r] eqn:E. inversion H; subst. eapply append_atomic; exact E.
  - destruct (extend _ _ _ _ _ _) as [[s1 dl] r] eqn:E. inversion H; subst. eapply extend_atomic; exact E.
  - unfold setitem_int in H. cbn [s_doc s_items] in H.
    destruct (list_get_int (map item_of cs) i) as [it|e0] eqn:Eg; [|now inversion H].
    destruct (detach v) as [[ts v']|e0]; [|now inversion H].
    destruct (st_splice ts (fst it) (snd it) (lay pre pht cs post)); [|now inversion H].
    unfold list_set_int in H. unfold list_get_int in Eg.
    destruct (norm_index (zlen (map item_of cs)) i); [inversion H|discriminate].
  - destruct Hf as [Hf Hst].
    unfold setitem_slice in H. cbn [s_doc s_items] in H.
    destruct (range_from_index (ISlice sl) (zlen (map item_of cs))) as [r|e0] eqn:Er; [|now inversion H].
    destruct (check_detachable [] vs) as [[]|e0] eqn:Ec; [|now inversion H].
    exfalso. destruct (check_detachable_nodup _ _ Ec) as [Hn _].
    pose proof (check_detachable_ok _ _ Ec) as Hd.
    destruct (setslice_layout ph seps sepsb Hseps Hsepsb pre pht cs post sl vs fr Hwf) as (A & M & B & cs' & _ & E & _);
      [now apply donors_ok_of_fresh|exact Hn|exact Hst|].
    unfold setitem_slice in E. cbn [s_doc s_items] in E. rewrite Er, Ec in E. rewrite E in H. discriminate.
  - destruct Hf as [Hb Hst].
    destruct (range_from_index ix (zlen cs)) as [r|e0] eqn:Er.
    + exfalso.
      destruct (delitem_layout ph seps sepsb Hseps Hsepsb pre pht cs post ix fr r Hwf Hb Er) as (A & M & B & cs' & _ & E & _).
      { eapply del_index_step1; eassumption. }
      rewrite E in H. discriminate.
    + unfold delitem in H. cbn [s_items] in H. rewrite zlen_map, Er in H. now inversion H.
  - destruct (pop ph (mkst (lay pre pht cs post) (map item_of cs)) i) as [[s1 dl] r] eqn:E.
    destruct r as [toks|e0]; [discriminate|]. inversion H; subst s1 e0.
    eapply pop_atomic; [exact E|]. intros x Hx. eapply list_pop_of_get. exact Hx.
  - destruct (clear _ _) as [[s1 dl] r] eqn:E. inversion H; subst. eapply clear_atomic; exact E.
Qed.

(* histories: each call is either accepted (its values are free) or refused *)
Inductive Hist : st -> list rop -> st -> Prop :=
| H_nil : forall s, Hist s [] s
| H_ok : forall s o s' r s'', op_ok s o -> run_op s o = (s', Ok tt) -> Hist s' r s'' -> Hist s (o :: r) s''
| H_err : forall s o s' e r s'', op_fresh s o -> run_op s o = (s', Err e) -> Hist s' r s'' -> Hist s (o :: r) s''.

Theorem history_layout : forall s ops s', Hist s ops s' -> LayS s -> LayS s'.
Proof.
  intros s ops s' H. induction H as [s|s o s' r s'' Hok Hrun _ IH|s o s' e r s'' Hf Hrun _ IH]; intros HL.
  - exact HL.
  - apply IH. exact (proj1 (step_ok s o s' HL Hok Hrun)).
  - apply IH. rewrite (step_err s o s' e HL Hf Hrun). exact HL.
Qed.

(* at every point of any history: the next accepted call is framed and keeps the invariant, the next
   refused call changes nothing *)
Theorem history_step : forall s0 ops s o s',
  LayS s0 -> Hist s0 ops s ->
  (op_ok s o -> run_op s o = (s', Ok tt) -> LayS s' /\ FrameS s s') /\
  (forall e, op_fresh s o -> run_op s o = (s', Err e) -> s' = s).
Proof.
  intros s0 ops s o s' HL0 HH. pose proof (history_layout _ _ _ HH HL0) as HL. split.
  - intros Hok Hrun. now apply (step_ok s o s').
  - intros e Hf Hrun. eapply step_err; eassumption.
Qed.

(* ---- what FrameS means for tokens ------------------------------------------------------------------ *)
Lemma in_flat : forall cs t, In t (flat cs) -> exists c, In c cs /\ (In t (c_gap c) \/ In t (c_body c)).
Proof.
  induction cs as [|c cs IH]; intros t H; [destruct H|]. rewrite flat_cons in H.
  apply in_app_or in H. destruct H as [H|H]; [exists c; split; [now left|now left]|].
  apply in_app_or in H. destruct H as [H|H]; [exists c; split; [now left|now right]|].
  destruct (IH t H) as (c' & Hc & Ht). exists c'. split; [now right|exact Ht].
Qed.

Lemma in_flat_body : forall cs c t, In c cs -> In t (c_body c) -> In t (flat cs).
Proof.
  induction cs as [|c0 cs IH]; intros c t Hc Ht; [destruct Hc|]. rewrite flat_cons.
  destruct Hc as [->|Hc]; apply in_or_app; right; apply in_or_app; [now left|right; eapply IH; eassumption].
Qed.

Lemma gap_sep : forall cs c t, Forall cell_ok cs -> In c cs -> In t (c_gap c) -> is_sep (tkind t) = true.
Proof.
  intros cs c t Hok Hc Ht. rewrite Forall_forall in Hok. destruct (Hok c Hc) as [_ Hg].
  unfold all_sep in Hg. rewrite forallb_forall in Hg. now apply Hg.
Qed.

(* one window; outside it the token lists are identical; inside, every token of the new document is an
   old token of a sibling item, a separator-kind token, or a token of the new children; every token of
   the old document that disappeared is a separator-kind token or belongs to a removed item *)
Theorem frame_tokens : forall s s', FrameS s s' ->
  exists X W W' Y news removed,
    s_doc s = X ++ W ++ Y /\ s_doc s' = X ++ W' ++ Y /\
    (forall t, In t W' -> In t W \/ is_sep (tkind t) = true \/ exists b, In b news /\ In t b) /\
    (forall t, In t W -> In t W' \/ is_sep (tkind t) = true \/ exists c, In c removed /\ In t (c_body c)).
Proof.
  intros s s' (pre & pht & cs & cs' & post & M & news & -> & Hwf & -> & Hwf' & (A & B & Nc & B' & -> & -> & En & Eb) & _).
  destruct Hwf as (_ & _ & Hok). destruct Hwf' as (_ & _ & Hok').
  exists (pre ++ pht :: flat A), (flat M ++ flat B), (flat Nc ++ flat B'), post, news, M. cbn [s_doc].
  split; [unfold lay; rewrite !flat_app; repeat rewrite <- app_assoc; reflexivity|].
  split; [unfold lay; rewrite !flat_app; repeat rewrite <- app_assoc; reflexivity|].
  apply Forall_app_inv in Hok. destruct Hok as [_ Hok]. apply Forall_app_inv in Hok. destruct Hok as [HokM HokB].
  apply Forall_app_inv in Hok'. destruct Hok' as [_ Hok']. apply Forall_app_inv in Hok'. destruct Hok' as [HokN HokB'].
  split.
  - intros t Ht. apply in_app_or in Ht. destruct Ht as [Ht|Ht].
    + destruct (in_flat _ _ Ht) as (c & Hc & [Hg|Hb]).
      * right. left. eapply (gap_sep Nc); eassumption.
      * right. right. exists (c_body c). split; [rewrite <- En; now apply in_map|exact Hb].
    + destruct (in_flat _ _ Ht) as (c & Hc & [Hg|Hb]).
      * right. left. eapply (gap_sep B'); eassumption.
      * left. apply in_or_app. right.
        assert (Hin : In (c_body c) (map c_body B)) by (rewrite <- Eb; now apply in_map).
        apply in_map_iff in Hin. destruct Hin as (c2 & E2 & Hc2). eapply in_flat_body; [exact Hc2|now rewrite E2].
  - intros t Ht. apply in_app_or in Ht. destruct Ht as [Ht|Ht].
    + destruct (in_flat _ _ Ht) as (c & Hc & [Hg|Hb]).
      * right. left. eapply (gap_sep M); eassumption.
      * right. right. now exists c.
    + destruct (in_flat _ _ Ht) as (c & Hc & [Hg|Hb]).
      * right. left. eapply (gap_sep B); eassumption.
      * left. apply in_or_app. right.
        assert (Hin : In (c_body c) (map c_body B')) by (rewrite Eb; now apply in_map).
        apply in_map_iff in Hin. destruct Hin as (c2 & E2 & Hc2). eapply in_flat_body; [exact Hc2|now rewrite E2].
Qed.

End Hist.
