(* Operation histories on a repeated field: the layout invariant holds after every operation, every
   successful step is framed, every refused step leaves the state unchanged. *)
From AB Require Import Prelude PySeq RepeatedLib Repeated Fields RepeatedProofs RepeatedLayout RepeatedInsert RepeatedCells RepeatedSep RepeatedOps RepeatedSlices RepeatedDrop RepeatedExt.
From Coq Require Import ZifyBool Permutation.

Inductive rop :=
| RInsert (i : Z) (v : donor) (fr : Z) | RAppend (v : donor) (fr : Z) | RExtend (vs : list donor) (fr : Z)
| RSetInt (i : Z) (same : bool) (v : donor) (fr : Z) | RSetSlice (sl : slc) (vs : list donor) (fr : Z)
| RDel (ix : pyidx) (fr : Z) | RPop (i : Z) | RClear | RDropMany (l : list Z).


(* the values are new to the document (non-empty, fresh ids); says nothing about being free *)
Definition args_fresh (fr : Z) (d : doc) (vs : list donor) : Prop :=
  Forall (fun v => d_store v <> []) vs /\
  (forall x, In x (ids d) -> x < fr) /\ (forall x, In x (dids vs) -> x < fr) /\
  NoDup (ids d ++ dids vs).

Lemma donors_ok_of_fresh : forall fr d vs, args_fresh fr d vs -> forallb detachable vs = true -> donors_ok fr d vs.
Proof.
  intros fr d vs (H1 & H2 & H3 & H4) Hd. repeat split; try assumption.
  clear H3 H4. induction vs as [|v r IH]; [constructor|]. cbn in Hd. apply andb_true_iff in Hd. destruct Hd as [Hv Hr].
  constructor; [split; [exact Hv|exact (Forall_inv H1)]|]. apply IH; [exact (Forall_inv_tail H1)|exact Hr].
Qed.

Lemma fresh_of_donors_ok : forall fr d vs, donors_ok fr d vs -> args_fresh fr d vs.
Proof.
  intros fr d vs (H1 & H2 & H3 & H4). repeat split; try assumption.
  eapply Forall_impl; [|exact H1]. intros v [_ H]. exact H.
Qed.

Lemma check_detachable_nodup : forall vs seen, check_detachable seen vs = Ok tt ->
  NoDup (map d_node vs) /\ (forall x, In x (map d_node vs) -> ~ In x seen).
Proof.
  induction vs as [|v r IH]; intros seen H; [split; [constructor|intros x []]|].
  cbn [check_detachable] in H. destruct (zmem (d_node v) seen) eqn:Em; [discriminate|]. cbn [orb] in H.
  destruct (negb (detachable v)); [discriminate|]. destruct (IH _ H) as [Hn Hd]. cbn [map]. split.
  - constructor; [|exact Hn]. intro Hin. apply (Hd _ Hin). now left.
  - intros x [<-|Hx]; [now apply zmem_false|]. intro Hs. apply (Hd x Hx). now right.
Qed.

Section Hist.
Variable ph : Z.
Variables seps sepsb : list (kind * str).
Hypothesis Hseps : seps_ok seps.
Hypothesis Hsepsb : seps_ok sepsb.

Definition LayS (s : st) : Prop := Layout ph (s_doc s) (s_items s).

(* s' is s after a chain of edits, each replacing one contiguous run of items: same prefix, placeholder,
   suffix; in each edit the items before are literally the same cells and the items after keep their
   tokens; separation is kept.  (One edit for every mutator except extended slices / drop_many.) *)
Definition FrameS (s s' : st) : Prop :=
  exists pre pht cs cs' post M news,
    s = mkst (lay pre pht cs post) (map item_of cs) /\ WF ph pre pht cs post /\
    s' = mkst (lay pre pht cs' post) (map item_of cs') /\ WF ph pre pht cs' post /\
    Edits cs cs' M news /\ (Sep seps sepsb cs -> Sep seps sepsb cs').

Definition run_op (s : st) (o : rop) : st * res unit :=
  match o with
  | RInsert i v fr => let '(s', _, r) := insert ph seps sepsb s i v fr in (s', r)
  | RAppend v fr => let '(s', _, r) := append ph seps sepsb s v fr in (s', r)
  | RExtend vs fr => let '(s', _, r) := extend ph seps sepsb s vs fr in (s', r)
  | RSetInt i same v fr => let '(s', _, r) := setitem_int s i same v in (s', r)
  | RSetSlice sl vs fr => let '(s', _, r) := setitem_slice ph seps sepsb s sl vs fr in (s', r)
  | RDel ix fr => let '(s', _, r) := delitem ph seps sepsb s ix fr in (s', r)
  | RPop i => let '(s', _, r) := pop ph s i in (s', match r with Ok _ => Ok tt | Err e => Err e end)
  | RClear => let '(s', _, r) := clear ph s in (s', r)
  | RDropMany l => let '(s', _, r) := drop_many ph s l in (s', r)
  end.

(* arguments well-formed (what the API guarantees for any call): fresh values, step-1 slices *)
Definition op_fresh (s : st) (o : rop) : Prop :=
  match o with
  | RInsert _ v fr | RAppend v fr => args_fresh fr (s_doc s) [v]
  | RSetInt _ same v fr => same = true \/ args_fresh fr (s_doc s) [v]
  | RExtend vs fr => args_fresh fr (s_doc s) vs
  | RSetSlice sl vs fr => args_fresh fr (s_doc s) vs
  | RDel ix fr => forall x, In x (ids (s_doc s)) -> x < fr
  | RPop _ | RClear | RDropMany _ => True
  end.
(* what a REFUSED call may look like: anything - attached nodes of the same or of another document,
   the same node twice in a batch, missing indices; only a batch that passes the up-front test (all
   values free, each offered once) must consist of values that are new to the document *)
Definition op_err_ok (s : st) (o : rop) : Prop :=
  match o with
  | RSetSlice sl vs fr => forallb detachable vs = true -> NoDup (map d_node vs) -> args_fresh fr (s_doc s) vs
  | RDel ix fr => forall x, In x (ids (s_doc s)) -> x < fr
  | _ => True
  end.
(* ... and free values, each offered once *)
Definition op_ok (s : st) (o : rop) : Prop :=
  op_fresh s o /\
  match o with
  | RInsert _ v _ | RAppend v _ => detachable v = true
  | RSetInt _ same v _ => same = true \/ detachable v = true
  | RExtend vs _ | RSetSlice _ vs _ => forallb detachable vs = true /\ NoDup (map d_node vs)
  | _ => True
  end.

Lemma one_detachable : forall v, detachable v = true -> forallb detachable [v] = true.
Proof. intros v H. cbn. now rewrite H. Qed.

Lemma slice_step1 : forall n sl a b, slice_indices n sl = Ok (a, b, 1) -> sl_step sl = None \/ sl_step sl = Some 1.
Proof.
  intros n sl a b H. unfold slice_indices in H. destruct (sl_step sl) as [k|]; [|now left].
  destruct (k =? 0); [discriminate|]. inversion H. now right.
Qed.

Lemma edits_one_wf : forall pre pht cs cs' post M N, WF ph pre pht cs' post -> Edit cs cs' M N -> Edits cs cs' M N.
Proof. intros pre pht cs cs' post M N Hw He. apply Edits_one; [apply Hw|exact He]. Qed.

Theorem step_ok : forall s o s', LayS s -> op_ok s o -> run_op s o = (s', Ok tt) -> LayS s' /\ FrameS s s'.
Proof.
  intros [d items] o s' (pre & pht & cs & post & Ed & Ei & Hwf) [Hf Hk] H. cbn [s_doc s_items] in *. subst d items.
  assert (FinC : forall cs' M news, s' = mkst (lay pre pht cs' post) (map item_of cs') -> WF ph pre pht cs' post ->
                 Edits cs cs' M news -> (Sep seps sepsb cs -> Sep seps sepsb cs') ->
                 LayS s' /\ FrameS (mkst (lay pre pht cs post) (map item_of cs)) s').
  { intros cs' M news -> Hw He Hs. split.
    - exists pre, pht, cs', post. split; [reflexivity|split; [reflexivity|exact Hw]].
    - exists pre, pht, cs, cs', post, M, news. split; [reflexivity|]. split; [exact Hwf|]. split; [reflexivity|].
      split; [exact Hw|]. split; [exact He|exact Hs]. }
  assert (Fin : forall cs' M news, s' = mkst (lay pre pht cs' post) (map item_of cs') -> WF ph pre pht cs' post ->
                 Edit cs cs' M news -> (Sep seps sepsb cs -> Sep seps sepsb cs') ->
                 LayS s' /\ FrameS (mkst (lay pre pht cs post) (map item_of cs)) s').
  { intros cs' M news E Hw He Hs. eapply FinC; [exact E|exact Hw|eapply edits_one_wf; eassumption|exact Hs]. }
  destruct o as [i v fr|v fr|vs fr|i same v fr|sl vs fr|ix fr|i| |l]; cbn [run_op op_fresh op_ok] in *.
  - destruct (insert_layout ph seps sepsb Hseps Hsepsb pre pht cs post i v fr Hwf) as (cs' & E & Hw & He & _ & Hs).
    { apply donors_ok_of_fresh; [exact Hf|now apply one_detachable]. }
    rewrite E in H. injection H as Hs'. eapply Fin; [symmetry; exact Hs'|exact Hw|exact He|exact Hs].
  - destruct (append_layout ph seps sepsb Hseps Hsepsb pre pht cs post v fr Hwf) as (cs' & E & Hw & He & _ & Hs).
    { apply donors_ok_of_fresh; [exact Hf|now apply one_detachable]. }
    rewrite E in H. injection H as Hs'. eapply Fin; [symmetry; exact Hs'|exact Hw|exact He|exact Hs].
  - destruct Hk as [Hd Hn].
    destruct (extend_layout ph seps sepsb Hseps Hsepsb pre pht cs post vs fr Hwf) as (cs' & E & Hw & He & _ & Hs);
      [now apply donors_ok_of_fresh|exact Hn|].
    rewrite E in H. injection H as Hs'. eapply Fin; [symmetry; exact Hs'|exact Hw|exact He|exact Hs].
  - destruct same.
    + rewrite setitem_int_same in H. injection H as Hs' _.
      eapply FinC; [symmetry; exact Hs'|exact Hwf|constructor|tauto].
    + destruct Hf as [Hf|Hf]; [discriminate|]. destruct Hk as [Hk|Hk]; [discriminate|].
      destruct (setitem_int (mkst (lay pre pht cs post) (map item_of cs)) i false v) as [[s1 dl] r] eqn:E.
      inversion H; subst s1 r.
      destruct (setitem_int_layout ph pre pht cs post i v fr s' dl Hwf) as (A & c & B & -> & _ & _ & Es & Hw & He); [|exact E|].
      { apply donors_ok_of_fresh; [exact Hf|now apply one_detachable]. }
      eapply Fin; [exact Es|exact Hw|exact He|apply Sep_set].
  - destruct Hk as [Hd Hn].
    pose proof (donors_ok_of_fresh _ _ _ Hf Hd) as Hdon.
    destruct (slice_indices (zlen cs) sl) as [[[a b] k]|e] eqn:Esl.
    + destruct (Z.eq_dec k 1) as [->|Hk1].
      * destruct (setslice_layout ph seps sepsb Hseps Hsepsb pre pht cs post sl vs fr Hwf Hdon Hn) as (A & M & B & cs' & _ & E & Hw & He & _ & Hs);
          [eapply slice_step1; exact Esl|].
        rewrite E in H. injection H as Hs'. eapply Fin; [symmetry; exact Hs'|exact Hw|exact He|exact Hs].
      * destruct (range_len (mkrng a b k) =? zlen vs) eqn:Erl.
        -- destruct (setslice_ext_layout ph seps sepsb Hseps Hsepsb pre pht cs post sl vs fr a b k Hwf Hdon Hn Esl Hk1) as (cs' & M & dl & E & Hw & He & Hs);
             [lia|].
           rewrite E in H. injection H as Hs'. eapply FinC; [symmetry; exact Hs'|exact Hw|exact He|exact Hs].
        -- exfalso. unfold setitem_slice in H. cbn [s_doc s_items] in H. rewrite zlen_map in H.
           unfold range_from_index, range_getslice in H. rewrite Esl in H. cbn [r_start r_stop r_step] in H.
           rewrite check_detachable_pass in H by assumption.
           destruct (match map item_of cs with [] => Ok None | it0 :: _ => st_get_prev (fst it0) (lay pre pht cs post) end);
             [|discriminate].
           replace (k =? 1) with false in H by lia. rewrite Erl in H. discriminate.
    + exfalso. unfold setitem_slice in H. cbn [s_doc s_items] in H. rewrite zlen_map in H.
      unfold range_from_index, range_getslice in H. rewrite Esl in H. discriminate.
  - destruct (range_from_index ix (zlen cs)) as [r|e] eqn:Er.
    + destruct (Z.eq_dec (r_step r) 1) as [Hs1|Hs1].
      * destruct (delitem_layout ph seps sepsb Hseps Hsepsb pre pht cs post ix fr r Hwf Hf Er Hs1) as (A & M & B & cs' & _ & E & Hw & He & _ & Hs).
        rewrite E in H. injection H as Hs'. eapply Fin; [symmetry; exact Hs'|exact Hw|exact He|exact Hs].
      * destruct (delitem_ext_layout ph seps sepsb pre pht cs post ix fr r Hwf Er Hs1) as (cs' & M & E & Hw & He & Hs).
        { destruct ix as [i|sl]; cbn in Er.
          - destruct (norm_index (zlen cs) i); inversion Er; subst r. cbn in Hs1. congruence.
          - unfold range_getslice in Er. destruct (slice_indices (zlen cs) sl) as [[[a b] k]|]; inversion Er. reflexivity. }
        rewrite E in H. injection H as Hs'. eapply FinC; [symmetry; exact Hs'|exact Hw|exact He|exact Hs].
    + unfold delitem in H. cbn [s_items] in H. rewrite zlen_map, Er in H. discriminate.
  - destruct (pop ph (mkst (lay pre pht cs post) (map item_of cs)) i) as [[s1 dl] r] eqn:E.
    destruct r as [toks|e]; [|discriminate]. inversion H; subst s1.
    destruct (pop_layout ph pre pht cs post i s' dl toks Hwf E) as (A & c & B & -> & _ & _ & _ & Es & Hw & He).
    eapply Fin; [exact Es|exact Hw|exact He|]. intro HS. now apply Sep_del.
  - destruct (clear_layout ph pre pht cs post Hwf) as (E & Hw & He).
    rewrite E in H. injection H as Hs'. eapply Fin; [symmetry; exact Hs'|exact Hw|exact He|intro; exact I].
  - destruct (drop_many_layout ph seps sepsb pre pht cs post l Hwf) as [(e & E)|(cs' & M & E & Hw & He & Hs)].
    + rewrite E in H. discriminate.
    + rewrite E in H. injection H as Hs'. eapply FinC; [symmetry; exact Hs'|exact Hw|exact He|exact Hs].
Qed.

Lemma list_pop_of_get : forall {A} (l : list A) i x, list_get_int l i = Ok x -> exists y, list_pop l i = Ok y.
Proof.
  intros A l i x H. unfold list_pop. rewrite H. unfold list_get_int in H.
  destruct (norm_index (zlen l) i); [eexists; reflexivity|discriminate].
Qed.

(* C19 under the invariant: a refused operation leaves document and items exactly as they were *)
Theorem step_err : forall s o s' e, LayS s -> op_err_ok s o -> run_op s o = (s', Err e) -> s' = s.
Proof.
  intros [d items] o s' e (pre & pht & cs & post & Ed & Ei & Hwf) Hf H. cbn [s_doc s_items] in *. subst d items.
  destruct o as [i v fr|v fr|vs fr|i same v fr|sl vs fr|ix fr|i| |l]; cbn [run_op op_err_ok] in *.
  - destruct (insert _ _ _ _ _ _ _) as [[s1 dl] r] eqn:E. inversion H; subst. eapply insert_atomic; exact E.
  - destruct (append _ _ _ _ _ _) as [[s1 dl] r] eqn:E. inversion H; subst. eapply append_atomic; exact E.
  - destruct (extend _ _ _ _ _ _) as [[s1 dl] r] eqn:E. inversion H; subst. eapply extend_atomic; exact E.
  - unfold setitem_int in H. cbn [s_doc s_items] in H.
    destruct (list_get_int (map item_of cs) i) as [it|e0] eqn:Eg; [|now inversion H].
    destruct same; [discriminate|].
    destruct (detach v) as [[ts v']|e0]; [|now inversion H].
    destruct (st_splice ts (fst it) (snd it) (lay pre pht cs post)); [|now inversion H].
    unfold list_set_int in H. unfold list_get_int in Eg.
    destruct (norm_index (zlen (map item_of cs)) i); [inversion H|discriminate].
  - (* every refusal of a slice assignment happens before the first store write *)
    destruct (setitem_slice ph seps sepsb (mkst (lay pre pht cs post) (map item_of cs)) sl vs fr) as [[s1 dl] r] eqn:E0.
    inversion H; subst s1 r. clear H. pose proof E0 as Horig.
    unfold setitem_slice in E0. cbn [s_doc s_items] in E0. rewrite zlen_map in E0.
    unfold range_from_index, range_getslice in E0.
    destruct (slice_indices (zlen cs) sl) as [[[a b] k]|e0] eqn:Esl; [|now inversion E0].
    cbn [r_start r_stop r_step] in E0.
    destruct (check_detachable [] vs) as [[]|e0] eqn:Ec; [|now inversion E0].
    destruct (match map item_of cs with [] => Ok None | it0 :: _ => st_get_prev (fst it0) (lay pre pht cs post) end) eqn:Esb;
      [|now inversion E0].
    destruct (check_detachable_nodup _ _ Ec) as [Hn _].
    pose proof (check_detachable_ok _ _ Ec) as Hd.
    pose proof (donors_ok_of_fresh _ _ _ (Hf Hd Hn) Hd) as Hdon.
    destruct (Z.eq_dec k 1) as [->|Hk1].
    + exfalso.
      destruct (setslice_layout ph seps sepsb Hseps Hsepsb pre pht cs post sl vs fr Hwf Hdon Hn) as (A & M & B & cs' & _ & E & _);
        [eapply slice_step1; exact Esl|].
      rewrite E in Horig. discriminate.
    + replace (k =? 1) with false in E0 by lia.
      destruct (range_len (mkrng a b k) =? zlen vs) eqn:Erl; cbn [negb] in E0; [|now inversion E0].
      exfalso.
      destruct (setslice_ext_layout ph seps sepsb Hseps Hsepsb pre pht cs post sl vs fr a b k Hwf Hdon Hn Esl Hk1) as (cs' & M & dl' & E & _);
        [lia|].
      rewrite E in Horig. discriminate.
  - destruct (range_from_index ix (zlen cs)) as [r|e0] eqn:Er.
    + exfalso. destruct (Z.eq_dec (r_step r) 1) as [Hs1|Hs1].
      * destruct (delitem_layout ph seps sepsb Hseps Hsepsb pre pht cs post ix fr r Hwf Hf Er Hs1) as (A & M & B & cs' & _ & E & _).
        rewrite E in H. discriminate.
      * destruct (delitem_ext_layout ph seps sepsb pre pht cs post ix fr r Hwf Er Hs1) as (cs' & M & E & _).
        { destruct ix as [i|sl]; cbn in Er.
          - destruct (norm_index (zlen cs) i); inversion Er; subst r. cbn in Hs1. congruence.
          - unfold range_getslice in Er. destruct (slice_indices (zlen cs) sl) as [[[a b] k]|]; inversion Er. reflexivity. }
        rewrite E in H. discriminate.
    + unfold delitem in H. cbn [s_items] in H. rewrite zlen_map, Er in H. now inversion H.
  - destruct (pop ph (mkst (lay pre pht cs post) (map item_of cs)) i) as [[s1 dl] r] eqn:E.
    destruct r as [toks|e0]; [discriminate|]. inversion H; subst s1 e0.
    eapply pop_atomic; [exact E|]. intros x Hx. eapply list_pop_of_get. exact Hx.
  - destruct (clear _ _) as [[s1 dl] r] eqn:E. inversion H; subst. eapply clear_atomic; exact E.
  - destruct (drop_many_layout ph seps sepsb pre pht cs post l Hwf) as [(e0 & E)|(cs' & M & E & _)].
    + rewrite E in H. now inversion H.
    + rewrite E in H. discriminate.
Qed.

(* histories: each call is either accepted (its values are free) or refused *)
Inductive Hist : st -> list rop -> st -> Prop :=
| H_nil : forall s, Hist s [] s
| H_ok : forall s o s' r s'', op_ok s o -> run_op s o = (s', Ok tt) -> Hist s' r s'' -> Hist s (o :: r) s''
| H_err : forall s o s' e r s'', op_err_ok s o -> run_op s o = (s', Err e) -> Hist s' r s'' -> Hist s (o :: r) s''.

Theorem history_layout : forall s ops s', Hist s ops s' -> LayS s -> LayS s'.
Proof.
  intros s ops s' H. induction H as [s|s o s' r s'' Hok Hrun _ IH|s o s' e r s'' Hf Hrun _ IH]; intros HL.
  - exact HL.
  - apply IH. exact (proj1 (step_ok s o s' HL Hok Hrun)).
  - apply IH. rewrite (step_err s o s' e HL Hf Hrun). exact HL.
Qed.

(* at every point of any history: the next accepted call is framed and keeps the invariant, the next
   refused call changes nothing *)
Theorem history_step : forall s0 ops s o s',
  LayS s0 -> Hist s0 ops s ->
  (op_ok s o -> run_op s o = (s', Ok tt) -> LayS s' /\ FrameS s s') /\
  (forall e, op_err_ok s o -> run_op s o = (s', Err e) -> s' = s).
Proof.
  intros s0 ops s o s' HL0 HH. pose proof (history_layout _ _ _ HH HL0) as HL. split.
  - intros Hok Hrun. now apply (step_ok s o s').
  - intros e Hf Hrun. eapply step_err; eassumption.
Qed.

(* ---- what the frame means for tokens ---------------------------------------------------------------- *)
Lemma gap_sep : forall cs c t, Forall cell_ok cs -> In c cs -> In t (c_gap c) -> is_sep (tkind t) = true.
Proof.
  intros cs c t Hok Hc Ht. rewrite Forall_forall in Hok. destruct (Hok c Hc) as [_ Hg].
  unfold all_sep in Hg. rewrite forallb_forall in Hg. now apply Hg.
Qed.

(* one edit: one window X | W | Y; outside it the token lists are identical; the window holds NO token
   of a sibling: every token of the new window is a separator-kind token or a token of the new
   children, every token of the old window is a separator-kind token or belongs to a removed item.
   The separators that may change are the gaps of the new / removed cells and the gap of the one cell
   right after them: directly adjacent to the children. *)
Theorem frame_tokens_edit : forall pre pht cs cs' post M news,
  Forall cell_ok cs -> Forall cell_ok cs' -> Edit cs cs' M news ->
  exists X W W' Y,
    lay pre pht cs post = X ++ W ++ Y /\ lay pre pht cs' post = X ++ W' ++ Y /\
    (forall t, In t W' -> is_sep (tkind t) = true \/ exists b, In b news /\ In t b) /\
    (forall t, In t W -> is_sep (tkind t) = true \/ exists c, In c M /\ In t (c_body c)).
Proof.
  intros pre pht cs cs' post M news Hok Hok' (A & B & Nc & B' & -> & -> & En & Et).
  apply Forall_app_inv in Hok. destruct Hok as [_ Hok]. apply Forall_app_inv in Hok. destruct Hok as [HokM HokB].
  apply Forall_app_inv in Hok'. destruct Hok' as [_ Hok']. apply Forall_app_inv in Hok'. destruct Hok' as [HokN HokB'].
  assert (CN : forall t, In t (flat Nc) -> is_sep (tkind t) = true \/ exists b, In b news /\ In t b).
  { intros t Ht. destruct (in_flat _ _ Ht) as (c & Hc & [Hg|Hb]).
    - left. eapply (gap_sep Nc); eassumption.
    - right. exists (c_body c). split; [rewrite <- En; now apply in_map|exact Hb]. }
  assert (CM : forall t, In t (flat M) -> is_sep (tkind t) = true \/ exists c, In c M /\ In t (c_body c)).
  { intros t Ht. destruct (in_flat _ _ Ht) as (c & Hc & [Hg|Hb]).
    - left. eapply (gap_sep M); eassumption.
    - right. now exists c. }
  destruct B as [|b r]; destruct B' as [|b' r']; cbn in Et; try tauto.
  - exists (pre ++ pht :: flat A), (flat M), (flat Nc), post.
    split; [unfold lay; rewrite !flat_app, flat_nil, app_nil_r; repeat rewrite <- app_assoc; reflexivity|].
    split; [unfold lay; rewrite !flat_app, flat_nil, app_nil_r; repeat rewrite <- app_assoc; reflexivity|].
    split; assumption.
  - destruct Et as [Eb ->].
    exists (pre ++ pht :: flat A), (flat M ++ c_gap b), (flat Nc ++ c_gap b'), (c_body b ++ flat r ++ post).
    split; [unfold lay; rewrite !flat_app, flat_cons; repeat rewrite <- app_assoc; reflexivity|].
    split; [unfold lay; rewrite !flat_app, flat_cons, Eb; repeat rewrite <- app_assoc; reflexivity|].
    split; intros t Ht; apply in_app_or in Ht; destruct Ht as [Ht|Ht]; auto; left.
    + eapply (gap_sep (b' :: r)); [exact HokB'|now left|exact Ht].
    + eapply (gap_sep (b :: r)); [exact HokB|now left|exact Ht].
Qed.

Lemma edit_flat : forall cs cs' M news, Forall cell_ok cs -> Forall cell_ok cs' -> Edit cs cs' M news ->
  (forall t, In t (flat cs') -> In t (flat cs) \/ is_sep (tkind t) = true \/ exists b, In b news /\ In t b) /\
  (forall t, In t (flat cs) -> In t (flat cs') \/ is_sep (tkind t) = true \/ exists c, In c M /\ In t (c_body c)).
Proof.
  intros cs cs' M news Hok Hok' (A & B & Nc & B' & -> & -> & En & Et). pose proof (tail_eq_bodies _ _ Et) as Eb. split.
  - intros t Ht. destruct (in_flat _ _ Ht) as (c & Hc & Hgb).
    apply in_app_or in Hc. destruct Hc as [Hc|Hc].
    + left. destruct Hgb as [Hg|Hb]; [eapply in_flat_gap|eapply in_flat_body]; try eassumption; apply in_or_app; now left.
    + destruct Hgb as [Hg|Hb]; [right; left; eapply (gap_sep (A ++ Nc ++ B')); try eassumption; apply in_or_app; now right|].
      apply in_app_or in Hc. destruct Hc as [Hc|Hc].
      * right. right. exists (c_body c). split; [rewrite <- En; now apply in_map|exact Hb].
      * left. assert (Hin : In (c_body c) (map c_body B)) by (rewrite <- Eb; now apply in_map).
        apply in_map_iff in Hin. destruct Hin as (c2 & E2 & Hc2).
        eapply (in_flat_body _ c2); [apply in_or_app; right; apply in_or_app; now right|now rewrite E2].
  - intros t Ht. destruct (in_flat _ _ Ht) as (c & Hc & Hgb).
    apply in_app_or in Hc. destruct Hc as [Hc|Hc].
    + left. destruct Hgb as [Hg|Hb]; [eapply in_flat_gap|eapply in_flat_body]; try eassumption; apply in_or_app; now left.
    + destruct Hgb as [Hg|Hb]; [right; left; eapply (gap_sep (A ++ M ++ B)); try eassumption; apply in_or_app; now right|].
      apply in_app_or in Hc. destruct Hc as [Hc|Hc].
      * right. right. now exists c.
      * left. assert (Hin : In (c_body c) (map c_body B')) by (rewrite Eb; now apply in_map).
        apply in_map_iff in Hin. destruct Hin as (c2 & E2 & Hc2).
        eapply (in_flat_body _ c2); [apply in_or_app; right; apply in_or_app; now right|now rewrite E2].
Qed.

Lemma edits_flat : forall cs cs' M news, Edits cs cs' M news -> Forall cell_ok cs ->
  (forall t, In t (flat cs') -> In t (flat cs) \/ is_sep (tkind t) = true \/ exists b, In b news /\ In t b) /\
  (forall t, In t (flat cs) -> In t (flat cs') \/ is_sep (tkind t) = true \/ exists c, In c M /\ In t (c_body c)).
Proof.
  intros cs cs' M news H. induction H as [cs|cs cs1 cs2 M N M' N' Hok1 He _ IH]; intros Hok.
  - split; intros t Ht; now left.
  - destruct (edit_flat cs cs1 M N Hok Hok1 He) as [E1 E2]. destruct (IH Hok1) as [I1 I2]. split.
    + intros t Ht. destruct (I1 t Ht) as [H1|[H1|(b & Hb & Htb)]].
      * destruct (E1 t H1) as [H2|[H2|(b & Hb & Htb)]]; [now left|right; now left|].
        right. right. exists b. split; [apply in_or_app; now left|exact Htb].
      * right. now left.
      * right. right. exists b. split; [apply in_or_app; now right|exact Htb].
    + intros t Ht. destruct (E2 t Ht) as [H1|[H1|(c & Hc & Htc)]].
      * destruct (I2 t H1) as [H2|[H2|(c & Hc & Htc)]]; [now left|right; now left|].
        right. right. exists c. split; [apply in_or_app; now right|exact Htc].
      * right. now left.
      * right. right. exists c. split; [apply in_or_app; now left|exact Htc].
Qed.

(* any accepted call: everything before the field's placeholder and after its last item is identical;
   inside, tokens that appear are separator-kind or the new children's, tokens that disappear are
   separator-kind or belong to a removed item; for a single edit frame_tokens_edit gives the exact window *)
Theorem frame_tokens : forall s s', FrameS s s' ->
  exists X W W' Y news removed,
    s_doc s = X ++ W ++ Y /\ s_doc s' = X ++ W' ++ Y /\
    (forall t, In t W' -> In t W \/ is_sep (tkind t) = true \/ exists b, In b news /\ In t b) /\
    (forall t, In t W -> In t W' \/ is_sep (tkind t) = true \/ exists c, In c removed /\ In t (c_body c)).
Proof.
  intros s s' (pre & pht & cs & cs' & post & M & news & -> & Hwf & -> & Hwf' & He & _).
  destruct (edits_flat cs cs' M news He) as [F1 F2]; [apply Hwf|].
  exists (pre ++ [pht]), (flat cs), (flat cs'), post, news, M. cbn [s_doc]. unfold lay.
  split; [now rewrite <- app_assoc|]. split; [now rewrite <- app_assoc|]. split; assumption.
Qed.

End Hist.
