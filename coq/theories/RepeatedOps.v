(* The mutators of RepeatedNodeWrapper under the layout invariant: result, preservation of the
   invariant, and the edit relation between the cells before and after (frame). *)
From AB Require Import Prelude PySeq RepeatedLib Repeated Fields RepeatedProofs RepeatedLayout RepeatedInsert RepeatedCells RepeatedSep.
From Coq Require Import ZifyBool Permutation.

(* the cells after the window: the first keeps its tokens (only its gap, the separators directly
   adjacent to the window, may differ), all later cells are literally the same *)
Definition tail_eq (B B' : list cell) : Prop :=
  match B, B' with
  | [], [] => True
  | b :: r, b' :: r' => c_body b' = c_body b /\ r' = r
  | _, _ => False
  end.

Lemma tail_eq_refl : forall B, tail_eq B B.
Proof. intros [|b r]; cbn; auto. Qed.

Lemma tail_eq_bodies : forall B B', tail_eq B B' -> map c_body B' = map c_body B.
Proof. intros [|b r] [|b' r'] H; cbn in *; try tauto. destruct H as [-> ->]. reflexivity. Qed.

Lemma tail_eq_trans : forall B1 B2 B3, tail_eq B1 B2 -> tail_eq B2 B3 -> tail_eq B1 B3.
Proof.
  intros [|b1 r1] [|b2 r2] [|b3 r3] H1 H2; cbn in *; try tauto.
  destruct H1 as [E1 ->], H2 as [E2 ->]. split; congruence.
Qed.

(* cs' is cs with the cells `removed` (contiguous) replaced by new cells whose bodies are `news`;
   cells before are literally unchanged; of the cells after, only the gap of the first may differ *)
Definition Edit (cs cs' removed : list cell) (news : list (list tok)) : Prop :=
  exists A B Nc B', cs = A ++ removed ++ B /\ cs' = A ++ Nc ++ B' /\
                    map c_body Nc = news /\ tail_eq B B'.

Lemma cut_at : forall {A} (l : list A) p, 0 <= p <= zlen l -> exists a b, l = a ++ b /\ zlen a = p.
Proof.
  intros A l p H. exists (zfirstn p l), (zskipn p l). split.
  - unfold zfirstn, zskipn. now rewrite firstn_skipn.
  - unfold zfirstn, zlen in *. rewrite firstn_length. lia.
Qed.

Lemma cut3 : forall {A} (l : list A) a m, 0 <= a -> 0 <= m -> a + m <= zlen l ->
  exists X M Y, l = X ++ M ++ Y /\ zlen X = a /\ zlen M = m.
Proof.
  intros A l a m Ha Hm H. destruct (cut_at l a) as (X & R & -> & HX); [lia|].
  rewrite zlen_app in H. destruct (cut_at R m) as (M & Y & -> & HM); [pose proof (zlen_nonneg R); lia|].
  now exists X, M, Y.
Qed.

Lemma zlen_zero_nil : forall {A} (l : list A), zlen l = 0 -> l = [].
Proof. intros A [|x l] H; [reflexivity|]. rewrite zlen_cons in H. pose proof (zlen_nonneg l). lia. Qed.

Lemma nodup_cut : forall (x s y : list Z), NoDup (x ++ s ++ y) -> NoDup (x ++ y).
Proof.
  induction x as [|a x IH]; intros s y H.
  - eapply nodup_app_rr. exact H.
  - cbn in *. inversion H; subst. constructor; [|eapply IH; eassumption].
    intro Hin. apply H2. apply in_app_or in Hin. apply in_or_app. destruct Hin as [Hin|Hin]; [now left|].
    right. apply in_or_app. now right.
Qed.

Lemma nodup_ids_cut : forall X S Y, NoDup (ids (X ++ S ++ Y)) -> NoDup (ids (X ++ Y)).
Proof. intros X S Y H. rewrite !ids_app in *. eapply nodup_cut. exact H. Qed.

Lemma in_ids_cut : forall X S Y x, In x (ids (X ++ Y)) -> In x (ids (X ++ S ++ Y)).
Proof.
  intros X S Y x H. rewrite !ids_app in *. apply in_app_or in H. apply in_or_app.
  destruct H as [H|H]; [now left|right; apply in_or_app; now right].
Qed.

(* ---- what _del_tokens leaves --------------------------------------------------------------------- *)
Lemma del_res_items : forall A M B post, map item_of (del_res A M B post) = map item_of (A ++ B).
Proof.
  intros [|a A] [|m0 M] [|b0 B] post; try reflexivity.
  cbn [del_res]. destruct (keep_gap _ _); [|reflexivity]. rewrite !map_app. reflexivity.
Qed.

Lemma del_res_edit : forall A M B post, Edit (A ++ M ++ B) (del_res A M B post) M [].
Proof.
  intros A M B post. destruct A as [|a A].
  - destruct M as [|m0 M']; [exists [], B, [], B; repeat split; apply tail_eq_refl|].
    destruct B as [|b0 B']; [exists [], [], [], []; now repeat split|].
    exists [], (b0 :: B'), [], (mkcell (c_gap m0) (c_body b0) :: B'). now repeat split.
  - rewrite del_res_front.
    assert (Gen : Edit ((a :: A) ++ M ++ B) ((a :: A) ++ B) M []) by (exists (a :: A), B, [], B; repeat split; apply tail_eq_refl).
    destruct M as [|m0 M']; [exact Gen|]. destruct B as [|b0 B']; [exact Gen|]. destruct (keep_gap _ _); [|exact Gen].
    exists (a :: A), (b0 :: B'), [], (mkcell (c_gap m0 ++ c_gap b0) (c_body b0) :: B'). now repeat split.
Qed.

Lemma del_res_wf : forall ph pre pht A M B post,
  WF ph pre pht (A ++ M ++ B) post ->
  WF ph pre pht (del_res A M B post) post /\
  (forall x, In x (ids (lay pre pht (del_res A M B post) post)) -> In x (ids (lay pre pht (A ++ M ++ B) post))).
Proof.
  intros ph pre pht A M B post (Hph & Hnd & Hok).
  apply Forall_app_inv in Hok. destruct Hok as [HokA Hok]. apply Forall_app_inv in Hok. destruct Hok as [HokM HokB].
  assert (Gen : WF ph pre pht (A ++ B) post /\
          (forall x, In x (ids (lay pre pht (A ++ B) post)) -> In x (ids (lay pre pht (A ++ M ++ B) post)))).
  { assert (E1 : lay pre pht (A ++ M ++ B) post = (pre ++ pht :: flat A) ++ flat M ++ (flat B ++ post)).
    { unfold lay. rewrite !flat_app. repeat rewrite <- app_assoc. reflexivity. }
    assert (E2 : lay pre pht (A ++ B) post = (pre ++ pht :: flat A) ++ (flat B ++ post)).
    { unfold lay. rewrite !flat_app. repeat rewrite <- app_assoc. reflexivity. }
    split.
    - split; [exact Hph|]. split; [|apply Forall_app; now split].
      rewrite E2. rewrite E1 in Hnd. eapply nodup_ids_cut. exact Hnd.
    - intros x. rewrite E1, E2. apply in_ids_cut. }
  destruct A as [|a A].
  2:{ rewrite del_res_front. destruct M as [|m0 M']; [exact Gen|]. destruct B as [|b0 B']; [exact Gen|].
      destruct (keep_gap _ _); [|exact Gen].
      assert (E1 : lay pre pht ((a :: A) ++ (m0 :: M') ++ b0 :: B') post
              = (pre ++ pht :: flat (a :: A) ++ c_gap m0) ++ (c_body m0 ++ flat M') ++ (c_gap b0 ++ c_body b0 ++ flat B' ++ post)).
      { unfold lay. rewrite !flat_app, !flat_cons. repeat rewrite <- app_assoc. cbn [app].
        repeat rewrite <- app_assoc. reflexivity. }
      assert (E2 : lay pre pht ((a :: A) ++ mkcell (c_gap m0 ++ c_gap b0) (c_body b0) :: B') post
              = (pre ++ pht :: flat (a :: A) ++ c_gap m0) ++ (c_gap b0 ++ c_body b0 ++ flat B' ++ post)).
      { unfold lay. rewrite !flat_app, !flat_cons. cbn [c_gap c_body]. repeat rewrite <- app_assoc. cbn [app].
        repeat rewrite <- app_assoc. reflexivity. }
      pose proof (Forall_inv HokM) as [_ Hg0]. pose proof (Forall_inv HokB) as [Hb0 Hgb0].
      split.
      - split; [exact Hph|]. split.
        + rewrite E2. rewrite E1 in Hnd. eapply nodup_ids_cut. exact Hnd.
        + apply Forall_app. split; [exact HokA|].
          constructor; [|exact (Forall_inv_tail HokB)]. split; [exact Hb0|].
          cbn [c_gap]. unfold all_sep in *. rewrite forallb_app, Hg0, Hgb0. reflexivity.
      - intros x. rewrite E1, E2. apply in_ids_cut. }
  destruct M as [|m0 M']; [exact Gen|]. destruct B as [|b0 B']; [exact Gen|].
  cbn [del_res app] in *.
  assert (E1 : lay pre pht (m0 :: M' ++ b0 :: B') post
          = (pre ++ pht :: c_gap m0) ++ (c_body m0 ++ flat M' ++ c_gap b0) ++ (c_body b0 ++ flat B' ++ post)).
  { unfold lay. rewrite flat_cons, flat_app, flat_cons. repeat rewrite <- app_assoc. cbn [app].
    repeat rewrite <- app_assoc. reflexivity. }
  assert (E2 : lay pre pht (mkcell (c_gap m0) (c_body b0) :: B') post
          = (pre ++ pht :: c_gap m0) ++ (c_body b0 ++ flat B' ++ post)).
  { unfold lay. rewrite flat_cons. cbn [c_gap c_body]. repeat rewrite <- app_assoc. cbn [app].
    repeat rewrite <- app_assoc. reflexivity. }
  pose proof (Forall_inv HokM) as [_ Hg0]. pose proof (Forall_inv HokB) as [Hb0 _].
  split.
  - split; [exact Hph|]. split.
    + rewrite E2. rewrite E1 in Hnd. eapply nodup_ids_cut. exact Hnd.
    + constructor; [split; assumption|exact (Forall_inv_tail HokB)].
  - intros x. rewrite E1, E2. apply in_ids_cut.
Qed.

Lemma donors_ok_sub : forall fr d d' vs, donors_ok fr d vs -> NoDup (ids d') ->
  (forall x, In x (ids d') -> In x (ids d)) -> donors_ok fr d' vs.
Proof.
  intros fr d d' vs (H1 & H2 & H3 & H4) Hn Hs. repeat split; [exact H1| |exact H3|].
  - intros x Hx. apply H2. now apply Hs.
  - apply nodup_app_intro; [exact Hn|eapply nodup_app_rr; exact H4|].
    intros x Hx. eapply nodup_app_disj; [exact H4|]. now apply Hs.
Qed.

Lemma check_detachable_pass : forall vs seen,
  forallb detachable vs = true -> NoDup (seen ++ map d_node vs) -> check_detachable seen vs = Ok tt.
Proof.
  induction vs as [|v r IH]; intros seen Hd Hn; [reflexivity|].
  cbn [forallb] in Hd. apply andb_true_iff in Hd. destruct Hd as [Hv Hr]. cbn [check_detachable map] in *.
  assert (Hm : zmem (d_node v) seen = false).
  { destruct (zmem (d_node v) seen) eqn:E; [|reflexivity]. apply zmem_true in E. exfalso.
    eapply nodup_app_disj; [exact Hn|exact E|now left]. }
  rewrite Hm, Hv. cbn [negb orb]. apply IH; [exact Hr|].
  (* seen ++ v :: r  ~  (v :: seen) ++ r *)
  apply (Permutation_NoDup (l := seen ++ d_node v :: map d_node r)); [|exact Hn].
  apply Permutation_sym. cbn. apply Permutation_middle.
Qed.

Section Ops.
Variable ph : Z.
Variables seps sepsb : list (kind * str).
Hypothesis Hseps : seps_ok seps.
Hypothesis Hsepsb : seps_ok sepsb.

Notation ins_res := (ins_res seps sepsb).

Lemma ins_res_shape : forall A B fr vs,
  exists Nc B', ins_res A B fr vs = A ++ Nc ++ B' /\ map c_body Nc = map d_store vs /\ tail_eq B B'.
Proof.
  intros A B fr vs.
  assert (B1 : forall vs fr, map c_body (cells1 seps fr vs) = map d_store vs).
  { induction vs0 as [|v r IH]; intros fr0; [reflexivity|]. cbn. now rewrite IH. }
  destruct A as [|a A].
  - destruct B as [|b0 B'].
    + exists (cells3 seps sepsb fr vs), []. repeat split; [cbn; now rewrite app_nil_r|].
      destruct vs as [|v r]; [reflexivity|]. cbn. now rewrite B1.
    + cbn [RepeatedCells.ins_res].
      assert (Hs : forall vs g fr, exists Nc b', shift seps g fr vs (c_body b0) = Nc ++ [b'] /\
                   map c_body Nc = map d_store vs /\ c_body b' = c_body b0).
      { induction vs0 as [|v r IH]; intros g fr0.
        - exists [], (mkcell g (c_body b0)). now repeat split.
        - destruct (IH (mk_seps fr0 seps) (fr0 + nseps seps)) as (Nc & b' & E & E1 & E2).
          exists (mkcell g (d_store v) :: Nc), b'. cbn [shift]. rewrite E. repeat split; [|exact E2].
          cbn. now rewrite E1. }
      destruct (Hs vs (c_gap b0) fr) as (Nc & b' & E & E1 & E2).
      exists Nc, (b' :: B'). rewrite E. split; [cbn [app]; now rewrite <- app_assoc|]. split; [exact E1|].
      cbn. split; [exact E2|reflexivity].
  - exists (cells1 seps fr vs), B. split; [reflexivity|]. split; [apply B1|apply tail_eq_refl].
Qed.

Lemma ins_res_edit : forall A B fr vs, vs_ok vs ->
  Edit (A ++ B) (ins_res A B fr vs) [] (map d_store vs).
Proof.
  intros A B fr vs _. destruct (ins_res_shape A B fr vs) as (Nc & B' & E & E1 & E2).
  exists A, B, Nc, B'. now repeat split.
Qed.

(* ---- insert / append / extend -------------------------------------------------------------------- *)
Theorem extend_layout : forall pre pht cs post vs fr,
  WF ph pre pht cs post -> donors_ok fr (lay pre pht cs post) vs -> NoDup (map d_node vs) ->
  exists cs', extend ph seps sepsb (mkst (lay pre pht cs post) (map item_of cs)) vs fr
                = (mkst (lay pre pht cs' post) (map item_of cs'), map emptied vs, Ok tt)
              /\ WF ph pre pht cs' post /\ Edit cs cs' [] (map d_store vs)
              /\ map item_of cs' = map item_of cs ++ map node_item vs
              /\ (Sep seps sepsb cs -> Sep seps sepsb cs').
Proof.
  intros pre pht cs post vs fr Hwf Hdon Hnn.
  destruct (ins_layout ph seps sepsb Hseps Hsepsb pre pht cs [] post (map item_of (cs ++ [])) [] vs None fr) as (Hi & Hwf' & Hit).
  - now rewrite app_nil_r.
  - reflexivity.
  - intros _ b0 B' E. destruct cs; discriminate.
  - now rewrite app_nil_r.
  - rewrite !app_nil_r in *. exists (ins_res cs [] fr vs). split; [|split; [exact Hwf'|split; [|split]]].
    3:{ exact Hit. }
    3:{ intro HS. apply Sep_ins. now rewrite app_nil_r. }
    + unfold extend. cbn [s_doc s_items].
      rewrite check_detachable_pass; [|eapply donors_ok_detachable; exact Hdon|exact Hnn].
      rewrite zlen_map. rewrite Hi. rewrite Hit. reflexivity.
    + destruct Hdon as (Hvs & _). pose proof (ins_res_edit cs [] fr vs Hvs) as E. now rewrite app_nil_r in E.
Qed.

Theorem append_layout : forall pre pht cs post v fr,
  WF ph pre pht cs post -> donors_ok fr (lay pre pht cs post) [v] ->
  exists cs', append ph seps sepsb (mkst (lay pre pht cs post) (map item_of cs)) v fr
                = (mkst (lay pre pht cs' post) (map item_of cs'), [emptied v], Ok tt)
              /\ WF ph pre pht cs' post /\ Edit cs cs' [] [d_store v]
              /\ map item_of cs' = map item_of cs ++ [node_item v]
              /\ (Sep seps sepsb cs -> Sep seps sepsb cs').
Proof.
  intros pre pht cs post v fr Hwf Hdon.
  destruct (ins_layout ph seps sepsb Hseps Hsepsb pre pht cs [] post (map item_of (cs ++ [])) [] [v] None fr) as (Hi & Hwf' & Hit).
  - now rewrite app_nil_r.
  - reflexivity.
  - intros _ b0 B' E. destruct cs; discriminate.
  - now rewrite app_nil_r.
  - rewrite !app_nil_r in *. exists (ins_res cs [] fr [v]). split; [|split; [exact Hwf'|split; [|split]]].
    3:{ exact Hit. }
    3:{ intro HS. apply Sep_ins. now rewrite app_nil_r. }
    + unfold append. cbn [s_doc s_items]. rewrite zlen_map. rewrite Hi. rewrite Hit. reflexivity.
    + destruct Hdon as (Hvs & _). pose proof (ins_res_edit cs [] fr [v] Hvs) as E. now rewrite app_nil_r in E.
Qed.

Lemma list_insert_cut : forall {X} (a b : list X) x, list_insert (a ++ b) (zlen a) x = a ++ x :: b.
Proof.
  intros X a b x. unfold list_insert, insert_pos. pose proof (zlen_nonneg a). pose proof (zlen_nonneg b).
  rewrite zlen_app.
  replace (zlen a <? 0) with false by lia. replace (zlen a <? 0) with false by lia.
  replace (zlen a + zlen b <? zlen a) with false by lia.
  rewrite splice_ins by lia. reflexivity.
Qed.

Theorem insert_layout : forall pre pht cs post i v fr,
  WF ph pre pht cs post -> donors_ok fr (lay pre pht cs post) [v] ->
  exists cs', insert ph seps sepsb (mkst (lay pre pht cs post) (map item_of cs)) i v fr
                = (mkst (lay pre pht cs' post) (map item_of cs'), [emptied v], Ok tt)
              /\ WF ph pre pht cs' post /\ Edit cs cs' [] [d_store v]
              /\ map item_of cs' = list_insert (map item_of cs) i (node_item v)
              /\ (Sep seps sepsb cs -> Sep seps sepsb cs').
Proof.
  intros pre pht cs post i v fr Hwf Hdon.
  pose proof (zlen_nonneg cs) as Hn.
  assert (Hk : 0 <= Z.min (if i <? 0 then Z.max (i + zlen cs) 0 else i) (zlen cs) <= zlen cs)
    by (destruct (i <? 0) eqn:E; lia).
  destruct (cut_at cs _ Hk) as (A & B & Ecs & HA). rewrite Ecs in *. clear Ecs cs.
  destruct (ins_layout ph seps sepsb Hseps Hsepsb pre pht A B post (map item_of (A ++ B)) B [v] None fr) as (Hi & Hwf' & Hit);
    [exact Hwf|reflexivity|intros _ b0 B' E; now right|exact Hdon|].
  exists (ins_res A B fr [v]). split; [|split; [exact Hwf'|split; [|split]]].
  4:{ intro HS. now apply Sep_ins. }
  - unfold insert. cbn [s_doc s_items]. rewrite zlen_map. cbv zeta. rewrite <- HA. rewrite Hi.
    rewrite Hit. rewrite map_app. replace (zlen A) with (zlen (map item_of A)) by apply zlen_map.
    rewrite list_insert_cut. reflexivity.
  - destruct Hdon as (Hvs & _). apply (ins_res_edit A B fr [v] Hvs).
  - rewrite Hit. rewrite map_app.
    assert (Ei : insert_pos (zlen (map item_of A ++ map item_of B)) i = zlen (map item_of A)).
    { rewrite zlen_app, !zlen_map. unfold insert_pos. rewrite zlen_app in *.
      pose proof (zlen_nonneg A). pose proof (zlen_nonneg B).
      revert HA. destruct (i <? 0) eqn:E; intros HA.
      - destruct (i + (zlen A + zlen B) <? 0) eqn:E2.
        + replace (zlen A + zlen B <? 0) with false by lia. lia.
        + destruct (zlen A + zlen B <? i + (zlen A + zlen B)) eqn:E3; lia.
      - rewrite E. destruct (zlen A + zlen B <? i) eqn:E3; lia. }
    unfold list_insert. rewrite Ei. pose proof (zlen_nonneg (map item_of A)). rewrite splice_ins by lia. reflexivity.
Qed.

(* ---- clear / pop ----------------------------------------------------------------------------------- *)
Theorem clear_layout : forall pre pht cs post,
  WF ph pre pht cs post ->
  clear ph (mkst (lay pre pht cs post) (map item_of cs)) = (mkst (lay pre pht [] post) [], [], Ok tt)
  /\ WF ph pre pht [] post /\ Edit cs [] cs [].
Proof.
  intros pre pht cs post Hwf. unfold clear. cbn [s_doc s_items]. rewrite zlen_map.
  assert (He : Edit cs [] cs []) by (exists [], [], [], []; repeat split; now rewrite app_nil_r).
  destruct cs as [|c cs'].
  - rewrite del_tokens_noop by (change (zlen (@nil cell)) with 0; lia). repeat split; try exact He; apply Hwf.
  - pose proof (del_layout ph pre pht [] (c :: cs') [] post) as Hd. rewrite app_nil_r in Hd. cbn [app] in Hd.
    change (zlen (@nil cell)) with 0 in Hd. rewrite Z.add_0_l in Hd.
    rewrite Hd; [|exact Hwf|discriminate]. cbn [del_res].
    pose proof (del_res_wf ph pre pht [] (c :: cs') [] post) as Hw. rewrite app_nil_r in Hw. cbn [app del_res] in Hw.
    destruct (Hw Hwf) as [Hw1 _]. repeat split; try exact He; apply Hw1.
Qed.

(* the tokens of item k: store.iter(first, last) is exactly its body *)
Lemma st_iter_body : forall P S Q, NoDup (ids (P ++ S ++ Q)) -> S <> [] ->
  st_iter (tid (hd dft S)) (tid (last S dft)) (P ++ S ++ Q) = S.
Proof.
  intros P S Q Hnd Hne. destruct S as [|s0 S']; [congruence|]. unfold st_iter. cbn [hd].
  change (P ++ (s0 :: S') ++ Q) with (P ++ s0 :: (S' ++ Q)) in *.
  rewrite split_at_mid by (eapply nodup_mid_l; exact Hnd).
  destruct (snoc_cases S') as [->|(S'' & l & ->)].
  - cbn [last]. now rewrite Z.eqb_refl.
  - replace (last (s0 :: S'' ++ [l]) dft) with l by (change (s0 :: S'' ++ [l]) with ((s0 :: S'') ++ [l]); now rewrite last_last).
    assert (Hneq : tid s0 <> tid l).
    { pose proof (nodup_mid_r _ _ _ Hnd) as Hr. intro Heq. apply Hr. rewrite ids_app, ids_app.
      apply in_or_app. left. apply in_or_app. right. cbn. now left. }
    replace (tid s0 =? tid l) with false by lia.
    rewrite <- app_assoc. cbn [app]. rewrite split_at_mid; [reflexivity|].
    assert (Hnd2 : NoDup (ids (S'' ++ l :: Q))).
    { apply (nodup_app_r (P ++ [s0])). rewrite <- app_assoc. cbn [app].
      replace (S'' ++ l :: Q) with ((S'' ++ [l]) ++ Q) by (now rewrite <- app_assoc). exact Hnd. }
    eapply nodup_mid_l. exact Hnd2.
Qed.

Theorem pop_layout : forall pre pht cs post i s' dl r,
  WF ph pre pht cs post ->
  pop ph (mkst (lay pre pht cs post) (map item_of cs)) i = (s', dl, Ok r) ->
  exists A c B, cs = A ++ c :: B /\ r = c_body c /\ dl = [] /\
    (zlen A = i \/ zlen A = i + zlen cs) /\
    s' = mkst (lay pre pht (del_res A [c] B post) post) (map item_of (del_res A [c] B post)) /\
    WF ph pre pht (del_res A [c] B post) post /\ Edit cs (del_res A [c] B post) [c] [].
Proof.
  intros pre pht cs post i s' dl r Hwf H. unfold pop in H. cbn [s_doc s_items] in H.
  destruct (list_get_int (map item_of cs) i) as [it|e] eqn:Eg; [|discriminate].
  unfold list_get_int in Eg. rewrite zlen_map in Eg.
  destruct (norm_index (zlen cs) i) as [j|e] eqn:En; [|discriminate].
  destruct (norm_index_ok _ _ _ En) as [Hj Hji].
  destruct (cut3 cs j 1) as (A & M & B & -> & HA & HM); [lia|lia|lia|].
  destruct M as [|c [|c2 M]]; [discriminate| |rewrite !zlen_cons in HM; pose proof (zlen_nonneg M); lia].
  unfold range_from_index in H. rewrite zlen_map, En in H. cbn [r_start r_stop] in H.
  rewrite <- HA in H.
  pose proof (del_layout ph pre pht A [c] B post Hwf) as Hd. change (zlen [c]) with 1 in Hd.
  rewrite Hd in H by discriminate.
  assert (Hmid : nth_error (map item_of (A ++ [c] ++ B)) (Z.to_nat j) = Some (item_of c)).
  { rewrite map_app. cbn [map app]. rewrite <- HA. replace (zlen A) with (zlen (map item_of A)) by apply zlen_map.
    apply nth_error_mid. }
  rewrite Hmid in Eg. inversion Eg; subst it. clear Eg.
  assert (Hpop : list_pop (map item_of (A ++ [c] ++ B)) i = Ok (item_of c, map item_of A ++ map item_of B)).
  { unfold list_pop, list_get_int. rewrite zlen_map, En, Hmid. rewrite map_app. cbn [map app]. rewrite <- HA.
    replace (zlen A) with (zlen (map item_of A)) by apply zlen_map. rewrite splice_one. reflexivity. }
  rewrite Hpop in H.
  inversion H; subst s' dl r. clear H.
  destruct (del_res_wf ph pre pht A [c] B post Hwf) as [Hw1 _].
  exists A, c, B. split; [reflexivity|]. split; [|split; [reflexivity|]].
  - destruct Hwf as (Hph & Hnd & Hok).
    apply Forall_app_inv in Hok. destruct Hok as [_ Hok]. pose proof (Forall_inv Hok) as [Hc _].
    assert (E : lay pre pht (A ++ [c] ++ B) post = (pre ++ pht :: flat A ++ c_gap c) ++ c_body c ++ (flat B ++ post)).
    { unfold lay. rewrite flat_app. cbn [app]. rewrite flat_cons. repeat rewrite <- app_assoc. cbn [app].
      repeat rewrite <- app_assoc. reflexivity. }
    cbn [app] in E. rewrite E. cbn [fst snd item_of]. apply st_iter_body; [|exact Hc].
    rewrite <- E. exact Hnd.
  - split; [lia|]. split; [|split; [exact Hw1|apply del_res_edit]].
    f_equal. rewrite del_res_items, map_app. reflexivity.
Qed.

(* ---- xs[i] = v --------------------------------------------------------------------------------------- *)
(* assigning the node that is already there changes nothing at all (and an index that does not exist is refused) *)
Theorem setitem_int_same : forall s i v,
  setitem_int s i true v = (s, [v], match list_get_int (s_items s) i with Ok _ => Ok tt | Err e => Err e end).
Proof. intros s i v. unfold setitem_int. now destruct (list_get_int (s_items s) i). Qed.

Theorem setitem_int_layout : forall pre pht cs post i v fr s' dl,
  WF ph pre pht cs post -> donors_ok fr (lay pre pht cs post) [v] ->
  setitem_int (mkst (lay pre pht cs post) (map item_of cs)) i false v = (s', dl, Ok tt) ->
  exists A c B, cs = A ++ c :: B /\ (zlen A = i \/ zlen A = i + zlen cs) /\ dl = [emptied v] /\
    let cs' := A ++ mkcell (c_gap c) (d_store v) :: B in
    s' = mkst (lay pre pht cs' post) (map item_of cs') /\ WF ph pre pht cs' post /\ Edit cs cs' [c] [d_store v].
Proof.
  intros pre pht cs post i v fr s' dl Hwf Hdon H. unfold setitem_int in H. cbn [s_doc s_items] in H.
  destruct (list_get_int (map item_of cs) i) as [it|e] eqn:Eg; [|discriminate].
  unfold list_get_int in Eg. rewrite zlen_map in Eg.
  destruct (norm_index (zlen cs) i) as [j|e] eqn:En; [|discriminate].
  destruct (norm_index_ok _ _ _ En) as [Hj Hji].
  destruct (cut3 cs j 1) as (A & M & B & -> & HA & HM); [lia|lia|lia|].
  destruct M as [|c [|c2 M]]; [discriminate| |rewrite !zlen_cons in HM; pose proof (zlen_nonneg M); lia].
  cbn [app] in *. rewrite map_app in Eg. cbn [map] in Eg. rewrite <- HA in Eg.
  replace (zlen A) with (zlen (map item_of A)) in Eg by apply zlen_map.
  rewrite nth_error_mid in Eg. inversion Eg; subst it. clear Eg.
  destruct Hdon as (Hvs & Hdb & Hvb & Hnn). pose proof (Forall_inv Hvs) as [Hdet Hne].
  rewrite detach_ok in H by exact Hdet.
  destruct Hwf as (Hph & Hnd & Hok).
  apply Forall_app_inv in Hok. destruct Hok as [HokA Hok]. pose proof (Forall_inv Hok) as [Hc Hgc].
  assert (E : forall body, lay pre pht (A ++ mkcell (c_gap c) body :: B) post
              = (pre ++ pht :: flat A ++ c_gap c) ++ body ++ (flat B ++ post)).
  { intros body. unfold lay. rewrite flat_app, flat_cons. cbn [c_gap c_body]. repeat rewrite <- app_assoc. cbn [app].
    repeat rewrite <- app_assoc. reflexivity. }
  assert (Ec : A ++ c :: B = A ++ mkcell (c_gap c) (c_body c) :: B) by (now destruct c).
  rewrite Ec in H, Hnd, Hdb, Hnn. rewrite (E (c_body c)) in H, Hnd, Hdb, Hnn.
  cbn [dids flat_map] in Hvb, Hnn. rewrite app_nil_r in Hvb, Hnn.
  assert (Hdis : forall t, In t (d_store v) -> ~ In (tid t) (ids ((pre ++ pht :: flat A ++ c_gap c) ++ c_body c ++ flat B ++ post))).
  { intros t Ht Hin. eapply nodup_app_disj; [exact Hnn|exact Hin|]. unfold ids. now apply in_map. }
  cbn [fst snd item_of] in H.
  rewrite splice_span in H; [|exact Hnd|exact Hc|now apply guard_disjoint].
  rewrite map_app in H. cbn [map] in H.
  assert (Hset : forall x, list_set_int (map item_of A ++ item_of c :: map item_of B) i x
                 = Ok (map item_of A ++ x :: map item_of B)).
  { intros x. unfold list_set_int. rewrite zlen_app, zlen_cons, !zlen_map.
    rewrite zlen_app, zlen_cons in En. rewrite En. rewrite <- HA.
    replace (zlen A) with (zlen (map item_of A)) by apply zlen_map. now rewrite splice_one. }
  rewrite Hset in H. inversion H; subst s' dl. clear H.
  exists A, c, B. split; [reflexivity|]. split; [rewrite zlen_app, zlen_cons in *; lia|]. split; [reflexivity|].
  cbv zeta. split; [|split].
  - rewrite (E (d_store v)). f_equal. rewrite map_app. cbn [map]. now rewrite item_of_donor.
  - split; [exact Hph|]. split.
    + rewrite (E (d_store v)). rewrite !ids_app. apply nodup_insert.
      * rewrite !ids_app in Hnd. eapply nodup_cut. exact Hnd.
      * eapply nodup_app_rr. exact Hnn.
      * intros x Hx Hin. unfold ids in Hx. apply in_map_iff in Hx. destruct Hx as (t & <- & Ht).
        apply (Hdis t Ht). rewrite <- !ids_app in Hin. apply in_ids_cut. exact Hin.
    + apply Forall_app. split; [exact HokA|]. constructor; [split; assumption|exact (Forall_inv_tail Hok)].
  - exists A, B, [mkcell (c_gap c) (d_store v)], B. repeat split. apply tail_eq_refl.
Qed.

End Ops.
