(* Glue for the correspondence of the generic tree model with the implementation. The harness dumps
   real model objects as `node` terms (ids = Python object identities renumbered, toks = `.tokens`). *)
From AB Require Import Desc Generated Tree TreeDefs TreeWF.
From Coq Require Import ZArith.
Open Scope list_scope.

(* hand-written tree classes: number_add_expr.py / number_mul_expr.py (one sequence field) *)
Definition c_seq (name : string) : cdesc :=
  mkcdesc name name true false [mkfdesc "seq" FReq] []
          ["seq"] [] ["seq"] [] ["seq"] true name ["seq"] []
          [APlain "seq" SFirst] [APlain "seq" SLast] [] None [] [].
Definition all_classes : list cdesc := classes ++ [c_seq "NumberAddExpr"; c_seq "NumberMulExpr"].

(* full structural comparison (everything except ids and store ids) *)
Fixpoint node_same (a b : node) {struct a} : bool :=
  match a, b with
  | Leaf x, Leaf y => tk_eqb x y
  | Tree ca _ ta ka da, Tree cb _ tb kb db =>
    String.eqb ca cb && toks_eqb ta tb
    && list_eqb (fun x y => String.eqb (fst x) (fst y) && String.eqb (snd x) (snd y)) da db
    && Nat.eqb (length ka) (length kb)
    && (fix go (k1 : list (string * slot)) (k2 : list (string * slot)) : bool :=
          match k1, k2 with
          | [], [] => true
          | (n1, s1) :: r1, (n2, s2) :: r2 =>
            String.eqb n1 n2
            && match s1, s2 with
               | SReq x, SReq y => node_same x y
               | SOpt None, SOpt None => true
               | SOpt (Some x), SOpt (Some y) => node_same x y
               | SRep _ t1 p1 i1, SRep _ t2 p2 i2 =>
                 toks_eqb t1 t2 && tk_eqb p1 p2
                 && (fix items (l1 l2 : list node) : bool :=
                       match l1, l2 with
                       | [], [] => true
                       | x :: q1, y :: q2 => node_same x y && items q1 q2
                       | _, _ => false
                       end) i1 i2
               | SSeq i1, SSeq i2 =>
                 (fix items (l1 l2 : list node) : bool :=
                    match l1, l2 with
                    | [], [] => true
                    | x :: q1, y :: q2 => node_same x y && items q1 q2
                    | _, _ => false
                    end) i1 i2
               | _, _ => false
               end
            && go r1 r2
          | _, _ => false
          end) ka kb
  | _, _ => false
  end.

Inductive tcase :=
| TEq (a b : node) (impl : bool)                         (* a == b on the implementation *)
| TBorder (a : node) (first last : Z)                    (* ids of a.first_token / a.last_token *)
| TCopy (a copy : node) (idmap : list (Z * Z))           (* copy.deepcopy(a): old id -> new id *)
| TReattach (a : node) (new_sid : Z) (after : node).     (* a.reattach(store) *)

Fixpoint assoc (m : list (Z * Z)) (k : Z) : Z :=
  match m with [] => -1 | (a, b) :: r => if (a =? k)%Z then b else assoc r k end.

Definition border_id (sd : side) (n : node) : Z :=
  match border all_classes 64 sd n with Some t => k_id t | None => -1 end.

Definition ids_eqb (a b : list tk) := list_eqb (fun x y => (k_id x =? k_id y)%Z) a b.

Definition check_case (c : tcase) : bool :=
  match c with
  | TEq a b impl => Bool.eqb (node_eq all_classes a b) impl
  | TBorder a f l => (border_id SFirst a =? f)%Z && (border_id SLast a =? l)%Z
  | TCopy a cp m =>
    let mine := clone all_classes 0 (fun t => mktk (assoc m (k_id t)) (k_rule t) (k_text t)) a in
    node_same mine cp && ids_eqb (leaves mine) (leaves cp)
    && list_eqb Z.eqb (sids mine) (sids cp)
  | TReattach a new after =>
    let mine := reattach all_classes new a in
    node_same mine after && list_eqb Z.eqb (sids mine) (sids after)
  end.

(* The C05 statement (TreeWF.WF, via its sound checker wf_b) evaluated on a dumped implementation
   state. `store` = Some (all tokens of the node's token store, in order) asks in addition that the
   node is self-contained: its tokens are the whole store up to invisible tokens around them
   (treewalk.wf_problems(expect_whole_store=True)); None = only WF of the node within its own span. *)
Inductive wcase :=
| TWf (a : node) (store : option (list tk)).

Definition check_wcase (c : wcase) : bool :=
  match c with
  | TWf a store =>
    conforms all_classes a && wf_b all_classes a
    && match store with None => true | Some st => whole_store_b a st end
  end.
