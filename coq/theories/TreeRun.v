(* Glue for the correspondence of the generic tree model with the implementation. The harness dumps
   real model objects as `node` terms (ids = Python object identities renumbered, toks = `.tokens`). *)
From AB Require Import Desc Generated Tree TreeDefs TreeWF TreeEdit.
From Coq Require Import ZArith.
Open Scope list_scope.

(* hand-written tree classes: number_add_expr.py / number_mul_expr.py (one sequence field) *)
Definition c_seq (name : string) : cdesc :=
  mkcdesc name name true false [mkfdesc "seq" FReq] []
          ["seq"] [] ["seq"] [] ["seq"] true name ["seq"] []
          [APlain "seq" SFirst] [APlain "seq" SLast] [] None [] [].
Definition all_classes : list cdesc := classes ++ [c_seq "NumberAddExpr"; c_seq "NumberMulExpr"].

(* full structural comparison (everything except ids and store ids) *)
Fixpoint node_same (a b : node) {struct a} : bool :=
  match a, b with
  | Leaf x, Leaf y => tk_eqb x y
  | Tree ca _ ta ka da, Tree cb _ tb kb db =>
    String.eqb ca cb && toks_eqb ta tb
    && list_eqb (fun x y => String.eqb (fst x) (fst y) && String.eqb (snd x) (snd y)) da db
    && Nat.eqb (length ka) (length kb)
    && (fix go (k1 : list (string * slot)) (k2 : list (string * slot)) : bool :=
          match k1, k2 with
          | [], [] => true
          | (n1, s1) :: r1, (n2, s2) :: r2 =>
            String.eqb n1 n2
            && match s1, s2 with
               | SReq x, SReq y => node_same x y
               | SOpt None, SOpt None => true
               | SOpt (Some x), SOpt (Some y) => node_same x y
               | SRep _ t1 p1 i1, SRep _ t2 p2 i2 =>
                 toks_eqb t1 t2 && tk_eqb p1 p2
                 && (fix items (l1 l2 : list node) : bool :=
                       match l1, l2 with
                       | [], [] => true
                       | x :: q1, y :: q2 => node_same x y && items q1 q2
                       | _, _ => false
                       end) i1 i2
               | SSeq i1, SSeq i2 =>
                 (fix items (l1 l2 : list node) : bool :=
                    match l1, l2 with
                    | [], [] => true
                    | x :: q1, y :: q2 => node_same x y && items q1 q2
                    | _, _ => false
                    end) i1 i2
               | _, _ => false
               end
            && go r1 r2
          | _, _ => false
          end) ka kb
  | _, _ => false
  end.

Inductive tcase :=
| TEq (a b : node) (impl : bool)                         (* a == b on the implementation *)
| TBorder (a : node) (first last : Z)                    (* ids of a.first_token / a.last_token *)
| TCopy (a copy : node) (idmap : list (Z * Z))           (* copy.deepcopy(a): old id -> new id *)
| TReattach (a : node) (new_sid : Z) (after : node).     (* a.reattach(store) *)

Fixpoint assoc (m : list (Z * Z)) (k : Z) : Z :=
  match m with [] => -1 | (a, b) :: r => if (a =? k)%Z then b else assoc r k end.

Definition border_id (sd : side) (n : node) : Z :=
  match border all_classes 64 sd n with Some t => k_id t | None => -1 end.

Definition ids_eqb (a b : list tk) := list_eqb (fun x y => (k_id x =? k_id y)%Z) a b.

Definition check_case (c : tcase) : bool :=
  match c with
  | TEq a b impl => Bool.eqb (node_eq all_classes a b) impl
  | TBorder a f l => (border_id SFirst a =? f)%Z && (border_id SLast a =? l)%Z
  | TCopy a cp m =>
    let mine := clone all_classes 0 (fun t => mktk (assoc m (k_id t)) (k_rule t) (k_text t)) a in
    node_same mine cp && ids_eqb (leaves mine) (leaves cp)
    && list_eqb Z.eqb (sids mine) (sids cp)
  | TReattach a new after =>
    let mine := reattach all_classes new a in
    node_same mine after && list_eqb Z.eqb (sids mine) (sids after)
  end.

(* The C05 statement (TreeWF.WF, via its sound checker wf_b) evaluated on a dumped implementation
   state. `store` = Some (all tokens of the node's token store, in order) asks in addition that the
   node is self-contained: its tokens are the whole store up to invisible tokens around them
   (treewalk.wf_problems(expect_whole_store=True)); None = only WF of the node within its own span. *)
Inductive wcase :=
| TWf (a : node) (store : option (list tk)).

Definition check_wcase (c : wcase) : bool :=
  match c with
  | TWf a store =>
    conforms all_classes a && wf_b all_classes a
    && match store with None => true | Some st => whole_store_b a st end
  end.

(* Tree-level edits of the model (TreeEdit.plug / insert_item / remove_item) against real edits: `before`
   and `after` are dumps of the same root with ONE Dumper (token and store numbering shared), `p` the path
   from the root to the node that was replaced (TPlug) or to the model owning the repeated field `f`
   (TInsert / TRemove), `i` the index in Repeated.items. The new sub-tree / the inserted item and its
   separator tokens are read off `after`. *)
Inductive ecase :=
| TPlug (before : node) (p : path) (after : node)
| TInsert (before : node) (p : path) (f : string) (i : nat) (after : node)
| TRemove (before : node) (p : path) (f : string) (i : nat) (after : node).

Definition tree_same (r a : node) : bool :=
  node_same r a && ids_eqb (node_toks r) (node_toks a) && ids_eqb (leaves r) (leaves a)
  && list_eqb Z.eqb (sids r) (sids a)
  && list_eqb ids_eqb (map unit_toks (subunits r)) (map unit_toks (subunits a)).

(* the inserted item and the separator tokens put before it, as found in the tree after the edit *)
Definition observed_insert (after : node) (p : path) (f : string) (i : nat) : option (list tk * node) :=
  match select after p with
  | Some n =>
    match node_rep n f with
    | Some (_, rt, ph, items) =>
      match nth_error items i with
      | Some y =>
        match after_unit rt (prev_unit ph items i), node_toks y with
        | Some a, x :: _ => match find_off x rt with Some b => Some (slice rt a b, y) | None => None end
        | _, _ => None
        end
      | None => None
      end
    | None => None
    end
  | None => None
  end.

Definition check_ecase (c : ecase) : bool :=
  match c with
  | TPlug b p a =>
    match select a p with
    | Some new => match plug b p new with Some r => tree_same r a | None => false end
    | None => false
    end
  | TInsert b p f i a =>
    match observed_insert a p f i with
    | Some (seps, y) => match insert_item b p f i seps y with Some r => tree_same r a | None => false end
    | None => false
    end
  | TRemove b p f i a =>
    match remove_item b p f i with Some (_, r) => tree_same r a | None => false end
  end
  && match c with TPlug b _ a | TInsert b _ _ _ a | TRemove b _ _ _ a => hwf_b all_classes b && hwf_b all_classes a end.

(* Optional fields (TreeEdit.create_opt / remove_opt) against real `model.raw_x = value` / `model.raw_x = None`:
   `before` and `after` are dumps of the same root with ONE Dumper, `p` the path to the model owning the optional
   field `f`. The new child and the separator tokens between it and the pivot are read off `after`; the separator
   texts must be the ones of the field declaration (FOptL / FOptR seps). *)
Inductive ocase :=
| TCreateOpt (before : node) (p : path) (f : string) (after : node)
| TRemoveOpt (before : node) (p : path) (f : string) (after : node).

Definition observed_create (after : node) (p : path) (f : string) : option (fkind * list tk * node) :=
  match select after p with
  | Some (Tree c s T kids d) =>
    match kid kids f, opt_pivot all_classes (Tree c s T kids d) f with
    | Some (SOpt (Some y)), Some (k, pv) =>
      match k with
      | FOptL _ =>          (* pivot, separators, child *)
        match find_off pv T, node_toks y with
        | Some a, x :: _ => match find_off x T with Some b => Some (k, slice T (S a) b, y) | None => None end
        | _, _ => None
        end
      | FOptR _ =>          (* child, separators, pivot *)
        match after_unit T (node_toks y), find_off pv T with
        | Some a, Some b => Some (k, slice T a b, y)
        | _, _ => None
        end
      | _ => None
      end
    | _, _ => None
    end
  | _ => None
  end.

Definition seps_match (k : fkind) (seps : list tk) : bool :=
  match k with
  | FOptL l | FOptR l => list_eqb String.eqb (map k_text seps) l
  | _ => false
  end.

Definition check_ocase (c : ocase) : bool :=
  match c with
  | TCreateOpt b p f a =>
    match observed_create a p f with
    | Some (k, seps, y) =>
      seps_match k seps
      && match create_opt all_classes b p f seps y with Some r => tree_same r a | None => false end
    | None => false
    end
  | TRemoveOpt b p f a =>
    match remove_opt all_classes b p f with Some (_, r) => tree_same r a | None => false end
  end
  && match c with TCreateOpt b _ _ a | TRemoveOpt b _ _ a => hwf_b all_classes b && hwf_b all_classes a end.

(* check_ecase with the observation of an insertion at index 0 of a NON-EMPTY list corrected: there the new separators
   FOLLOW the new item (rep_insert_B), they are the tokens between its end and the next item (observed_insert reads
   the tokens before the item, which is right in every other case). In addition the separator texts must be the ones
   of the field declaration: `separators_before` (when declared) for the first item of an empty list, `separators`
   otherwise. *)
Definition observed_insert2 (after : node) (p : path) (f : string) (i : nat) : option (list tk * node) :=
  match i, select after p with
  | O, Some n =>
    match node_rep n f with
    | Some (_, rt, ph, y :: z :: _) =>
      match after_unit rt (node_toks y), node_toks z with
      | Some a, x :: _ => match find_off x rt with Some b => Some (slice rt a b, y) | None => None end
      | _, _ => None
      end
    | _ => observed_insert after p f i
    end
  | _, _ => observed_insert after p f i
  end.

Definition rep_seps_match (before : node) (p : path) (f : string) (seps : list tk) : bool :=
  match select before p with
  | Some (Tree c _ _ kids _) =>
    match find_class all_classes c, kid kids f with
    | Some dd, Some (SRep _ _ _ items) =>
      match find_field (c_fields dd) f with
      | Some fd =>
        match f_kind fd with
        | FRep l lb =>
          list_eqb String.eqb (map k_text seps)
                   (match items, lb with [], Some l' => l' | _, _ => l end)
        | _ => false
        end
      | None => false
      end
    | _, _ => false
    end
  | _ => false
  end.

Definition check_ecase2 (c : ecase) : bool :=
  match c with
  | TInsert b p f i a =>
    match observed_insert2 a p f i with
    | Some (seps, y) =>
      rep_seps_match b p f seps
      && match insert_item b p f i seps y with Some r => tree_same r a | None => false end
    | None => false
    end
    && hwf_b all_classes b && hwf_b all_classes a
  | _ => check_ecase c
  end.
