(* _splice refines the list splice and preserves the invariant; never raises for valid arguments. *)
From AB Require Export StoreSplice.
From Coq Require Import ZifyBool.

Theorem splice__spec LF s tokens si sj ei ej bs be s' r : 1 <= LF -> Inv s ->
  nth_error (s_blocks s) si = Some bs -> nth_error (s_blocks s) ei = Some be ->
  (sj <= length (toks s bs))%nat -> (ej <= length (toks s be))%nat ->
  (si < ei \/ (si = ei /\ sj <= ej))%nat ->
  NoDup tokens ->
  let F n := length (flat_map (toks s) (firstn n (s_blocks s))) in
  let p := (F si + sj)%nat in let q := (F ei + ej)%nat in
  (forall t, In t tokens -> free s t \/ In t (firstn (q - p) (skipn p (abs s)))) ->
  splice_ LF s tokens (Z.of_nat si, Z.of_nat sj) (Z.of_nat ei, Z.of_nat ej) = (s', r) ->
  r = Ok tt /\ Inv s' /\ abs s' = firstn p (abs s) ++ tokens ++ skipn q (abs s) /\
  (forall t, txt s' t = txt s t) /\ s_id s' = s_id s /\
  (forall t, ~ In t (abs s) -> ~ In t tokens -> raw s' t = raw s t) /\
  (forall t, In t (firstn (q - p) (skipn p (abs s))) -> ~ In t tokens -> raw s' t = None).
Proof.
  intros HLF [I L] Hbs Hbe Hsj Hej Hord NDt F p q Hvf H.
  unfold splice_ in H. cbv beta iota zeta in H.
  assert (pair_lt (Z.of_nat ei, Z.of_nat ej) (Z.of_nat si, Z.of_nat sj) = false) as Eord by (unfold pair_lt; cbn [fst snd]; lia).
  rewrite Eord, (has_dup_false tokens NDt) in H.
  rewrite (guard_ok s tokens si sj ei ej bs be I Hbs Hbe Hsj Hej Hvf) in H.
  assert (forall t, In t tokens -> ~ In t (abs s) \/ In t (firstn (q - p) (skipn p (abs s)))) as Hv.
  { intros t Ht. destruct (Hvf t Ht) as [Hf|?]; [left; apply (inv_free_not_in s t I (free_hnd s t Hf))|right; assumption]. }
  pose proof (g_ndt _ _ I) as NDabs.
  pose proof (nth_error_in_len _ _ _ Hbs) as Lsi. pose proof (nth_error_in_len _ _ _ Hbe) as Lei.
  destruct (Z.eqb_spec (Z.of_nat si) (Z.of_nat ei)) as [Eq|Ne].
  - (* single block *)
    assert (si = ei) as <- by lia. rewrite Hbs in Hbe. injection Hbe as <-.
    assert (sj <= ej)%nat as Lj by lia.
    unfold blocks_at in H. rewrite py_nth_nat, Hbs in H by assumption.
    fold (toks s bs) in H.
    replace (Z.of_nat ej - Z.of_nat sj) with (Z.of_nat (ej - sj)) in H by lia.
    rewrite !zfirstn_nat, !zskipn_nat, list_setslice_nat in H by lia.
    set (T := toks s bs) in *.
    set (R := firstn (ej - sj) (skipn sj T)) in *.
    set (NT := firstn sj T ++ tokens ++ skipn ej T) in *.
    set (S2 := set_blk (with_toks s (unhandle (s_toks s) R)) bs _) in H.
    set (pre := firstn si (s_blocks s)). set (post := skipn (S si) (s_blocks s)).
    assert (abs s = flat_map (toks s) pre ++ T ++ flat_map (toks s) post) as Eabs by (apply flat_split; exact Hbs).
    assert (firstn p (abs s) = flat_map (toks s) pre ++ firstn sj T) as Ep
      by (unfold p, F, abs; apply flat_firstn_at; assumption).
    assert (skipn q (abs s) = skipn ej T ++ flat_map (toks s) post) as Eq'
      by (unfold q, F, abs; apply flat_skipn_at; assumption).
    assert (skipn p (abs s) = skipn sj T ++ flat_map (toks s) post) as Esp
      by (unfold p, F, abs; apply flat_skipn_at; assumption).
    assert (firstn (q - p) (skipn p (abs s)) = R) as Erange.
    { rewrite Esp. replace (q - p)%nat with (ej - sj)%nat by (unfold p, q; lia).
      rewrite firstn_app, skipn_length. replace (ej - sj - (length T - sj))%nat with 0%nat by lia.
      cbn [firstn]. apply app_nil_r. }
    assert (forall t, In t tokens -> ~ In t (abs s) \/ In t R) as Hv'.
    { intros t Ht. rewrite <- Erange. apply Hv; exact Ht. }
    assert (p <= q)%nat as Lpq by (unfold p, q; lia).
    assert (sj <= ej <= length T)%nat as Hj by lia.
    pose proof (single_pre s si bs sj ej tokens I Hbs Hj NDt Hv') as P. cbv zeta in P. fold T R NT in P. fold S2 in P.
    destruct P as (I2 & Ea2 & Tb & Hsz2 & Hh2). fold pre post in Ea2.
    assert (In bs (s_blocks S2)) as Hin2 by (eapply nth_error_In; exact Hbs).
    assert (zlen (abs S2) = s_len s + (zlen tokens - Z.of_nat (ej - sj))) as Elen.
    { rewrite L, Ea2, Eabs. unfold NT. rewrite !zlen_app. unfold zlen. rewrite firstn_length, skipn_length. lia. }
    assert (abs S2 = firstn p (abs s) ++ tokens ++ skipn q (abs s)) as Efin.
    { rewrite Ea2, Ep, Eq'. unfold NT. rewrite <- !app_assoc. reflexivity. }
    assert (forall sX, (forall t, ~ In t (abs S2) -> raw sX t = raw S2 t) ->
              (forall t, ~ In t (abs s) -> ~ In t tokens -> raw sX t = raw s t) /\
              (forall t, In t (firstn (q - p) (skipn p (abs s))) -> ~ In t tokens -> raw sX t = None)) as Frames.
    { intros sX HX. destruct (splice_frames (abs s) tokens p q NDabs Lpq) as [N1 N2]. rewrite <- Efin in N1, N2. split.
      - intros t Hl Ht. rewrite (HX t (N1 t Hl Ht)), Hh2. destruct (in_dec Pos.eq_dec t R) as [Hr|]; [|reflexivity].
        exfalso. apply Hl. rewrite <- Erange in Hr. apply in_firstn, in_skipn in Hr. exact Hr.
      - intros t Hr Ht. rewrite (HX t (N2 t Hr Ht)), Hh2. rewrite Erange in Hr.
        destruct (in_dec Pos.eq_dec t R); [reflexivity|contradiction]. }
    match type of H with context [if ?c then _ else _] => destruct c eqn:EC end.
    + (* fast path *)
      pose proof (fast_path s si bs sj ej tokens I Hbs Hj NDt Hv') as Q. cbv zeta in Q. fold T R NT in Q. fold S2 in Q.
      match type of H with (with_len ?S3 _, _) = _ => set (S3f := S3) in * end.
      destruct Q as (I3 & Ea3 & Hsz3 & Hfr3).
      * intros ENT. apply andb_prop in EC as [EC _]. apply andb_prop in EC as [_ EC]. rewrite ENT in EC.
        apply orb_prop in EC as [EC|EC].
        -- exfalso. assert (0 <= HALF LF) by (unfold HALF; apply Z.div_pos; lia). cbn in EC. lia.
        -- change (s_blocks S2) with (s_blocks s) in EC. unfold zlen in EC.
           pose proof (blocks_split_at s si bs Hbs) as Es. rewrite Es in EC |- *. rewrite !app_length in EC. cbn [length] in EC.
           destruct (firstn si (s_blocks s)), (skipn (S si) (s_blocks s)); cbn [length] in EC; try lia. reflexivity.
      * apply andb_prop in EC as [_ EC]. unfold blnl. lia.
      * assert (s' = with_len S3f (s_len S3f + (zlen tokens - Z.of_nat (ej - sj))) /\ r = Ok tt) as [-> ->]
          by (injection H as E1 E2; split; symmetry; [exact E1|exact E2]).
        split; [reflexivity|]. split; [split; [apply InvG_with_len; exact I3|]|split].
        -- change (abs (with_len S3f (s_len S3f + (zlen tokens - Z.of_nat (ej - sj))))) with (abs S3f).
           change (s_len (with_len S3f (s_len S3f + (zlen tokens - Z.of_nat (ej - sj))))) with (s_len s + (zlen tokens - Z.of_nat (ej - sj))).
           rewrite Ea3. symmetry. exact Elen.
        -- change (abs (with_len S3f (s_len S3f + (zlen tokens - Z.of_nat (ej - sj))))) with (abs S3f). rewrite Ea3. exact Efin.
        -- split; [intro t; apply (Hsz3 t)|]. split; [reflexivity|].
           apply (Frames (with_len S3f (s_len S3f + (zlen tokens - Z.of_nat (ej - sj))))).
           intros t Hn. change (raw (with_len S3f (s_len S3f + (zlen tokens - Z.of_nat (ej - sj)))) t) with (raw S3f t).
           unfold raw. rewrite Hfr3; [reflexivity|]. intro Hin. apply Hn. rewrite Ea2. apply in_or_app; right; apply in_or_app; left; exact Hin.
    + (* _update_block *)
      destruct (update_block LF S2 bs) as [s4 r4] eqn:EU.
      destruct (update_block_spec LF S2 bs s4 r4 HLF I2 Hin2 EU) as (-> & I4 & Ea4 & Hf4 & Hfr4 & Hl4 & Hid4).
      assert (s' = with_len s4 (s_len s4 + (zlen tokens - Z.of_nat (ej - sj))) /\ r = Ok tt) as [-> ->]
        by (injection H as E1 E2; split; symmetry; [exact E1|exact E2]).
      split; [reflexivity|]. split; [split; [apply InvG_with_len; exact I4|]|split].
      * change (abs (with_len s4 (s_len s4 + (zlen tokens - Z.of_nat (ej - sj))))) with (abs s4).
        change (s_len (with_len s4 (s_len s4 + (zlen tokens - Z.of_nat (ej - sj))))) with (s_len s4 + (zlen tokens - Z.of_nat (ej - sj))).
        rewrite Ea4, Hl4. symmetry. exact Elen.
      * change (abs (with_len s4 (s_len s4 + (zlen tokens - Z.of_nat (ej - sj))))) with (abs s4). rewrite Ea4. exact Efin.
      * split; [intro t; change (txt (with_len s4 (s_len s4 + (zlen tokens - Z.of_nat (ej - sj)))) t) with (txt s4 t);
                 rewrite (proj2 (Hf4 t)); apply (Hsz2 t)|].
        split; [exact Hid4|].
        apply (Frames (with_len s4 (s_len s4 + (zlen tokens - Z.of_nat (ej - sj))))).
        intros t Hn. change (raw (with_len s4 (s_len s4 + (zlen tokens - Z.of_nat (ej - sj)))) t) with (raw s4 t).
        unfold raw. rewrite (Hfr4 t Hn). reflexivity.
  - (* several blocks *)
    assert (si < ei)%nat as Lt by lia.
    unfold blocks_at in H. rewrite !py_nth_nat, Hbs, Hbe in H by assumption.
    unfold bare_block in H. cbv beta iota zeta in H. cbn [s_blocks s_heap s_toks s_len s_next with_toks] in H.
    fold (toks s bs) (toks s be) in H. change (fun b : positive => b_toks (bget (s_heap s) b)) with (toks s) in H.
    replace (Z.of_nat ei - (Z.of_nat si + 1)) with (Z.of_nat (ei - S si)) in H by lia.
    replace (Z.of_nat si + 1) with (Z.of_nat (S si)) in H by lia.
    replace (Z.of_nat ei + 1) with (Z.of_nat (S ei)) in H by lia.
    rewrite !zfirstn_nat, !zskipn_nat, list_setslice_nat in H by lia.
    set (pre := firstn si (s_blocks s)) in *. set (post := skipn (S ei) (s_blocks s)) in *.
    set (mids := firstn (ei - S si) (skipn (S si) (s_blocks s))) in *.
    set (midtoks := flat_map (toks s) mids) in *.
    set (Tb := toks s bs) in *. set (Te := toks s be) in *.
    set (NT := firstn sj Tb ++ tokens ++ skipn ej Te) in *.
    match type of H with context [py_nth (s_blocks ?S) _] => set (S3' := S) in * end. set (nb := s_next s) in *.
    pose proof (mid_split _ _ _ _ _ Lt Hbs Hbe) as E. fold pre post mids in E.
    assert (abs s = flat_map (toks s) pre ++ (Tb ++ midtoks ++ Te) ++ flat_map (toks s) post) as Eabs.
    { unfold abs. rewrite E at 1. rewrite !flat_map_app. cbn [flat_map]. rewrite flat_map_app. cbn [flat_map].
      rewrite app_nil_r. rewrite <- !app_assoc. reflexivity. }
    assert (firstn p (abs s) = flat_map (toks s) pre ++ firstn sj Tb) as Ep
      by (unfold p, F, abs; apply flat_firstn_at; assumption).
    assert (skipn q (abs s) = skipn ej Te ++ flat_map (toks s) post) as Eq'
      by (unfold q, F, abs; apply flat_skipn_at; assumption).
    assert (F ei = F si + length Tb + length midtoks)%nat as EF.
    { unfold F. replace ei with (S si + (ei - S si))%nat at 1 by lia. rewrite firstn_add_split, flat_map_app, app_length.
      rewrite (flat_firstn_S _ _ si bs Hbs), app_length. reflexivity. }
    assert (firstn (q - p) (skipn p (abs s)) = skipn sj Tb ++ midtoks ++ firstn ej Te) as Erange.
    { assert (skipn p (abs s) = skipn sj Tb ++ midtoks ++ Te ++ flat_map (toks s) post) as Esp.
      { rewrite Eabs. unfold p. fold pre. change (F si) with (length (flat_map (toks s) pre)).
        rewrite skipn_app, skipn_all2 by lia. cbn [app].
        replace (length (flat_map (toks s) pre) + sj - length (flat_map (toks s) pre))%nat with sj by lia.
        rewrite <- !app_assoc, skipn_app. replace (sj - length Tb)%nat with 0%nat by lia. reflexivity. }
      rewrite Esp.
      replace (q - p)%nat with (length (skipn sj Tb) + (length midtoks + ej))%nat
        by (unfold p, q; rewrite skipn_length; unfold Tb in *; lia).
      rewrite firstn_app_2, firstn_app_2, firstn_app. replace (ej - length Te)%nat with 0%nat by lia.
      cbn [firstn]. rewrite app_nil_r. reflexivity. }
    assert (forall t, In t tokens -> ~ In t (abs s) \/ In t (skipn sj Tb ++ midtoks ++ firstn ej Te)) as Hv'.
    { intros t Ht. rewrite <- Erange. apply Hv; exact Ht. }
    assert (p <= q)%nat as Lpq by (unfold p, q, Tb in *; lia).
    assert (InvG (eq nb) S3' /\
            abs S3' = flat_map (toks s) pre ++ NT ++ flat_map (toks s) post /\
            nth_error (s_blocks S3') si = Some nb /\
            (forall t, tsz (s_toks S3') t = tsz (s_toks s) t /\ txt S3' t = txt s t) /\
            s_len S3' = s_len s /\ s_id S3' = s_id s /\
            (forall t, raw S3' t = if in_dec Pos.eq_dec t (skipn sj Tb ++ midtoks ++ firstn ej Te) then None else raw s t))
      as (I3 & Ea3 & Hn3 & Hsz3 & Hl3 & Hid3 & Hraw3)
      by exact (multi_pre s si ei bs be sj ej tokens I Lt Hbs Hbe Hsj Hej NDt Hv').
    rewrite py_nth_nat, Hn3 in H by (eapply nth_error_in_len; exact Hn3).
    destruct (update_block LF S3' nb) as [s4 r4] eqn:EU.
    assert (In nb (s_blocks S3')) as Hin3 by (eapply nth_error_In; exact Hn3).
    destruct (update_block_spec LF S3' nb s4 r4 HLF I3 Hin3 EU) as (-> & I4 & Ea4 & Hf4 & Hfr4 & Hl4 & Hid4).
    match type of H with (with_len s4 ?n, _) = _ => set (n4 := n) in * end.
    assert (s' = with_len s4 n4 /\ r = Ok tt) as [-> ->] by (injection H as E1 E2; split; symmetry; [exact E1|exact E2]).
    split; [reflexivity|]. split; [split; [apply InvG_with_len; exact I4|]|split].
    + change (abs (with_len s4 n4)) with (abs s4). change (s_len (with_len s4 n4)) with n4.
      rewrite Ea4, Ea3. unfold n4. rewrite Hl4, Hl3, L, Eabs. unfold NT. rewrite !zlen_app. unfold zlen.
      rewrite firstn_length, skipn_length. unfold Tb, Te in *. lia.
    + change (abs (with_len s4 n4)) with (abs s4). rewrite Ea4, Ea3, Ep, Eq'. unfold NT. rewrite <- !app_assoc. reflexivity.
    + assert (abs S3' = firstn p (abs s) ++ tokens ++ skipn q (abs s)) as Efin
        by (rewrite Ea3, Ep, Eq'; unfold NT; rewrite <- !app_assoc; reflexivity).
      split; [intro t; change (txt (with_len s4 n4) t) with (txt s4 t); rewrite (proj2 (Hf4 t)); apply (Hsz3 t)|].
      split; [change (s_id (with_len s4 n4)) with (s_id s4); congruence|].
      destruct (splice_frames (abs s) tokens p q NDabs Lpq) as [N1 N2]. rewrite <- Efin in N1, N2. split.
      * intros t Hl Ht. change (raw (with_len s4 n4) t) with (raw s4 t). unfold raw at 1. rewrite (Hfr4 t (N1 t Hl Ht)). fold (raw S3' t).
        rewrite Hraw3. destruct (in_dec Pos.eq_dec t _) as [Hr|]; [|reflexivity].
        exfalso. apply Hl. rewrite <- Erange in Hr. apply in_firstn, in_skipn in Hr. exact Hr.
      * intros t Hr Ht. change (raw (with_len s4 n4) t) with (raw s4 t). unfold raw at 1. rewrite (Hfr4 t (N2 t Hr Ht)). fold (raw S3' t).
        rewrite Hraw3. rewrite Erange in Hr. destruct (in_dec Pos.eq_dec t _); [reflexivity|contradiction].
Qed.
