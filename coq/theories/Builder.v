(* L3 / C01: autobean_refactor/parser.py, class ModelBuilder, transcribed statement by statement over
   an abstract lark tree and the post-lexed stream. lark's LALR engine is NOT modelled: the tree is an
   input. A tree leaf is the stream position that [_token_to_index[id(token)]] resolves it to
   (-1 when the object is not in the stream: KeyError).

   Builder state = (self._cursor, self._built_tokens) + the log of stream positions materialised as tree
   leaves (newest first; it is the list of values [_build_token] was called with, an output, not read by
   the code). Exceptions are values and keep the state written so far.

   Not modelled (assumed, validated by the correspondence on every case): [from_raw_text(s).raw_text = s]
   (C12), [from_parsed_children] does not touch [_built_tokens], TokenStore.insert_after(None, l) on the
   empty store gives the sequence l and [iter(a, b)] is the list segment (C07). *)
From AB Require Import Prelude PostLex.

(* what [_build_tree] / [_build_repeated_node] test on a child tree's [data] *)
Inductive nkind :=
| NModel        (* data in models.TREE_MODELS *)
| NRepeated     (* data in ('repeated', 'repeated_sep') *)
| NIndent       (* data in ('indent', 'indent2') *)
| NSkip         (* data.endswith('_') *)
| NUnknown.     (* anything else: TREE_MODELS[data] raises KeyError *)

Inductive ltree :=
| LTok (pos : Z)
| LNone
| LNode (k : nkind) (cs : list ltree).

(* what the builder returns: built tokens are named by their index in [_built_tokens] *)
Inductive btree :=
| BTok (idx : Z)
| BNone
| BRep (ph : Z) (items : list btree)        (* internal.Repeated(store, items, placeholder) *)
| BModel (cs : list btree).                 (* model_type.from_parsed_children(store, *children) *)

Record benv := mkenv {
  toks : list lexeme;       (* self._tokens *)
  ignored : list Z;         (* parser._IGNORED_TOKENS *)
  tmodels : list Z          (* keys of models.TOKEN_MODELS *)
}.

Record bstate := mkb { cur : Z; built : list lexeme; leaves : list Z }.

Definition M (A : Type) := bstate -> bstate * res A.
Definition ret {A} (a : A) : M A := fun st => (st, Ok a).
Definition raise {A} (e : exn) : M A := fun st => (st, Err e).
Definition bind {A B} (m : M A) (f : A -> M B) : M B :=
  fun st => match m st with
            | (st1, Ok a) => f a st1
            | (st1, Err e) => (st1, Err e)
            end.

Definition zmem (x : Z) (l : list Z) : bool := existsb (Z.eqb x) l.

(* l[a:b] for a >= 0, b >= 0 (empty when b <= a) *)
Definition py_slice {A} (l : list A) (a b : Z) : list A := zfirstn (b - a) (zskipn a l).

(* for token in self._tokens[self._cursor:cursor]: ... self._add_tokens([built_token]) *)
Fixpoint fix_gap_loop (tm : list Z) (l : list lexeme) (b : list lexeme) : list lexeme * option exn :=
  match l with
  | [] => (b, None)
  | t :: r =>
      if nonempty (ltx t)
      then (if zmem (lty t) tm                         (* models.TOKEN_MODELS[token.type] *)
            then fix_gap_loop tm r (b ++ [t])
            else (b, Some KeyError))
      else fix_gap_loop tm r b                         (* if not token.value: continue *)
  end.

Definition fix_gap (env : benv) (c : Z) : M unit := fun st =>
  match fix_gap_loop (tmodels env) (py_slice (toks env) (cur st) c) (built st) with
  | (b, Some e) => (mkb (cur st) b (leaves st), Err e)
  | (b, None) => (mkb c b (leaves st), Ok tt)          (* self._cursor = cursor *)
  end.

(* _build_token(token), token resolved to its stream position *)
Definition build_token (env : benv) (pos : Z) : M btree :=
  if pos <? 0 then raise KeyError                      (* self._token_to_index[id(token)] *)
  else
    bind (fix_gap env pos) (fun _ st =>
      match nth_error (toks env) (Z.to_nat pos) with
      | None => (st, Err IndexError)                   (* unreachable: pos is an index of self._tokens *)
      | Some t =>
          if zmem (lty t) (tmodels env)
          then (mkb (cur st + 1) (built st ++ [t]) (pos :: leaves st), Ok (BTok (zlen (built st))))
          else (st, Err KeyError)
      end).

(* the while loop of _build_indent: position of the INDENT lexeme to take, if any *)
Fixpoint scan_indent (ign : list Z) (l : list lexeme) (c : Z) : option Z :=
  match l with
  | [] => None
  | t :: r =>
      if nonempty (ltx t)
      then (if lty t =? T_INDENT then Some c
            else if negb (zmem (lty t) ign) then None  (* break *)
            else scan_indent ign r (c + 1))
      else scan_indent ign r (c + 1)
  end.

Definition build_indent (env : benv) : M btree := fun st =>
  match scan_indent (ignored env) (zskipn (cur st) (toks env)) (cur st) with
  | None => (st, Err ModelStuck)                       (* raise exceptions.UnexpectedInput *)
  | Some c => bind (fix_gap env c) (fun _ => build_token env c) st
  end.

(* _build_placeholder(_Floating.LEFT) *)
Definition build_placeholder : M Z := fun st =>
  (mkb (cur st) (built st ++ [(T_PLACEHOLDER, [])]) (leaves st), Ok (zlen (built st))).

(* _build_repeated_node, given _build_required_node *)
Definition build_repeated (rec : ltree -> M btree) (ics : list ltree) : M btree :=
  bind build_placeholder (fun ph =>
  bind ((fix items (l : list ltree) : M (list btree) :=
           match l with
           | [] => ret []
           | LNode NSkip _ :: r => items r
           | i :: r => bind (rec i) (fun x => bind (items r) (fun xs => ret (x :: xs)))
           end) ics) (fun xs =>
  ret (BRep ph xs))).

(* the for loop of _build_tree *)
Definition build_children (env : benv) (rec : ltree -> M btree) : list ltree -> M (list btree) :=
  fix go (cs : list ltree) : M (list btree) :=
    match cs with
    | [] => ret []
    | c :: r =>
        match c with
        | LNone => bind (go r) (fun xs => ret (BNone :: xs))
        | LNode NRepeated ics => bind (build_repeated rec ics) (fun x => bind (go r) (fun xs => ret (x :: xs)))
        | LNode NIndent _ => bind (build_indent env) (fun x => bind (go r) (fun xs => ret (x :: xs)))
        | LNode NSkip _ => go r
        | _ => bind (rec c) (fun x => bind (go r) (fun xs => ret (x :: xs)))
        end
    end.

(* _build_required_node (and _build_tree for a Tree) *)
Fixpoint build_required (env : benv) (t : ltree) {struct t} : M btree :=
  match t with
  | LTok pos => build_token env pos
  | LNone => raise AssertionError                      (* assert False *)
  | LNode NModel cs =>
      bind (build_children env (build_required env) cs) (fun xs => ret (BModel xs))
  | LNode _ _ => raise KeyError                        (* models.TREE_MODELS[tree.data] *)
  end.

(* H-order as a decidable predicate on the log (newest first): strictly increasing stream positions *)
Fixpoint leaves_ok (n : Z) (l : list Z) : bool :=
  match l with
  | [] => true
  | p :: r => (0 <=? p) && (p <? n)
              && (match r with [] => true | q :: _ => q <? p end) && leaves_ok n r
  end.

Definition st0 : bstate := mkb 0 [] [].

(* build(tree, model_type): the final store is _built_tokens *)
Definition build (env : benv) (t : ltree) : bstate * res btree :=
  match t with
  | LNode _ _ =>
      bind (build_required env t) (fun m =>
      bind (fix_gap env (zlen (toks env))) (fun _ => ret m)) st0
  | _ => (st0, Err ModelStuck)                         (* feed_eof() returns a lark.Tree *)
  end.

(* ---- the span of a built model: first_token / last_token ----
   Repeated: placeholder .. last item's last token (placeholder when empty).
   Generated classes and the number expressions: the first (last) present child's first (last) token.
   models/file.py: File overrides both with token_store.get_first() / get_last(). *)
Fixpoint first_some {A} (l : list (option A)) : option A :=
  match l with [] => None | Some x :: _ => Some x | None :: r => first_some r end.

Fixpoint last_some {A} (l : list (option A)) : option A :=
  match l with
  | [] => None
  | x :: r => match last_some r with Some y => Some y | None => x end
  end.

Fixpoint bfirst (b : btree) : option Z :=
  match b with
  | BTok i => Some i
  | BNone => None
  | BRep p _ => Some p
  | BModel cs => first_some (map bfirst cs)
  end.

Fixpoint blast (b : btree) : option Z :=
  match b with
  | BTok i => Some i
  | BNone => None
  | BRep p items =>                                    (* items[-1].last_token if items else placeholder *)
      match (fix lastb (l : list btree) : option Z :=
               match l with [] => None | [x] => blast x | _ :: r => lastb r end) items with
      | Some i => Some i
      | None => Some p
      end
  | BModel cs => last_some (map blast cs)
  end.

Definition root_span (is_file : bool) (store : list lexeme) (b : btree) : option (Z * Z) :=
  if is_file && negb (zlen store =? 0) then Some (0, zlen store - 1)
  else match bfirst b, blast b with Some a, Some z => Some (a, z) | _, _ => None end.

(* store.iter(first, last) as a segment of the token list, and printer.print_model *)
Definition seg {A} (l : list A) (a b : Z) : list A := py_slice l a (b + 1).
Definition print_span (store : list lexeme) (a b : Z) : str := txt (seg store a b).

(* all store indexes a built model refers to, in the order its parts were built *)
Fixpoint bidx (b : btree) : list Z :=
  match b with
  | BTok i => [i]
  | BNone => []
  | BRep p items => p :: flat_map bidx items
  | BModel cs => flat_map bidx cs
  end.

(* c is b or a model nested in b *)
Inductive subnode (c : btree) : btree -> Prop :=
| sub_refl : subnode c c
| sub_rep p items x : In x items -> subnode c x -> subnode c (BRep p items)
| sub_model cs x : In x cs -> subnode c x -> subnode c (BModel cs).
