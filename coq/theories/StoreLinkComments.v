(* Link for Comments.v (surrounding_comments.py / interleaving_comments.py): `splice d new ref del_end`,
   `iter_range` and the get_next / get_prev walks over `doc = list tok` are what the blocked store
   computes, through the id projection Pid t = P (t_id t).  The tokens re-inserted by _claim_comment /
   _shift_ignored come from the removed range itself, which is exactly the store's contract. *)
From AB Require Import StoreLink StoreRun.
From AB Require Comments.
From Coq Require Import ZifyBool.

Module C := Comments.
Notation CPid := (Pid C.t_id).

Lemma csplit_spec i d :
  match C.split_at i d with
  | Some (a, mb) => d = a ++ mb /\ (exists t r, mb = t :: r /\ C.t_id t = i) /\ ~ In i (map C.t_id a)
  | None => ~ In i (map C.t_id d)
  end.
Proof.
  induction d as [|x r IH]; cbn [C.split_at]; [intros []|].
  destruct (Z.eqb_spec (C.t_id x) i) as [E|N].
  - split; [reflexivity|]. split; [exists x, r; auto|intros []].
  - destruct (C.split_at i r) as [[a mb]|].
    + destruct IH as (-> & Hm & Ha). split; [reflexivity|]. split; [exact Hm|]. cbn [map]. intros [?|?]; [contradiction|auto].
    + cbn [map]. intros [?|?]; [contradiction|auto].
Qed.

(* the segment ref..del_end, as the model's own iter_range sees it *)
Lemma segment_of d ref del_end a mb x y b :
  C.split_at ref d = Some (a, mb) -> C.split_at del_end mb = Some (x, y :: b) ->
  d = a ++ (x ++ [y]) ++ b /\ C.iter_range d ref del_end = Some (x ++ [y]) /\
  (exists f, nth_error (x ++ [y]) 0 = Some f /\ C.t_id f = ref) /\
  nth_error (x ++ [y]) (length (x ++ [y]) - 1) = Some y /\ C.t_id y = del_end.
Proof.
  intros H1 H2. pose proof (csplit_spec ref d) as S1. rewrite H1 in S1. destruct S1 as (Ed & (t & r & Emb & Et) & _).
  pose proof (csplit_spec del_end mb) as S2. rewrite H2 in S2. destruct S2 as (Em & (t2 & r2 & E2 & Et2) & _).
  injection E2 as <- <-. split; [rewrite Ed, Em, <- !app_assoc; reflexivity|].
  split; [unfold C.iter_range; rewrite H1, H2; reflexivity|]. split; [|split; [|exact Et2]].
  - exists t. split; [|exact Et]. destruct x as [|x0 x]; cbn [app] in Em |- *; rewrite Emb in Em; injection Em as -> _; reflexivity.
  - rewrite app_length. cbn [length]. replace (length x + 1 - 1)%nat with (length x) by lia. apply nth_error_app_mid.
Qed.

Section CommentsLink.
Variable LF : Z.
Hypothesis HLF : 1 <= LF.
Variables (s : store) (d : C.doc).
Hypothesis II : Inv s.
Hypothesis Pure : pure s.
Hypothesis Rep : abs s = map CPid d.
Hypothesis Dpos : ids_pos C.t_id d.

Lemma c_in_store_iff z : 0 < z -> (In (P z) (abs s) <-> In z (map C.t_id d)).
Proof. intro Hz. rewrite Rep. apply in_ids_iff; assumption. Qed.

Theorem link_splice new ref del_end d' : ids_pos C.t_id new -> NoDup (map C.t_id new) ->
  (forall x, In x new -> ~ In (C.t_id x) (map C.t_id d) \/
      exists rng, C.iter_range d ref del_end = Some rng /\ In (C.t_id x) (map C.t_id rng)) ->
  C.splice d new ref del_end = Some d' ->
  let s' := fst (splice LF s (map CPid new) (Some (P ref)) (Some (P del_end))) in
  splice LF s (map CPid new) (Some (P ref)) (Some (P del_end)) = (s', Ok tt) /\ Inv s' /\
  abs s' = map CPid d' /\ (forall u, txt s' u = txt s u) /\ pure s'.
Proof.
  intros Np ND Hv H. unfold C.splice in H.
  destruct (C.split_at ref d) as [[a mb]|] eqn:H1; [|discriminate].
  destruct (C.split_at del_end mb) as [[x [|y b]]|] eqn:H2; try discriminate. injection H as <-.
  destruct (segment_of d ref del_end a mb x y b H1 H2) as (Ed & Eit & (f & Hf0 & Ef) & Hl0 & El).
  assert (P ref = CPid f) as -> by (unfold Pid; rewrite Ef; reflexivity).
  assert (P del_end = CPid y) as -> by (unfold Pid; rewrite El; reflexivity).
  assert (abs s = map CPid (a ++ (x ++ [y]) ++ b)) as Rep' by (rewrite Rep, Ed; reflexivity).
  apply (bridge_splice C.t_id LF HLF s II Pure a (x ++ [y]) b new f y Rep' Hf0 Hl0 (nodup_pid C.t_id new Np ND)).
  intros t Ht. assert (0 < C.t_id t) as Hpos by (unfold ids_pos in Np; rewrite Forall_forall in Np; apply Np; exact Ht).
  destruct (Hv t Ht) as [Hn|(rng & Er & Hin)].
  - left. unfold Pid. rewrite c_in_store_iff by assumption. exact Hn.
  - right. rewrite Eit in Er. injection Er as <-. unfold Pid.
    apply in_map_iff in Hin as (u & Eu & Hu). apply in_map_iff. exists u. split; [unfold Pid; rewrite Eu; reflexivity|exact Hu].
Qed.

(* a missing reference: the model is stuck (None), the store raises ValueError and is unchanged *)
Theorem link_splice_absent new ref del_end : 0 < ref -> 0 < del_end ->
  (~ In ref (map C.t_id d) \/ ~ In del_end (map C.t_id d)) ->
  C.splice d new ref del_end = None /\
  splice LF s (map CPid new) (Some (P ref)) (Some (P del_end)) = (s, Err ValueError).
Proof.
  intros Hr Hd H. unfold C.splice. pose proof (csplit_spec ref d) as S1.
  destruct (C.split_at ref d) as [[a mb]|].
  - destruct S1 as (Ed & (t & r & Emb & Et) & _).
    assert (In ref (map C.t_id d)) as Hin by (rewrite Ed, Emb, map_app; apply in_or_app; right; left; exact Et).
    destruct H as [H|H]; [contradiction|].
    pose proof (csplit_spec del_end mb) as S2. destruct (C.split_at del_end mb) as [[x mb2]|].
    + exfalso. destruct S2 as (Em & (t2 & r2 & E2 & Et2) & _). apply H. rewrite Ed, Em, E2, !map_app.
      apply in_or_app; right. apply in_or_app; right. left. exact Et2.
    + split; [reflexivity|]. apply (bridge_absent_end LF s II); rewrite c_in_store_iff by assumption; assumption.
  - split; [reflexivity|]. refine (proj1 (bridge_absent_ref LF s II (P ref) (map CPid new) (Some (P del_end)) _)).
    rewrite c_in_store_iff by assumption. exact S1.
Qed.

Theorem link_iter_range first last rng : C.iter_range d first last = Some rng -> rng <> [] ->
  iter_range s (P first) (P last) = Ok (map CPid rng).
Proof.
  intros H Hne. unfold C.iter_range in H.
  destruct (C.split_at first d) as [[a mb]|] eqn:H1; [|discriminate].
  destruct (C.split_at last mb) as [[x [|y b]]|] eqn:H2; try (injection H as <-; contradiction).
  injection H as <-.
  destruct (segment_of d first last a mb x y b H1 H2) as (Ed & _ & (f & Hf0 & Ef) & Hl0 & El).
  assert (P first = CPid f) as -> by (unfold Pid; rewrite Ef; reflexivity).
  assert (P last = CPid y) as -> by (unfold Pid; rewrite El; reflexivity).
  assert (abs s = map CPid (a ++ (x ++ [y]) ++ b)) as Rep' by (rewrite Rep, Ed; reflexivity).
  apply (bridge_iter C.t_id s II a (x ++ [y]) b f y Rep' Hf0 Hl0).
Qed.

(* one step of the get_next / get_prev chains that `walk` enumerates *)
Theorem link_walk_step start a t b : C.split_at start d = Some (a, t :: b) ->
  get_next s (P start) = Ok (option_map CPid (match b with [] => None | x :: _ => Some x end)) /\
  get_prev s (P start) = Ok (option_map CPid (match a with [] => None | x :: r => Some (last r x) end)) /\
  C.walk d start false = Some b /\ C.walk d start true = Some (rev a).
Proof.
  intro H. pose proof (csplit_spec start d) as S1. rewrite H in S1. destruct S1 as (Ed & (t' & r' & E & Et) & _).
  injection E as <- <-. assert (P start = CPid t) as -> by (unfold Pid; rewrite Et; reflexivity).
  pose proof Rep as Rep'. rewrite Ed in Rep'. destruct (bridge_prev_next C.t_id s II a t b Rep') as [Hp Hn].
  split; [exact Hn|]. split; [exact Hp|]. unfold C.walk. rewrite H. auto.
Qed.
End CommentsLink.
