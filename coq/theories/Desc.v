(* Class descriptors: what translate/gen.py extracts from models/generated/*.py, and the generic
   scheme (modelgen's) that every generated class must be an instance of (`wf_desc`). *)
From Coq Require Export String List Bool.
Export ListNotations.
Open Scope string_scope.

Inductive fkind :=
| FReq
| FOptL (seps : list string)                 (* optional_left_field: separators then value, after the pivot *)
| FOptR (seps : list string)                 (* optional_right_field: value then separators, before the pivot *)
| FRep (seps : list string) (seps_before : option (list string)).
Record fdesc := mkfdesc { f_name : string; f_kind : fkind }.

Inductive side := SFirst | SLast.
Inductive alt :=
| AGuard (f : string) (s : side)             (* (self._f and self._f.x_token) *)
| APlain (f : string) (s : side).            (* self._f.x_token *)
Definition chain := list alt.

Inductive lay := LSeps (f : string) | LDetach (arg : string) | LLit (text : string).
Inductive claim := CSelf (m : string) | CField (f : string) | CProp (p : string).
Inductive fmt := FmtField (f : string) (indented : bool) | FmtLit (text : string).

Record cdesc := mkcdesc {
  c_name : string; c_rule : string; c_inline : bool; c_mixin : bool;
  c_fields : list fdesc;
  c_data : list string;
  c_init : list string; c_init_data : list string;
  c_clone : list string; c_clone_data : list string;
  c_reattach : list string; c_reattach_store : bool;
  c_eq_isinstance : string; c_eq : list string; c_eq_data : list string;
  c_first : chain; c_last : chain;
  c_pivots : list (string * chain);
  c_layout : option (list lay);
  c_claim : list claim;
  c_formatted : list fmt
}.

(* ---- the generic scheme --------------------------------------------------------------------- *)
Definition is_opt (k : fkind) := match k with FOptL _ | FOptR _ => true | _ => false end.

(* descriptor.pivot_token: walk the fields (already oriented) until the first required one *)
Fixpoint scheme_chain (s : side) (fs : list fdesc) : chain :=
  match fs with
  | [] => []
  | f :: r => match f_kind f with
              | FReq => [APlain (f_name f) s]
              | FOptL _ | FOptR _ => AGuard (f_name f) s :: scheme_chain s r
              | FRep _ _ => APlain (f_name f) s :: scheme_chain s r
              end
  end.
Definition scheme_first (fs : list fdesc) : chain := scheme_chain SFirst fs.
Definition scheme_last (fs : list fdesc) : chain := scheme_chain SLast (rev fs).

(* fields strictly after / strictly before the named one *)
Fixpoint after_field (n : string) (fs : list fdesc) : list fdesc :=
  match fs with [] => [] | f :: r => if String.eqb (f_name f) n then r else after_field n r end.
Definition before_field (n : string) (fs : list fdesc) : list fdesc := rev (after_field n (rev fs)).

(* optional_left floats left: its pivot is the last token of what precedes it;
   optional_right floats right: its pivot is the first token of what follows it *)
Definition scheme_pivot (fs : list fdesc) (f : fdesc) : option chain :=
  match f_kind f with
  | FOptL _ => Some (scheme_chain SLast (rev (before_field (f_name f) fs)))
  | FOptR _ => Some (scheme_chain SFirst (after_field (f_name f) fs))
  | _ => None
  end.

Definition alt_eqb (a b : alt) : bool :=
  match a, b with
  | AGuard f SFirst, AGuard g SFirst | AGuard f SLast, AGuard g SLast
  | APlain f SFirst, APlain g SFirst | APlain f SLast, APlain g SLast => String.eqb f g
  | _, _ => false
  end.
Fixpoint list_eqb {A B} (eqb : A -> B -> bool) (a : list A) (b : list B) : bool :=
  match a, b with
  | [], [] => true
  | x :: a', y :: b' => eqb x y && list_eqb eqb a' b'
  | _, _ => false
  end.
Definition chain_eqb := list_eqb alt_eqb.
Definition names_eqb := list_eqb String.eqb.

Definition pivot_name (f : string) : string := f ++ "_pivot".
Fixpoint lookup {A} (n : string) (l : list (string * A)) : option A :=
  match l with [] => None | (k, v) :: r => if String.eqb k n then Some v else lookup n r end.

Definition pivots_ok (c : cdesc) : bool :=
  forallb (fun f => match scheme_pivot (c_fields c) f with
                    | None => true
                    | Some ch => match lookup (pivot_name (f_name f)) (c_pivots c) with
                                 | Some ch' => chain_eqb ch ch'
                                 | None => false
                                 end
                    end) (c_fields c)
  && (Nat.eqb (length (c_pivots c)) (length (filter (fun f => is_opt (f_kind f)) (c_fields c)))).

(* auto_claim_comments: own leading, own trailing (only with the mixin), then children strictly
   last-to-first (a CProp names the public wrapper raw_<f>[_with_comments] of field _<f>) *)
Definition strip_prefix (p s : string) : string :=
  if String.prefix p s then String.substring (String.length p) (String.length s - String.length p) s else s.
Definition strip_suffix (x s : string) : string :=
  let n := String.length s in let m := String.length x in
  if Nat.leb m n then
    if String.eqb (String.substring (n - m) m s) x then String.substring 0 (n - m) s else s
  else s.
Definition claim_field (c : claim) : option string :=
  match c with
  | CSelf _ => None
  | CField f => Some f
  | CProp p => Some ("_" ++ strip_suffix "_with_comments" (strip_prefix "raw_" p))
  end.
Fixpoint index_of (n : string) (l : list string) (i : nat) : option nat :=
  match l with [] => None | x :: r => if String.eqb x n then Some i else index_of n r (S i) end.
Fixpoint strictly_decreasing (l : list (option nat)) : bool :=
  match l with
  | [] => true
  | None :: _ => false
  | Some a :: r => match r with
                   | [] => true
                   | None :: _ => false
                   | Some b :: _ => Nat.ltb b a && strictly_decreasing r
                   end
  end.
Definition claim_ok (c : cdesc) : bool :=
  let names := map f_name (c_fields c) in
  let head := if c_mixin c then [CSelf "claim_leading_comment"; CSelf "claim_trailing_comment"] else [] in
  let n := length head in
  let is_self x := match x with CSelf _ => true | _ => false end in
  list_eqb (fun a b => match a, b with CSelf x, CSelf y => String.eqb x y | _, _ => false end)
           (firstn n (c_claim c)) head
  && negb (existsb is_self (skipn n (c_claim c)))
  && strictly_decreasing
       (map (fun x => match claim_field x with Some f => index_of f names 0 | None => None end)
            (skipn n (c_claim c))).

(* from_children lays tokens out in the order iter_children_formatted describes *)
Definition lay_fmt_match (l : lay) (f : fmt) : bool :=
  match l, f with
  | LSeps a, FmtField b _ => String.eqb a b
  | LDetach a, FmtField b _ => String.eqb ("_" ++ a) b
  | LLit a, FmtLit b => String.eqb a b
  | _, _ => false
  end.
Definition layout_ok (c : cdesc) : bool :=
  match c_layout c with
  | None => true
  | Some l => list_eqb lay_fmt_match l (c_formatted c)
  end
  && names_eqb (flat_map (fun f => match f with FmtField n _ => [n] | FmtLit _ => [] end) (c_formatted c))
               (map f_name (c_fields c)).

Definition wf_desc (c : cdesc) : bool :=
  let names := map f_name (c_fields c) in
  names_eqb (c_init c) names && names_eqb (c_init_data c) (c_data c)
  && names_eqb (c_clone c) names && names_eqb (c_clone_data c) (c_data c)
  && names_eqb (c_reattach c) names && c_reattach_store c
  && String.eqb (c_eq_isinstance c) (c_name c)
  && names_eqb (c_eq c) names && names_eqb (c_eq_data c) (c_data c)
  && chain_eqb (c_first c) (scheme_first (c_fields c))
  && chain_eqb (c_last c) (scheme_last (c_fields c))
  && pivots_ok c && claim_ok c && layout_ok c.
