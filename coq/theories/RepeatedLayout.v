(* The layout invariant of a repeated field and what the token primitives do under it.
   Layout ph doc items: doc = pre ++ placeholder :: gap_0 ++ body_0 ++ gap_1 ++ body_1 ++ ... ++ post,
   ids duplicate-free, every gap made of separator-kind tokens only, every body non-empty, and
   items = [(first id, last id) of body_k].  A boolean checker layout_b with its soundness, the
   derivation of the exposed spans from the invariant + Python index arithmetic, and
   _del_tokens / _insert_tokens (for a list of values) as functions on the list of cells. *)
From AB Require Import Prelude PySeq RepeatedLib Repeated Fields RepeatedProofs.
From Coq Require Import ZifyBool Permutation.

Record cell := mkcell { c_gap : list tok; c_body : list tok }.
Definition cell_toks (c : cell) : list tok := c_gap c ++ c_body c.
Definition flat (cs : list cell) : list tok := flat_map cell_toks cs.
Definition item_of (c : cell) : item := (tid (hd dft (c_body c)), tid (last (c_body c) dft)).
Definition all_sep (l : list tok) : bool := forallb (fun t => is_sep (tkind t)) l.
Definition cell_ok (c : cell) : Prop := c_body c <> [] /\ all_sep (c_gap c) = true.
Definition lay (pre : list tok) (pht : tok) (cs : list cell) (post : list tok) : doc :=
  pre ++ pht :: flat cs ++ post.
Definition WF (ph : Z) (pre : list tok) (pht : tok) (cs : list cell) (post : list tok) : Prop :=
  tid pht = ph /\ NoDup (ids (lay pre pht cs post)) /\ Forall cell_ok cs.
Definition Layout (ph : Z) (d : doc) (items : list item) : Prop :=
  exists pre pht cs post, d = lay pre pht cs post /\ items = map item_of cs /\ WF ph pre pht cs post.

(* ---- boolean checker ------------------------------------------------------------------------ *)
Fixpoint nodup_b (l : list Z) : bool :=
  match l with [] => true | x :: r => negb (zmem x r) && nodup_b r end.

Fixpoint cells_b (rest : doc) (items : list item) : bool :=
  match items with
  | [] => true
  | it :: its =>
      match split_at (fst it) rest with
      | None => false
      | Some (gap, tf, r1) =>
          all_sep gap &&
          (if fst it =? snd it then cells_b r1 its
           else match split_at (snd it) r1 with
                | None => false
                | Some (_, _, r2) => cells_b r2 its
                end)
      end
  end.

Definition layout_b (ph : Z) (d : doc) (items : list item) : bool :=
  nodup_b (ids d) &&
  match split_at ph d with
  | None => false
  | Some (_, _, rest) => cells_b rest items
  end.

Lemma flat_app : forall a b, flat (a ++ b) = flat a ++ flat b.
Proof. intros. unfold flat. apply flat_map_app. Qed.

Lemma flat_cons : forall c cs, flat (c :: cs) = c_gap c ++ c_body c ++ flat cs.
Proof. intros. unfold flat. cbn. unfold cell_toks. now rewrite <- app_assoc. Qed.

Lemma flat_nil : flat [] = [].
Proof. reflexivity. Qed.

Lemma zmem_false : forall x l, zmem x l = false -> ~ In x l.
Proof.
  induction l as [|y l IH]; simpl; intros H; [tauto|].
  apply orb_false_iff in H. destruct H as [H1 H2]. intros [E|E]; [subst; lia|now apply IH].
Qed.

Lemma zmem_true : forall x l, zmem x l = true -> In x l.
Proof.
  induction l as [|y l IH]; simpl; intros H; [discriminate|].
  apply orb_true_iff in H. destruct H as [H|H]; [left; lia|right; now apply IH].
Qed.

Lemma nodup_b_sound : forall l, nodup_b l = true -> NoDup l.
Proof.
  induction l as [|x l IH]; simpl; intros H; [constructor|].
  apply andb_true_iff in H. destruct H as [H1 H2]. constructor; [|now apply IH].
  apply zmem_false. now destruct (zmem x l).
Qed.

Lemma split_at_sound : forall i d a t b, split_at i d = Some (a, t, b) -> d = a ++ t :: b /\ tid t = i.
Proof.
  induction d as [|x d IH]; simpl; intros a t b H; [discriminate|].
  destruct (tid x =? i) eqn:E.
  - inversion H; subst. split; [reflexivity|lia].
  - destruct (split_at i d) as [[[a' t'] b']|]; [|discriminate].
    inversion H; subst. destruct (IH _ _ _ eq_refl) as [-> Ht]. split; [reflexivity|exact Ht].
Qed.

Lemma cells_b_sound : forall items rest, cells_b rest items = true ->
  exists cs post, rest = flat cs ++ post /\ items = map item_of cs /\ Forall cell_ok cs.
Proof.
  induction items as [|[f l] its IH]; intros rest H.
  - exists [], rest. repeat split; constructor.
  - cbn [cells_b fst snd] in H.
    destruct (split_at f rest) as [[[gap tf] r1]|] eqn:E1; [|discriminate].
    apply split_at_sound in E1. destruct E1 as [-> Hf].
    apply andb_true_iff in H. destruct H as [Hg H].
    destruct (f =? l) eqn:Efl.
    + destruct (IH _ H) as (cs & post & -> & -> & Hok).
      exists (mkcell gap [tf] :: cs), post. split; [|split].
      * rewrite flat_cons. cbn [c_gap c_body]. repeat rewrite <- app_assoc. reflexivity.
      * apply Z.eqb_eq in Efl. subst. reflexivity.
      * constructor; [split; [discriminate|exact Hg]|exact Hok].
    + destruct (split_at l r1) as [[[m tl] r2]|] eqn:E2; [|discriminate].
      apply split_at_sound in E2. destruct E2 as [-> Hl].
      destruct (IH _ H) as (cs & post & -> & -> & Hok).
      exists (mkcell gap (tf :: m ++ [tl]) :: cs), post. split; [|split].
      * rewrite flat_cons. cbn [c_gap c_body]. repeat rewrite <- app_assoc. cbn [app]. repeat rewrite <- app_assoc. reflexivity.
      * cbn [map]. f_equal. unfold item_of. cbn [c_body hd].
        change (tf :: m ++ [tl]) with ((tf :: m) ++ [tl]). rewrite last_last. now subst.
      * constructor; [split; [discriminate|exact Hg]|exact Hok].
Qed.

Theorem layout_b_sound : forall ph d items, layout_b ph d items = true -> Layout ph d items.
Proof.
  intros ph d items H. unfold layout_b in H. apply andb_true_iff in H. destruct H as [Hnd H].
  destruct (split_at ph d) as [[[pre pht] rest]|] eqn:E; [|discriminate].
  apply split_at_sound in E. destruct E as [-> Hph].
  destruct (cells_b_sound _ _ H) as (cs & post & -> & -> & Hok).
  exists pre, pht, cs, post. split; [reflexivity|]. split; [reflexivity|].
  split; [exact Hph|]. split; [apply nodup_b_sound; exact Hnd|exact Hok].
Qed.

(* ---- list utilities --------------------------------------------------------------------------- *)
Lemma last_app_ne : forall {A} (x y : list A) d, y <> [] -> last (x ++ y) d = last y d.
Proof.
  intros A x y d Hy. destruct (exists_last Hy) as [y' [l ->]].
  rewrite app_assoc, !last_last. reflexivity.
Qed.

Lemma hd_app_ne : forall {A} (x y : list A) d, x <> [] -> hd d (x ++ y) = hd d x.
Proof. intros A [|a x] y d H; [congruence|reflexivity]. Qed.

Lemma snoc_cases : forall {A} (l : list A), l = [] \/ exists l' x, l = l' ++ [x].
Proof.
  intros A l. destruct l as [|a l]; [now left|right].
  destruct (@exists_last _ (a :: l)) as [l' [x E]]; [discriminate|]. now exists l', x.
Qed.

Lemma get_item_mid : forall (X Y : list cell) c,
  list_get_int (map item_of (X ++ c :: Y)) (zlen X) = Ok (item_of c).
Proof.
  intros. rewrite map_app. cbn [map]. replace (zlen X) with (zlen (map item_of X)) by apply zlen_map.
  apply list_get_int_mid.
Qed.

Lemma flat_last : forall M m, c_body m <> [] ->
  flat (M ++ [m]) <> [] /\ last (flat (M ++ [m])) dft = last (c_body m) dft.
Proof.
  intros M m Hb. rewrite flat_app, flat_cons, flat_nil, app_nil_r. split.
  - intro E. apply app_eq_nil in E. destruct E as [_ E]. apply app_eq_nil in E. destruct E; congruence.
  - rewrite app_assoc. now apply last_app_ne.
Qed.

Lemma Forall_app_inv : forall {A} (P : A -> Prop) a b, Forall P (a ++ b) -> Forall P a /\ Forall P b.
Proof. intros. now apply Forall_app. Qed.

(* prev_last on the item list of cells: the last token of the cell before the cut (or the placeholder) *)
Lemma prev_last_cells_nil : forall ph (Y : list cell), prev_last ph (map item_of Y) 0 = Ok ph.
Proof. reflexivity. Qed.

Lemma prev_last_cells_snoc : forall ph (X Y : list cell) a,
  prev_last ph (map item_of ((X ++ [a]) ++ Y)) (zlen (X ++ [a])) = Ok (tid (last (c_body a) dft)).
Proof.
  intros. unfold prev_last.
  pose proof (zlen_nonneg X). replace (zlen (X ++ [a])) with (zlen X + 1) by (rewrite zlen_app; reflexivity).
  replace (0 <? zlen X + 1) with true by lia.
  replace (zlen X + 1 - 1) with (zlen X) by lia.
  rewrite <- app_assoc. cbn [app]. now rewrite get_item_mid.
Qed.

(* ---- _del_tokens on cells ------------------------------------------------------------------------ *)
(* the else-branch keeps the gap of the first removed cell (it goes in front of the gap of the next cell) when
   there is a cell in front, a cell behind, and RepeatedProofs.keep_gap: that gap is not empty, all blank, and the
   nearest token with text behind the window (looked for through `post` too) shows a character that has to be
   kept apart *)
Definition del_res (A M B : list cell) (post : list tok) : list cell :=
  match A, M, B with
  | [], m0 :: _, b0 :: B' => mkcell (c_gap m0) (c_body b0) :: B'
  | _ :: _, m0 :: _, b0 :: B' =>
      if keep_gap (c_gap m0) (flat B ++ post) then A ++ mkcell (c_gap m0 ++ c_gap b0) (c_body b0) :: B' else A ++ B
  | _, _, _ => A ++ B
  end.

Lemma del_res_front : forall a A M B post,
  del_res (a :: A) M B post =
  match M, B with
  | m0 :: _, b0 :: B' =>
      if keep_gap (c_gap m0) (flat B ++ post) then (a :: A) ++ mkcell (c_gap m0 ++ c_gap b0) (c_body b0) :: B'
      else (a :: A) ++ B
  | _, _ => (a :: A) ++ B
  end.
Proof. intros a A [|m0 M] [|b0 B] post; reflexivity. Qed.

Lemma del_res_flat : forall A m0 M1 B post, (A <> [] \/ B = []) ->
  flat (del_res A (m0 :: M1) B post) =
  flat A ++ (if (match B with [] => false | _ => true end) && keep_gap (c_gap m0) (flat B ++ post) then c_gap m0 else [])
         ++ flat B.
Proof.
  intros A m0 M1 B post H. destruct A as [|a A].
  - destruct H as [H| ->]; [congruence|]. reflexivity.
  - rewrite del_res_front. destruct B as [|b0 B']; [now rewrite flat_app|].
    cbn [andb]. destruct (keep_gap _ _).
    + rewrite !flat_app, !flat_cons. cbn [c_gap c_body]. repeat rewrite <- app_assoc. reflexivity.
    + rewrite flat_app. reflexivity.
Qed.

Lemma del_layout_else : forall ph pre pht A M B post,
  WF ph pre pht (A ++ M ++ B) post -> M <> [] -> (A <> [] \/ B = []) ->
  del_tokens ph (lay pre pht (A ++ M ++ B) post) (map item_of (A ++ M ++ B)) (zlen A) (zlen A + zlen M)
  = (lay pre pht (del_res A M B post) post, Ok tt).
Proof.
  intros ph pre pht A M B post (Hph & Hnd & Hok) HM HAB.
  destruct (snoc_cases M) as [->|(M' & m & EM)]; [congruence|].
  destruct M as [|m0 M1]; [congruence|].
  apply Forall_app_inv in Hok. destruct Hok as [HokA Hok]. apply Forall_app_inv in Hok. destruct Hok as [HokM HokB].
  assert (Hmb : c_body m <> []).
  { rewrite EM in HokM. apply Forall_app_inv in HokM. destruct HokM as [_ Hokm]. inversion Hokm as [|? ? [Hmb _] _]. exact Hmb. }
  assert (Hm0b : c_body m0 <> []) by (inversion HokM as [|? ? [Hb _] _]; exact Hb).
  set (X := c_body m0 ++ flat M1).
  assert (HneX : X <> []). { unfold X. intro E. apply app_eq_nil in E. destruct E; congruence. }
  assert (EflatM : flat (m0 :: M1) = c_gap m0 ++ X) by (rewrite flat_cons; reflexivity).
  assert (HlastX : last X dft = last (c_body m) dft).
  { destruct (flat_last M' m Hmb) as [_ Hl]. rewrite <- EM, EflatM in Hl. rewrite <- Hl. symmetry. now apply last_app_ne. }
  assert (HhdX : hd dft X = hd dft (c_body m0)) by (unfold X; now apply hd_app_ne).
  pose proof (zlen_nonneg A) as HzA. pose proof (zlen_nonneg M') as HzM. pose proof (zlen_nonneg B) as HzB.
  assert (Hget : list_get_int (map item_of (A ++ (m0 :: M1) ++ B)) (zlen A + zlen (m0 :: M1) - 1) = Ok (item_of m)).
  { rewrite EM. replace (A ++ (M' ++ [m]) ++ B) with ((A ++ M') ++ m :: B) by (repeat rewrite <- app_assoc; reflexivity).
    replace (zlen A + zlen (M' ++ [m]) - 1) with (zlen (A ++ M')) by (rewrite !zlen_app; change (zlen [m]) with 1; lia).
    apply get_item_mid. }
  assert (Hgets : list_get_int (map item_of (A ++ (m0 :: M1) ++ B)) (zlen A) = Ok (item_of m0)).
  { cbn [app]. apply get_item_mid. }
  assert (Hlen : zlen (m0 :: M1) = zlen M' + 1) by (rewrite EM, zlen_app; reflexivity).
  assert (Hbr : (zlen A =? 0) && (zlen A + zlen (m0 :: M1) <? zlen (map item_of (A ++ (m0 :: M1) ++ B))) = false).
  { rewrite zlen_map, !zlen_app. destruct HAB as [HA| ->].
    - destruct A; [congruence|]. rewrite zlen_cons. pose proof (zlen_nonneg A). lia.
    - change (zlen (@nil cell)) with 0. lia. }
  assert (Hstop : (zlen A + zlen (m0 :: M1) <? zlen (map item_of (A ++ (m0 :: M1) ++ B)))
                  = match B with [] => false | _ => true end).
  { rewrite zlen_map, !zlen_app. destruct B as [|b0 B'].
    - change (zlen (@nil cell)) with 0. lia.
    - rewrite (zlen_cons b0). pose proof (zlen_nonneg B'). lia. }
  assert (Hlt : zlen A < zlen A + zlen (m0 :: M1)) by lia.
  assert (Eres : forall Pp, Pp ++ flat (del_res A (m0 :: M1) B post) ++ post
            = (Pp ++ flat A) ++ (if (zlen A + zlen (m0 :: M1) <? zlen (map item_of (A ++ (m0 :: M1) ++ B)))
                                     && keep_gap (c_gap m0) (flat B ++ post) then c_gap m0 else []) ++ flat B ++ post).
  { intros Pp. rewrite Hstop, (del_res_flat A m0 M1 B post HAB). repeat rewrite <- app_assoc. reflexivity. }
  destruct (snoc_cases A) as [EA|(A' & a & EA)].
  - (* from the placeholder *)
    assert (Elay : lay pre pht (A ++ (m0 :: M1) ++ B) post = pre ++ pht :: c_gap m0 ++ X ++ flat B ++ post).
    { subst A. unfold lay. change ([] ++ (m0 :: M1) ++ B) with ((m0 :: M1) ++ B). rewrite (flat_app (m0 :: M1) B), EflatM. repeat rewrite <- app_assoc. reflexivity. }
    rewrite Elay in *.
    erewrite del_tokens_else; [|exact Hnd|exact HneX|exact Hlt|exact Hbr| |exact Hget| |exact Hgets|].
    + unfold lay. f_equal. f_equal. specialize (Eres []). cbn [app] in Eres. rewrite Eres. subst A. reflexivity.
    + subst A. rewrite <- Hph. reflexivity.
    + cbn [snd item_of]. now rewrite HlastX.
    + cbn [fst item_of]. now rewrite HhdX.
  - (* from the last token of the preceding item *)
    assert (Hab : c_body a <> []).
    { rewrite EA in HokA. apply Forall_app_inv in HokA. destruct HokA as [_ Hoka]. inversion Hoka as [|? ? [Hab _] _]. exact Hab. }
    destruct (exists_last Hab) as [ba [p Ea]].
    assert (EflatA : forall Y, flat A ++ Y = (flat A' ++ c_gap a ++ ba) ++ p :: Y).
    { intros Y. rewrite EA, flat_app, flat_cons, flat_nil, app_nil_r, Ea. repeat rewrite <- app_assoc. reflexivity. }
    assert (Elay : lay pre pht (A ++ (m0 :: M1) ++ B) post
                   = (pre ++ pht :: flat A' ++ c_gap a ++ ba) ++ p :: c_gap m0 ++ X ++ flat B ++ post).
    { unfold lay. rewrite flat_app, (flat_app (m0 :: M1) B), EflatM.
      rewrite <- (app_assoc (flat A)), EflatA. repeat rewrite <- app_assoc. cbn [app]. repeat rewrite <- app_assoc. reflexivity. }
    rewrite Elay in *.
    erewrite del_tokens_else; [|exact Hnd|exact HneX|exact Hlt|exact Hbr| |exact Hget| |exact Hgets|].
    + unfold lay. f_equal. specialize (Eres [pht]). cbn [app] in Eres.
      change (pht :: flat (del_res A (m0 :: M1) B post) ++ post) with ([pht] ++ flat (del_res A (m0 :: M1) B post) ++ post).
      repeat rewrite <- app_assoc. cbn [app]. f_equal. injection Eres as Eres. rewrite Eres.
      rewrite EflatA. repeat rewrite <- app_assoc. reflexivity.
    + rewrite EA. rewrite prev_last_cells_snoc. rewrite Ea, last_last. reflexivity.
    + cbn [snd item_of]. now rewrite HlastX.
    + cbn [fst item_of]. now rewrite HhdX.
Qed.

Lemma del_layout_first : forall ph pre pht m0 M' b0 B' post,
  WF ph pre pht ((m0 :: M') ++ b0 :: B') post ->
  del_tokens ph (lay pre pht ((m0 :: M') ++ b0 :: B') post) (map item_of ((m0 :: M') ++ b0 :: B')) 0 (zlen (m0 :: M'))
  = (lay pre pht (mkcell (c_gap m0) (c_body b0) :: B') post, Ok tt).
Proof.
  intros ph pre pht m0 M' b0 B' post (Hph & Hnd & Hok).
  apply Forall_app_inv in Hok. destruct Hok as [HokM HokB].
  inversion HokM as [|? ? [Hm0 _] _]; subst. inversion HokB as [|? ? [Hb0 _] _]; subst.
  destruct (c_body b0) as [|n bq] eqn:Eb0; [congruence|].
  pose proof (zlen_nonneg M') as HzM. pose proof (zlen_nonneg B') as HzB.
  assert (Elay : lay pre pht ((m0 :: M') ++ b0 :: B') post
          = (pre ++ pht :: c_gap m0) ++ (c_body m0 ++ flat M' ++ c_gap b0) ++ n :: bq ++ flat B' ++ post).
  { unfold lay. rewrite flat_app, !flat_cons, Eb0. repeat rewrite <- app_assoc. cbn [app].
    repeat rewrite <- app_assoc. reflexivity. }
  rewrite Elay in *.
  erewrite del_tokens_first with (it_s := item_of m0) (it_n := item_of b0).
  - unfold lay. rewrite flat_cons. cbn [c_gap c_body]. repeat rewrite <- app_assoc. cbn [app].
    repeat rewrite <- app_assoc. reflexivity.
  - exact Hnd.
  - intro E. apply app_eq_nil in E. destruct E; congruence.
  - rewrite zlen_cons. lia.
  - rewrite zlen_map, zlen_app, !zlen_cons. lia.
  - apply (get_item_mid [] (M' ++ b0 :: B') m0).
  - cbn [fst item_of]. f_equal. symmetry. now apply hd_app_ne.
  - apply get_item_mid.
  - cbn [fst item_of]. now rewrite Eb0.
Qed.

(* both branches at once *)
Theorem del_layout : forall ph pre pht A M B post,
  WF ph pre pht (A ++ M ++ B) post -> M <> [] ->
  del_tokens ph (lay pre pht (A ++ M ++ B) post) (map item_of (A ++ M ++ B)) (zlen A) (zlen A + zlen M)
  = (lay pre pht (del_res A M B post) post, Ok tt).
Proof.
  intros ph pre pht A M B post H HM.
  destruct A as [|a A].
  - destruct M as [|m0 M']; [congruence|]. destruct B as [|b0 B'].
    + apply (del_layout_else ph pre pht [] (m0 :: M') [] post H HM). now right.
    + cbn [app del_res]. rewrite zlen_nil, Z.add_0_l. apply del_layout_first. exact H.
  - apply del_layout_else; [exact H|exact HM|left; discriminate].
Qed.

(* nothing to delete *)
Lemma del_tokens_noop : forall ph d items a b, b <= a -> del_tokens ph d items a b = (d, Ok tt).
Proof. intros. unfold del_tokens. now replace (b <=? a) with true by lia. Qed.
