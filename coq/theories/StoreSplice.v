(* _splice: the single-block path (fast path and _update_block path) and the multi-block path refine
   the list splice  firstn p l ++ tokens ++ skipn q l  and re-establish the invariant. *)
From AB Require Export StoreRebal.
From Coq Require Import ZifyBool.

(* ---------- lists ---------- *)
Lemma skipn_skipn' {A} (l : list A) : forall b a, skipn a (skipn b l) = skipn (a + b) l.
Proof.
  intros b. revert l. induction b as [|b IH]; intros l a; [rewrite Nat.add_0_r; reflexivity|].
  rewrite Nat.add_succ_r. destruct l as [|x r]; [rewrite !skipn_nil; reflexivity|]. cbn [skipn]. apply IH.
Qed.

Lemma three_split {A} (T : list A) sj ej : (sj <= ej)%nat ->
  T = firstn sj T ++ firstn (ej - sj) (skipn sj T) ++ skipn ej T.
Proof.
  intro H. rewrite <- (firstn_skipn sj T) at 1. f_equal.
  rewrite <- (firstn_skipn (ej - sj) (skipn sj T)) at 1. f_equal.
  rewrite skipn_skipn'. f_equal. lia.
Qed.

Lemma existsb_false {A} (f : A -> bool) l : (forall x, In x l -> f x = false) -> existsb f l = false.
Proof.
  induction l as [|x r IH]; intro H; [reflexivity|]. cbn [existsb].
  rewrite (H x (in_eq _ _)), IH; [reflexivity|]. intros; apply H, in_cons; assumption.
Qed.

Lemma in_range_idx {A} (l : list A) k t p n : NoDup l -> nth_error l k = Some t ->
  In t (firstn n (skipn p l)) -> (p <= k < p + n)%nat.
Proof.
  intros ND Hk Hin. apply In_nth_error in Hin as [k' Hk'].
  assert (k' < n)%nat as L.
  { apply nth_error_in_len in Hk'. rewrite firstn_length in Hk'. lia. }
  rewrite nth_error_firstn_lt, nth_error_skipn_add in Hk' by assumption.
  rewrite NoDup_nth_error in ND. assert (k = (p + k')%nat); [|lia].
  apply ND; [eapply nth_error_in_len; eassumption|congruence].
Qed.

Lemma app_eq_app_le {A} (X : list A) : forall Y A0 W, X ++ Y = A0 ++ W -> (length X <= length A0)%nat ->
  exists M, A0 = X ++ M /\ Y = M ++ W.
Proof.
  induction X as [|x X IH]; intros Y A0 W E L; [exists A0; auto|].
  destruct A0 as [|a A0]; [cbn in L; lia|]. cbn [app] in E. injection E as -> E.
  destruct (IH _ _ _ E) as (M & -> & ->); [cbn in L; lia|]. exists M. auto.
Qed.

Lemma mid_split {A} (l : list A) si ei a b : (si < ei)%nat -> nth_error l si = Some a -> nth_error l ei = Some b ->
  l = firstn si l ++ (a :: firstn (ei - S si) (skipn (S si) l) ++ [b]) ++ skipn (S ei) l.
Proof.
  intros L Ha Hb. destruct (nth_error_split_at l si a Ha) as [E _]. rewrite E at 1. f_equal. cbn [app]. f_equal.
  set (R := skipn (S si) l).
  assert (nth_error R (ei - S si) = Some b) as Hb'.
  { unfold R. rewrite nth_error_skipn_add. replace (S si + (ei - S si))%nat with ei by lia. assumption. }
  destruct (nth_error_split_at R _ b Hb') as [ER _]. rewrite ER at 1. rewrite <- app_assoc. f_equal. cbn [app]. f_equal.
  unfold R. rewrite skipn_skipn'. f_equal. lia.
Qed.

(* lexicographic (block, offset) order versus flat order *)
Lemma flat_pos_lex (f : positive -> list positive) l i b j si sj ei ej be :
  nth_error l i = Some b -> (j < length (f b))%nat ->
  nth_error l ei = Some be -> (ej <= length (f be))%nat ->
  let F n := length (flat_map f (firstn n l)) in
  (F si + sj <= F i + j < F ei + ej)%nat ->
  ((si < i)%nat \/ (si = i /\ (sj <= j)%nat)) /\ ((i < ei)%nat \/ (i = ei /\ (j < ej)%nat)).
Proof.
  intros Hb Lj Hbe Lej F [H1 H2]. split.
  - destruct (Nat.lt_trichotomy si i) as [?|[->|G]]; [auto|right; split; [reflexivity|lia]|]. exfalso.
    pose proof (flat_firstn_mono f l (S i) si G) as M. rewrite (flat_firstn_S f _ i b Hb), app_length in M. subst F. cbn in *. lia.
  - destruct (Nat.lt_trichotomy i ei) as [?|[->|G]]; [auto|right; split; [reflexivity|lia]|]. exfalso.
    pose proof (flat_firstn_mono f l (S ei) i G) as M. rewrite (flat_firstn_S f _ ei be Hbe), app_length in M. subst F. cbn in *. lia.
Qed.

(* ---------- the reuse guard accepts valid arguments ---------- *)
Lemma guard_ok s tokens si sj ei ej bs be : Inv0 s ->
  nth_error (s_blocks s) si = Some bs -> nth_error (s_blocks s) ei = Some be ->
  (sj <= length (toks s bs))%nat -> (ej <= length (toks s be))%nat ->
  let F n := length (flat_map (toks s) (firstn n (s_blocks s))) in
  (forall t, In t tokens -> free s t \/ In t (firstn (F ei + ej - (F si + sj)) (skipn (F si + sj) (abs s)))) ->
  existsb (fun t =>
       match t_handle (tget (s_toks s) t) with
       | None => false
       | Some (sid, hb, hi) =>
         negb (Pos.eqb sid (s_id s) &&
               (pair_le (Z.of_nat si, Z.of_nat sj) (b_index (bget (s_heap s) hb), hi) &&
                pair_lt (b_index (bget (s_heap s) hb), hi) (Z.of_nat ei, Z.of_nat ej)))
       end) tokens = false.
Proof.
  intros I Hbs Hbe Lsj Lej F Hv. apply existsb_false. intros t Ht. fold (raw s t).
  destruct (raw s t) as [[[sid hb] hi]|] eqn:Er; [|reflexivity].
  destruct (Hv t Ht) as [Hf|Hr]; [unfold free in Hf; congruence|].
  assert (In t (abs s)) as Hin by (apply in_firstn, in_skipn in Hr; exact Hr).
  apply In_nth_error in Hin as [k Hk].
  destruct (locate_inv s k t I Hk) as (i & b & j & Hb & Htj & Ek & Hh & Hi).
  apply hnd_raw in Hh. rewrite Er in Hh. injection Hh as -> -> ->. rewrite Pos.eqb_refl.
  fold (bidx s b). rewrite Hi.
  pose proof (in_range_idx _ _ _ _ _ (g_ndt _ _ I) Hk Hr) as Hrange.
  destruct (flat_pos_lex (toks s) (s_blocks s) i b j si sj ei ej be Hb (nth_error_in_len _ _ _ Htj) Hbe Lej) as [L1 L2].
  { cbv zeta. subst F. cbv beta in *. lia. }
  unfold pair_le, pair_lt. cbn [fst snd]. lia.
Qed.

Lemma has_dup_false l : NoDup l -> has_dup l = false.
Proof.
  induction 1 as [|x r Hx ND IH]; [reflexivity|]. cbn [has_dup]. rewrite IH, orb_false_r.
  apply existsb_false. intros y Hy. destruct (Pos.eqb_spec x y); [subst; contradiction|reflexivity].
Qed.
Lemma has_dup_true l : ~ NoDup l -> has_dup l = true.
Proof.
  intro H. destruct (has_dup l) eqn:E; [reflexivity|]. exfalso. apply H. clear H.
  induction l as [|x r IH]; [constructor|]. cbn [has_dup] in E. apply orb_false_elim in E as [E1 E2].
  constructor; [|apply IH; exact E2]. intro Hin.
  assert (existsb (Pos.eqb x) r = true) as C; [|congruence]. apply existsb_exists. exists x. split; [exact Hin|apply Pos.eqb_refl].
Qed.

Lemma splice_frames (l tokens : list positive) p q : NoDup l -> (p <= q)%nat ->
  (forall t, ~ In t l -> ~ In t tokens -> ~ In t (firstn p l ++ tokens ++ skipn q l)) /\
  (forall t, In t (firstn (q - p) (skipn p l)) -> ~ In t tokens -> ~ In t (firstn p l ++ tokens ++ skipn q l)).
Proof.
  intros ND Lpq. split.
  - intros t Hl Ht Hin. apply in_app_or in Hin as [H|H]; [apply Hl; eapply in_firstn; exact H|].
    apply in_app_or in H as [H|H]; [contradiction|apply Hl; eapply in_skipn; exact H].
  - intros t Hr Hn Hin. rewrite (three_split l p q Lpq) in ND.
    apply NoDup_app_iff in ND as (_ & N2 & D1). apply NoDup_app_iff in N2 as (_ & _ & D2).
    apply in_app_or in Hin as [H|H].
    + apply (D1 t H). apply in_or_app. left. exact Hr.
    + apply in_app_or in H as [H|H]; [contradiction|exact (D2 t Hr H)].
Qed.

Lemma InvG_with_len X s n : InvG X s -> InvG X (with_len s n).
Proof. intros [a b c d e f g h]. constructor; [exact a|exact b|exact c|exact d|exact e|exact f|exact g|exact h]. Qed.

Lemma nodup_splice {A} (P B1 R B2 Q T : list A) : NoDup (P ++ (B1 ++ R ++ B2) ++ Q) -> NoDup T ->
  (forall t, In t T -> ~ In t (P ++ (B1 ++ R ++ B2) ++ Q) \/ In t R) -> NoDup (P ++ (B1 ++ T ++ B2) ++ Q).
Proof.
  intros ND NT H.
  replace (P ++ (B1 ++ R ++ B2) ++ Q) with ((P ++ B1) ++ R ++ (B2 ++ Q)) in * by (rewrite <- !app_assoc; reflexivity).
  replace (P ++ (B1 ++ T ++ B2) ++ Q) with ((P ++ B1) ++ T ++ (B2 ++ Q)) by (rewrite <- !app_assoc; reflexivity).
  apply (nodup_mid_replace _ R); [assumption|assumption|].
  intros t Ht. destruct (H t Ht) as [Hn|Hr].
  - split; intro Hc; apply Hn; apply in_or_app; [left; assumption|right; apply in_or_app; right; assumption].
  - apply NoDup_app_iff in ND as (_ & N2 & D1). apply NoDup_app_iff in N2 as (_ & _ & D2).
    split; intro Hc; [apply (D1 t Hc); apply in_or_app; left; assumption|exact (D2 t Hr Hc)].
Qed.

(* the fast path's cache arithmetic, valid when the last newline token lies at or after end_j *)
Lemma fast_cache tk B1 R B2 tokens sz l :
  sizes_scan tk 0 (B1 ++ R ++ B2) pos0 (-1) = (sz, l) -> l >= zlen (B1 ++ R) ->
  sizes_scan tk 0 (B1 ++ tokens ++ B2) pos0 (-1) =
  (mkpos (line sz + (- sum_lines tk R + sum_lines tk tokens)) (col sz), l + (zlen tokens - zlen R)).
Proof.
  intros H Hl. pose proof (zlen_nonneg (B1 ++ R)) as Hnn.
  destruct (nl_decomp tk (B1 ++ R ++ B2)) as [N|(A0 & z & B & E & Hz & HB)].
  - rewrite scan_nonl in H by assumption. injection H as _ <-. lia.
  - rewrite E, scan_nl in H by assumption. injection H as <- <-.
    rewrite app_assoc in E. destruct (app_eq_app_le _ _ _ _ E) as (M & -> & ->); [unfold zlen in *; lia|].
    replace (B1 ++ tokens ++ M ++ z :: B) with ((B1 ++ tokens ++ M) ++ z :: B) by (rewrite <- !app_assoc; reflexivity).
    rewrite scan_nl by assumption. f_equal.
    + apply pos_eq; cbn [line col pos0]; [|reflexivity].
      repeat (rewrite sum_lines_app || rewrite sum_lines_cons). lia.
    + rewrite !zlen_app. lia.
Qed.

(* ---------- single-block path: state before _update_block / the fast path ---------- *)
Section Single.
Variables (s : store) (i : nat) (b : positive) (sj ej : nat) (tokens : list positive).
Hypothesis I : Inv0 s.
Hypothesis Hb : nth_error (s_blocks s) i = Some b.
Hypothesis Hj : (sj <= ej <= length (toks s b))%nat.
Hypothesis NDt : NoDup tokens.
Let T := toks s b.
Let R := firstn (ej - sj) (skipn sj T).
Let NT := firstn sj T ++ tokens ++ skipn ej T.
Hypothesis Hv : forall t, In t tokens -> ~ In t (abs s) \/ In t R.
Let pre := firstn i (s_blocks s).
Let post := skipn (S i) (s_blocks s).
Let s2 := set_blk (with_toks s (unhandle (s_toks s) R)) b
            (mkblk (b_index (bget (s_heap s) b)) NT (b_size (bget (s_heap s) b)) (b_lnl (bget (s_heap s) b))).

Lemma single_T : T = firstn sj T ++ R ++ skipn ej T.
Proof. apply three_split. lia. Qed.

Lemma single_pre :
  InvG (eq b) s2 /\
  abs s2 = flat_map (toks s) pre ++ NT ++ flat_map (toks s) post /\
  toks s2 b = NT /\
  (forall t, tsz (s_toks s2) t = tsz (s_toks s) t /\ txt s2 t = txt s t) /\
  (forall t, raw s2 t = if in_dec Pos.eq_dec t R then None else raw s t).
Proof.
  pose proof (blocks_split_at s i b Hb) as E. fold pre post in E.
  destruct (seg_facts _ s pre [b] post I E) as (ND & Dis & Ea & NDa & Hpp & Hold).
  assert (toks s2 b = NT) as Tb by (unfold s2; rewrite set_blk_toks, Pos.eqb_refl; reflexivity).
  assert (forall t, tsz (s_toks s2) t = tsz (s_toks s) t /\ txt s2 t = txt s t) as Hsz.
  { intro t. split; [apply unhandle_size|apply unhandle_text]. }
  assert (forall t, raw s2 t = if in_dec Pos.eq_dec t R then None else raw s t) as Hraw by (intro t; apply unhandle_handle).
  assert (forall t, hnd s2 t = if in_dec Pos.eq_dec t R then None else hnd s t) as Hh.
  { intro t. unfold hnd. rewrite Hraw. change (s_id s2) with (s_id s). destruct (in_dec Pos.eq_dec t R); reflexivity. }
  assert (forall t, In t R -> In t T) as HRT by (intros t Ht; unfold R in Ht; apply in_firstn, in_skipn in Ht; exact Ht).
  cbn [flat_map] in Ea, NDa. rewrite app_nil_r in Ea, NDa. fold T in Ea, NDa.
  destruct (seg_replace (fun _ => False) (eq b) s s2 pre [b] [b] post NT I E) as [I' Ea'].
  - discriminate.
  - intros; tauto.
  - exact E.
  - discriminate.
  - exact ND.
  - change (s_next s2) with (s_next s). rewrite <- E. apply (g_lt _ _ I).
  - intros k b0 Hk. unfold s2. rewrite set_blk_bidx. destruct (Pos.eqb_spec b0 b) as [->|N].
    + cbn [b_index]. apply (g_idx _ _ I). rewrite E. exact Hk.
    + apply (g_idx _ _ I). rewrite E. exact Hk.
  - intros b0 H0. assert (b0 <> b) as N by (intros ->; apply (Dis b H0), in_eq).
    unfold bsz, blnl, s2. rewrite set_blk_toks, set_blk_get. destruct (Pos.eqb_spec b0 b); [contradiction|]. auto.
  - cbn [flat_map]. rewrite Tb. apply app_nil_r.
  - rewrite single_T in NDa. apply (nodup_splice _ _ R); [exact NDa|exact NDt|].
    intros t Ht. destruct (Hv t Ht) as [Hn|Hr]; [left|right; assumption]. rewrite <- single_T, <- Ea. exact Hn.
  - exact Hsz.
  - intros t Hn Ho. rewrite Hh. destruct (in_dec Pos.eq_dec t R) as [Hr|]; [|reflexivity].
    exfalso. apply Ho. cbn [flat_map]. rewrite app_nil_r. apply HRT. exact Hr.
  - intros t Hn Ho. rewrite Hh. destruct (in_dec Pos.eq_dec t R) as [|Hr]; [reflexivity|]. exfalso.
    cbn [flat_map] in Ho. rewrite app_nil_r in Ho. fold T in Ho. rewrite single_T in Ho.
    apply Hn. unfold NT. apply in_app_or in Ho as [?|Ho]; [apply in_or_app; auto|].
    apply in_app_or in Ho as [?|?]; [contradiction|apply in_or_app; right; apply in_or_app; auto].
  - intros b0 [<-|[]] Hx. exfalso. apply Hx. reflexivity.
  - auto.
Qed.

(* the fast path *)
Let ld2 := - sum_lines (s_toks s) R + sum_lines (s_toks s2) tokens.
Let s3 := set_blk (with_toks s2 (rehandle (s_toks s2) (s_id s2) b (Z.of_nat sj) (skipn sj NT))) b
            (mkblk (b_index (bget (s_heap s2) b)) (b_toks (bget (s_heap s2) b))
               (mkpos (line (b_size (bget (s_heap s2) b)) + ld2) (col (b_size (bget (s_heap s2) b))))
               (b_lnl (bget (s_heap s2) b) + (zlen tokens - Z.of_nat (ej - sj)))).

Lemma fast_path : (NT = [] -> s_blocks s = [b]) -> blnl s b >= Z.of_nat ej ->
  Inv0 s3 /\ abs s3 = abs s2 /\ (forall t, tsz (s_toks s3) t = tsz (s_toks s) t /\ txt s3 t = txt s t) /\
  (forall t, ~ In t NT -> tget (s_toks s3) t = tget (s_toks s2) t).
Proof.
  intros Hne Hl. destruct single_pre as (I2 & Ea2 & Tb & Hsz2 & Hh2).
  pose proof (blocks_split_at s i b Hb) as E. fold pre post in E.
  assert (s_blocks s2 = pre ++ [b] ++ post) as E2 by exact E.
  destruct (seg_facts _ s2 pre [b] post I2 E2) as (ND & Dis & Ea & NDa & Hpp & Hold).
  cbn [flat_map] in Ea, NDa. rewrite app_nil_r, Tb in Ea, NDa.
  pose proof (nodup_app_mid _ _ _ NDa) as NDNT.
  assert (In b (s_blocks s)) as Hbin by (eapply nth_error_In; eassumption).
  pose proof (inv_block_nodup _ s b I Hbin) as NDT. fold T in NDT.
  assert (bget (s_heap s2) b = mkblk (bidx s b) NT (bsz s b) (blnl s b)) as G2
    by (unfold s2; rewrite set_blk_get, Pos.eqb_refl; reflexivity).
  assert (toks s3 b = NT) as T3 by (unfold s3; rewrite set_blk_toks, Pos.eqb_refl, G2; reflexivity).
  assert (forall t, tsz (s_toks s3) t = tsz (s_toks s2) t /\ txt s3 t = txt s2 t) as Hsz3.
  { intro t. split; [apply rehandle_size|apply rehandle_text]. }
  assert (length (firstn sj T) = sj) as Lf by (rewrite firstn_length; fold T in Hj; lia).
  assert (length R = (ej - sj)%nat) as LR by (unfold R; rewrite firstn_length, skipn_length; fold T in Hj; lia).
  destruct (seg_replace (eq b) (fun _ => False) s2 s3 pre [b] [b] post NT I2 E2) as [I' Ea'].
  - discriminate.
  - intros b0 H0 <-. apply (Dis b H0), in_eq.
  - exact E2.
  - discriminate.
  - exact ND.
  - change (s_next s3) with (s_next s2). rewrite <- E2. apply (g_lt _ _ I2).
  - intros k b0 Hk. unfold s3. rewrite set_blk_bidx. destruct (Pos.eqb_spec b0 b) as [->|N].
    + cbn [b_index]. apply (g_idx _ _ I2). rewrite E2. exact Hk.
    + apply (g_idx _ _ I2). rewrite E2. exact Hk.
  - intros b0 H0. assert (b0 <> b) as N by (intros ->; apply (Dis b H0), in_eq).
    unfold bsz, blnl, s3. rewrite set_blk_toks, set_blk_get. destruct (Pos.eqb_spec b0 b); [contradiction|]. auto.
  - cbn [flat_map]. rewrite T3. apply app_nil_r.
  - exact NDa.
  - exact Hsz3.
  - intros t Hn _. apply hnd_ext_tget; [reflexivity|]. unfold s3. cbn [s_toks set_blk with_heap with_toks].
    rewrite rehandle_other; [reflexivity|]. intro Hin. apply Hn. eapply in_skipn; eassumption.
  - intros t Hn Ho. cbn [flat_map] in Ho. rewrite app_nil_r, Tb in Ho. contradiction.
  - intros b0 [<-|[]] _. split; [split|].
    + (* handles *)
      intros j t Hjt. rewrite T3 in Hjt.
      destruct (Nat.lt_ge_cases j sj) as [L|L].
      * assert (nth_error T j = Some t) as HTj.
        { unfold NT in Hjt. rewrite nth_error_app1, nth_error_firstn_lt in Hjt by lia. exact Hjt. }
        assert (hnd s3 t = hnd s2 t) as ->.
        { apply hnd_ext_tget; [reflexivity|]. unfold s3. cbn [s_toks set_blk with_heap with_toks]. apply rehandle_other.
          intro Hin. apply In_nth_error in Hin as [j' Hj']. rewrite nth_error_skipn_add in Hj'.
          rewrite NoDup_nth_error in NDNT. assert (j = (sj + j')%nat); [|lia].
          apply NDNT; [eapply nth_error_in_len; eassumption|congruence]. }
        unfold hnd. rewrite Hh2. change (s_id s2) with (s_id s). destruct (in_dec Pos.eq_dec t R) as [Hr|_].
        -- exfalso. unfold R in Hr. apply in_firstn in Hr. apply In_nth_error in Hr as [j' Hj'].
           rewrite nth_error_skipn_add in Hj'. rewrite NoDup_nth_error in NDT.
           assert (j = (sj + j')%nat); [|lia]. apply NDT; [eapply nth_error_in_len; eassumption|congruence].
        -- destruct (g_ok _ _ I b Hbin) as [[Hh _] _]; [tauto|]. apply Hh. exact HTj.
      * apply hnd_of_raw. unfold raw, s3. cbn [s_toks s_id set_blk with_heap with_toks].
        rewrite (rehandle_in _ _ _ _ _ (j - sj) t).
        -- f_equal. f_equal. lia.
        -- rewrite <- (firstn_skipn sj NT) in NDNT. apply NoDup_app_iff in NDNT. tauto.
        -- rewrite nth_error_skipn_add. replace (sj + (j - sj))%nat with j by lia. exact Hjt.
    + (* caches *)
      rewrite T3. unfold bsz, blnl, s3. rewrite set_blk_get, Pos.eqb_refl, G2. cbn [b_size b_lnl s_toks set_blk with_heap with_toks].
      rewrite scan_ext with (tk := s_toks s) by (intros t _; unfold tsz; rewrite rehandle_size; apply unhandle_size).
      destruct (g_ok _ _ I b Hbin) as [[_ Hc] _]; [tauto|]. fold T in Hc. rewrite single_T in Hc.
      unfold NT. rewrite (fast_cache _ _ _ _ tokens _ _ Hc) by (rewrite zlen_app; unfold zlen; lia).
      f_equal; [|unfold zlen; lia]. apply pos_eq; cbn [line col]; [|reflexivity].
      unfold ld2. rewrite (sum_lines_ext (s_toks s) (s_toks s2)) by (intros; unfold tsz; apply unhandle_size). reflexivity.
    + rewrite T3, <- E. exact Hne.
  - split; [exact I'|]. split; [rewrite Ea', Ea; reflexivity|]. split.
    + intro t. destruct (Hsz3 t) as [-> ->]. apply Hsz2.
    + intros t Hn. unfold s3. cbn [s_toks set_blk with_heap with_toks]. apply rehandle_other.
      intro Hin. apply Hn. eapply in_skipn; eassumption.
Qed.
End Single.

(* ---------- multi-block path: state before _update_block ---------- *)
Section Multi.
Variables (s : store) (si ei : nat) (bs be : positive) (sj ej : nat) (tokens : list positive).
Hypothesis I : Inv0 s.
Hypothesis Lt : (si < ei)%nat.
Hypothesis Hbs : nth_error (s_blocks s) si = Some bs.
Hypothesis Hbe : nth_error (s_blocks s) ei = Some be.
Hypothesis Hsj : (sj <= length (toks s bs))%nat.
Hypothesis Hej : (ej <= length (toks s be))%nat.
Hypothesis NDt : NoDup tokens.
Let pre := firstn si (s_blocks s).
Let post := skipn (S ei) (s_blocks s).
Let mids := firstn (ei - S si) (skipn (S si) (s_blocks s)).
Let midtoks := flat_map (toks s) mids.
Let B1 := firstn sj (toks s bs).
Let R1 := skipn sj (toks s bs).
Let R3 := firstn ej (toks s be).
Let B2 := skipn ej (toks s be).
Let R := R1 ++ midtoks ++ R3.
Hypothesis Hv : forall t, In t tokens -> ~ In t (abs s) \/ In t R.
Let NT := B1 ++ tokens ++ B2.
Let tk3 := unhandle (unhandle (unhandle (s_toks s) R1) midtoks) R3.
Let nb := s_next s.
Let s2 := fst (bare_block (with_toks s tk3) (Z.of_nat si) NT).
Let s3 := with_blocks s2 (pre ++ [nb] ++ post).
Let s3' := update_block_indexes s3 (Z.of_nat (S si)).

Lemma multi_pre :
  InvG (eq nb) s3' /\
  abs s3' = flat_map (toks s) pre ++ NT ++ flat_map (toks s) post /\
  nth_error (s_blocks s3') si = Some nb /\
  (forall t, tsz (s_toks s3') t = tsz (s_toks s) t /\ txt s3' t = txt s t) /\
  s_len s3' = s_len s /\ s_id s3' = s_id s /\
  (forall t, raw s3' t = if in_dec Pos.eq_dec t R then None else raw s t).
Proof.
  pose proof (mid_split _ _ _ _ _ Lt Hbs Hbe) as E. fold pre post mids in E.
  set (OLD := bs :: mids ++ [be]) in *.
  destruct (seg_facts _ s pre OLD post I E) as (ND & Dis & Ea & NDa & Hpp & Hold).
  assert (flat_map (toks s) OLD = B1 ++ R ++ B2) as Eold.
  { unfold OLD. cbn [flat_map]. rewrite flat_map_app. cbn [flat_map]. rewrite app_nil_r.
    rewrite <- (firstn_skipn sj (toks s bs)) at 1. rewrite <- (firstn_skipn ej (toks s be)) at 1.
    fold B1 R1 R3 B2 midtoks. unfold R. rewrite <- !app_assoc. reflexivity. }
  rewrite Eold in Ea, NDa.
  assert (s_id s3' = s_id s) as Esid by (unfold s3'; rewrite ubi_sid; reflexivity).
  assert (forall t, raw s3' t = if in_dec Pos.eq_dec t R then None else raw s t) as Hraw.
  { intro t. unfold s3', raw. rewrite ubi_toksmap. change (s_toks s3) with tk3. unfold tk3.
    rewrite !unhandle_handle. unfold R.
    destruct (in_dec Pos.eq_dec t R3), (in_dec Pos.eq_dec t midtoks), (in_dec Pos.eq_dec t R1),
      (in_dec Pos.eq_dec t (R1 ++ midtoks ++ R3)) as [Hi|Hi]; try reflexivity;
      exfalso; try (apply Hi; apply in_or_app; auto; right; apply in_or_app; auto).
    apply in_app_or in Hi as [?|Hi]; [contradiction|]. apply in_app_or in Hi as [?|?]; contradiction. }
  assert (forall t, hnd s3' t = if in_dec Pos.eq_dec t R then None else hnd s t) as Hh.
  { intro t. unfold hnd. rewrite Hraw, Esid. destruct (in_dec Pos.eq_dec t R); reflexivity. }
  assert (forall t, tsz (s_toks s3') t = tsz (s_toks s) t /\ txt s3' t = txt s t) as Hsz.
  { intro t. unfold s3', txt. rewrite ubi_toksmap. change (s_toks s3) with tk3. unfold tk3, tsz.
    rewrite !unhandle_size, !unhandle_text. auto. }
  assert (forall b0, b0 <> nb -> bget (s_heap s3) b0 = bget (s_heap s) b0) as G3.
  { intros b0 N. unfold s3, s2, bare_block. cbn. apply bget_add_other; assumption. }
  assert (bget (s_heap s3) nb = mkblk (Z.of_nat si) NT pos0 (-1)) as G3n.
  { unfold s3, s2, bare_block. cbn. apply bget_add_same. }
  assert (forall b0, In b0 (s_blocks s) -> b0 <> nb) as Hfresh.
  { intros b0 H0 ->. apply (g_lt _ _ I) in H0. unfold nb in H0. lia. }
  assert (NoDup (pre ++ [nb] ++ post)) as ND'.
  { apply (nodup_mid_replace pre OLD [nb] post ND); [repeat constructor; intros []|].
    intros x [<-|[]]. split; intro Hc; apply (Hfresh nb); try reflexivity; apply Hpp; apply in_or_app; auto. }
  assert (length pre = si) as Lpre by (apply (nth_error_split_at _ _ _ Hbs)).
  destruct (seg_replace (fun _ => False) (eq nb) s s3' pre OLD [nb] post NT I E) as [I' Ea'].
  - discriminate.
  - intros; tauto.
  - unfold s3'. rewrite ubi_blocks. reflexivity.
  - discriminate.
  - exact ND'.
  - unfold s3'. rewrite ubi_next. change (s_next s3) with (Pos.succ nb). intros b0 H0.
    apply in_app_or in H0 as [H0|H0]; [|apply in_app_or in H0 as [[<-|[]]|H0]]; try lia.
    + assert (In b0 (s_blocks s)) as Hin by (apply Hpp; apply in_or_app; auto). apply (g_lt _ _ I) in Hin. unfold nb. lia.
    + assert (In b0 (s_blocks s)) as Hin by (apply Hpp; apply in_or_app; auto). apply (g_lt _ _ I) in Hin. unfold nb. lia.
  - apply (ubi_idx s3 (S si) ND'). intros k b0 Hk Hn. change (s_blocks s3) with (pre ++ [nb] ++ post) in Hn.
    destruct (Nat.lt_ge_cases k si) as [L|L].
    + rewrite nth_error_app1 in Hn by lia. unfold bidx.
      assert (In b0 (s_blocks s)) as Hin by (apply Hpp; apply in_or_app; left; eapply nth_error_In; eassumption).
      rewrite G3 by (apply Hfresh; assumption). apply (g_idx _ _ I). rewrite E, nth_error_app1 by lia. exact Hn.
    + assert (k = si) as -> by lia. rewrite nth_error_app2, Lpre, Nat.sub_diag in Hn by lia. cbn in Hn. injection Hn as <-.
      unfold bidx. rewrite G3n. reflexivity.
  - intros b0 H0. assert (b0 <> nb) as N by (apply Hfresh, Hpp; assumption).
    unfold bsz, blnl, s3'. rewrite ubi_toks. unfold toks.
    fold (bsz (update_block_indexes s3 (Z.of_nat (S si))) b0) (blnl (update_block_indexes s3 (Z.of_nat (S si))) b0).
    rewrite ubi_bsz, ubi_blnl. unfold bsz, blnl. rewrite G3 by assumption. auto.
  - cbn [flat_map]. unfold s3'. rewrite ubi_toks. unfold toks. rewrite G3n. apply app_nil_r.
  - apply (nodup_splice _ _ R); [exact NDa|exact NDt|].
    intros t Ht. destruct (Hv t Ht) as [Hn|Hr]; [left|right; assumption]. rewrite <- Ea. exact Hn.
  - exact Hsz.
  - intros t Hn Ho. rewrite Hh. destruct (in_dec Pos.eq_dec t R) as [Hr|]; [|reflexivity].
    exfalso. apply Ho. rewrite Eold. apply in_or_app; right; apply in_or_app; auto.
  - intros t Hn Ho. rewrite Hh. destruct (in_dec Pos.eq_dec t R) as [|Hr]; [reflexivity|]. exfalso.
    rewrite Eold in Ho. apply Hn. unfold NT. apply in_app_or in Ho as [?|Ho]; [apply in_or_app; auto|].
    apply in_app_or in Ho as [?|?]; [contradiction|apply in_or_app; right; apply in_or_app; auto].
  - intros b0 [<-|[]] Hx. exfalso. apply Hx. reflexivity.
  - split; [exact I'|]. split; [exact Ea'|]. split; [|split; [exact Hsz|]].
    + unfold s3'. rewrite ubi_blocks. change (s_blocks s3) with (pre ++ [nb] ++ post).
      rewrite nth_error_app2, Lpre, Nat.sub_diag by lia. reflexivity.
    + split; [unfold s3'; rewrite ubi_len; reflexivity|]. split; [exact Esid|exact Hraw].
Qed.
End Multi.
