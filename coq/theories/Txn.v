(* Model of autobean_refactor/models/transaction.py: the payee / narration pair on top of the three
   string slots of the generated Transaction (string0 is `[NEVER]` in the grammar), and of the
   generic optional value property (internal/value_properties.py: optional_*_property.__set__ on top
   of optional_node_property) over an abstract record of slots.  Strings are opaque Z codes; the code
   of EscapedString.from_value('') is EMPTY.  No proofs here. *)
From AB Require Import Prelude.

Definition EMPTY : Z := 0.

Record txn := mktxn { t_s0 : option Z; t_s1 : option Z; t_s2 : option Z }.

(* Transaction.from_parsed_children: `if string1 is not None and string2 is None:
   string1, string2 = string0, string1` (string0 itself is passed on unchanged) *)
Definition from_parsed (s0 s1 s2 : option Z) : txn :=
  match s1, s2 with
  | Some _, None => mktxn s0 s0 s1
  | _, _ => mktxn s0 s1 s2
  end.

Definition raw_payee (t : txn) := t_s1 t.
Definition raw_narration (t : txn) := t_s2 t.

(* raw_narration.setter *)
Definition raw_set_narration (t : txn) (v : option Z) : txn :=
  let v' := match v, raw_payee t with
            | None, Some _ => Some EMPTY
            | _, _ => v
            end in
  mktxn (t_s0 t) (t_s1 t) v'.                      (* self.raw_string2 = value *)

(* raw_payee.setter *)
Definition raw_set_payee (t : txn) (v : option Z) : txn :=
  let t1 := match v, raw_narration t with
            | Some _, None => raw_set_narration t (Some EMPTY)
            | _, _ => t
            end in
  mktxn (t_s0 t1) v (t_s2 t1).                     (* self.raw_string1 = value *)

(* optional_string_property.__set__: update in place when both present, else the raw setter *)
Definition set_payee (t : txn) (v : option Z) : txn :=
  match raw_payee t, v with
  | Some _, Some x => mktxn (t_s0 t) (Some x) (t_s2 t)
  | _, _ => raw_set_payee t v
  end.

Definition set_narration (t : txn) (v : option Z) : txn :=
  match raw_narration t, v with
  | Some _, Some x => mktxn (t_s0 t) (t_s1 t) (Some x)
  | _, _ => raw_set_narration t v
  end.

Inductive top := OPayee (v : option Z) | ONarration (v : option Z).
Definition tapply (t : txn) (o : top) : txn :=
  match o with OPayee v => set_payee t v | ONarration v => set_narration t v end.
Definition trun (t : txn) (ops : list top) : txn := fold_left tapply ops t.

(* what print followed by parse does to the strings: the printer emits the present slots in order,
   the grammar gives the first string to the first `_optional_string` (string0 is never produced) *)
Definition reparse (t : txn) : txn :=
  match t_s0 t, t_s1 t, t_s2 t with
  | None, Some a, Some b => from_parsed None (Some a) (Some b)
  | None, Some a, None => from_parsed None (Some a) None
  | None, None, Some b => from_parsed None (Some b) None
  | None, None, None => from_parsed None None None
  | Some _, _, _ => t                               (* three strings do not parse; excluded by TInv *)
  end.

(* ---- specification: a pair of optionals with "payee present => narration present" ---------- *)
Record tspec := mktspec { ts_payee : option Z; ts_narration : option Z }.
Definition tabs (t : txn) : tspec := mktspec (raw_payee t) (raw_narration t).

Definition ts_apply (a : tspec) (o : top) : tspec :=
  match o with
  | OPayee (Some p) =>
    mktspec (Some p) (match ts_narration a with Some n => Some n | None => Some EMPTY end)
  | OPayee None => mktspec None (ts_narration a)
  | ONarration (Some n) => mktspec (ts_payee a) (Some n)
  | ONarration None =>
    mktspec (ts_payee a) (match ts_payee a with Some _ => Some EMPTY | None => None end)
  end.
Definition ts_run (a : tspec) (ops : list top) : tspec := fold_left ts_apply ops a.

Definition tinv_b (t : txn) : bool :=
  match t_s0 t with Some _ => false | None =>
    match t_s1 t, t_s2 t with Some _, None => false | _, _ => true end end.

(* ---- a plain optional value property over a record of independent slots -------------------
   (optional_string/decimal/date_property on an optional_node_property of a generated class)
   slots are numbered; a slot holds the value of the node, None when the node is absent *)
Definition slots := list (option Z).

Fixpoint slot_get (d : slots) (i : nat) : option Z :=
  match d, i with
  | [], _ => None
  | x :: _, O => x
  | _ :: r, S j => slot_get r j
  end.

Fixpoint slot_put (d : slots) (i : nat) (v : option Z) : slots :=
  match d, i with
  | [], _ => []
  | _ :: r, O => v :: r
  | x :: r, S j => x :: slot_put r j v
  end.

Definition slot_set (d : slots) (i : nat) (v : option Z) : slots :=
  match slot_get d i, v with
  | Some _, Some x => slot_put d i (Some x)      (* current.value = value *)
  | _, _ => slot_put d i v                       (* inner_property.__set__(from_value(value) | None) *)
  end.
