(* Model of autobean_refactor/models/transaction.py: the payee / narration pair on top of the three
   string slots of the generated Transaction (string0 is `[NEVER]` in the grammar), and of the
   generic optional value property (internal/value_properties.py: optional_*_property.__set__ on top
   of optional_node_property) over an abstract record of slots.  Strings are opaque Z codes; the code
   of EscapedString.from_value('') is EMPTY.  No proofs here. *)
From AB Require Import Prelude.

Definition EMPTY : Z := 0.

Record txn := mktxn { t_s0 : option Z; t_s1 : option Z; t_s2 : option Z }.

(* Transaction.from_parsed_children: `if string1 is not None and string2 is None:
   string1, string2 = string0, string1` (string0 itself is passed on unchanged) *)
Definition from_parsed (s0 s1 s2 : option Z) : txn :=
  match s1, s2 with
  | Some _, None => mktxn s0 s0 s1
  | _, _ => mktxn s0 s1 s2
  end.

Definition raw_payee (t : txn) := t_s1 t.
Definition raw_narration (t : txn) := t_s2 t.

(* raw_narration.setter *)
Definition raw_set_narration (t : txn) (v : option Z) : txn :=
  let v' := match v, raw_payee t with
            | None, Some _ => Some EMPTY
            | _, _ => v
            end in
  mktxn (t_s0 t) (t_s1 t) v'.                      (* self.raw_string2 = value *)

(* raw_payee.setter: string1 is assigned first (it may refuse the value), then the implied narration *)
Definition raw_set_payee (t : txn) (v : option Z) : txn :=
  let needs_narration := match v, raw_narration t with Some _, None => true | _, _ => false end in
  let t1 := mktxn (t_s0 t) v (t_s2 t) in          (* self.raw_string1 = value *)
  if needs_narration then raw_set_narration t1 (Some EMPTY) else t1.

(* optional_string_property.__set__: update in place when both present, else the raw setter *)
Definition set_payee (t : txn) (v : option Z) : txn :=
  match raw_payee t, v with
  | Some _, Some x => mktxn (t_s0 t) (Some x) (t_s2 t)
  | _, _ => raw_set_payee t v
  end.

Definition set_narration (t : txn) (v : option Z) : txn :=
  match raw_narration t, v with
  | Some _, Some x => mktxn (t_s0 t) (t_s1 t) (Some x)
  | _, _ => raw_set_narration t v
  end.

Inductive top := OPayee (v : option Z) | ONarration (v : option Z).
Definition tapply (t : txn) (o : top) : txn :=
  match o with OPayee v => set_payee t v | ONarration v => set_narration t v end.
Definition trun (t : txn) (ops : list top) : txn := fold_left tapply ops t.

(* what print followed by parse does to the strings: the printer emits the present slots in order,
   the grammar gives the first string to the first `_optional_string` (string0 is never produced) *)
Definition reparse (t : txn) : txn :=
  match t_s0 t, t_s1 t, t_s2 t with
  | None, Some a, Some b => from_parsed None (Some a) (Some b)
  | None, Some a, None => from_parsed None (Some a) None
  | None, None, Some b => from_parsed None (Some b) None
  | None, None, None => from_parsed None None None
  | Some _, _, _ => t                               (* three strings do not parse; excluded by TInv *)
  end.

(* ---- specification: a pair of optionals with "payee present => narration present" ---------- *)
Record tspec := mktspec { ts_payee : option Z; ts_narration : option Z }.
Definition tabs (t : txn) : tspec := mktspec (raw_payee t) (raw_narration t).

Definition ts_apply (a : tspec) (o : top) : tspec :=
  match o with
  | OPayee (Some p) =>
    mktspec (Some p) (match ts_narration a with Some n => Some n | None => Some EMPTY end)
  | OPayee None => mktspec None (ts_narration a)
  | ONarration (Some n) => mktspec (ts_payee a) (Some n)
  | ONarration None =>
    mktspec (ts_payee a) (match ts_payee a with Some _ => Some EMPTY | None => None end)
  end.
Definition ts_run (a : tspec) (ops : list top) : tspec := fold_left ts_apply ops a.

Definition tinv_b (t : txn) : bool :=
  match t_s0 t with Some _ => false | None =>
    match t_s1 t, t_s2 t with Some _, None => false | _, _ => true end end.

(* ---- value properties over a record of independent slots ---------------------------------------
   internal/value_properties.py: required_value_property and optional_{string,indented_string,decimal,
   date}_property on top of required_/optional_node_property of a generated class.
   A slot holds the node of one field (None = absent optional field); a node has an identity and a
   token text.  The codec of slot i (inner type's from_value/_format_value and _parse_value; C12) is a
   parameter.  Values are opaque Z codes. *)
Section ValueProps.
  Variable T : Type.                      (* token text *)
  Variable fmt : nat -> Z -> T.           (* slot i: text of inner_type.from_value(v) = text after node.value = v *)
  Variable parse : nat -> T -> Z.         (* slot i: node.value *)

  Record vnode := mkvnode { vn_id : Z; vn_text : T }.
  Record vrec := mkvrec { vr_slots : list (option vnode); vr_next : Z }.   (* vr_next: next fresh identity *)

  Fixpoint vput (l : list (option vnode)) (i : nat) (x : option vnode) : list (option vnode) :=
    match l, i with
    | [], _ => []
    | _ :: r, O => x :: r
    | y :: r, S j => y :: vput r j x
    end.

  (* _get: inner.value if inner is not None else None *)
  Definition vget (r : vrec) (i : nat) : option Z :=
    match nth_error (vr_slots r) i with
    | Some (Some n) => Some (parse i (vn_text n))
    | _ => None
    end.

  (* optional_*_property.__set__ *)
  Definition opt_set (r : vrec) (i : nat) (v : option Z) : vrec :=
    match nth_error (vr_slots r) i, v with
    | Some (Some n), Some x =>              (* current.value = value: same node, new text *)
      mkvrec (vput (vr_slots r) i (Some (mkvnode (vn_id n) (fmt i x)))) (vr_next r)
    | Some None, Some x =>                  (* inner.__set__(inner_type.from_value(value)): a new node *)
      mkvrec (vput (vr_slots r) i (Some (mkvnode (vr_next r) (fmt i x)))) (vr_next r + 1)
    | Some _, None =>                       (* inner.__set__(None): the node is removed *)
      mkvrec (vput (vr_slots r) i None) (vr_next r)
    | None, _ => r
    end.

  (* required_value_property.__set__: inner.value = value (the node is always there) *)
  Definition req_set (r : vrec) (i : nat) (x : Z) : vrec * res unit :=
    match nth_error (vr_slots r) i with
    | Some (Some n) => (mkvrec (vput (vr_slots r) i (Some (mkvnode (vn_id n) (fmt i x)))) (vr_next r), Ok tt)
    | _ => (r, Err ModelStuck)
    end.
End ValueProps.
Arguments mkvnode {T}. Arguments vn_id {T}. Arguments vn_text {T}.
Arguments mkvrec {T}. Arguments vr_slots {T}. Arguments vr_next {T}.
Arguments vput {T}. Arguments vget {T}. Arguments opt_set {T}. Arguments req_set {T}.
