(* C17 model: autobean_refactor/models/internal/spacing_accessors.py over the token list of a store.
   A document is the list of tokens of its TokenStore; a token is (kind, raw_text). Zero-width
   tokens (Eol, Placeholder, DedentMark, ...) are KOther with text []. Object identity of tokens
   is their position in the list; `token_store.get_next` / `get_prev` walk the list forwards /
   backwards, so the `succ` parameter of `_find_spacing` becomes "the list in travel order".
   No proofs in this file. *)
From AB Require Import Prelude.

Inductive kind := KWhitespace | KNewline | KOther.
Record tok := mktok { kind_of : kind; text : str }.

Definition kind_eqb (a b : kind) : bool :=
  match a, b with
  | KWhitespace, KWhitespace | KNewline, KNewline | KOther, KOther => true
  | _, _ => false
  end.
Definition tok_eqb (a b : tok) : bool := kind_eqb (kind_of a) (kind_of b) && list_eqb Z.eqb (text a) (text b).

(* isinstance(token, Newline | Whitespace) *)
Definition is_spacing (t : tok) : bool := match kind_of t with KOther => false | _ => true end.
(* not token.raw_text *)
Definition is_empty (t : tok) : bool := match text t with [] => true | _ :: _ => false end.
Definition nonempty (t : tok) : bool := negb (is_empty t).

(* _tokens_to_text *)
Definition txt (l : list tok) : str := concat (map text l).

(* ---- _text_to_tokens: re.findall(r'([ \t]+)|(\r*\n)', text), one Whitespace / Newline per match.
   findall scans left to right; at a position where neither alternative matches it advances by one
   character, i.e. characters outside the two alternatives are dropped. Written as one pass with
   the pending blank run `ws` and the pending run of '\r' `crs` (at most one is non-empty):
   a '\r' run only becomes (part of) a token when a '\n' follows it immediately. *)
Definition SP : Z := 32.
Definition TAB : Z := 9.
Definition is_blank (c : Z) : bool := (c =? SP) || (c =? TAB).
Definition flush_ws (ws : str) : list tok := match ws with [] => [] | _ :: _ => [mktok KWhitespace ws] end.

Fixpoint text_to_tokens_from (s ws crs : str) : list tok :=
  match s with
  | [] => flush_ws ws
  | c :: r =>
    if is_blank c then text_to_tokens_from r (ws ++ [c]) []
    else if c =? CR then flush_ws ws ++ text_to_tokens_from r [] (crs ++ [c])
    else if c =? NL then flush_ws ws ++ mktok KNewline (crs ++ [NL]) :: text_to_tokens_from r [] []
    else flush_ws ws ++ text_to_tokens_from r [] []
  end.
Definition text_to_tokens (s : str) : list tok := text_to_tokens_from s [] [].

(* ---- _find_spacing(token, succ), `l` = the tokens reached by token, succ(token), ... in order *)
(* first loop: while token is not None and not token.raw_text: token = succ(token) *)
Fixpoint take_empty (l : list tok) : list tok :=
  match l with t :: r => if is_empty t then t :: take_empty r else [] | [] => [] end.
Fixpoint skip_empty (l : list tok) : list tok :=
  match l with t :: r => if is_empty t then skip_empty r else l | [] => [] end.
(* second loop: while isinstance(token, Newline | Whitespace): visited tokens / where it stops *)
Fixpoint sp_run (l : list tok) : list tok :=
  match l with t :: r => if is_spacing t then t :: sp_run r else [] | [] => [] end.
Fixpoint sp_rest (l : list tok) : list tok :=
  match l with t :: r => if is_spacing t then sp_rest r else l | [] => [] end.
(* ... if token.raw_text: tokens.append(token) *)
Definition find_spacing (l : list tok) : list tok := filter nonempty (sp_run (skip_empty l)).

(* ---- the setters, in travel order: `new` is what ends up adjacent to the model, in travel order.
   current_tokens non-empty: token_store.splice(tokens, current_tokens[0], current_tokens[-1])
     removes the store range from the first to the last kept token (the head of the visited run is
     the first kept token, because the first loop stopped on a token with text; tokens of the run
     behind the last kept one have no text and stay) and puts `tokens` there;
   current_tokens empty: insert_after(last_token, tokens) / insert_before(first_token, tokens):
     directly next to the model, in front of the zero-width tokens. *)
Definition trail_empty (l : list tok) : list tok := rev (take_empty (rev l)).
Definition core (l : list tok) : list tok := rev (skip_empty (rev l)).

Definition set_dir (l new : list tok) : list tok :=
  match find_spacing l with
  | [] => new ++ l
  | _ :: _ =>
    take_empty l ++ new ++ trail_empty (sp_run (skip_empty l)) ++ sp_rest (skip_empty l)
  end.

(* ---- the four accessors on a document `d`; `i` = index of model.first_token, `j` = index of
   model.last_token. (token_store is None is handled in SpacingRun: getters give (), setters raise.) *)
Definition raw_spacing_after (d : list tok) (j : nat) : list tok := find_spacing (skipn (S j) d).
Definition raw_spacing_before (d : list tok) (i : nat) : list tok := rev (find_spacing (rev (firstn i d))).
Definition spacing_after (d : list tok) (j : nat) : str := txt (raw_spacing_after d j).
Definition spacing_before (d : list tok) (i : nat) : str := txt (raw_spacing_before d i).

Definition set_raw_spacing_after (d : list tok) (j : nat) (new : list tok) : list tok :=
  firstn (S j) d ++ set_dir (skipn (S j) d) new.
Definition set_raw_spacing_before (d : list tok) (i : nat) (new : list tok) : list tok :=
  rev (set_dir (rev (firstn i d)) (rev new)) ++ skipn i d.
(* where model.first_token sits after the assignment (the token object is the same, its position moved) *)
Definition moved_first (d : list tok) (i : nat) (new : list tok) : nat :=
  length (set_dir (rev (firstn i d)) (rev new)).
Definition set_spacing_after (d : list tok) (j : nat) (s : str) : list tok :=
  set_raw_spacing_after d j (text_to_tokens s).
Definition set_spacing_before (d : list tok) (i : nat) (s : str) : list tok :=
  set_raw_spacing_before d i (text_to_tokens s).

(* ---- vocabulary of the statements *)
(* the strings of the quantifier: (' ' | '\t' | '\r'* '\n')*, as a recogniser with one bit of state
   (a '\r' run is pending and must be closed by '\n') *)
Fixpoint lang_b (s : str) (pending : bool) : bool :=
  match s with
  | [] => negb pending
  | c :: r =>
    if is_blank c then negb pending && lang_b r false
    else if c =? CR then lang_b r true
    else if c =? NL then lang_b r false
    else false
  end.
Definition spacing_string_b (s : str) : bool := lang_b s false.

(* a token a model can end / start with and that is visible: has text and is not spacing *)
Definition visible (t : tok) : bool := nonempty t && negb (is_spacing t).
(* characters that count as blank in the printed text *)
Definition blank_char (c : Z) : bool := is_blank c || (c =? CR) || (c =? NL).
Definition strip_blank (s : str) : str := filter (fun c => negb (blank_char c)) s.
(* spacing tokens of a parsed document only hold blanks *)
Definition blank_tok (t : tok) : bool := negb (is_spacing t) || forallb blank_char (text t).

(* the run of blanks and newlines adjacent to the model IN THE PRINTED TEXT, in travel order: zero-width
   tokens contribute no characters, so they are invisible; the run is made of the Newline/Whitespace
   tokens up to the first token that prints something else (indentation is an Indent token / part of
   a comment token: docs/special/indents.md, "indent is not considered spacing") *)
Definition text_run (l : list tok) : list tok := sp_run (filter nonempty l).
(* a zero-width mark (not Newline/Whitespace) splits that run: the token scan stops at it *)
Definition split_by_mark (l : list tok) : bool :=
  match skip_empty (sp_rest (skip_empty l)) with t :: _ => is_spacing t | [] => false end.

(* gap shape E* S* E*: executable check used on every document the harness parses *)
Definition gap_shape_b (g : list tok) : bool :=
  forallb is_empty (sp_rest (skip_empty g)).
