(* Glue for the C09 correspondence of MetaValue.v (meta_value_internal.py): the real MetaItem.value setter over
   (current raw kind x new value kind).  Decimals are NumExprRun's free terms; token texts come from Tokens.v. *)
From AB Require Import Prelude NumExpr NumExprRun Tokens MetaValue.

Definition content_eqb (a b : content) : bool :=
  match a, b with
  | RString s, RString t | RDate s, RDate t | RBool s, RBool t | RAccount s, RAccount t
  | RCurrency s, RCurrency t | RTag s, RTag t | RNull s, RNull t => str_eqb s t
  | RNumber e, RNumber f => add_eqb e f
  | RAmount e c, RAmount f d => add_eqb e f && str_eqb c d
  | _, _ => false
  end.
Definition rawm_eqb (a b : rawm) : bool := (rm_id a =? rm_id b) && content_eqb (rm_c a) (rm_c b).

Definition mdate_eqb (a b : MetaValue.date) : bool :=
  let '(y, m, d) := a in let '(y', m', d') := b in (y =? y') && (m =? m') && (d =? d').
Definition mval_eqb (a b : mval sym) : bool :=
  match a, b with
  | MNone, MNone => true
  | MStr s, MStr t => str_eqb s t
  | MDate d, MDate e => mdate_eqb d e
  | MDateTime d t, MDateTime e u => mdate_eqb d e && (t =? u)
  | MDec x, MDec y => sym_eqb x y
  | MBool x, MBool y => Bool.eqb x y
  | MRaw r, MRaw s => rawm_eqb r s
  | _, _ => false
  end.

Definition m_str_value (raw : str) : str := match string_parse raw with Ok v => v | Err _ => [] end.
Definition m_date_value (raw : str) : MetaValue.date := match date_parse raw with Ok v => v | Err _ => (0, 0, 0) end.
Definition m_bool_value (raw : str) : bool := match bool_parse raw with Ok v => v | Err _ => false end.

Definition Sget := get sym SAdd SSub SMul SDiv SNeg SLit m_str_value m_date_value m_bool_value.
Definition Sset := set sym s_abs s_ltz s_text string_format (date_format DatePadded) bool_format.
Definition Sfrom_value := from_value sym s_abs s_ltz s_text string_format (date_format DatePadded) bool_format.
Definition Supdate_value := update_value sym s_abs s_ltz s_text string_format (date_format DatePadded) bool_format.

(* one assignment `item.value = v`: the slot before, the value, whether a raw value spans its own store, the
   outcome (0 ok / 1 ValueError), the slot afterwards (identity 1000000 = an object that did not exist before),
   and what `item.value` reads afterwards (a Decimal as the evaluation term of its printed text) *)
Record mcase := mkmcase {
  mc_slot : option rawm; mc_v : mval sym; mc_det : bool;
  mc_exc : Z; mc_after : option rawm; mc_read : mval sym
}.

Definition check_mcase (c : mcase) : bool :=
  let '(s, r) := Sset (mc_slot c) (mc_v c) 1000000 (mc_det c) in
  opt_eqb rawm_eqb s (mc_after c)
  && mval_eqb (Sget s) (mc_read c)
  && match r with Ok _ => mc_exc c =? 0 | Err _ => mc_exc c =? 1 end.

(* the two module functions on their own: update_value(raw, v) -> (raw after, returned bool);
   from_value(v) -> content of what it returns (None for None) *)
Definition check_ucase (c : option rawm * mval sym * bool * option rawm) : bool :=
  let '(r, v, ok, r') := c in
  let '(m, b) := Supdate_value r v in Bool.eqb b ok && opt_eqb rawm_eqb m r'.
Definition check_fcase (c : mval sym * option rawm) : bool :=
  let '(v, r) := c in opt_eqb rawm_eqb (Sfrom_value 1000000 v) r.
